"""HTTP+SSE satellite of the connection properties C01, C02, C03, C05 (legacy transport of MCP 2024-11-05, mcp/sse.go).

  spec/SSESat.tla      composed model: 1-2 real SDK session pairs over SSEHandler / SSEServerTransport / SSEClientTransport and
                       the jsonrpc2 connections on both ends; one action per protocol step; the clauses of C01/C02/C03/C05
                       restated for this transport (invariants, action properties, termination under weak fairness)
  spec/SSESatMC.tla    constant sets, the seam-level ("settled") next-state relation for the transition cover, witnesses
  spec/SSESatGen.tla   the seam-level behaviours with a history variable (-simulate)
  spec/SSESatMon.tla   the monitor: clauses C01.Sse*, C02.Sse*, C03.Sse*, C05.Sse* over the observations
  harness/mcp/sse_sat_test.go   real mcp.Client + SSEClientTransport against a real SSEHandler + mcp.Server through a scripted
                       http.RoundTripper, under testing/synctest

`satellite(v, pid, tier, seed, replay_scn=None)` adds the violations of property pid (clauses prefixed pid + ".") to an existing
vlib.Verdict; replay objects carry "ssesat_scenario".  Files in vlib.outdir(pid) with prefix "sse_".
Stand-alone: python3 tools/ssesat.py <PID> [quick|thorough] [seed]."""
import json, os, random, re, sys, threading, time
from collections import deque
sys.path.insert(0, os.path.dirname(os.path.abspath(__file__)))
import vlib, graphwalk

HARNESS = ["mcp/sse_sat_test.go"]
PIDS = ("C01", "C02", "C03", "C05")
SAFETY = ("TypeOK C01_OwnResponse C01_NotBlockedAfterTermination C01_ErrorHasCause C02_AnsweredOnce C02_AnsweredOnOwnSession "
          "C02_AnsweredWhenUsable C02_RejectedNotDropped C03_NotificationCompletesFirst C03_DispatchInSendOrder C03_SenderOrder "
          "C05_HandlersFinishBeforeTransportClosed C05_NoDispatchAfterClose C05_SessionRemoved")
# (config, workers)
MC = {"quick": [("SSESat_mc_q1.cfg", 1), ("SSESat_mc_q2.cfg", 1), ("SSESat_mc_q3.cfg", 1), ("SSESat_live1.cfg", 1)],
      "thorough": [("SSESat_mc_q1.cfg", 1), ("SSESat_mc_q2.cfg", 1), ("SSESat_mc_q3.cfg", 1), ("SSESat_mc_q4.cfg", 2),
                   ("SSESat_mc_t1.cfg", 3), ("SSESat_mc_t2.cfg", 3), ("SSESat_mc_t3.cfg", 1), ("SSESat_live1.cfg", 1), ("SSESat_live2.cfg", 2)]}
LEADS = [("SSESat_lead_route.cfg", ("C01_OwnResponse", "C02_AnsweredOnOwnSession")), ("SSESat_lead_async.cfg", ("C03_NotificationCompletesFirst",)),
         ("SSESat_lead_noclose.cfg", ("C05_Terminates", "C01_CallsEndOnBreak", "temporal")), ("SSESat_lead_inject.cfg", ("C01_ErrorHasCause",))]
IDEAL = ["SSESat_ideal_inject.cfg"]
WITNESSES = [("SSESat_mc_q3.cfg", "W_NoOverlappingIds"), ("SSESat_mc_q2.cfg", "W_NoLostResponse"), ("SSESat_mc_q2.cfg", "W_NoRefusedCall"),
             ("SSESat_mc_q2.cfg", "W_NoPost404"), ("SSESat_mc_q2.cfg", "W_NoPost400"), ("SSESat_mc_q1.cfg", "W_NoNestedAnswered"),
             ("SSESat_mc_q2.cfg", "W_NoLateAccept"), ("SSESat_mc_q2.cfg", "W_NoDrainWhileBusy"), ("SSESat_mc_q4.cfg", "W_NoQueuedBehindNote"),
             ("SSESat_mc_q2.cfg", "W_NoFailFast")]
# (config, at most so many cover paths are run - a seeded sample when there are more)
COVER = {"quick": [("SSESat_cover_a.cfg", 45), ("SSESat_cover_b.cfg", 45), ("SSESat_cover_c.cfg", 45), ("SSESat_cover_d.cfg", 45),
                   ("SSESat_cover_e.cfg", 30)],
         "thorough": [("SSESat_cover_a.cfg", None), ("SSESat_cover_b.cfg", None), ("SSESat_cover_c.cfg", None), ("SSESat_cover_d.cfg", None),
                      ("SSESat_cover_e.cfg", None), ("SSESat_cover_f.cfg", 1500), ("SSESat_cover_g.cfg", 1500)]}
INTERNAL_ACTIONS = ["PostArrive", "PostPush", "PostBack", "SrvRead", "SrvDispatch", "CliScan", "CliReaderExit", "CliReadEOF", "CliRead",
                    "CliDispatch", "CliFollowUp", "CliConnClose", "CliDone", "SrvConnClose", "SrvReadEOF", "SrvDone", "GetWake", "GetExit",
                    "SrvRespond", "CliRespond"]
ENV_ACTIONS = ["Connect", "CCall", "CNote", "HRet", "HNest", "HAbandon", "CHRet", "SNRet", "SNote", "CNRet", "Cut", "ArmPF", "CClose",
               "SClose", "HoldStream", "RelStream", "HoldPost", "RelPost"]

# hand-written corner scripts: shapes the bounded generators reach only with luck
CORNERS = [
    # the response is on its way when the GET is cut: the call must end (with an error)
    ("response-in-flight-cut", "connect|s1 ccall|s1|1 holdstream|s1 hret|s1|1 cut|s1|B"),
    ("response-in-flight-cutQ", "connect|s1 ccall|s1|1 holdstream|s1 hret|s1|1 cut|s1|Q relstream|s1 ccall|s1|2"),
    ("cut-then-handler-returns", "connect|s1 ccall|s1|1 ccall|s1|2 cut|s1|Q hret|s1|1 hret|s1|2"),
    ("cut-while-nested", "connect|s1 ccall|s1|1 hnest|s1|1 cut|s1|B chret|s1|1 habandon|s1|1 hret|s1|1"),
    ("cutQ-while-nested-answer-held", "connect|s1 ccall|s1|1 hnest|s1|1 holdpost|s1 chret|s1|1 cut|s1|Q relpost|s1 hret|s1|1"),
    # two sessions, the same request ids in flight, answers in the opposite order
    ("overlapping-ids-crossed-order", "connect|s1 connect|s2 ccall|s1|1 ccall|s2|1 ccall|s2|2 ccall|s1|2 hret|s2|2 hret|s1|1 hret|s1|2 hret|s2|1"),
    ("overlapping-ids-nested", "connect|s1 connect|s2 ccall|s1|1 ccall|s2|1 hnest|s2|1 hnest|s1|1 chret|s1|1 chret|s2|1 hret|s2|1 hret|s1|1"),
    ("overlapping-ids-one-dies", "connect|s1 connect|s2 ccall|s1|1 ccall|s2|1 cut|s1|B hret|s1|1 hret|s2|1 ccall|s2|2 hret|s2|2"),
    ("overlapping-ids-notes", "connect|s1 connect|s2 cnote|s1|1|1 cnote|s2|1|1 snret|s2|1 snret|s1|1 snote|s1|1 snote|s2|1 cnret|s1|1 hret|s1|1|true hret|s2|1|true cnret|s2|1"),
    # a POST for a session that has ended / is ending
    ("post-after-server-close-eof-held", "connect|s1 holdstream|s1 sclose|s1 ccall|s1|1 cnote|s1|1 relstream|s1"),
    ("post-after-server-close-two-sessions", "connect|s1 connect|s2 holdstream|s1 sclose|s1 ccall|s1|1 ccall|s2|1 hret|s2|1 relstream|s1"),
    ("stray-post-after-close", "connect|s1 connect|s2 spost|s1 cclose|s1 spost|s1 spost|s2 sclose|s2 spost|s2"),
    ("stray-post-live", "connect|s1 ccall|s1|1 spost|s1 hret|s1|1 spost|s1"),
    ("post-held-across-close", "connect|s1 holdpost|s1 ccall|s1|1 sclose|s1 relpost|s1"),
    ("posts-while-draining-client-gone", "connect|s1 ccall|s1|1 cut|s1|B spost|s1 spost|s1 spost|s1 spost|s1 hret|s1|1 spost|s1"),
    ("call-while-draining", "connect|s1 ccall|s1|1 sclose|s1 ccall|s1|2 cnote|s1|1 hret|s1|1"),
    ("call-while-client-gone", "connect|s1 connect|s2 ccall|s1|1 cut|s1|B ccall|s2|1 hret|s1|1 hret|s2|1"),
    # notifications hold the queue on both ends
    ("note-holds-queue-srv", "connect|s1 cnote|s1|1|1 cnote|s1|2 snret|s1|1 snret|s1|2 hret|s1|1"),
    ("note-holds-queue-cli", "connect|s1 ccall|s1|1 snote|s1|1 hnest|s1|1 snote|s1|2 cnret|s1|1 cnret|s1|2 chret|s1|1 hret|s1|1|true cnret|s1|3"),
    ("note-then-call-then-close", "connect|s1 cnote|s1|1|1 cclose|s1 snret|s1|1 hret|s1|1"),
    ("note-running-at-close", "connect|s1 cnote|s1|1 sclose|s1 ccall|s1|1 snret|s1|1"),
    ("client-note-running-at-close", "connect|s1 snote|s1|1 cclose|s1 snote|s1|2 cnret|s1|1"),
    # Close with everything in flight, from both sides at once
    ("both-close", "connect|s1 ccall|s1|1 hnest|s1|1 cclose|s1 sclose|s1 chret|s1|1 hret|s1|1"),
    ("close-with-nested-pending", "connect|s1 ccall|s1|1 hnest|s1|1 sclose|s1 chret|s1|1 hret|s1|1"),
    ("client-close-with-nested-pending", "connect|s1 ccall|s1|1 hnest|s1|1 cclose|s1 habandon|s1|1 hret|s1|1"),
    ("failed-posts", "connect|s1 armpf|s1|B ccall|s1|1 ccall|s1|2"),
    ("failed-post-after", "connect|s1 armpf|s1|A ccall|s1|1 hret|s1|1 ccall|s1|2"),
    ("failed-answer-post", "connect|s1 ccall|s1|1 hnest|s1|1 armpf|s1|A chret|s1|1 hret|s1|1"),
    ("call-after-everything", "connect|s1 ccall|s1|1 hret|s1|1 cclose|s1 ccall|s1|2 cnote|s1|1 snote|s1|1"),
    # back-to-back messages of one goroutine, both directions
    ("burst-s2c", "connect|s1 ccall|s1|1 hnest|s1|1|true cnret|s1|1 chret|s1|1 hret|s1|1|true cnret|s1|2"),
    ("burst-s2c-held", "connect|s1 ccall|s1|1 ccall|s1|2 holdstream|s1 hnest|s1|1|true hnest|s1|2|true relstream|s1 cnret|s1|1 cnret|s1|2 chret|s1|2 chret|s1|1 hret|s1|1 hret|s1|2"),
    ("burst-c2s", "connect|s1 connect|s2 cnote|s1|1|1 cnote|s2|1|1 cnote|s1|2|2 snret|s1|1 snret|s2|1 snret|s1|2 hret|s1|1 hret|s2|1 hret|s1|2"),
    # a stream element that is not a message event (keep-alive / reconnection hint of a proxy or server)
    ("other-then-response", "connect|s1 ccall|s1|1 inject|s1 hret|s1|1"),
]


def steps_of(text):
    return [s.split("|") for s in text.split()]


def mk_scenario(sid, steps, seed):
    return {"id": sid, "seed": seed, "steps": [[str(x) for x in st] for st in steps]}


def label_step(name, a):
    """Harness step of one seam-level environment action label of SSESatMC (None for SDK-internal actions)."""
    s = lambda i: "s%d" % a[i]
    if name == "ConnectS":
        return ["connect", s(0)]
    if name == "CCallS":
        return ["ccall", s(0), a[1]]
    if name == "CNoteS":
        return ["cnote", s(0), a[1], a[2]]
    if name in ("HRetS", "HNestS"):
        return [name[:-1].lower(), s(0), a[1], "true" if a[2] else "false"]
    if name in ("HAbandonS", "CHRetS", "SNRetS", "SNoteS", "CNRetS"):
        return [name[:-1].lower(), s(0), a[1]]
    if name == "CutS":
        return ["cut", s(0), a[1]]
    if name == "ArmPFS":
        return ["armpf", s(0), a[1]]
    if name in ("CCloseS", "SCloseS", "InjectS", "HoldStreamS", "RelStreamS", "HoldPostS", "RelPostS"):
        return [name[:-1].lower(), s(0)]
    return None


def env_cover(init, edges, maxlen, seed):
    """Paths from the initial state that together traverse every ENVIRONMENT edge of the seam-level graph (SDK-internal edges are
    only travelled)."""
    rnd = random.Random(seed)
    is_env = lambda lbl: graphwalk.parse_label(lbl)[0].endswith("S")
    pred, dq = {}, deque()
    for i in init:
        pred[i] = None
        dq.append(i)
    while dq:
        u = dq.popleft()
        for (lbl, v) in edges.get(u, []):
            if v not in pred:
                pred[v] = (u, lbl)
                dq.append(v)

    def path_to(n):
        p = []
        while pred[n] is not None:
            u, lbl = pred[n]
            p.append((u, lbl, n))
            n = u
        p.reverse()
        return p
    uncovered, total = {}, 0
    for u in pred:
        outs = [(lbl, v) for (lbl, v) in edges.get(u, []) if is_env(lbl)]
        if outs:
            uncovered[u] = set(outs)
            total += len(outs)

    def mark(u, lbl, v):
        if u in uncovered and (lbl, v) in uncovered[u]:
            uncovered[u].discard((lbl, v))
            if not uncovered[u]:
                del uncovered[u]
    paths = []
    while uncovered:
        cand = rnd.sample(sorted(uncovered), min(len(uncovered), 8))
        start = min(cand, key=lambda n: len(path_to(n)))
        steps = path_to(start)
        for (u, lbl, v) in steps:
            mark(u, lbl, v)
        cur = start
        nenv = sum(1 for x in steps if is_env(x[1]))
        while nenv < maxlen:
            if cur in uncovered:
                lbl, v = rnd.choice(sorted(uncovered[cur]))
                mark(cur, lbl, v)
                steps.append((cur, lbl, v))
                cur = v
                nenv += 1
                continue
            seen, q, tgt = {cur: None}, deque([cur]), None
            while q and len(seen) < 3000:
                y = q.popleft()
                if y in uncovered and y != cur:
                    tgt = y
                    break
                for (l2, z) in edges.get(y, []):
                    if z not in seen:
                        seen[z] = (y, l2)
                        q.append(z)
            if tgt is None:
                break
            hop, n = [], tgt
            while seen[n] is not None:
                y, l2 = seen[n]
                hop.append((y, l2, n))
                n = y
            hop.reverse()
            henv = sum(1 for x in hop if is_env(x[1]))
            if nenv + henv >= maxlen:
                break
            for (u, lbl, v) in hop:
                mark(u, lbl, v)
            steps.extend(hop)
            nenv += henv
            cur = tgt
        paths.append([graphwalk.parse_label(lbl) for (_, lbl, _) in steps])
    return paths, total


def cover_paths(cfgname, seed):
    wd = vlib.scratch("tlc-")
    dot = os.path.join(wd, "g.dot")
    res = vlib.run_tlc("SSESatMC", cfgname, workdir=wd, workers=1, timeout=900, heap_gb=3, extra_args=["-dump", "dot,actionlabels", dot])
    vlib.tlc_must_pass(res, cfgname)
    if not res.ok:
        raise vlib.MachineryError("cover model %s: %s" % (cfgname, res.violation))
    init, edges = graphwalk.parse_dot(dot)
    os.remove(dot)
    paths, total = env_cover(init, edges, maxlen=16, seed=seed)
    return res, paths, total, len(edges)


def simulate(cfgname, num, depth, seed):
    res = vlib.run_tlc("SSESatGen", cfgname, workers=1, timeout=900, heap_gb=3, simulate="num=%d" % num, depth=depth, seed=seed)
    if res.error or res.violation:
        raise vlib.MachineryError("SSESatGen simulation failed: %s %s\n%s" % (res.error, res.violation, res.stdout[-1500:]))
    m = re.search(r"The number of states generated: (\d+)", res.stdout)
    if m:
        res.generated = res.distinct = int(m.group(1))
    beh, last = [], None
    for p in res.printed:
        if not isinstance(p, dict) or "steps" not in p:
            continue
        if last is not None and (len(p["steps"]) <= len(last["steps"]) or p["steps"][:len(last["steps"])] != last["steps"]):
            beh.append(last)
        last = p
    if last is not None:
        beh.append(last)
    return res, beh


def random_scenario(rnd, i, seed):
    """seeded scripts beyond the model's bounds (three calls per session, several faults); steps that do not apply are skipped"""
    two = rnd.random() < .45
    names = ["s1", "s2"] if two else ["s1"]
    steps = [["connect", "s1"]]
    if two and rnd.random() < .7:
        steps.append(["connect", "s2"])
    nxt = {n: 1 for n in names}
    n = 6 + rnd.randrange(16)
    faults = 0
    while len(steps) < n:
        s = rnd.choice(names)
        k = rnd.randrange(40)
        ck = str(rnd.randrange(1, max(2, nxt[s])))
        if k < 7 and nxt[s] <= 3:
            steps.append(["ccall", s, str(nxt[s])])
            nxt[s] += 1
        elif k < 14:
            steps.append(["hret", s, ck, "true" if rnd.random() < .25 else "false"])
        elif k < 17:
            steps.append(["hnest", s, ck])
        elif k < 20:
            steps.append(["chret", s, ck])
        elif k < 21:
            steps.append(["habandon", s, ck])
        elif k < 24:
            fu = "0"
            if rnd.random() < .5 and nxt[s] <= 3:
                fu = str(nxt[s])
                nxt[s] += 1
            steps.append(["cnote", s, "0", fu])
        elif k < 26:
            steps.append(["snret", s, str(rnd.randrange(1, 3))])
        elif k < 28:
            steps.append(["snote", s, "0"])
        elif k < 30:
            steps.append(["cnret", s, str(rnd.randrange(1, 4))])
        elif k < 31 and two and ["connect", "s2"] not in steps:
            steps.append(["connect", "s2"])
        elif k < 36 and faults < 3:
            faults += 1
            f = rnd.choice([["cut", s, "B"], ["cut", s, "Q"], ["cclose", s], ["sclose", s], ["armpf", s, "B"], ["armpf", s, "A"]])
            steps.append(f)
        elif k < 38:
            steps.append([rnd.choice(["holdstream", "relstream", "holdpost", "relpost"]), s])
        elif k < 39:
            steps.append(["spost", s])
    return mk_scenario("rand%d" % i, steps, seed)


def run_jobs(jobs, budget):
    """jobs: (name, workers, callable). Never more than `budget` TLC workers at once."""
    results, errs, cond, used = {}, [], threading.Condition(), [0]

    def one(name, w, fn):
        with cond:
            while used[0] + w > budget:
                cond.wait()
            used[0] += w
        try:
            results[name] = fn()
        except Exception as ex:
            errs.append(ex)
        finally:
            with cond:
                used[0] -= w
                cond.notify_all()
    ths = [threading.Thread(target=one, args=j) for j in jobs]
    [t.start() for t in ths]
    return ths, results, errs


# --------------------------------------------------------------------------
# judging


def steps_of_trace(trows):
    out = []
    for r in trows:
        if r.get("ev") == "step":
            out.append([r.get("op")] + [r.get(k) for k in ("a1", "a2", "a3") if r.get(k) not in (None, "")])
        elif r.get("ev") == "script.end":
            break
    return out


def signature(clause, trows, upto, e):
    """<Clause>:<abstract scenario class>.  The class names the end of the failing observation (cli / srv / stream / post /
    at-rest), what went wrong and the FIRST fault the scenario had injected on the session concerned (none if none) - no step
    numbers, tags or random values."""
    before = trows[:upto + 1]
    s = e.get("s") or e.get("to") or (e.get("key") or "").split(".")[0]
    ev = e.get("ev")
    name = clause.split(".", 1)[1]
    if ev in ("quiesce", "final") and e.get("blocked"):
        s = e["blocked"][0].split(".")[0]
    fl = [r["kind"] for r in before if r.get("ev") == "fault" and (not s or r.get("s") == s)]
    inj = "inject" in fl
    fl = [f for f in fl if f != "inject"]
    first = fl[0] if fl else "none"
    if ev == "call.end":
        side = "cli" if e.get("dir") == "c2s" else "srv"
        if name == "SseOwnResponse" and e.get("kind") == "result":
            own = (e.get("payload") or "").startswith(s + ".")
            return "%s:%s:%s" % (clause, side, "crossed" if not own else "altered")
        if name == "SseOwnResponse":
            return "%s:%s:%s" % (clause, side, "err-after-other" if inj and first == "none" else "err-without-cause")
        return "%s:%s:%s:%s" % (clause, side, e.get("kind"), first)
    if ev in ("quiesce", "final"):
        return "%s:at-rest:%s" % (clause, first)
    if ev == "h.start":
        return "%s:%s-%s:%s" % (clause, e.get("side"), e.get("kind"), first)
    if ev in ("wire.s2c", "post.begin", "post.end"):
        return "%s:%s-%s:%s" % (clause, "stream" if ev == "wire.s2c" else "post", e.get("kind"), first)
    return "%s:%s:%s" % (clause, ev, first)


def run_harness(pid, rows, seed, timeout=1500):
    out = vlib.outdir(pid)
    scen = os.path.join(out, "sse_scenarios.ndjson")
    vlib.write_ndjson(scen, rows)
    obs = os.path.join(out, "sse_obs.ndjson")
    for f in (obs, obs + ".progress"):
        if os.path.exists(f):
            os.remove(f)
    rc, gout, wall = vlib.go_test("mcp", "^TestVerif_SSESat$", HARNESS, timeout=timeout,
                                  env={"VERIF_IN": scen, "VERIF_OUT": obs, "VERIF_SEED": seed})
    vlib.go_must_build(rc, gout, pid + " sse satellite")
    orows = vlib.read_ndjson(obs) if os.path.exists(obs) else []
    crashed = None
    if rc != 0:
        if "panic:" in gout or "fatal error:" in gout:
            if os.path.exists(obs + ".progress"):
                lines = open(obs + ".progress").read().splitlines()
                crashed = json.loads(lines[-1]) if lines else None
            crashed = (crashed, gout[-4000:])
        else:
            raise vlib.MachineryError("SSE satellite harness failed:\n" + gout[-3000:])
    if os.path.exists(obs + ".progress"):
        os.remove(obs + ".progress")
    if not orows and not crashed:
        raise vlib.MachineryError("SSE satellite harness produced no observations:\n" + gout[-2000:])
    return obs, orows, crashed


def satellite(v, pid, tier, seed, replay_scn=None, design=True, prefixes=None):
    """Adds the HTTP+SSE violations of property pid (clauses prefixed pid + ".") to v; returns the traces.
    prefixes: report the clauses of several properties at once (tools/checks/x08.py)."""
    prefixes = tuple(prefixes or (pid,))
    assert all(x in PIDS for x in prefixes)
    v.assumptions += [
        "sse: seam-level scheduling - between two environment actions both SDK halves of every session run to quiescence "
        "(testing/synctest); interleavings inside the SDK are explored by TLC on SSESat.tla only, except where a hold of the network "
        "(stream / POSTs), an armed POST failure or a gated handler pins them in the real code",
        "sse: HTTP is served in process (scripted RoundTripper; the hanging GET's response is a queue of complete SSE blocks); a cut "
        "makes the client's read fail and the server's writes fail, the server's request context ends at once (B) or at its next "
        "failed write (Q); a client that closes the body is seen by the server unless the network was cut before",
        "sse: scripted handlers ignore their context and return when told to; nested server->client calls use a context of their own; "
        "cancellation notices are C04's business and not modelled",
        "sse: session set-up (GET, endpoint event, initialize handshake) is one environment action of the model; TLC exhaustive "
        "results are for the stated small constants (1 session x <= 2 calls, 1 nested call, 1 notification each way, 1 fault; "
        "2 sessions x 1 call)",
    ]
    out = vlib.outdir(pid)
    rnd = random.Random(seed * 2750159 + int(re.sub(r'\D', '', pid) or 0))
    t0 = time.time()
    cov, rows = {}, []
    ths, results, errs = [], {}, []
    if replay_scn is not None:
        rows = [replay_scn]
    elif os.environ.get("SSESAT_ROWS"):     # experiments with changed code: re-run a saved scenario file
        rows = vlib.read_ndjson(os.environ["SSESAT_ROWS"])
        design = False
    else:
        jobs = []
        if design:
            for cfg, w in MC[tier]:
                jobs.append(("mc:" + cfg, w, (lambda c, w: lambda: vlib.run_tlc("SSESatMC", c, workers=w, timeout=1500,
                                                                                heap_gb=6 if tier == "thorough" else 3,
                                                                                coverage=(tier == "thorough" and c in ("SSESat_mc_q4.cfg", "SSESat_mc_t1.cfg", "SSESat_mc_q2.cfg", "SSESat_mc_q3.cfg", "SSESat_mc_t3.cfg"))))(cfg, w)))
            for cfg, _ in (LEADS if tier == "thorough" else LEADS[:1]):
                jobs.append(("lead:" + cfg, 1, (lambda c: lambda: vlib.run_tlc("SSESatMC", c, workers=1, timeout=600, heap_gb=2))(cfg)))
            if tier == "thorough":
                for cfg in IDEAL:
                    jobs.append(("mc:" + cfg, 1, (lambda c: lambda: vlib.run_tlc("SSESatMC", c, workers=1, timeout=600, heap_gb=2))(cfg)))
                for base, w in WITNESSES:
                    txt = open(os.path.join(vlib.SPEC, base)).read()
                    txt = re.sub(r"(?m)^(INVARIANTS|PROPERTIES).*\n", "", txt) + "INVARIANT %s\n" % w
                    jobs.append(("wit:" + w, 1, (lambda w, txt: lambda: vlib.run_tlc(
                        "SSESatMC", "wit.cfg", workdir=vlib.scratch("tlc-"), workers=1, timeout=600, heap_gb=2,
                        extra_files={"wit.cfg": txt}))(w, txt)))
        ths, results, errs = run_jobs(jobs, 2 if tier == "quick" else 3)   # never more than 4-5 TLC workers at once (shared machine)
        try:
            nsim = 40 if tier == "quick" else 500
            gths, gres, gerrs = run_jobs(
                [("cov:" + c, 1, (lambda c: lambda: cover_paths(c, seed))(c)) for (c, _) in COVER[tier]] +
                [("sim", 1, lambda: simulate("SSESat_gen.cfg", nsim, 110, seed))], 2)
            [t.join() for t in gths]
            if gerrs:
                raise gerrs[0]
            for i, (c, limit) in enumerate(COVER[tier]):
                res, paths, total, nodes = gres["cov:" + c]
                v.add_tlc(c + "(seam graph)", res)
                cov["graph_env_edges"] = cov.get("graph_env_edges", 0) + total
                cov["graph_nodes"] = cov.get("graph_nodes", 0) + nodes
                cov["cover_paths_total"] = cov.get("cover_paths_total", 0) + len(paths)
                if limit is not None and len(paths) > limit:
                    paths = rnd.sample(paths, limit)
                for j, p in enumerate(paths):
                    steps = [st for st in (label_step(n, a) for (n, a) in p) if st]
                    if steps:
                        rows.append(mk_scenario("cov%d.%d" % (i, j), steps, seed))
            cov["cover_scenarios_run"] = len(rows)
            cov["cover_complete"] = cov["cover_scenarios_run"] == cov["cover_paths_total"]
            res, beh = gres["sim"]
            v.add_tlc("SSESat_gen.cfg(simulate)", res)
            seen = set()
            for i, b in enumerate(beh):
                key = json.dumps(b["steps"])
                if key not in seen:
                    seen.add(key)
                    rows.append(mk_scenario("sim%d" % i, b["steps"], seed))
            cov["simulated_scenarios"] = len(seen)
            for name, text in CORNERS:
                rows.append(mk_scenario("corner-" + name, steps_of(text), seed))
            for i in range(60 if tier == "quick" else 1500):
                rows.append(random_scenario(rnd, i, seed))
        except Exception:
            [t.join() for t in ths]
            raise
    t_gen = time.time() - t0

    try:
        obs, orows, crashed = run_harness(pid, rows, seed)
    except Exception:
        [t.join() for t in ths]
        raise
    t_go = time.time() - t0 - t_gen
    by_id = {r["id"]: r for r in rows}
    traces = []
    other, nviol = {}, 0
    try:
        if crashed:
            sc, outp = crashed
            v.violation("%s.SseNoPanic:process" % prefixes[0], "the SDK panicked (process died) while an HTTP+SSE scenario was running",
                        {"ssesat_scenario": sc, "output": outp})
        mres = None
        if orows:
            fails, mres = vlib.run_monitor("SSESatMon", "SSESatMon.cfg", obs, timeout=1800, heap_gb=6)
            v.add_tlc("SSESatMon", mres)
            traces = vlib.split_traces(orows)
            seen_sig, first_of = {}, set()
            for f in fails:
                clause = f["monfail"]
                tid, start, trows = vlib.trace_of_line(traces, f["line"])
                e = orows[f["line"] - 1]
                if clause.startswith("X."):
                    raise vlib.MachineryError("sse harness sanity clause %s failed in trace %s at line %d: %s" % (clause, tid, f["line"], json.dumps(e)[:300]))
                if clause.split(".")[0] not in prefixes:
                    other[clause] = other.get(clause, 0) + 1
                    continue
                fk = (tid, clause)
                if fk in first_of:
                    continue
                first_of.add(fk)
                sig = signature(clause, trows, f["line"] - start, e)
                k = seen_sig.setdefault(sig, [0, clause, tid, e, f["line"], len(trows)])
                k[0] += 1
                if len(trows) < k[5]:   # report the shortest scenario of the class
                    k[1:] = [clause, tid, e, f["line"], len(trows)]
            for sig, (n, clause, tid, e, line, _) in sorted(seen_sig.items()):
                sc = by_id.get(tid)
                ev = {k: x for k, x in e.items() if k not in ("goroutines",)} if clause.split(".")[1] != "SseNoLeak" else e
                v.violation(sig, "%s failed at line %d (trace %s, event %s %s) [%d failures with this signature]" % (
                    clause, line, tid, e.get("ev"), e.get("key") or e.get("tag") or e.get("s") or "", n), {"ssesat_scenario": sc, "event": ev})
                nviol += 1
    finally:
        [t.join() for t in ths]

    # the design checks must have passed
    if replay_scn is None and design:
        if errs:
            raise errs[0]
        dead = {}
        for name, res in sorted(results.items()):
            if name.startswith("mc:"):
                vlib.tlc_must_pass(res, name)
                v.add_tlc(name[3:], res)
                if not res.ok:
                    raise vlib.MachineryError("SSESat.tla violates %s on %s (a lead, not a verdict)\n%s" % (res.violation, name[3:], res.stdout[-1500:]))
                for act, (dist, tot) in res.coverage.items():
                    if act in INTERNAL_ACTIONS + ENV_ACTIONS + ["Internal"]:
                        dead[act] = dead.get(act, 0) + tot
            elif name.startswith("lead:"):
                want = dict(LEADS)[name[5:]]
                v.add_tlc(name[5:] + " (sensitivity: must fail)", res)
                if res.violation is None and re.search(r"Temporal propert\w+ .*violated", res.stdout):
                    res.violation = "temporal"
                if res.violation not in want:
                    raise vlib.MachineryError("sensitivity: %s must violate one of %s but gave %s %s" % (name[5:], want, res.violation, res.error))
            elif name.startswith("wit:"):
                if res.violation != name[4:]:
                    raise vlib.MachineryError("vacuity: witness %s not reachable (%s)" % (name[4:], res.error or res.violation))
        if tier == "thorough":
            never = sorted(a for a, n in dead.items() if n == 0) + sorted(set(INTERNAL_ACTIONS + ENV_ACTIONS) - set(dead) - {# quantified over a state-dependent set: TLC reports them under "Internal"
                                                                "PostArrive", "PostPush", "PostBack", "SrvRespond", "CliRespond"})
            cov["dead_actions"] = never
            if never:
                raise vlib.MachineryError("vacuity: actions of SSESat.tla never taken in any covered configuration: %s" % never)
            cov["vacuity_witnesses_reached"] = sum(1 for n in results if n.startswith("wit:"))

    nsteps, distinct, nontrivial = 0, set(), 0
    for tid, start, trows in traces:
        st = steps_of_trace(trows)
        nsteps += len(st)
        key = vlib.sha(st)
        if key not in distinct:
            distinct.add(key)
            if any(r.get("ev") == "fault" for r in trows) or sum(1 for r in trows if r.get("ev") == "sess") > 1:
                nontrivial += 1
    cov.update({"scenarios_run": len(traces), "steps_executed": nsteps, "distinct_scenarios": len(distinct),
                "distinct_with_fault_or_two_sessions": nontrivial, "other_prefix_clauses_failed": other,
                "phase_wall_s": {"tlc_generate": round(t_gen, 1), "go": round(t_go, 1), "total": round(time.time() - t0, 1)}})
    v.cov["sse"] = cov
    v.cov["traces_validated_against_impl"] = v.cov.get("traces_validated_against_impl", 0) + len(traces)
    return traces


def main(argv):
    """python3 tools/ssesat.py <C01|C02|C03|C05|ALL> [quick|thorough] [seed] [nodesign]"""
    pid = argv[1] if len(argv) > 1 else "ALL"
    tier = argv[2] if len(argv) > 2 else "quick"
    seed = int(argv[3]) if len(argv) > 3 else int(os.environ.get("VERIF_SEED", "1") or "1")
    design = not (len(argv) > 4 and argv[4] == "nodesign")
    prefixes = PIDS if pid == "ALL" else (pid,)
    v = vlib.Verdict("X_SSESAT_" + pid, tier, seed)
    known = vlib.load_known()
    v.known = {sig: txt for p in prefixes for sig, txt in known.get(p, {}).items()}
    try:
        satellite(v, "X_SSESAT_" + pid, tier, seed, design=design, prefixes=prefixes)
    except vlib.MachineryError as e:
        print("MACHINERY-ERROR %s" % e)
        return 2
    v.cov["evaluations"] = v.cov["sse"]["steps_executed"]
    v.cov["distinct_nontrivial"] = v.cov["sse"]["distinct_with_fault_or_two_sessions"]
    rc = v.finish()
    print(json.dumps(v.cov["sse"])[:600])
    return rc


if __name__ == "__main__":
    sys.exit(main(sys.argv))
