//go:build verif

// Scenario harness for the server side of the streamable HTTP transport:
// properties C08 (stream resumption) and C10 (routing), public API only.
//
// A scenario is a script of ENVIRONMENT actions (POST a tools/call, let its handler send a
// notification / a server->client request / return, send a notification outside any request,
// disconnect an HTTP exchange, GET with Last-Event-ID, DELETE the session, hold a write or a
// replay inside the stream lock).  It runs against a REAL mcp.StreamableHTTPHandler without
// sockets: every HTTP exchange is a goroutine that calls handler.ServeHTTP with a recording
// http.ResponseWriter (a Write is consumed synchronously by the "client"; after a disconnect
// = cancelled request context, writes fail).  The event store is mcp.NewMemoryEventStore
// wrapped so that the ground-truth append order is logged and Append / After can be held as
// gates *inside* the stream lock.  The scenario runs in a testing/synctest bubble; after every
// action the harness waits until all SDK goroutines are blocked.  Everything observable is
// logged as ndjson (VERIF_OUT) for the TLA+ monitor spec/StreamSrvMon.tla and the strict trace
// specification spec/StreamSrvTrace.tla.
//
// Payload identity: every message the server sends carries a tag minted here,
// "<session>.<request|sa>.<n<i>|q<i>|resp>", so the monitor never compares JSON.
package mcp_test

import (
	"bufio"
	"bytes"
	"context"
	crand "crypto/rand"
	"encoding/json"
	"errors"
	"fmt"
	"iter"
	"math/rand/v2"
	"net/http"
	"os"
	"regexp"
	"runtime"
	"sort"
	"strconv"
	"strings"
	"sync"
	"sync/atomic"
	"testing"
	"testing/synctest"
	"time"

	"github.com/modelcontextprotocol/go-sdk/mcp"
)

// ---------------------------------------------------------------- logging

type c08Log struct {
	mu    sync.Mutex
	w     *bufio.Writer
	seq   int
	start time.Time
}

func (l *c08Log) emit(ev string, kv ...any) {
	l.mu.Lock()
	defer l.mu.Unlock()
	l.seq++
	m := map[string]any{"ev": ev, "seq": l.seq}
	for i := 0; i+1 < len(kv); i += 2 {
		m[kv[i].(string)] = kv[i+1]
	}
	b, _ := json.Marshal(m)
	l.w.Write(b)
	l.w.WriteByte('\n')
}

// ---------------------------------------------------------------- scenario

type c08Cfg struct {
	Stateless bool `json:"stateless"`
	JSON      bool `json:"json"`
	Store     bool `json:"store"`
	MaxBytes  int  `json:"maxbytes"` // > 0: bound of the MemoryEventStore (events get purged)
}

type c08Sess struct {
	Name    string `json:"name"`
	Version string `json:"version"`
}

type c08Scenario struct {
	ID       string    `json:"id"`
	Cfg      c08Cfg    `json:"cfg"`
	Sessions []c08Sess `json:"sessions"`
	Steps    [][]any   `json:"steps"`
}

// ---------------------------------------------------------------- message classification

var c08TagRe = regexp.MustCompile(`"(?:text|message|tag)":"(s[0-9]+\.[a-z0-9]+\.[a-z0-9]+)"`)

type c08Msg struct {
	Kind string // resp | notif | sreq | bcast | prime | other
	Tag  string
	OS   string // origin session
	OR   string // origin request ("sa" = outside any request, "init")
	RID  string // JSON-RPC id (responses and server->client requests)
}

func c08Classify(data []byte) c08Msg {
	if len(bytes.TrimSpace(data)) == 0 {
		return c08Msg{Kind: "prime"}
	}
	var m struct {
		ID     json.RawMessage `json:"id"`
		Method string          `json:"method"`
		Params struct {
			RequestID json.RawMessage `json:"requestId"`
		} `json:"params"`
	}
	out := c08Msg{Kind: "other"}
	if err := json.Unmarshal(data, &m); err != nil {
		return out
	}
	hasID := len(m.ID) > 0 && string(m.ID) != "null"
	switch {
	case m.Method != "" && hasID:
		out.Kind = "sreq"
	case m.Method != "":
		out.Kind = "notif"
	case hasID:
		out.Kind = "resp"
	}
	if hasID {
		out.RID = strings.Trim(string(m.ID), `"`)
	}
	if m.Method == "notifications/cancelled" {
		// made by the SDK when a server->client call is abandoned: identified by the id of that call
		out.Kind, out.RID = "cancel", strings.Trim(string(m.Params.RequestID), `"`)
	}
	if mm := c08TagRe.FindSubmatch(data); mm != nil {
		out.Tag = string(mm[1])
		p := strings.Split(out.Tag, ".")
		out.OS, out.OR = p[0], p[1]
		if out.Kind == "notif" && strings.HasPrefix(p[2], "b") {
			out.Kind = "bcast" // Server.ResourceUpdated called by the handler of (OS, OR): goes to every subscribed session
		}
	}
	return out
}

// ---------------------------------------------------------------- HTTP exchange (recording ResponseWriter)

type c08XKey struct{}

type c08Event struct {
	Name, EID, Stream string
	Idx               int
	Msg               c08Msg
}

type c08Exch struct {
	run    *c08Run
	name   string
	sess   string
	method string
	kind   string // init | inited | call | ans | get | del
	cancel context.CancelFunc

	mu     sync.Mutex
	hdr    http.Header
	status int
	ctype  string
	wrote  bool
	cut    bool
	ended  bool
	buf    []byte
	body   []byte
	events []c08Event
	sid    string
}

func (x *c08Exch) Header() http.Header { return x.hdr }

func (x *c08Exch) WriteHeader(code int) {
	x.mu.Lock()
	defer x.mu.Unlock()
	x.writeHeaderLocked(code)
}

func (x *c08Exch) writeHeaderLocked(code int) {
	if x.wrote {
		return
	}
	x.wrote = true
	x.status = code
	ct := x.hdr.Get("Content-Type")
	switch {
	case strings.HasPrefix(ct, "text/event-stream"):
		x.ctype = "sse"
	case strings.HasPrefix(ct, "application/json"):
		x.ctype = "json"
	default:
		x.ctype = "other"
	}
	x.sid = x.hdr.Get("Mcp-Session-Id")
	x.run.log.emit("x.hdr", "x", x.name, "s", x.sess, "kind", x.kind, "status", code, "ctype", x.ctype)
}

func (x *c08Exch) Flush() {}

func (x *c08Exch) Write(p []byte) (int, error) {
	if strings.HasPrefix(x.hdr.Get("Content-Type"), "text/event-stream") {
		x.run.gate("W:" + x.name) // the "client" stops reading the stream: the write blocks where the SDK issued it
	}
	x.mu.Lock()
	defer x.mu.Unlock()
	x.writeHeaderLocked(http.StatusOK)
	if x.cut {
		return 0, errors.New("verif: client disconnected")
	}
	if x.ctype != "sse" {
		x.body = append(x.body, p...)
		return len(p), nil
	}
	x.buf = append(x.buf, p...)
	for {
		i := bytes.Index(x.buf, []byte("\n\n"))
		if i < 0 {
			break
		}
		raw := x.buf[:i]
		x.buf = x.buf[i+2:]
		x.sseEvent(raw)
	}
	return len(p), nil
}

// sseEvent parses one complete SSE event (the bytes before the blank line) and logs it.
func (x *c08Exch) sseEvent(raw []byte) {
	var name, eid string
	var data []byte
	seen := false
	for _, ln := range bytes.Split(raw, []byte("\n")) {
		if len(ln) == 0 || ln[0] == ':' {
			continue
		}
		k, v, _ := bytes.Cut(ln, []byte(":"))
		v = bytes.TrimPrefix(v, []byte(" "))
		switch string(k) {
		case "event":
			name, seen = string(v), true
		case "id":
			eid, seen = string(v), true
		case "data":
			if data != nil {
				data = append(data, '\n')
			}
			data, seen = append(data, v...), true
		}
	}
	if !seen {
		return // comment only
	}
	e := c08Event{Name: name, EID: eid, Idx: -1}
	if eid != "" {
		if j := strings.LastIndex(eid, "_"); j >= 0 {
			e.Stream = eid[:j]
			if n, err := strconv.Atoi(eid[j+1:]); err == nil {
				e.Idx = n
			}
		}
	}
	e.Msg = c08Classify(data)
	if name == "prime" {
		e.Msg.Kind = "prime"
	}
	x.record(e, string(raw))
}

func (x *c08Exch) record(e c08Event, raw string) {
	r := x.run
	if e.Msg.Kind == "cancel" {
		r.cancelTag(x.sess, &e.Msg)
	}
	if e.Msg.Kind == "resp" && e.Msg.Tag == "" && e.Msg.RID == "1000" {
		e.Msg.Tag, e.Msg.OS, e.Msg.OR = x.sess+".init.resp", x.sess, "init"
	}
	if e.Msg.Kind == "resp" && e.Msg.Tag == "" && e.Msg.RID == "1001" {
		e.Msg.Tag, e.Msg.OS, e.Msg.OR = x.sess+".sub.resp", x.sess, "sub"
	}
	x.events = append(x.events, e)
	if e.EID != "" {
		r.noteID(x.sess, e.Stream, e.Idx)
	}
	if e.Msg.Kind == "sreq" {
		r.noteSreq(e.Msg)
	}
	if len(raw) > 120 {
		raw = raw[:120]
	}
	r.log.emit("x.ev", "x", x.name, "s", x.sess, "name", e.Name, "eid", e.EID, "stream", e.Stream, "idx", e.Idx,
		"kind", e.Msg.Kind, "os", e.Msg.OS, "or", e.Msg.OR, "tag", e.Msg.Tag, "rid", e.Msg.RID, "raw", raw)
}

// finish is called when ServeHTTP has returned.
func (x *c08Exch) finish() {
	x.mu.Lock()
	defer x.mu.Unlock()
	x.writeHeaderLocked(http.StatusOK)
	if x.ctype == "json" && x.status == http.StatusOK && !x.cut && len(bytes.TrimSpace(x.body)) > 0 {
		var arr []json.RawMessage
		b := bytes.TrimSpace(x.body)
		if b[0] == '[' {
			json.Unmarshal(b, &arr)
		} else {
			arr = []json.RawMessage{b}
		}
		for _, m := range arr {
			x.record(c08Event{Name: "json", Idx: -1, Msg: c08Classify(m)}, string(m))
		}
	}
	x.ended = true
	how := "server"
	if x.cut {
		how = "cut"
	}
	info := ""
	if x.status != http.StatusOK && x.status != http.StatusAccepted {
		info = strings.TrimSpace(string(x.body))
		if len(info) > 200 {
			info = info[:200]
		}
	}
	x.run.log.emit("x.end", "x", x.name, "s", x.sess, "kind", x.kind, "how", how, "status", x.status, "info", info)
}

func (x *c08Exch) snapshot() map[string]any {
	x.mu.Lock()
	defer x.mu.Unlock()
	ev := []string{}
	for _, e := range x.events {
		ev = append(ev, fmt.Sprintf("%d|%s", e.Idx, c08TagOf(e)))
	}
	return map[string]any{"x": x.name, "status": x.status, "ended": x.ended, "cut": x.cut, "evs": ev}
}

func c08TagOf(e c08Event) string {
	if e.Msg.Kind == "prime" {
		return "prime"
	}
	return e.Msg.Tag
}

// ---------------------------------------------------------------- event store wrapper (ground truth + gates)

type c08Store struct {
	inner *mcp.MemoryEventStore
	run   *c08Run
	mu    sync.Mutex
	n     map[string]int
}

func (s *c08Store) Open(ctx context.Context, sid, stream string) error {
	xn, _ := ctx.Value(c08XKey{}).(string)
	if stream != "" {
		s.run.gate("O:" + xn)
	}
	err := s.inner.Open(ctx, sid, stream)
	s.run.log.emit("st.open", "s", s.run.sessName(sid), "sid", sid, "stream", stream, "x", xn, "err", err != nil)
	return err
}

func (s *c08Store) Append(ctx context.Context, sid, stream string, data []byte) error {
	m := c08Classify(data)
	if m.Kind == "sreq" && m.Tag != "" {
		s.run.noteSreqTag(s.run.sessName(sid), m)
	}
	if m.Kind == "cancel" {
		s.run.cancelTag(s.run.sessName(sid), &m)
	}
	if m.Tag != "" && m.Kind != "bcast" && m.Kind != "cancel" {
		s.run.gate("A:" + m.OS + "." + m.OR)
	}
	tag := m.Tag
	if m.Kind == "prime" {
		tag = "prime"
	}
	if m.Kind == "resp" && tag == "" && m.RID == "1000" {
		tag = s.run.sessName(sid) + ".init.resp"
	}
	if m.Kind == "resp" && tag == "" && m.RID == "1001" {
		tag = s.run.sessName(sid) + ".sub.resp"
	}
	// the append, its index and its log line are one atomic step of the ground truth
	s.mu.Lock()
	defer s.mu.Unlock()
	err := s.inner.Append(ctx, sid, stream, data)
	k := sid + "/" + stream
	idx := s.n[k]
	if err == nil {
		s.n[k]++
	}
	s.run.log.emit("st.append", "s", s.run.sessName(sid), "sid", sid, "stream", stream, "idx", idx, "kind", m.Kind, "tag", tag, "sz", len(data), "err", err != nil)
	return err
}

func (s *c08Store) After(ctx context.Context, sid, stream string, index int) iter.Seq2[[]byte, error] {
	xn, _ := ctx.Value(c08XKey{}).(string)
	s.run.gate("F:" + xn)
	seq := s.inner.After(ctx, sid, stream, index)
	return func(yield func([]byte, error) bool) {
		n, failed := 0, false
		defer func() {
			s.run.log.emit("st.after", "s", s.run.sessName(sid), "stream", stream, "idx", index, "x", xn, "n", n, "err", failed)
		}()
		for d, err := range seq {
			if err != nil {
				failed = true
			} else {
				n++
			}
			if n == 1 {
				s.run.gate("M:" + xn) // held in the middle of the store's iteration (still inside the stream lock)
			}
			if !yield(d, err) {
				return
			}
		}
	}
}

func (s *c08Store) SessionClosed(ctx context.Context, sid string) error {
	err := s.inner.SessionClosed(ctx, sid)
	s.run.log.emit("st.closed", "s", s.run.sessName(sid), "sid", sid)
	return err
}

// ---------------------------------------------------------------- run state

type c08Handler struct {
	cmd       chan string
	started   bool
	ended     bool
	busy      bool // inside NotifyProgress / Ping
	retSent   bool
	abort     context.CancelFunc // gives up a server->client request nobody will answer (clean-up only)
	nq        int
	abandoned bool
}

type c08SessState struct {
	name, version, sid string
	ss                 *mcp.ServerSession
	nsa                int
	saBusy             bool
	deleted            bool
}

type c08Gate struct {
	ch  chan struct{}
	hit bool
}

type c08Run struct {
	t       *testing.T
	sc      *c08Scenario
	log     *c08Log
	server  *mcp.Server
	handler *mcp.StreamableHTTPHandler
	store   *c08Store

	mu       sync.Mutex
	sess     map[string]*c08SessState
	bySid    map[string]string
	exch     map[string]*c08Exch
	order    []*c08Exch
	handlers map[string]*c08Handler
	streams  map[string]string       // "s.r" -> stream id (learned from st.open / event ids)
	issued   map[string]map[int]bool // "s/stream" -> event indices handed to the client
	sreqs    map[string][]string     // "s.r" -> JSON-RPC ids of unanswered server->client requests
	sreqTag  map[string]string       // "s/<id>" -> tag of the server->client request sent under that id
	gates    map[string]*c08Gate     // armed gates
	held     atomic.Int32
	nans     int
	creating string
	updBusy  bool
}

const c08URI = "verif://resource"

func (r *c08Run) sessName(sid string) string {
	r.mu.Lock()
	defer r.mu.Unlock()
	return r.bySid[sid]
}

func (r *c08Run) noteID(s, stream string, idx int) {
	r.mu.Lock()
	defer r.mu.Unlock()
	k := s + "/" + stream
	if r.issued[k] == nil {
		r.issued[k] = map[int]bool{}
	}
	r.issued[k][idx] = true
}

func (r *c08Run) noteSreq(m c08Msg) {
	r.mu.Lock()
	defer r.mu.Unlock()
	k := m.OS + "." + m.OR
	r.sreqs[k] = append(r.sreqs[k], m.RID)
	r.sreqTag[m.OS+"/"+m.RID] = m.Tag
}

// noteSreqTag remembers under which JSON-RPC id a session's server->client request went out.
func (r *c08Run) noteSreqTag(sess string, m c08Msg) {
	r.mu.Lock()
	defer r.mu.Unlock()
	r.sreqTag[sess+"/"+m.RID] = m.Tag
}

// cancelTag names a cancellation notice after the call it cancels: "<s>.<r>.q<k>" -> "<s>.<r>.c<k>". The call
// is looked up by (session in which the notice was seen, requestId).
func (r *c08Run) cancelTag(sess string, m *c08Msg) {
	r.mu.Lock()
	defer r.mu.Unlock()
	if t := r.sreqTag[sess+"/"+m.RID]; t != "" {
		p := strings.Split(t, ".")
		m.Tag, m.OS, m.OR = p[0]+"."+p[1]+".c"+strings.TrimPrefix(p[2], "q"), p[0], p[1]
	}
}

// gate blocks the calling SDK goroutine if a gate with this key is armed.
func (r *c08Run) gate(key string) {
	r.mu.Lock()
	g := r.gates[key]
	if g == nil || g.hit {
		r.mu.Unlock()
		return
	}
	g.hit = true
	r.mu.Unlock()
	r.held.Add(1)
	r.log.emit("gate.hold", "key", key)
	<-g.ch
	r.held.Add(-1)
	r.log.emit("gate.pass", "key", key)
}

// disarm removes a gate that was armed for a write / replay which never reached the store.
func (r *c08Run) disarm(key string) {
	r.mu.Lock()
	if g := r.gates[key]; g != nil && !g.hit {
		delete(r.gates, key)
	}
	r.mu.Unlock()
}

func (r *c08Run) setBusy(h *c08Handler, b bool) {
	r.mu.Lock()
	h.busy = b
	r.mu.Unlock()
}

// settle waits until every other goroutine of the bubble is blocked.  While an SDK goroutine is
// held at a gate inside the stream lock, others may be blocked on that mutex, which synctest does
// not regard as durably blocked; then the goroutine states are polled instead.
func (r *c08Run) settle() {
	// A gate can only be reached while it is armed, and gates are armed by this goroutine only: with no
	// gate armed or holding, nothing can end up blocked on a stream mutex behind a gate.
	r.mu.Lock()
	gated := len(r.gates) > 0
	r.mu.Unlock()
	if !gated && r.held.Load() == 0 {
		synctest.Wait()
		return
	}
	stable := 0
	for i := 0; i < 20000; i++ {
		runtime.Gosched()
		if c08BubbleQuiet() {
			stable++
			if stable >= 3 {
				return
			}
		} else {
			stable = 0
		}
	}
	r.log.emit("settle.timeout")
}

var c08HdrRe = regexp.MustCompile(`^goroutine \d+ \[([^\]]*)\]:`)

func c08BubbleQuiet() bool {
	buf := make([]byte, 1<<20)
	buf = buf[:runtime.Stack(buf, true)]
	blocks := strings.Split(string(buf), "\n\n")
	self := ""
	if i := strings.Index(blocks[0], "synctest bubble "); i >= 0 {
		self = strings.TrimRight(strings.Fields(blocks[0][i+len("synctest bubble "):])[0], "]:,")
	}
	if self == "" {
		return true
	}
	for _, b := range blocks[1:] {
		m := c08HdrRe.FindStringSubmatch(b)
		if m == nil || !strings.Contains(m[1], "synctest bubble "+self) {
			continue
		}
		st := m[1]
		if strings.HasPrefix(st, "running") || strings.HasPrefix(st, "runnable") || strings.HasPrefix(st, "syscall") {
			return false
		}
	}
	return true
}

// ---------------------------------------------------------------- the scripted tool

func (r *c08Run) hstate(key string) *c08Handler {
	r.mu.Lock()
	defer r.mu.Unlock()
	h := r.handlers[key]
	if h == nil {
		h = &c08Handler{cmd: make(chan string, 64)}
		r.handlers[key] = h
	}
	return h
}

func c08Err(err error) string {
	if err == nil {
		return ""
	}
	s := err.Error()
	if len(s) > 160 {
		s = s[:160]
	}
	return s
}

func (r *c08Run) tool(ctx context.Context, req *mcp.CallToolRequest) (*mcp.CallToolResult, error) {
	var a struct {
		S string `json:"s"`
		R string `json:"r"`
	}
	json.Unmarshal(req.Params.Arguments, &a)
	key := a.S + "." + a.R
	h := r.hstate(key)
	r.mu.Lock()
	h.started = true
	r.mu.Unlock()
	r.log.emit("h.start", "s", a.S, "r", a.R, "sid", req.Session.ID())
	n, q, b := 0, 0, 0
	for {
		select {
		case cmd := <-h.cmd:
			switch cmd {
			case "emit":
				n++
				tag := fmt.Sprintf("%s.n%d", key, n)
				r.log.emit("h.emit", "s", a.S, "r", a.R, "tag", tag, "kind", "notif")
				r.setBusy(h, true)
				err := req.Session.NotifyProgress(ctx, &mcp.ProgressNotificationParams{ProgressToken: "tok", Message: tag, Progress: float64(n)})
				r.setBusy(h, false)
				r.disarm("A:" + key)
				r.log.emit("h.emit.end", "s", a.S, "r", a.R, "tag", tag, "err", c08Err(err))
			case "sreq":
				q++
				tag := fmt.Sprintf("%s.q%d", key, q)
				r.log.emit("h.emit", "s", a.S, "r", a.R, "tag", tag, "kind", "sreq")
				pctx, pcancel := context.WithCancel(ctx)
				r.mu.Lock()
				h.busy, h.abort, h.nq, h.abandoned = true, pcancel, q, false
				r.mu.Unlock()
				err := req.Session.Ping(pctx, &mcp.PingParams{Meta: mcp.Meta{"tag": tag}})
				pcancel()
				r.mu.Lock()
				h.busy, h.abort = false, nil
				r.mu.Unlock()
				r.disarm("A:" + key)
				r.log.emit("h.sreq.end", "s", a.S, "r", a.R, "tag", tag, "err", c08Err(err))
			case "upd":
				b++
				tag := fmt.Sprintf("%s.b%d", key, b)
				r.log.emit("h.bc", "s", a.S, "r", a.R, "tag", tag)
				r.mu.Lock()
				h.busy, r.updBusy = true, true
				r.mu.Unlock()
				err := r.server.ResourceUpdated(ctx, &mcp.ResourceUpdatedNotificationParams{Meta: mcp.Meta{"tag": tag}, URI: c08URI})
				r.mu.Lock()
				h.busy, r.updBusy = false, false
				r.mu.Unlock()
				r.log.emit("h.bc.end", "s", a.S, "r", a.R, "tag", tag, "err", c08Err(err))
			case "ret":
				r.mu.Lock()
				h.ended = true
				r.mu.Unlock()
				r.log.emit("h.end", "s", a.S, "r", a.R, "how", "ret")
				return &mcp.CallToolResult{Content: []mcp.Content{&mcp.TextContent{Text: key + ".resp"}}}, nil
			}
		case <-ctx.Done():
			r.mu.Lock()
			h.ended = true
			r.mu.Unlock()
			r.log.emit("h.end", "s", a.S, "r", a.R, "how", "ctx")
			return nil, errors.New(key + ".resp")
		}
	}
}

// ---------------------------------------------------------------- HTTP driver

func (r *c08Run) start(name, sess, kind, method string, hdr map[string]string, body string) *c08Exch {
	base, cancel := context.WithCancel(context.Background())
	ctx := context.WithValue(base, c08XKey{}, name)
	x := &c08Exch{run: r, name: name, sess: sess, method: method, kind: kind, cancel: cancel, hdr: http.Header{}}
	var rd *bytes.Reader
	req, _ := http.NewRequestWithContext(ctx, method, "http://c08.verif.test/mcp", nil)
	if body != "" {
		rd = bytes.NewReader([]byte(body))
		req, _ = http.NewRequestWithContext(ctx, method, "http://c08.verif.test/mcp", rd)
		req.Header.Set("Content-Type", "application/json")
	}
	req.RequestURI = "/mcp"
	req.RemoteAddr = "192.0.2.1:1234"
	for k, v := range hdr {
		if v != "" {
			req.Header.Set(k, v)
		}
	}
	r.mu.Lock()
	r.exch[name] = x
	r.order = append(r.order, x)
	r.mu.Unlock()
	go func() {
		defer func() {
			if p := recover(); p != nil {
				r.log.emit("panic", "msg", fmt.Sprint(p), "where", name)
			}
		}()
		r.handler.ServeHTTP(x, req)
		r.disarm("F:" + name)
		r.disarm("W:" + name)
		r.disarm("O:" + name)
		r.disarm("M:" + name)
		x.finish()
	}()
	return x
}

func (r *c08Run) headers(s *c08SessState, accept string) map[string]string {
	h := map[string]string{"Accept": accept, "Mcp-Protocol-Version": s.version}
	if !r.sc.Cfg.Stateless {
		h["Mcp-Session-Id"] = s.sid
	}
	return h
}

const c08AcceptBoth = "application/json, text/event-stream"

func c08ReqID(rn string) int {
	n, err := strconv.Atoi(strings.TrimLeft(rn, "rd"))
	if err != nil {
		return 77
	}
	return n
}

func (r *c08Run) setup() error {
	r.server = mcp.NewServer(&mcp.Implementation{Name: "c08-server", Version: "v1"}, &mcp.ServerOptions{
		SubscribeHandler:   func(context.Context, *mcp.SubscribeRequest) error { return nil },
		UnsubscribeHandler: func(context.Context, *mcp.UnsubscribeRequest) error { return nil },
		GetSessionID: func() string {
			// the id is as random as the default one; the harness only learns it early
			id := crand.Text()
			r.mu.Lock()
			if r.creating != "" {
				r.bySid[id] = r.creating
			}
			r.mu.Unlock()
			return id
		},
	})
	r.server.AddTool(&mcp.Tool{Name: "vt", InputSchema: json.RawMessage(`{"type":"object"}`)}, r.tool)
	opts := &mcp.StreamableHTTPOptions{Stateless: r.sc.Cfg.Stateless, JSONResponse: r.sc.Cfg.JSON}
	if r.sc.Cfg.Store {
		r.store = &c08Store{inner: mcp.NewMemoryEventStore(nil), run: r, n: map[string]int{}}
		if r.sc.Cfg.MaxBytes > 0 {
			r.store.inner.SetMaxBytes(r.sc.Cfg.MaxBytes)
		}
		opts.EventStore = r.store
	}
	r.handler = mcp.NewStreamableHTTPHandler(func(*http.Request) *mcp.Server { return r.server }, opts)
	for _, s := range r.sc.Sessions {
		st := &c08SessState{name: s.Name, version: s.Version}
		r.sess[s.Name] = st
		r.log.emit("sess", "s", s.Name, "ver", s.Version,
			"prime", r.sc.Cfg.Store && !r.sc.Cfg.JSON && s.Version >= "2025-11-25" && s.Version < "2026-07-28")
		if r.sc.Cfg.Stateless {
			continue
		}
		body := fmt.Sprintf(`{"jsonrpc":"2.0","id":1000,"method":"initialize","params":{"protocolVersion":%q,"capabilities":{},"clientInfo":{"name":"c08-client","version":"v1"}}}`, s.Version)
		r.mu.Lock()
		r.creating = s.Name
		r.mu.Unlock()
		r.log.emit("x.begin", "x", "i."+s.Name, "s", s.Name, "kind", "init", "method", "POST", "reqs", []string{"init"}, "rids", []string{"1000"}, "target", "init", "leid", "", "lidx", -1, "stream", "?")
		x := r.start("i."+s.Name, s.Name, "init", "POST", map[string]string{"Accept": c08AcceptBoth}, body)
		r.settle()
		r.mu.Lock()
		r.creating = ""
		r.mu.Unlock()
		x.mu.Lock()
		st.sid = x.sid
		ok := x.status == 200 && x.ended
		x.mu.Unlock()
		if !ok || st.sid == "" {
			return fmt.Errorf("initialize of %s failed (status %d)", s.Name, x.status)
		}
		r.mu.Lock()
		r.bySid[st.sid] = s.Name
		r.mu.Unlock()
		for ss := range r.server.Sessions() {
			if ss.ID() == st.sid {
				st.ss = ss
			}
		}
		if st.ss == nil {
			return fmt.Errorf("session %s not listed by the server", s.Name)
		}
		r.log.emit("sess.id", "s", s.Name, "sid", st.sid)
		x2 := r.start("n."+s.Name, s.Name, "inited", "POST", r.headers(st, c08AcceptBoth), `{"jsonrpc":"2.0","method":"notifications/initialized","params":{}}`)
		r.settle()
		x2.mu.Lock()
		ok = x2.status == 202 && x2.ended
		x2.mu.Unlock()
		if !ok {
			return fmt.Errorf("initialized of %s failed (status %d)", s.Name, x2.status)
		}
		// every session subscribes to the one resource the handlers may report as updated
		r.log.emit("x.begin", "x", "u."+s.Name, "s", s.Name, "kind", "sub", "method", "POST", "reqs", []string{"sub"}, "rids", []string{"1001"}, "target", "sub", "leid", "", "lidx", -1, "stream", "?")
		x3 := r.start("u."+s.Name, s.Name, "sub", "POST", r.headers(st, c08AcceptBoth), `{"jsonrpc":"2.0","id":1001,"method":"resources/subscribe","params":{"uri":"`+c08URI+`"}}`)
		r.settle()
		x3.mu.Lock()
		ok = x3.status == 200 && x3.ended
		x3.mu.Unlock()
		if !ok {
			return fmt.Errorf("subscribe of %s failed (status %d)", s.Name, x3.status)
		}
	}
	r.log.emit("ready")
	return nil
}

func (r *c08Run) streamOf(s, target string) (string, bool) {
	if target == "sa" {
		return "", true
	}
	x := r.exch["p."+s+"."+target]
	if x == nil {
		return "", false
	}
	x.mu.Lock()
	defer x.mu.Unlock()
	for _, e := range x.events {
		if e.EID != "" {
			return e.Stream, true
		}
	}
	return "", false
}

func (r *c08Run) step(st []any) {
	arg := func(i int) string {
		if i < len(st) {
			if f, ok := st[i].(float64); ok {
				return strconv.Itoa(int(f))
			}
			return fmt.Sprint(st[i])
		}
		return ""
	}
	op := arg(0)
	applied := true
	ri := -1
	r.log.emit("step.begin", "op", op, "a1", arg(1), "a2", arg(2), "a3", arg(3), "a4", arg(4))
	switch op {
	case "post":
		s, rn := r.sess[arg(1)], arg(2)
		if s == nil || r.exch["p."+arg(1)+"."+rn] != nil || s.deleted {
			applied = false
			break
		}
		if r.sc.Cfg.Stateless {
			// a "session" of a stateless handler is one POST
			for n := range r.exch {
				if strings.HasPrefix(n, "p."+s.name+".") {
					applied = false
				}
			}
			if !applied {
				break
			}
		}
		body := fmt.Sprintf(`{"jsonrpc":"2.0","id":%d,"method":"tools/call","params":{"name":"vt","arguments":{"s":%q,"r":%q}}}`, c08ReqID(rn), s.name, rn)
		r.log.emit("x.begin", "x", "p."+s.name+"."+rn, "s", s.name, "kind", "call", "method", "POST", "reqs", []string{rn}, "rids", []string{strconv.Itoa(c08ReqID(rn))}, "target", rn, "leid", "", "lidx", -1, "stream", "?")
		r.start("p."+s.name+"."+rn, s.name, "call", "POST", r.headers(s, c08AcceptBoth), body)
	case "emit", "sreq", "ret", "upd":
		r.mu.Lock()
		h := r.handlers[arg(1)+"."+arg(2)]
		ok := h != nil && h.started && !h.ended && !h.busy && !h.retSent
		if op == "upd" && (r.updBusy || r.sc.Cfg.Stateless) {
			ok = false
		}
		if ok && op == "ret" {
			h.retSent = true
		}
		r.mu.Unlock()
		if !ok {
			applied = false
			break
		}
		h.cmd <- op
	case "abandon":
		// the handler gives up its pending server->client call (cancels that call's context)
		k := arg(1) + "." + arg(2)
		r.mu.Lock()
		h := r.handlers[k]
		var abort context.CancelFunc
		nq := 0
		if h != nil && h.busy && h.abort != nil && !h.abandoned {
			abort, h.abandoned, nq = h.abort, true, h.nq
			r.sreqs[k] = nil // the client no longer owes an answer
		}
		r.mu.Unlock()
		if abort == nil {
			applied = false
			break
		}
		r.log.emit("h.abandon", "s", arg(1), "r", arg(2), "tag", fmt.Sprintf("%s.c%d", k, nq))
		abort()
	case "ans":
		s := r.sess[arg(1)]
		k := arg(1) + "." + arg(2)
		r.mu.Lock()
		var rid string
		if len(r.sreqs[k]) > 0 {
			rid, r.sreqs[k] = r.sreqs[k][0], r.sreqs[k][1:]
		}
		r.nans++
		n := r.nans
		r.mu.Unlock()
		if s == nil || rid == "" {
			applied = false
			break
		}
		r.start(fmt.Sprintf("a.%s.%d", k, n), s.name, "ans", "POST", r.headers(s, c08AcceptBoth), fmt.Sprintf(`{"jsonrpc":"2.0","id":%s,"result":{}}`, rid))
	case "sa":
		s := r.sess[arg(1)]
		r.mu.Lock()
		busy := s != nil && s.saBusy
		r.mu.Unlock()
		if s == nil || s.ss == nil || busy || s.deleted {
			applied = false
			break
		}
		r.mu.Lock()
		s.saBusy = true
		r.mu.Unlock()
		s.nsa++
		tag := fmt.Sprintf("%s.sa.n%d", s.name, s.nsa)
		r.log.emit("h.emit", "s", s.name, "r", "sa", "tag", tag, "kind", "notif")
		go func() {
			err := s.ss.NotifyProgress(context.Background(), &mcp.ProgressNotificationParams{ProgressToken: "tok", Message: tag, Progress: 1})
			r.mu.Lock()
			s.saBusy = false
			r.mu.Unlock()
			r.disarm("A:" + s.name + ".sa")
			r.log.emit("h.emit.end", "s", s.name, "r", "sa", "tag", tag, "err", c08Err(err))
		}()
	case "cut":
		x := r.exch[arg(1)]
		if x == nil {
			applied = false
			break
		}
		r.mu.Lock()
		og := r.gates["O:"+x.name]
		atOpen := og != nil && og.hit
		r.mu.Unlock()
		x.mu.Lock()
		if x.ended || x.cut || (atOpen && r.sc.Cfg.Stateless) {
			// (a stateless POST abandoned before its call is published races the ephemeral session's Close)
			applied = false
		} else {
			x.cut = true
		}
		x.mu.Unlock()
		if applied {
			r.log.emit("cut", "x", x.name, "s", x.sess)
			x.cancel()
		}
	case "get":
		// get <name> <session> <target: sa | request> <sel: none | index>
		name, s, target, sel := arg(1), r.sess[arg(2)], arg(3), arg(4)
		if s == nil || r.exch[name] != nil || r.sc.Cfg.Stateless {
			applied = false
			break
		}
		stream, ok := r.streamOf(s.name, target)
		h := r.headers(s, "text/event-stream")
		lidx := -1
		leid := ""
		if sel != "none" && sel != "" {
			if strings.HasPrefix(sel, "any") {
				// the k-th (mod count) of the ids issued so far on that stream
				k, _ := strconv.Atoi(sel[3:])
				r.mu.Lock()
				var ids []int
				if ok {
					for i := range r.issued[s.name+"/"+stream] {
						ids = append(ids, i)
					}
				}
				r.mu.Unlock()
				sort.Ints(ids)
				if len(ids) == 0 {
					applied = false
					break
				}
				lidx = ids[k%len(ids)]
			} else {
				lidx, _ = strconv.Atoi(sel)
			}
			r.mu.Lock()
			iss := ok && r.issued[s.name+"/"+stream][lidx]
			r.mu.Unlock()
			if !iss {
				applied = false
				break
			}
			ri = lidx
			leid = fmt.Sprintf("%s_%d", stream, lidx)
			h["Last-Event-ID"] = leid
		} else if target != "sa" {
			applied = false
			break
		}
		reqs := []string{}
		if target != "sa" {
			reqs = []string{target}
		}
		r.log.emit("x.begin", "x", name, "s", s.name, "kind", "get", "method", "GET", "reqs", reqs, "rids", []string{}, "target", target, "leid", leid, "lidx", lidx, "stream", stream)
		r.start(name, s.name, "get", "GET", h, "")
		r.settle()
		r.disarm("W:" + name) // a writer gate only concerns the replay of this GET
	case "del", "delf":
		s := r.sess[arg(1)]
		if s == nil || s.deleted || r.sc.Cfg.Stateless {
			applied = false
			break
		}
		if op == "del" {
			// the graceful variant: only when no handler of the session is running and no write is in flight
			r.mu.Lock()
			idle := !s.saBusy && !r.updBusy && r.held.Load() == 0
			for k, h := range r.handlers {
				if strings.HasPrefix(k, s.name+".") && h.started && !h.ended {
					idle = false
				}
			}
			r.mu.Unlock()
			if !idle {
				applied = false
				break
			}
		}
		s.deleted = true
		r.log.emit("del", "s", s.name)
		r.start("d."+s.name, s.name, "del", "DELETE", r.headers(s, c08AcceptBoth), "")
	case "gateA", "gateF", "gateW", "gateO", "gateM":
		key := "A:" + arg(1) + "." + arg(2)
		if op != "gateA" {
			key = op[4:] + ":" + arg(1) // gateF g1 / gateW g1 / gateO p.s1.r1
		}
		r.mu.Lock()
		if g := r.gates[key]; (g != nil && g.hit) || (op == "gateW" && !r.sc.Cfg.Store) {
			applied = false // that gate is holding a goroutine right now (gateW: only with resumable streams)
		} else {
			r.gates[key] = &c08Gate{ch: make(chan struct{})}
		}
		r.mu.Unlock()
	case "open":
		applied = r.openGates()
	default:
		applied = false
	}
	r.settle()
	r.log.emit("step", "op", op, "a1", arg(1), "a2", arg(2), "a3", arg(3), "a4", arg(4), "ri", ri, "applied", applied, "held", int(r.held.Load()), "snap", r.snapshot())
}

func (r *c08Run) openGates() bool {
	// gates that are holding a goroutine are released; armed gates nobody reached are disarmed
	r.mu.Lock()
	defer r.mu.Unlock()
	any := len(r.gates) > 0
	for k, g := range r.gates {
		close(g.ch)
		delete(r.gates, k)
	}
	return any
}

func (r *c08Run) snapshot() []map[string]any {
	r.mu.Lock()
	xs := append([]*c08Exch{}, r.order...)
	r.mu.Unlock()
	out := []map[string]any{}
	for _, x := range xs {
		if x.kind == "call" || x.kind == "get" {
			out = append(out, x.snapshot())
		}
	}
	return out
}

// ---------------------------------------------------------------- scenario execution

func (r *c08Run) hanging() []string {
	r.mu.Lock()
	xs := append([]*c08Exch{}, r.order...)
	r.mu.Unlock()
	out := []string{}
	for _, x := range xs {
		x.mu.Lock()
		if !x.ended {
			out = append(out, x.name)
		}
		x.mu.Unlock()
	}
	return out
}

func (r *c08Run) run() {
	if err := r.setup(); err != nil {
		r.log.emit("setup.error", "err", err.Error())
	} else {
		for _, st := range r.sc.Steps {
			r.step(st)
		}
	}
	r.log.emit("script.end")
	// drain stage 1: discharge what the environment owes (open gates, answer the server's requests,
	// let every handler return); no disconnect, no Close
	r.openGates()
	r.settle()
	for i := 0; i < 20; i++ {
		progressed := false
		r.mu.Lock()
		var owed [][]any
		for k, ids := range r.sreqs {
			if len(ids) > 0 {
				p := strings.SplitN(k, ".", 2)
				owed = append(owed, []any{"ans", p[0], p[1]})
			}
		}
		var running []*c08Handler
		for _, h := range r.handlers {
			if h.started && !h.ended && !h.retSent {
				h.retSent = true
				running = append(running, h)
			}
		}
		r.mu.Unlock()
		sort.Slice(owed, func(i, j int) bool { return fmt.Sprint(owed[i]) < fmt.Sprint(owed[j]) })
		for _, st := range owed {
			r.step(st)
			progressed = true
		}
		for _, h := range running {
			h.cmd <- "ret"
			progressed = true
		}
		r.settle()
		if !progressed {
			break
		}
	}
	time.Sleep(time.Minute)
	r.settle()
	r.log.emit("quiesce", "hanging", r.hanging(), "snap", r.snapshot())
	// drain stage 2: clean-up so that the bubble can exit
	r.log.emit("cleanup")
	r.mu.Lock()
	xs := append([]*c08Exch{}, r.order...)
	r.mu.Unlock()
	for _, x := range xs {
		x.mu.Lock()
		x.cut = true
		x.mu.Unlock()
		x.cancel()
	}
	r.settle()
	r.mu.Lock()
	for _, h := range r.handlers {
		if h.abort != nil {
			h.abort()
		}
	}
	r.mu.Unlock()
	r.settle()
	if r.server != nil {
		for ss := range r.server.Sessions() {
			go ss.Close()
		}
	}
	r.settle()
	time.Sleep(time.Hour)
	r.settle()
	r.log.emit("final", "hanging", r.hanging())
}

func c08RunScenario(t *testing.T, l *c08Log, sc *c08Scenario) {
	prime := map[string]bool{}
	for _, s := range sc.Sessions {
		prime[s.Name] = s.Version >= "2025-11-25" && s.Version < "2026-07-28"
	}
	l.emit("reset", "trace", sc.ID, "stateless", sc.Cfg.Stateless, "json", sc.Cfg.JSON, "store", sc.Cfg.Store, "prime", prime, "maxbytes", sc.Cfg.MaxBytes)
	t.Run(sc.ID, func(t *testing.T) {
		defer func() {
			if p := recover(); p != nil {
				l.emit("panic", "msg", fmt.Sprint(p), "where", "scenario")
			}
		}()
		synctest.Test(t, func(t *testing.T) {
			r := &c08Run{t: t, sc: sc, log: l, sess: map[string]*c08SessState{}, bySid: map[string]string{},
				exch: map[string]*c08Exch{}, handlers: map[string]*c08Handler{}, streams: map[string]string{},
				issued: map[string]map[int]bool{}, sreqs: map[string][]string{}, sreqTag: map[string]string{}, gates: map[string]*c08Gate{}}
			r.run()
		})
	})
}

// ---------------------------------------------------------------- seeded random scenarios (beyond the model's bounds)

var c08Versions = []string{"2025-11-25", "2025-06-18", "2025-03-26"}

func c08Random(rnd *rand.Rand, i int) *c08Scenario {
	sc := &c08Scenario{ID: fmt.Sprintf("rand%d", i)}
	sc.Cfg.Store = rnd.IntN(4) != 0
	sc.Cfg.JSON = rnd.IntN(4) == 0
	sc.Cfg.Stateless = rnd.IntN(7) == 0
	ns := 1 + rnd.IntN(3)
	for k := 1; k <= ns; k++ {
		sc.Sessions = append(sc.Sessions, c08Sess{Name: fmt.Sprintf("s%d", k), Version: c08Versions[rnd.IntN(3)]})
	}
	type hk struct{ s, r string }
	var live []hk // posted requests (possibly returned)
	posted := map[string]int{}
	dupd := map[string]bool{}
	var xs []string
	gets := 0
	n := 5 + rnd.IntN(16)
	sname := func() string { return sc.Sessions[rnd.IntN(ns)].Name }
	for len(sc.Steps) < n {
		switch k := rnd.IntN(20); {
		case k < 4:
			s := sname()
			if posted[s] >= 3 || (sc.Cfg.Stateless && posted[s] >= 1) {
				continue
			}
			posted[s]++
			rn := fmt.Sprintf("r%d", posted[s])
			live = append(live, hk{s, rn})
			xs = append(xs, "p."+s+"."+rn)
			sc.Steps = append(sc.Steps, []any{"post", s, rn})
		case k < 8 && len(live) > 0:
			h := live[rnd.IntN(len(live))]
			sc.Steps = append(sc.Steps, []any{"emit", h.s, h.r})
		case k < 9 && len(live) > 0:
			h := live[rnd.IntN(len(live))]
			sc.Steps = append(sc.Steps, []any{"sreq", h.s, h.r})
			switch rnd.IntN(4) {
			case 0:
			case 1:
				sc.Steps = append(sc.Steps, []any{"abandon", h.s, h.r})
			default:
				sc.Steps = append(sc.Steps, []any{"ans", h.s, h.r})
			}
		case k < 11 && len(live) > 0:
			h := live[rnd.IntN(len(live))]
			sc.Steps = append(sc.Steps, []any{"ret", h.s, h.r})
		case k < 13 && !sc.Cfg.Stateless:
			sc.Steps = append(sc.Steps, []any{"sa", sname()})
		case k < 15 && len(xs) > 0:
			sc.Steps = append(sc.Steps, []any{"cut", xs[rnd.IntN(len(xs))]})
		case k < 18 && !sc.Cfg.Stateless:
			gets++
			g := fmt.Sprintf("g%d", gets)
			s := sname()
			if rnd.IntN(3) == 0 || len(live) == 0 {
				sel := "none"
				if sc.Cfg.Store && rnd.IntN(2) == 0 {
					sel = fmt.Sprintf("any%d", rnd.IntN(5))
				}
				sc.Steps = append(sc.Steps, []any{"get", g, s, "sa", sel})
			} else {
				h := live[rnd.IntN(len(live))]
				sc.Steps = append(sc.Steps, []any{"get", g, h.s, h.r, fmt.Sprintf("any%d", rnd.IntN(5))})
			}
			xs = append(xs, g)
		case k < 19 && !sc.Cfg.Stateless && rnd.IntN(4) == 0:
			sc.Steps = append(sc.Steps, []any{"del", sname()})
		case k < 20 && rnd.IntN(3) == 0 && len(live) > 0:
			// broadcast from a handler / a duplicate id raced at EventStore.Open / a write racing a replay
			h := live[rnd.IntN(len(live))]
			switch rnd.IntN(3) {
			case 0:
				sc.Steps = append(sc.Steps, []any{"upd", h.s, h.r})
			case 1:
				if strings.HasPrefix(h.r, "r") && !dupd[h.s+h.r] {
					dupd[h.s+h.r] = true
					d := "d" + h.r[1:]
					if rnd.IntN(2) == 0 {
						sc.Steps = append(sc.Steps, []any{"post", h.s, d})
					} else {
						sc.Steps = append(sc.Steps, []any{"gateO", "p." + h.s + "." + d}, []any{"post", h.s, d}, []any{"emit", h.s, h.r}, []any{"open"})
					}
					live = append(live, hk{h.s, d})
					xs = append(xs, "p."+h.s+"."+d)
				}
			case 2:
				if !sc.Cfg.Stateless && sc.Cfg.Store {
					gets++
					g := fmt.Sprintf("g%d", gets)
					sc.Steps = append(sc.Steps, []any{"cut", "p." + h.s + "." + h.r}, []any{"emit", h.s, h.r}, []any{"gateW", g},
						[]any{"get", g, h.s, h.r, fmt.Sprintf("any%d", rnd.IntN(3))}, []any{"emit", h.s, h.r}, []any{"open"})
					xs = append(xs, g)
				}
			}
		case k < 20 && sc.Cfg.Store && len(live) > 0:
			h := live[rnd.IntN(len(live))]
			sc.Steps = append(sc.Steps, []any{"gateA", h.s, h.r}, []any{"emit", h.s, h.r})
			if rnd.IntN(2) == 0 {
				sc.Steps = append(sc.Steps, []any{"cut", "p." + h.s + "." + h.r})
			} else if !sc.Cfg.Stateless {
				gets++
				g := fmt.Sprintf("g%d", gets)
				sc.Steps = append(sc.Steps, []any{"get", g, h.s, h.r, fmt.Sprintf("any%d", rnd.IntN(5))})
				xs = append(xs, g)
			}
			sc.Steps = append(sc.Steps, []any{"open"})
		}
	}
	return sc
}

func TestVerif_StreamSrv(t *testing.T) {
	outp := os.Getenv("VERIF_OUT")
	if outp == "" {
		t.Skip("VERIF_OUT not set")
	}
	f, err := os.Create(outp)
	if err != nil {
		t.Fatal(err)
	}
	defer f.Close()
	w := bufio.NewWriterSize(f, 1<<20)
	defer w.Flush()
	l := &c08Log{w: w}
	if in := os.Getenv("VERIF_IN"); in != "" {
		fin, err := os.Open(in)
		if err != nil {
			t.Fatal(err)
		}
		sc := bufio.NewScanner(fin)
		sc.Buffer(make([]byte, 1<<20), 1<<26)
		for sc.Scan() {
			var s c08Scenario
			if err := json.Unmarshal(sc.Bytes(), &s); err != nil {
				t.Fatalf("bad scenario: %v", err)
			}
			c08RunScenario(t, l, &s)
		}
		fin.Close()
	}
	seed, _ := strconv.ParseUint(os.Getenv("VERIF_SEED"), 10, 64)
	nr, _ := strconv.Atoi(os.Getenv("VERIF_RANDOM"))
	rnd := rand.New(rand.NewPCG(seed, 808))
	for i := 0; i < nr; i++ {
		c08RunScenario(t, l, c08Random(rnd, i))
	}
}
