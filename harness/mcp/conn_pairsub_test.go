//go:build verif

// Modern pair harness for C05: a REAL default (2026-07-28) ClientSession and a REAL
// ServerSession connected by the in-memory transport, inside a testing/synctest
// bubble.  Unlike conn_pair_test.go the client speaks the new protocol, so that
// resource subscriptions (and, with a ToolListChangedHandler, the list-changed
// subscription) are long-lived `subscriptions/listen` calls that only end when they
// are cancelled, and both transports are wrapped so that the script can make every
// WRITE of one side fail from some moment on while READS keep working.
//
// The script only contains APPLICATION / ENVIRONMENT actions (spec/PairSub.tla
// enumerates them); after every action the bubble runs to quiescence.  The verdict
// comes from spec/PairSubMon.tla over the log written here.
package mcp

import (
	"bufio"
	"context"
	"encoding/json"
	"errors"
	"fmt"
	"os"
	"runtime"
	"sort"
	"strings"
	"sync"
	"sync/atomic"
	"testing"
	"testing/synctest"
	"time"

	"github.com/modelcontextprotocol/go-sdk/internal/jsonrpc2"
	"github.com/modelcontextprotocol/go-sdk/jsonrpc"
)

type psScenario struct {
	ID    string     `json:"id"`
	Steps [][]string `json:"steps"`
}

// write-failure modes of a side
const (
	psOK   int32 = iota
	psErr        // every Write returns a plain error (a broken writer)
	psRej        // every Write returns an error wrapping jsonrpc2.ErrRejected (the message is refused, the writer lives on)
)

// psTransport wraps one end of NewInMemoryTransports: reads and Close go straight to the SDK's ioConn,
// writes fail once the side's mode is switched.
type psTransport struct {
	inner *InMemoryTransport
	side  string
	mode  *atomic.Int32
	log   *vLog
}

func (t *psTransport) Connect(ctx context.Context) (Connection, error) {
	c, err := t.inner.Connect(ctx)
	if err != nil {
		return nil, err
	}
	return &psConn{ioConn: c.(*ioConn), side: t.side, mode: t.mode, log: t.log}, nil
}

type psConn struct {
	*ioConn // Read, Close, SessionID, sessionUpdated
	side    string
	mode    *atomic.Int32
	log     *vLog
}

func psMsgKind(msg jsonrpc.Message) (string, string) {
	switch m := msg.(type) {
	case *jsonrpc.Request:
		if m.IsCall() {
			return "call", m.Method
		}
		return "notif", m.Method
	case *jsonrpc.Response:
		return "resp", ""
	}
	return "?", ""
}

func (c *psConn) Write(ctx context.Context, msg jsonrpc.Message) error {
	switch c.mode.Load() {
	case psErr:
		k, m := psMsgKind(msg)
		c.log.emit("wr.fail", "side", c.side, "kind", k, "method", m, "flavour", "err")
		return errors.New("verif: transport write failed")
	case psRej:
		k, m := psMsgKind(msg)
		c.log.emit("wr.fail", "side", c.side, "kind", k, "method", m, "flavour", "rej")
		return fmt.Errorf("%w: verif: transport refused the message", jsonrpc2.ErrRejected)
	}
	return c.ioConn.Write(ctx, msg)
}

// Close is honoured: it is logged and handed to the SDK's own in-memory connection.
func (c *psConn) Close() error {
	c.log.emit("tr.close", "side", c.side)
	return c.ioConn.Close()
}

type psRun struct {
	log   *vLog
	mu    sync.Mutex
	gates map[string]chan struct{}
	calls map[string]*vCallState
	open  map[string]bool // harness goroutines (close / wait / subscribe ...) that have not returned yet
	cs    *ClientSession
	ss    *ServerSession
	cl    *Client
	srv   *Server
	cmode atomic.Int32
	smode atomic.Int32
	nadd  int
}

func (r *psRun) gate(tag string) chan struct{} {
	r.mu.Lock()
	defer r.mu.Unlock()
	ch, ok := r.gates[tag]
	if !ok {
		ch = make(chan struct{})
		r.gates[tag] = ch
	}
	return ch
}

func (r *psRun) release(tag string) {
	ch := r.gate(tag)
	select {
	case <-ch:
	default:
		close(ch)
	}
}

// spawn runs f in a bubble goroutine and keeps book of whether it has returned.
func (r *psRun) spawn(name string, f func()) {
	r.mu.Lock()
	r.open[name] = true
	r.mu.Unlock()
	go func() {
		f()
		r.mu.Lock()
		delete(r.open, name)
		r.mu.Unlock()
	}()
}

func (r *psRun) openOps() []string {
	r.mu.Lock()
	defer r.mu.Unlock()
	out := []string{}
	for k := range r.open {
		out = append(out, k)
	}
	sort.Strings(out)
	return out
}

func (r *psRun) blockedCalls() []string {
	r.mu.Lock()
	defer r.mu.Unlock()
	out := []string{}
	for k, c := range r.calls {
		select {
		case <-c.done:
		default:
			out = append(out, k)
		}
	}
	sort.Strings(out)
	return out
}

func (r *psRun) startCall(k string, f func(ctx context.Context) error) {
	ctx, cancel := context.WithCancel(context.Background())
	st := &vCallState{ctx: ctx, cancel: cancel, done: make(chan struct{})}
	r.mu.Lock()
	r.calls[k] = st
	r.mu.Unlock()
	r.log.emit("call.begin", "k", k)
	go func() {
		defer close(st.done)
		err := f(ctx)
		kind, _ := vErrKind(err)
		es := ""
		if err != nil {
			es = err.Error()
		}
		r.log.emit("call.end", "k", k, "kind", kind, "err", es)
	}()
}

// listed reports where the sessions are still referenced by their Client / Server.
func (r *psRun) listed() (cListed, sListed bool, serverSubs int) {
	r.cl.mu.Lock()
	for _, s := range r.cl.sessions {
		if s == r.cs {
			cListed = true
		}
	}
	r.cl.mu.Unlock()
	for s := range r.srv.Sessions() {
		if s == r.ss {
			sListed = true
		}
	}
	r.srv.mu.Lock()
	for _, m := range r.srv.resourceSubscriptions {
		if _, ok := m[r.ss]; ok {
			serverSubs++
		}
	}
	for _, m := range []map[*ServerSession]jsonrpc.ID{r.srv.toolChangeSubscriptions, r.srv.promptChangeSubscriptions, r.srv.resourceChangeSubscriptions} {
		if _, ok := m[r.ss]; ok {
			serverSubs++
		}
	}
	r.srv.mu.Unlock()
	return
}

func psDumpStacks(id, stage string) {
	p := os.Getenv("VERIF_DEBUG_STACK")
	if p == "" {
		return
	}
	buf := make([]byte, 1<<20)
	buf = buf[:runtime.Stack(buf, true)]
	f, err := os.OpenFile(p, os.O_APPEND|os.O_CREATE|os.O_WRONLY, 0o644)
	if err != nil {
		return
	}
	defer f.Close()
	fmt.Fprintf(f, "======== %s %s\n%s\n", id, stage, buf)
}

func (r *psRun) run(sc *psScenario) {
	ctx := context.Background()
	steps := sc.Steps
	lc := false
	if len(steps) > 0 && len(steps[0]) > 0 && steps[0][0] == "setup" {
		lc = len(steps[0]) > 1 && steps[0][1] == "lc"
		steps = steps[1:]
	}
	copts := &ClientOptions{
		ResourceUpdatedHandler: func(_ context.Context, req *ResourceUpdatedNotificationRequest) {
			r.log.emit("n.updated", "uri", req.Params.URI)
		},
	}
	if lc {
		// a list-changed handler makes Client.Connect open a subscriptions/listen stream that lives until Close
		copts.ToolListChangedHandler = func(context.Context, *ToolListChangedRequest) {
			r.log.emit("n.toolsChanged")
		}
	}
	r.cl = NewClient(&Implementation{Name: "c", Version: "1"}, copts)
	r.srv = NewServer(&Implementation{Name: "s", Version: "1"}, &ServerOptions{
		SubscribeHandler: func(_ context.Context, req *SubscribeRequest) error {
			r.log.emit("h.sub", "uri", req.Params.URI)
			return nil
		},
		UnsubscribeHandler: func(_ context.Context, req *UnsubscribeRequest) error {
			r.log.emit("h.unsub", "uri", req.Params.URI)
			return nil
		},
	})
	// tool "t": waits until its gate is released or its context is cancelled
	r.srv.AddTool(&Tool{Name: "t", InputSchema: json.RawMessage(`{"type":"object"}`)},
		func(ctx context.Context, req *CallToolRequest) (*CallToolResult, error) {
			var a struct {
				R string `json:"r"`
			}
			json.Unmarshal(req.Params.Arguments, &a)
			r.log.emit("h.start", "side", "server", "r", a.R)
			ok := true
			select {
			case <-r.gate(a.R):
			case <-ctx.Done():
				ok = false
				r.log.emit("h.ctxdone", "side", "server", "r", a.R)
			}
			r.log.emit("h.end", "side", "server", "r", a.R, "ok", ok)
			if !ok {
				return nil, ctx.Err()
			}
			return vText(a.R), nil
		})
	for _, u := range []string{"u1", "u2"} {
		uri := "file:///" + u
		r.srv.AddResource(&Resource{URI: uri, Name: u}, func(context.Context, *ReadResourceRequest) (*ReadResourceResult, error) {
			return &ReadResourceResult{Contents: []*ResourceContents{{URI: uri, Text: "x"}}}, nil
		})
	}
	t1, t2 := NewInMemoryTransports()
	ss, err := r.srv.Connect(ctx, &psTransport{inner: t1, side: "server", mode: &r.smode, log: r.log}, nil)
	if err != nil {
		r.log.emit("setup.error", "err", err.Error())
		return
	}
	r.ss = ss
	cs, err := r.cl.Connect(ctx, &psTransport{inner: t2, side: "client", mode: &r.cmode, log: r.log}, nil)
	if err != nil {
		r.log.emit("setup.error", "err", err.Error())
		return
	}
	r.cs = cs
	synctest.Wait()
	time.Sleep(50 * time.Millisecond) // the debounced list-changed notifications of the set-up are out of the way
	synctest.Wait()
	if v := cs.InitializeResult().ProtocolVersion; v != protocolVersion20260728 {
		r.log.emit("setup.error", "err", "negotiated "+v)
		return
	}
	r.log.emit("ready", "side", "pair", "gated", false, "hbase", 0, "lc", lc)
	closer := func(side, c string, f func() error) {
		r.log.emit("close.begin", "side", side, "c", c)
		r.spawn("close."+c, func() {
			err := f()
			r.log.emit("close.end", "side", side, "c", c, "err", err != nil)
		})
	}
	waiter := func(side, w string, f func() error) {
		r.log.emit("wait.begin", "side", side, "w", w)
		r.spawn("wait."+w, func() {
			f()
			r.log.emit("wait.end", "side", side, "w", w)
		})
	}
	// Wait has no effect on the session it waits for: both applications wait from the start
	waiter("client", "cw", r.cs.Wait)
	waiter("server", "sw", r.ss.Wait)
	synctest.Wait()
	nop := 0
	for _, st := range steps {
		a := func(i int) string {
			if i < len(st) {
				return st[i]
			}
			return ""
		}
		nop++
		switch a(0) {
		case "csub":
			u, n := a(1), fmt.Sprintf("sub%d.%s", nop, a(1))
			r.log.emit("sub.begin", "u", u)
			r.spawn(n, func() {
				err := r.cs.Subscribe(context.Background(), &SubscribeParams{URI: "file:///" + u})
				r.log.emit("sub.end", "u", u, "err", err != nil)
			})
		case "cunsub":
			u, n := a(1), fmt.Sprintf("unsub%d.%s", nop, a(1))
			r.log.emit("unsub.begin", "u", u)
			r.spawn(n, func() {
				err := r.cs.Unsubscribe(context.Background(), &UnsubscribeParams{URI: "file:///" + u})
				r.log.emit("unsub.end", "u", u, "err", err != nil)
			})
		case "supd":
			u, n := a(1), fmt.Sprintf("upd%d.%s", nop, a(1))
			r.spawn(n, func() {
				r.srv.ResourceUpdated(context.Background(), &ResourceUpdatedNotificationParams{URI: "file:///" + u})
			})
		case "sadd":
			r.nadd++
			r.srv.AddTool(&Tool{Name: fmt.Sprintf("x%d", r.nadd), InputSchema: json.RawMessage(`{"type":"object"}`)},
				func(context.Context, *CallToolRequest) (*CallToolResult, error) { return vText("x"), nil })
			synctest.Wait()
			time.Sleep(2 * notificationDelay) // the debounce timer fires
		case "ccall":
			k := a(1)
			r.startCall(k, func(ctx context.Context) error {
				_, err := r.cs.CallTool(ctx, &CallToolParams{Name: "t", Arguments: map[string]any{"r": k}})
				return err
			})
		case "rel":
			r.release(a(1))
		case "cancel":
			r.mu.Lock()
			c := r.calls[a(1)]
			r.mu.Unlock()
			if c != nil {
				r.log.emit("ctx.cancel", "k", a(1))
				c.cancel()
			}
		case "cwfail", "swfail":
			m := psErr
			if a(1) == "rej" {
				m = psRej
			}
			if a(0) == "cwfail" {
				r.cmode.Store(m)
			} else {
				r.smode.Store(m)
			}
			r.log.emit("wfail", "side", a(0)[:1], "flavour", a(1))
		case "cpeergone": // the client's peer vanishes: the server's end of the pipe is closed under it
			r.log.emit("peergone", "side", "c")
			t1.rwc.Close()
		case "speergone":
			r.log.emit("peergone", "side", "s")
			t2.rwc.Close()
		case "cclose":
			closer("client", a(1), r.cs.Close)
		case "sclose":
			closer("server", a(1), r.ss.Close)
		case "sleep":
			time.Sleep(6 * time.Second)
		}
		synctest.Wait()
		r.log.emit("step", "op", a(0), "a1", a(1), "a2", a(2), "applied", true, "sessions", false, "quiet", true)
	}
	// drain stage 1: the environment pays its debts - every handler is allowed to return; nothing else is done
	r.log.emit("drain1")
	for i := 0; i < 3; i++ {
		r.mu.Lock()
		var tags []string
		for k := range r.calls {
			tags = append(tags, k)
		}
		r.mu.Unlock()
		for _, k := range tags {
			r.release(k)
		}
		synctest.Wait()
	}
	time.Sleep(30 * time.Second)
	synctest.Wait()
	if r.smode.Load() == psRej {
		// a server transport that refuses messages but lives on has lost the answers: the session has no way
		// of knowing, the callers give up (that is the environment's debt, like releasing the handlers)
		for _, k := range r.blockedCalls() {
			r.log.emit("ctx.cancel", "k", k, "giveup", true)
			r.mu.Lock()
			c := r.calls[k]
			r.mu.Unlock()
			c.cancel()
		}
		synctest.Wait()
		time.Sleep(30 * time.Second)
		synctest.Wait()
	}
	// Wait on a connection that is already over
	if o := strings.Join(r.openOps(), " "); !strings.Contains(o, "wait.") {
		waiter("client", "cw2", r.cs.Wait)
		waiter("server", "sw2", r.ss.Wait)
		synctest.Wait()
	}
	blocked, open := r.blockedCalls(), r.openOps()
	cListed, sListed, subs := r.listed()
	// census of the bubble once every application goroutine has returned: what is left belongs to the SDK
	left := []string{}
	if len(blocked) > 0 || len(open) > 0 {
		psDumpStacks(sc.ID, "quiesce1")
	} else if g := vBubbleGoroutines(); g != nil {
		left = g
		if os.Getenv("VERIF_DEBUG_STACK_ALL") != "" {
			psDumpStacks(sc.ID, "quiesce1.left")
		}
	}
	r.log.emit("quiesce1", "blockedCalls", blocked, "openOps", open, "sessions", cListed || sListed,
		"clientListed", cListed, "serverListed", sListed, "serverSubs", subs, "goroutines", left)
	// stage 2: clean-up
	r.log.emit("cleanup")
	if len(blocked) > 0 || len(open) > 0 {
		// something is stuck: take the transport away first. (Cancelling the callers first would start
		// cancel-notifiers that queue up on the transport's write mutex behind a blocked write; a goroutine
		// waiting for a mutex is not durably blocked and would stall the bubble for good.)
		t1.rwc.Close()
		t2.rwc.Close()
		synctest.Wait()
	}
	r.mu.Lock()
	for _, c := range r.calls {
		c.cancel()
	}
	r.mu.Unlock()
	synctest.Wait()
	done := make(chan struct{})
	go func() {
		r.cs.Close()
		r.ss.Close()
		close(done)
	}()
	synctest.Wait()
	// a transport that is gone for good: whatever is still blocked on the pipe is released
	t1.rwc.Close()
	t2.rwc.Close()
	synctest.Wait()
	time.Sleep(time.Hour)
	synctest.Wait()
	closed := false
	select {
	case <-done:
		closed = true
	default:
	}
	leaks := vBubbleGoroutines()
	if leaks == nil {
		leaks = []string{}
	}
	if !closed || len(leaks) > 0 {
		psDumpStacks(sc.ID, "final")
	}
	r.log.emit("final", "closeReturned", closed, "leaks", leaks, "openOps", r.openOps(), "sessions", false)
}

func TestVerif_ConnPairSub(t *testing.T) {
	in, outp := os.Getenv("VERIF_IN"), os.Getenv("VERIF_OUT")
	if in == "" || outp == "" {
		t.Skip("VERIF_IN/VERIF_OUT not set")
	}
	f, err := os.Create(outp)
	if err != nil {
		t.Fatal(err)
	}
	defer f.Close()
	w := bufio.NewWriterSize(f, 1<<20)
	defer w.Flush()
	l := &vLog{w: w}
	fin, err := os.Open(in)
	if err != nil {
		t.Fatal(err)
	}
	defer fin.Close()
	sc := bufio.NewScanner(fin)
	sc.Buffer(make([]byte, 1<<20), 1<<26)
	for sc.Scan() {
		if strings.TrimSpace(sc.Text()) == "" {
			continue
		}
		var s psScenario
		if err := json.Unmarshal(sc.Bytes(), &s); err != nil {
			t.Fatalf("bad scenario: %v", err)
		}
		l.emit("reset", "trace", s.ID, "side", "pair", "gated", false, "cs", false, "csseed", 0)
		func() {
			defer func() {
				if p := recover(); p != nil {
					l.emit("panic", "msg", fmt.Sprint(p))
				}
			}()
			t.Run(s.ID, func(t *testing.T) {
				defer func() {
					if p := recover(); p != nil {
						if msg := fmt.Sprint(p); strings.HasPrefix(msg, "deadlock: main bubble goroutine has exited") {
							// synctest's complaint about goroutines that outlive the bubble: a leak, not a panic of the SDK
							l.emit("bubble.leak", "msg", msg)
						} else {
							l.emit("panic", "msg", msg)
						}
					}
				}()
				synctest.Test(t, func(t *testing.T) {
					l.mu.Lock()
					l.start = time.Now()
					l.mu.Unlock()
					r := &psRun{log: l, gates: map[string]chan struct{}{}, calls: map[string]*vCallState{}, open: map[string]bool{}}
					r.run(&s)
				})
			})
		}()
	}
}
