//go:build verif

// C19, framing under a byte stream that breaks (spec/CodecSSE.tla, spec/CodecSSEDefs.tla).
//
// TLC exports every (stream, cut, end) of the machine CodecSSE: a stream is a sequence of byte classes
// (n1 n2 co sp v1 v2 cr lf, tagged with event / field / data line), the cut is a number of classes delivered, the
// end is io.EOF / io.ErrUnexpectedEOF / another read error.  This file gives every class its bytes (seeded values:
// JSON-RPC messages as data, ids, names, retry values), and for every case feeds the REAL readers
//
//	scan    scanEvents                              (SSE)
//	stream  streamableClientConn.processStream      (SSE, the streamable client's reader of a response body)
//	ioconn  ioConn.Read                             (newline-delimited)
//
// from an io.Reader that implements exactly that cut - at EVERY byte offset the cut stands for (a cut after n1 / v1
// is every offset inside that name / value) - and that end, in every way of chunking the Reads (one Read with
// everything and then the error; the last Read returns data AND the error; Reads of one byte).  What the reader
// yields is compared field by field with what was written; the comparison results are judged by the TLA+ monitor
// (CodecMon!ScChecks: ScDelivered, ScNoGaps).  The file is used together with c19_codec_test.go (same package, same
// build tag) and runs before it.
package mcp

import (
	"bufio"
	"bytes"
	"context"
	"encoding/json"
	"errors"
	"fmt"
	"io"
	"math/rand/v2"
	"net/http"
	"os"
	"sort"
	"strconv"
	"strings"
	"sync"
	"testing"
	"time"

	"github.com/modelcontextprotocol/go-sdk/jsonrpc"
)

// ---------------------------------------------------------------------------------------------
// Unexported SDK identifiers used by this file.

// c19ProcessStream runs the streamable client's reader of one response body on body and returns the messages it
// handed to the connection, the cursor it reports, and the failure it recorded for the connection (nil: none).
func c19ProcessStream(ctx context.Context, body io.Reader, room int) (msgs []jsonrpc.Message, lastEventID string, failure error) {
	c := &streamableClientConn{
		incoming: make(chan jsonrpc.Message, room),
		done:     make(chan struct{}),
		failed:   make(chan struct{}),
	}
	lastEventID, _, _ = c.processStream(ctx, "verif", &http.Response{StatusCode: 200, Body: io.NopCloser(body)}, nil)
	for {
		select {
		case m := <-c.incoming:
			msgs = append(msgs, m)
		default:
			return msgs, lastEventID, c.failure()
		}
	}
}

// ---------------------------------------------------------------------------------------------

type c19ScCase struct {
	Framing string   `json:"framing"`
	Shapes  []string `json:"shapes"`
	Eol     string   `json:"eol"`
	Colon   string   `json:"colon"`
	Comment string   `json:"comment"`
}

func (c c19ScCase) key() string {
	return fmt.Sprintf("%s|%s|%s|%s|%s", c.Framing, strings.Join(c.Shapes, ","), c.Eol, c.Colon, c.Comment)
}

// a line of cases_sc.ndjson: a stream (scs) or a case (sc), as TLC printed it
type c19ScIn struct {
	Scs    bool            `json:"scs"`
	Sc     bool            `json:"sc"`
	C      c19ScCase       `json:"c"`
	Toks   [][]any         `json:"toks"`
	Cut    int             `json:"cut"`
	Len    int             `json:"len"`
	End    string          `json:"end"`
	N      int             `json:"n"`
	K      int             `json:"k"`
	Nm     int             `json:"nm"`
	Km     int             `json:"km"`
	Inside bool            `json:"inside"`
	Lead   bool            `json:"lead"`
	Exp    json.RawMessage `json:"exp"`
}

// the case as the monitor reads it: what TLC derived, verbatim, plus who read and how the Reads were chunked
type c19ScObsCase struct {
	c19ScCase
	Cut    int             `json:"cut"`
	Len    int             `json:"len"`
	End    string          `json:"end"`
	N      int             `json:"n"`
	K      int             `json:"k"`
	Nm     int             `json:"nm"`
	Km     int             `json:"km"`
	Inside bool            `json:"inside"`
	Exp    json.RawMessage `json:"exp"`
	Path   string          `json:"path"`
	Modes  string          `json:"modes"`
}

type c19ScEv struct {
	Name  string `json:"name"`
	ID    string `json:"id"`
	Retry string `json:"retry"`
	Data  string `json:"data"`
}

type c19ScOut struct {
	Evs    []c19ScEv `json:"evs"`
	Err    string    `json:"err"`
	Lastid string    `json:"lastid"`
}

type c19ScLine struct {
	K   string       `json:"k"`
	C   c19ScObsCase `json:"c"`
	O   c19ScOut     `json:"o"`
	Cnt int          `json:"cnt"` // concrete runs (offsets x modes) with this outcome
}

// the written event, concrete
type c19ScWritten struct {
	name, id, retry, data string
	hasData               bool
}

// a concrete stream: the bytes, where every class ends, and what was written
type c19ScStream struct {
	c     c19ScCase
	kinds []string
	b     []byte
	end   []int // end[i]: offset after class i (1-based classes; end[0] = 0)
	evs   []c19ScWritten
	ids   []string
}

var c19ScWords = []string{"lorem", "ipsum", "dolor sit", "amet", "consectetur", "adipiscing elit", "data: x", "id: 7", ": c", "éü世", "a\\nb", "\\r\\n"}

// c19ScMessage: the JSON text of a JSON-RPC message, on one line
func c19ScMessage(r *rand.Rand, e int, large bool) string {
	words := make([]string, 1+r.IntN(6))
	for i := range words {
		words[i] = c19ScWords[r.IntN(len(c19ScWords))]
	}
	text := strings.Join(words, " ")
	if large {
		text += strings.Repeat(" lorem ipsum", 400+r.IntN(200))
	}
	tj, _ := json.Marshal(text)
	id := 1 + r.IntN(1<<20)
	switch r.IntN(3) {
	case 0:
		return fmt.Sprintf(`{"jsonrpc":"2.0","id":%d,"result":{"content":[{"type":"text","text":%s}],"isError":false}}`, id, tj)
	case 1:
		return fmt.Sprintf(`{"jsonrpc":"2.0","method":"notifications/message","params":{"level":"info","data":%s,"n":%d}}`, tj, e)
	default:
		return fmt.Sprintf(`{"jsonrpc":"2.0","id":%d,"method":"sampling/createMessage","params":{"messages":[{"role":"user","content":{"type":"text","text":%s}}],"maxTokens":%d}}`, id, tj, 1+r.IntN(4096))
	}
}

// c19ScConcretise gives every class of the stream its bytes.
func c19ScConcretise(r *rand.Rand, in c19ScIn, large bool) (*c19ScStream, error) {
	s := &c19ScStream{c: in.C, end: []int{0}}
	n := len(in.C.Shapes)
	s.evs = make([]c19ScWritten, n)
	sid := ""
	for i := 0; i < 4; i++ {
		sid += string("ABCDEFGHJKLMNPQRSTUVWXYZabcdefghkmnpqrstuvwxyz23456789"[r.IntN(54)])
	}
	first := r.IntN(9000)
	// the values, by (event, field, data line)
	val := map[string]string{}
	for e := 1; e <= n; e++ {
		w := &s.evs[e-1]
		msg := c19ScMessage(r, e, large && e == 1)
		two := strings.Index(msg, `,"`) // a JSON text may go over several data lines: white space between tokens
		for _, f := range c19ScFields(in.C.Shapes[e-1]) {
			switch f {
			case "event":
				w.name = "message"
				val[fmt.Sprintf("%d/event/1", e)] = w.name
			case "id":
				w.id = fmt.Sprintf("%s_%04d", sid, first+e) // no id is a prefix of another
				val[fmt.Sprintf("%d/id/1", e)] = w.id
				s.ids = append(s.ids, w.id)
			case "retry":
				w.retry = strconv.Itoa(100 + r.IntN(9000))
				val[fmt.Sprintf("%d/retry/1", e)] = w.retry
			case "data1of1", "json":
				w.data, w.hasData = msg, true
				val[fmt.Sprintf("%d/%s/1", e, strings.TrimSuffix(f, "1of1"))] = msg
			case "data1of2":
				w.data, w.hasData = msg[:two+1]+"\n"+msg[two+1:], true
				val[fmt.Sprintf("%d/data/1", e)] = msg[:two+1]
				val[fmt.Sprintf("%d/data/2", e)] = msg[two+1:]
			}
		}
	}
	for i, tk := range in.Toks {
		if len(tk) != 4 {
			return nil, fmt.Errorf("class %d of stream %s: %v", i, in.C.key(), tk)
		}
		kind, _ := tk[0].(string)
		ev, _ := tk[1].(float64)
		field, _ := tk[2].(string)
		ln, _ := tk[3].(float64)
		var text string
		switch field {
		case "comment":
			text = "keep-alive " + strconv.Itoa(int(ev))
		default:
			text = val[fmt.Sprintf("%d/%s/%d", int(ev), field, int(ln))]
		}
		var b string
		switch kind {
		case "n1":
			b = field[:1]
		case "n2":
			b = field[1:]
		case "co":
			b = ":"
		case "sp":
			b = " "
		case "v1":
			b = text[:1]
		case "v2":
			b = text[1:]
		case "cr":
			b = "\r"
		case "lf":
			b = "\n"
		}
		if b == "" {
			return nil, fmt.Errorf("class %d (%v) of stream %s has no bytes", i, tk, in.C.key())
		}
		s.kinds = append(s.kinds, kind)
		s.b = append(s.b, b...)
		s.end = append(s.end, len(s.b))
	}
	return s, nil
}

// c19ScFields: the fields of an event shape (the lines are in the exported stream; this only says which values exist)
func c19ScFields(shape string) []string {
	switch shape {
	case "data":
		return []string{"data1of1"}
	case "id-data", "data-id":
		return []string{"id", "data1of1"}
	case "name-id-data":
		return []string{"event", "id", "data1of1"}
	case "all":
		return []string{"event", "id", "retry", "data1of1"}
	case "data2":
		return []string{"data1of2"}
	case "id-data2":
		return []string{"id", "data1of2"}
	case "id-only":
		return []string{"id"}
	case "frame":
		return []string{"json"}
	}
	return nil
}

// offsets: the byte offsets the cut after class `cut` stands for
func (s *c19ScStream) offsets(r *rand.Rand, cut int, thorough bool) []int {
	if cut == 0 {
		return []int{0}
	}
	k := s.kinds[cut-1]
	if k != "n1" && k != "v1" {
		return []int{s.end[cut]}
	}
	lo, hi := s.end[cut-1]+1, s.end[cut+1]-1 // every offset inside the name / value
	limit := 24
	if thorough {
		limit = 160
	}
	if hi-lo+1 <= limit {
		out := make([]int, 0, hi-lo+1)
		for o := lo; o <= hi; o++ {
			out = append(out, o)
		}
		return out
	}
	pick := map[int]bool{}
	for i := 0; i < 4; i++ {
		pick[lo+i], pick[hi-i] = true, true
	}
	for o := lo; o <= hi; o++ { // around the edges of bufio's and the JSON decoder's buffers
		if m := o % 4096; m <= 1 || m == 4095 || o%512 == 0 {
			pick[o] = true
		}
	}
	for len(pick) < limit {
		pick[lo+r.IntN(hi-lo+1)] = true
	}
	out := make([]int, 0, len(pick))
	for o := range pick {
		out = append(out, o)
	}
	sort.Ints(out)
	return out
}

// c19CutReader delivers b and then ends with err, chunked as mode says.
type c19CutReader struct {
	b    []byte
	pos  int
	mode string
	err  error
}

func (r *c19CutReader) Read(p []byte) (int, error) {
	if len(p) == 0 {
		return 0, nil
	}
	rem := len(r.b) - r.pos
	if rem == 0 {
		return 0, r.err
	}
	n := min(rem, len(p))
	if r.mode == "byte" {
		n = 1
	}
	copy(p, r.b[r.pos:r.pos+n])
	r.pos += n
	if r.mode == "together" && r.pos == len(r.b) {
		return n, r.err
	}
	return n, nil
}

var c19ErrReset = errors.New("read tcp 127.0.0.1:49152->127.0.0.1:8080: read: connection reset by peer")

func c19ScEndErr(end string) error {
	switch end {
	case "eof":
		return io.EOF
	case "ueof":
		return io.ErrUnexpectedEOF
	}
	return c19ErrReset
}

func c19ScCmp(got, want string) string {
	switch {
	case got == want:
		return "eq"
	case got == "":
		return "empty"
	case want != "" && strings.HasPrefix(want, got):
		return "prefix"
	}
	return "other"
}

var c19ScModes = []string{"whole", "together", "byte"}

// c19ScRun: one concrete run of one reader
func c19ScRun(s *c19ScStream, path string, off int, mode, end string) (o c19ScOut, note string) {
	rd := &c19CutReader{b: s.b[:off], mode: mode, err: c19ScEndErr(end)}
	o = c19ScOut{Evs: []c19ScEv{}, Err: "none", Lastid: "none"}
	defer func() {
		if p := recover(); p != nil {
			o.Evs = append(o.Evs, c19ScEv{"other", "other", "other", "panic"})
			note = fmt.Sprintf("panic: %v", p)
		}
	}()
	extra := c19ScEv{"other", "other", "other", "other"}
	switch path {
	case "scan":
		afterErr := false
		c19ScanEvents(rd, func(e Event, err error) bool {
			if err != nil {
				o.Err = "error"
				note += " err=" + err.Error()
				afterErr = true
				return true
			}
			i := len(o.Evs)
			if i >= len(s.evs) || afterErr {
				o.Evs = append(o.Evs, extra)
			} else {
				w := s.evs[i]
				o.Evs = append(o.Evs, c19ScEv{c19ScCmp(e.Name, w.name), c19ScCmp(e.ID, w.id), c19ScCmp(e.Retry, w.retry), c19ScCmp(string(e.Data), w.data)})
			}
			if len(note) < 600 {
				note += fmt.Sprintf(" {name=%q id=%q retry=%q data=%q}", e.Name, e.ID, e.Retry, c19Trunc(e.Data))
			}
			return true
		})
	case "stream":
		ctx, cancel := context.WithTimeout(context.Background(), 10*time.Second)
		defer cancel()
		msgs, last, failure := c19ProcessStream(ctx, rd, len(s.evs)+4)
		var want []c19ScWritten // the events that carry a message
		for _, w := range s.evs {
			if w.hasData {
				want = append(want, w)
			}
		}
		for i, m := range msgs {
			enc, err := jsonrpc.EncodeMessage(m)
			switch {
			case i >= len(want):
				o.Evs = append(o.Evs, extra)
			case err == nil && c19JSONEq(enc, []byte(want[i].data)):
				o.Evs = append(o.Evs, c19ScEv{"eq", "eq", "eq", "eq"})
			default:
				o.Evs = append(o.Evs, c19ScEv{"eq", "eq", "eq", "other"})
			}
			if len(note) < 600 {
				note += " msg=" + c19Trunc(enc)
			}
		}
		if failure != nil {
			o.Err = "error"
			note += " failure=" + failure.Error()
			if strings.Contains(failure.Error(), "failed to decode event") {
				// the reader handed the decoder a payload that is none of the written ones (they all decode)
				o.Evs = append(o.Evs, c19ScEv{"eq", "eq", "eq", "undecodable"})
			}
		}
		switch {
		case last == "":
		case func() bool {
			for _, id := range s.ids {
				if id == last {
					return true
				}
			}
			return false
		}():
			o.Lastid = "whole"
		case func() bool {
			for _, id := range s.ids {
				if strings.HasPrefix(id, last) {
					return true
				}
			}
			return false
		}():
			o.Lastid = "part"
		default:
			o.Lastid = "other"
		}
		note += fmt.Sprintf(" lastEventID=%q", last)
	case "ioconn":
		ctx, cancel := context.WithTimeout(context.Background(), 10*time.Second)
		defer cancel()
		conn := c19NewIOConn(io.NopCloser(rd), c19NopW{})
		defer conn.Close()
		for len(o.Evs) < len(s.evs)+4 {
			m, err := conn.Read(ctx)
			if err != nil {
				if err != io.EOF {
					o.Err = "error"
				}
				note += " err=" + err.Error()
				break
			}
			i := len(o.Evs)
			enc, err := jsonrpc.EncodeMessage(m)
			switch {
			case i >= len(s.evs):
				o.Evs = append(o.Evs, extra)
			case err == nil && c19JSONEq(enc, []byte(s.evs[i].data)):
				o.Evs = append(o.Evs, c19ScEv{"eq", "eq", "eq", "eq"})
			default:
				o.Evs = append(o.Evs, c19ScEv{"eq", "eq", "eq", "other"})
			}
			if len(note) < 600 {
				note += " msg=" + c19Trunc(enc)
			}
		}
	}
	return o, note
}

type c19ScDetail struct {
	Line int    `json:"line"`
	In   string `json:"in"`
	Out  string `json:"out"`
}

// TestVerif_C19Break writes <VERIF_OUT>.sc (observations) and <VERIF_OUT>.sc.detail (the concrete input and what was
// yielded, for every outcome in which something yielded is not what was written or something is missing).
func TestVerif_C19Break(t *testing.T) {
	in, outp := os.Getenv("VERIF_IN"), os.Getenv("VERIF_OUT")
	if in == "" || outp == "" {
		t.Skip("VERIF_IN/VERIF_OUT not set")
	}
	seed, _ := strconv.ParseUint(os.Getenv("VERIF_SEED"), 10, 64)
	thorough := os.Getenv("VERIF_TIER") == "thorough"
	rows := c19Load[c19ScIn](t, in, "cases_sc.ndjson")
	t0 := time.Now()
	streams := map[string]*c19ScStream{}
	var cases []c19ScIn
	ns := 0
	for _, row := range rows {
		switch {
		case row.Scs:
			// a large payload (beyond the readers' buffers) in one stream in eight, and in the first
			r := rand.New(rand.NewPCG(seed, 12<<32|uint64(ns)))
			s, err := c19ScConcretise(r, row, ns%8 == 0)
			if err != nil {
				t.Fatal(err)
			}
			streams[row.C.key()] = s
			ns++
		case row.Sc:
			cases = append(cases, row)
		}
	}
	for _, c := range cases {
		s := streams[c.C.key()]
		if s == nil || len(s.kinds) != c.Len || c.Cut > c.Len {
			t.Fatalf("cases_sc.ndjson: case without its stream: %+v", c)
		}
	}
	type result struct {
		lines   []c19ScLine
		details []c19ScDetail // Line: index into lines
	}
	results := make([]result, len(cases))
	workers, _ := strconv.Atoi(os.Getenv("VERIF_WORKERS"))
	if workers < 1 {
		workers = 4
	}
	idx := make(chan int, 64)
	var wg sync.WaitGroup
	for w := 0; w < workers; w++ {
		wg.Add(1)
		go func() {
			defer wg.Done()
			for i := range idx {
				c := cases[i]
				s := streams[c.C.key()]
				r := rand.New(rand.NewPCG(seed, 13<<32|uint64(i)))
				offs := s.offsets(r, c.Cut, thorough)
				paths := []string{"scan", "stream"}
				if c.C.Framing == "ndjson" {
					paths = []string{"ioconn"}
				}
				for _, path := range paths {
					type agg struct {
						o     c19ScOut
						modes map[string]bool
						cnt   int
						in    string
						note  string
					}
					byOut := map[string]*agg{}
					var order []string
					for _, off := range offs {
						for _, mode := range c19ScModes {
							o, note := c19ScRun(s, path, off, mode, c.End)
							kb, _ := json.Marshal(o)
							a := byOut[string(kb)]
							if a == nil {
								a = &agg{o: o, modes: map[string]bool{}, note: note,
									in: fmt.Sprintf("%s mode=%s end=%s cut at byte %d of %d: ...%s", path, mode, c.End, off, len(s.b), strconv.QuoteToASCII(string(s.b[max(0, off-160):off])))}
								byOut[string(kb)] = a
								order = append(order, string(kb))
							}
							a.modes[mode] = true
							a.cnt++
						}
					}
					for _, kb := range order {
						a := byOut[kb]
						var ms []string
						for _, m := range c19ScModes {
							if a.modes[m] {
								ms = append(ms, m)
							}
						}
						n, k := c.N, c.K
						if path == "stream" {
							n, k = c.Nm, c.Km
						}
						bad := len(a.o.Evs) < k || len(a.o.Evs) > n || (a.o.Lastid != "none" && a.o.Lastid != "whole")
						for _, e := range a.o.Evs {
							bad = bad || e != c19ScEv{"eq", "eq", "eq", "eq"}
						}
						results[i].lines = append(results[i].lines, c19ScLine{"sc",
							c19ScObsCase{c.C, c.Cut, c.Len, c.End, c.N, c.K, c.Nm, c.Km, c.Inside, c.Exp, path, strings.Join(ms, "+")}, a.o, a.cnt})
						if bad {
							results[i].details = append(results[i].details, c19ScDetail{len(results[i].lines), a.in, a.note})
						}
					}
				}
			}
		}()
	}
	for i := range cases {
		idx <- i
	}
	close(idx)
	wg.Wait()
	fout, err := os.Create(outp + ".sc")
	if err != nil {
		t.Fatal(err)
	}
	defer fout.Close()
	w := bufio.NewWriterSize(fout, 1<<20)
	defer w.Flush()
	fdet, err := os.Create(outp + ".sc.detail")
	if err != nil {
		t.Fatal(err)
	}
	defer fdet.Close()
	wd := bufio.NewWriterSize(fdet, 1<<20)
	defer wd.Flush()
	line, runs := 0, 0
	for _, res := range results {
		for _, d := range res.details {
			d.Line += line
			b, _ := json.Marshal(d)
			wd.Write(b)
			wd.WriteByte('\n')
		}
		for _, l := range res.lines {
			b, err := json.Marshal(l)
			if err != nil {
				t.Fatal(err)
			}
			w.Write(bytes.TrimSpace(b))
			w.WriteByte('\n')
			line++
			runs += l.Cnt
		}
	}
	t.Logf("sc done %v streams=%d cases=%d lines=%d runs=%d", time.Since(t0), len(streams), len(cases), line, runs)
}
