//go:build verif

// Conformance harness for extension check X06 (capability declaration and capability gating), public API only.
//
// TestVerif_X06Tables reads the decision-table cases enumerated by TLC (spec/Capabilities.tla; VERIF_IN, one line
// per case: {"t":"srv"|"cli","c":{...}}), builds for every case a REAL mcp.Server / mcp.Client with the options,
// features and handlers the case names, connects them
//   - over the in-memory transport with the legacy initialize handshake (2025-06-18 / 2025-11-25),
//   - over the in-memory transport with server/discover (2026-07-28),
//   - over a stateless StreamableHTTPHandler driven through an in-process http.RoundTripper (2026-07-28),
// and records, from the RAW JSON-RPC frames (a recording Transport wrapper / the HTTP bodies), the capability
// objects that were advertised (initialize params and result, server/discover _meta and result, the _meta of every
// later request), what ServerRequest.ClientCapabilities() returned inside handlers, whether gated requests
// (sampling/createMessage with and without tools, elicitation/create form and url, roots/list,
// completion/complete, resources/subscribe, notifications/roots/list_changed) touched the wire, returned an error,
// and reached a user handler.
//
// TestVerif_X06Dyn replays TLC behaviours of spec/CapabilitiesDyn.tla (features added and removed while legacy and
// 2026-07-28 sessions come and go) on one real Server inside a testing/synctest bubble (virtual time: the 10 ms
// list-changed debounce) and records, per step, the capability object each new session was told, the
// subscriptions/listen acknowledgement and every list-changed notification that reached a client.
//
// Output (VERIF_OUT, ndjson) is judged by the TLA+ monitors CapabilitiesMon / CapabilitiesDynMon.
package mcp_test

import (
	"bufio"
	"bytes"
	"context"
	"encoding/json"
	"errors"
	"fmt"
	"io"
	"math/rand/v2"
	"net/http"
	"os"
	"reflect"
	"sort"
	"strconv"
	"strings"
	"sync"
	"sync/atomic"
	"testing"
	"testing/synctest"
	"time"

	"github.com/modelcontextprotocol/go-sdk/jsonrpc"
	"github.com/modelcontextprotocol/go-sdk/mcp"
)

// ---------------------------------------------------------------------------
// recording of raw frames

type x06Frame struct {
	Out bool // written by the client side of the recorded connection
	Raw map[string]json.RawMessage
}

type x06Rec struct {
	mu     sync.Mutex
	frames []x06Frame
	bodies []*x06RespBody // HTTP response bodies, parsed on demand
}

func (r *x06Rec) addRaw(out bool, raw []byte) {
	raw = bytes.TrimSpace(raw)
	if len(raw) == 0 {
		return
	}
	if raw[0] == '[' {
		var arr []json.RawMessage
		if json.Unmarshal(raw, &arr) == nil {
			for _, a := range arr {
				r.addRaw(out, a)
			}
		}
		return
	}
	var m map[string]json.RawMessage
	if err := json.Unmarshal(raw, &m); err != nil {
		return
	}
	r.mu.Lock()
	r.frames = append(r.frames, x06Frame{Out: out, Raw: m})
	r.mu.Unlock()
}

func (r *x06Rec) addMsg(out bool, msg jsonrpc.Message) {
	raw, err := jsonrpc.EncodeMessage(msg)
	if err != nil {
		return
	}
	r.addRaw(out, raw)
}

// all returns the frames seen so far (HTTP response bodies are drained into frames first).
func (r *x06Rec) all() []x06Frame {
	r.mu.Lock()
	bodies := r.bodies
	r.bodies = nil
	r.mu.Unlock()
	for _, b := range bodies {
		b.mu.Lock()
		data := append([]byte(nil), b.buf.Bytes()...)
		ct := b.ct
		b.mu.Unlock()
		if strings.HasPrefix(ct, "text/event-stream") {
			for _, line := range strings.Split(string(data), "\n") {
				line = strings.TrimRight(line, "\r")
				if strings.HasPrefix(line, "data:") {
					r.addRaw(false, []byte(strings.TrimSpace(line[5:])))
				}
			}
		} else {
			r.addRaw(false, data)
		}
	}
	r.mu.Lock()
	defer r.mu.Unlock()
	return append([]x06Frame(nil), r.frames...)
}

func x06Str(raw json.RawMessage) string {
	var s string
	json.Unmarshal(raw, &s)
	return s
}

// resultOf returns the raw result of the response to the first outgoing request named method.
func x06ResultOf(frames []x06Frame, method string) (json.RawMessage, bool) {
	for _, f := range frames {
		if f.Out && x06Str(f.Raw["method"]) == method && f.Raw["id"] != nil {
			id := string(f.Raw["id"])
			for _, g := range frames {
				if !g.Out && g.Raw["method"] == nil && string(g.Raw["id"]) == id && g.Raw["result"] != nil {
					return g.Raw["result"], true
				}
			}
		}
	}
	return nil, false
}

type x06RecTransport struct {
	inner mcp.Transport
	rec   *x06Rec
}

func (t *x06RecTransport) Connect(ctx context.Context) (mcp.Connection, error) {
	c, err := t.inner.Connect(ctx)
	if err != nil {
		return nil, err
	}
	return &x06RecConn{Connection: c, rec: t.rec}, nil
}

type x06RecConn struct {
	mcp.Connection
	rec *x06Rec
}

func (c *x06RecConn) Read(ctx context.Context) (jsonrpc.Message, error) {
	m, err := c.Connection.Read(ctx)
	if err == nil {
		c.rec.addMsg(false, m)
	}
	return m, err
}

func (c *x06RecConn) Write(ctx context.Context, m jsonrpc.Message) error {
	c.rec.addMsg(true, m)
	return c.Connection.Write(ctx, m)
}

// ---------------------------------------------------------------------------
// in-process HTTP: RoundTripper -> handler.ServeHTTP with a pipe-backed ResponseWriter; bodies are recorded

type x06RW struct {
	hdr   http.Header
	pw    *io.PipeWriter
	once  sync.Once
	ready chan struct{}
	code  int
	snap  http.Header
}

func (w *x06RW) Header() http.Header { return w.hdr }
func (w *x06RW) WriteHeader(code int) {
	w.once.Do(func() {
		w.code = code
		w.snap = w.hdr.Clone()
		close(w.ready)
	})
}
func (w *x06RW) Write(p []byte) (int, error) {
	w.WriteHeader(http.StatusOK)
	return w.pw.Write(p)
}
func (w *x06RW) Flush() {}

type x06RespBody struct {
	pr     *io.PipeReader
	cancel context.CancelFunc
	mu     sync.Mutex
	buf    bytes.Buffer
	ct     string
}

func (b *x06RespBody) Read(p []byte) (int, error) {
	n, err := b.pr.Read(p)
	if n > 0 {
		b.mu.Lock()
		b.buf.Write(p[:n])
		b.mu.Unlock()
	}
	return n, err
}
func (b *x06RespBody) Close() error {
	b.cancel()
	return b.pr.Close()
}

type x06RT struct {
	h   http.Handler
	rec *x06Rec
}

func (rt *x06RT) RoundTrip(req *http.Request) (*http.Response, error) {
	if req.Body != nil && req.Body != http.NoBody {
		data, _ := io.ReadAll(req.Body)
		req.Body.Close()
		rt.rec.addRaw(true, data)
		req = req.Clone(req.Context())
		req.Body = io.NopCloser(bytes.NewReader(data))
	}
	pr, pw := io.Pipe()
	w := &x06RW{hdr: http.Header{}, pw: pw, ready: make(chan struct{})}
	sctx, cancel := context.WithCancel(context.Background())
	stop := context.AfterFunc(req.Context(), cancel)
	sreq := req.Clone(sctx)
	if sreq.Body == nil {
		sreq.Body = http.NoBody
	}
	sreq.RequestURI = req.URL.RequestURI()
	sreq.RemoteAddr = "192.0.2.1:1234"
	go func() {
		defer stop()
		rt.h.ServeHTTP(w, sreq)
		w.WriteHeader(http.StatusOK)
		pw.Close()
	}()
	select {
	case <-w.ready:
	case <-req.Context().Done():
		cancel()
		pr.Close()
		return nil, req.Context().Err()
	}
	body := &x06RespBody{pr: pr, cancel: cancel, ct: w.snap.Get("Content-Type")}
	rt.rec.mu.Lock()
	rt.rec.bodies = append(rt.rec.bodies, body)
	rt.rec.mu.Unlock()
	return &http.Response{
		Status: strconv.Itoa(w.code) + " " + http.StatusText(w.code), StatusCode: w.code,
		Proto: "HTTP/1.1", ProtoMajor: 1, ProtoMinor: 1,
		Header: w.snap, Body: body, ContentLength: -1, Request: req,
	}, nil
}

// ---------------------------------------------------------------------------
// abstraction of capability objects

type x06SAdv struct {
	Lg bool   `json:"lg"`
	Co bool   `json:"co"`
	T  string `json:"t"`
	P  string `json:"p"`
	R  string `json:"r"`
}

var x06SAdvError = x06SAdv{T: "error", P: "error", R: "error"}

func x06Members(raw json.RawMessage) (map[string]json.RawMessage, bool) {
	var m map[string]json.RawMessage
	if err := json.Unmarshal(raw, &m); err != nil || m == nil {
		return nil, false
	}
	return m, true
}

func x06IsTrue(raw json.RawMessage) bool { return string(bytes.TrimSpace(raw)) == "true" }

// x06LC abstracts {"listChanged":b[, "subscribe":b]}; extra reports members nobody configured.
func x06LC(raw json.RawMessage, allowSub bool) (string, bool) {
	m, ok := x06Members(raw)
	if !ok {
		return "malformed", true
	}
	extra := false
	v := "lcF"
	sub := false
	for k, x := range m {
		switch {
		case k == "listChanged":
			if x06IsTrue(x) {
				v = "lcT"
			}
		case k == "subscribe" && allowSub:
			sub = x06IsTrue(x)
		default:
			extra = true
		}
	}
	if sub {
		v += "sub"
	}
	return v, extra
}

func x06AbsServer(raw json.RawMessage) (x06SAdv, bool) {
	a := x06SAdv{T: "absent", P: "absent", R: "absent"}
	m, ok := x06Members(raw)
	if !ok {
		return x06SAdvError, true
	}
	extra := false
	for k, x := range m {
		var e bool
		switch k {
		case "logging":
			a.Lg = true
			mm, ok := x06Members(x)
			e = !ok || len(mm) > 0
		case "completions":
			a.Co = true
			mm, ok := x06Members(x)
			e = !ok || len(mm) > 0
		case "tools":
			a.T, e = x06LC(x, false)
		case "prompts":
			a.P, e = x06LC(x, false)
		case "resources":
			a.R, e = x06LC(x, true)
		default:
			e = true
		}
		extra = extra || e
	}
	return a, extra
}

type x06CAdv struct {
	Ro string `json:"ro"`
	Sa string `json:"sa"`
	El string `json:"el"`
}

var x06CAdvError = x06CAdv{Ro: "error", Sa: "error", El: "error"}
var x06CAdvMissing = x06CAdv{Ro: "missing", Sa: "missing", El: "missing"}

func x06Two(raw json.RawMessage, a, b, both, onlyA, onlyB string) (string, bool) {
	m, ok := x06Members(raw)
	if !ok {
		return "malformed", true
	}
	extra := false
	ha, hb := false, false
	for k := range m {
		switch k {
		case a:
			ha = true
		case b:
			hb = true
		default:
			extra = true
		}
	}
	switch {
	case ha && hb:
		return both, extra
	case ha:
		return onlyA, extra
	case hb:
		return onlyB, extra
	}
	return "empty", extra
}

func x06AbsClient(raw json.RawMessage) (x06CAdv, bool) {
	a := x06CAdv{Ro: "absent", Sa: "absent", El: "absent"}
	m, ok := x06Members(raw)
	if !ok {
		return x06CAdvError, true
	}
	extra := false
	for k, x := range m {
		var e bool
		switch k {
		case "roots":
			a.Ro, e = x06LC(x, false)
		case "sampling":
			a.Sa, e = x06Two(x, "tools", "context", "both", "tools", "ctx")
		case "elicitation":
			a.El, e = x06Two(x, "form", "url", "both", "form", "url")
		default:
			e = true
		}
		extra = extra || e
	}
	return a, extra
}

// x06AbsClientStruct abstracts what ServerRequest.ClientCapabilities() returned.
func x06AbsClientStruct(c *mcp.ClientCapabilities) x06CAdv {
	if c == nil {
		return x06CAdvMissing
	}
	a := x06CAdv{Ro: "absent", Sa: "absent", El: "absent"}
	if c.RootsV2 != nil {
		a.Ro = "lcF"
		if c.RootsV2.ListChanged {
			a.Ro = "lcT"
		}
	}
	if s := c.Sampling; s != nil {
		switch {
		case s.Tools != nil && s.Context != nil:
			a.Sa = "both"
		case s.Tools != nil:
			a.Sa = "tools"
		case s.Context != nil:
			a.Sa = "ctx"
		default:
			a.Sa = "empty"
		}
	}
	if e := c.Elicitation; e != nil {
		switch {
		case e.Form != nil && e.URL != nil:
			a.El = "both"
		case e.Form != nil:
			a.El = "form"
		case e.URL != nil:
			a.El = "url"
		default:
			a.El = "empty"
		}
	}
	return a
}

func x06Code(err error) int64 {
	var je *jsonrpc.Error
	if errors.As(err, &je) {
		return je.Code
	}
	return 0
}

var x06ObjSchema = map[string]any{"type": "object"}

// ---------------------------------------------------------------------------
// server table

type x06SrvCase struct {
	Cn bool   `json:"cn"`
	Xt string `json:"xt"`
	Ht bool   `json:"ht"`
	Rt bool   `json:"rt"`
	Xp string `json:"xp"`
	Hp bool   `json:"hp"`
	Rp bool   `json:"rp"`
	Xr string `json:"xr"`
	Hr bool   `json:"hr"`
	Rr string `json:"rr"`
	Sh bool   `json:"sh"`
	Xc bool   `json:"xc"`
	Ch bool   `json:"ch"`
	Xl bool   `json:"xl"`
}

type x06Call struct {
	Err  bool  `json:"err"`
	Code int64 `json:"code"`
	Ran  bool  `json:"ran"`
}

type x06SrvOut struct {
	Adv       map[string]x06SAdv `json:"adv"`
	Extra     bool               `json:"extra"`
	Complete  x06Call            `json:"complete"`
	Subscribe x06Call            `json:"subscribe"`
	Mutated   bool               `json:"mutated"`
	Info      string             `json:"info"`
}

func x06ServerCaps(c x06SrvCase) *mcp.ServerCapabilities {
	if c.Cn {
		return nil
	}
	caps := &mcp.ServerCapabilities{}
	if c.Xl {
		caps.Logging = &mcp.LoggingCapabilities{}
	}
	if c.Xc {
		caps.Completions = &mcp.CompletionCapabilities{}
	}
	if c.Xt != "nil" {
		caps.Tools = &mcp.ToolCapabilities{ListChanged: c.Xt == "lcT"}
	}
	if c.Xp != "nil" {
		caps.Prompts = &mcp.PromptCapabilities{ListChanged: c.Xp == "lcT"}
	}
	if c.Xr != "nil" {
		caps.Resources = &mcp.ResourceCapabilities{ListChanged: strings.HasPrefix(c.Xr, "lcT"), Subscribe: strings.HasSuffix(c.Xr, "sub")}
	}
	return caps
}

var x06Impl = &mcp.Implementation{Name: "x06", Version: "v1"}

func x06ToolHandler(context.Context, *mcp.CallToolRequest) (*mcp.CallToolResult, error) {
	return &mcp.CallToolResult{Content: []mcp.Content{&mcp.TextContent{Text: "ok"}}}, nil
}
func x06PromptHandler(context.Context, *mcp.GetPromptRequest) (*mcp.GetPromptResult, error) {
	return &mcp.GetPromptResult{Messages: []*mcp.PromptMessage{}}, nil
}
func x06ResHandler(_ context.Context, req *mcp.ReadResourceRequest) (*mcp.ReadResourceResult, error) {
	return &mcp.ReadResourceResult{Contents: []*mcp.ResourceContents{{URI: req.Params.URI, Text: "x"}}}, nil
}

func x06RunSrv(c x06SrvCase, r *rand.Rand) x06SrvOut {
	out := x06SrvOut{Adv: map[string]x06SAdv{"init": x06SAdvError, "discmem": x06SAdvError, "dischttp": x06SAdvError}}
	var info []string
	caps := x06ServerCaps(c)
	ref := x06ServerCaps(c)
	var complRan, subRan atomic.Int32
	opts := &mcp.ServerOptions{Capabilities: caps, HasTools: c.Ht, HasPrompts: c.Hp, HasResources: c.Hr}
	if c.Sh {
		opts.SubscribeHandler = func(context.Context, *mcp.SubscribeRequest) error { subRan.Add(1); return nil }
		opts.UnsubscribeHandler = func(context.Context, *mcp.UnsubscribeRequest) error { return nil }
	}
	if c.Ch {
		opts.CompletionHandler = func(context.Context, *mcp.CompleteRequest) (*mcp.CompleteResult, error) {
			complRan.Add(1)
			return &mcp.CompleteResult{Completion: mcp.CompletionResultDetails{Values: []string{"v"}}}, nil
		}
	}
	server := mcp.NewServer(x06Impl, opts)
	nfeat := 1 + r.IntN(2)
	if c.Rt {
		for i := 0; i < nfeat; i++ {
			server.AddTool(&mcp.Tool{Name: fmt.Sprintf("t%d", i), InputSchema: x06ObjSchema}, x06ToolHandler)
		}
	}
	if c.Rp {
		for i := 0; i < nfeat; i++ {
			server.AddPrompt(&mcp.Prompt{Name: fmt.Sprintf("p%d", i)}, x06PromptHandler)
		}
	}
	switch c.Rr {
	case "res":
		for i := 0; i < nfeat; i++ {
			server.AddResource(&mcp.Resource{URI: fmt.Sprintf("file:///x06/r%d", i), Name: "r"}, x06ResHandler)
		}
	case "tmpl":
		server.AddResourceTemplate(&mcp.ResourceTemplate{URITemplate: "file:///x06/t/{id}", Name: "rt"}, x06ResHandler)
	}
	ctx, cancel := context.WithTimeout(context.Background(), 20*time.Second)
	defer cancel()

	observe := func(path, method string, rec *x06Rec) {
		res, ok := x06ResultOf(rec.all(), method)
		if !ok {
			info = append(info, path+": no "+method+" result on the wire")
			return
		}
		m, _ := x06Members(res)
		a, extra := x06AbsServer(m["capabilities"])
		out.Adv[path] = a
		out.Extra = out.Extra || extra
	}

	// --- legacy: initialize handshake over the in-memory transport
	{
		ct, st := mcp.NewInMemoryTransports()
		ss, err := server.Connect(ctx, st, nil)
		if err != nil {
			info = append(info, "init: server.Connect: "+err.Error())
		} else {
			rec := &x06Rec{}
			client := mcp.NewClient(x06Impl, nil)
			cs, err := client.Connect(ctx, &x06RecTransport{inner: ct, rec: rec}, &mcp.ClientSessionOptions{ProtocolVersion: "2025-11-25"})
			if err != nil {
				info = append(info, "init: connect: "+err.Error())
			} else {
				observe("init", "initialize", rec)
				_, err := cs.Complete(ctx, &mcp.CompleteParams{Ref: &mcp.CompleteReference{Type: "ref/prompt", Name: "p0"},
					Argument: mcp.CompleteParamsArgument{Name: "a", Value: "v"}})
				out.Complete = x06Call{Err: err != nil, Code: x06Code(err), Ran: complRan.Load() > 0}
				err = cs.Subscribe(ctx, &mcp.SubscribeParams{URI: "file:///x06/r0"})
				out.Subscribe = x06Call{Err: err != nil, Code: x06Code(err), Ran: subRan.Load() > 0}
				cs.Close()
			}
			ss.Close()
		}
	}
	// --- 2026-07-28: server/discover over the in-memory transport
	{
		ct, st := mcp.NewInMemoryTransports()
		ss, err := server.Connect(ctx, st, nil)
		if err != nil {
			info = append(info, "discmem: server.Connect: "+err.Error())
		} else {
			rec := &x06Rec{}
			client := mcp.NewClient(x06Impl, nil)
			cs, err := client.Connect(ctx, &x06RecTransport{inner: ct, rec: rec}, nil)
			if err != nil {
				info = append(info, "discmem: connect: "+err.Error())
			} else {
				observe("discmem", "server/discover", rec)
				cs.Close()
			}
			ss.Close()
		}
	}
	// --- 2026-07-28: server/discover over a stateless streamable HTTP handler
	{
		rec := &x06Rec{}
		h := mcp.NewStreamableHTTPHandler(func(*http.Request) *mcp.Server { return server },
			&mcp.StreamableHTTPOptions{Stateless: true, JSONResponse: r.IntN(2) == 0})
		client := mcp.NewClient(x06Impl, nil)
		cs, err := client.Connect(ctx, &mcp.StreamableClientTransport{Endpoint: "http://x06.verif.test/mcp",
			HTTPClient: &http.Client{Transport: &x06RT{h: h, rec: rec}}}, nil)
		if err != nil {
			info = append(info, "dischttp: connect: "+err.Error())
		} else {
			observe("dischttp", "server/discover", rec)
			cs.Close()
		}
	}
	out.Mutated = !reflect.DeepEqual(caps, ref)
	out.Info = strings.Join(info, " | ")
	return out
}

// ---------------------------------------------------------------------------
// client table

type x06CliCase struct {
	Cn   bool   `json:"cn"`
	R2   string `json:"r2"`
	R1   bool   `json:"r1"`
	Xs   string `json:"xs"`
	Xe   string `json:"xe"`
	Hs   string `json:"hs"`
	He   bool   `json:"he"`
	Path string `json:"path"`
}

type x06GCall struct {
	Err  bool  `json:"err"`
	Wire bool  `json:"wire"`
	Ran  bool  `json:"ran"`
	Code int64 `json:"code"`
}

type x06CliOut struct {
	Advs    []x06CAdv           `json:"advs"`
	Seen    []x06CAdv           `json:"seen"`
	Extra   bool                `json:"extra"`
	Calls   map[string]x06GCall `json:"calls"`
	Notif   bool                `json:"notif"`
	Mutated bool                `json:"mutated"`
	Info    string              `json:"info"`
}

func x06ClientCaps(c x06CliCase) *mcp.ClientCapabilities {
	if c.Cn {
		return nil
	}
	caps := &mcp.ClientCapabilities{}
	if c.R2 != "nil" {
		caps.RootsV2 = &mcp.RootCapabilities{ListChanged: c.R2 == "lcT"}
	}
	caps.Roots.ListChanged = c.R1
	switch c.Xs {
	case "empty":
		caps.Sampling = &mcp.SamplingCapabilities{}
	case "tools":
		caps.Sampling = &mcp.SamplingCapabilities{Tools: &mcp.SamplingToolsCapabilities{}}
	case "ctx":
		caps.Sampling = &mcp.SamplingCapabilities{Context: &mcp.SamplingContextCapabilities{}}
	case "both":
		caps.Sampling = &mcp.SamplingCapabilities{Tools: &mcp.SamplingToolsCapabilities{}, Context: &mcp.SamplingContextCapabilities{}}
	}
	switch c.Xe {
	case "empty":
		caps.Elicitation = &mcp.ElicitationCapabilities{}
	case "form":
		caps.Elicitation = &mcp.ElicitationCapabilities{Form: &mcp.FormElicitationCapabilities{}}
	case "url":
		caps.Elicitation = &mcp.ElicitationCapabilities{URL: &mcp.URLElicitationCapabilities{}}
	case "both":
		caps.Elicitation = &mcp.ElicitationCapabilities{Form: &mcp.FormElicitationCapabilities{}, URL: &mcp.URLElicitationCapabilities{}}
	}
	return caps
}

var x06GatedNames = []string{"samp", "samptools", "elicform", "elicurl", "roots"}

type x06Counters struct {
	samp, elic atomic.Int32
}

// x06Gated issues every gated server-to-client request once on ss and reports error / handler-ran; "wire" is
// filled in later from the recorded frames.
func x06Gated(ctx context.Context, ss *mcp.ServerSession, cnt *x06Counters) map[string]x06GCall {
	res := map[string]x06GCall{}
	msg := func() []*mcp.SamplingMessage {
		return []*mcp.SamplingMessage{{Role: "user", Content: &mcp.TextContent{Text: "x06"}}}
	}
	call := func(name string, f func(context.Context) (bool, error)) {
		cctx, cancel := context.WithTimeout(ctx, 5*time.Second)
		defer cancel()
		ran, err := f(cctx)
		res[name] = x06GCall{Err: err != nil, Ran: ran, Code: x06Code(err)}
	}
	call("samp", func(c context.Context) (bool, error) {
		before := cnt.samp.Load()
		_, err := ss.CreateMessage(c, &mcp.CreateMessageParams{MaxTokens: 10, Messages: msg()})
		return cnt.samp.Load() > before, err
	})
	call("samptools", func(c context.Context) (bool, error) {
		before := cnt.samp.Load()
		_, err := ss.CreateMessageWithTools(c, &mcp.CreateMessageWithToolsParams{MaxTokens: 10,
			Messages: []*mcp.SamplingMessageV2{{Role: "user", Content: []mcp.Content{&mcp.TextContent{Text: "x06"}}}},
			Tools:    []*mcp.Tool{{Name: "calc", InputSchema: x06ObjSchema}}})
		return cnt.samp.Load() > before, err
	})
	call("elicform", func(c context.Context) (bool, error) {
		before := cnt.elic.Load()
		_, err := ss.Elicit(c, &mcp.ElicitParams{Message: "name?", RequestedSchema: map[string]any{"type": "object",
			"properties": map[string]any{"name": map[string]any{"type": "string"}}}})
		return cnt.elic.Load() > before, err
	})
	call("elicurl", func(c context.Context) (bool, error) {
		before := cnt.elic.Load()
		_, err := ss.Elicit(c, &mcp.ElicitParams{Mode: "url", Message: "visit", URL: "https://x06.verif.test/auth", ElicitationID: "e1"})
		return cnt.elic.Load() > before, err
	})
	call("roots", func(c context.Context) (bool, error) {
		rr, err := ss.ListRoots(c, nil)
		ran := false
		if err == nil && rr != nil {
			for _, root := range rr.Roots {
				if root.URI == "file:///x06/root" {
					ran = true
				}
			}
		}
		return ran, err
	})
	return res
}

func x06ClassifyGated(f x06Frame) string {
	if f.Raw["id"] == nil {
		return ""
	}
	switch x06Str(f.Raw["method"]) {
	case "roots/list":
		return "roots"
	case "sampling/createMessage":
		p, _ := x06Members(f.Raw["params"])
		var tools []json.RawMessage
		if json.Unmarshal(p["tools"], &tools) == nil && len(tools) > 0 {
			return "samptools"
		}
		return "samp"
	case "elicitation/create":
		p, _ := x06Members(f.Raw["params"])
		if x06Str(p["mode"]) == "url" {
			return "elicurl"
		}
		return "elicform"
	}
	return ""
}

const x06MetaCaps = "io.modelcontextprotocol/clientCapabilities"

func x06RunCli(c x06CliCase, r *rand.Rand) x06CliOut {
	out := x06CliOut{Advs: []x06CAdv{}, Seen: []x06CAdv{}, Calls: map[string]x06GCall{}}
	for _, g := range x06GatedNames {
		out.Calls[g] = x06GCall{Err: true}
	}
	var info []string
	modern := c.Path == "modmem" || c.Path == "modhttp"
	caps := x06ClientCaps(c)
	ref := x06ClientCaps(c)
	cnt := &x06Counters{}
	copts := &mcp.ClientOptions{Capabilities: caps}
	switch c.Hs {
	case "basic":
		copts.CreateMessageHandler = func(context.Context, *mcp.CreateMessageRequest) (*mcp.CreateMessageResult, error) {
			cnt.samp.Add(1)
			return &mcp.CreateMessageResult{Model: "m", Role: "assistant", Content: &mcp.TextContent{Text: "ok"}}, nil
		}
	case "tools":
		copts.CreateMessageWithToolsHandler = func(context.Context, *mcp.CreateMessageWithToolsRequest) (*mcp.CreateMessageWithToolsResult, error) {
			cnt.samp.Add(1)
			return &mcp.CreateMessageWithToolsResult{Model: "m", Role: "assistant", Content: []mcp.Content{&mcp.TextContent{Text: "ok"}}}, nil
		}
	}
	if c.He {
		copts.ElicitationHandler = func(_ context.Context, req *mcp.ElicitRequest) (*mcp.ElicitResult, error) {
			cnt.elic.Add(1)
			if req.Params.Mode == "url" {
				return &mcp.ElicitResult{Action: "accept"}, nil
			}
			return &mcp.ElicitResult{Action: "accept", Content: map[string]any{"name": "x"}}, nil
		}
	}
	client := mcp.NewClient(x06Impl, copts)
	client.AddRoots(&mcp.Root{URI: "file:///x06/root", Name: "root"})

	var mu sync.Mutex
	var inHandler map[string]x06GCall
	server := mcp.NewServer(x06Impl, nil)
	server.AddTool(&mcp.Tool{Name: "probe", InputSchema: x06ObjSchema}, func(ctx context.Context, req *mcp.CallToolRequest) (*mcp.CallToolResult, error) {
		seen := x06AbsClientStruct(req.ClientCapabilities())
		var calls map[string]x06GCall
		if modern {
			calls = x06Gated(ctx, req.Session, cnt)
		}
		mu.Lock()
		out.Seen = append(out.Seen, seen)
		if calls != nil {
			inHandler = calls
		}
		mu.Unlock()
		return &mcp.CallToolResult{Content: []mcp.Content{&mcp.TextContent{Text: "ok"}}}, nil
	})

	ctx, cancel := context.WithTimeout(context.Background(), 30*time.Second)
	defer cancel()
	rec := &x06Rec{}
	var ct mcp.Transport
	var ss *mcp.ServerSession
	switch c.Path {
	case "modhttp":
		h := mcp.NewStreamableHTTPHandler(func(*http.Request) *mcp.Server { return server },
			&mcp.StreamableHTTPOptions{Stateless: true, JSONResponse: r.IntN(2) == 0})
		ct = &mcp.StreamableClientTransport{Endpoint: "http://x06.verif.test/mcp", HTTPClient: &http.Client{Transport: &x06RT{h: h, rec: rec}}}
	default:
		cti, sti := mcp.NewInMemoryTransports()
		var err error
		ss, err = server.Connect(ctx, sti, nil)
		if err != nil {
			out.Info = "server.Connect: " + err.Error()
			out.Advs = []x06CAdv{x06CAdvError}
			return out
		}
		defer ss.Close()
		ct = &x06RecTransport{inner: cti, rec: rec}
	}
	var sopts *mcp.ClientSessionOptions
	switch c.Path {
	case "init0618":
		sopts = &mcp.ClientSessionOptions{ProtocolVersion: "2025-06-18"}
	case "init1125":
		sopts = &mcp.ClientSessionOptions{ProtocolVersion: "2025-11-25"}
	}
	cs, err := client.Connect(ctx, ct, sopts)
	if err != nil {
		out.Info = "connect: " + err.Error()
		out.Advs = []x06CAdv{x06CAdvError}
		return out
	}
	if v := cs.InitializeResult().ProtocolVersion; modern != (v >= "2026-07-28") {
		info = append(info, "negotiated "+v)
	}
	if !modern {
		for g, gc := range x06Gated(ctx, ss, cnt) {
			out.Calls[g] = gc
		}
	}
	if _, err := cs.ListTools(ctx, nil); err != nil {
		info = append(info, "list: "+err.Error())
	}
	if _, err := cs.CallTool(ctx, &mcp.CallToolParams{Name: "probe"}); err != nil {
		info = append(info, "call: "+err.Error())
	}
	mu.Lock()
	if modern && inHandler != nil {
		for g, gc := range inHandler {
			out.Calls[g] = gc
		}
	}
	mu.Unlock()
	nBefore := len(rec.all())
	client.AddRoots(&mcp.Root{URI: "file:///x06/extra", Name: "extra"})
	if !modern {
		// make sure the notification (if any) went through before closing: a round trip on the same connection
		cs.Ping(ctx, nil)
	}
	cs.Close()
	frames := rec.all()
	for i, f := range frames {
		if f.Out && i >= nBefore && x06Str(f.Raw["method"]) == "notifications/roots/list_changed" {
			out.Notif = true
		}
		if !f.Out {
			if g := x06ClassifyGated(f); g != "" {
				gc := out.Calls[g]
				gc.Wire = true
				out.Calls[g] = gc
			}
			continue
		}
		method := x06Str(f.Raw["method"])
		if method == "" {
			continue
		}
		p, _ := x06Members(f.Raw["params"])
		if method == "initialize" {
			a, extra := x06AbsClient(p["capabilities"])
			out.Advs = append(out.Advs, a)
			out.Extra = out.Extra || extra
			continue
		}
		meta, _ := x06Members(p["_meta"])
		if raw, ok := meta[x06MetaCaps]; ok {
			a, extra := x06AbsClient(raw)
			out.Advs = append(out.Advs, a)
			out.Extra = out.Extra || extra
		} else if modern && f.Raw["id"] != nil && method != "ping" {
			out.Advs = append(out.Advs, x06CAdvMissing) // a 2026-07-28 request without clientCapabilities
			info = append(info, "no clientCapabilities on "+method)
		}
	}
	if len(out.Advs) == 0 {
		out.Advs = []x06CAdv{x06CAdvMissing}
	}
	out.Mutated = !reflect.DeepEqual(caps, ref)
	out.Info = strings.Join(info, " | ")
	return out
}

// ---------------------------------------------------------------------------

type x06In struct {
	T string          `json:"t"`
	C json.RawMessage `json:"c"`
}

type x06Line struct {
	T string          `json:"t"`
	C json.RawMessage `json:"c"`
	O any             `json:"o"`
}

func x06ReadLines(t *testing.T, path string, f func([]byte)) {
	fin, err := os.Open(path)
	if err != nil {
		t.Fatal(err)
	}
	defer fin.Close()
	sc := bufio.NewScanner(fin)
	sc.Buffer(make([]byte, 1<<16), 1<<24)
	for sc.Scan() {
		if len(bytes.TrimSpace(sc.Bytes())) > 0 {
			f(append([]byte(nil), sc.Bytes()...))
		}
	}
}

func TestVerif_X06Tables(t *testing.T) {
	in, outp := os.Getenv("VERIF_IN"), os.Getenv("VERIF_OUT")
	if in == "" || outp == "" {
		t.Skip("VERIF_IN/VERIF_OUT not set")
	}
	seed, _ := strconv.ParseUint(os.Getenv("VERIF_SEED"), 10, 64)
	workers, _ := strconv.Atoi(os.Getenv("VERIF_WORKERS"))
	if workers <= 0 {
		workers = 4
	}
	var cases []x06In
	x06ReadLines(t, in, func(b []byte) {
		var c x06In
		if err := json.Unmarshal(b, &c); err != nil {
			t.Fatalf("bad case: %v", err)
		}
		cases = append(cases, c)
	})
	results := make([]x06Line, len(cases))
	var next atomic.Int64
	var wg sync.WaitGroup
	var failed atomic.Value
	for w := 0; w < workers; w++ {
		wg.Add(1)
		go func() {
			defer wg.Done()
			for {
				i := int(next.Add(1)) - 1
				if i >= len(cases) {
					return
				}
				r := rand.New(rand.NewPCG(seed, uint64(i)+1))
				line := x06Line{T: cases[i].T, C: cases[i].C}
				switch cases[i].T {
				case "srv":
					var c x06SrvCase
					if err := json.Unmarshal(cases[i].C, &c); err != nil {
						failed.Store(err.Error())
						return
					}
					line.O = x06RunSrv(c, r)
				case "cli":
					var c x06CliCase
					if err := json.Unmarshal(cases[i].C, &c); err != nil {
						failed.Store(err.Error())
						return
					}
					line.O = x06RunCli(c, r)
				default:
					failed.Store("unknown case type " + cases[i].T)
					return
				}
				results[i] = line
			}
		}()
	}
	wg.Wait()
	if v := failed.Load(); v != nil {
		t.Fatal(v)
	}
	fout, err := os.Create(outp)
	if err != nil {
		t.Fatal(err)
	}
	defer fout.Close()
	w := bufio.NewWriter(fout)
	defer w.Flush()
	enc := json.NewEncoder(w)
	for _, l := range results {
		if err := enc.Encode(l); err != nil {
			t.Fatal(err)
		}
	}
}

// ---------------------------------------------------------------------------
// dynamic part

type x06Step struct {
	Op string `json:"op"`
	A  []any  `json:"a"`
}

type x06Scenario struct {
	ID    string            `json:"id"`
	Kinds []string          `json:"kinds"`
	Cfg   map[string]string `json:"cfg"`
	Steps []x06Step         `json:"steps"`
}

type x06Ev struct {
	Ev    string            `json:"ev"`
	Trace string            `json:"trace"`
	K     string            `json:"k"`
	S     string            `json:"s"`
	Era   string            `json:"era"`
	Adv   map[string]string `json:"adv"`
	Want  []string          `json:"want"`
	Ack   []string          `json:"ack"`
	Dl    [][]string        `json:"dl"`
	Kinds []string          `json:"kinds"`
	Cfg   map[string]string `json:"cfg"`
	Info  string            `json:"info"`
}

var x06AllKinds = []string{"tools", "prompts", "resources"}

var x06NotifKind = map[string]string{
	"notifications/tools/list_changed":     "tools",
	"notifications/prompts/list_changed":   "prompts",
	"notifications/resources/list_changed": "resources",
}

type x06DynSess struct {
	cs  *mcp.ClientSession
	rec *x06Rec
	ack []string
}

func x06RunDyn(t *testing.T, sc x06Scenario, r *rand.Rand, emit func(x06Ev)) {
	blankAdv := func() map[string]string {
		return map[string]string{"tools": "absent", "prompts": "absent", "resources": "absent"}
	}
	ev := func(e x06Ev) {
		e.Trace = sc.ID
		if e.Adv == nil {
			e.Adv = blankAdv()
		}
		if e.Want == nil {
			e.Want = []string{}
		}
		if e.Ack == nil {
			e.Ack = []string{}
		}
		if e.Dl == nil {
			e.Dl = [][]string{}
		}
		if e.Kinds == nil {
			e.Kinds = []string{}
		}
		if e.Cfg == nil {
			e.Cfg = map[string]string{"tools": "nil", "prompts": "nil", "resources": "nil"}
		}
		emit(e)
	}
	cfg := map[string]string{"tools": "nil", "prompts": "nil", "resources": "nil"}
	allNil := true
	for k, v := range sc.Cfg {
		cfg[k] = v
		if v != "nil" {
			allNil = false
		}
	}
	var sopts *mcp.ServerOptions
	if !allNil || r.IntN(2) == 0 {
		caps := &mcp.ServerCapabilities{Logging: &mcp.LoggingCapabilities{}}
		if v := cfg["tools"]; v != "nil" {
			caps.Tools = &mcp.ToolCapabilities{ListChanged: v == "lcT"}
		}
		if v := cfg["prompts"]; v != "nil" {
			caps.Prompts = &mcp.PromptCapabilities{ListChanged: v == "lcT"}
		}
		if v := cfg["resources"]; v != "nil" {
			caps.Resources = &mcp.ResourceCapabilities{ListChanged: v == "lcT"}
		}
		sopts = &mcp.ServerOptions{Capabilities: caps}
	}
	server := mcp.NewServer(x06Impl, sopts)
	ev(x06Ev{Ev: "reset", Kinds: sc.Kinds, Cfg: cfg})

	var mu sync.Mutex
	var deliveries [][]string
	sessions := map[string]*x06DynSess{}
	ctx, cancel := context.WithCancel(context.Background())
	defer cancel()
	useTemplate := r.IntN(2) == 0

	newClient := func(id string, want []string, ds *x06DynSess) *mcp.Client {
		opts := &mcp.ClientOptions{}
		for _, k := range want {
			switch k {
			case "tools":
				opts.ToolListChangedHandler = func(context.Context, *mcp.ToolListChangedRequest) {}
			case "prompts":
				opts.PromptListChangedHandler = func(context.Context, *mcp.PromptListChangedRequest) {}
			case "resources":
				opts.ResourceListChangedHandler = func(context.Context, *mcp.ResourceListChangedRequest) {}
			}
		}
		c := mcp.NewClient(x06Impl, opts)
		c.AddReceivingMiddleware(func(next mcp.MethodHandler) mcp.MethodHandler {
			return func(ctx context.Context, method string, req mcp.Request) (mcp.Result, error) {
				if k, ok := x06NotifKind[method]; ok {
					mu.Lock()
					deliveries = append(deliveries, []string{id, k})
					mu.Unlock()
				}
				if method == "notifications/subscriptions/acknowledged" {
					if p, ok := req.GetParams().(*mcp.SubscriptionsAcknowledgedParams); ok && p != nil {
						var ack []string
						if p.Notifications.ToolsListChanged {
							ack = append(ack, "tools")
						}
						if p.Notifications.PromptsListChanged {
							ack = append(ack, "prompts")
						}
						if p.Notifications.ResourcesListChanged {
							ack = append(ack, "resources")
						}
						mu.Lock()
						ds.ack = ack
						mu.Unlock()
					}
				}
				return next(ctx, method, req)
			}
		})
		return c
	}
	takeDl := func() [][]string {
		mu.Lock()
		defer mu.Unlock()
		d := deliveries
		deliveries = nil
		sort.Slice(d, func(i, j int) bool { return d[i][0]+"|"+d[i][1] < d[j][0]+"|"+d[j][1] })
		return d
	}
	advOf := func(rec *x06Rec, method string) (map[string]string, string) {
		res, ok := x06ResultOf(rec.all(), method)
		if !ok {
			return map[string]string{"tools": "error", "prompts": "error", "resources": "error"}, "no " + method + " result"
		}
		m, _ := x06Members(res)
		a, _ := x06AbsServer(m["capabilities"])
		return map[string]string{"tools": a.T, "prompts": a.P, "resources": a.R}, ""
	}
	connect := func(id, era string, want []string) x06Ev {
		e := x06Ev{Ev: "connect", S: id, Era: era, Want: want}
		ct, st := mcp.NewInMemoryTransports()
		if _, err := server.Connect(ctx, st, nil); err != nil {
			e.Info = "server.Connect: " + err.Error()
			return e
		}
		ds := &x06DynSess{rec: &x06Rec{}}
		var copts *mcp.ClientSessionOptions
		method := "server/discover"
		if era == "legacy" {
			copts = &mcp.ClientSessionOptions{ProtocolVersion: "2025-11-25"}
			method = "initialize"
			want = x06AllKinds // handlers for every kind: the legacy protocol has no opt-in
		}
		client := newClient(id, want, ds)
		cctx, ccancel := context.WithTimeout(ctx, 30*time.Second)
		cs, err := client.Connect(cctx, &x06RecTransport{inner: ct, rec: ds.rec}, copts)
		ccancel()
		if err != nil {
			e.Info = "connect: " + err.Error()
			return e
		}
		ds.cs = cs
		sessions[id] = ds
		synctest.Wait()
		e.Adv, e.Info = advOf(ds.rec, method)
		mu.Lock()
		e.Ack = append([]string{}, ds.ack...)
		mu.Unlock()
		return e
	}
	strs := func(v any) []string {
		out := []string{}
		if arr, ok := v.([]any); ok {
			for _, x := range arr {
				if s, ok := x.(string); ok {
					out = append(out, s)
				}
			}
		}
		sort.Strings(out)
		return out
	}
	for _, st := range sc.Steps {
		arg := func(i int) string {
			if i < len(st.A) {
				if s, ok := st.A[i].(string); ok {
					return s
				}
			}
			return ""
		}
		var e x06Ev
		switch st.Op {
		case "AddF":
			k := arg(0)
			e = x06Ev{Ev: "add", K: k}
			switch k {
			case "tools":
				server.AddTool(&mcp.Tool{Name: "a", InputSchema: x06ObjSchema}, x06ToolHandler)
			case "prompts":
				server.AddPrompt(&mcp.Prompt{Name: "a"}, x06PromptHandler)
			case "resources":
				if useTemplate {
					server.AddResourceTemplate(&mcp.ResourceTemplate{URITemplate: "file:///x06/a/{id}", Name: "a"}, x06ResHandler)
				} else {
					server.AddResource(&mcp.Resource{URI: "file:///x06/a", Name: "a"}, x06ResHandler)
				}
			}
		case "RemoveF":
			k := arg(0)
			e = x06Ev{Ev: "remove", K: k}
			switch k {
			case "tools":
				server.RemoveTools("a")
			case "prompts":
				server.RemovePrompts("a")
			case "resources":
				if useTemplate {
					server.RemoveResourceTemplates("file:///x06/a/{id}")
				} else {
					server.RemoveResources("file:///x06/a")
				}
			}
		case "ConnectLegacy":
			e = connect(arg(0), "legacy", nil)
		case "ConnectModern":
			var want []string
			if len(st.A) > 1 {
				want = strs(st.A[1])
			}
			e = connect(arg(0), "modern", want)
		case "Close":
			e = x06Ev{Ev: "close", S: arg(0)}
			if ds := sessions[arg(0)]; ds != nil && ds.cs != nil {
				ds.cs.Close()
			}
		case "Tick":
			e = x06Ev{Ev: "tick"}
			time.Sleep(15 * time.Millisecond)
		default:
			t.Fatalf("unknown step %q", st.Op)
		}
		synctest.Wait()
		e.Dl = takeDl()
		ev(e)
	}
	// settle: whatever is still pending fires now
	time.Sleep(15 * time.Millisecond)
	synctest.Wait()
	ev(x06Ev{Ev: "tick", Dl: takeDl()})
	time.Sleep(time.Second)
	synctest.Wait()
	ev(x06Ev{Ev: "end", Dl: takeDl()})
	for _, ds := range sessions {
		if ds.cs != nil {
			ds.cs.Close()
		}
	}
	for ss := range server.Sessions() {
		ss.Close()
	}
	cancel()
}

func TestVerif_X06Dyn(t *testing.T) {
	in, outp := os.Getenv("VERIF_IN"), os.Getenv("VERIF_OUT")
	if in == "" || outp == "" {
		t.Skip("VERIF_IN/VERIF_OUT not set")
	}
	seed, _ := strconv.ParseUint(os.Getenv("VERIF_SEED"), 10, 64)
	workers, _ := strconv.Atoi(os.Getenv("VERIF_WORKERS"))
	if workers <= 0 {
		workers = 4
	}
	var scens []x06Scenario
	x06ReadLines(t, in, func(b []byte) {
		var sc x06Scenario
		if err := json.Unmarshal(b, &sc); err != nil {
			t.Fatalf("bad scenario: %v", err)
		}
		scens = append(scens, sc)
	})
	prog, _ := os.Create(outp + ".progress")
	if prog != nil {
		defer prog.Close()
	}
	var progMu sync.Mutex
	// every scenario runs in its own synctest bubble; the bubbles are spread over parallel subtests
	events := make([][]x06Ev, len(scens))
	var next atomic.Int64
	t.Run("replay", func(t *testing.T) {
		for w := 0; w < workers; w++ {
			t.Run(fmt.Sprintf("w%d", w), func(t *testing.T) {
				t.Parallel()
				for {
					i := int(next.Add(1)) - 1
					if i >= len(scens) {
						return
					}
					sc := scens[i]
					if prog != nil {
						progMu.Lock()
						fmt.Fprintf(prog, "%s\n", sc.ID)
						progMu.Unlock()
					}
					r := rand.New(rand.NewPCG(seed, uint64(i)+1))
					synctest.Test(t, func(t *testing.T) {
						x06RunDyn(t, sc, r, func(e x06Ev) { events[i] = append(events[i], e) })
						time.Sleep(time.Minute)
					})
				}
			})
		}
	})
	fout, err := os.Create(outp)
	if err != nil {
		t.Fatal(err)
	}
	defer fout.Close()
	w := bufio.NewWriter(fout)
	defer w.Flush()
	enc := json.NewEncoder(w)
	for _, evs := range events {
		for _, e := range evs {
			if err := enc.Encode(e); err != nil {
				t.Fatal(err)
			}
		}
	}
}
