//go:build verif

// Conformance harness for property C07 (protocol version negotiation), public API only.
//
// Reads the configuration matrix enumerated by TLC (VERIF_IN, one abstract case per line),
// builds for every case a REAL mcp.Server and mcp.Client, connects them over the transport
// the case names (in-memory, io pipes, SSE handler, streamable HTTP handler stateful /
// stateful without session ids (ServerOptions.GetSessionID returning "") / stateless, with /
// without JSON responses and event store; optionally after an earlier connection to the SAME
// Server through a second streamable handler of the other kind), and records
//   - the outcome of Client.Connect (error, or InitializeResult().ProtocolVersion),
//   - the methods the client sent while connecting (sending middleware),
//   - the results of ListTools and CallTool issued immediately afterwards
// into VERIF_OUT for the TLA+ monitor NegotiateMon.
//
// HTTP transports do not open sockets: an in-process http.RoundTripper runs
// handler.ServeHTTP in a goroutine with a pipe-backed, flushable ResponseWriter. Every
// scenario runs inside its own testing/synctest bubble (virtual time; a hang shows up as a
// deadline error instead of blocking the run; the bubble only exits when every goroutine of
// the scenario has ended).
package mcp_test

import (
	"bufio"
	"context"
	"encoding/json"
	"errors"
	"fmt"
	"io"
	"math/rand/v2"
	"net/http"
	"os"
	"runtime"
	"slices"
	"sort"
	"strconv"
	"strings"
	"sync"
	"testing"
	"testing/synctest"
	"time"

	"github.com/modelcontextprotocol/go-sdk/jsonrpc"
	"github.com/modelcontextprotocol/go-sdk/mcp"
)

type c07Case struct {
	Req   string   `json:"req"`
	Tr    string   `json:"tr"`
	JSON  bool     `json:"json"`
	Store bool     `json:"store"`
	Wrap  bool     `json:"wrap"`
	Adv   []string `json:"adv"`
	Disc  string   `json:"disc"`
	Prior string   `json:"prior"` // none | stateless | stateful: earlier connection to the same Server
	Early bool     `json:"early"` // the client's first request arrives while Server.Connect asks the transport for its versions
}

type c07Real struct {
	Kind     string   `json:"kind"` // session | error
	Version  string   `json:"version"`
	NDisc    int      `json:"nDisc"`
	SentInit bool     `json:"sentInit"`
	ListOK   bool     `json:"listOK"`
	CallOK   bool     `json:"callOK"`
	Methods  []string `json:"methods"` // sent by the client during Connect
	Err      string   `json:"err"`     // Connect / ListTools / CallTool error text (information only)
	PriorVer string   `json:"priorVersion"` // what the earlier connection negotiated (information only)
}

type c07Line struct {
	Case   c07Case  `json:"c"`
	Real   c07Real  `json:"o"`
	Rep    int      `json:"rep"`
	ReqStr string   `json:"reqstr"` // concrete requested version string
	Tools  []string `json:"tools"`
	Listen bool     `json:"listen"`
}

// ---------------------------------------------------------------------------
// in-process HTTP: RoundTripper -> handler.ServeHTTP with a pipe-backed ResponseWriter

type c07RW struct {
	hdr   http.Header
	pw    *io.PipeWriter
	once  sync.Once
	ready chan struct{}
	code  int
	snap  http.Header
}

func (w *c07RW) Header() http.Header { return w.hdr }
func (w *c07RW) WriteHeader(code int) {
	w.once.Do(func() {
		w.code = code
		w.snap = w.hdr.Clone()
		close(w.ready)
	})
}
func (w *c07RW) Write(p []byte) (int, error) {
	w.WriteHeader(http.StatusOK)
	return w.pw.Write(p) // synchronous: returns once the client has consumed p (or closed the body)
}
func (w *c07RW) Flush() {}

type c07Body struct {
	pr     *io.PipeReader
	cancel context.CancelFunc
}

func (b *c07Body) Read(p []byte) (int, error) { return b.pr.Read(p) }
func (b *c07Body) Close() error {
	b.cancel() // client went away: cancel the server-side request context
	return b.pr.Close()
}

type c07RT struct{ h http.Handler }

func (rt *c07RT) RoundTrip(req *http.Request) (*http.Response, error) {
	pr, pw := io.Pipe()
	w := &c07RW{hdr: http.Header{}, pw: pw, ready: make(chan struct{})}
	// The server-side context carries none of the client's context values; it is cancelled
	// when the client's request context ends or the response body is closed.
	sctx, cancel := context.WithCancel(context.Background())
	stop := context.AfterFunc(req.Context(), cancel)
	sreq := req.Clone(sctx)
	if sreq.Body == nil {
		sreq.Body = http.NoBody
	}
	sreq.RequestURI = req.URL.RequestURI()
	sreq.RemoteAddr = "192.0.2.1:1234"
	go func() {
		defer stop()
		rt.h.ServeHTTP(w, sreq)
		w.WriteHeader(http.StatusOK)
		pw.Close()
	}()
	select {
	case <-w.ready:
	case <-req.Context().Done():
		cancel()
		pr.Close()
		return nil, req.Context().Err()
	}
	return &http.Response{
		Status: strconv.Itoa(w.code) + " " + http.StatusText(w.code), StatusCode: w.code,
		Proto: "HTTP/1.1", ProtoMajor: 1, ProtoMinor: 1,
		Header: w.snap, Body: &c07Body{pr: pr, cancel: cancel}, ContentLength: -1, Request: req,
	}, nil
}

// ---------------------------------------------------------------------------
// server transport wrapper: the only way the public API offers to vary what the server advertises

type c07PVS struct {
	mcp.Transport
	adv []string
	// early cells: the first question Server.Connect asks starts the client and is answered only once the
	// client's first request has reached the server's method handlers (or the client has given up)
	once  sync.Once
	early func()
}

// c07EarlyT reports when the first message written by the client has been consumed by the peer (both the
// in-memory pipe and io.Pipe hand a message over synchronously).
type c07EarlyT struct {
	mcp.Transport
	wrote func()
}

type c07EarlyConn struct {
	mcp.Connection
	wrote func()
}

func (t *c07EarlyT) Connect(ctx context.Context) (mcp.Connection, error) {
	c, err := t.Transport.Connect(ctx)
	if err != nil {
		return nil, err
	}
	return &c07EarlyConn{Connection: c, wrote: t.wrote}, nil
}

func (c *c07EarlyConn) Write(ctx context.Context, m jsonrpc.Message) error {
	err := c.Connection.Write(ctx, m)
	c.wrote()
	return err
}

func (p *c07PVS) SupportsProtocolVersion(v string) bool {
	if p.early != nil {
		p.once.Do(p.early)
	}
	return slices.Contains(p.adv, v)
}

// ---------------------------------------------------------------------------

var c07Unknown = map[string][]string{
	"unk_old": {"2024-01-01", "1999-12-31", "1.0", "2024-11-04"},
	"unk_mid": {"2025-01-01", "2025-12-01", "2026-07-27", "2025-06-19"},
	"unk_new": {"2026-07-29", "2027-01-01", "2026-12-31", "2026-08-01"},
	"unk_far": {"9999-12-31", "latest", "v2", "draft"},
}

var c07Legacy = []string{"2025-11-25", "2025-06-18", "2025-03-26", "2024-11-05"}

type c07Args struct {
	X string `json:"x"`
}

func c07Run(t *testing.T, r *rand.Rand, c c07Case, rep int) c07Line {
	line := c07Line{Case: c, Rep: rep}
	out := &line.Real
	out.Kind = "error"
	out.Methods = []string{}

	// --- concretise
	reqStr := c.Req
	if pool, ok := c07Unknown[c.Req]; ok {
		reqStr = pool[r.IntN(len(pool))]
	} else if c.Req == "default" {
		reqStr = ""
	}
	line.ReqStr = reqStr
	ntools := 1 + r.IntN(3)
	var tools []string
	for i := 0; i < ntools; i++ {
		tools = append(tools, fmt.Sprintf("tool_%c%d", 'a'+rune(r.IntN(26)), i))
	}
	sort.Strings(tools)
	line.Tools = tools
	// handler variation (rep > 0): the client also installs a tools-list-changed handler, which on a
	// 2026-07-28 session makes Connect open a subscriptions/listen stream before returning.
	line.Listen = rep > 0 && r.IntN(2) == 0

	// --- server
	var sopts *mcp.ServerOptions
	if c.Tr == "statefulnosid" {
		// the documented way to run a stateful handler without Mcp-Session-Id
		sopts = &mcp.ServerOptions{GetSessionID: func() string { return "" }}
	}
	server := mcp.NewServer(&mcp.Implementation{Name: "c07-server", Version: "v1"}, sopts)
	for _, name := range tools {
		name := name
		mcp.AddTool(server, &mcp.Tool{Name: name, Description: "echo"},
			func(ctx context.Context, req *mcp.CallToolRequest, a c07Args) (*mcp.CallToolResult, any, error) {
				return &mcp.CallToolResult{Content: []mcp.Content{&mcp.TextContent{Text: name + ":" + a.X}}}, nil, nil
			})
	}
	// early cells: closed once the server's reader has taken the client's first message off the transport
	arrived := make(chan struct{})
	var arrivedOnce sync.Once
	if c.Disc != "native" {
		server.AddReceivingMiddleware(func(next mcp.MethodHandler) mcp.MethodHandler {
			return func(ctx context.Context, method string, req mcp.Request) (mcp.Result, error) {
				if method == "server/discover" {
					if c.Disc == "notfound" {
						return nil, &jsonrpc.Error{Code: jsonrpc.CodeMethodNotFound, Message: "method not found: server/discover"}
					}
					data, _ := json.Marshal(mcp.UnsupportedProtocolVersionData{Supported: c07Legacy, Requested: "2026-07-28"})
					return nil, &jsonrpc.Error{Code: mcp.CodeUnsupportedProtocolVersion, Message: "unsupported protocol version", Data: data}
				}
				return next(ctx, method, req)
			}
		})
	}

	// --- client
	copts := &mcp.ClientOptions{}
	if line.Listen {
		copts.ToolListChangedHandler = func(context.Context, *mcp.ToolListChangedRequest) {}
	}
	client := mcp.NewClient(&mcp.Implementation{Name: "c07-client", Version: "v1"}, copts)
	var mu sync.Mutex
	connecting := true
	client.AddSendingMiddleware(func(next mcp.MethodHandler) mcp.MethodHandler {
		return func(ctx context.Context, method string, req mcp.Request) (mcp.Result, error) {
			mu.Lock()
			if connecting {
				out.Methods = append(out.Methods, method)
			}
			mu.Unlock()
			return next(ctx, method, req)
		}
	})

	// --- transports
	ctx, cancelAll := context.WithTimeout(context.Background(), 2*time.Minute)
	defer cancelAll()
	var ct mcp.Transport
	var cleanup []func()
	// early cells: client.Connect runs in its own goroutine, started from inside the wrapper's first answer
	type connRes struct {
		cs  *mcp.ClientSession
		err error
	}
	var earlyCT mcp.Transport
	earlyDone := make(chan connRes, 1)
	cctx, ccancel := context.WithTimeout(ctx, 30*time.Second)
	defer ccancel()
	wrapT := func(st mcp.Transport) mcp.Transport {
		if c.Wrap {
			w := &c07PVS{Transport: st, adv: c.Adv}
			if c.Early {
				w.early = func() {
					go func() {
						et := &c07EarlyT{Transport: earlyCT, wrote: func() { arrivedOnce.Do(func() { close(arrived) }) }}
						cs, err := client.Connect(cctx, et, &mcp.ClientSessionOptions{ProtocolVersion: reqStr})
						earlyDone <- connRes{cs, err}
					}()
					select {
					case <-arrived:
						// let the server handle that request as far as it can before the answer is given
						// (no sleeping here: a handler waiting for a lock held by Server.Connect is not
						// "durably blocked", so virtual time would never advance)
						for i := 0; i < 5000; i++ {
							runtime.Gosched()
						}
					case <-cctx.Done():
					}
				}
			}
			return w
		}
		return st
	}
	getServer := func(*http.Request) *mcp.Server { return server }
	switch c.Tr {
	case "mem":
		cti, sti := mcp.NewInMemoryTransports()
		earlyCT = cti
		ss, err := server.Connect(ctx, wrapT(sti), nil)
		if err != nil {
			t.Fatalf("server.Connect: %v", err)
		}
		cleanup = append(cleanup, func() { ss.Close() })
		ct = cti
	case "io":
		c2sR, c2sW := io.Pipe()
		s2cR, s2cW := io.Pipe()
		earlyCT = &mcp.IOTransport{Reader: s2cR, Writer: c2sW}
		ss, err := server.Connect(ctx, wrapT(&mcp.IOTransport{Reader: c2sR, Writer: s2cW}), nil)
		if err != nil {
			t.Fatalf("server.Connect: %v", err)
		}
		cleanup = append(cleanup, func() { c2sW.Close(); s2cR.Close(); ss.Close() })
		ct = &mcp.IOTransport{Reader: s2cR, Writer: c2sW}
	case "sse":
		h := mcp.NewSSEHandler(getServer, nil)
		ct = &mcp.SSEClientTransport{Endpoint: "http://c07.verif.test/sse", HTTPClient: &http.Client{Transport: &c07RT{h: h}}}
	case "stateful", "statefulnosid", "stateless":
		mk := func(stateless bool, url string) mcp.Transport {
			o := &mcp.StreamableHTTPOptions{Stateless: stateless, JSONResponse: c.JSON}
			if c.Store {
				o.EventStore = mcp.NewMemoryEventStore(nil)
			}
			h := mcp.NewStreamableHTTPHandler(getServer, o)
			return &mcp.StreamableClientTransport{Endpoint: url, HTTPClient: &http.Client{Transport: &c07RT{h: h}}}
		}
		if c.Prior != "none" && c.Prior != "" {
			// One Server behind two endpoints: a default client uses the other endpoint first.
			pt := mk(c.Prior == "stateless", "http://c07.verif.test/other")
			pc := mcp.NewClient(&mcp.Implementation{Name: "c07-prior-client", Version: "v1"}, nil)
			pctx, pcancel := context.WithTimeout(ctx, 30*time.Second)
			pcs, perr := pc.Connect(pctx, pt, nil)
			if perr != nil {
				out.PriorVer = "error: " + perr.Error()
			} else {
				if ir := pcs.InitializeResult(); ir != nil {
					out.PriorVer = ir.ProtocolVersion
				}
				pcs.ListTools(pctx, nil)
				pcs.Close()
			}
			pcancel()
		}
		ct = mk(c.Tr == "stateless", "http://c07.verif.test/mcp")
	default:
		t.Fatalf("transport %q", c.Tr)
	}

	// --- connect, then immediately list and call
	var errs []string
	// The connect context stays alive until the scenario ends: SSEClientTransport binds its hanging GET
	// to it, so cancelling it after Connect would close a healthy session.
	var cs *mcp.ClientSession
	var err error
	if c.Early && c.Wrap {
		r := <-earlyDone
		cs, err = r.cs, r.err
	} else {
		cs, err = client.Connect(cctx, ct, &mcp.ClientSessionOptions{ProtocolVersion: reqStr})
	}
	mu.Lock()
	connecting = false
	for _, m := range out.Methods {
		switch m {
		case "server/discover":
			out.NDisc++
		case "initialize":
			out.SentInit = true
		}
	}
	mu.Unlock()
	if err != nil {
		errs = append(errs, "connect: "+err.Error())
	} else {
		out.Kind = "session"
		if ir := cs.InitializeResult(); ir != nil {
			out.Version = ir.ProtocolVersion
		}
		lctx, lcancel := context.WithTimeout(ctx, 30*time.Second)
		lres, lerr := cs.ListTools(lctx, nil)
		lcancel()
		if lerr != nil {
			errs = append(errs, "list: "+lerr.Error())
		} else {
			var got []string
			for _, tl := range lres.Tools {
				got = append(got, tl.Name)
			}
			sort.Strings(got)
			out.ListOK = slices.Equal(got, tools)
			if !out.ListOK {
				errs = append(errs, fmt.Sprintf("list: got %v", got))
			}
		}
		target := tools[r.IntN(len(tools))]
		arg := fmt.Sprintf("arg%d", r.IntN(1000))
		kctx, kcancel := context.WithTimeout(ctx, 30*time.Second)
		cres, cerr := cs.CallTool(kctx, &mcp.CallToolParams{Name: target, Arguments: map[string]any{"x": arg}})
		kcancel()
		if cerr != nil {
			errs = append(errs, "call: "+cerr.Error())
		} else {
			if !cres.IsError && len(cres.Content) == 1 {
				if tc, ok := cres.Content[0].(*mcp.TextContent); ok && tc.Text == target+":"+arg {
					out.CallOK = true
				}
			}
			if !out.CallOK {
				errs = append(errs, "call: unexpected result")
			}
		}
		closed := make(chan struct{})
		go func() { cs.Close(); close(closed) }()
		select {
		case <-closed:
		case <-time.After(time.Minute):
			errs = append(errs, "close: still blocked after 1m")
		}
	}
	for _, f := range cleanup {
		f()
	}
	// Force down whatever the scenario left on the server (e.g. HTTP sessions that were created by a
	// request but never surfaced to the client), so that the bubble can end.
	time.Sleep(time.Second)
	for ss := range server.Sessions() {
		go ss.Close()
	}
	cancelAll()
	out.Err = strings.Join(errs, " | ")
	if len(out.Err) > 300 {
		out.Err = out.Err[:300]
	}
	return line
}

func TestVerif_C07(t *testing.T) {
	in, outp := os.Getenv("VERIF_IN"), os.Getenv("VERIF_OUT")
	if in == "" || outp == "" {
		t.Skip("VERIF_IN/VERIF_OUT not set")
	}
	seed, _ := strconv.ParseUint(os.Getenv("VERIF_SEED"), 10, 64)
	reps, _ := strconv.Atoi(os.Getenv("VERIF_REPS"))
	if reps == 0 {
		reps = 1
	}
	fin, err := os.Open(in)
	if err != nil {
		t.Fatal(err)
	}
	defer fin.Close()
	var cases []c07Case
	sc := bufio.NewScanner(fin)
	sc.Buffer(make([]byte, 1<<16), 1<<22)
	for sc.Scan() {
		var c c07Case
		if err := json.Unmarshal(sc.Bytes(), &c); err != nil {
			t.Fatalf("bad case: %v", err)
		}
		if c.Adv == nil {
			c.Adv = []string{}
		}
		if c.Prior == "" {
			c.Prior = "none"
		}
		cases = append(cases, c)
	}
	fout, err := os.Create(outp)
	if err != nil {
		t.Fatal(err)
	}
	defer fout.Close()
	w := bufio.NewWriter(fout)
	defer w.Flush()
	enc := json.NewEncoder(w)
	// progress marker: tells the runner which case was in flight if the process dies
	prog, _ := os.Create(outp + ".progress")
	if prog != nil {
		defer prog.Close()
	}
	r := rand.New(rand.NewPCG(seed, 7))
	for i, c := range cases {
		for rep := 0; rep < reps; rep++ {
			if prog != nil {
				b, _ := json.Marshal(c)
				fmt.Fprintf(prog, "%d %d %s\n", i, rep, b)
			}
			var line c07Line
			synctest.Test(t, func(t *testing.T) {
				line = c07Run(t, r, c, rep)
				// let everything the scenario started wind down (virtual time)
				time.Sleep(2 * time.Minute)
			})
			if err := enc.Encode(line); err != nil {
				t.Fatal(err)
			}
			w.Flush()
		}
	}
	_ = errors.New
}
