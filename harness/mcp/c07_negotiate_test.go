//go:build verif

// Conformance harness for property C07 (protocol version negotiation), public API only.
//
// Reads the configuration matrix enumerated by TLC (VERIF_IN, one abstract case per line),
// builds for every case a REAL mcp.Server and mcp.Client, connects them over the transport
// the case names (in-memory, io pipes, SSE handler, streamable HTTP handler stateful /
// stateful without session ids (ServerOptions.GetSessionID returning "") / stateless, with /
// without JSON responses and event store; optionally after an earlier connection to the SAME
// Server through a second streamable handler of the other kind), and records
//   - the outcome of Client.Connect (error, or InitializeResult().ProtocolVersion),
//   - the methods the client issued while connecting (sending middleware) and the requests that really left
//     it for the peer (wire: a tap on the client's pipe connection / the POST bodies arriving at the endpoint),
//   - the results of ListTools and CallTool issued immediately afterwards
// into VERIF_OUT for the TLA+ monitor NegotiateMon.
//
// The peer's answers are dimensions of the matrix too: a server receiving middleware rewrites the version of
// the initialize result (ians: a peer that speaks one fixed revision, known or unknown to the SDK), and a small
// http.Handler front answers the server/discover POST - and nothing else - like a front end or older server
// that does not know the probe (disc = http404/400/405/501 with a text/plain, empty, HTML or non-JSON-RPC
// JSON body); every other request reaches the real handler.
//
// HTTP transports do not open sockets: an in-process http.RoundTripper runs
// handler.ServeHTTP in a goroutine with a pipe-backed, flushable ResponseWriter. Every
// scenario runs inside its own testing/synctest bubble (virtual time; a hang shows up as a
// deadline error instead of blocking the run; the bubble only exits when every goroutine of
// the scenario has ended).
package mcp_test

import (
	"bufio"
	"context"
	"encoding/json"
	"errors"
	"fmt"
	"io"
	"math/rand/v2"
	"net/http"
	"os"
	"runtime"
	"slices"
	"sort"
	"strconv"
	"strings"
	"sync"
	"testing"
	"testing/synctest"
	"time"

	"github.com/modelcontextprotocol/go-sdk/jsonrpc"
	"github.com/modelcontextprotocol/go-sdk/mcp"
)

type c07Case struct {
	Req   string   `json:"req"`
	Tr    string   `json:"tr"`
	JSON  bool     `json:"json"`
	Store bool     `json:"store"`
	Wrap  bool     `json:"wrap"`
	Adv   []string `json:"adv"`
	Disc  string   `json:"disc"`  // native | notfound | unsupp | http404 | http400 | http405 | http501
	DBody string   `json:"dbody"` // none | text | empty | html | json: body of the plain HTTP answer to the discover POST
	Prior string   `json:"prior"` // none | stateless | stateful: earlier connection to the same Server
	Early bool     `json:"early"` // the client's first request arrives while Server.Connect asks the transport for its versions
	IAns  string   `json:"ians"`  // honest | a version | unk_*: the version the peer puts into its initialize result
}

type c07Real struct {
	Kind     string   `json:"kind"` // session | error
	Version  string   `json:"version"`
	NDisc    int      `json:"nDisc"`
	SentInit bool     `json:"sentInit"` // an initialize request left the client during Connect (wire)
	ListOK   bool     `json:"listOK"`
	CallOK   bool     `json:"callOK"`
	Methods  []string `json:"methods"` // issued by the client during Connect (sending middleware)
	Wire     []string `json:"wire"`    // requests that left the client during Connect (pipe tap / POST bodies at the endpoint)
	Fronted  int      `json:"fronted"` // discover POSTs answered by the HTTP front (information only)
	Err      string   `json:"err"`     // Connect / ListTools / CallTool error text (information only)
	PriorVer string   `json:"priorVersion"` // what the earlier connection negotiated (information only)
}

type c07Line struct {
	Case   c07Case  `json:"c"`
	Real   c07Real  `json:"o"`
	Rep    int      `json:"rep"`
	ReqStr string   `json:"reqstr"` // concrete requested version string
	AnsStr string   `json:"ansstr"` // concrete version string the peer answers initialize with ("" = honest)
	Tools  []string `json:"tools"`
	Listen bool     `json:"listen"`
	// concurrent scenarios (c07_conc_test.go): scenario number (0 = a cell of the one-connection matrix), the
	// connection's name in the schedule, and the steps during which its events happened ("dispatched=2,got=3,done=5")
	Scn int    `json:"scn"`
	Who string `json:"who"`
	At  string `json:"at"`
}

// ---------------------------------------------------------------------------
// in-process HTTP: RoundTripper -> handler.ServeHTTP with a pipe-backed ResponseWriter

type c07RW struct {
	hdr   http.Header
	pw    *io.PipeWriter
	once  sync.Once
	ready chan struct{}
	code  int
	snap  http.Header
}

func (w *c07RW) Header() http.Header { return w.hdr }
func (w *c07RW) WriteHeader(code int) {
	w.once.Do(func() {
		w.code = code
		w.snap = w.hdr.Clone()
		close(w.ready)
	})
}
func (w *c07RW) Write(p []byte) (int, error) {
	w.WriteHeader(http.StatusOK)
	return w.pw.Write(p) // synchronous: returns once the client has consumed p (or closed the body)
}
func (w *c07RW) Flush() {}

type c07Body struct {
	pr     *io.PipeReader
	cancel context.CancelFunc
}

func (b *c07Body) Read(p []byte) (int, error) { return b.pr.Read(p) }
func (b *c07Body) Close() error {
	b.cancel() // client went away: cancel the server-side request context
	return b.pr.Close()
}

type c07RT struct{ h http.Handler }

func (rt *c07RT) RoundTrip(req *http.Request) (*http.Response, error) {
	pr, pw := io.Pipe()
	w := &c07RW{hdr: http.Header{}, pw: pw, ready: make(chan struct{})}
	// The server-side context carries none of the client's context values; it is cancelled
	// when the client's request context ends or the response body is closed.
	sctx, cancel := context.WithCancel(context.Background())
	stop := context.AfterFunc(req.Context(), cancel)
	sreq := req.Clone(sctx)
	if sreq.Body == nil {
		sreq.Body = http.NoBody
	}
	sreq.RequestURI = req.URL.RequestURI()
	sreq.RemoteAddr = "192.0.2.1:1234"
	go func() {
		defer stop()
		rt.h.ServeHTTP(w, sreq)
		w.WriteHeader(http.StatusOK)
		pw.Close()
	}()
	select {
	case <-w.ready:
	case <-req.Context().Done():
		cancel()
		pr.Close()
		return nil, req.Context().Err()
	}
	return &http.Response{
		Status: strconv.Itoa(w.code) + " " + http.StatusText(w.code), StatusCode: w.code,
		Proto: "HTTP/1.1", ProtoMajor: 1, ProtoMinor: 1,
		Header: w.snap, Body: &c07Body{pr: pr, cancel: cancel}, ContentLength: -1, Request: req,
	}, nil
}

// ---------------------------------------------------------------------------
// HTTP front: sees every request before the real handler does. It notes the JSON-RPC method of every POST
// (the wire, as far as the client's outgoing requests are concerned) and - in the http* discover cells - answers
// the server/discover POST itself with a plain HTTP error whose body is no JSON-RPC message.

type c07Front struct {
	h      http.Handler
	status int    // 0: pass everything on
	body   string // text | empty | html | json
	note   func(method string)
	mu     sync.Mutex
	hits   int
}

func (f *c07Front) ServeHTTP(w http.ResponseWriter, r *http.Request) {
	if r.Method == http.MethodPost && r.Body != nil {
		b, _ := io.ReadAll(r.Body)
		r.Body.Close()
		r.Body = io.NopCloser(strings.NewReader(string(b)))
		var m struct {
			Method string           `json:"method"`
			ID     *json.RawMessage `json:"id"`
		}
		if json.Unmarshal(b, &m) == nil && m.Method != "" {
			f.note(m.Method)
			if m.Method == "server/discover" && f.status != 0 {
				f.mu.Lock()
				f.hits++
				f.mu.Unlock()
				txt := strconv.Itoa(f.status) + " " + http.StatusText(f.status)
				switch f.body {
				case "text":
					w.Header().Set("Content-Type", "text/plain; charset=utf-8")
					w.Header().Set("X-Content-Type-Options", "nosniff")
					w.WriteHeader(f.status)
					io.WriteString(w, http.StatusText(f.status)+"\n")
				case "html":
					w.Header().Set("Content-Type", "text/html; charset=utf-8")
					w.WriteHeader(f.status)
					io.WriteString(w, "<html><head><title>"+txt+"</title></head><body><h1>"+txt+"</h1></body></html>\n")
				case "json":
					w.Header().Set("Content-Type", "application/json")
					w.WriteHeader(f.status)
					io.WriteString(w, `{"status":`+strconv.Itoa(f.status)+`,"error":"`+http.StatusText(f.status)+`","path":"`+r.URL.Path+`"}`)
				default: // empty
					w.WriteHeader(f.status)
				}
				return
			}
		}
	}
	f.h.ServeHTTP(w, r)
}

// ---------------------------------------------------------------------------
// server transport wrapper: the only way the public API offers to vary what the server advertises

type c07PVS struct {
	mcp.Transport
	adv []string
	// early cells: the first question Server.Connect asks starts the client and is answered only once the
	// client's first request has reached the server's method handlers (or the client has given up)
	once  sync.Once
	early func()
}

// c07TapT is the wire tap of the client's end of the in-memory / io pipes: it notes the method of every request
// that was handed to the peer (both pipes hand a message over synchronously), and reports when the first message
// written by the client has been consumed (early cells).
type c07TapT struct {
	mcp.Transport
	wrote func()
	note  func(method string)
}

type c07TapConn struct {
	mcp.Connection
	wrote func()
	note  func(method string)
}

func (t *c07TapT) Connect(ctx context.Context) (mcp.Connection, error) {
	c, err := t.Transport.Connect(ctx)
	if err != nil {
		return nil, err
	}
	return &c07TapConn{Connection: c, wrote: t.wrote, note: t.note}, nil
}

func (c *c07TapConn) Write(ctx context.Context, m jsonrpc.Message) error {
	err := c.Connection.Write(ctx, m)
	if r, ok := m.(*jsonrpc.Request); ok && err == nil {
		c.note(r.Method)
	}
	if c.wrote != nil {
		c.wrote()
	}
	return err
}

func (p *c07PVS) SupportsProtocolVersion(v string) bool {
	if p.early != nil {
		p.once.Do(p.early)
	}
	return slices.Contains(p.adv, v)
}

// ---------------------------------------------------------------------------

var c07Unknown = map[string][]string{
	"unk_old": {"2024-01-01", "1999-12-31", "1.0", "2024-11-04"},
	"unk_mid": {"2025-01-01", "2025-12-01", "2026-07-27", "2025-06-19"},
	"unk_new": {"2026-07-29", "2027-01-01", "2026-12-31", "2026-08-01"},
	"unk_far": {"9999-12-31", "latest", "v2", "draft"},
}

var c07Legacy = []string{"2025-11-25", "2025-06-18", "2025-03-26", "2024-11-05"}

type c07Args struct {
	X string `json:"x"`
}

func c07Run(t *testing.T, r *rand.Rand, c c07Case, rep int) c07Line {
	line := c07Line{Case: c, Rep: rep}
	out := &line.Real
	out.Kind = "error"
	out.Methods = []string{}

	// --- concretise
	reqStr := c.Req
	if pool, ok := c07Unknown[c.Req]; ok {
		reqStr = pool[r.IntN(len(pool))]
	} else if c.Req == "default" {
		reqStr = ""
	}
	line.ReqStr = reqStr
	// the version string the peer puts into every initialize result ("" = leave the SDK server's answer alone)
	ansStr := ""
	if pool, ok := c07Unknown[c.IAns]; ok {
		ansStr = pool[r.IntN(len(pool))]
	} else if c.IAns != "honest" && c.IAns != "" {
		ansStr = c.IAns
	}
	line.AnsStr = ansStr
	ntools := 1 + r.IntN(3)
	var tools []string
	for i := 0; i < ntools; i++ {
		tools = append(tools, fmt.Sprintf("tool_%c%d", 'a'+rune(r.IntN(26)), i))
	}
	sort.Strings(tools)
	line.Tools = tools
	// handler variation (rep > 0): the client also installs a tools-list-changed handler, which on a
	// 2026-07-28 session makes Connect open a subscriptions/listen stream before returning.
	line.Listen = rep > 0 && r.IntN(2) == 0

	// --- server
	var sopts *mcp.ServerOptions
	if c.Tr == "statefulnosid" {
		// the documented way to run a stateful handler without Mcp-Session-Id
		sopts = &mcp.ServerOptions{GetSessionID: func() string { return "" }}
	}
	server := mcp.NewServer(&mcp.Implementation{Name: "c07-server", Version: "v1"}, sopts)
	for _, name := range tools {
		name := name
		mcp.AddTool(server, &mcp.Tool{Name: name, Description: "echo"},
			func(ctx context.Context, req *mcp.CallToolRequest, a c07Args) (*mcp.CallToolResult, any, error) {
				return &mcp.CallToolResult{Content: []mcp.Content{&mcp.TextContent{Text: name + ":" + a.X}}}, nil, nil
			})
	}
	// early cells: closed once the server's reader has taken the client's first message off the transport
	arrived := make(chan struct{})
	var arrivedOnce sync.Once
	if c.Disc == "notfound" || c.Disc == "unsupp" || ansStr != "" {
		server.AddReceivingMiddleware(func(next mcp.MethodHandler) mcp.MethodHandler {
			return func(ctx context.Context, method string, req mcp.Request) (mcp.Result, error) {
				if method == "server/discover" && (c.Disc == "notfound" || c.Disc == "unsupp") {
					if c.Disc == "notfound" {
						return nil, &jsonrpc.Error{Code: jsonrpc.CodeMethodNotFound, Message: "method not found: server/discover"}
					}
					data, _ := json.Marshal(mcp.UnsupportedProtocolVersionData{Supported: c07Legacy, Requested: "2026-07-28"})
					return nil, &jsonrpc.Error{Code: mcp.CodeUnsupportedProtocolVersion, Message: "unsupported protocol version", Data: data}
				}
				res, err := next(ctx, method, req)
				if ir, ok := res.(*mcp.InitializeResult); ok && err == nil && ansStr != "" {
					// a peer that speaks one revision through initialize and says so
					cp := *ir
					cp.ProtocolVersion = ansStr
					return &cp, nil
				}
				return res, err
			}
		})
	}
	// http* discover cells: the status / body the front answers the probe with
	frontStatus := 0
	if strings.HasPrefix(c.Disc, "http") {
		frontStatus, _ = strconv.Atoi(strings.TrimPrefix(c.Disc, "http"))
	}

	// --- client
	copts := &mcp.ClientOptions{}
	if line.Listen {
		copts.ToolListChangedHandler = func(context.Context, *mcp.ToolListChangedRequest) {}
	}
	client := mcp.NewClient(&mcp.Implementation{Name: "c07-client", Version: "v1"}, copts)
	var mu sync.Mutex
	connecting := true
	// the wire: requests that left the client for the peer while it was connecting
	noteWire := func(method string) {
		mu.Lock()
		if connecting {
			out.Wire = append(out.Wire, method)
		}
		mu.Unlock()
	}
	out.Wire = []string{}
	var fronts []*c07Front
	front := func(h http.Handler) http.Handler {
		f := &c07Front{h: h, status: frontStatus, body: c.DBody, note: noteWire}
		fronts = append(fronts, f)
		return f
	}
	client.AddSendingMiddleware(func(next mcp.MethodHandler) mcp.MethodHandler {
		return func(ctx context.Context, method string, req mcp.Request) (mcp.Result, error) {
			mu.Lock()
			if connecting {
				out.Methods = append(out.Methods, method)
			}
			mu.Unlock()
			return next(ctx, method, req)
		}
	})

	// --- transports
	ctx, cancelAll := context.WithTimeout(context.Background(), 2*time.Minute)
	defer cancelAll()
	var ct mcp.Transport
	var cleanup []func()
	// early cells: client.Connect runs in its own goroutine, started from inside the wrapper's first answer
	type connRes struct {
		cs  *mcp.ClientSession
		err error
	}
	var earlyCT mcp.Transport
	earlyDone := make(chan connRes, 1)
	cctx, ccancel := context.WithTimeout(ctx, 30*time.Second)
	defer ccancel()
	wrapT := func(st mcp.Transport) mcp.Transport {
		if c.Wrap {
			w := &c07PVS{Transport: st, adv: c.Adv}
			if c.Early {
				w.early = func() {
					go func() {
						et := &c07TapT{Transport: earlyCT, note: noteWire, wrote: func() { arrivedOnce.Do(func() { close(arrived) }) }}
						cs, err := client.Connect(cctx, et, &mcp.ClientSessionOptions{ProtocolVersion: reqStr})
						earlyDone <- connRes{cs, err}
					}()
					select {
					case <-arrived:
						// let the server handle that request as far as it can before the answer is given
						// (no sleeping here: a handler waiting for a lock held by Server.Connect is not
						// "durably blocked", so virtual time would never advance)
						for i := 0; i < 5000; i++ {
							runtime.Gosched()
						}
					case <-cctx.Done():
					}
				}
			}
			return w
		}
		return st
	}
	getServer := func(*http.Request) *mcp.Server { return server }
	switch c.Tr {
	case "mem":
		cti, sti := mcp.NewInMemoryTransports()
		earlyCT = cti
		ss, err := server.Connect(ctx, wrapT(sti), nil)
		if err != nil {
			t.Fatalf("server.Connect: %v", err)
		}
		cleanup = append(cleanup, func() { ss.Close() })
		ct = &c07TapT{Transport: cti, note: noteWire}
	case "io":
		c2sR, c2sW := io.Pipe()
		s2cR, s2cW := io.Pipe()
		earlyCT = &mcp.IOTransport{Reader: s2cR, Writer: c2sW}
		ss, err := server.Connect(ctx, wrapT(&mcp.IOTransport{Reader: c2sR, Writer: s2cW}), nil)
		if err != nil {
			t.Fatalf("server.Connect: %v", err)
		}
		cleanup = append(cleanup, func() { c2sW.Close(); s2cR.Close(); ss.Close() })
		ct = &c07TapT{Transport: &mcp.IOTransport{Reader: s2cR, Writer: c2sW}, note: noteWire}
	case "sse":
		h := front(mcp.NewSSEHandler(getServer, nil))
		ct = &mcp.SSEClientTransport{Endpoint: "http://c07.verif.test/sse", HTTPClient: &http.Client{Transport: &c07RT{h: h}}}
	case "stateful", "statefulnosid", "stateless":
		mk := func(stateless bool, url string, judged bool) mcp.Transport {
			o := &mcp.StreamableHTTPOptions{Stateless: stateless, JSONResponse: c.JSON}
			if c.Store {
				o.EventStore = mcp.NewMemoryEventStore(nil)
			}
			var h http.Handler = mcp.NewStreamableHTTPHandler(getServer, o)
			if judged {
				h = front(h)
			}
			return &mcp.StreamableClientTransport{Endpoint: url, HTTPClient: &http.Client{Transport: &c07RT{h: h}}}
		}
		if c.Prior != "none" && c.Prior != "" {
			// One Server behind two endpoints: a default client uses the other endpoint first.
			pt := mk(c.Prior == "stateless", "http://c07.verif.test/other", false)
			pc := mcp.NewClient(&mcp.Implementation{Name: "c07-prior-client", Version: "v1"}, nil)
			pctx, pcancel := context.WithTimeout(ctx, 30*time.Second)
			pcs, perr := pc.Connect(pctx, pt, nil)
			if perr != nil {
				out.PriorVer = "error: " + perr.Error()
			} else {
				if ir := pcs.InitializeResult(); ir != nil {
					out.PriorVer = ir.ProtocolVersion
				}
				pcs.ListTools(pctx, nil)
				pcs.Close()
			}
			pcancel()
		}
		ct = mk(c.Tr == "stateless", "http://c07.verif.test/mcp", true)
	default:
		t.Fatalf("transport %q", c.Tr)
	}

	// --- connect, then immediately list and call
	var errs []string
	// The connect context stays alive until the scenario ends: SSEClientTransport binds its hanging GET
	// to it, so cancelling it after Connect would close a healthy session.
	var cs *mcp.ClientSession
	var err error
	if c.Early && c.Wrap {
		r := <-earlyDone
		cs, err = r.cs, r.err
	} else {
		cs, err = client.Connect(cctx, ct, &mcp.ClientSessionOptions{ProtocolVersion: reqStr})
	}
	mu.Lock()
	connecting = false
	for _, m := range out.Methods {
		switch m {
		case "server/discover":
			out.NDisc++
		}
	}
	out.SentInit = slices.Contains(out.Wire, "initialize")
	mu.Unlock()
	for _, f := range fronts {
		f.mu.Lock()
		out.Fronted += f.hits
		f.mu.Unlock()
	}
	if err != nil {
		errs = append(errs, "connect: "+err.Error())
	} else {
		out.Kind = "session"
		if ir := cs.InitializeResult(); ir != nil {
			out.Version = ir.ProtocolVersion
		}
		lctx, lcancel := context.WithTimeout(ctx, 30*time.Second)
		lres, lerr := cs.ListTools(lctx, nil)
		lcancel()
		if lerr != nil {
			errs = append(errs, "list: "+lerr.Error())
		} else {
			var got []string
			for _, tl := range lres.Tools {
				got = append(got, tl.Name)
			}
			sort.Strings(got)
			out.ListOK = slices.Equal(got, tools)
			if !out.ListOK {
				errs = append(errs, fmt.Sprintf("list: got %v", got))
			}
		}
		target := tools[r.IntN(len(tools))]
		arg := fmt.Sprintf("arg%d", r.IntN(1000))
		kctx, kcancel := context.WithTimeout(ctx, 30*time.Second)
		cres, cerr := cs.CallTool(kctx, &mcp.CallToolParams{Name: target, Arguments: map[string]any{"x": arg}})
		kcancel()
		if cerr != nil {
			errs = append(errs, "call: "+cerr.Error())
		} else {
			if !cres.IsError && len(cres.Content) == 1 {
				if tc, ok := cres.Content[0].(*mcp.TextContent); ok && tc.Text == target+":"+arg {
					out.CallOK = true
				}
			}
			if !out.CallOK {
				errs = append(errs, "call: unexpected result")
			}
		}
		closed := make(chan struct{})
		go func() { cs.Close(); close(closed) }()
		select {
		case <-closed:
		case <-time.After(time.Minute):
			errs = append(errs, "close: still blocked after 1m")
		}
	}
	for _, f := range cleanup {
		f()
	}
	// Force down whatever the scenario left on the server (e.g. HTTP sessions that were created by a
	// request but never surfaced to the client), so that the bubble can end.
	time.Sleep(time.Second)
	for ss := range server.Sessions() {
		go ss.Close()
	}
	cancelAll()
	out.Err = strings.Join(errs, " | ")
	if len(out.Err) > 300 {
		out.Err = out.Err[:300]
	}
	return line
}

func TestVerif_C07(t *testing.T) {
	in, outp := os.Getenv("VERIF_IN"), os.Getenv("VERIF_OUT")
	if in == "" || outp == "" {
		t.Skip("VERIF_IN/VERIF_OUT not set")
	}
	seed, _ := strconv.ParseUint(os.Getenv("VERIF_SEED"), 10, 64)
	reps, _ := strconv.Atoi(os.Getenv("VERIF_REPS"))
	if reps == 0 {
		reps = 1
	}
	fin, err := os.Open(in)
	if err != nil {
		t.Fatal(err)
	}
	defer fin.Close()
	var cases []c07Case
	sc := bufio.NewScanner(fin)
	sc.Buffer(make([]byte, 1<<16), 1<<22)
	for sc.Scan() {
		var c c07Case
		if err := json.Unmarshal(sc.Bytes(), &c); err != nil {
			t.Fatalf("bad case: %v", err)
		}
		if c.Adv == nil {
			c.Adv = []string{}
		}
		if c.Prior == "" {
			c.Prior = "none"
		}
		if c.DBody == "" {
			c.DBody = "none"
		}
		if c.IAns == "" {
			c.IAns = "honest"
		}
		cases = append(cases, c)
	}
	fout, err := os.Create(outp)
	if err != nil {
		t.Fatal(err)
	}
	defer fout.Close()
	w := bufio.NewWriter(fout)
	defer w.Flush()
	enc := json.NewEncoder(w)
	// progress marker: tells the runner which case was in flight if the process dies
	prog, _ := os.Create(outp + ".progress")
	if prog != nil {
		defer prog.Close()
	}
	r := rand.New(rand.NewPCG(seed, 7))
	for i, c := range cases {
		for rep := 0; rep < reps; rep++ {
			if prog != nil {
				b, _ := json.Marshal(c)
				fmt.Fprintf(prog, "%d %d %s\n", i, rep, b)
			}
			var line c07Line
			synctest.Test(t, func(t *testing.T) {
				line = c07Run(t, r, c, rep)
				// let everything the scenario started wind down (virtual time)
				time.Sleep(2 * time.Minute)
			})
			if err := enc.Encode(line); err != nil {
				t.Fatal(err)
			}
			w.Flush()
		}
	}
	// the interleaving dimension: scenarios of NegotiateConc.tla, one Server, several connections in progress
	if cin := os.Getenv("VERIF_CONC_IN"); cin != "" {
		c07ConcAll(t, r, cin, prog, func(line c07Line) {
			if err := enc.Encode(line); err != nil {
				t.Fatal(err)
			}
			w.Flush()
		})
	}
	_ = errors.New
}
