//go:build verif

// HTTP+SSE satellite of the connection properties C01, C02, C03 and C05 (spec/SSESat.tla, monitor
// spec/SSESatMon.tla): one or two REAL mcp.Client sessions over REAL SSEClientTransports talk to a REAL
// SSEHandler + mcp.Server through an in-process http.RoundTripper that the scenario controls.  No
// sockets: the RoundTripper runs handler.ServeHTTP in a goroutine of the bubble; the hanging GET's
// response is a queue of complete SSE blocks that the scenario can hold, cut or end.  Every scenario
// runs in its own testing/synctest bubble; after every step the bubble runs to quiescence.
//
// A scenario is a list of ENVIRONMENT steps (the environment actions of SSESat.tla):
//
//	connect s              client s connects (GET, endpoint event, initialize handshake, 2024-11-05 .. 2025-06-18)
//	ccall s k              client s calls the gated tool (call k of that session; request ids overlap
//	                       across sessions by construction: they are per-connection sequence numbers)
//	cnote s n [k]          client s sends progress notification n; with k: the same goroutine then calls tool k
//	hret s k [wn]          the tool handler of (s,k) returns its (unique) result; wn: it first sends a
//	                       progress notification from the same goroutine
//	hnest s k              the tool handler makes a nested sampling call to its client (own context)
//	habandon s k           ... and gives it up (cancels that context)
//	chret s k              the client's sampling handler for the nested call of (s,k) returns
//	snote s n              the server sends progress notification n to client s (outside any request)
//	snret s n / cnret s n  the server's / client's notification handler for n returns
//	cut s B|Q              the hanging GET of s is cut: the client's read fails, the server's writes fail;
//	                       B: the server's request context ends too, Q: only at its next failed write
//	armpf s B|A            the next POST of client s fails in transit: Before the server saw it / After
//	cclose s / sclose s    ClientSession.Close / ServerSession.Close
//	inject s               a stream element that is not a message event (retry: / id: / event: ping)
//	holdstream s, relstream s, holdpost s, relpost s     the network delays deliveries
//	spost s                (corner scripts) a third party POSTs a ping request to the endpoint of s
//
// Public API only.  Observations: ndjson (VERIF_OUT), one object per event.
package mcp_test

import (
	"bufio"
	"bytes"
	"context"
	"encoding/json"
	"errors"
	"fmt"
	"io"
	"math/rand/v2"
	"net/http"
	"net/url"
	"os"
	"runtime"
	"sort"
	"strconv"
	"strings"
	"sync"
	"testing"
	"testing/synctest"
	"time"

	"github.com/modelcontextprotocol/go-sdk/jsonrpc"
	"github.com/modelcontextprotocol/go-sdk/mcp"
)

// ---------------------------------------------------------------- logging

type satLog struct {
	mu    sync.Mutex
	w     *bufio.Writer
	seq   int
	start time.Time
}

func (l *satLog) emit(ev string, kv ...any) {
	l.mu.Lock()
	defer l.mu.Unlock()
	l.seq++
	m := map[string]any{"ev": ev, "seq": l.seq, "t": int64(0)}
	if !l.start.IsZero() {
		m["t"] = time.Since(l.start).Milliseconds()
	}
	for i := 0; i+1 < len(kv); i += 2 {
		m[kv[i].(string)] = kv[i+1]
	}
	b, _ := json.Marshal(m)
	l.w.Write(b)
	l.w.WriteByte('\n')
}

type satScenario struct {
	ID    string  `json:"id"`
	Seed  uint64  `json:"seed"` // overrides VERIF_SEED (replays)
	Steps [][]any `json:"steps"`
}

// ---------------------------------------------------------------- classification of what crosses the wire

type satMsg struct {
	Kind  string // call | note | resp | sreq | ctl | other | endpoint
	ID    string // JSON text of the id ("" if none)
	Tag   string // the scenario's tag carried by the message ("" if none)
	IsErr bool   // a response carrying an error
}

func satClassify(data []byte) satMsg {
	var m struct {
		ID     json.RawMessage `json:"id"`
		Method string          `json:"method"`
		Params struct {
			Name string `json:"name"`
			Args struct {
				Tag string `json:"tag"`
			} `json:"arguments"`
			Message      string `json:"message"`
			SystemPrompt string `json:"systemPrompt"`
		} `json:"params"`
		Result json.RawMessage `json:"result"`
		Error  json.RawMessage `json:"error"`
	}
	if err := json.Unmarshal(data, &m); err != nil {
		return satMsg{Kind: "other"}
	}
	out := satMsg{ID: strings.TrimSpace(string(m.ID))}
	if out.ID == "null" {
		out.ID = ""
	}
	switch {
	case m.Method == "tools/call":
		out.Kind, out.Tag = "call", m.Params.Args.Tag
	case m.Method == "notifications/progress":
		out.Kind, out.Tag = "note", m.Params.Message
	case m.Method == "sampling/createMessage":
		out.Kind, out.Tag = "sreq", m.Params.SystemPrompt
	case m.Method == "ping" && out.ID != "":
		out.Kind = "ping"
	case m.Method != "":
		out.Kind = "ctl"
	case out.ID != "":
		out.Kind = "resp"
		out.IsErr = len(m.Error) > 0 && string(m.Error) != "null"
		// tools/call result: {"content":[{"type":"text","text":TAG}]}; sampling result: {"content":{"type":"text","text":TAG}}
		var r1 struct {
			Content []struct {
				Text string `json:"text"`
			} `json:"content"`
		}
		var r2 struct {
			Content struct {
				Text string `json:"text"`
			} `json:"content"`
		}
		if json.Unmarshal(m.Result, &r1) == nil && len(r1.Content) == 1 {
			out.Tag = r1.Content[0].Text
		} else if json.Unmarshal(m.Result, &r2) == nil {
			out.Tag = r2.Content.Text
		}
	default:
		out.Kind = "other"
	}
	return out
}

// satOrigin: the session a tag was made for ("s1.c2.resp" -> "s1")
func satOrigin(tag string) string {
	if i := strings.Index(tag, "."); i > 0 {
		return tag[:i]
	}
	return ""
}

// ---------------------------------------------------------------- the network of one client session

type satRW struct {
	g    *satGet
	hdr  http.Header
	once sync.Once
	code int
}

func (w *satRW) Header() http.Header { return w.hdr }
func (w *satRW) WriteHeader(code int) {
	w.once.Do(func() {
		w.code = code
		close(w.g.hdrReady)
	})
}
func (w *satRW) Flush() {}
func (w *satRW) Write(p []byte) (int, error) {
	w.WriteHeader(http.StatusOK)
	return w.g.serverWrite(p)
}

// satGet is the hanging GET of one session: what the server writes is cut into complete SSE blocks that wait
// in a queue until the client's body reads them.
type satGet struct {
	n        *satNet
	cancel   context.CancelFunc // the server side's request context
	hdrReady chan struct{}
	rw       *satRW

	mu        sync.Mutex
	part      []byte   // bytes of an incomplete block
	blocks    [][]byte // complete blocks not yet read by the client
	cur       []byte   // rest of the block being read
	hold      bool
	swr       bool   // the server's writes succeed
	ended     string // "" | cut | closed  (client side)
	quiet     bool   // the cut was not announced to the server
	srvEnded  bool   // ServeHTTP has returned
	reading   bool   // a Read of the client is blocked
	eofLogged bool
	wake      chan struct{}
}

func (g *satGet) kick() {
	close(g.wake)
	g.wake = make(chan struct{})
}

func (g *satGet) serverWrite(p []byte) (int, error) {
	g.mu.Lock()
	if !g.swr {
		quiet := g.quiet
		g.quiet = false
		g.mu.Unlock()
		if quiet {
			// a write on a connection the client has left: the HTTP server cancels the request now at the latest
			g.n.r.log.emit("net.swfail", "s", g.n.name)
			g.cancel()
		}
		return 0, errors.New("sat: write on a connection the client has left")
	}
	g.part = append(g.part, p...)
	for {
		i := bytes.Index(g.part, []byte("\n\n"))
		if i < 0 {
			break
		}
		blk := append([]byte(nil), g.part[:i+2]...)
		g.part = g.part[i+2:]
		g.n.wrote(blk) // logged before the client can see (and react to) the block
		g.blocks = append(g.blocks, blk)
	}
	g.kick()
	g.mu.Unlock()
	return len(p), nil
}

func (g *satGet) Read(p []byte) (int, error) {
	for {
		g.mu.Lock()
		switch {
		case g.ended == "closed":
			g.mu.Unlock()
			return 0, errors.New("sat: read on closed body")
		case g.ended == "cut":
			g.mu.Unlock()
			return 0, io.ErrUnexpectedEOF
		case len(g.cur) > 0:
			n := copy(p, g.cur)
			g.cur = g.cur[n:]
			g.mu.Unlock()
			return n, nil
		case !g.hold && len(g.blocks) > 0:
			g.cur = g.blocks[0]
			g.blocks = g.blocks[1:]
			g.mu.Unlock()
			continue
		case !g.hold && g.srvEnded:
			first := !g.eofLogged
			g.eofLogged = true
			g.mu.Unlock()
			if first {
				g.n.r.log.emit("stream.end", "s", g.n.name, "how", "eof")
			}
			return 0, io.EOF
		}
		ch := g.wake
		g.reading = true
		g.mu.Unlock()
		<-ch
		g.mu.Lock()
		g.reading = false
		g.mu.Unlock()
	}
}

// Close: the client hangs up (sseClientConn.Close closes the body)
func (g *satGet) Close() error {
	g.mu.Lock()
	if g.ended == "closed" {
		g.mu.Unlock()
		return nil
	}
	was := g.ended
	srvEnded := g.srvEnded && len(g.blocks) == 0
	g.ended = "closed"
	g.blocks, g.cur = nil, nil
	tell := was != "cut" // after a cut of the network the server cannot see the client hanging up
	if tell {
		g.swr = false
	}
	g.kick()
	g.mu.Unlock()
	g.n.r.log.emit("body.close", "s", g.n.name, "after", was, "srvEnded", srvEnded)
	if was == "" {
		g.n.r.log.emit("stream.end", "s", g.n.name, "how", "closed")
	}
	if tell {
		g.cancel()
	}
	return nil
}

func (g *satGet) cut(how string) bool {
	g.mu.Lock()
	if g.ended != "" || g.srvEnded {
		g.mu.Unlock()
		return false
	}
	// (logged before anybody can react to it)
	g.n.r.log.emit("fault", "s", g.n.name, "kind", "cut"+how)
	g.n.r.log.emit("stream.end", "s", g.n.name, "how", "cut")
	g.ended = "cut"
	g.blocks, g.cur = nil, nil
	g.swr = false
	g.quiet = how == "Q"
	g.kick()
	g.mu.Unlock()
	if how != "Q" {
		g.cancel()
	}
	return true
}

type satNet struct {
	r    *satRun
	name string

	mu    sync.Mutex
	get   *satGet
	phold chan struct{} // non-nil: POSTs wait for it
	pfail string
	sid   string // the session id the server issued (from the endpoint event)
	hs    bool   // handshake in progress: traffic is marked
	nrand int
}

// wrote is called for every complete block the server has written to the GET response of this session
func (n *satNet) wrote(blk []byte) {
	name, data := "", []byte(nil)
	for _, ln := range bytes.Split(bytes.TrimSuffix(blk, []byte("\n\n")), []byte("\n")) {
		k, v, ok := bytes.Cut(ln, []byte(":"))
		if !ok {
			continue
		}
		v = bytes.TrimPrefix(v, []byte(" "))
		switch string(k) {
		case "event":
			name = string(v)
		case "data":
			data = append(data, v...)
		}
	}
	if name == "endpoint" {
		if u, err := url.Parse(string(data)); err == nil {
			id := u.Query().Get("sessionid")
			n.mu.Lock()
			n.sid = id
			n.mu.Unlock()
			n.r.mu.Lock()
			n.r.byID[id] = n.name
			n.r.mu.Unlock()
		}
		n.r.log.emit("wire.s2c", "s", n.name, "kind", "endpoint", "id", "", "tag", "", "os", "", "iserr", false, "hs", true)
		return
	}
	m := satClassify(data)
	n.mu.Lock()
	hs := n.hs
	n.mu.Unlock()
	n.r.log.emit("wire.s2c", "s", n.name, "kind", m.Kind, "id", m.ID, "tag", m.Tag, "os", satOrigin(m.Tag), "iserr", m.IsErr, "hs", hs)
}

func satResp(req *http.Request, code int, hdr http.Header, body io.ReadCloser) *http.Response {
	if hdr == nil {
		hdr = http.Header{}
	}
	return &http.Response{Status: strconv.Itoa(code) + " " + http.StatusText(code), StatusCode: code, Proto: "HTTP/1.1",
		ProtoMajor: 1, ProtoMinor: 1, Header: hdr, Request: req, ContentLength: -1, Body: body}
}

// serve runs one request on the real handler with a recording ResponseWriter and waits for it to finish
func (r *satRun) servePlain(method, target string, body []byte) (int, string) {
	req, _ := http.NewRequestWithContext(context.Background(), method, target, bytes.NewReader(body))
	req.Header.Set("Content-Type", "application/json")
	req.RequestURI = req.URL.RequestURI()
	req.RemoteAddr = "192.0.2.9:4000"
	rec := &satRec{hdr: http.Header{}}
	done := make(chan struct{})
	var pv string
	go func() {
		defer close(done)
		defer func() {
			if p := recover(); p != nil {
				pv = fmt.Sprint(p)
			}
		}()
		r.handler.ServeHTTP(rec, req)
	}()
	<-done
	if rec.code == 0 {
		rec.code = 200
	}
	return rec.code, pv
}

type satRec struct {
	hdr  http.Header
	code int
	buf  bytes.Buffer
}

func (w *satRec) Header() http.Header { return w.hdr }
func (w *satRec) WriteHeader(c int) {
	if w.code == 0 {
		w.code = c
	}
}
func (w *satRec) Write(p []byte) (int, error) {
	if w.code == 0 {
		w.code = 200
	}
	return w.buf.Write(p)
}

func (n *satNet) RoundTrip(req *http.Request) (*http.Response, error) {
	r := n.r
	if req.Method == http.MethodGet {
		sctx, cancel := context.WithCancel(context.Background())
		g := &satGet{n: n, cancel: cancel, hdrReady: make(chan struct{}), swr: true, wake: make(chan struct{})}
		g.rw = &satRW{g: g, hdr: http.Header{}}
		sreq := req.Clone(sctx)
		sreq.RequestURI = req.URL.RequestURI()
		sreq.RemoteAddr = "192.0.2.1:1234"
		n.mu.Lock()
		n.get = g
		n.mu.Unlock()
		go func() {
			defer func() {
				if p := recover(); p != nil {
					r.log.emit("panic", "msg", fmt.Sprint(p), "where", "GET "+n.name)
				}
				g.rw.WriteHeader(http.StatusOK)
				r.log.emit("get.exit", "s", n.name) // logged before the client can see the end of the response
				g.mu.Lock()
				g.srvEnded = true
				g.swr = false
				g.kick()
				g.mu.Unlock()
			}()
			r.handler.ServeHTTP(g.rw, sreq)
		}()
		select {
		case <-g.hdrReady:
		case <-req.Context().Done():
			cancel()
			return nil, req.Context().Err()
		}
		// like net/http: cancelling the client's request aborts the body
		stop := context.AfterFunc(req.Context(), func() { g.Close() })
		_ = stop
		return satResp(req, g.rw.code, g.rw.hdr.Clone(), g), nil
	}
	// POST
	var body []byte
	if req.Body != nil {
		body, _ = io.ReadAll(req.Body)
		req.Body.Close()
	}
	m := satClassify(body)
	to := "?"
	r.mu.Lock()
	if nm, ok := r.byID[req.URL.Query().Get("sessionid")]; ok {
		to = nm
	}
	r.np++
	p := r.np
	r.mu.Unlock()
	n.mu.Lock()
	fate := n.pfail
	n.pfail = ""
	gate := n.phold
	hs := n.hs
	n.mu.Unlock()
	r.log.emit("post.begin", "p", p, "from", n.name, "to", to, "kind", m.Kind, "id", m.ID, "tag", m.Tag, "os", satOrigin(m.Tag), "iserr", m.IsErr, "fate", fate, "hs", hs)
	if gate != nil {
		select {
		case <-gate:
		case <-req.Context().Done():
			r.log.emit("post.end", "p", p, "from", n.name, "to", to, "kind", m.Kind, "id", m.ID, "tag", m.Tag, "status", -2, "seen", false, "hs", hs)
			return nil, req.Context().Err()
		}
	}
	if fate == "B" {
		r.log.emit("post.end", "p", p, "from", n.name, "to", to, "kind", m.Kind, "id", m.ID, "tag", m.Tag, "status", -1, "seen", false, "hs", hs)
		return nil, errors.New("sat: connection reset before the request was sent")
	}
	code, pv := r.servePlain(http.MethodPost, req.URL.String(), body)
	if pv != "" {
		r.log.emit("panic", "msg", pv, "where", "POST "+n.name)
	}
	if fate == "A" {
		r.log.emit("post.end", "p", p, "from", n.name, "to", to, "kind", m.Kind, "id", m.ID, "tag", m.Tag, "status", -1, "seen", true, "hs", hs)
		return nil, errors.New("sat: connection reset while waiting for the response")
	}
	r.log.emit("post.end", "p", p, "from", n.name, "to", to, "kind", m.Kind, "id", m.ID, "tag", m.Tag, "status", code, "seen", true, "hs", hs)
	return satResp(req, code, nil, io.NopCloser(strings.NewReader(""))), nil
}

// ---------------------------------------------------------------- the scenario run

type satCall struct {
	key    string
	cancel context.CancelFunc
	done   chan struct{}
}

type satHandler struct {
	tag     string
	side    string
	sess    string // the session the handler runs in
	cmd     chan string
	started bool
	ended   bool
	nesting bool
	retSent bool
	abort   context.CancelFunc
}

type satSess struct {
	name      string
	net       *satNet
	client    *mcp.Client
	cs        *mcp.ClientSession
	ss        *mcp.ServerSession
	connected bool
	cclose    bool
	sclose    bool
	cwait     bool
	swait     bool
	ncn, nsn  int
	hurt      bool
}

type satRun struct {
	log     *satLog
	rng     *rand.Rand
	server  *mcp.Server
	handler *mcp.SSEHandler

	mu             sync.Mutex
	sess           map[string]*satSess
	byID           map[string]string
	calls          map[string]*satCall
	hs             map[string]*satHandler // key: side + "." + tag
	gates          map[string]chan struct{}
	open           map[string]bool
	np             int
	nstep          int
	closeB, closeE int
}

func (r *satRun) gate(key string) chan struct{} {
	r.mu.Lock()
	defer r.mu.Unlock()
	ch, ok := r.gates[key]
	if !ok {
		ch = make(chan struct{})
		r.gates[key] = ch
	}
	return ch
}

func (r *satRun) openGate(key string) {
	r.mu.Lock()
	defer r.mu.Unlock()
	ch, ok := r.gates[key]
	if !ok {
		ch = make(chan struct{})
		r.gates[key] = ch
	}
	if !r.open[key] {
		r.open[key] = true
		close(ch)
	}
}

func (r *satRun) hnd(side, tag, sess string) *satHandler {
	r.mu.Lock()
	defer r.mu.Unlock()
	k := side + "." + tag
	h := r.hs[k]
	if h == nil {
		h = &satHandler{tag: tag, side: side, sess: sess, cmd: make(chan string, 8)}
		r.hs[k] = h
	}
	return h
}

func (r *satRun) srvSessName(ss *mcp.ServerSession) string {
	if ss == nil {
		return "?"
	}
	ip := ss.InitializeParams()
	if ip == nil || ip.ClientInfo == nil {
		return "?"
	}
	return strings.TrimPrefix(ip.ClientInfo.Name, "sat-")
}

func satErrKind(err error) (string, int64) {
	if err == nil {
		return "result", 0
	}
	var we *jsonrpc.Error
	switch {
	case errors.Is(err, mcp.ErrConnectionClosed):
		return "closed", 0
	case errors.Is(err, context.Canceled), errors.Is(err, context.DeadlineExceeded):
		return "ctx", 0
	case errors.As(err, &we):
		return "wireerror", we.Code
	}
	return "other", 0
}

func satErrStr(err error) string {
	if err == nil {
		return ""
	}
	s := err.Error()
	if len(s) > 160 {
		s = s[:160]
	}
	return s
}

// the gated tool of the server
func (r *satRun) tool(ctx context.Context, req *mcp.CallToolRequest) (*mcp.CallToolResult, error) {
	var a struct {
		Tag string `json:"tag"`
	}
	json.Unmarshal(req.Params.Arguments, &a)
	sname := r.srvSessName(req.Session)
	h := r.hnd("srv", a.Tag, sname)
	r.mu.Lock()
	h.started, h.sess = true, sname
	r.mu.Unlock()
	r.log.emit("h.start", "side", "srv", "s", sname, "kind", "call", "tag", a.Tag, "os", satOrigin(a.Tag))
	for cmd := range h.cmd {
		switch cmd {
		case "nest", "nestn":
			qtag := a.Tag + ".q"
			if cmd == "nestn" {
				r.noteFromHandler(ctx, req.Session, sname, qtag)
			}
			nctx, cancel := context.WithCancel(context.WithoutCancel(ctx))
			r.mu.Lock()
			h.nesting, h.abort = true, cancel
			r.mu.Unlock()
			r.log.emit("call.begin", "dir", "s2c", "s", sname, "key", qtag, "after", false)
			res, err := req.Session.CreateMessage(nctx, &mcp.CreateMessageParams{MaxTokens: 8, SystemPrompt: qtag,
				Messages: []*mcp.SamplingMessage{{Role: "user", Content: &mcp.TextContent{Text: qtag}}}})
			cancelled := nctx.Err() != nil
			cancel()
			kind, code := satErrKind(err)
			payload := ""
			if err == nil && res != nil {
				if tc, ok := res.Content.(*mcp.TextContent); ok {
					payload = tc.Text
				}
			}
			r.mu.Lock()
			h.nesting, h.abort = false, nil
			r.mu.Unlock()
			r.log.emit("call.end", "dir", "s2c", "s", sname, "key", qtag, "kind", kind, "code", code, "payload", payload, "cancelled", cancelled, "err", satErrStr(err))
		case "ret", "retn":
			if cmd == "retn" {
				r.noteFromHandler(ctx, req.Session, sname, a.Tag+".resp")
			}
			r.mu.Lock()
			h.ended = true
			r.mu.Unlock()
			r.log.emit("h.end", "side", "srv", "s", sname, "kind", "call", "tag", a.Tag)
			return &mcp.CallToolResult{Content: []mcp.Content{&mcp.TextContent{Text: a.Tag + ".resp"}}}, nil
		}
	}
	return nil, errors.New("sat: handler abandoned")
}

// noteFromHandler: the tool handler's goroutine sends a progress notification before it goes on (with `then`)
func (r *satRun) noteFromHandler(ctx context.Context, ss *mcp.ServerSession, sname, then string) {
	r.mu.Lock()
	st := r.sess[sname]
	n := 0
	if st != nil {
		st.nsn++
		n = st.nsn
	}
	r.mu.Unlock()
	ntag := fmt.Sprintf("%s.sn%d", sname, n)
	err := ss.NotifyProgress(ctx, &mcp.ProgressNotificationParams{ProgressToken: "tok", Message: ntag, Progress: 1})
	r.log.emit("note.sent", "dir", "s2c", "s", sname, "tag", ntag, "err", satErrStr(err), "then", then)
}

func (r *satRun) noteHandler(side, sname, tag string) {
	h := r.hnd(side, tag, sname)
	r.mu.Lock()
	h.started, h.sess = true, sname
	r.mu.Unlock()
	r.log.emit("h.start", "side", side, "s", sname, "kind", "note", "tag", tag, "os", satOrigin(tag))
	<-r.gate(side + "." + tag)
	r.mu.Lock()
	h.ended = true
	r.mu.Unlock()
	r.log.emit("h.end", "side", side, "s", sname, "kind", "note", "tag", tag)
}

var satVersions = []string{"2024-11-05", "2025-03-26", "2025-06-18"}

func (r *satRun) setup() {
	r.server = mcp.NewServer(&mcp.Implementation{Name: "sat-server", Version: "v1"}, &mcp.ServerOptions{
		ProgressNotificationHandler: func(ctx context.Context, req *mcp.ProgressNotificationServerRequest) {
			r.noteHandler("srv", r.srvSessName(req.Session), req.Params.Message)
		},
	})
	r.server.AddTool(&mcp.Tool{Name: "gate", InputSchema: json.RawMessage(`{"type":"object"}`)}, r.tool)
	r.handler = mcp.NewSSEHandler(func(*http.Request) *mcp.Server { return r.server }, nil)
}

func (r *satRun) connect(name string) bool {
	r.mu.Lock()
	if r.sess[name] != nil {
		r.mu.Unlock()
		return false
	}
	st := &satSess{name: name}
	st.net = &satNet{r: r, name: name, hs: true}
	r.sess[name] = st
	r.mu.Unlock()
	st.client = mcp.NewClient(&mcp.Implementation{Name: "sat-" + name, Version: "v1"}, &mcp.ClientOptions{
		CreateMessageHandler: func(ctx context.Context, req *mcp.CreateMessageRequest) (*mcp.CreateMessageResult, error) {
			tag := req.Params.SystemPrompt
			h := r.hnd("cli", tag, name)
			r.mu.Lock()
			h.started, h.sess = true, name
			r.mu.Unlock()
			r.log.emit("h.start", "side", "cli", "s", name, "kind", "call", "tag", tag, "os", satOrigin(tag))
			<-r.gate("cli." + tag)
			r.mu.Lock()
			h.ended = true
			r.mu.Unlock()
			r.log.emit("h.end", "side", "cli", "s", name, "kind", "call", "tag", tag)
			return &mcp.CreateMessageResult{Model: "m", Role: "assistant", Content: &mcp.TextContent{Text: tag + ".resp"}}, nil
		},
		ProgressNotificationHandler: func(ctx context.Context, req *mcp.ProgressNotificationClientRequest) {
			r.noteHandler("cli", name, req.Params.Message)
		},
	})
	tr := &mcp.SSEClientTransport{Endpoint: "http://sat.verif.test/sse", HTTPClient: &http.Client{Transport: st.net}}
	ver := satVersions[r.rng.IntN(len(satVersions))]
	var cs *mcp.ClientSession
	var cerr error
	done := make(chan struct{})
	go func() {
		defer close(done)
		defer func() {
			if p := recover(); p != nil {
				cerr = fmt.Errorf("panic: %v", p)
				r.log.emit("panic", "msg", fmt.Sprint(p), "where", "connect "+name)
			}
		}()
		cs, cerr = st.client.Connect(context.Background(), tr, &mcp.ClientSessionOptions{ProtocolVersion: ver})
	}()
	synctest.Wait()
	select {
	case <-done:
	default:
		r.log.emit("sess", "s", name, "ok", false, "err", "connect did not return", "version", ver)
		return true
	}
	if cerr != nil {
		r.log.emit("sess", "s", name, "ok", false, "err", satErrStr(cerr), "version", ver)
		return true
	}
	st.net.mu.Lock()
	st.net.hs = false
	st.net.mu.Unlock()
	var ss *mcp.ServerSession
	for x := range r.server.Sessions() {
		if r.srvSessName(x) == name {
			ss = x
		}
	}
	r.mu.Lock()
	st.cs, st.ss, st.connected = cs, ss, ss != nil
	r.mu.Unlock()
	r.log.emit("sess", "s", name, "ok", ss != nil, "err", "", "version", ver)
	go func() {
		cs.Wait()
		r.mu.Lock()
		st.cwait = true
		r.mu.Unlock()
		r.log.emit("wait.end", "side", "cli", "s", name)
	}()
	if ss != nil {
		go func() {
			ss.Wait()
			r.mu.Lock()
			st.swait = true
			r.mu.Unlock()
			r.log.emit("wait.end", "side", "srv", "s", name)
		}()
	}
	return true
}

func (r *satRun) live(name string) *satSess {
	r.mu.Lock()
	defer r.mu.Unlock()
	st := r.sess[name]
	if st == nil || !st.connected {
		return nil
	}
	return st
}

func (r *satRun) startCall(st *satSess, k string) {
	tag := st.name + ".c" + k
	ctx, cancel := context.WithCancel(context.Background())
	c := &satCall{key: tag, cancel: cancel, done: make(chan struct{})}
	r.mu.Lock()
	r.calls[tag] = c
	after := st.cwait
	r.mu.Unlock()
	r.log.emit("call.begin", "dir", "c2s", "s", st.name, "key", tag, "after", after)
	go r.doCall(st, c, ctx, tag)
}

func (r *satRun) doCall(st *satSess, c *satCall, ctx context.Context, tag string) {
	defer close(c.done)
	defer func() {
		if p := recover(); p != nil {
			r.log.emit("panic", "msg", fmt.Sprint(p), "where", "call "+tag)
		}
	}()
	res, err := st.cs.CallTool(ctx, &mcp.CallToolParams{Name: "gate", Arguments: map[string]any{"tag": tag}})
	kind, code := satErrKind(err)
	payload := ""
	if err == nil && res != nil {
		if res.IsError {
			kind = "toolerr"
		}
		if len(res.Content) == 1 {
			if tc, ok := res.Content[0].(*mcp.TextContent); ok {
				payload = tc.Text
			}
		}
	}
	r.log.emit("call.end", "dir", "c2s", "s", st.name, "key", tag, "kind", kind, "code", code, "payload", payload, "cancelled", ctx.Err() != nil, "err", satErrStr(err))
}

func (r *satRun) srvHandler(tag string) *satHandler {
	r.mu.Lock()
	defer r.mu.Unlock()
	return r.hs["srv."+tag]
}

// tell sends a command to the running tool handler of tag if it can take one now
func (r *satRun) tell(tag, cmd string) bool {
	r.mu.Lock()
	h := r.hs["srv."+tag]
	ok := h != nil && h.started && !h.ended && !h.nesting && !h.retSent
	if ok && strings.HasPrefix(cmd, "ret") {
		h.retSent = true
	}
	r.mu.Unlock()
	if ok {
		h.cmd <- cmd
	}
	return ok
}

func (r *satRun) running(side, tag string) bool {
	r.mu.Lock()
	defer r.mu.Unlock()
	h := r.hs[side+"."+tag]
	return h != nil && h.started && !h.ended && !r.open[side+"."+tag]
}

func satArg(stp []any, i int) string {
	if i < len(stp) {
		switch v := stp[i].(type) {
		case float64:
			return strconv.Itoa(int(v))
		case bool:
			if v {
				return "true"
			}
			return "false"
		case string:
			return v
		}
	}
	return ""
}

var satInjects = []string{"retry: 3000\n\n", "id: 42\n\n", "event: ping\ndata: 17\n\n"}

func (r *satRun) step(stp []any) {
	op, a1, a2, a3 := satArg(stp, 0), satArg(stp, 1), satArg(stp, 2), satArg(stp, 3)
	r.nstep++
	r.log.emit("step.begin", "n", r.nstep, "op", op, "a1", a1, "a2", a2, "a3", a3)
	applied := true
	st := r.live(a1)
	if op != "connect" && st == nil {
		applied = false
	} else {
		switch op {
		case "connect":
			applied = r.connect(a1)
		case "ccall":
			r.mu.Lock()
			_, dup := r.calls[a1+".c"+a2]
			r.mu.Unlock()
			if dup {
				applied = false
				break
			}
			r.startCall(st, a2)
		case "cnote":
			r.mu.Lock()
			st.ncn++
			n := st.ncn
			_, dup := r.calls[a1+".c"+a3]
			r.mu.Unlock()
			tag := fmt.Sprintf("%s.cn%d", a1, n)
			fu := a3
			if fu == "0" || dup {
				fu = ""
			}
			then := ""
			if fu != "" {
				then = a1 + ".c" + fu
			}
			go func() {
				err := st.cs.NotifyProgress(context.Background(), &mcp.ProgressNotificationParams{ProgressToken: "tok", Message: tag, Progress: 1})
				r.log.emit("note.sent", "dir", "c2s", "s", a1, "tag", tag, "err", satErrStr(err), "then", then)
				if fu != "" {
					r.startCall(st, fu)
				}
			}()
		case "hret":
			cmd := "ret"
			if a3 == "true" {
				cmd = "retn"
			}
			applied = r.tell(a1+".c"+a2, cmd)
		case "hnest":
			r.mu.Lock()
			_, dup := r.hs["cli."+a1+".c"+a2+".q"]
			r.mu.Unlock()
			cmd := "nest"
			if a3 == "true" {
				cmd = "nestn"
			}
			applied = !dup && r.tell(a1+".c"+a2, cmd)
			if applied {
				r.hnd("cli", a1+".c"+a2+".q", a1) // at most one nested call per handler
			}
		case "habandon":
			r.mu.Lock()
			h := r.hs["srv."+a1+".c"+a2]
			var ab context.CancelFunc
			if h != nil && h.nesting {
				ab = h.abort
			}
			r.mu.Unlock()
			if ab == nil {
				applied = false
				break
			}
			r.log.emit("ctx.cancel", "key", a1+".c"+a2+".q")
			ab()
		case "chret":
			tag := a1 + ".c" + a2 + ".q"
			if applied = r.running("cli", tag); applied {
				r.openGate("cli." + tag)
			}
		case "snret":
			tag := a1 + ".cn" + a2
			if applied = r.running("srv", tag); applied {
				r.openGate("srv." + tag)
			}
		case "cnret":
			tag := a1 + ".sn" + a2
			if applied = r.running("cli", tag); applied {
				r.openGate("cli." + tag)
			}
		case "snote":
			r.mu.Lock()
			st.nsn++
			n := st.nsn
			r.mu.Unlock()
			tag := fmt.Sprintf("%s.sn%d", a1, n)
			go func() {
				err := st.ss.NotifyProgress(context.Background(), &mcp.ProgressNotificationParams{ProgressToken: "tok", Message: tag, Progress: 1})
				r.log.emit("note.sent", "dir", "s2c", "s", a1, "tag", tag, "err", satErrStr(err), "then", "")
			}()
		case "cut":
			st.net.mu.Lock()
			g := st.net.get
			st.net.mu.Unlock()
			applied = g != nil && g.cut(a2)
		case "armpf":
			st.net.mu.Lock()
			if applied = st.net.pfail == ""; applied {
				st.net.pfail = a2
			}
			st.net.mu.Unlock()
			if applied {
				r.log.emit("fault", "s", a1, "kind", "pf"+a2)
			}
		case "cclose":
			r.mu.Lock()
			if applied = !st.cclose; applied {
				st.cclose = true
			}
			r.mu.Unlock()
			if applied {
				r.log.emit("fault", "s", a1, "kind", "cclose")
				r.log.emit("close.begin", "side", "cli", "s", a1)
				go func() {
					st.cs.Close()
					r.log.emit("close.end", "side", "cli", "s", a1)
				}()
			}
		case "sclose":
			listed := false
			for x := range r.server.Sessions() {
				if x == st.ss {
					listed = true
				}
			}
			r.mu.Lock()
			if applied = !st.sclose && listed; applied {
				st.sclose = true
			}
			r.mu.Unlock()
			if applied {
				r.log.emit("fault", "s", a1, "kind", "sclose")
				r.log.emit("close.begin", "side", "srv", "s", a1)
				go func() {
					st.ss.Close()
					r.log.emit("close.end", "side", "srv", "s", a1)
				}()
			}
		case "inject":
			st.net.mu.Lock()
			g := st.net.get
			st.net.mu.Unlock()
			applied = false
			if g != nil {
				g.mu.Lock()
				if g.ended == "" && g.swr {
					r.log.emit("fault", "s", a1, "kind", "inject")
					g.blocks = append(g.blocks, []byte(satInjects[r.rng.IntN(len(satInjects))]))
					g.kick()
					applied = true
				}
				g.mu.Unlock()
			}
		case "holdstream", "relstream":
			st.net.mu.Lock()
			g := st.net.get
			st.net.mu.Unlock()
			applied = false
			if g != nil {
				g.mu.Lock()
				want := op == "holdstream"
				if g.hold != want && (!want || g.ended == "") {
					g.hold = want
					g.kick()
					applied = true
				}
				g.mu.Unlock()
			}
		case "holdpost":
			st.net.mu.Lock()
			if applied = st.net.phold == nil; applied {
				st.net.phold = make(chan struct{})
			}
			st.net.mu.Unlock()
		case "relpost":
			st.net.mu.Lock()
			if applied = st.net.phold != nil; applied {
				close(st.net.phold)
				st.net.phold = nil
			}
			st.net.mu.Unlock()
		case "spost":
			st.net.mu.Lock()
			sid := st.net.sid
			st.net.mu.Unlock()
			r.mu.Lock()
			r.np++
			p := r.np
			r.mu.Unlock()
			id := strconv.Itoa(9000 + p)
			body := []byte(`{"jsonrpc":"2.0","id":` + id + `,"method":"ping"}`)
			r.log.emit("post.begin", "p", p, "from", "stray", "to", a1, "kind", "ping", "id", id, "tag", "", "os", "", "iserr", false, "fate", "", "hs", false)
			go func() {
				code, pv := r.servePlain(http.MethodPost, "http://sat.verif.test/sse?sessionid="+url.QueryEscape(sid), body)
				if pv != "" {
					r.log.emit("panic", "msg", pv, "where", "stray POST")
				}
				r.log.emit("post.end", "p", p, "from", "stray", "to", a1, "kind", "ping", "id", id, "tag", "", "status", code, "seen", true, "hs", false)
			}()
		default:
			applied = false
		}
	}
	synctest.Wait()
	r.log.emit("step", "n", r.nstep, "op", op, "a1", a1, "a2", a2, "a3", a3, "applied", applied, "listed", r.listed())
}

func (r *satRun) listed() []string {
	out := []string{}
	for x := range r.server.Sessions() {
		out = append(out, r.srvSessName(x))
	}
	sort.Strings(out)
	return out
}

func (r *satRun) names() []string {
	r.mu.Lock()
	defer r.mu.Unlock()
	var out []string
	for n, st := range r.sess {
		if st.connected {
			out = append(out, n)
		}
	}
	sort.Strings(out)
	return out
}

// satGoroutines lists the goroutines of the bubble (other than the caller) by their first go-sdk frame
func satGoroutines() []string {
	buf := make([]byte, 1<<20)
	buf = buf[:runtime.Stack(buf, true)]
	blocks := strings.Split(string(buf), "\n\n")
	self := ""
	if len(blocks) > 0 {
		if i := strings.Index(blocks[0], "synctest bubble "); i >= 0 {
			self = strings.TrimRight(strings.Fields(blocks[0][i+len("synctest bubble "):])[0], "]:,")
		}
	}
	out := []string{}
	for _, b := range blocks[1:] {
		if self == "" || !strings.Contains(b, "synctest bubble "+self) {
			continue
		}
		if strings.Contains(b, "synctest.Run(") || strings.Contains(b, "testingSynctestTest") {
			continue
		}
		fn := "?"
		for _, ln := range strings.Split(b, "\n")[1:] {
			if !strings.HasPrefix(ln, "\t") && strings.Contains(ln, "go-sdk") && !strings.Contains(ln, "mcp_test.") {
				fn = ln
				if i := strings.LastIndex(fn, "("); i > 0 {
					fn = fn[:i]
				}
				if i := strings.LastIndex(fn, "/"); i >= 0 {
					fn = fn[i+1:]
				}
				break
			}
		}
		if fn == "?" {
			for _, ln := range strings.Split(b, "\n")[1:] {
				if !strings.HasPrefix(ln, "\t") && strings.Contains(ln, "mcp_test.") {
					fn = "harness:" + ln[strings.LastIndex(ln, "mcp_test.")+9:]
					if i := strings.LastIndex(fn, "("); i > 0 {
						fn = fn[:i]
					}
					break
				}
			}
		}
		out = append(out, fn)
	}
	sort.Strings(out)
	return out
}

func (r *satRun) snapshot(ev string, extra ...any) {
	blocked := []string{}
	r.mu.Lock()
	for k, c := range r.calls {
		select {
		case <-c.done:
		default:
			blocked = append(blocked, k)
		}
	}
	r.mu.Unlock()
	// nested calls still waiting
	r.mu.Lock()
	for _, h := range r.hs {
		if h.side == "srv" && h.nesting {
			blocked = append(blocked, h.tag+".q")
		}
	}
	r.mu.Unlock()
	sort.Strings(blocked)
	listed := r.listed()
	type sobs struct {
		S        string `json:"s"`
		Listed   bool   `json:"listed"`
		GetRun   bool   `json:"getrun"`
		Reading  bool   `json:"reading"`
		CWait    bool   `json:"cwait"`
		SWait    bool   `json:"swait"`
		HRunning int    `json:"hrunning"`
	}
	obs := []sobs{}
	for _, n := range r.names() {
		r.mu.Lock()
		st := r.sess[n]
		o := sobs{S: n, CWait: st.cwait, SWait: st.swait}
		for _, h := range r.hs {
			if h.sess == n && h.started && !h.ended {
				o.HRunning++
			}
		}
		r.mu.Unlock()
		for _, x := range listed {
			if x == n {
				o.Listed = true
			}
		}
		st.net.mu.Lock()
		g := st.net.get
		st.net.mu.Unlock()
		if g != nil {
			g.mu.Lock()
			o.GetRun, o.Reading = !g.srvEnded, g.reading
			g.mu.Unlock()
		}
		obs = append(obs, o)
	}
	kv := append([]any{"blocked", blocked, "sess", obs, "goroutines", satGoroutines()}, extra...)
	r.log.emit(ev, kv...)
}

func (r *satRun) run(sc *satScenario) {
	r.setup()
	for _, st := range sc.Steps {
		r.step(st)
	}
	r.log.emit("script.end")
	// drain, stage 1: the environment pays its debts and nothing else: the network releases what it holds, a healthy
	// peer's handlers answer, tool handlers return (a handler whose nested call can no longer be answered gives it up)
	for round := 0; round < 8; round++ {
		progressed := false
		for _, n := range r.names() {
			st := r.live(n)
			st.net.mu.Lock()
			g, ph := st.net.get, st.net.phold != nil
			st.net.mu.Unlock()
			if g != nil {
				g.mu.Lock()
				held := g.hold
				g.mu.Unlock()
				if held {
					r.step([]any{"relstream", n})
					progressed = true
				}
			}
			if ph {
				r.step([]any{"relpost", n})
				progressed = true
			}
		}
		r.mu.Lock()
		var cl, sn, cn, sh, nest []string
		for _, h := range r.hs {
			if !h.started || h.ended {
				continue
			}
			switch {
			case h.side == "cli" && strings.HasSuffix(h.tag, ".q") && !r.open["cli."+h.tag]:
				cl = append(cl, h.tag)
			case h.side == "cli" && !r.open["cli."+h.tag]:
				cn = append(cn, h.tag)
			case h.side == "srv" && strings.Contains(h.tag, ".cn") && !r.open["srv."+h.tag]:
				sn = append(sn, h.tag)
			case h.side == "srv" && strings.Contains(h.tag, ".c") && !strings.Contains(h.tag, ".cn") && h.nesting:
				nest = append(nest, h.tag)
			case h.side == "srv" && strings.Contains(h.tag, ".c") && !strings.Contains(h.tag, ".cn") && !h.retSent:
				sh = append(sh, h.tag)
			}
		}
		r.mu.Unlock()
		sort.Strings(cl)
		sort.Strings(sn)
		sort.Strings(cn)
		sort.Strings(sh)
		sort.Strings(nest)
		split := func(tag, sep string) (string, string) {
			i := strings.Index(tag, sep)
			rest := tag[i+len(sep):]
			if j := strings.Index(rest, "."); j >= 0 {
				rest = rest[:j]
			}
			return tag[:i], rest
		}
		for _, t := range cl {
			s, k := split(t, ".c")
			r.step([]any{"chret", s, k})
			progressed = true
		}
		for _, t := range cn {
			s, k := split(t, ".sn")
			r.step([]any{"cnret", s, k})
			progressed = true
		}
		for _, t := range sn {
			s, k := split(t, ".cn")
			r.step([]any{"snret", s, k})
			progressed = true
		}
		for _, t := range sh {
			s, k := split(t, ".c")
			r.step([]any{"hret", s, k})
			progressed = true
		}
		if !progressed {
			// nothing else was owed: a nested call still waiting can no longer be answered by anything the environment owes
			for _, t := range nest {
				s, k := split(t, ".c")
				r.step([]any{"habandon", s, k})
				progressed = true
			}
		}
		if !progressed {
			break
		}
	}
	time.Sleep(time.Hour)
	synctest.Wait()
	r.snapshot("quiesce")
	// stage 2: clean-up so that the bubble can end
	r.log.emit("cleanup")
	r.mu.Lock()
	for _, c := range r.calls {
		c.cancel()
	}
	var hs []*satHandler
	for _, h := range r.hs {
		hs = append(hs, h)
	}
	r.mu.Unlock()
	for _, h := range hs {
		r.mu.Lock()
		ab := h.abort
		r.mu.Unlock()
		if ab != nil {
			ab()
		}
	}
	synctest.Wait()
	for _, h := range hs {
		r.openGate(h.side + "." + h.tag)
		if h.side == "srv" && !strings.Contains(h.tag, ".cn") {
			r.mu.Lock()
			send := h.started && !h.ended && !h.retSent
			if send {
				h.retSent = true
			}
			r.mu.Unlock()
			if send {
				h.cmd <- "ret"
			}
		}
	}
	synctest.Wait()
	closed := make(chan struct{})
	names := r.names()
	go func() {
		for _, n := range names {
			st := r.live(n)
			st.cs.Close()
			if st.ss != nil {
				st.ss.Close()
			}
		}
		close(closed)
	}()
	synctest.Wait()
	time.Sleep(time.Minute)
	synctest.Wait()
	// a network that is gone for good
	r.mu.Lock()
	var all []*satSess
	for _, st := range r.sess {
		all = append(all, st)
	}
	r.mu.Unlock()
	for _, st := range all {
		st.net.mu.Lock()
		g := st.net.get
		if st.net.phold != nil {
			close(st.net.phold)
			st.net.phold = nil
		}
		st.net.mu.Unlock()
		if g != nil {
			g.mu.Lock()
			g.hold = false
			g.mu.Unlock()
			g.cancel()
			g.Close()
		}
	}
	time.Sleep(time.Hour)
	synctest.Wait()
	ok := false
	select {
	case <-closed:
		ok = true
	default:
	}
	r.snapshot("final", "closeReturned", ok)
}

func satSeed(seed uint64, id string) *rand.Rand {
	var h uint64 = 1469598103934665603
	for i := 0; i < len(id); i++ {
		h = (h ^ uint64(id[i])) * 1099511628211
	}
	return rand.New(rand.NewPCG(seed, h))
}

func TestVerif_SSESat(t *testing.T) {
	in, outp := os.Getenv("VERIF_IN"), os.Getenv("VERIF_OUT")
	if in == "" || outp == "" {
		t.Skip("VERIF_IN/VERIF_OUT not set")
	}
	seed, _ := strconv.ParseUint(os.Getenv("VERIF_SEED"), 10, 64)
	f, err := os.Create(outp)
	if err != nil {
		t.Fatal(err)
	}
	defer f.Close()
	w := bufio.NewWriterSize(f, 1<<20)
	defer w.Flush()
	l := &satLog{w: w}
	fin, err := os.Open(in)
	if err != nil {
		t.Fatal(err)
	}
	defer fin.Close()
	prog, _ := os.Create(outp + ".progress")
	if prog != nil {
		defer prog.Close()
	}
	sc := bufio.NewScanner(fin)
	sc.Buffer(make([]byte, 1<<20), 1<<26)
	for sc.Scan() {
		var s satScenario
		if err := json.Unmarshal(sc.Bytes(), &s); err != nil {
			t.Fatalf("bad scenario: %v", err)
		}
		if prog != nil {
			fmt.Fprintf(prog, "%s\n", sc.Bytes())
			w.Flush()
		}
		l.mu.Lock()
		l.start = time.Time{}
		l.mu.Unlock()
		l.emit("reset", "trace", s.ID)
		func() {
			// synctest.Test panics when the bubble's root returns while goroutines of the bubble are still blocked
			defer func() {
				if p := recover(); p != nil {
					l.emit("bubble", "leak", fmt.Sprint(p))
				}
			}()
			synctest.Test(t, func(t *testing.T) {
				l.mu.Lock()
				l.start = time.Now()
				l.mu.Unlock()
				sd := seed
				if s.Seed != 0 {
					sd = s.Seed
				}
				r := &satRun{log: l, rng: satSeed(sd, s.ID), sess: map[string]*satSess{}, byID: map[string]string{},
					calls: map[string]*satCall{}, hs: map[string]*satHandler{}, gates: map[string]chan struct{}{}, open: map[string]bool{}}
				defer func() {
					if p := recover(); p != nil {
						l.emit("panic", "msg", fmt.Sprint(p), "where", "scenario")
					}
				}()
				r.run(&s)
				time.Sleep(24 * time.Hour) // P4: whatever the scenario left behind winds down - or stays for good
			})
		}()
		w.Flush()
	}
}
