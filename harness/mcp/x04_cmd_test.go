//go:build verif

// Harness for extension check X04 (stdio client transport shutdown: CommandTransport / pipeRWC.Close,
// ioConn.Close, ClientSession.Close, and the server side's reaction to stdin EOF).
//
// A case is a child CLASS of spec/CmdClose.tla, enumerated by TLC (CmdCloseMC!AllClasses):
//
//	kind  raw     a single-threaded process that reads stdin to EOF (Connection level: CommandTransport.Connect, conn.Close)
//	      server  a REAL mcp.Server run over StdioTransport; the class decides what the process does after Run returned
//	      pure    exactly `server.Run(ctx, &StdioTransport{})` and return (ClientSession level: Client.Connect, cs.Close)
//	eof   now | short (td/8) | attd (exactly td, +off microseconds) | long (3td/2) | never
//	term  default (no handler) | short | attd | long | ignore   (handler classes record the signal)
//	out   quiet | some (unread output in the pipe) | full (writes until the pipe is full) | closed (stdout closed)
//	pre   running | exit0 | crash (exit 3) | sigkill  - what happened to the child BEFORE Close
//	c2    none | same (Close again at the same level) | rwc (pipeRWC.Close again) | conc (a concurrent second Close)
//
// The child is THIS test binary re-executed with -test.run=^TestVerifX04Child$; it appends what it sees
// (ready, eof, term, xeof, xterm) with CLOCK_MONOTONIC stamps to the file named by VERIF_X04_LOG.  The parent
// stamps the Close call and its return with the same clock, classifies the returned error, takes the wait
// status from the *exec.ExitError (SIGKILL / default SIGTERM are seen there), and looks at /proc/<pid>/stat
// after Close returned (gone | zombie | alive).  One ndjson line per case goes to VERIF_OUT;
// spec/CmdCloseMon.tla gives the verdict.  Real time is unavoidable (processes and signals are outside
// testing/synctest): the monitor only uses ORDER, lower bounds (load can only delay) and generous upper bounds.
// In-package only for the second Close directly on the pipeRWC (conn.(*ioConn).rwc).
package mcp

import (
	"bufio"
	"context"
	"encoding/json"
	"errors"
	"fmt"
	"io"
	"os"
	"os/exec"
	"os/signal"
	"path/filepath"
	"strings"
	"sync"
	"sync/atomic"
	"syscall"
	"testing"
	"time"
	"unsafe"
)

type x4Class struct {
	Kind string `json:"kind"`
	Eof  string `json:"eof"`
	Term string `json:"term"`
	Out  string `json:"out"`
	Pre  string `json:"pre"`
	C2   string `json:"c2"`
}

type x4Case struct {
	ID    string  `json:"id"`
	Cls   x4Class `json:"cls"`
	TdMs  int     `json:"td"`
	OffUs int     `json:"off"`   // attd: exit at td + off microseconds after the EOF / the signal
	Probe bool    `json:"probe"` // boundary probe with a small td: only untimed predicates are judged
}

type x4Obs struct {
	Ev       string   `json:"ev"`
	ID       string   `json:"id"`
	Cls      x4Class  `json:"cls"`
	Td       int      `json:"td"`
	Off      int      `json:"off"`
	Probe    bool     `json:"probe"`
	Setup    string   `json:"setup"` // "" or why the case could not be arranged
	Auto     bool     `json:"auto"`  // the closer may have been started by the read loop before the caller's Close
	Dur      int      `json:"dur"`   // ms, Close call -> return
	Err      string   `json:"err"`   // nil exit done unresponsive stdin other
	ErrText  string   `json:"errtext"`
	St       string   `json:"st"`    // wait status: exit<N> sigterm sigkill sig<N> none
	After    string   `json:"after"` // /proc state after Close returned: gone zombie alive
	CEof     int      `json:"ceof"`  // ms after the Close call at which the child saw EOF (-1: not recorded)
	CTerm    int      `json:"cterm"` // ... received SIGTERM (handler classes)
	CExit    int      `json:"cexit"` // ... decided to exit by itself
	CExitWhy string   `json:"cexitwhy"`
	Hist     []string `json:"hist"`
	RunErr   bool     `json:"runerr"` // server kinds: Run returned a non-nil error
	Err2     string   `json:"err2"`
	Dur2     int      `json:"dur2"`   // ms; same/rwc: duration of the second Close; conc: its return minus the first's return
	Panic2   bool     `json:"panic"`
	Early2   bool     `json:"early2"` // conc: the second Close returned well before the first
	After2   string   `json:"after2"`
	Late     int      `json:"late"` // lines the child recorded after Close had returned
	ZombieMs int      `json:"zombiems"` // unresponsive although dead: ms until the waiter reaped it (-1: not within 3 s)
	Pid      int      `json:"pid"`
}

func x4Mono() int64 {
	var ts syscall.Timespec
	syscall.Syscall(syscall.SYS_CLOCK_GETTIME, 1 /* CLOCK_MONOTONIC */, uintptr(unsafe.Pointer(&ts)), 0)
	return ts.Nano()
}

// ---------------------------------------------------------------- the child

var (
	x4LogFile *os.File
	x4LogMu   sync.Mutex
	x4ExitMu  sync.Mutex
)

func x4Log(ev string) {
	x4LogMu.Lock()
	defer x4LogMu.Unlock()
	fmt.Fprintf(x4LogFile, "%s %d\n", ev, x4Mono())
}

func x4Exit(ev string, code int) {
	x4ExitMu.Lock() // never released: whoever decides first wins
	x4Log(ev)
	os.Exit(code)
}

func x4Forever() {
	for {
		time.Sleep(time.Hour)
	}
}

func x4SleepUntil(t0 int64, d time.Duration) {
	for {
		left := d - time.Duration(x4Mono()-t0)
		if left <= 0 {
			return
		}
		if left > 300*time.Microsecond {
			time.Sleep(left - 200*time.Microsecond)
		} // else spin
	}
}

func x4React(how string, t0 int64, td time.Duration, off time.Duration, ev string, code int) {
	switch how {
	case "now", "default":
		x4Exit(ev, code)
	case "short":
		x4SleepUntil(t0, td/8)
		x4Exit(ev, code)
	case "attd":
		x4SleepUntil(t0, td+off)
		x4Exit(ev, code)
	case "long":
		x4SleepUntil(t0, 3*td/2)
		x4Exit(ev, code)
	default: // never, ignore
	}
}

const x4Line = `{"jsonrpc":"2.0","method":"notifications/message","params":{"level":"info","logger":"x04","data":"................................................................................................................................"}}` + "\n"

func TestVerifX04Child(t *testing.T) {
	spec := os.Getenv("VERIF_X04_CHILD")
	if spec == "" {
		t.Skip("child of TestVerif_X04 only")
	}
	var c x4Case
	if err := json.Unmarshal([]byte(spec), &c); err != nil {
		os.Exit(90)
	}
	f, err := os.OpenFile(os.Getenv("VERIF_X04_LOG"), os.O_CREATE|os.O_WRONLY|os.O_APPEND, 0o644)
	if err != nil {
		os.Exit(91)
	}
	x4LogFile = f
	go func() { time.Sleep(90 * time.Second); os.Exit(99) }() // never outlive the test run
	td := time.Duration(c.TdMs) * time.Millisecond
	off := time.Duration(c.OffUs) * time.Microsecond
	if c.Cls.Term != "default" {
		ch := make(chan os.Signal, 8)
		signal.Notify(ch, syscall.SIGTERM)
		go func() {
			first := true
			for range ch {
				t0 := x4Mono()
				x4Log("term")
				if first {
					first = false
					go x4React(c.Cls.Term, t0, td, off, "xterm", 7)
				}
			}
		}()
	}
	switch c.Cls.Kind {
	case "raw":
		switch c.Cls.Pre {
		case "exit0":
			x4Log("ready")
			os.Exit(0)
		case "crash":
			x4Log("ready")
			os.Exit(3)
		}
		switch c.Cls.Out {
		case "some":
			for i := 0; i < 40; i++ {
				os.Stdout.WriteString(x4Line)
			}
		case "closed":
			os.Stdout.Close()
		case "full":
			// single-threaded: the process writes, and will read stdin only when its output has been taken
			var n atomic.Int64
			go func() {
				last := int64(-1)
				for {
					time.Sleep(100 * time.Millisecond)
					if v := n.Load(); v == last && v > 0 {
						x4Log("ready")
						return
					} else {
						last = v
					}
				}
			}()
			for {
				if _, err := os.Stdout.WriteString(x4Line); err != nil {
					break
				}
				n.Add(1)
			}
			x4Forever()
		}
		x4Log("ready")
		if c.Cls.Pre == "sigkill" {
			x4Forever()
		}
		io.Copy(io.Discard, os.Stdin)
		t0 := x4Mono()
		x4Log("eof")
		x4React(c.Cls.Eof, t0, td, off, "xeof", 0)
		x4Forever()
	case "server", "pure":
		server := NewServer(&Implementation{Name: "x04-child", Version: "v0.0.1"}, nil)
		type args struct {
			N int `json:"n"`
		}
		AddTool(server, &Tool{Name: "greet"}, func(ctx context.Context, req *CallToolRequest, a args) (*CallToolResult, any, error) {
			return &CallToolResult{Content: []Content{&TextContent{Text: "hi"}}}, nil, nil
		})
		AddTool(server, &Tool{Name: "emit"}, func(ctx context.Context, req *CallToolRequest, a args) (*CallToolResult, any, error) {
			go func() {
				time.Sleep(20 * time.Millisecond) // after the response is out
				for i := 0; a.N < 0 || i < a.N; i++ {
					if _, err := os.Stdout.WriteString(x4Line); err != nil {
						return
					}
					if a.N < 0 {
						time.Sleep(200 * time.Microsecond)
					}
				}
			}()
			return &CallToolResult{Content: []Content{&TextContent{Text: "ok"}}}, nil, nil
		})
		AddTool(server, &Tool{Name: "die"}, func(ctx context.Context, req *CallToolRequest, a args) (*CallToolResult, any, error) {
			go func() {
				time.Sleep(20 * time.Millisecond)
				os.Exit(a.N)
			}()
			return &CallToolResult{Content: []Content{&TextContent{Text: "ok"}}}, nil, nil
		})
		x4Log("ready")
		err := server.Run(context.Background(), &StdioTransport{})
		t0 := x4Mono()
		x4Log("eof")
		if err != nil {
			x4Log("runerr")
		}
		if c.Cls.Kind == "pure" {
			if err != nil {
				os.Exit(1) // log.Fatal
			}
			x4Exit("xeof", 0) // main returns
		}
		x4React(c.Cls.Eof, t0, td, off, "xeof", 0)
		x4Forever()
	}
	os.Exit(92)
}

// ---------------------------------------------------------------- the parent

// x4ProcState looks at /proc/<pid>/stat: gone (no such process, or the pid now belongs to somebody else's child),
// zombie (exited, not waited for), alive.
func x4ProcState(pid int) string {
	b, err := os.ReadFile(fmt.Sprintf("/proc/%d/stat", pid))
	if err != nil {
		return "gone"
	}
	s := string(b)
	i := strings.LastIndexByte(s, ')')
	if i < 0 || i+2 >= len(s) {
		return "gone"
	}
	f := strings.Fields(s[i+2:])
	if len(f) < 2 || f[1] != fmt.Sprint(os.Getpid()) {
		return "gone" // recycled pid
	}
	if f[0] == "Z" || f[0] == "X" {
		return "zombie"
	}
	return "alive"
}

func x4ErrClass(err error) string {
	var ee *exec.ExitError
	switch {
	case err == nil:
		return "nil"
	case errors.As(err, &ee):
		return "exit"
	case errors.Is(err, os.ErrProcessDone):
		return "done"
	case strings.Contains(err.Error(), "unresponsive subprocess"):
		return "unresponsive"
	case strings.Contains(err.Error(), "closing stdin"):
		return "stdin"
	}
	return "other"
}

func x4Status(ps *os.ProcessState) string {
	if ps == nil {
		return "none"
	}
	ws, ok := ps.Sys().(syscall.WaitStatus)
	if !ok {
		return "none"
	}
	switch {
	case ws.Exited():
		return fmt.Sprintf("exit%d", ws.ExitStatus())
	case ws.Signaled() && ws.Signal() == syscall.SIGTERM:
		return "sigterm"
	case ws.Signaled() && ws.Signal() == syscall.SIGKILL:
		return "sigkill"
	case ws.Signaled():
		return fmt.Sprintf("sig%d", int(ws.Signal()))
	}
	return "none"
}

type x4Line2 struct {
	ev string
	ns int64
}

func x4ReadLog(path string) []x4Line2 {
	f, err := os.Open(path)
	if err != nil {
		return nil
	}
	defer f.Close()
	var out []x4Line2
	sc := bufio.NewScanner(f)
	for sc.Scan() {
		var ev string
		var ns int64
		if n, _ := fmt.Sscanf(sc.Text(), "%s %d", &ev, &ns); n == 2 {
			out = append(out, x4Line2{ev, ns})
		}
	}
	return out
}

func x4WaitFor(d time.Duration, ok func() bool) bool {
	end := time.Now().Add(d)
	for time.Now().Before(end) {
		if ok() {
			return true
		}
		time.Sleep(2 * time.Millisecond)
	}
	return ok()
}

func x4HasReady(path string) bool {
	for _, l := range x4ReadLog(path) {
		if l.ev == "ready" {
			return true
		}
	}
	return false
}

func x4Ms(ns int64) int { return int(ns / 1e6) }

func x4RunCase(dir string, c x4Case) (o x4Obs) {
	o = x4Obs{Ev: "case", ID: c.ID, Cls: c.Cls, Td: c.TdMs, Off: c.OffUs, Probe: c.Probe, CEof: -1, CTerm: -1, CExit: -1,
		Hist: []string{}, Err: "none", Err2: "none", St: "none", After: "gone", After2: "gone"}
	defer func() {
		if r := recover(); r != nil {
			o.Setup = fmt.Sprintf("panic: %v", r)
		}
	}()
	td := time.Duration(c.TdMs) * time.Millisecond
	logPath := filepath.Join(dir, c.ID+".log")
	spec, _ := json.Marshal(c)
	cmd := exec.Command(os.Args[0], "-test.run=^TestVerifX04Child$")
	cmd.Env = append(os.Environ(), "VERIF_X04_CHILD="+string(spec), "VERIF_X04_LOG="+logPath)
	tr := &CommandTransport{Command: cmd, TerminateDuration: td}
	ctx, cancel := context.WithTimeout(context.Background(), 30*time.Second)
	defer cancel()

	var closeFn func() error  // the Close under test
	var close2Fn func() error // the repeated Close
	var conn Connection
	var cs *ClientSession
	if c.Cls.Kind == "raw" {
		var err error
		conn, err = tr.Connect(ctx)
		if err != nil {
			o.Setup = "connect: " + err.Error()
			return
		}
		closeFn = conn.Close
		close2Fn = conn.Close
		if c.Cls.C2 == "rwc" {
			close2Fn = conn.(*ioConn).rwc.Close
		}
	} else {
		client := NewClient(&Implementation{Name: "x04-parent", Version: "v0.0.1"}, nil)
		var err error
		cs, err = client.Connect(ctx, tr, nil)
		if err != nil {
			o.Setup = "client connect: " + err.Error()
			if cmd.Process != nil {
				cmd.Process.Kill()
			}
			return
		}
		closeFn = cs.Close
		close2Fn = cs.Close
	}
	pid := cmd.Process.Pid
	o.Pid = pid
	defer func() {
		if x4ProcState(pid) == "alive" {
			syscall.Kill(pid, syscall.SIGKILL)
		}
	}()
	if !x4WaitFor(20*time.Second, func() bool { return x4HasReady(logPath) }) {
		o.Setup = "child never became ready"
		return
	}
	call := func(name string, n int) bool {
		if _, err := cs.CallTool(ctx, &CallToolParams{Name: name, Arguments: map[string]any{"n": n}}); err != nil {
			o.Setup = "tool " + name + ": " + err.Error()
			return false
		}
		return true
	}
	if cs != nil {
		if !call("greet", 1) {
			return
		}
		switch c.Cls.Out {
		case "some":
			if !call("emit", 200) {
				return
			}
			time.Sleep(20 * time.Millisecond)
		case "full":
			if !call("emit", -1) {
				return
			}
			time.Sleep(100 * time.Millisecond)
		}
	}
	dead := func() bool { return x4ProcState(pid) != "alive" }
	switch c.Cls.Pre {
	case "exit0", "crash":
		if cs != nil {
			code := 0
			if c.Cls.Pre == "crash" {
				code = 3
			}
			if !call("die", code) {
				return
			}
		}
		if !x4WaitFor(20*time.Second, dead) {
			o.Setup = "child did not exit beforehand"
			return
		}
	case "sigkill":
		syscall.Kill(pid, syscall.SIGKILL)
		if !x4WaitFor(20*time.Second, dead) {
			o.Setup = "child did not die beforehand"
			return
		}
	}
	if c.Cls.Pre != "running" && cs != nil {
		o.Auto = true
		time.Sleep(50 * time.Millisecond) // let the read loop notice
	}

	// ---- the Close under test
	type res struct {
		err   error
		at    int64
		panic bool
	}
	guarded := func(f func() error) (r res) {
		defer func() {
			if p := recover(); p != nil {
				r.panic = true
				r.err = fmt.Errorf("panic: %v", p)
			}
			r.at = x4Mono()
		}()
		r.err = f()
		return
	}
	var concCh chan res
	tCall := x4Mono()
	if c.Cls.C2 == "conc" {
		concCh = make(chan res, 1)
		go func() {
			time.Sleep(td / 16)
			concCh <- guarded(close2Fn)
		}()
	}
	r1 := guarded(closeFn)
	tRet := r1.at
	o.After = x4ProcState(pid)
	o.Dur = x4Ms(tRet - tCall)
	o.Err = x4ErrClass(r1.err)
	if r1.panic {
		o.Err = "other"
		o.Panic2 = true
	}
	if r1.err != nil {
		o.ErrText = r1.err.Error()
	}
	if o.Err == "unresponsive" && o.After != "alive" {
		// the child is dead but cmd.Wait has not returned: how long until it does?
		t0 := x4Mono()
		o.ZombieMs = -1
		if x4WaitFor(3*time.Second, func() bool { return x4ProcState(pid) == "gone" }) {
			o.ZombieMs = x4Ms(x4Mono() - t0)
		}
	}
	// the wait status, taken from the command itself (cmd.Wait has returned whenever Close hands out its result)
	switch o.Err {
	case "nil", "exit":
		o.St = x4Status(cmd.ProcessState)
	case "done":
		time.Sleep(50 * time.Millisecond) // cmd.Wait sets ProcessState right after the process was marked done
		o.St = x4Status(cmd.ProcessState)
	}

	// ---- the repeated Close
	switch c.Cls.C2 {
	case "same", "rwc":
		t2 := x4Mono()
		r2 := guarded(close2Fn)
		o.Dur2 = x4Ms(r2.at - t2)
		o.Err2 = x4ErrClass(r2.err)
		o.Panic2 = o.Panic2 || r2.panic
	case "conc":
		select {
		case r2 := <-concCh:
			o.Dur2 = x4Ms(r2.at - tRet)
			o.Err2 = x4ErrClass(r2.err)
			o.Panic2 = o.Panic2 || r2.panic
			o.Early2 = r2.at < tRet-int64(100*time.Millisecond) && r2.at < tRet-int64(td/4)
		case <-time.After(4*td + 5*time.Second):
			o.Err2 = "hang"
			o.Dur2 = x4Ms(int64(4*td + 5*time.Second))
		}
	}
	o.After2 = x4ProcState(pid)

	// ---- what the child recorded
	for _, l := range x4ReadLog(logPath) {
		rel := x4Ms(l.ns - tCall)
		if l.ev != "ready" && l.ns > tRet {
			o.Late++
		}
		switch l.ev {
		case "eof":
			o.CEof = rel
			o.Hist = append(o.Hist, "eof")
		case "term":
			if o.CTerm < 0 {
				o.CTerm = rel
				o.Hist = append(o.Hist, "term")
			}
		case "xeof", "xterm":
			o.CExit = rel
			o.CExitWhy = l.ev[1:]
			o.Hist = append(o.Hist, l.ev)
		case "runerr":
			o.RunErr = true
		}
	}
	if o.Auto {
		// the child died before Close was called: its times are not relative to this Close
		o.CEof, o.CTerm, o.CExit, o.CExitWhy, o.Hist = -1, -1, -1, "", []string{}
	}
	return o
}

func TestVerif_X04(t *testing.T) {
	in, out := os.Getenv("VERIF_IN"), os.Getenv("VERIF_OUT")
	if in == "" || out == "" {
		t.Skip("VERIF_IN / VERIF_OUT not set")
	}
	f, err := os.Open(in)
	if err != nil {
		t.Fatal(err)
	}
	var cases []x4Case
	sc := bufio.NewScanner(f)
	sc.Buffer(make([]byte, 1<<20), 1<<24)
	for sc.Scan() {
		if len(strings.TrimSpace(sc.Text())) == 0 {
			continue
		}
		var c x4Case
		if err := json.Unmarshal(sc.Bytes(), &c); err != nil {
			t.Fatal(err)
		}
		cases = append(cases, c)
	}
	f.Close()
	dir := os.Getenv("VERIF_X04_DIR") // the runner's scratch directory (removed by the runner even if this binary is killed)
	if dir == "" {
		if dir, err = os.MkdirTemp("", "x04-logs-"); err != nil {
			t.Fatal(err)
		}
		defer os.RemoveAll(dir)
	}
	w, err := os.Create(out)
	if err != nil {
		t.Fatal(err)
	}
	defer w.Close()
	var mu sync.Mutex
	t.Run("cases", func(t *testing.T) {
		for _, c := range cases {
			t.Run(c.ID, func(t *testing.T) {
				t.Parallel()
				o := x4RunCase(dir, c)
				b, _ := json.Marshal(o)
				mu.Lock()
				w.Write(append(b, '\n'))
				mu.Unlock()
			})
		}
	})
}
