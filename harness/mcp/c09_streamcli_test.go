//go:build verif

// Conformance harness for property C09 (streamable client under stream cuts), pattern P2.
//
// Reads scenarios (VERIF_IN, one JSON object per line) and runs each on the real code:
//
//	level "abs"   a TLC-generated behaviour of spec/StreamCli.tla: per response body a cut
//	              descriptor (complete elements n, position class, termination kind, alias of a
//	              truncated id), per reconnect the answers the attempts get
//	level "byte"  every byte offset of the first body of a reference stream x {read error, clean
//	              EOF}, each as a single cut followed by successful reconnects
//	level "scan"  the same offsets fed to scanEvents alone (function level)
//
// Levels abs and byte drive a REAL mcp.Client over a REAL StreamableClientTransport inside a
// testing/synctest bubble (back-off timers are virtual; a hang shows as a call still pending
// after one virtual hour).  The transport's HTTPClient uses a scripted http.RoundTripper (no
// sockets): it answers initialize with JSON, serves the tools/call POST (or the standalone
// GET) with an SSE body that ends EXACTLY at the chosen byte with the chosen termination, and
// answers every reconnect GET as scripted: ok (the events after the cursor the REAL client
// asked for), transport error, or the HTTP status the script names ("500", "429", "404", ...:
// the statuses are values of the model, not one representative per class); an id the server
// never issued gets 400; "<status>:<id>" is that status with a JSON-RPC error response as body
// (Content-Type application/json; id own = the pending call's id, other = an id no call has,
// null), the way a server that speaks JSON-RPC refuses a request.  A "stuck" server (cfg.tail) keeps ending every body at offset 0 once
// its scripted cuts are used up and the last body ended at offset 0 - for ever, so a client
// that does not give up is seen retrying until the virtual hour is over.
//
// A body may open with one complete data-less event that carries the SSE `retry:` field (cut
// field "rt": bare = the field alone, named = `event: close` + retry as the SDK's server writes
// it when it closes a stream on purpose, idd = the same with the id of the position the body
// starts after, i.e. the id the client resumed with).  It is not an element of the stream and
// brings no new id across; a body cut at offset 0 that opens with one is "200 with retry only".
// The stuck server repeats it with every body.  Scenarios flagged "dflt" leave
// StreamableClientTransport.MaxRetries unset (the documented default, 5).
//
// Recorded per scenario (VERIF_OUT) for the TLA+ monitor StreamCliMon: the bodies served (start,
// cut, which ids had been transmitted completely), every reconnect (Last-Event-ID, answers),
// the messages returned by the connection's Read, the notifications the session's handler saw,
// the call's result or error and the virtual time it returned.
//
// Unexported identifiers used (package mcp), kept together in the section "in-package seam":
// scanEvents, clientConnection, clientSessionState.
package mcp

import (
	"bufio"
	"bytes"
	"context"
	"encoding/json"
	"errors"
	"fmt"
	"io"
	"math/rand/v2"
	"net/http"
	"os"
	"reflect"
	"strconv"
	"strings"
	"sync"
	"testing"
	"testing/synctest"
	"time"

	"github.com/modelcontextprotocol/go-sdk/jsonrpc"
)

const (
	c09None  = -1
	c09Bogus = -2
)

type c09Cfg struct {
	Kind   string `json:"kind"`   // post | sa
	Ids    string `json:"ids"`    // all | none
	Prime  string `json:"prime"`  // first | every | none
	Scheme string `json:"scheme"` // dec | nested
	M      int    `json:"M"`
	Mr     int    `json:"mr"`
	Tail   string `json:"tail,omitempty"` // good (default) | stuck
}

// c09MaxRec bounds what is recorded of one scenario: a client that never gives up on a stuck
// server makes thousands of reconnects in the virtual hour; bodies and reconnects beyond the
// bound are only counted (More).
const c09MaxRec = 64

type c09Cut struct {
	N   int    `json:"n"`
	Cls string `json:"cls"`
	Knd string `json:"knd"`
	Al  int    `json:"al"`
	Off *int   `json:"off,omitempty"` // explicit byte offset inside the body (byte level, replays)
	Rt  string `json:"rt,omitempty"`  // the `retry:` event the body opens with: none (default) | bare | named | idd
}

type c09Case struct {
	ID    string     `json:"id"`
	Level string     `json:"level"`
	Cfg   c09Cfg     `json:"cfg"`
	Cuts  []c09Cut   `json:"cuts"`
	Rc    [][]string `json:"rc"`
	Lay   string     `json:"lay,omitempty"` // layout key (stream id, paddings); defaults to ID
	Dflt  bool       `json:"dflt,omitempty"` // leave MaxRetries unset: the documented default (cfg.mr must be 5)
}

type c09BodyRec struct {
	From   int    `json:"from"`
	Primed bool   `json:"primed"`
	N      int    `json:"n"`
	Cls    string `json:"cls"`
	Knd    string `json:"knd"`
	Al     int    `json:"al"`
	Rt     string `json:"rt"`
	C      int    `json:"c"`
	D      int    `json:"d"`
	Off    int    `json:"off"` // offset of the cut inside the stream's elements (the opening retry event not counted)
	Len    int    `json:"len"`
}

type c09Recon struct {
	Sent int      `json:"sent"`
	Raw  string   `json:"raw"`
	Outs []string `json:"outs"`
	At   int64    `json:"at"`
}

type c09Obs struct {
	ID      string       `json:"id"`
	Level   string       `json:"level"`
	Cfg     c09Cfg       `json:"cfg"`
	Kind    string       `json:"kind"`
	Ids     string       `json:"ids"`
	M       int          `json:"M"`
	Mr      int          `json:"mr"`
	Bodies  []c09BodyRec `json:"bodies"`
	Recon   []c09Recon   `json:"recon"`
	Rd      []int        `json:"rd"`
	Notes   []int        `json:"notes"`
	Outcome string       `json:"outcome"`
	Respok  bool         `json:"respok"`
	Ret     int64        `json:"ret"` // virtual microseconds until the call returned (-1: never)
	Err     string       `json:"err"`
	Synth   int          `json:"synth"` // error responses for the call returned by Read
	Exit    string       `json:"exit"`
	Div     bool         `json:"div"` // a scripted cut did not fit the body the client asked for
	More    int          `json:"more"` // bodies served beyond the c09MaxRec recorded ones
	Cuts    []c09Cut     `json:"cuts"`
	Rc      [][]string   `json:"rc"`
}

type c09Evt struct {
	Name string `json:"name"`
	ID   string `json:"id"`
	Data string `json:"data"`
}

type c09ScanObs struct {
	ID      string   `json:"id"`
	Level   string   `json:"level"`
	Cfg     c09Cfg   `json:"cfg"`
	N       int      `json:"n"`
	Cls     string   `json:"cls"`
	Knd     string   `json:"knd"`
	Al      int      `json:"al"`
	Off     int      `json:"off"`
	Truth   []c09Evt `json:"truth"`
	Yielded []c09Evt `json:"yielded"`
	Ended   string   `json:"ended"` // clean | readerr | malformed
}

// ---------------------------------------------------------------------------
// the logical stream and its wire form

type c09Elem struct {
	cur int // cursor carried as id (c09None: no id)
	msg int // message index (0: priming event)
}

type c09Stream struct {
	cfg    c09Cfg
	sid    string
	pad    []string // per message: filler that varies the payload length
	callID string   // JSON of the call's id (post)
}

func c09NewStream(cfg c09Cfg, rng *rand.Rand) *c09Stream {
	const al = "ABCDEFGHJKLMNPQRSTUVWXYZ23456789"
	b := make([]byte, 4+rng.IntN(5))
	for i := range b {
		b[i] = al[rng.IntN(len(al))]
	}
	s := &c09Stream{cfg: cfg, sid: string(b), pad: make([]string, cfg.M+1), callID: "2"}
	for i := range s.pad {
		s.pad[i] = strings.Repeat("x", rng.IntN(9))
	}
	return s
}

func (s *c09Stream) id(k int) string {
	if s.cfg.Scheme == "nested" && k >= 1 {
		var b strings.Builder
		for i := 1; i <= k; i++ {
			b.WriteString(strconv.Itoa(i % 10))
		}
		return s.sid + "_" + b.String()
	}
	return s.sid + "_" + strconv.Itoa(k)
}

// cursorOf maps a Last-Event-ID header value back to a cursor.
func (s *c09Stream) cursorOf(raw string, present bool) int {
	if !present {
		return c09None
	}
	for k := 0; k <= s.cfg.M; k++ {
		if raw == s.id(k) {
			return k
		}
	}
	return c09Bogus
}

func (s *c09Stream) isResp(k int) bool { return s.cfg.Kind == "post" && k == s.cfg.M }

func (s *c09Stream) noteParams(k int) string {
	return fmt.Sprintf(`{"level":"info","logger":"c09%s","data":"m%d"}`, s.pad[k], k)
}
func (s *c09Stream) respText(k int) string { return fmt.Sprintf("resp-%s-%d%s", s.sid, k, s.pad[k]) }
func (s *c09Stream) respResult(k int) string {
	return fmt.Sprintf(`{"content":[{"type":"text","text":%q}]}`, s.respText(k))
}

func (s *c09Stream) payload(k int) string {
	if s.isResp(k) {
		return fmt.Sprintf(`{"jsonrpc":"2.0","id":%s,"result":%s}`, s.callID, s.respResult(k))
	}
	return fmt.Sprintf(`{"jsonrpc":"2.0","method":"notifications/message","params":%s}`, s.noteParams(k))
}

func (s *c09Stream) evt(e c09Elem) c09Evt {
	ev := c09Evt{Name: "message"}
	if e.msg == 0 {
		ev.Name = "prime"
	} else {
		ev.Data = s.payload(e.msg)
	}
	if e.cur != c09None {
		ev.ID = s.id(e.cur)
	}
	return ev
}

// wire form as mcp.writeEvent produces it: event, id, data, blank line
func (s *c09Stream) bytesOf(e c09Elem) []byte {
	ev := s.evt(e)
	var b bytes.Buffer
	fmt.Fprintf(&b, "event: %s\n", ev.Name)
	if ev.ID != "" {
		fmt.Fprintf(&b, "id: %s\n", ev.ID)
	}
	fmt.Fprintf(&b, "data: %s\n\n", ev.Data)
	return b.Bytes()
}

// retryHead is the wire form of the data-less event carrying the SSE retry field that a body
// may open with (ms: the delay the server asks for).
func (s *c09Stream) retryHead(rt string, from int, ms int) []byte {
	switch rt {
	case "bare":
		return []byte(fmt.Sprintf("retry: %d\n\n", ms))
	case "named": // mcp.writeEvent(Event{Name: "close", Retry: ..})
		return []byte(fmt.Sprintf("event: close\nretry: %d\ndata: \n\n", ms))
	case "idd":
		return []byte(fmt.Sprintf("event: close\nid: %s\nretry: %d\ndata: \n\n", s.id(from), ms))
	}
	return nil
}

func (s *c09Stream) elems(from int, primed bool) []c09Elem {
	var es []c09Elem
	if primed {
		es = append(es, c09Elem{cur: from, msg: 0})
	}
	for k := from + 1; k <= s.cfg.M; k++ {
		cur := c09None
		if s.cfg.Ids == "all" {
			cur = k
		}
		es = append(es, c09Elem{cur: cur, msg: k})
	}
	return es
}

// classify says in which position class a cut after p bytes of element e falls (0 < p < len).
func (s *c09Stream) classify(e c09Elem, p int) (cls string, al int) {
	ev := s.evt(e)
	part := s.bytesOf(e)[:p]
	lines := bytes.Split(part, []byte("\n"))
	tail := lines[len(lines)-1] // the unterminated rest ("" when the cut is right after a newline)
	if len(tail) > 0 && !bytes.Contains(tail, []byte(":")) {
		return "field", c09None
	}
	var id, data string
	for _, ln := range lines {
		k, v, ok := bytes.Cut(ln, []byte(":"))
		if !ok {
			continue
		}
		switch string(k) {
		case "id":
			id = strings.TrimSpace(string(v))
		case "data":
			data = strings.TrimSpace(string(v))
		}
	}
	switch {
	case data != "" && data == ev.Data:
		return "datafull", c09None
	case data != "":
		return "data", c09None
	case id != "" && id == ev.ID && e.msg == 0:
		return "datafull", c09None
	case id != "" && id == ev.ID:
		return "idfull", c09None
	case id != "":
		return "id", s.cursorOf(id, true)
	}
	return "name", c09None
}

// locate turns a byte offset of a body into a cut descriptor.
func (s *c09Stream) locate(es []c09Elem, off int) (n int, cls string, al int) {
	pos := 0
	for i, e := range es {
		l := len(s.bytesOf(e))
		if off == pos {
			return i, "bnd", c09None
		}
		if off < pos+l {
			cls, al = s.classify(e, off-pos)
			return i, cls, al
		}
		pos += l
	}
	return len(es), "bnd", c09None
}

// offsetOf picks a byte offset of the body for an abstract cut; ok=false if the body has none.
func (s *c09Stream) offsetOf(es []c09Elem, cut c09Cut, rng *rand.Rand) (int, bool) {
	pos := 0
	for i := 0; i < cut.N && i < len(es); i++ {
		pos += len(s.bytesOf(es[i]))
	}
	if cut.Cls == "bnd" {
		return pos, cut.N <= len(es)
	}
	if cut.N >= len(es) {
		return pos, false
	}
	e := es[cut.N]
	var cand []int
	for p := 1; p < len(s.bytesOf(e)); p++ {
		if c, a := s.classify(e, p); c == cut.Cls && (c != "id" || a == cut.Al) {
			cand = append(cand, p)
		}
	}
	if len(cand) == 0 {
		return pos, false
	}
	return pos + cand[rng.IntN(len(cand))], true
}

// ---------------------------------------------------------------------------
// scripted HTTP bodies

type c09Body struct {
	data  []byte
	pos   int
	term  string // err | eof | hold
	chunk int
	glue  bool // deliver the termination together with the last bytes
	ctx   context.Context
	once  sync.Once
	shut  chan struct{}
}

func (b *c09Body) Read(p []byte) (int, error) {
	// Let everything parsed so far be consumed before more input (or the end) arrives: in a
	// bubble, a sleep returns only once every other goroutine is durably blocked.
	time.Sleep(time.Microsecond)
	if b.pos < len(b.data) {
		n := min(len(p), b.chunk, len(b.data)-b.pos)
		copy(p, b.data[b.pos:b.pos+n])
		b.pos += n
		if b.pos == len(b.data) && b.glue && b.term != "hold" {
			return n, b.termErr()
		}
		return n, nil
	}
	if b.term == "hold" {
		select {
		case <-b.ctx.Done():
			return 0, b.ctx.Err()
		case <-b.shut:
			return 0, errors.New("c09: body closed")
		}
	}
	return 0, b.termErr()
}

func (b *c09Body) termErr() error {
	if b.term == "err" {
		return io.ErrUnexpectedEOF
	}
	return io.EOF
}

func (b *c09Body) Close() error {
	b.once.Do(func() { close(b.shut) })
	return nil
}

// ---------------------------------------------------------------------------
// the scripted server (http.RoundTripper) and the recorder

type c09Rec struct {
	mu      sync.Mutex
	t0      time.Time
	st      *c09Stream
	cs      c09Case
	rng     *rand.Rand
	obs     *c09Obs
	wire    int
	started bool // the stream's first body has been served
	curOuts []string
	curSent int
	curRaw  string
	curAt   int64
	open    bool // a reconnect group is open (attempts made, not yet closed by the next body)
	gone    bool // the server has answered 404 once
	lastC     int    // cursor of the last id'd event transmitted completely, over all bodies so far
	lastEmpty string // termination of the last body if it ended at offset 0 ("" otherwise)
	lastRt    string // the retry event the last body opened with
}

func (r *c09Rec) us() int64 { return int64(time.Since(r.t0) / time.Microsecond) }

func (r *c09Rec) closeGroup() {
	if r.open {
		if len(r.obs.Recon) < c09MaxRec {
			r.obs.Recon = append(r.obs.Recon, c09Recon{Sent: r.curSent, Raw: r.curRaw, Outs: r.curOuts, At: r.curAt})
		}
		r.open = false
		r.curOuts = nil
	}
}

func c09JSONResp(req *http.Request, status int, body string, hdr map[string]string) *http.Response {
	h := http.Header{}
	if body != "" {
		h.Set("Content-Type", "application/json")
	}
	for k, v := range hdr {
		h.Set(k, v)
	}
	return &http.Response{Status: strconv.Itoa(status) + " " + http.StatusText(status), StatusCode: status,
		Proto: "HTTP/1.1", ProtoMajor: 1, ProtoMinor: 1, Header: h, Request: req,
		Body: io.NopCloser(strings.NewReader(body)), ContentLength: int64(len(body))}
}

// serveBody builds the next SSE body of the stream, starting after message `from`.
func (r *c09Rec) serveBody(req *http.Request, from int) *http.Response {
	st, o := r.st, r.obs
	i := len(o.Bodies) + o.More // 0-based index of this body
	primed := st.cfg.Prime == "every" || (st.cfg.Prime == "first" && i == 0)
	es := st.elems(from, primed)
	var full []byte
	for _, e := range es {
		full = append(full, st.bytesOf(e)...)
	}
	ended := st.cfg.Kind == "post" && from >= st.cfg.M
	rec := c09BodyRec{From: from, Primed: primed, Cls: "none", Knd: "none", Al: c09None, Rt: "none", Len: len(full)}
	// a stuck server: once the script is used up, if the last body ended at offset 0 so does every later one
	stuck := i >= len(r.cs.Cuts) && !ended && st.cfg.Tail == "stuck" && r.lastEmpty != ""
	switch {
	case i < len(r.cs.Cuts) && r.cs.Cuts[i].Rt != "" && !ended:
		rec.Rt = r.cs.Cuts[i].Rt
	case stuck:
		rec.Rt = r.lastRt // a stuck server says the same thing every time
	}
	if rec.Rt == "idd" && st.cfg.Ids != "all" {
		r.obs.Div = true
		rec.Rt = "named"
	}
	head := st.retryHead(rec.Rt, from, 200+r.rng.IntN(1800))
	body := &c09Body{ctx: req.Context(), shut: make(chan struct{}), chunk: 1 + r.rng.IntN(64), glue: r.rng.IntN(2) == 0}
	if r.rng.IntN(3) == 0 {
		body.chunk = 4096
	}
	n := len(es)
	switch {
	case i < len(r.cs.Cuts) && r.cs.Cuts[i].Cls != "none":
		cut := r.cs.Cuts[i]
		off, ok := 0, false
		if cut.Off != nil {
			off, ok = *cut.Off, *cut.Off <= len(full)
		} else {
			off, ok = st.offsetOf(es, cut, r.rng)
		}
		if !ok {
			o.Div = true
			off = min(off, len(full))
		}
		n, rec.Cls, rec.Al = st.locate(es, off)
		rec.N, rec.Knd, rec.Off = n, cut.Knd, off
		body.data, body.term = append(head, full[:off]...), cut.Knd
	case ended:
		// nothing left to send on a POST stream: the server closes
		rec.N, rec.Cls, rec.Knd, rec.Off = n, "bnd", "eof", len(full)
		body.data, body.term = full, "eof"
	case stuck:
		// a stuck server: the last body ended at offset 0, so does this one (and every later one)
		n = 0
		rec.N, rec.Cls, rec.Knd, rec.Off = 0, "bnd", r.lastEmpty, 0
		body.data, body.term = head, r.lastEmpty
	case st.cfg.Kind == "post":
		rec.Off = len(full)
		body.data, body.term = append(head, full...), "eof"
	default:
		rec.Off = len(full)
		body.data, body.term = append(head, full...), "hold"
	}
	// ground truth: which ids have been transmitted completely
	c := r.lastC
	if i == 0 {
		c = c09None
	}
	if rec.Rt == "idd" && from > c {
		c = from // the opening event repeats the id of the position the body starts after
	}
	for _, e := range es[:n] {
		if e.cur > c {
			c = e.cur
		}
	}
	d := c
	if rec.Cls == "datafull" && rec.Knd == "eof" && es[n].cur > d {
		d = es[n].cur // content complete at a clean end of the body, only the blank line is missing
	}
	rec.C, rec.D = c, d
	touched := n
	if rec.Cls != "none" && rec.Cls != "bnd" {
		touched = n + 1
	}
	if touched > 0 && es[touched-1].msg > r.wire {
		r.wire = es[touched-1].msg
	}
	r.lastC, r.lastEmpty, r.lastRt = c, "", rec.Rt
	if rec.Knd != "none" && rec.Cls == "bnd" && rec.N == 0 {
		r.lastEmpty = rec.Knd
	}
	if len(o.Bodies) < c09MaxRec {
		o.Bodies = append(o.Bodies, rec)
	} else {
		o.More++
	}
	r.started = true
	h := http.Header{}
	h.Set("Content-Type", "text/event-stream")
	h.Set("Cache-Control", "no-cache")
	return &http.Response{Status: "200 OK", StatusCode: 200, Proto: "HTTP/1.1", ProtoMajor: 1, ProtoMinor: 1,
		Header: h, Request: req, Body: body, ContentLength: -1}
}

func (r *c09Rec) RoundTrip(req *http.Request) (*http.Response, error) {
	r.mu.Lock()
	defer r.mu.Unlock()
	st := r.st
	switch req.Method {
	case http.MethodDelete:
		return c09JSONResp(req, http.StatusNoContent, "", nil), nil
	case http.MethodPost:
		raw, _ := io.ReadAll(req.Body)
		req.Body.Close()
		var m struct {
			ID     json.RawMessage `json:"id"`
			Method string          `json:"method"`
		}
		_ = json.Unmarshal(raw, &m)
		switch {
		case m.Method == "initialize":
			res := `{"jsonrpc":"2.0","id":` + string(m.ID) + `,"result":{"protocolVersion":"2025-11-25","capabilities":{"tools":{},"logging":{}},"serverInfo":{"name":"c09","version":"1"}}}`
			return c09JSONResp(req, 200, res, map[string]string{"Mcp-Session-Id": "c09-" + st.sid}), nil
		case m.Method == "tools/call" && st.cfg.Kind == "post" && !r.started:
			if len(m.ID) != len(st.callID) {
				r.obs.Div = true // byte offsets were computed for a one-digit call id
			}
			st.callID = string(m.ID)
			return r.serveBody(req, 0), nil
		case len(m.ID) > 0 && m.Method != "":
			return c09JSONResp(req, 200, `{"jsonrpc":"2.0","id":`+string(m.ID)+`,"result":{}}`, nil), nil
		default:
			return c09JSONResp(req, http.StatusAccepted, "", nil), nil
		}
	case http.MethodGet:
		vals, present := req.Header["Last-Event-Id"]
		raw := ""
		if present && len(vals) > 0 {
			raw = vals[0]
		}
		if !r.started {
			if st.cfg.Kind != "sa" {
				return c09JSONResp(req, http.StatusMethodNotAllowed, "", nil), nil
			}
			return r.serveBody(req, 0), nil // the standalone stream's first body
		}
		// a reconnect attempt
		cur := st.cursorOf(raw, present)
		gi := len(r.obs.Bodies) + r.obs.More - 1 // reconnect gi follows body gi (0-based)
		if !r.open {
			r.open, r.curAt = true, r.us()
		}
		r.curSent, r.curRaw = cur, raw
		ai := len(r.curOuts)
		ans := "ok"
		if gi < len(r.cs.Rc) && ai < len(r.cs.Rc[gi]) {
			ans = r.cs.Rc[gi][ai]
		}
		if r.gone {
			ans = "404"
		} else if cur == c09Bogus && ans != "terr" {
			ans = "400"
		}
		r.curOuts = append(r.curOuts, ans)
		// All attempts made before the next body is served belong to the reconnect that follows the
		// last body, whatever they were answered.
		switch ans {
		case "terr":
			return nil, errors.New("c09: connection refused")
		case "404":
			r.gone = true // a terminated session stays terminated
			return c09JSONResp(req, http.StatusNotFound, "", nil), nil
		case "ok":
		default:
			if status, idk, ok := strings.Cut(ans, ":"); ok {
				// a non-2xx status whose body is a JSON-RPC error response: "409:own", "400:null", ...
				code, err := strconv.Atoi(status)
				id := map[string]string{"own": st.callID, "other": "999983", "null": "null"}[idk]
				if err != nil || code < 400 || code > 599 || id == "" {
					panic("c09: bad scripted answer " + ans)
				}
				if code == http.StatusNotFound {
					r.gone = true
				}
				return c09JSONResp(req, code, `{"jsonrpc":"2.0","id":`+id+`,"error":{"code":-32600,"message":"c09: this stream cannot be resumed"}}`, nil), nil
			}
			// an HTTP status as the script names it: "500", "429", "403", ...
			code, err := strconv.Atoi(ans)
			if err != nil || code < 400 || code > 599 {
				panic("c09: bad scripted answer " + ans)
			}
			return c09JSONResp(req, code, "", nil), nil
		}
		r.closeGroup()
		from := cur
		if cur == c09None {
			from = r.wire
		}
		return r.serveBody(req, from), nil
	}
	return c09JSONResp(req, http.StatusMethodNotAllowed, "", nil), nil
}

func c09SameJSON(a, b string) bool {
	var x, y any
	if json.Unmarshal([]byte(a), &x) != nil || json.Unmarshal([]byte(b), &y) != nil {
		return false
	}
	return reflect.DeepEqual(x, y)
}

// indexOf identifies a message returned by Read: its index in the stream, 0 for an error
// response to the call, -1 for anything that is not exactly a message of the stream.
func (r *c09Rec) indexOf(msg jsonrpc.Message) int {
	st := r.st
	switch m := msg.(type) {
	case *jsonrpc.Request:
		if m.Method != "notifications/message" {
			return -1
		}
		var p struct {
			Data string `json:"data"`
		}
		if json.Unmarshal(m.Params, &p) != nil || !strings.HasPrefix(p.Data, "m") {
			return -1
		}
		k, err := strconv.Atoi(p.Data[1:])
		if err != nil || k < 1 || k > st.cfg.M || st.isResp(k) || !c09SameJSON(string(m.Params), st.noteParams(k)) {
			return -1
		}
		return k
	case *jsonrpc.Response:
		idj, _ := json.Marshal(m.ID.Raw())
		if st.cfg.Kind != "post" || string(idj) != st.callID {
			return -1
		}
		if m.Error != nil {
			return 0
		}
		if c09SameJSON(string(m.Result), st.respResult(st.cfg.M)) {
			return st.cfg.M
		}
		return -1
	}
	return -1
}

// ---------------------------------------------------------------------------
// in-package seam: the only uses of unexported identifiers

// c09Transport wraps the real transport so that the messages its connection hands to the
// session can be recorded; session updates are forwarded to the real connection.
type c09Transport struct {
	inner *StreamableClientTransport
	rec   *c09Rec
}

func (t *c09Transport) Connect(ctx context.Context) (Connection, error) {
	c, err := t.inner.Connect(ctx)
	if err != nil {
		return nil, err
	}
	return &c09Conn{Connection: c, rec: t.rec}, nil
}

type c09Conn struct {
	Connection
	rec *c09Rec
}

func (c *c09Conn) Read(ctx context.Context) (jsonrpc.Message, error) {
	msg, err := c.Connection.Read(ctx)
	if err == nil {
		c.rec.mu.Lock()
		if c.rec.started {
			switch k := c.rec.indexOf(msg); {
			case k == 0:
				c.rec.obs.Synth++
			default:
				c.rec.obs.Rd = append(c.rec.obs.Rd, k)
			}
		}
		c.rec.mu.Unlock()
	}
	return msg, err
}

func (c *c09Conn) sessionUpdated(s clientSessionState) {
	if cc, ok := c.Connection.(clientConnection); ok {
		cc.sessionUpdated(s)
	}
}

// c09Scan runs scanEvents over data followed by the given termination.
func c09Scan(data []byte, knd string) (evs []c09Evt, ended string) {
	body := &c09Body{data: data, term: knd, chunk: 4096, shut: make(chan struct{}), ctx: context.Background()}
	ended = "clean"
	for e, err := range scanEvents(c09NoSleep{body}) {
		if err != nil {
			ended = "readerr"
			if errors.Is(err, errMalformedEvent) {
				ended = "malformed"
			}
			break
		}
		evs = append(evs, c09Evt{Name: e.Name, ID: e.ID, Data: string(e.Data)})
	}
	return evs, ended
}

// ---------------------------------------------------------------------------

// c09NoSleep reads a c09Body outside a bubble (no settling pause needed).
type c09NoSleep struct{ b *c09Body }

func (n c09NoSleep) Read(p []byte) (int, error) {
	b := n.b
	if b.pos < len(b.data) {
		k := min(len(p), b.chunk, len(b.data)-b.pos)
		copy(p, b.data[b.pos:b.pos+k])
		b.pos += k
		return k, nil
	}
	return 0, b.termErr()
}

func c09Seed(seed uint64, id string) *rand.Rand {
	var h uint64 = 1469598103934665603
	for i := 0; i < len(id); i++ {
		h = (h ^ uint64(id[i])) * 1099511628211
	}
	return rand.New(rand.NewPCG(seed, h))
}

func c09LayKey(cs c09Case) string {
	if cs.Lay != "" {
		return "lay:" + cs.Lay
	}
	return "lay:" + cs.ID
}

func c09NewObs(cs c09Case) *c09Obs {
	o := &c09Obs{ID: cs.ID, Level: cs.Level, Cfg: cs.Cfg, Kind: cs.Cfg.Kind, Ids: cs.Cfg.Ids, M: cs.Cfg.M, Mr: cs.Cfg.Mr,
		Bodies: []c09BodyRec{}, Recon: []c09Recon{}, Rd: []int{}, Notes: []int{}, Outcome: "hang", Ret: -1, Exit: "clean",
		Cuts: cs.Cuts, Rc: cs.Rc}
	if o.Cuts == nil {
		o.Cuts = []c09Cut{}
	}
	if o.Rc == nil {
		o.Rc = [][]string{}
	}
	return o
}

// c09Scenario runs one scripted behaviour on a real client session.
func c09Scenario(t *testing.T, cs c09Case, seed uint64) (o *c09Obs) {
	o = c09NewObs(cs)
	rng := c09Seed(seed, cs.ID)
	defer func() {
		if p := recover(); p != nil {
			o.Exit = fmt.Sprint(p)
			if len(o.Exit) > 300 {
				o.Exit = o.Exit[:300]
			}
		}
	}()
	synctest.Test(t, func(t *testing.T) {
		st := c09NewStream(cs.Cfg, c09Seed(seed, c09LayKey(cs)))
		r := &c09Rec{t0: time.Now(), st: st, cs: cs, rng: rng, obs: o}
		mr := cs.Cfg.Mr
		if mr == 0 {
			mr = -1 // "To disable retries, use a negative number."
		}
		if cs.Dflt {
			if cs.Cfg.Mr != 5 {
				panic("c09: dflt scenario with mr != 5")
			}
			mr = 0 // "It defaults to 5."
		}
		tr := &StreamableClientTransport{Endpoint: "http://c09.invalid/mcp", HTTPClient: &http.Client{Transport: r},
			MaxRetries: mr, DisableStandaloneSSE: cs.Cfg.Kind != "sa"}
		client := NewClient(&Implementation{Name: "c09-client", Version: "1"}, &ClientOptions{
			LoggingMessageHandler: func(_ context.Context, req *LoggingMessageRequest) {
				k := -1
				if s, ok := req.Params.Data.(string); ok && strings.HasPrefix(s, "m") {
					if n, err := strconv.Atoi(s[1:]); err == nil && n >= 1 && n <= st.cfg.M && !st.isResp(n) &&
						string(req.Params.Level) == "info" && req.Params.Logger == "c09"+st.pad[n] {
						k = n
					}
				}
				r.mu.Lock()
				o.Notes = append(o.Notes, k)
				r.mu.Unlock()
			},
		})
		ctx := context.Background()
		sess, err := client.Connect(ctx, &c09Transport{inner: tr, rec: r}, &ClientSessionOptions{ProtocolVersion: "2025-11-25"})
		if err != nil {
			o.Exit = "connect: " + err.Error()
			return
		}
		waited := make(chan struct{})
		go func() { sess.Wait(); close(waited) }()
		if cs.Cfg.Kind == "post" {
			done := make(chan struct{})
			var res *CallToolResult
			var cerr error
			var ret int64
			go func() {
				res, cerr = sess.CallTool(ctx, &CallToolParams{Name: "work"})
				ret = r.us()
				close(done)
			}()
			select {
			case <-done:
				o.Ret = ret
				if cerr != nil {
					o.Outcome, o.Err = "err", cerr.Error()
					if len(o.Err) > 200 {
						o.Err = o.Err[:200]
					}
				} else {
					o.Outcome = "resp"
					if len(res.Content) == 1 {
						if tc, ok := res.Content[0].(*TextContent); ok && tc.Text == st.respText(st.cfg.M) && !res.IsError {
							o.Respok = true
						}
					}
				}
			case <-time.After(time.Hour):
				o.Outcome = "hang"
			}
			// let trailing notifications reach the handler
			time.Sleep(time.Second)
		} else {
			time.Sleep(time.Hour)
			select {
			case <-waited:
				o.Outcome = "failed"
			default:
				o.Outcome = "open"
			}
		}
		r.mu.Lock()
		r.closeGroup()
		r.mu.Unlock()
		// clean-up
		closed := make(chan struct{})
		go func() { sess.Close(); close(closed) }()
		select {
		case <-closed:
		case <-time.After(time.Hour):
			o.Exit = "close-stuck"
		}
		time.Sleep(time.Minute)
	})
	return o
}

// c09ByteLevel enumerates every byte offset of the first body x both terminations.
func c09ByteLevel(t *testing.T, cs c09Case, seed uint64, emit func(any)) int {
	cs.Lay = cs.ID // one layout (stream id, paddings) for all offsets of this reference body
	st := c09NewStream(cs.Cfg, c09Seed(seed, c09LayKey(cs)))
	total := 0
	for _, e := range st.elems(0, cs.Cfg.Prime != "none") {
		total += len(st.bytesOf(e))
	}
	last := total - 1 // a POST body that got all its bytes across is not cut
	if cs.Cfg.Kind == "sa" {
		last = total
	}
	n := 0
	for _, knd := range []string{"err", "eof"} {
		for off := 0; off <= last; off++ {
			sub := cs
			sub.ID = fmt.Sprintf("%s/%s@%d", cs.ID, knd, off)
			o := off
			sub.Cuts = []c09Cut{{Cls: "byte", Knd: knd, Al: c09None, Off: &o}}
			sub.Rc = nil
			if cs.Level == "scan" {
				emit(c09ScanOne(sub, st, off, knd))
			} else {
				emit(c09Scenario(t, sub, seed))
			}
			n++
		}
	}
	return n
}

func c09ScanOne(cs c09Case, st *c09Stream, off int, knd string) *c09ScanObs {
	es := st.elems(0, cs.Cfg.Prime != "none")
	var full []byte
	o := &c09ScanObs{ID: cs.ID, Level: "scan", Cfg: cs.Cfg, Knd: knd, Off: off, Truth: []c09Evt{}, Yielded: []c09Evt{}}
	for _, e := range es {
		full = append(full, st.bytesOf(e)...)
		o.Truth = append(o.Truth, st.evt(e))
	}
	o.N, o.Cls, o.Al = st.locate(es, off)
	evs, ended := c09Scan(full[:off], knd)
	o.Yielded = append(o.Yielded, evs...)
	o.Ended = ended
	return o
}

func TestVerif_C09(t *testing.T) {
	in, outp := os.Getenv("VERIF_IN"), os.Getenv("VERIF_OUT")
	if in == "" || outp == "" {
		t.Skip("VERIF_IN/VERIF_OUT not set")
	}
	seed, _ := strconv.ParseUint(os.Getenv("VERIF_SEED"), 10, 64)
	fin, err := os.Open(in)
	if err != nil {
		t.Fatal(err)
	}
	defer fin.Close()
	fout, err := os.Create(outp)
	if err != nil {
		t.Fatal(err)
	}
	defer fout.Close()
	w := bufio.NewWriterSize(fout, 1<<20)
	defer w.Flush()
	enc := json.NewEncoder(w)
	emit := func(v any) {
		if err := enc.Encode(v); err != nil {
			t.Fatal(err)
		}
	}
	sc := bufio.NewScanner(fin)
	sc.Buffer(make([]byte, 1<<16), 1<<22)
	n := 0
	for sc.Scan() {
		var cs c09Case
		if err := json.Unmarshal(sc.Bytes(), &cs); err != nil {
			t.Fatalf("bad case: %v", err)
		}
		switch cs.Level {
		case "abs":
			emit(c09Scenario(t, cs, seed))
			n++
		case "byte", "scan":
			n += c09ByteLevel(t, cs, seed, emit)
		default:
			t.Fatalf("bad level %q", cs.Level)
		}
	}
	if sc.Err() != nil {
		t.Fatal(sc.Err())
	}
	t.Logf("c09: %d scenarios", n)
}
