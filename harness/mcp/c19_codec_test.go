//go:build verif

// Conformance harness for property C19 (wire codec and framing).
//
// Reads the abstract case products enumerated by TLC from spec/Codec.tla (directory VERIF_IN:
// cases_msg.ndjson, cases_wire.ndjson, cases_val.ndjson, cases_req.ndjson, cases_vc.ndjson, cases_fr.ndjson, cases_ar.ndjson,
// cases_lt.ndjson, cases_lb.ndjson) and the plans enumerated by TLC from spec/CodecWrite.tla (cases_ww.ndjson),
// concretises every case with seeded values, runs the REAL encode / decode / framing paths and
// records, per case, which members survived (VERIF_OUT, ndjson) for the TLA+ monitor CodecMon.
// Nothing is judged here: the harness only compares and reports.
package mcp

import (
	"bufio"
	"bytes"
	"context"
	"encoding/base64"
	"encoding/json"
	"errors"
	"fmt"
	"io"
	"math/big"
	"math/rand/v2"
	"net/http"
	"net/http/httptest"
	"os"
	"path/filepath"
	"reflect"
	"runtime"
	"sort"
	"strconv"
	"strings"
	"sync"
	"sync/atomic"
	"testing"
	"time"
	"unicode/utf8"

	internaljson "github.com/modelcontextprotocol/go-sdk/internal/json"
	"github.com/modelcontextprotocol/go-sdk/internal/jsonrpc2"
	"github.com/modelcontextprotocol/go-sdk/jsonrpc"
)

// ---------------------------------------------------------------------------------------------
// Unexported SDK identifiers used by this harness (all uses go through these shims).

func c19NewIOConn(r io.ReadCloser, w io.WriteCloser) *ioConn { return newIOConn(rwc{rc: r, wc: w}) }

func c19WriteEvent(w http.ResponseWriter, e Event) (int, error) { return writeEvent(w, e) }

func c19ScanEvents(r io.Reader, f func(Event, error) bool) {
	for e, err := range scanEvents(r) {
		if !f(e, err) {
			return
		}
	}
}

func c19UnmarshalContent(raw json.RawMessage) ([]Content, error) { return unmarshalContent(raw, nil) }

func c19ReadBatch(data []byte) ([]jsonrpc.Message, bool, error) { return readBatch(data) }

// c19ServerParams decodes request params exactly as a server session does.
func c19ServerParams(method string, raw json.RawMessage) (any, error) {
	mi, ok := serverMethodInfos[method]
	if !ok {
		return nil, fmt.Errorf("no such method %q", method)
	}
	return mi.unmarshalParams(raw)
}

func c19ClientParams(method string, raw json.RawMessage) (any, error) {
	mi, ok := clientMethodInfos[method]
	if !ok {
		return nil, fmt.Errorf("no such method %q", method)
	}
	return mi.unmarshalParams(raw)
}

const c19Proto2025 = protocolVersion20251125

// ---------------------------------------------------------------------------------------------
// Seeded concretisation of the abstract classes.

func c19Pick[T any](r *rand.Rand, xs ...T) T { return xs[r.IntN(len(xs))] }

var c19Tier = os.Getenv("VERIF_TIER")

// c19Flav returns a string of the given flavour.
func c19Flav(r *rand.Rand, flavor string) string {
	switch flavor {
	case "plain":
		return c19Pick(r, "alpha", "x-1", "Hello, World", "a b  c", `<&>"'\/`, "tab\there", "0", "null", "{}", "~!@#$%^&*()")
	case "unicode":
		return c19Pick(r, "h\u00e9llo w\u00f6rld", "\u65e5\u672c\u8a9e\u30c6\u30ad\u30b9\u30c8", "\U0001f600\U0001f389 emoji \U0001f469\u200d\U0001f469\u200d\U0001f467",
			"line\u2028sep\u2029para", "e\u0301 combining", "\u202eRTL override", "\u212a kelvin \u017f long-s", "nul\x00byte \x01\x1f ctl \x7f",
			"\ufffd replacement", "\U0010ffff max", "ZWJ\u200dZWNJ\u200c", "\u00a0nbsp\u3000ideographic\u0085nel", "\u01c4 titlecase \u01c5 \u01c6", "\ufeffbom")
	case "newline":
		return c19Pick(r, "a\nb", "a\r\nb", "a\rb", "\nleading", "trailing\n", "two\n\nblank", "\n", "\r\n\r\n", "x\n\n\ny\r", "\n\n")
	case "ssetext":
		return c19Pick(r, "data: {\"x\":1}", "\n\ndata: evil\n\n", "event: message\nid: 7\ndata: {}\n\n", ":comment", "retry: 10\n",
			"id: 999\n\n", "data:", "data: a\ndata: b", "\r\n\r\ndata: x\r\n\r\n", "event:close\n\n", ": keep-alive\n\ndata: {\"jsonrpc\":\"2.0\"}\n\n")
	case "large":
		n := 4<<10 + r.IntN(28<<10)
		if c19Tier == "thorough" {
			n = 8<<10 + r.IntN(120<<10)
		}
		if c19Tier == "thorough" && r.IntN(40) == 0 {
			n = 1<<20 + r.IntN(3<<20)
		}
		unit := c19Pick(r, "0123456789abcdef", "lorem ipsum \n", "data: x\n\n", "日本語😀", "\"quoted\" \\ back", "\x00\x01")
		var b strings.Builder
		for b.Len() < n {
			b.WriteString(unit)
		}
		return b.String()
	}
	panic("flavor " + flavor)
}

// c19JS encodes s as a JSON string literal in one of several equivalent spellings.
func c19JS(r *rand.Rand, s string) string {
	switch r.IntN(3) {
	case 0: // encoding/json default (HTML-escaping)
		b, _ := json.Marshal(s)
		return string(b)
	case 1: // no HTML escaping
		var buf bytes.Buffer
		enc := json.NewEncoder(&buf)
		enc.SetEscapeHTML(false)
		enc.Encode(s)
		return strings.TrimRight(buf.String(), "\n")
	default: // every non-ASCII rune as \uXXXX (surrogate pairs above the BMP)
		const hex = "0123456789abcdef"
		b := make([]byte, 0, len(s)+16)
		u4 := func(c rune) {
			b = append(b, '\\', 'u', hex[c>>12&15], hex[c>>8&15], hex[c>>4&15], hex[c&15])
		}
		b = append(b, '"')
		for _, c := range s {
			switch {
			case c == '"' || c == '\\':
				b = append(b, '\\', byte(c))
			case c < 0x20 || c == 0x7f:
				u4(c)
			case c < 0x7f:
				b = append(b, byte(c))
			case c > 0xffff:
				c -= 0x10000
				u4(0xd800 + (c >> 10))
				u4(0xdc00 + (c & 0x3ff))
			default:
				u4(c)
			}
		}
		b = append(b, '"')
		return string(b)
	}
}

// c19ID concretises an id class: kind 0 absent, 1 integer, 2 string.
func c19ID(r *rand.Rand, class, flavor string) (kind int, n int64, s string) {
	const p53 = int64(1) << 53
	bigOdd := func() int64 { // odd, in (2^53+1, 2^63-1): never a float64
		return (p53 + 2 + r.Int64N(1<<62-p53)) | 1
	}
	switch class {
	case "absent":
		return 0, 0, ""
	case "zero":
		return 1, 0, ""
	case "small":
		return 1, 1 + r.Int64N(1_000_000), ""
	case "neg":
		return 1, -1 - r.Int64N(1_000_000), ""
	case "2^53-1":
		return 1, p53 - 1, ""
	case "2^53":
		return 1, p53, ""
	case "-2^53":
		return 1, -p53, ""
	case "int>2^53rep": // at most 53 significant bits: exactly representable
		m := (int64(1) << 52) + r.Int64N(1<<52)
		v := m << (1 + r.IntN(9))
		if r.IntN(2) == 0 {
			v = -v
		}
		return 1, v, ""
	case "int64min":
		return 1, -1 << 63, ""
	case "2^53+1":
		return 1, p53 + 1, ""
	case "-2^53-1":
		return 1, -p53 - 1, ""
	case "int>2^53":
		return 1, bigOdd(), ""
	case "int<-2^53":
		return 1, -bigOdd(), ""
	case "int64max":
		return 1, 1<<63 - 1, ""
	case "str-empty":
		return 2, 0, ""
	case "str-ascii":
		return 2, 0, fmt.Sprintf("req-%d", r.IntN(100000))
	case "str-unicode":
		return 2, 0, c19Flav(r, c19Pick(r, "unicode", "newline", "ssetext"))
	case "str-numeric":
		return 2, 0, c19Pick(r, "42", "9007199254740993", "1e3", "-0", "0x10", " 1", "1.0", "9223372036854775807", "null", "true")
	}
	panic("id class " + class)
}

var c19StdMethods = []string{"tools/call", "tools/list", "initialize", "ping", "notifications/progress", "notifications/initialized",
	"resources/read", "prompts/get", "sampling/createMessage", "completion/complete", "notifications/cancelled"}

func c19Nest(r *rand.Rand, depth int, leaf string) string {
	var open, cls strings.Builder
	for i := 0; i < depth; i++ {
		if r.IntN(2) == 0 {
			open.WriteString(`{"k":`)
			cls.WriteString("}")
		} else {
			open.WriteString("[")
			cls.WriteString("]")
		}
	}
	c := []byte(cls.String())
	for i, j := 0, len(c)-1; i < j; i, j = i+1, j-1 {
		c[i], c[j] = c[j], c[i]
	}
	return open.String() + leaf + string(c)
}

// c19Payload returns JSON text for a payload class (nil for "absent").
func c19Payload(r *rand.Rand, class, flavor string) []byte {
	s := func() string { return c19JS(r, c19Flav(r, flavor)) }
	b64 := func() string {
		n := 1 + r.IntN(64)
		if flavor == "large" {
			n = 4<<10 + r.IntN(28<<10)
		}
		raw := make([]byte, n)
		for i := range raw {
			raw[i] = byte(r.IntN(256))
		}
		return `"` + base64.StdEncoding.EncodeToString(raw) + `"`
	}
	switch class {
	case "absent":
		return nil
	case "null":
		return []byte("null")
	case "emptyobj":
		return []byte("{}")
	case "obj":
		return []byte(`{"a":1,"b":` + s() + `,"c":true,"d":null,"e":1.5,"f":""}`)
	case "array":
		return []byte(`[1,` + s() + `,null,{"k":[]},[],-2.5e-3]`)
	case "scalar":
		return []byte(c19Pick(r, s(), "42", "true", "false", "0", "-1.5", `""`))
	case "nested":
		return []byte(`{"n":` + c19Nest(r, 3+r.IntN(40), s()) + `}`)
	case "meta":
		tok := c19Pick(r, "7", `"tok-1"`, s(), "9007199254740993")
		return []byte(`{"_meta":{"progressToken":` + tok + `,"io.modelcontextprotocol/x":{"k":` + s() + `},"":0},"name":"t","arguments":{"x":` + s() + `}}`)
	case "content-text":
		return []byte(`{"content":[{"type":"text","text":` + s() + `}]}`)
	case "content-image":
		return []byte(`{"content":[{"type":"image","data":` + b64() + `,"mimeType":"image/png"}],"isError":false}`)
	case "content-nested":
		return []byte(`{"content":[{"type":"tool_result","toolUseId":"u1","content":[{"type":"text","text":` + s() +
			`,"_meta":{"a":1}},{"type":"resource","resource":{"uri":"file:///x","text":` + s() + `}}],"structuredContent":{"v":` + s() + `}}]}`)
	case "list-empty":
		return []byte(`{"` + c19Pick(r, "tools", "prompts", "resources", "roots", "content") + `":[]}`)
	case "list-null":
		return []byte(`{"` + c19Pick(r, "tools", "prompts", "resources", "roots", "content") + `":null,"nextCursor":null}`)
	case "dupkeys":
		return []byte(`{"a":1,"a":` + s() + `,"A":2,"a":{"a":null}}`)
	case "bignum":
		return []byte(`{"n":9007199254740993,"f":0.1000000000000000055511151231257827,"e":1e400,"z":-0,"big":123456789012345678901234567890,"m":-9223372036854775809,"x":1E+2,"s":` + s() + `}`)
	}
	panic("payload class " + class)
}

var c19Codes = []int64{-32700, -32600, -32601, -32602, -32603, -32002, 0, 1, -1, 9007199254740993, -9007199254740993, 1<<63 - 1, -1 << 63}

// ---------------------------------------------------------------------------------------------
// Neutral view of a message: what the original says and what came back.

type c19View struct {
	typ       string // "request", "response", "reject"
	idKind    int    // 0 absent, 1 number, 2 string
	idNum     *big.Rat
	idStr     string
	hasMethod bool
	method    string
	params    []byte // nil: absent
	result    []byte
	hasErr    bool
	errCode   *big.Rat
	errMsg    string
	errData   []byte
}

type c19Fields struct {
	IDType  bool `json:"idType"`
	IDValue bool `json:"idValue"`
	Method  bool `json:"method"`
	Params  bool `json:"params"`
	Result  bool `json:"result"`
	ErrCode bool `json:"errCode"`
	ErrMsg  bool `json:"errMsg"`
	ErrData bool `json:"errData"`
}

func c19RatEq(a, b *big.Rat) bool {
	if a == nil || b == nil {
		return a == b
	}
	return a.Cmp(b) == 0
}

// c19JSONEq: semantic JSON equality with exact numbers; absent (empty) only equals absent.
func c19JSONEq(a, b []byte) bool {
	if len(a) == 0 || len(b) == 0 {
		return len(a) == 0 && len(b) == 0
	}
	var ca, cb bytes.Buffer
	if json.Compact(&ca, a) == nil && json.Compact(&cb, b) == nil && bytes.Equal(ca.Bytes(), cb.Bytes()) {
		return true
	}
	da, db := json.NewDecoder(bytes.NewReader(a)), json.NewDecoder(bytes.NewReader(b))
	da.UseNumber()
	db.UseNumber()
	var va, vb any
	if da.Decode(&va) != nil || db.Decode(&vb) != nil {
		return false
	}
	return c19DeepEq(va, vb)
}

func c19DeepEq(a, b any) bool {
	switch x := a.(type) {
	case json.Number:
		y, ok := b.(json.Number)
		if !ok {
			return false
		}
		rx, ok1 := new(big.Rat).SetString(string(x))
		ry, ok2 := new(big.Rat).SetString(string(y))
		return ok1 && ok2 && rx.Cmp(ry) == 0
	case map[string]any:
		y, ok := b.(map[string]any)
		if !ok || len(x) != len(y) {
			return false
		}
		for k, v := range x {
			w, ok := y[k]
			if !ok || !c19DeepEq(v, w) {
				return false
			}
		}
		return true
	case []any:
		y, ok := b.([]any)
		if !ok || len(x) != len(y) {
			return false
		}
		for i := range x {
			if !c19DeepEq(x[i], y[i]) {
				return false
			}
		}
		return true
	default:
		return reflect.DeepEqual(a, b)
	}
}

func c19Compare(a, b *c19View) c19Fields {
	var f c19Fields
	if b == nil || b.typ == "reject" {
		return f
	}
	f.IDType = a.idKind == b.idKind
	f.IDValue = f.IDType && (a.idKind == 0 || (a.idKind == 1 && c19RatEq(a.idNum, b.idNum)) || (a.idKind == 2 && a.idStr == b.idStr))
	f.Method = a.hasMethod == b.hasMethod && a.method == b.method
	f.Params = c19JSONEq(a.params, b.params)
	f.Result = c19JSONEq(a.result, b.result)
	f.ErrCode = a.hasErr == b.hasErr && (!a.hasErr || c19RatEq(a.errCode, b.errCode))
	f.ErrMsg = a.hasErr == b.hasErr && (!a.hasErr || a.errMsg == b.errMsg)
	f.ErrData = a.hasErr == b.hasErr && (!a.hasErr || c19JSONEq(a.errData, b.errData))
	return f
}

// c19ViewOfMsg projects a decoded Go message.
func c19ViewOfMsg(m jsonrpc.Message) *c19View {
	v := &c19View{}
	setID := func(id jsonrpc.ID) {
		switch x := id.Raw().(type) {
		case int64:
			v.idKind, v.idNum = 1, new(big.Rat).SetInt64(x)
		case string:
			v.idKind, v.idStr = 2, x
		}
	}
	switch m := m.(type) {
	case *jsonrpc.Request:
		v.typ, v.hasMethod, v.method = "request", true, m.Method
		setID(m.ID)
		if len(m.Params) > 0 {
			v.params = m.Params
		}
	case *jsonrpc.Response:
		v.typ = "response"
		setID(m.ID)
		if len(m.Result) > 0 {
			v.result = m.Result
		}
		if m.Error != nil {
			v.hasErr = true
			var we *jsonrpc.Error
			if errors.As(m.Error, &we) {
				v.errCode = new(big.Rat).SetInt64(we.Code)
				if len(we.Data) > 0 {
					v.errData = we.Data
				}
			} else {
				v.errCode = new(big.Rat)
			}
			v.errMsg = m.Error.Error()
		}
	default:
		v.typ = "reject"
	}
	return v
}

// c19ViewOfWire projects wire bytes (member names matched exactly).
func c19ViewOfWire(w []byte) *c19View {
	var top map[string]json.RawMessage
	if err := json.Unmarshal(w, &top); err != nil {
		return &c19View{typ: "reject"}
	}
	v := &c19View{typ: "response"}
	if raw, ok := top["id"]; ok && string(raw) != "null" {
		if raw[0] == '"' {
			v.idKind = 2
			json.Unmarshal(raw, &v.idStr)
		} else if n, ok := new(big.Rat).SetString(string(raw)); ok {
			v.idKind, v.idNum = 1, n
		} else {
			v.idKind = 3
		}
	}
	if raw, ok := top["method"]; ok {
		v.typ, v.hasMethod = "request", true
		json.Unmarshal(raw, &v.method)
	}
	if raw, ok := top["params"]; ok {
		v.params = raw
	}
	if raw, ok := top["result"]; ok {
		v.result = raw
	}
	if raw, ok := top["error"]; ok && string(raw) != "null" {
		v.hasErr = true
		var e map[string]json.RawMessage
		json.Unmarshal(raw, &e)
		if c, ok := e["code"]; ok {
			v.errCode, _ = new(big.Rat).SetString(string(c))
		}
		json.Unmarshal(e["message"], &v.errMsg)
		if d, ok := e["data"]; ok {
			v.errData = d
		}
	}
	return v
}

func c19Cls(m jsonrpc.Message, err error) string {
	if err != nil {
		return "reject"
	}
	switch m := m.(type) {
	case *jsonrpc.Request:
		if m.IsCall() {
			return "call"
		}
		return "notif"
	case *jsonrpc.Response:
		if m.Error != nil {
			return "error"
		}
		return "result"
	}
	return "reject"
}

// ---------------------------------------------------------------------------------------------
// Table 1: messages x direction x framing.

type c19MsgCase struct {
	Dir     string `json:"dir"`
	Kind    string `json:"kind"`
	ID      string `json:"id"`
	Method  string `json:"method"`
	Payload string `json:"payload"`
	Flavor  string `json:"flavor"`
	Framing string `json:"framing"`
}

type c19MsgOut struct {
	Cls    string    `json:"cls"`
	Frame  string    `json:"frame"`
	Evmeta bool      `json:"evmeta"`
	F      c19Fields `json:"f"`
}

// c19Concrete is one concrete message: the original view, the Go value (dir enc) and wire bytes (dir dec).
type c19Concrete struct {
	view *c19View
	msg  jsonrpc.Message
	wire []byte
}

func c19MakeID(kind int, n int64, s string) jsonrpc.ID {
	switch kind {
	case 1:
		return jsonrpc2.Int64ID(n)
	case 2:
		return jsonrpc2.StringID(s)
	}
	return jsonrpc.ID{}
}

// c19Wire lays out members (name, JSON text) as one JSON object without raw newlines
// (newline-delimited and SSE framing forbid them; raw framing may add them).
func c19Wire(r *rand.Rand, members [][2]string, shuffle bool, allowNL bool) []byte {
	if shuffle {
		r.Shuffle(len(members), func(i, j int) { members[i], members[j] = members[j], members[i] })
	}
	sep, col, pad := ",", ":", ""
	switch r.IntN(4) {
	case 1:
		sep, col, pad = ", ", ": ", " "
	case 2:
		sep, col, pad = "\t,\t", " :\t", "\t"
	case 3:
		if allowNL {
			sep, col, pad = ",\n  ", ": ", "\n"
		}
	}
	var b strings.Builder
	b.WriteString("{" + pad)
	for i, m := range members {
		if i > 0 {
			b.WriteString(sep)
		}
		b.WriteString(`"` + m[0] + `"` + col + m[1])
	}
	b.WriteString(pad + "}")
	return []byte(b.String())
}

func c19Concretise(r *rand.Rand, c c19MsgCase) c19Concrete {
	v := &c19View{}
	idKind, idN, idS := c19ID(r, c.ID, c.Flavor)
	v.idKind, v.idStr = idKind, idS
	if idKind == 1 {
		v.idNum = new(big.Rat).SetInt64(idN)
	}
	id := c19MakeID(idKind, idN, idS)
	members := [][2]string{{"jsonrpc", `"2.0"`}}
	switch idKind {
	case 1:
		members = append(members, [2]string{"id", strconv.FormatInt(idN, 10)})
	case 2:
		members = append(members, [2]string{"id", c19JS(r, idS)})
	}
	payload := c19Payload(r, c.Payload, c.Flavor)
	var msg jsonrpc.Message
	switch c.Kind {
	case "call", "notif":
		v.typ, v.hasMethod = "request", true
		switch c.Method {
		case "std":
			v.method = c19Pick(r, c19StdMethods...)
		case "flavored":
			v.method = "x/" + c19Flav(r, c.Flavor)
		case "empty":
			v.method = ""
		}
		v.params = payload
		members = append(members, [2]string{"method", c19JS(r, v.method)})
		if payload != nil {
			members = append(members, [2]string{"params", string(payload)})
		}
		msg = &jsonrpc.Request{ID: id, Method: v.method, Params: json.RawMessage(payload)}
	case "result":
		v.typ, v.result = "response", payload
		members = append(members, [2]string{"result", string(payload)})
		msg = &jsonrpc.Response{ID: id, Result: json.RawMessage(payload)}
	default: // error kinds
		v.typ, v.hasErr = "response", true
		code := c19Pick(r, c19Codes...)
		text := c19Flav(r, c.Flavor)
		if r.IntN(8) == 0 {
			text = ""
		}
		we := &jsonrpc.Error{Code: code, Message: text, Data: json.RawMessage(payload)}
		v.errCode, v.errMsg, v.errData = new(big.Rat).SetInt64(code), text, payload
		em := [][2]string{{"code", strconv.FormatInt(code, 10)}, {"message", c19JS(r, text)}}
		if payload != nil {
			em = append(em, [2]string{"data", string(payload)})
		}
		members = append(members, [2]string{"error", string(c19Wire(r, em, true, false))})
		switch c.Kind {
		case "errwrapped": // a Go error wrapping a wire error that has data
			we.Data = json.RawMessage(`{"detail":` + c19JS(r, c19Flav(r, c.Flavor)) + `}`)
			outer := fmt.Errorf("%s: %w", c19Flav(r, c.Flavor), we)
			v.errMsg, v.errData = outer.Error(), we.Data
			msg = &jsonrpc.Response{ID: id, Error: outer}
		case "errplain":
			plain := errors.New(text)
			v.errCode, v.errData = new(big.Rat), nil
			msg = &jsonrpc.Response{ID: id, Error: plain}
		default:
			msg = &jsonrpc.Response{ID: id, Error: we}
		}
	}
	return c19Concrete{view: v, msg: msg, wire: c19Wire(r, members, true, c.Framing == "raw")}
}

// --- newline-delimited framing through ioConn over pipes

type c19ND struct {
	a, b  *ioConn
	p0w   *io.PipeWriter
	toB   *io.PipeWriter // raw bytes for B's reader (A writes here as well)
	lines chan []byte    // what B wrote, line by line
}

func c19NewND() *c19ND {
	p0r, p0w := io.Pipe() // A's input: never written
	p1r, p1w := io.Pipe() // A (or the harness) -> B
	p2r, p2w := io.Pipe() // B -> harness
	nd := &c19ND{p0w: p0w, toB: p1w, lines: make(chan []byte, 8)}
	nd.a = c19NewIOConn(p0r, p1w)
	nd.b = c19NewIOConn(p1r, p2w)
	go func() {
		defer close(nd.lines)
		br := bufio.NewReaderSize(p2r, 1<<16)
		for {
			line, err := br.ReadBytes('\n')
			if len(line) > 0 {
				nd.lines <- line
			}
			if err != nil {
				return
			}
		}
	}()
	return nd
}

func (nd *c19ND) close() {
	nd.p0w.Close()
	nd.a.Close()
	nd.b.Close()
}

var c19SentinelWire = func(i int) []byte {
	return []byte(fmt.Sprintf(`{"jsonrpc":"2.0","id":"sentinel-%d","method":"ping"}`, i))
}

func c19Sentinel(i int) *jsonrpc.Request {
	return &jsonrpc.Request{ID: jsonrpc2.StringID(fmt.Sprintf("sentinel-%d", i)), Method: "ping"}
}

func c19IsSentinel(m jsonrpc.Message, i int) bool {
	req, ok := m.(*jsonrpc.Request)
	return ok && req.Method == "ping" && req.ID.Raw() == fmt.Sprintf("sentinel-%d", i) && len(req.Params) == 0
}

// c19Timeouts counts framing exchanges that did not finish in time (a hang in the framing layer).
var c19Timeouts atomic.Int32

const c19MaxTimeouts = 25

// c19NDEnc: A.Write(sentinel, m, sentinel) -> pipe -> B.Read x3.
func c19NDEnc(m jsonrpc.Message) (got jsonrpc.Message, err error, frame string) {
	nd := c19NewND()
	defer nd.close()
	ctx, cancel := context.WithTimeout(context.Background(), 5*time.Second)
	defer cancel()
	go func() {
		for i, x := range []jsonrpc.Message{c19Sentinel(0), m, c19Sentinel(2)} {
			if werr := nd.a.Write(ctx, x); werr != nil && i != 1 {
				return
			}
		}
	}()
	frame = "ok"
	for i := 0; i < 3; i++ {
		x, rerr := nd.b.Read(ctx)
		if i == 1 {
			got, err = x, rerr
		} else if rerr != nil || !c19IsSentinel(x, i) {
			frame = "bad"
		}
		if ctx.Err() != nil {
			c19Timeouts.Add(1)
		}
		if frame == "bad" { // the stream is out of step: what follows says nothing about this message
			if i == 0 {
				err = fmt.Errorf("framing lost before the message: %v", rerr)
			}
			return
		}
	}
	return
}

// c19NDDec: raw lines -> B.Read -> B.Write -> raw line, x3.
func c19NDDec(w []byte) (got jsonrpc.Message, err error, out []byte, frame string) {
	nd := c19NewND()
	defer nd.close()
	ctx, cancel := context.WithTimeout(context.Background(), 5*time.Second)
	defer cancel()
	go func() {
		for _, x := range [][]byte{c19SentinelWire(0), w, c19SentinelWire(2)} {
			if _, werr := nd.toB.Write(append(append([]byte{}, x...), '\n')); werr != nil {
				return
			}
		}
	}()
	frame = "ok"
	for i := 0; i < 3; i++ {
		x, rerr := nd.b.Read(ctx)
		var line []byte
		if rerr == nil {
			if werr := nd.b.Write(ctx, x); werr == nil {
				select {
				case line = <-nd.lines:
				case <-ctx.Done():
				}
			} else if i == 1 {
				rerr = werr
			}
		}
		if i == 1 {
			got, err, out = x, rerr, bytes.TrimRight(line, "\n")
		} else if rerr != nil || !c19IsSentinel(x, i) || !c19JSONEq(bytes.TrimRight(line, "\n"), c19SentinelWire(i)) {
			frame = "bad"
		}
		if ctx.Err() != nil {
			c19Timeouts.Add(1)
		}
		if frame == "bad" {
			if i == 0 {
				err = fmt.Errorf("framing lost before the message: %v", rerr)
			}
			return
		}
	}
	return
}

// --- SSE framing through writeEvent / scanEvents

type c19RW struct {
	buf bytes.Buffer
	h   http.Header
}

func (w *c19RW) Header() http.Header {
	if w.h == nil {
		w.h = http.Header{}
	}
	return w.h
}
func (w *c19RW) Write(p []byte) (int, error) { return w.buf.Write(p) }
func (w *c19RW) WriteHeader(int)             {}
func (w *c19RW) Flush()                      {}

// c19Chunk delivers its input in seeded chunk sizes.
type c19Chunk struct {
	r    *bytes.Reader
	rnd  *rand.Rand
	size int
}

func (c *c19Chunk) Read(p []byte) (int, error) {
	n := c.size
	if n == 0 {
		n = 1 + c.rnd.IntN(97)
	}
	if n > len(p) {
		n = len(p)
	}
	return c.r.Read(p[:n])
}

// c19SSE frames three payloads (sentinel, data, sentinel) and scans them back.
func c19SSE(r *rand.Rand, data []byte) (got []byte, frame string, evmeta bool) {
	rw := &c19RW{}
	type ev struct{ name, id string }
	var want []ev
	payloads := [][]byte{c19SentinelWire(0), data, c19SentinelWire(2)}
	for i, p := range payloads {
		e := Event{Name: c19Pick(r, "message", "", "endpoint"), ID: c19Pick(r, "", fmt.Sprintf("%d_%d", r.IntN(1000), i), "s12_7"), Data: p}
		want = append(want, ev{e.Name, e.ID})
		if _, err := c19WriteEvent(rw, e); err != nil {
			return nil, "bad", false
		}
	}
	src := &c19Chunk{r: bytes.NewReader(rw.buf.Bytes()), rnd: r, size: c19Pick(r, 0, 1, 7, 4096, 1<<20)}
	var evs []Event
	ok := true
	c19ScanEvents(src, func(e Event, err error) bool {
		if err != nil {
			ok = false
			return false
		}
		evs = append(evs, Event{Name: e.Name, ID: e.ID, Data: append([]byte{}, e.Data...)})
		return true
	})
	if !ok || len(evs) != 3 || !bytes.Equal(evs[0].Data, payloads[0]) || !bytes.Equal(evs[2].Data, payloads[2]) {
		if len(evs) > 1 {
			got = evs[1].Data
		}
		return got, "bad", false
	}
	evmeta = true
	for i, e := range evs {
		if e.Name != want[i].name || e.ID != want[i].id {
			evmeta = false
		}
	}
	return evs[1].Data, "ok", evmeta
}

func c19Trunc(b []byte) string {
	if len(b) > 400 {
		return string(b[:300]) + fmt.Sprintf("...(%d bytes)", len(b))
	}
	return string(b)
}

// c19RunMsg runs one message case on the real code.
func c19RunMsg(r *rand.Rand, c c19MsgCase) (o c19MsgOut, in, out string) {
	cc := c19Concretise(r, c)
	o.Frame, o.Evmeta = "ok", true
	var final *c19View
	if c.Dir == "enc" {
		var m2 jsonrpc.Message
		var derr error
		switch c.Framing {
		case "raw":
			b, err := jsonrpc.EncodeMessage(cc.msg)
			if err != nil {
				o.Cls = "reject"
				return o, fmt.Sprintf("%#v", cc.msg), "encode: " + err.Error()
			}
			out = c19Trunc(b)
			m2, derr = jsonrpc.DecodeMessage(b)
		case "ndjson":
			m2, derr, o.Frame = c19NDEnc(cc.msg)
		case "sse":
			b, err := jsonrpc.EncodeMessage(cc.msg)
			if err != nil {
				o.Cls = "reject"
				return o, fmt.Sprintf("%#v", cc.msg), "encode: " + err.Error()
			}
			var data []byte
			data, o.Frame, o.Evmeta = c19SSE(r, b)
			out = c19Trunc(data)
			m2, derr = jsonrpc.DecodeMessage(data)
		}
		o.Cls = c19Cls(m2, derr)
		if derr == nil {
			final = c19ViewOfMsg(m2)
			if b, err := jsonrpc.EncodeMessage(m2); err == nil {
				out = "decoded, shown re-encoded: " + c19Trunc(b)
			}
		} else {
			out += " decode: " + derr.Error()
		}
		if b, err := jsonrpc.EncodeMessage(cc.msg); err == nil {
			in = c19Trunc(b)
		}
		// a message of another Go type is not a version of the original at all
		if final != nil && final.typ != cc.view.typ {
			final = nil
		}
		o.F = c19Compare(cc.view, final)
		return
	}
	// dir = dec
	in = c19Trunc(cc.wire)
	var m jsonrpc.Message
	var derr error
	var w2 []byte
	switch c.Framing {
	case "raw":
		m, derr = jsonrpc.DecodeMessage(cc.wire)
		if derr == nil {
			w2, derr = jsonrpc.EncodeMessage(m)
		}
	case "ndjson":
		m, derr, w2, o.Frame = c19NDDec(cc.wire)
	case "sse":
		var data []byte
		data, o.Frame, o.Evmeta = c19SSE(r, cc.wire)
		m, derr = jsonrpc.DecodeMessage(data)
		if derr == nil {
			w2, derr = jsonrpc.EncodeMessage(m)
		}
	}
	o.Cls = c19Cls(m, derr)
	if m != nil { // the class is that of the decoded message even if re-encoding failed
		o.Cls = c19Cls(m, nil)
	}
	if derr == nil {
		final = c19ViewOfWire(w2)
		out = c19Trunc(w2)
	} else {
		out = "error: " + derr.Error()
	}
	o.F = c19Compare(cc.view, final)
	return
}

// ---------------------------------------------------------------------------------------------
// Table 2: raw wire shapes into DecodeMessage (classification, case sensitivity).

type c19WireCase struct {
	Ver    string `json:"ver"`
	ID     string `json:"id"`
	Method string `json:"method"`
	Params string `json:"params"`
	Result string `json:"result"`
	Error  string `json:"error"`
	Casing string `json:"casing"`
}

type c19WireOut struct {
	Cls    string `json:"cls"`
	Why    string `json:"why"`
	ID     string `json:"id"`
	Params bool   `json:"params"`
	Result bool   `json:"result"`
	Err    bool   `json:"err"`
	Code   bool   `json:"code"`
	Msg    bool   `json:"msg"`
	Data   bool   `json:"data"`
}

// c19Miscase returns name in a spelling that differs only by letter case / Unicode case folding.
func c19Miscase(r *rand.Rand, name string) string {
	for {
		var out string
		switch r.IntN(4) {
		case 0:
			out = strings.ToUpper(name)
		case 1:
			out = strings.ToUpper(name[:1]) + name[1:]
		case 2:
			b := []byte(name)
			for i := range b {
				if r.IntN(2) == 0 {
					b[i] = byte(strings.ToUpper(string(b[i]))[0])
				}
			}
			out = string(b)
		default: // folds that encoding/json's case-insensitive matching accepts
			out = strings.NewReplacer("s", "ſ", "k", "K").Replace(name)
		}
		if out != name {
			return out
		}
	}
}

func c19BuildWireShape(r *rand.Rand, c c19WireCase) (wire, sib []byte, code int64, text string) {
	code = c19Pick(r, int64(-32601), -32000, 7, 1<<40)
	text = c19Pick(r, "boom", "method not found", "x")
	name := func(n string) string {
		if c.Casing == n {
			return c19Miscase(r, n)
		}
		return n
	}
	var ms, sm [][2]string // full / with the miscased member removed
	add := func(n, val string) {
		ms = append(ms, [2]string{name(n), val})
		if c.Casing != n {
			sm = append(sm, [2]string{n, val})
		}
	}
	switch c.Ver {
	case "2.0":
		add("jsonrpc", `"2.0"`)
	case "1.0":
		add("jsonrpc", c19Pick(r, `"1.0"`, `"2"`, `"2.00"`, `""`, `" 2.0"`))
	case "number":
		add("jsonrpc", c19Pick(r, "2.0", "2", "true"))
	}
	switch c.ID {
	case "null":
		add("id", "null")
	case "int":
		add("id", strconv.FormatInt(c19Pick(r, int64(0), 1, -5, 123456789), 10))
	case "str":
		add("id", c19JS(r, c19Pick(r, "", "a", "1", "id-7")))
	case "frac":
		add("id", c19Pick(r, "1.5", "2.25", "-0.5", "1e-1"))
	case "bool":
		add("id", c19Pick(r, "true", "false"))
	case "obj":
		add("id", c19Pick(r, "{}", "[1]", `{"a":1}`, "[]"))
	}
	switch c.Method {
	case "str":
		add("method", c19JS(r, c19Pick(r, c19StdMethods...)))
	case "empty":
		add("method", `""`)
	case "null":
		add("method", "null")
	case "number":
		add("method", c19Pick(r, "5", "true", "{}", `["a"]`))
	}
	if c.Params == "obj" {
		add("params", c19Pick(r, `{"a":1}`, `[1,2]`, `{}`))
	}
	switch c.Result {
	case "obj":
		add("result", c19Pick(r, `{"ok":true}`, `{}`, `[]`, `5`))
	case "null":
		add("result", "null")
	}
	switch c.Error {
	case "null":
		add("error", "null")
	case "str":
		add("error", c19Pick(r, `"oops"`, "5", `[1]`))
	case "obj", "objdata":
		var em, es [][2]string
		addE := func(n, val string) {
			full := "error." + n
			if c.Casing == full {
				em = append(em, [2]string{c19Miscase(r, n), val})
			} else {
				em = append(em, [2]string{n, val})
				es = append(es, [2]string{n, val})
			}
		}
		addE("code", strconv.FormatInt(code, 10))
		addE("message", c19JS(r, text))
		if c.Error == "objdata" {
			addE("data", c19Pick(r, `{"d":1}`, `"x"`, `[1]`, `0`))
		}
		ms = append(ms, [2]string{name("error"), string(c19Wire(r, em, true, false))})
		if c.Casing != "error" {
			sm = append(sm, [2]string{"error", string(c19Wire(r, es, true, false))})
		}
	}
	if r.IntN(2) == 0 { // same member order in both variants
		for _, l := range []*[][2]string{&ms, &sm} {
			for i, j := 0, len(*l)-1; i < j; i, j = i+1, j-1 {
				(*l)[i], (*l)[j] = (*l)[j], (*l)[i]
			}
		}
	}
	seed := r.Uint64()
	// same layout for both variants
	wire = c19Wire(rand.New(rand.NewPCG(seed, 1)), ms, false, true)
	sib = c19Wire(rand.New(rand.NewPCG(seed, 1)), sm, false, true)
	return
}

func c19DecodeShape(w []byte, code int64, text string) (o c19WireOut) {
	o.ID = "none"
	defer func() {
		if p := recover(); p != nil {
			o = c19WireOut{Cls: "panic", Why: fmt.Sprint(p), ID: "none"}
		}
	}()
	m, err := jsonrpc.DecodeMessage(w)
	o.Cls = c19Cls(m, err)
	if err != nil {
		switch {
		case errors.Is(err, jsonrpc2.ErrParse):
			o.Why = "idtype"
		case errors.Is(err, jsonrpc2.ErrInvalidRequest):
			o.Why = "invalidreq"
		case strings.Contains(err.Error(), "version tag"):
			o.Why = "version"
		default:
			o.Why = "syntax"
		}
		return
	}
	idk := func(id jsonrpc.ID) string {
		switch id.Raw().(type) {
		case int64:
			return "int"
		case string:
			return "str"
		}
		return "none"
	}
	switch m := m.(type) {
	case *jsonrpc.Request:
		o.ID, o.Params = idk(m.ID), len(m.Params) > 0
	case *jsonrpc.Response:
		o.ID, o.Result = idk(m.ID), len(m.Result) > 0
		var we *jsonrpc.Error
		if m.Error != nil && errors.As(m.Error, &we) {
			o.Err, o.Code, o.Msg, o.Data = true, we.Code == code, we.Message == text, len(we.Data) > 0
		}
	}
	return
}

// ---------------------------------------------------------------------------------------------
// Table 3: MCP content kinds inside their containers (json.Marshal -> the SDK's UnmarshalJSON).

type c19ValCase struct {
	Cont   string `json:"cont"`
	CKind  string `json:"ckind"`
	Fill   string `json:"fill"`
	Meta   string `json:"meta"`
	Nested string `json:"nested"`
	Arity  string `json:"arity"`
	Flavor string `json:"flavor"`
}

type c19ValOut struct {
	OK      bool     `json:"ok"`
	Lost    []string `json:"lost"`
	Missing []string `json:"missing"`
}

func c19Bytes(r *rand.Rand, flavor string) []byte {
	n := 1 + r.IntN(48)
	if flavor == "large" {
		n = 4<<10 + r.IntN(28<<10)
	}
	b := make([]byte, n)
	for i := range b {
		b[i] = byte(r.IntN(256))
	}
	return b
}

func c19Meta(r *rand.Rand, class, flavor string) Meta {
	switch class {
	case "flat":
		return Meta{"k": c19Flav(r, flavor), "n": 1.5, "b": true}
	case "nested":
		return Meta{"a": map[string]any{"b": []any{1.0, c19Flav(r, flavor), map[string]any{"c": nil}}}, "io.x/y": c19Flav(r, flavor), "": "empty key"}
	}
	return nil
}

func c19Annot(r *rand.Rand) *Annotations {
	return &Annotations{Audience: []Role{"user", "assistant"}[:1+r.IntN(2)], LastModified: "2025-01-12T15:00:58Z", Priority: c19Pick(r, 0.25, 0.5, 1)}
}

func c19Content(r *rand.Rand, kind, fill, meta, nested, flavor string) Content {
	full := fill == "full"
	m := c19Meta(r, meta, flavor)
	s := func() string { return c19Flav(r, flavor) }
	switch kind {
	case "text":
		c := &TextContent{Meta: m}
		if full {
			c.Text, c.Annotations = s(), c19Annot(r)
		}
		return c
	case "image":
		c := &ImageContent{Meta: m}
		if full {
			c.Data, c.MIMEType, c.Annotations = c19Bytes(r, flavor), "image/png", c19Annot(r)
		}
		return c
	case "audio":
		c := &AudioContent{Meta: m}
		if full {
			c.Data, c.MIMEType, c.Annotations = c19Bytes(r, flavor), "audio/wav", c19Annot(r)
		}
		return c
	case "resource_link":
		c := &ResourceLink{Meta: m}
		if full {
			sz := r.Int64N(1 << 40)
			c.URI, c.Name, c.Title, c.Description, c.MIMEType, c.Size = "file:///"+s(), s(), s(), s(), "text/plain", &sz
			c.Annotations = c19Annot(r)
			c.Icons = []Icon{{Source: "https://example.com/i.png", MIMEType: "image/png", Sizes: []string{"48x48", "any"}, Theme: "dark"}}
		}
		return c
	case "resource_text":
		rc := &ResourceContents{URI: "file:///e.txt"}
		c := &EmbeddedResource{Resource: rc, Meta: m}
		if full {
			rc.Text, rc.MIMEType, rc.Meta = s(), "text/plain", c19Meta(r, "flat", flavor)
			c.Annotations = c19Annot(r)
		}
		return c
	case "resource_blob":
		rc := &ResourceContents{URI: "file:///e.bin", Blob: []byte{}}
		c := &EmbeddedResource{Resource: rc, Meta: m}
		if full {
			rc.Blob, rc.MIMEType = c19Bytes(r, flavor), "application/octet-stream"
			c.Annotations = c19Annot(r)
		}
		return c
	case "tool_use":
		c := &ToolUseContent{Meta: m}
		if full {
			c.ID, c.Name = "call-"+s(), "tool_"+strconv.Itoa(r.IntN(100))
			c.Input = map[string]any{"q": s(), "n": 3.0, "deep": map[string]any{"l": []any{true, nil}}}
		}
		return c
	case "tool_result":
		c := &ToolResultContent{Meta: m}
		switch nested {
		case "empty":
			c.Content = []Content{}
		case "one":
			c.Content = []Content{c19Content(r, "text", "full", "flat", "na", flavor)}
		case "mixed":
			c.Content = []Content{c19Content(r, "image", "full", "none", "na", flavor), c19Content(r, "resource_text", "full", "nested", "na", flavor),
				c19Content(r, "audio", "full", "flat", "na", flavor), c19Content(r, "resource_link", "full", "none", "na", flavor)}
		case "zeros":
			c.Content = []Content{c19Content(r, "text", "zero", "none", "na", flavor), c19Content(r, "image", "zero", "none", "na", flavor),
				c19Content(r, "audio", "zero", "flat", "na", flavor)}
		}
		if full {
			c.ToolUseID, c.IsError = "call-"+s(), true
			c.StructuredContent = c19Pick[any](r, map[string]any{"v": s()}, []any{1.0, "x"}, s(), 42.0)
		}
		return c
	}
	panic("content kind " + kind)
}

var (
	c19TContent  = reflect.TypeOf((*Content)(nil)).Elem()
	c19TContents = reflect.TypeOf([]Content(nil))
)

func c19IsEmpty(v reflect.Value) bool {
	switch v.Kind() {
	case reflect.Pointer, reflect.Interface:
		return v.IsNil()
	case reflect.Slice, reflect.Map, reflect.String:
		return v.Len() == 0
	}
	return v.IsZero()
}

// c19Diff records the names of members of a that are not found equal in b.
func c19Diff(prefix string, a, b reflect.Value, lost map[string]bool) {
	if a.Type() != b.Type() {
		lost[prefix+"(type)"] = true
		return
	}
	switch {
	case a.Type() == c19TContents:
		if a.Len() != b.Len() {
			lost[prefix+"(len)"] = true
			return
		}
		for i := 0; i < a.Len(); i++ {
			c19Diff(fmt.Sprintf("%s[%d]", prefix, i), a.Index(i), b.Index(i), lost)
		}
	case a.Type() == c19TContent:
		if a.IsNil() || b.IsNil() {
			if a.IsNil() != b.IsNil() {
				lost[prefix] = true
			}
			return
		}
		ea, eb := a.Elem(), b.Elem()
		if ea.Type() != eb.Type() {
			lost[prefix+"(kind)"] = true
			return
		}
		c19Diff(prefix, ea, eb, lost)
	case a.Kind() == reflect.Pointer && a.Type().Elem().Kind() == reflect.Struct:
		if a.IsNil() || b.IsNil() {
			if a.IsNil() != b.IsNil() {
				lost[prefix] = true
			}
			return
		}
		c19Diff(prefix, a.Elem(), b.Elem(), lost)
	case a.Kind() == reflect.Slice && a.Type().Elem().Kind() == reflect.Pointer && a.Type().Elem().Elem().Kind() == reflect.Struct:
		if a.Len() != b.Len() {
			lost[prefix+"(len)"] = true
			return
		}
		for i := 0; i < a.Len(); i++ {
			c19Diff(fmt.Sprintf("%s[%d]", prefix, i), a.Index(i), b.Index(i), lost)
		}
	case a.Kind() == reflect.Struct:
		t := a.Type()
		for i := 0; i < t.NumField(); i++ {
			if t.Field(i).PkgPath != "" {
				continue
			}
			c19Diff(prefix+"."+t.Field(i).Name, a.Field(i), b.Field(i), lost)
		}
	default:
		if c19IsEmpty(a) && c19IsEmpty(b) {
			return
		}
		ja, e1 := json.Marshal(a.Interface())
		jb, e2 := json.Marshal(b.Interface())
		if e1 != nil || e2 != nil || !c19JSONEq(ja, jb) {
			lost[prefix] = true
		}
	}
}

// c19Missing lists required members of content objects that are absent or null in the encoding.
func c19Missing(enc []byte) []string {
	dec := json.NewDecoder(bytes.NewReader(enc))
	dec.UseNumber()
	var v any
	if dec.Decode(&v) != nil {
		return []string{"(invalid json)"}
	}
	miss := map[string]bool{}
	var walk func(any)
	walk = func(x any) {
		switch x := x.(type) {
		case []any:
			for _, e := range x {
				walk(e)
			}
		case map[string]any:
			nonnull := func(k string) bool { w, ok := x[k]; return ok && w != nil }
			switch x["type"] {
			case "text":
				if !nonnull("text") {
					miss["text.text"] = true
				}
			case "image", "audio":
				if !nonnull("data") {
					miss[x["type"].(string)+".data"] = true
				}
			case "tool_result":
				if _, ok := x["content"].([]any); !ok {
					miss["tool_result.content"] = true
				}
			case "resource":
				if res, ok := x["resource"].(map[string]any); !ok {
					miss["resource.resource"] = true
				} else if res["text"] == nil && res["blob"] == nil {
					miss["resource.text|blob"] = true
				}
			}
			for k, e := range x {
				if k != "_meta" && k != "structuredContent" && k != "input" {
					walk(e)
				}
			}
		}
	}
	walk(v)
	out := []string{}
	for k := range miss {
		out = append(out, k)
	}
	sort.Strings(out)
	return out
}

func c19RunVal(r *rand.Rand, c c19ValCase) (o c19ValOut, enc string) {
	o.Lost, o.Missing = []string{}, []string{}
	item := func() Content { return c19Content(r, c.CKind, c.Fill, c.Meta, c.Nested, c.Flavor) }
	var list []Content
	switch c.Arity {
	case "empty":
		list = []Content{}
	case "one":
		list = []Content{item()}
	case "two":
		list = []Content{item(), c19Content(r, "text", "full", "none", "na", c.Flavor)}
	}
	role := c19Pick(r, Role("user"), Role("assistant"))
	var a, b any
	switch c.Cont {
	case "calltool":
		x := &CallToolResult{Content: list}
		if c.Fill == "full" {
			x.IsError, x.StructuredContent, x.Meta = true, map[string]any{"s": c19Flav(r, c.Flavor)}, c19Meta(r, "flat", c.Flavor)
		}
		a, b = x, &CallToolResult{}
	case "prompt":
		a = &GetPromptResult{Description: c19Flav(r, c.Flavor), Messages: []*PromptMessage{{Role: role, Content: item()}}}
		b = &GetPromptResult{}
	case "sampling":
		a, b = &SamplingMessage{Role: role, Content: item()}, &SamplingMessage{}
	case "samplingv2":
		a, b = &SamplingMessageV2{Role: role, Content: list}, &SamplingMessageV2{}
	case "createmsg":
		a, b = &CreateMessageResult{Model: "m-1", Role: role, StopReason: "endTurn", Content: item(), Meta: c19Meta(r, c.Meta, c.Flavor)}, &CreateMessageResult{}
	case "createmsgtools":
		a, b = &CreateMessageWithToolsResult{Model: "m-1", Role: role, StopReason: "toolUse", Content: list}, &CreateMessageWithToolsResult{}
	}
	data, err := json.Marshal(a)
	if err != nil {
		return o, "marshal: " + err.Error()
	}
	enc = c19Trunc(data)
	o.Missing = c19Missing(data)
	// the path by which a received result / message is decoded (jsonrpc2 AsyncCall.Await, methodInfo.unmarshalParams):
	// internal/json dispatching to the type's UnmarshalJSON
	if err := internaljson.Unmarshal(data, b); err != nil {
		return o, enc + " unmarshal: " + err.Error()
	}
	o.OK = true
	lost := map[string]bool{}
	c19Diff("", reflect.ValueOf(a), reflect.ValueOf(b), lost)
	for k := range lost {
		o.Lost = append(o.Lost, k)
	}
	sort.Strings(o.Lost)
	return
}

// ---------------------------------------------------------------------------------------------
// Table 4: required members in the bytes that real server / client sessions put on the pipe.

type c19ReqCase struct {
	Type  string `json:"type"`
	Fill  string `json:"fill"`
	Proto string `json:"proto"`
}

type c19ReqOut struct {
	Sent    string `json:"sent"`
	Present bool   `json:"present"`
	Nonnull bool   `json:"nonnull"`
}

// c19Tee records everything written before passing it on.
type c19Tee struct {
	mu  sync.Mutex
	w   io.WriteCloser
	buf bytes.Buffer
}

func (t *c19Tee) Write(p []byte) (int, error) {
	t.mu.Lock()
	t.buf.Write(p)
	t.mu.Unlock()
	return t.w.Write(p)
}
func (t *c19Tee) Close() error { return t.w.Close() }
func (t *c19Tee) mark() int {
	t.mu.Lock()
	defer t.mu.Unlock()
	return t.buf.Len()
}

// responseSince returns the first response (no "method" member) written after mark.
func (t *c19Tee) responseSince(mark int) map[string]json.RawMessage {
	t.mu.Lock()
	data := append([]byte{}, t.buf.Bytes()[mark:]...)
	t.mu.Unlock()
	for _, line := range bytes.Split(data, []byte("\n")) {
		var top map[string]json.RawMessage
		if len(bytes.TrimSpace(line)) == 0 || json.Unmarshal(line, &top) != nil {
			continue
		}
		if _, isReq := top["method"]; !isReq {
			return top
		}
	}
	return nil
}

type c19Sess struct {
	cs       *ClientSession
	ss       *ServerSession
	srv, cli *c19Tee // bytes sent by the server / by the client
	mu       sync.Mutex
	tool     map[string]*CallToolResult
	prompt   map[string]*GetPromptResult
	res      map[string]*ReadResourceResult
	compl    map[string]*CompleteResult
	sample   map[string]*CreateMessageWithToolsResult
	close    func()
}

func c19NewSess(ctx context.Context, proto string, features bool) (*c19Sess, error) {
	s := &c19Sess{tool: map[string]*CallToolResult{}, prompt: map[string]*GetPromptResult{}, res: map[string]*ReadResourceResult{},
		compl: map[string]*CompleteResult{}, sample: map[string]*CreateMessageWithToolsResult{}}
	sopts := &ServerOptions{}
	if features {
		sopts.CompletionHandler = func(_ context.Context, req *CompleteRequest) (*CompleteResult, error) {
			s.mu.Lock()
			defer s.mu.Unlock()
			return s.compl[req.Params.Argument.Value], nil
		}
	}
	server := NewServer(&Implementation{Name: "c19-server", Version: "1"}, sopts)
	copts := &ClientOptions{}
	if features {
		copts.CreateMessageWithToolsHandler = func(_ context.Context, req *CreateMessageWithToolsRequest) (*CreateMessageWithToolsResult, error) {
			s.mu.Lock()
			defer s.mu.Unlock()
			return s.sample[req.Params.SystemPrompt], nil
		}
	}
	client := NewClient(&Implementation{Name: "c19-client", Version: "1"}, copts)
	if features {
		server.AddTool(&Tool{Name: "emit", InputSchema: map[string]any{"type": "object"}}, func(_ context.Context, req *CallToolRequest) (*CallToolResult, error) {
			var args struct{ K string }
			json.Unmarshal(req.Params.Arguments, &args)
			s.mu.Lock()
			defer s.mu.Unlock()
			return s.tool[args.K], nil
		})
		server.AddPrompt(&Prompt{Name: "emit"}, func(_ context.Context, req *GetPromptRequest) (*GetPromptResult, error) {
			s.mu.Lock()
			defer s.mu.Unlock()
			return s.prompt[req.Params.Arguments["k"]], nil
		})
		server.AddResource(&Resource{Name: "one", URI: "c19://fixed"}, func(context.Context, *ReadResourceRequest) (*ReadResourceResult, error) {
			return &ReadResourceResult{Contents: []*ResourceContents{{URI: "c19://fixed", Text: "x"}}}, nil
		})
		server.AddResourceTemplate(&ResourceTemplate{Name: "emit", URITemplate: "c19://item/{k}"}, func(_ context.Context, req *ReadResourceRequest) (*ReadResourceResult, error) {
			s.mu.Lock()
			defer s.mu.Unlock()
			return s.res[strings.TrimPrefix(req.Params.URI, "c19://item/")], nil
		})
		client.AddRoots(&Root{URI: "file:///root", Name: "root"})
	}
	c2sR, c2sW := io.Pipe()
	s2cR, s2cW := io.Pipe()
	s.srv, s.cli = &c19Tee{w: s2cW}, &c19Tee{w: c2sW}
	var err error
	if s.ss, err = server.Connect(ctx, &IOTransport{Reader: c2sR, Writer: s.srv}, nil); err != nil {
		return nil, err
	}
	var co *ClientSessionOptions
	if proto != "latest" {
		co = &ClientSessionOptions{ProtocolVersion: proto}
	}
	if s.cs, err = client.Connect(ctx, &IOTransport{Reader: s2cR, Writer: s.cli}, co); err != nil {
		return nil, err
	}
	s.close = func() {
		s.cs.Close()
		s.ss.Close()
	}
	return s, nil
}

// c19Member looks up a dotted path (array index allowed) in a JSON value.
func c19Member(raw json.RawMessage, path string) (present, nonnull bool) {
	cur := raw
	for _, step := range strings.Split(path, ".") {
		if i, err := strconv.Atoi(step); err == nil {
			var arr []json.RawMessage
			if json.Unmarshal(cur, &arr) != nil || i >= len(arr) {
				return false, false
			}
			cur = arr[i]
			continue
		}
		var obj map[string]json.RawMessage
		if json.Unmarshal(cur, &obj) != nil {
			return false, false
		}
		next, ok := obj[step]
		if !ok {
			return false, false
		}
		cur = next
	}
	return true, string(bytes.TrimSpace(cur)) != "null"
}

func c19RunReq(ctx context.Context, sess map[string]*c19Sess, c c19ReqCase, n int) (o c19ReqOut, sent string) {
	o.Sent = "none"
	key := fmt.Sprintf("k%d", n)
	feat := "bare"
	isList := strings.HasPrefix(c.Type, "List")
	if !isList || c.Fill == "one" {
		feat = "full"
	}
	s := sess[c.Proto+"/"+feat]
	tee, path := s.srv, ""
	oneText := []Content{&TextContent{Text: "x"}}
	pickList := func(nilv, empty, one any) any {
		switch c.Fill {
		case "nil":
			return nilv
		case "empty":
			return empty
		}
		return one
	}
	var call func()
	emitTool := func(res *CallToolResult, p string) {
		s.mu.Lock()
		s.tool[key] = res
		s.mu.Unlock()
		path = p
		call = func() { s.cs.CallTool(ctx, &CallToolParams{Name: "emit", Arguments: map[string]any{"K": key}}) }
	}
	switch c.Type {
	case "ListToolsResult":
		path, call = "tools", func() { s.cs.ListTools(ctx, nil) }
	case "ListPromptsResult":
		path, call = "prompts", func() { s.cs.ListPrompts(ctx, nil) }
	case "ListResourcesResult":
		path, call = "resources", func() { s.cs.ListResources(ctx, nil) }
	case "ListResourceTemplatesResult":
		path, call = "resourceTemplates", func() { s.cs.ListResourceTemplates(ctx, nil) }
	case "ListRootsResult":
		tee, path, call = s.cli, "roots", func() { s.ss.ListRoots(ctx, nil) }
	case "CallToolResult":
		emitTool(&CallToolResult{Content: pickList([]Content(nil), []Content{}, oneText).([]Content)}, "content")
	case "CallToolResult+structured", "CallToolResult+structuredArr", "CallToolResult+structuredMeta", "CallToolResult+isError", "CallToolResult+structured+isError":
		// a raw handler (Server.AddTool) that fills other members of the result and leaves Content as the case says
		res := &CallToolResult{Content: pickList([]Content(nil), []Content{}, oneText).([]Content)}
		switch strings.TrimPrefix(c.Type, "CallToolResult+") {
		case "structured":
			res.StructuredContent = map[string]any{"answer": 42}
		case "structuredArr":
			res.StructuredContent = []any{1, 2, 3}
		case "structuredMeta":
			res.Meta, res.StructuredContent = Meta{"k": "v"}, json.RawMessage(`{"a":[]}`)
		case "isError":
			res.IsError = true
		case "structured+isError":
			res.IsError, res.StructuredContent = true, map[string]any{"error": "boom"}
		}
		emitTool(res, "content")
	case "GetPromptResult":
		one := []*PromptMessage{{Role: "user", Content: &TextContent{Text: "x"}}}
		s.mu.Lock()
		s.prompt[key] = &GetPromptResult{Description: "d", Messages: pickList([]*PromptMessage(nil), []*PromptMessage{}, one).([]*PromptMessage)}
		s.mu.Unlock()
		path, call = "messages", func() { s.cs.GetPrompt(ctx, &GetPromptParams{Name: "emit", Arguments: map[string]string{"k": key}}) }
	case "ReadResourceResult":
		one := []*ResourceContents{{URI: "c19://item/" + key, Text: "x"}}
		s.mu.Lock()
		s.res[key] = &ReadResourceResult{Contents: pickList([]*ResourceContents(nil), []*ResourceContents{}, one).([]*ResourceContents)}
		s.mu.Unlock()
		path, call = "contents", func() { s.cs.ReadResource(ctx, &ReadResourceParams{URI: "c19://item/" + key}) }
	case "CompleteResult":
		s.mu.Lock()
		s.compl[key] = &CompleteResult{Completion: CompletionResultDetails{Values: pickList([]string(nil), []string{}, []string{"v"}).([]string)}}
		s.mu.Unlock()
		path, call = "completion.values", func() {
			s.cs.Complete(ctx, &CompleteParams{Ref: &CompleteReference{Type: "ref/prompt", Name: "emit"}, Argument: CompleteParamsArgument{Name: "k", Value: key}})
		}
	case "CreateMessageWithToolsResult":
		s.mu.Lock()
		s.sample[key] = &CreateMessageWithToolsResult{Model: "m", Role: "assistant", Content: pickList([]Content(nil), []Content{}, oneText).([]Content)}
		s.mu.Unlock()
		tee, path, call = s.cli, "content", func() {
			s.ss.CreateMessageWithTools(ctx, &CreateMessageWithToolsParams{MaxTokens: 5, SystemPrompt: key,
				Messages: []*SamplingMessageV2{{Role: "user", Content: oneText}}})
		}
	case "TextContent":
		emitTool(&CallToolResult{Content: []Content{&TextContent{Text: pickList("", "", "x").(string)}}}, "content.0.text")
	case "ImageContent":
		emitTool(&CallToolResult{Content: []Content{&ImageContent{MIMEType: "image/png", Data: pickList([]byte(nil), []byte{}, []byte{1, 2}).([]byte)}}}, "content.0.data")
	case "AudioContent":
		emitTool(&CallToolResult{Content: []Content{&AudioContent{MIMEType: "audio/wav", Data: pickList([]byte(nil), []byte{}, []byte{1, 2}).([]byte)}}}, "content.0.data")
	case "ToolResultContent":
		emitTool(&CallToolResult{Content: []Content{&ToolResultContent{ToolUseID: "u", Content: pickList([]Content(nil), []Content{}, oneText).([]Content)}}}, "content.0.content")
	default:
		panic("req type " + c.Type)
	}
	mark := tee.mark()
	call()
	resp := tee.responseSince(mark)
	if resp == nil {
		return o, ""
	}
	b, _ := json.Marshal(resp)
	sent = c19Trunc(b)
	if res, ok := resp["result"]; ok {
		o.Sent = "result"
		o.Present, o.Nonnull = c19Member(res, path)
	} else if _, ok := resp["error"]; ok {
		o.Sent = "error"
	}
	return
}

// ---------------------------------------------------------------------------------------------
// Table 5: case sensitivity of the decoders of MCP values (params on the server, content,
// results on the client).  A member whose name differs in letter case must be treated as absent.

type c19VcCase struct {
	Target string `json:"target"`
	Member string `json:"member"`
}

type c19VcOut struct {
	Same     bool `json:"same"`     // decoding the miscased variant == decoding with the member removed
	Accepted bool `json:"accepted"` // the variant decoded without error
}

var c19VcBase = map[string][][2]string{
	"params:tools/call":             {{"name", `"emit"`}, {"arguments", `{"a":1}`}, {"_meta", `{"progressToken":"p1"}`}},
	"params:prompts/get":            {{"name", `"emit"`}, {"arguments", `{"k":"v"}`}, {"_meta", `{"x":1}`}},
	"params:resources/read":         {{"uri", `"file:///x"`}, {"_meta", `{"x":1}`}},
	"params:initialize":             {{"protocolVersion", `"2025-11-25"`}, {"capabilities", `{"roots":{"listChanged":true}}`}, {"clientInfo", `{"name":"c","version":"1"}`}},
	"params:completion/complete":    {{"ref", `{"type":"ref/prompt","name":"p"}`}, {"argument", `{"name":"a","value":"v"}`}, {"context", `{"arguments":{"x":"y"}}`}},
	"params:notifications/progress": {{"progressToken", `"p1"`}, {"progress", `0.5`}, {"total", `2`}, {"message", `"half"`}},
	"params:logging/setLevel":       {{"level", `"debug"`}},
	"content:text":                  {{"type", `"text"`}, {"text", `"hello"`}, {"_meta", `{"m":1}`}, {"annotations", `{"priority":0.5}`}},
	"content:image":                 {{"type", `"image"`}, {"data", `"AQID"`}, {"mimeType", `"image/png"`}, {"_meta", `{"m":1}`}},
	"content:resource":              {{"type", `"resource"`}, {"resource", `{"uri":"file:///x","text":"t"}`}, {"annotations", `{"priority":0.5}`}},
	"content:tool_result":           {{"type", `"tool_result"`}, {"toolUseId", `"u1"`}, {"content", `[{"type":"text","text":"n"}]`}, {"isError", `true`}, {"structuredContent", `{"s":1}`}},
	"result:CallToolResult":         {{"content", `[{"type":"text","text":"hello"}]`}, {"isError", `true`}, {"structuredContent", `{"s":1}`}, {"_meta", `{"m":1}`}},
	"result:GetPromptResult":        {{"messages", `[{"role":"user","content":{"type":"text","text":"hi"}}]`}, {"description", `"d"`}, {"_meta", `{"m":1}`}},
	"result:ReadResourceResult":     {{"contents", `[{"uri":"c19://x","text":"t"}]`}, {"_meta", `{"m":1}`}},
	"result:ListToolsResult":        {{"tools", `[{"name":"t1","inputSchema":{"type":"object"}}]`}, {"nextCursor", `"c2"`}, {"_meta", `{"m":1}`}},
	"result:ListPromptsResult":      {{"prompts", `[{"name":"p1"}]`}, {"nextCursor", `"c2"`}},
	"result:ListResourcesResult":    {{"resources", `[{"name":"r1","uri":"file:///r"}]`}, {"nextCursor", `"c2"`}},
	"result:CompleteResult":         {{"completion", `{"values":["a"],"total":1}`}, {"_meta", `{"m":1}`}},
}

// c19Peer is a scripted raw server for a real ClientSession: it answers initialize and then
// replies to every call with the JSON text in `next`.
type c19Peer struct {
	cs   *ClientSession
	mu   sync.Mutex
	next string
}

func c19NewPeer(ctx context.Context) (*c19Peer, error) {
	p := &c19Peer{}
	c2sR, c2sW := io.Pipe()
	s2cR, s2cW := io.Pipe()
	go func() {
		dec := json.NewDecoder(c2sR) // one JSON value at a time, whatever separates them
		for {
			var req struct {
				ID     json.RawMessage `json:"id"`
				Method string          `json:"method"`
			}
			if err := dec.Decode(&req); err != nil {
				return
			}
			if len(req.ID) == 0 {
				continue
			}
			res := `{}`
			if req.Method == "initialize" {
				res = `{"protocolVersion":"2025-11-25","capabilities":{"tools":{},"prompts":{},"resources":{},"completions":{},"logging":{}},"serverInfo":{"name":"peer","version":"1"}}`
			} else {
				p.mu.Lock()
				res = p.next
				p.mu.Unlock()
			}
			if _, err := s2cW.Write([]byte(`{"jsonrpc":"2.0","id":` + string(req.ID) + `,"result":` + res + "}\n")); err != nil {
				return
			}
		}
	}()
	client := NewClient(&Implementation{Name: "c19-client", Version: "1"}, nil)
	cs, err := client.Connect(ctx, &IOTransport{Reader: s2cR, Writer: c2sW}, &ClientSessionOptions{ProtocolVersion: c19Proto2025})
	if err != nil {
		return nil, err
	}
	p.cs = cs
	return p, nil
}

func (p *c19Peer) result(ctx context.Context, typ, res string) (any, error) {
	p.mu.Lock()
	p.next = res
	p.mu.Unlock()
	switch typ {
	case "CallToolResult":
		return p.cs.CallTool(ctx, &CallToolParams{Name: "t1"})
	case "GetPromptResult":
		return p.cs.GetPrompt(ctx, &GetPromptParams{Name: "p1"})
	case "ReadResourceResult":
		return p.cs.ReadResource(ctx, &ReadResourceParams{URI: "c19://x"})
	case "ListToolsResult":
		return p.cs.ListTools(ctx, &ListToolsParams{Cursor: "c1"})
	case "ListPromptsResult":
		return p.cs.ListPrompts(ctx, &ListPromptsParams{Cursor: "c1"})
	case "ListResourcesResult":
		return p.cs.ListResources(ctx, &ListResourcesParams{Cursor: "c1"})
	case "CompleteResult":
		return p.cs.Complete(ctx, &CompleteParams{Ref: &CompleteReference{Type: "ref/prompt", Name: "p"}, Argument: CompleteParamsArgument{Name: "a", Value: "v"}})
	}
	return nil, fmt.Errorf("result type %s", typ)
}

func c19RunVc(ctx context.Context, r *rand.Rand, peer *c19Peer, c c19VcCase) (o c19VcOut, variant string) {
	base, ok := c19VcBase[c.Target]
	if !ok {
		panic("vc target " + c.Target)
	}
	var full, sib [][2]string
	found := false
	for _, m := range base {
		if m[0] == c.Member {
			full = append(full, [2]string{c19Miscase(r, m[0]), m[1]})
			found = true
		} else {
			full = append(full, m)
			sib = append(sib, m)
		}
	}
	if !found {
		panic("vc member " + c.Target + "." + c.Member)
	}
	seed := r.Uint64()
	jv := c19Wire(rand.New(rand.NewPCG(seed, 2)), full, false, false)
	js := c19Wire(rand.New(rand.NewPCG(seed, 2)), sib, false, false)
	variant = string(jv)
	decode := func(j []byte) (v any, err error) {
		defer func() {
			if p := recover(); p != nil {
				v, err = nil, fmt.Errorf("panic: %v", p)
			}
		}()
		kind, name, _ := strings.Cut(c.Target, ":")
		switch kind {
		case "params":
			if _, isServer := serverMethodInfos[name]; isServer {
				return c19ServerParams(name, j)
			}
			return c19ClientParams(name, j)
		case "content":
			return c19UnmarshalContent(j)
		case "result":
			return peer.result(ctx, name, string(j))
		}
		return nil, fmt.Errorf("target %s", c.Target)
	}
	v1, e1 := decode(jv)
	v2, e2 := decode(js)
	o.Accepted = e1 == nil
	if e1 != nil || e2 != nil {
		o.Same = e1 != nil && e2 != nil
		return
	}
	j1, _ := json.Marshal(v1)
	j2, _ := json.Marshal(v2)
	o.Same = reflect.DeepEqual(v1, v2) && bytes.Equal(j1, j2)
	return
}

// ---------------------------------------------------------------------------------------------
// Arbitrary and mutated bytes into every decoder: the outcome must be a value or an error.

type c19FuzzOut struct {
	K      string `json:"k"`
	Dec    string `json:"dec"`
	Gen    string `json:"gen"`
	N      int    `json:"n"`
	Values int    `json:"values"`
	Errors int    `json:"errors"`
	Panics int    `json:"panics"`
	Sample string `json:"sample"` // first panicking input (quoted, truncated) and the panic value
}

var c19Corpus = []string{
	`{"jsonrpc":"2.0","id":1,"method":"tools/call","params":{"name":"t","arguments":{"a":[1,2,{"b":null}]},"_meta":{"progressToken":7}}}`,
	`{"jsonrpc":"2.0","method":"notifications/progress","params":{"progressToken":"p","progress":0.5}}`,
	`{"jsonrpc":"2.0","id":"s-1","result":{"content":[{"type":"text","text":"hi"},{"type":"image","data":"AQID","mimeType":"image/png"}],"isError":false}}`,
	`{"jsonrpc":"2.0","id":9007199254740993,"error":{"code":-32601,"message":"method not found","data":{"m":"x"}}}`,
	`[{"jsonrpc":"2.0","id":1,"method":"ping"},{"jsonrpc":"2.0","method":"notifications/initialized"}]`,
	`{"content":[{"type":"tool_result","toolUseId":"u","content":[{"type":"resource","resource":{"uri":"file:///x","blob":"AQID"}}],"structuredContent":[1,2]}]}`,
	`{"type":"resource_link","uri":"file:///x","name":"n","size":12,"icons":[{"src":"https://e/x.png","sizes":["48x48"]}],"annotations":{"audience":["user"],"priority":1}}`,
	"event: message\nid: s_12\ndata: {\"jsonrpc\":\"2.0\",\"id\":1,\"result\":{}}\n\n: comment\nretry: 100\ndata: a\ndata: b\n\n",
	`{"name":"t","arguments":{"x":1},"_meta":{"progressToken":1,"io.modelcontextprotocol/protocolVersion":"2026-07-28"}}`,
	`[]`, `[ ]`, `[[]]`, `[null]`, `[{}]`, `null`, `[[{"jsonrpc":"2.0","id":1,"method":"ping"}]]`,
	`[{"jsonrpc":"2.0","id":1,"method":"ping"},{"jsonrpc":"2.0","id":1,"method":"ping"}]`,
}

var c19FrShapes = []string{"empty", "ws", "two-values", "null", "num", "str", "bool", "obj-empty", "obj-msg", "obj-notif", "obj-resp", "obj-bad",
	"arr-empty", "arr-arr-empty", "arr-null", "arr-scalar", "arr-obj-empty", "arr-one", "arr-two", "arr-notifs", "arr-resp", "arr-dupid",
	"arr-bad-last", "arr-bad-first", "arr-nested-msg", "deep", "truncated-arr", "truncated-obj"}

func c19GenInput(r *rand.Rand, gen string) []byte {
	switch gen {
	case "random":
		b := make([]byte, r.IntN(80))
		for i := range b {
			b[i] = byte(r.IntN(256))
		}
		return b
	case "jsonish":
		toks := []string{"{", "}", "[", "]", ":", ",", `"`, `"jsonrpc"`, `"2.0"`, `"id"`, `"method"`, `"params"`, `"result"`, `"error"`, `"code"`, `"message"`, `"data"`,
			`"type"`, `"text"`, `"content"`, `"tool_result"`, "null", "true", "1", "-0", "1e999", "9223372036854775808", "0.5", `"\ud800"`, `"\u0000"`, " ", "\n", "\\", "\xff", "data:", "id:", "event:", "\r\n"}
		var b strings.Builder
		for i, n := 0, r.IntN(40); i < n; i++ {
			b.WriteString(c19Pick(r, toks...))
		}
		return []byte(b.String())
	case "mutated":
		b := []byte(c19Pick(r, c19Corpus...))
		for i, n := 0, 1+r.IntN(4); i < n && len(b) > 0; i++ {
			p := r.IntN(len(b))
			switch r.IntN(6) {
			case 0:
				b[p] ^= 1 << r.IntN(8)
			case 1:
				b = append(b[:p], b[p+1:]...)
			case 2:
				b = append(b[:p], append([]byte{byte(r.IntN(256))}, b[p:]...)...)
			case 3:
				b = b[:p]
			case 4:
				q := r.IntN(len(b))
				if p > q {
					p, q = q, p
				}
				b = append(b[:q], append(append([]byte{}, b[p:q]...), b[q:]...)...)
			case 5:
				b[p] = c19Pick(r, byte('{'), '}', '[', ']', '"', ':', ',', '\n', 0, 0xff, '\\')
			}
		}
		return b
	case "frames": // the structural edge classes of the frame table, with a line end or not, sometimes mutated
		b := c19Frame(r, c19Pick(r, c19FrShapes...), c19Pick(r, "none", "inner", "lead", "trail"), "z", `"nobody"`, true)
		b = append(b, c19Pick(r, "\n", "\r\n", "", "\n\n", "\n[]\n")...)
		if r.IntN(4) == 0 && len(b) > 0 {
			p := r.IntN(len(b))
			b[p] = c19Pick(r, byte('['), ']', '{', '}', ',', ' ', 'n', '0')
		}
		return b
	case "deep":
		d := 1 << (4 + r.IntN(13)) // up to 65536 levels
		open, cls := "[", "]"
		if r.IntN(2) == 0 {
			open, cls = `{"content":`, "}"
		}
		pre := c19Pick(r, "", `{"jsonrpc":"2.0","id":1,"result":`, `{"jsonrpc":"2.0","id":1,"method":"m","params":`, "data: ")
		suf := ""
		if strings.HasPrefix(pre, "{") {
			suf = "}"
		}
		leaf := c19Pick(r, "1", "null", "", `"x"`)
		return []byte(pre + strings.Repeat(open, d) + leaf + strings.Repeat(cls, d-r.IntN(2)) + suf)
	}
	panic("gen " + gen)
}

var (
	c19FuzzOnce    sync.Once
	c19FuzzHandler http.Handler
)

var c19Decoders = map[string]func([]byte) error{
	"DecodeMessage": func(b []byte) error { _, err := jsonrpc.DecodeMessage(b); return err },
	"readBatch":     func(b []byte) error { _, _, err := c19ReadBatch(b); return err },
	"ioConn.Read": func(b []byte) error {
		pr, pw := io.Pipe()
		conn := c19NewIOConn(pr, nil)
		go func() { pw.Write(b); pw.Close() }()
		defer conn.Close()
		ctx, cancel := context.WithTimeout(context.Background(), 10*time.Second)
		defer cancel()
		var first error
		for i := 0; i < 200; i++ {
			if _, err := conn.Read(ctx); err != nil {
				if i == 0 {
					first = err
				}
				break
			}
		}
		return first
	},
	"scanEvents": func(b []byte) error {
		var first error
		n := 0
		c19ScanEvents(bytes.NewReader(b), func(_ Event, err error) bool {
			if err != nil && first == nil && n == 0 {
				first = err
			}
			n++
			return err == nil
		})
		return first
	},
	"servePOST": func(b []byte) error {
		c19FuzzOnce.Do(func() {
			server := NewServer(&Implementation{Name: "c19-fuzz", Version: "1"}, nil)
			c19FuzzHandler = NewStreamableHTTPHandler(func(*http.Request) *Server { return server }, &StreamableHTTPOptions{Stateless: true, DisableLocalhostProtection: true})
		})
		rec := httptest.NewRecorder()
		ctx, cancel := context.WithTimeout(context.Background(), 10*time.Second)
		defer cancel()
		req := httptest.NewRequest("POST", "http://c19.verif.test/mcp", bytes.NewReader(b)).WithContext(ctx)
		req.Header.Set("Content-Type", "application/json")
		req.Header.Set("Accept", "application/json, text/event-stream")
		c19FuzzHandler.ServeHTTP(rec, req)
		if rec.Code >= 300 {
			return fmt.Errorf("status %d", rec.Code)
		}
		return nil
	},
	"unmarshalContent":    func(b []byte) error { _, err := c19UnmarshalContent(b); return err },
	"CallToolResult":      func(b []byte) error { return internaljson.Unmarshal(b, &CallToolResult{}) },
	"GetPromptResult":     func(b []byte) error { return internaljson.Unmarshal(b, &GetPromptResult{}) },
	"CreateMessageResult": func(b []byte) error { return internaljson.Unmarshal(b, &CreateMessageWithToolsResult{}) },
	"params:tools/call":   func(b []byte) error { _, err := c19ServerParams("tools/call", b); return err },
	"params:initialize":   func(b []byte) error { _, err := c19ServerParams("initialize", b); return err },
}

func c19Fuzz(r *rand.Rand, total int, emit func(any)) {
	var decs []string
	for k := range c19Decoders {
		decs = append(decs, k)
	}
	sort.Strings(decs)
	gens := []string{"random", "jsonish", "mutated", "frames", "deep"}
	per := total / (len(decs) * len(gens))
	if per < 1 {
		per = 1
	}
	for _, d := range decs {
		for _, g := range gens {
			n := per
			if g == "deep" {
				n = per/20 + 1
			}
			out := c19FuzzOut{K: "fuzz", Dec: d, Gen: g, N: n}
			for i := 0; i < n; i++ {
				in := c19GenInput(r, g)
				func() {
					defer func() {
						if p := recover(); p != nil {
							out.Panics++
							if out.Sample == "" {
								out.Sample = fmt.Sprintf("%.300q -> %.200v", in, p)
							}
						}
					}()
					if err := c19Decoders[d](in); err != nil {
						out.Errors++
					} else {
						out.Values++
					}
				}()
			}
			emit(out)
		}
	}
}

// ---------------------------------------------------------------------------------------------
// Table 8: arity (nil / empty / one element) of every list- and map-valued member of the result types:
// json.Marshal -> internal/json + the type's own UnmarshalJSON (the path of a receiving session).

type c19ArCase struct {
	Type   string `json:"type"`
	Member string `json:"member"`
	Arity  string `json:"arity"`
	Rt     string `json:"rt"`
	Fill   string `json:"fill"`
}

type c19ArOut struct {
	OK     bool   `json:"ok"`
	Wire   string `json:"wire"`   // absent | null | empty | one | single | other
	IsNil  bool   `json:"isnil"`  // the decoded member is nil
	Len    int    `json:"len"`    // its length
	Same   bool   `json:"same"`   // its elements equal the original's
	Others bool   `json:"others"` // every other member (and the result type) equals the original's
}

// c19FieldByTag finds the (possibly promoted) field whose JSON name is tag.
func c19FieldByTag(v reflect.Value, tag string) (reflect.Value, bool) {
	t := v.Type()
	for i := 0; i < t.NumField(); i++ {
		f := t.Field(i)
		name, _, _ := strings.Cut(f.Tag.Get("json"), ",")
		if name == tag {
			return v.Field(i), true
		}
		if f.Anonymous && name == "" && f.Type.Kind() == reflect.Struct {
			if x, ok := c19FieldByTag(v.Field(i), tag); ok {
				return x, true
			}
		}
	}
	return reflect.Value{}, false
}

func c19FieldByPath(v reflect.Value, path string) reflect.Value {
	for _, step := range strings.Split(path, ".") {
		f, ok := c19FieldByTag(v, step)
		if !ok {
			panic("no member " + path + " in " + v.Type().String())
		}
		v = f
	}
	return v
}

func c19InputRequest(r *rand.Rand, flavor string) InputRequest {
	switch r.IntN(3) {
	case 0:
		return &ListRootsParams{}
	case 1:
		return &ElicitParams{Mode: "url", Message: c19Flav(r, flavor), URL: "https://example.com/x", ElicitationID: "e1"}
	}
	return &ElicitParams{Mode: "form", Message: c19Flav(r, flavor), RequestedSchema: map[string]any{"type": "object", "properties": map[string]any{"n": map[string]any{"type": "string"}}}}
}

// c19ArOne returns a container of type t with one element.
func c19ArOne(r *rand.Rand, t reflect.Type, flavor string) reflect.Value {
	s := func() string { return c19Flav(r, flavor) }
	var v any
	switch t {
	case reflect.TypeOf([]Content(nil)):
		v = []Content{&TextContent{Text: s()}}
	case reflect.TypeOf(Meta(nil)):
		v = Meta{"k": s()}
	case reflect.TypeOf(InputRequestMap(nil)):
		v = InputRequestMap{"r-" + strconv.Itoa(r.IntN(100)): c19InputRequest(r, flavor)}
	case reflect.TypeOf([]*PromptMessage(nil)):
		v = []*PromptMessage{{Role: "user", Content: &TextContent{Text: s()}}}
	case reflect.TypeOf([]*ResourceContents(nil)):
		v = []*ResourceContents{{URI: "file:///one", Text: "t" + s()}}
	case reflect.TypeOf([]*Tool(nil)):
		v = []*Tool{{Name: "t1", Description: s(), InputSchema: map[string]any{"type": "object"}}}
	case reflect.TypeOf([]*Prompt(nil)):
		v = []*Prompt{{Name: "p1", Description: s()}}
	case reflect.TypeOf([]*Resource(nil)):
		v = []*Resource{{Name: "r1", URI: "file:///r", Description: s()}}
	case reflect.TypeOf([]*ResourceTemplate(nil)):
		v = []*ResourceTemplate{{Name: "rt1", URITemplate: "file:///{x}", Description: s()}}
	case reflect.TypeOf([]*Root(nil)):
		v = []*Root{{URI: "file:///root", Name: s()}}
	case reflect.TypeOf([]string(nil)):
		v = []string{s()}
	case reflect.TypeOf(map[string]any(nil)):
		v = map[string]any{"k": s()}
	default:
		panic("c19ArOne: " + t.String())
	}
	return reflect.ValueOf(v)
}

// c19ArValue builds a value of the result type (minimal, or with every other member filled in) and a
// fresh value to decode into.
func c19ArValue(r *rand.Rand, typ string, full bool, flavor string) (a, b any) {
	s := func() string { return c19Flav(r, flavor) }
	text := func() Content { return &TextContent{Text: s()} }
	irm := func() InputRequestMap { return InputRequestMap{"q": c19InputRequest(r, flavor)} }
	cache := Cacheable{}
	if full {
		cache = Cacheable{TTLMs: 1 + r.IntN(100000), CacheScope: "public"}
	}
	switch typ {
	case "CallToolResult":
		x := &CallToolResult{}
		if full {
			*x = CallToolResult{Meta: Meta{"m": s()}, Content: []Content{text()}, StructuredContent: map[string]any{"s": s()}, IsError: true,
				InputRequests: irm(), RequestState: "st-" + s()}
		}
		return x, &CallToolResult{}
	case "GetPromptResult":
		x := &GetPromptResult{}
		if full {
			*x = GetPromptResult{Meta: Meta{"m": s()}, Description: s(), Messages: []*PromptMessage{{Role: "assistant", Content: text()}},
				InputRequests: irm(), RequestState: "st-" + s()}
		}
		return x, &GetPromptResult{}
	case "ReadResourceResult":
		x := &ReadResourceResult{Cacheable: cache}
		if full {
			x.Meta, x.Contents, x.InputRequests, x.RequestState = Meta{"m": s()}, []*ResourceContents{{URI: "file:///f", Blob: []byte{1, 2}}}, irm(), "st-"+s()
		}
		return x, &ReadResourceResult{}
	case "ListToolsResult":
		x := &ListToolsResult{Cacheable: cache}
		if full {
			x.Meta, x.NextCursor, x.Tools = Meta{"m": s()}, "cur-"+s(), []*Tool{{Name: "f", InputSchema: map[string]any{"type": "object"}}}
		}
		return x, &ListToolsResult{}
	case "ListPromptsResult":
		x := &ListPromptsResult{Cacheable: cache}
		if full {
			x.Meta, x.NextCursor, x.Prompts = Meta{"m": s()}, "cur-"+s(), []*Prompt{{Name: "f"}}
		}
		return x, &ListPromptsResult{}
	case "ListResourcesResult":
		x := &ListResourcesResult{Cacheable: cache}
		if full {
			x.Meta, x.NextCursor, x.Resources = Meta{"m": s()}, "cur-"+s(), []*Resource{{Name: "f", URI: "file:///f"}}
		}
		return x, &ListResourcesResult{}
	case "ListResourceTemplatesResult":
		x := &ListResourceTemplatesResult{Cacheable: cache}
		if full {
			x.Meta, x.NextCursor, x.ResourceTemplates = Meta{"m": s()}, "cur-"+s(), []*ResourceTemplate{{Name: "f", URITemplate: "file:///{f}"}}
		}
		return x, &ListResourceTemplatesResult{}
	case "ListRootsResult":
		x := &ListRootsResult{}
		if full {
			x.Meta, x.Roots = Meta{"m": s()}, []*Root{{URI: "file:///f", Name: "f"}}
		}
		return x, &ListRootsResult{}
	case "CompleteResult":
		x := &CompleteResult{}
		if full {
			x.Meta, x.Completion = Meta{"m": s()}, CompletionResultDetails{HasMore: true, Total: 7, Values: []string{s()}}
		}
		return x, &CompleteResult{}
	case "CreateMessageResult":
		x := &CreateMessageResult{Content: text(), Model: "m-1", Role: "assistant"}
		if full {
			x.Meta, x.StopReason = Meta{"m": s()}, "endTurn"
		}
		return x, &CreateMessageResult{}
	case "CreateMessageWithToolsResult":
		x := &CreateMessageWithToolsResult{Model: "m-1", Role: "assistant"}
		if full {
			x.Meta, x.StopReason, x.Content = Meta{"m": s()}, "toolUse", []Content{text(), &ToolUseContent{ID: "u1", Name: "t", Input: map[string]any{"a": 1.0}}}
		}
		return x, &CreateMessageWithToolsResult{}
	case "InitializeResult":
		x := &InitializeResult{ProtocolVersion: c19Proto2025, Capabilities: &ServerCapabilities{}, ServerInfo: &Implementation{Name: "s", Version: "1"}}
		if full {
			x.Meta, x.Instructions = Meta{"m": s()}, s()
		}
		return x, &InitializeResult{}
	case "DiscoverResult":
		x := &DiscoverResult{Cacheable: cache, Capabilities: &ServerCapabilities{}}
		if full {
			x.Meta, x.Instructions, x.SupportedVersions = Meta{"m": s()}, s(), []string{"2025-06-18", "2026-07-28"}
		}
		return x, &DiscoverResult{}
	case "ElicitResult":
		x := &ElicitResult{Action: "accept"}
		if full {
			x.Meta, x.Content = Meta{"m": s()}, map[string]any{"name": s(), "n": 2.0}
		}
		return x, &ElicitResult{}
	case "SubscriptionsListenResult":
		x := &SubscriptionsListenResult{}
		if full {
			x.Meta = Meta{"m": s()}
		}
		return x, &SubscriptionsListenResult{}
	}
	panic("ar type " + typ)
}

// c19ResultType reads the result type of a result value ("" if the type has none).
func c19ResultType(v any) string {
	switch x := v.(type) {
	case *CallToolResult:
		return string(x.resultType)
	case *GetPromptResult:
		return string(x.resultType)
	case *ReadResourceResult:
		return string(x.resultType)
	}
	if f, ok := c19FieldByTag(reflect.ValueOf(v).Elem(), "resultType"); ok {
		return f.String()
	}
	return ""
}

func c19RunAr(r *rand.Rand, c c19ArCase) (o c19ArOut, enc string) {
	flavor := c19Pick(r, "plain", "plain", "unicode", "newline")
	a, b := c19ArValue(r, c.Type, c.Fill == "full", flavor)
	fa := c19FieldByPath(reflect.ValueOf(a).Elem(), c.Member)
	switch c.Arity {
	case "nil":
		fa.Set(reflect.Zero(fa.Type()))
	case "empty":
		if fa.Kind() == reflect.Map {
			fa.Set(reflect.MakeMap(fa.Type()))
		} else {
			fa.Set(reflect.MakeSlice(fa.Type(), 0, 0))
		}
	case "one":
		fa.Set(c19ArOne(r, fa.Type(), flavor).Convert(fa.Type()))
	}
	if c.Rt == "input_required" {
		a.(multiRoundTripResponse).setResultType(resultTypeInputRequired)
	}
	data, err := json.Marshal(a)
	if err != nil {
		return o, "marshal: " + err.Error()
	}
	enc = c19Trunc(data)
	// how the member is spelled on the wire
	o.Wire = "absent"
	cur := json.RawMessage(data)
	steps := strings.Split(c.Member, ".")
	for i, step := range steps {
		var obj map[string]json.RawMessage
		if json.Unmarshal(cur, &obj) != nil {
			o.Wire = "other"
			break
		}
		next, ok := obj[step]
		if !ok {
			break
		}
		cur = next
		if i == len(steps)-1 {
			t := bytes.TrimSpace(cur)
			var list []json.RawMessage
			var m map[string]json.RawMessage
			switch {
			case string(t) == "null":
				o.Wire = "null"
			case json.Unmarshal(t, &list) == nil:
				o.Wire = map[bool]string{true: "empty", false: "one"}[len(list) == 0]
			case json.Unmarshal(t, &m) == nil && fa.Kind() == reflect.Slice:
				o.Wire = "single"
			case json.Unmarshal(t, &m) == nil:
				o.Wire = map[bool]string{true: "empty", false: "one"}[len(m) == 0]
			default:
				o.Wire = "other"
			}
		}
	}
	if err := internaljson.Unmarshal(data, b); err != nil {
		return o, enc + " unmarshal: " + err.Error()
	}
	o.OK = true
	fb := c19FieldByPath(reflect.ValueOf(b).Elem(), c.Member)
	o.IsNil, o.Len = fb.IsNil(), fb.Len()
	ja, e1 := json.Marshal(fa.Interface())
	jb, e2 := json.Marshal(fb.Interface())
	o.Same = fa.Len() == fb.Len() && (fa.Len() == 0 || (e1 == nil && e2 == nil && c19JSONEq(ja, jb)))
	// everything else: the same comparison with the member taken out of both
	rtA, rtB := c19ResultType(a), c19ResultType(b)
	fa.Set(reflect.Zero(fa.Type()))
	fb.Set(reflect.Zero(fb.Type()))
	lost := map[string]bool{}
	c19Diff("", reflect.ValueOf(a), reflect.ValueOf(b), lost)
	o.Others = len(lost) == 0 && rtA == rtB
	if !o.Others {
		keys := []string{}
		for k := range lost {
			keys = append(keys, k)
		}
		sort.Strings(keys)
		enc += fmt.Sprintf(" others lost: %v resultType %q -> %q", keys, rtA, rtB)
	}
	return
}

// ---------------------------------------------------------------------------------------------
// Table 7: frames of every structural edge class through the read loops of the real transports.

type c19FrCase struct {
	Shape string `json:"shape"`
	Pad   string `json:"pad"`
	Term  string `json:"term"`
	Path  string `json:"path"`
	Pos   string `json:"pos"`
	Proto string `json:"proto"`
}

type c19FrOut struct {
	Out string `json:"out"` // value | error | panic | hang   ("crash" is attributed by the runner)
}

const c19FrLimit = 5 * time.Second

// c19PadInner puts white space between the tokens of a JSON text (at least once if there is a place for it).
func c19PadInner(r *rand.Rand, b []byte, nl bool) []byte {
	ws := []string{" ", "\t", "  ", " \t "}
	if nl {
		ws = append(ws, "\n", "\r\n", " \n ")
	}
	var out []byte
	inStr, esc, places := false, false, 0
	for _, ch := range b {
		if inStr {
			out = append(out, ch)
			switch {
			case esc:
				esc = false
			case ch == '\\':
				esc = true
			case ch == '"':
				inStr = false
			}
			continue
		}
		switch ch {
		case '"':
			inStr = true
			out = append(out, ch)
		case '[', '{', ',', ':':
			out = append(out, ch)
			places++
			if places == 1 || (places < 200 && r.IntN(2) == 0) {
				out = append(out, c19Pick(r, ws...)...)
			}
		case ']', '}':
			places++
			if places < 200 && r.IntN(3) == 0 {
				out = append(out, c19Pick(r, ws...)...)
			}
			out = append(out, ch)
		default:
			out = append(out, ch)
		}
	}
	return out
}

// c19Frame concretises a frame shape.  tag makes the ids unique; respID is the id (JSON text) that
// response members carry.
func c19Frame(r *rand.Rand, shape, pad, tag, respID string, nl bool) []byte {
	n := 0
	id := func() string { n++; return fmt.Sprintf(`"f-%s-%d"`, tag, n) }
	call := func(id string) string {
		return `{"jsonrpc":"2.0","id":` + id + `,"method":"ping"` + c19Pick(r, "", `,"params":{}`, `,"params":null`) + `}`
	}
	notif := func() string {
		return c19Pick(r, `{"jsonrpc":"2.0","method":"notifications/progress","params":{"progressToken":"none","progress":1}}`,
			`{"jsonrpc":"2.0","method":"notifications/cancelled","params":{"requestId":"nobody"}}`)
	}
	resp := func() string {
		return `{"jsonrpc":"2.0","id":` + respID + `,` + c19Pick(r, `"result":{}`, `"result":{"x":[]}`, `"error":{"code":-32603,"message":"boom"}`) + `}`
	}
	big := 300 + r.IntN(300)
	if c19Tier == "thorough" {
		big = 2000 + r.IntN(6000)
	}
	var f string
	switch shape {
	case "empty":
		f = ""
	case "ws":
		f = c19Pick(r, " ", "\t", "   ", " \t ")
	case "two-values":
		f = c19Pick(r, "[] []", "{}{}", "[][]", call(id())+" "+call(id()), "[]"+call(id()), call(id())+"[]", "null null", "1 2")
	case "null":
		f = "null"
	case "num":
		f = c19Pick(r, "0", "-1", "1e3", "1.5", "-0", "123456789012345678901234567890")
	case "str":
		f = c19Pick(r, `""`, `"x"`, `"[]"`, `"\u0000"`)
	case "bool":
		f = c19Pick(r, "true", "false")
	case "obj-empty":
		f = "{}"
	case "obj-msg":
		f = call(id())
	case "obj-notif":
		f = notif()
	case "obj-resp":
		f = resp()
	case "obj-bad":
		f = c19Pick(r, `{"jsonrpc":"2.0"}`, `{"id":1}`, `{"jsonrpc":"1.0","id":1,"method":"ping"}`, `{"jsonrpc":"2.0","id":{},"method":"ping"}`,
			`{"jsonrpc":"2.0","id":1,"method":5}`, `{"jsonrpc":"2.0","result":{}}`, `{"a":[]}`, `{"":null}`)
	case "arr-empty":
		f = "[]"
	case "arr-arr-empty":
		f = c19Pick(r, "[[]]", "[[],[]]", "[[[]]]")
	case "arr-null":
		f = c19Pick(r, "[null]", "[null,null]")
	case "arr-scalar":
		f = c19Pick(r, "[1]", `["x"]`, "[true]", "[1,2,3]", `[""]`, "[0]")
	case "arr-obj-empty":
		f = c19Pick(r, "[{}]", "[{},{}]")
	case "arr-one":
		f = "[" + c19Pick(r, call(id()), notif()) + "]"
	case "arr-two":
		f = "[" + call(id()) + "," + c19Pick(r, call(id()), notif()) + "]"
	case "arr-notifs":
		f = "[" + notif() + "," + notif() + "]"
	case "arr-resp":
		f = "[" + resp() + "]"
	case "arr-dupid":
		d := id()
		f = "[" + call(d) + "," + call(d) + "]"
	case "arr-bad-last":
		f = "[" + call(id()) + "," + c19Pick(r, "1", "null", "[]", "{}", `"x"`) + "]"
	case "arr-bad-first":
		f = "[" + c19Pick(r, "1", "null", "[]", "{}", `"x"`) + "," + call(id()) + "]"
	case "arr-nested-msg":
		f = c19Pick(r, "[["+call(id())+"]]", "[["+call(id())+"],"+call(id())+"]")
	case "arr-huge":
		var sb strings.Builder
		sb.WriteString("[")
		for i := 0; i < big; i++ {
			if i > 0 {
				sb.WriteString(",")
			}
			if i%3 == 2 {
				sb.WriteString(notif())
			} else {
				sb.WriteString(call(id()))
			}
		}
		sb.WriteString("]")
		f = sb.String()
	case "arr-huge-null":
		el := c19Pick(r, "null", "[]", "0", "{}")
		f = "[" + strings.Repeat(el+",", 50*big) + el + "]"
	case "deep":
		d := c19Pick(r, 2, 100, 9999, 10000, 10001, 100*big)
		f = strings.Repeat("[", d) + strings.Repeat("]", d)
	case "truncated-arr":
		f = c19Pick(r, "[", "[[", "[{", `[{"jsonrpc":"2.0"`, "["+call(id())+",", "["+call(id()), `["`, "[nul")
	case "truncated-obj":
		f = c19Pick(r, "{", `{"jsonrpc":`, `{"jsonrpc":"2.0","id":1,"method":"ping"`, `{"`, `{"jsonrpc":"2.0","id":1,"method":"pi`)
	default:
		panic("frame shape " + shape)
	}
	b := []byte(f)
	switch pad {
	case "inner":
		b = c19PadInner(r, b, nl)
	case "lead":
		lead := c19Pick(r, " ", "\t", "  \t")
		if nl {
			lead = c19Pick(r, lead, "\n", "\r\n", " \n")
		}
		b = append([]byte(lead), b...)
	case "trail":
		b = append(b, c19Pick(r, " ", "\t", " \t ")...)
	}
	return b
}

func c19Term(term string) string {
	switch term {
	case "lf":
		return "\n"
	case "crlf":
		return "\r\n"
	}
	return ""
}

type c19NopW struct{}

func (c19NopW) Write(p []byte) (int, error) { return len(p), nil }
func (c19NopW) Close() error                { return nil }

func c19FrSentinel(tag string) string {
	return `{"jsonrpc":"2.0","id":"sent-` + tag + `","method":"ping"}`
}

// c19Guard runs f in the calling goroutine's stead with a time limit; a panic of f is recovered
// (f is the SDK function under test, called directly).
func c19Guard(f func() (string, string)) (out, note string) {
	type res struct{ out, note string }
	ch := make(chan res, 1)
	go func() {
		defer func() {
			if p := recover(); p != nil {
				ch <- res{"panic", fmt.Sprintf("panic: %.300v", p)}
			}
		}()
		o, n := f()
		ch <- res{o, n}
	}()
	select {
	case x := <-ch:
		return x.out, x.note
	case <-time.After(c19FrLimit + 2*time.Second):
		return "hang", "no outcome within the time limit"
	}
}

// --- ioConn.Read called directly
func c19FrIOConnRead(c c19FrCase, frame []byte, tag string) (string, string) {
	var stream bytes.Buffer
	if c.Pos == "after" {
		stream.WriteString(c19FrSentinel("pre-"+tag) + "\n")
	}
	stream.Write(frame)
	stream.WriteString(c19Term(c.Term))
	if c.Term != "eof" {
		stream.WriteString(c19FrSentinel("post-"+tag) + "\n")
	}
	conn := c19NewIOConn(io.NopCloser(&stream), c19NopW{})
	defer conn.Close()
	return c19Guard(func() (string, string) {
		ctx, cancel := context.WithTimeout(context.Background(), c19FrLimit)
		defer cancel()
		if c.Pos == "after" {
			conn.sessionUpdated(ServerSessionState{InitializeParams: &InitializeParams{ProtocolVersion: c.Proto}})
			if _, err := conn.Read(ctx); err != nil {
				return "error", "the message before the frame was not read: " + err.Error()
			}
		}
		_, err := conn.Read(ctx)
		switch {
		case err == nil:
			return "value", ""
		case ctx.Err() != nil:
			return "hang", err.Error()
		}
		return "error", err.Error()
	})
}

// c19Lines delivers what is written to a pipe line by line; the channel is closed at the end of the stream.
func c19Lines(rd io.Reader) chan []byte {
	ch := make(chan []byte, 256)
	go func() {
		defer close(ch)
		br := bufio.NewReaderSize(rd, 1<<16)
		for {
			line, err := br.ReadBytes('\n')
			if len(line) > 0 {
				ch <- line
			}
			if err != nil {
				return
			}
		}
	}()
	return ch
}

// c19Await waits for a line that contains want: "value" (seen), "error" (stream ended), "hang".
func c19Await(lines chan []byte, want string, limit <-chan time.Time) string {
	for {
		select {
		case l, ok := <-lines:
			if !ok {
				return "error"
			}
			if bytes.Contains(l, []byte(want)) {
				return "value"
			}
		case <-limit:
			return "hang"
		}
	}
}

func c19CloseWithin(f func()) {
	done := make(chan struct{})
	go func() { f(); close(done) }()
	select {
	case <-done:
	case <-time.After(c19FrLimit):
	}
}

// --- a real ServerSession over IOTransport: the jsonrpc2 read loop calls ioConn.Read
func c19FrIOServer(c c19FrCase, frame []byte, tag string) (out, note string) {
	ctx, cancel := context.WithCancel(context.Background())
	defer cancel()
	server := NewServer(&Implementation{Name: "c19-fr", Version: "1"}, nil)
	c2sR, c2sW := io.Pipe()
	s2cR, s2cW := io.Pipe()
	ss, err := server.Connect(ctx, &IOTransport{Reader: c2sR, Writer: s2cW}, nil)
	if err != nil {
		return "error", "set-up: " + err.Error()
	}
	lines := c19Lines(s2cR)
	defer func() {
		c2sW.Close()
		c19CloseWithin(func() { ss.Close() })
		s2cR.Close()
		c2sR.Close()
	}()
	limit := time.After(c19FrLimit)
	if c.Pos == "after" {
		go c2sW.Write([]byte(`{"jsonrpc":"2.0","id":"init-` + tag + `","method":"initialize","params":{"protocolVersion":"` + c.Proto +
			`","capabilities":{},"clientInfo":{"name":"c","version":"1"}}}` + "\n" + `{"jsonrpc":"2.0","method":"notifications/initialized"}` + "\n"))
		if r := c19Await(lines, `"init-`+tag+`"`, limit); r != "value" {
			return r, "handshake before the frame failed"
		}
	}
	go func() {
		c2sW.Write(append(append([]byte{}, frame...), c19Term(c.Term)...))
		if c.Term == "eof" {
			c2sW.Close()
		} else {
			c2sW.Write([]byte(c19FrSentinel(tag) + "\n"))
		}
	}()
	return c19Await(lines, `"sent-`+tag+`"`, limit), ""
}

// --- a real ClientSession over IOTransport
func c19FrIOClient(c c19FrCase, frame []byte, tag string) (out, note string) {
	ctx, cancel := context.WithCancel(context.Background())
	defer cancel()
	client := NewClient(&Implementation{Name: "c19-fr", Version: "1"}, nil)
	c2sR, c2sW := io.Pipe()
	s2cR, s2cW := io.Pipe()
	var wmu sync.Mutex
	send := func(b []byte) {
		wmu.Lock()
		defer wmu.Unlock()
		s2cW.Write(b)
	}
	framed := append(append([]byte{}, frame...), c19Term(c.Term)...)
	go func() { // the scripted peer
		dec := json.NewDecoder(c2sR)
		for {
			var raw json.RawMessage
			if err := dec.Decode(&raw); err != nil {
				return
			}
			var req struct {
				ID     json.RawMessage `json:"id"`
				Method string          `json:"method"`
			}
			if json.Unmarshal(raw, &req) != nil || len(req.ID) == 0 || req.Method == "" {
				continue // a response, a batch of responses, a notification
			}
			res := `{}`
			if req.Method == "initialize" {
				if c.Pos == "first" {
					send(framed)
					if c.Term == "eof" {
						s2cW.Close()
						continue
					}
				}
				res = `{"protocolVersion":"` + c.Proto + `","capabilities":{},"serverInfo":{"name":"peer","version":"1"}}`
			}
			send([]byte(`{"jsonrpc":"2.0","id":` + string(req.ID) + `,"result":` + res + "}\n"))
		}
	}()
	defer func() {
		s2cW.Close()
		c2sR.Close()
	}()
	type conn struct {
		cs  *ClientSession
		err error
	}
	ch := make(chan conn, 1)
	go func() {
		cs, err := client.Connect(ctx, &IOTransport{Reader: s2cR, Writer: c2sW}, &ClientSessionOptions{ProtocolVersion: c.Proto})
		ch <- conn{cs, err}
	}()
	var cs *ClientSession
	select {
	case x := <-ch:
		if x.err != nil {
			if c.Pos == "first" {
				return "error", "connect: " + x.err.Error()
			}
			return "error", "set-up: connect: " + x.err.Error()
		}
		cs = x.cs
	case <-time.After(c19FrLimit):
		return "hang", "connect did not return"
	}
	defer c19CloseWithin(func() { cs.Close() })
	if c.Pos == "after" {
		send(framed)
		if c.Term == "eof" {
			s2cW.Close()
		}
	}
	pctx, pcancel := context.WithTimeout(ctx, c19FrLimit)
	defer pcancel()
	perr := make(chan error, 1)
	go func() { perr <- cs.Ping(pctx, nil) }()
	select {
	case err := <-perr:
		if err != nil {
			if pctx.Err() != nil {
				return "hang", err.Error()
			}
			return "error", err.Error()
		}
		return "value", ""
	case <-time.After(c19FrLimit + time.Second): // a write into the pipe does not end with its context
		return "hang", "ping did not return"
	}
}

// --- legacy SSE client: sseClientConn.Read called directly
type c19FrSSERT struct{ body io.ReadCloser }

func (rt *c19FrSSERT) RoundTrip(req *http.Request) (*http.Response, error) {
	if req.Method == http.MethodGet {
		return &http.Response{StatusCode: 200, Status: "200 OK", Header: http.Header{"Content-Type": {"text/event-stream"}}, Body: rt.body, Request: req}, nil
	}
	return &http.Response{StatusCode: 202, Status: "202 Accepted", Header: http.Header{}, Body: http.NoBody, Request: req}, nil
}

func c19SSEBytes(name string, data []byte) []byte {
	rw := &c19RW{}
	c19WriteEvent(rw, Event{Name: name, Data: data})
	return rw.buf.Bytes()
}

func c19FrSSEClientRead(c c19FrCase, frame []byte, tag string) (string, string) {
	pr, pw := io.Pipe()
	defer pw.Close()
	go func() {
		pw.Write(c19SSEBytes("endpoint", []byte("/msg?sessionid=1")))
		if c.Pos == "after" {
			pw.Write(c19SSEBytes("message", []byte(c19FrSentinel("pre-"+tag))))
		}
		pw.Write(c19SSEBytes("message", frame))
		pw.Write(c19SSEBytes("message", []byte(c19FrSentinel("post-"+tag))))
	}()
	ctx, cancel := context.WithTimeout(context.Background(), c19FrLimit)
	defer cancel()
	tr := &SSEClientTransport{Endpoint: "http://c19.invalid/sse", HTTPClient: &http.Client{Transport: &c19FrSSERT{body: pr}}}
	conn, err := tr.Connect(ctx)
	if err != nil {
		return "error", "set-up: " + err.Error()
	}
	defer conn.Close()
	return c19Guard(func() (string, string) {
		if c.Pos == "after" {
			if _, err := conn.Read(ctx); err != nil {
				return "error", "the message before the frame was not read: " + err.Error()
			}
		}
		_, err := conn.Read(ctx)
		switch {
		case err == nil:
			return "value", ""
		case ctx.Err() != nil:
			return "hang", err.Error()
		}
		return "error", err.Error()
	})
}

// c19Serve calls an http.Handler of the SDK directly (panics recovered).
func c19Serve(h http.Handler, method string, hdr map[string]string, body []byte) (status int, rh http.Header, out, note string) {
	rec := httptest.NewRecorder()
	ctx, cancel := context.WithTimeout(context.Background(), c19FrLimit)
	defer cancel()
	req := httptest.NewRequest(method, "http://c19.verif.test/mcp", bytes.NewReader(body)).WithContext(ctx)
	for k, v := range hdr {
		if v != "" {
			req.Header.Set(k, v)
		}
	}
	out, note = c19Guard(func() (string, string) {
		h.ServeHTTP(rec, req)
		if ctx.Err() != nil {
			return "hang", "the request context expired"
		}
		if rec.Code >= 200 && rec.Code < 300 {
			return "value", strconv.Itoa(rec.Code)
		}
		return "error", strconv.Itoa(rec.Code) + " " + strings.TrimSpace(c19Trunc(rec.Body.Bytes()))
	})
	if out == "hang" || out == "panic" {
		return 0, http.Header{}, out, note
	}
	return rec.Code, rec.Header(), out, note
}

// --- legacy SSE server: POST body into SSEServerTransport.ServeHTTP
func c19FrSSEServerPost(c c19FrCase, frame []byte, tag string) (string, string) {
	ctx, cancel := context.WithCancel(context.Background())
	defer cancel()
	t := &SSEServerTransport{Endpoint: "/msg?sessionid=1", Response: &c19RW{}}
	conn, err := t.Connect(ctx)
	if err != nil {
		return "error", "set-up: " + err.Error()
	}
	defer conn.Close()
	_, _, out, note := c19Serve(t, "POST", map[string]string{"Content-Type": "application/json"}, frame)
	return out, note
}

// --- streamable HTTP server: POST body into StreamableHTTPHandler.ServeHTTP
func c19FrHTTPPost(c c19FrCase, frame []byte, tag string) (string, string) {
	server := NewServer(&Implementation{Name: "c19-fr", Version: "1"}, nil)
	h := NewStreamableHTTPHandler(func(*http.Request) *Server { return server },
		&StreamableHTTPOptions{Stateless: c.Path == "http.post.stateless", DisableLocalhostProtection: true})
	hdr := map[string]string{"Content-Type": "application/json", "Accept": "application/json, text/event-stream"}
	sid := ""
	defer func() {
		if sid != "" {
			c19Serve(h, "DELETE", map[string]string{"Mcp-Session-Id": sid, "Mcp-Protocol-Version": c.Proto}, nil)
		}
	}()
	if c.Pos == "after" {
		_, rh, out, note := c19Serve(h, "POST", hdr, []byte(`{"jsonrpc":"2.0","id":"init-`+tag+`","method":"initialize","params":{"protocolVersion":"`+c.Proto+
			`","capabilities":{},"clientInfo":{"name":"c","version":"1"}}}`))
		sid = rh.Get("Mcp-Session-Id")
		if out != "value" || sid == "" {
			return "error", "set-up: initialize: " + out + " " + note
		}
		hdr["Mcp-Session-Id"], hdr["Mcp-Protocol-Version"] = sid, c.Proto
		if _, _, out, note := c19Serve(h, "POST", hdr, []byte(`{"jsonrpc":"2.0","method":"notifications/initialized"}`)); out != "value" {
			return "error", "set-up: initialized: " + out + " " + note
		}
	} else {
		hdr["Mcp-Protocol-Version"] = c.Proto
	}
	_, rh, out, note := c19Serve(h, "POST", hdr, frame)
	if sid == "" {
		sid = rh.Get("Mcp-Session-Id")
	}
	return out, note
}

// --- streamable HTTP client: the frame is the JSON body / the data of an SSE event of a POST response
type c19FrCliRT struct {
	mu    sync.Mutex
	sse   bool
	proto string
	calls int
	mk    func(respID string) []byte
	frame []byte
}

func (rt *c19FrCliRT) RoundTrip(req *http.Request) (*http.Response, error) {
	resp := func(code int, ctype string, body []byte) (*http.Response, error) {
		h := http.Header{"Mcp-Session-Id": {"c19-sess"}}
		if ctype != "" {
			h.Set("Content-Type", ctype)
		}
		return &http.Response{StatusCode: code, Status: strconv.Itoa(code) + " " + http.StatusText(code), Header: h,
			Body: io.NopCloser(bytes.NewReader(body)), ContentLength: int64(len(body)), Request: req}, nil
	}
	switch req.Method {
	case http.MethodGet:
		return resp(405, "", nil)
	case http.MethodDelete:
		return resp(204, "", nil)
	}
	body, _ := io.ReadAll(req.Body)
	req.Body.Close()
	var m struct {
		ID     json.RawMessage `json:"id"`
		Method string          `json:"method"`
	}
	json.Unmarshal(body, &m)
	if len(m.ID) == 0 || m.Method == "" {
		return resp(202, "", nil)
	}
	if m.Method == "initialize" {
		return resp(200, "application/json", []byte(`{"jsonrpc":"2.0","id":`+string(m.ID)+`,"result":{"protocolVersion":"`+rt.proto+
			`","capabilities":{},"serverInfo":{"name":"peer","version":"1"}}}`))
	}
	rt.mu.Lock()
	rt.calls++
	first := rt.calls == 1
	if first {
		rt.frame = rt.mk(string(m.ID))
	}
	frame := rt.frame
	rt.mu.Unlock()
	if !first {
		return resp(200, "application/json", []byte(`{"jsonrpc":"2.0","id":`+string(m.ID)+`,"result":{}}`))
	}
	if rt.sse {
		return resp(200, "text/event-stream", c19SSEBytes(c19Pick(rand.New(rand.NewPCG(uint64(len(frame)), 7)), "message", ""), frame))
	}
	return resp(200, "application/json", frame)
}

func c19FrHTTPClient(c c19FrCase, mk func(respID string) []byte, tag string) (out, note string, frame []byte) {
	ctx, cancel := context.WithCancel(context.Background())
	defer cancel()
	rt := &c19FrCliRT{sse: c.Path == "http.client.sse", proto: c.Proto, mk: mk}
	tr := &StreamableClientTransport{Endpoint: "http://c19.invalid/mcp", HTTPClient: &http.Client{Transport: rt}, MaxRetries: -1, DisableStandaloneSSE: true}
	client := NewClient(&Implementation{Name: "c19-fr", Version: "1"}, nil)
	cctx, ccancel := context.WithTimeout(ctx, c19FrLimit)
	defer ccancel()
	cs, err := client.Connect(cctx, tr, &ClientSessionOptions{ProtocolVersion: c.Proto})
	if err != nil {
		return "error", "set-up: connect: " + err.Error(), nil
	}
	defer c19CloseWithin(func() { cs.Close() })
	// the call whose response is the frame: it ends with its response or with the connection, except that a
	// frame that is a request or a notification (a message, but not the response) leaves it pending
	grace := c19FrLimit
	if c.Shape == "obj-msg" || c.Shape == "obj-notif" {
		grace = 300 * time.Millisecond
	}
	p1, p1cancel := context.WithTimeout(ctx, c19FrLimit)
	defer p1cancel()
	done := make(chan error, 1)
	go func() { done <- cs.Ping(p1, nil) }()
	select {
	case err := <-done:
		if err != nil {
			note = "call answered by the frame: " + err.Error()
		}
	case <-time.After(grace):
		note = "call answered by the frame: still pending"
	}
	rt.mu.Lock()
	frame = rt.frame
	rt.mu.Unlock()
	// is the connection still served?
	p2, p2cancel := context.WithTimeout(ctx, c19FrLimit)
	defer p2cancel()
	if err := cs.Ping(p2, nil); err != nil {
		if p2.Err() != nil {
			return "hang", note + "; " + err.Error(), frame
		}
		return "error", note + "; " + err.Error(), frame
	}
	return "value", note, frame
}

// c19FrRecoverable: paths in which the SDK code under test runs in a goroutine of the harness (a panic is
// recovered); in the others it runs in goroutines of the SDK and a panic ends the process.
func c19FrRecoverable(path string) bool {
	switch path {
	case "ioconn.read", "sse.client.read", "sse.server.post", "http.post.stateless", "http.post.stateful":
		return true
	}
	return false
}

func c19RunFr(r *rand.Rand, c c19FrCase, tag string, mark func(frame []byte)) (o c19FrOut, in, note string) {
	// white space may contain line ends (a JSON text may span lines) except in the data of an SSE event
	nl := c.Path != "sse.client.read" && c.Path != "http.client.sse"
	mk := func(respID string) []byte {
		f := c19Frame(r, c.Shape, c.Pad, tag, respID, nl)
		mark(f)
		return f
	}
	var frame []byte
	if c.Path != "http.client.json" && c.Path != "http.client.sse" {
		frame = mk(`"nobody-` + tag + `"`)
	}
	switch c.Path {
	case "ioconn.read":
		o.Out, note = c19FrIOConnRead(c, frame, tag)
	case "io.server":
		o.Out, note = c19FrIOServer(c, frame, tag)
	case "io.client":
		o.Out, note = c19FrIOClient(c, frame, tag)
	case "sse.client.read":
		o.Out, note = c19FrSSEClientRead(c, frame, tag)
	case "sse.server.post":
		o.Out, note = c19FrSSEServerPost(c, frame, tag)
	case "http.post.stateless", "http.post.stateful":
		o.Out, note = c19FrHTTPPost(c, frame, tag)
	case "http.client.json", "http.client.sse":
		o.Out, note, frame = c19FrHTTPClient(c, mk, tag)
	default:
		panic("frame path " + c.Path)
	}
	return o, c19Trunc(frame), note
}

// ---------------------------------------------------------------------------------------------
// Table 11: k goroutines write through ONE newline-delimited connection (IOTransport / ioConn) whose
// io.Writer is not atomic: it delivers every Write in pieces and parks before each piece until the
// scheduler of the case grants it.  The scheduler follows a plan enumerated by TLC (spec/CodecWrite.tla):
// a sequence of offers, each to one writer.  No sleeps: between two steps the scheduler waits until every
// writer goroutine that has not returned is parked (at the gate, or wherever the connection makes it wait),
// which it reads from the goroutine states of the runtime.

type c19WwCase struct {
	K      int     `json:"k"`
	Chunks []int   `json:"chunks"`
	Mix    string  `json:"mix"`
	Cut    string  `json:"cut"`
	Plan   []int   `json:"plan"`
	Orders [][]int `json:"orders"`
}

type c19WwOut struct {
	Errs    int    `json:"errs"`    // writers whose Write did not return nil (or did not return)
	Frames  []int  `json:"frames"`  // per line of the stream: the writer whose message it is, 0 if nobody's
	Peer    []int  `json:"peer"`    // the same for the messages a real ioConn reads from the stream
	PeerEnd string `json:"peerEnd"` // eof | error
}

// c19GID returns the id of the calling goroutine.
func c19GID() uint64 {
	var b [64]byte
	s := b[:runtime.Stack(b[:], false)]
	s = bytes.TrimPrefix(s, []byte("goroutine "))
	if i := bytes.IndexByte(s, ' '); i > 0 {
		n, _ := strconv.ParseUint(string(s[:i]), 10, 64)
		return n
	}
	return 0
}

var c19StackBuf = make([]byte, 1<<18)

// c19GoStates returns the state of every goroutine ("chan receive", "sync.Mutex.Lock", "running", ...).
func c19GoStates() map[uint64]string {
	var dump []byte
	for {
		n := runtime.Stack(c19StackBuf, true)
		if n < len(c19StackBuf) {
			dump = c19StackBuf[:n]
			break
		}
		c19StackBuf = make([]byte, 2*len(c19StackBuf))
	}
	out := map[uint64]string{}
	for len(dump) > 0 {
		line := dump
		if i := bytes.IndexByte(dump, '\n'); i >= 0 {
			line, dump = dump[:i], dump[i+1:]
		} else {
			dump = nil
		}
		if !bytes.HasPrefix(line, []byte("goroutine ")) || !bytes.HasSuffix(line, []byte("]:")) {
			continue
		}
		rest := line[len("goroutine "):]
		sp := bytes.IndexByte(rest, ' ')
		lb := bytes.IndexByte(rest, '[')
		if sp < 0 || lb < 0 {
			continue
		}
		id, err := strconv.ParseUint(string(rest[:sp]), 10, 64)
		if err != nil {
			continue
		}
		st := rest[lb+1 : len(rest)-2]
		if i := bytes.IndexByte(st, ','); i >= 0 {
			st = st[:i]
		}
		out[id] = string(st)
	}
	return out
}

// c19Parked: the goroutine waits for another goroutine (it is neither running nor about to): on a channel,
// in a select, or on a lock / condition of package sync.  Waits inside the runtime ("semacquire": a goroutine
// that starts a garbage collection waits for the world semaphore, which runtime.Stack holds; "GC assist
// wait", ...) pass by themselves and do not count.
func c19Parked(state string) bool {
	return strings.HasPrefix(state, "chan ") || strings.HasPrefix(state, "select") || strings.HasPrefix(state, "sync.")
}

type c19Park struct {
	grant chan struct{}
	ack   chan struct{}
}

// c19Gate is the io.Writer under the connection.  A Write by a registered writer goroutine is cut into
// pieces; before each piece the goroutine parks until the scheduler grants the piece.
type c19Gate struct {
	mu     sync.Mutex
	stream bytes.Buffer
	gids   [4]atomic.Uint64           // writer -> its goroutine
	at     [4]atomic.Pointer[c19Park] // writer -> where it is parked, waiting for a grant
	pieces []int                      // writer -> pieces per Write (index 0 unused)
	cut    string
}

func (g *c19Gate) Close() error { return nil }

func (g *c19Gate) Write(p []byte) (int, error) {
	gid, w := c19GID(), 0
	for i := 1; i < len(g.gids); i++ {
		if g.gids[i].Load() == gid {
			w = i
		}
	}
	if w == 0 { // not one of the writers of the case: passed on whole
		g.mu.Lock()
		g.stream.Write(p)
		g.mu.Unlock()
		return len(p), nil
	}
	for _, part := range c19Split(p, g.pieces[w], g.cut) {
		pk := &c19Park{grant: make(chan struct{}), ack: make(chan struct{}, 1)}
		g.at[w].Store(pk)
		<-pk.grant
		g.mu.Lock()
		g.stream.Write(part)
		g.mu.Unlock()
		pk.ack <- struct{}{}
	}
	return len(p), nil
}

// c19Split cuts p into n pieces (fewer if p is too short).
func c19Split(p []byte, n int, cut string) [][]byte {
	if n > len(p) {
		n = len(p)
	}
	if n <= 1 {
		return [][]byte{p}
	}
	even := func(q []byte, m int) [][]byte {
		var out [][]byte
		for i := 0; i < m; i++ {
			out = append(out, q[i*len(q)/m:(i+1)*len(q)/m])
		}
		return out
	}
	switch cut {
	case "nl-alone": // the last byte (the line end) is a piece of its own
		return append(even(p[:len(p)-1], n-1), p[len(p)-1:])
	case "first-byte":
		return append([][]byte{p[:1]}, even(p[1:], n-1)...)
	}
	return even(p, n)
}

type c19WwRun struct {
	c       c19WwCase
	gate    *c19Gate
	conn    Connection
	msgs    []c19Concrete // index 0 unused
	started []bool
	done    []atomic.Bool
	errs    []error
	stuck   string
}

// settle waits until every writer that was started and has not returned is parked: at the gate, or wherever
// the connection makes it wait.  A writer that is parked somewhere else than at the gate has to be found
// there twice in a row (a lock inside a library is held for a moment, the connection's for as long as
// another writer is inside).
func (s *c19WwRun) settle() bool {
	deadline := time.Now().Add(10 * time.Second)
	confirmed := 0
	for {
		var pending []int
		for w := 1; w <= s.c.K; w++ { // the flags first, then the states
			if s.started[w] && !s.done[w].Load() {
				pending = append(pending, w)
			}
		}
		if len(pending) == 0 {
			return true
		}
		st := c19GoStates()
		ok, elsewhere := true, false
		for _, w := range pending {
			if state, found := st[s.gate.gids[w].Load()]; !found || !c19Parked(state) {
				ok = false
				break
			}
			if s.gate.at[w].Load() == nil {
				elsewhere = true
			}
		}
		switch {
		case ok && !elsewhere:
			return true
		case ok:
			if confirmed++; confirmed >= 2 {
				return true
			}
		default:
			confirmed = 0
		}
		if time.Now().After(deadline) {
			s.stuck = "a writer neither returned nor came to rest: " + s.states()
			return false
		}
		runtime.Gosched()
	}
}

// states describes where the writers are (for the detail log).
func (s *c19WwRun) states() string {
	st := c19GoStates()
	var b strings.Builder
	for w := 1; w <= s.c.K; w++ {
		switch {
		case !s.started[w]:
			fmt.Fprintf(&b, "w%d not started; ", w)
		case s.done[w].Load():
			fmt.Fprintf(&b, "w%d returned; ", w)
		default:
			fmt.Fprintf(&b, "w%d [%s] at-gate=%v; ", w, st[s.gate.gids[w].Load()], s.gate.at[w].Load() != nil)
		}
	}
	return b.String()
}

func (s *c19WwRun) start(w int) {
	ready := make(chan struct{})
	s.started[w] = true
	go func() {
		s.gate.gids[w].Store(c19GID())
		close(ready)
		var err error
		func() {
			defer func() {
				if p := recover(); p != nil {
					err = fmt.Errorf("panic: %v", p)
				}
			}()
			err = s.conn.Write(context.Background(), s.msgs[w].msg)
		}()
		s.errs[w] = err
		s.done[w].Store(true)
	}()
	<-ready
}

// grant lets writer w put one piece on the stream, if it is inside the underlying writer.
func (s *c19WwRun) grant(w int) bool {
	pk := s.gate.at[w].Swap(nil)
	if pk == nil {
		return false
	}
	close(pk.grant)
	<-pk.ack
	return true
}

func (s *c19WwRun) allDone() bool {
	for w := 1; w <= s.c.K; w++ {
		if !s.done[w].Load() {
			return false
		}
	}
	return true
}

func c19WwMsgCase(r *rand.Rand, mix string, w int) c19MsgCase {
	kind := "call"
	switch mix {
	case "requests":
		kind = []string{"call", "notif", "call"}[w-1]
	case "responses":
		kind = []string{"result", "errordata", "error"}[w-1]
	case "mixed":
		kind = []string{"call", "result", "notif"}[w-1]
	}
	c := c19MsgCase{Dir: "enc", Kind: kind, Method: "na", Payload: "absent", Framing: "ndjson",
		ID: []string{"small", "str-ascii", "int>2^53"}[w-1], Flavor: c19Pick(r, "plain", "plain", "unicode", "newline", "ssetext")}
	if r.IntN(40) == 0 {
		c.Flavor = "large"
	}
	switch kind {
	case "call", "notif":
		c.Method, c.Payload = "std", c19Pick(r, "obj", "array", "nested", "meta", "content-text")
		if kind == "notif" {
			c.ID = "absent"
		}
	case "result", "errordata":
		c.Payload = c19Pick(r, "obj", "nested", "content-text", "content-nested", "scalar", "list-empty")
	}
	return c
}

// c19WhoseMsg: the writer whose message m is (every member equal), 0 if nobody's.
func c19WhoseMsg(msgs []c19Concrete, m jsonrpc.Message, err error) int {
	if err != nil || m == nil {
		return 0
	}
	v := c19ViewOfMsg(m)
	for w := 1; w < len(msgs); w++ {
		f := c19Compare(msgs[w].view, v)
		if v.typ == msgs[w].view.typ && f.IDType && f.IDValue && f.Method && f.Params && f.Result && f.ErrCode && f.ErrMsg && f.ErrData {
			return w
		}
	}
	return 0
}

func c19RunWw(r *rand.Rand, c c19WwCase) (o c19WwOut, in, note string) {
	o.Frames, o.Peer, o.PeerEnd = []int{}, []int{}, "eof"
	s := &c19WwRun{c: c, gate: &c19Gate{pieces: append([]int{0}, c.Chunks...), cut: c.Cut}, msgs: make([]c19Concrete, c.K+1),
		started: make([]bool, c.K+1), done: make([]atomic.Bool, c.K+1), errs: make([]error, c.K+1)}
	for w := 1; w <= c.K; w++ {
		s.msgs[w] = c19Concretise(r, c19WwMsgCase(r, c.Mix, w))
		if b, err := jsonrpc.EncodeMessage(s.msgs[w].msg); err == nil {
			in += fmt.Sprintf("w%d=%s ", w, c19Trunc(b))
		}
	}
	pr, pw := io.Pipe() // nothing is ever received on this connection
	conn, err := (&IOTransport{Reader: pr, Writer: s.gate}).Connect(context.Background())
	if err != nil {
		o.Errs = c.K
		return o, in, "connect: " + err.Error()
	}
	s.conn = conn
	defer func() {
		conn.Close()
		pw.Close()
	}()
	// the plan: the first offer to a writer lets it call Write, every further one lets its next piece through
	for _, w := range c.Plan {
		if !s.settle() {
			break
		}
		if !s.started[w] {
			s.start(w)
		} else {
			s.grant(w) // declined if w is not inside the underlying writer
		}
	}
	// drain: everybody may finish
	for s.stuck == "" {
		if !s.settle() {
			break
		}
		if s.allDone() {
			break
		}
		granted := false
		for w := 1; w <= c.K && !granted; w++ {
			granted = s.grant(w)
		}
		if !granted {
			s.stuck = "writers are waiting and none of them is inside the underlying writer: " + s.states()
		}
	}
	for w := 1; w <= c.K; w++ {
		if !s.done[w].Load() {
			o.Errs++
			note += fmt.Sprintf("w%d did not return; ", w)
		} else if s.errs[w] != nil {
			o.Errs++
			note += fmt.Sprintf("w%d: %v; ", w, s.errs[w])
		}
	}
	if s.stuck != "" {
		note += s.stuck + "; "
	}
	s.gate.mu.Lock()
	stream := append([]byte{}, s.gate.stream.Bytes()...)
	s.gate.mu.Unlock()
	// the stream line by line
	for rest := stream; len(rest) > 0; {
		line := rest
		if i := bytes.IndexByte(rest, '\n'); i >= 0 {
			line, rest = rest[:i], rest[i+1:]
		} else {
			rest = nil
		}
		var m jsonrpc.Message
		var derr error
		func() {
			defer func() {
				if p := recover(); p != nil {
					derr = fmt.Errorf("panic: %v", p)
				}
			}()
			m, derr = jsonrpc.DecodeMessage(line)
		}()
		o.Frames = append(o.Frames, c19WhoseMsg(s.msgs, m, derr))
	}
	// the stream as the SDK's own reader sees it
	peer := c19NewIOConn(io.NopCloser(bytes.NewReader(stream)), c19NopW{})
	defer peer.Close()
	ctx, cancel := context.WithTimeout(context.Background(), c19FrLimit)
	defer cancel()
	for i := 0; i < 3*c.K+3; i++ {
		m, rerr := peer.Read(ctx)
		if rerr != nil {
			if !errors.Is(rerr, io.EOF) {
				o.PeerEnd = "error"
				note += "peer: " + rerr.Error()
			}
			break
		}
		o.Peer = append(o.Peer, c19WhoseMsg(s.msgs, m, nil))
	}
	note += " stream=" + c19Trunc(stream)
	return
}

// ---------------------------------------------------------------------------------------------
// Table 9: a decoded message outlives the buffer it was decoded from.

type c19LtCase struct {
	Kind    string `json:"kind"`
	ID      string `json:"id"`
	Payload string `json:"payload"`
	Path    string `json:"path"`
	Reuse   string `json:"reuse"`
}

type c19LtOut struct {
	Cls   string    `json:"cls"`
	Later bool      `json:"later"`
	Enc   bool      `json:"enc"`
	F     c19Fields `json:"f"`
	G     c19Fields `json:"g"`
}

// c19OneLine delivers one line for each call of Read, as a pipe does when the peer writes message by message.
type c19OneLine struct {
	lines [][]byte
	cur   []byte
}

func (l *c19OneLine) Read(p []byte) (int, error) {
	if len(l.cur) == 0 {
		if len(l.lines) == 0 {
			return 0, io.EOF
		}
		l.cur, l.lines = l.lines[0], l.lines[1:]
	}
	n := copy(p, l.cur)
	l.cur = l.cur[n:]
	return n, nil
}

func c19AllTrue(f c19Fields) bool {
	return f.IDType && f.IDValue && f.Method && f.Params && f.Result && f.ErrCode && f.ErrMsg && f.ErrData
}

func c19RunLt(r *rand.Rand, c c19LtCase) (o c19LtOut, in, out string) {
	mc := c19MsgCase{Dir: "dec", Kind: c.Kind, ID: c.ID, Method: "na", Payload: c.Payload, Framing: "ndjson",
		Flavor: c19Pick(r, "plain", "unicode", "newline", "ssetext")}
	if c.Kind == "call" || c.Kind == "notif" {
		mc.Method = "std"
	}
	a, b := c19Concretise(r, mc), c19Concretise(r, mc)
	in = c19Trunc(a.wire)
	var mA, mB jsonrpc.Message
	var errA, errB error
	// further messages between A and B: enough to go through a reader's buffer several times
	filler := func() [][]byte {
		var ls [][]byte
		for n, i := 0, 0; n < 20<<10; i++ {
			x := c19Concretise(r, c19MsgCase{Dir: "dec", Kind: c19Pick(r, "call", "result", "errordata"), ID: c19Pick(r, "small", "str-ascii"), Method: "std",
				Payload: c19Pick(r, "obj", "array", "content-text"), Flavor: "plain", Framing: "ndjson"})
			ls = append(ls, x.wire)
			n += len(x.wire)
		}
		return ls
	}
	switch c.Path {
	case "decode", "batch":
		wrap := func(w []byte) []byte {
			if c.Path == "batch" {
				return []byte("[" + string(w) + "," + string(c19SentinelWire(1)) + "]")
			}
			return w
		}
		decode := func(buf []byte) (jsonrpc.Message, error) {
			if c.Path == "batch" {
				msgs, _, err := c19ReadBatch(buf)
				if err != nil || len(msgs) != 2 || !c19IsSentinel(msgs[1], 1) {
					return nil, fmt.Errorf("batch of two not read: %v", err)
				}
				return msgs[0], nil
			}
			return jsonrpc.DecodeMessage(buf)
		}
		wa, wb := wrap(a.wire), wrap(b.wire)
		buf := make([]byte, 0, max(len(wa), len(wb))+64)
		buf = append(buf[:0], wa...)
		mA, errA = decode(buf)
		switch c.Reuse {
		case "next":
			buf = append(buf[:0], wb...)
			mB, errB = decode(buf)
		case "shifted":
			off := 1 + r.IntN(48)
			buf = append(append(buf[:0], bytes.Repeat([]byte(" "), off)...), wb...)
			mB, errB = decode(buf[off:])
		case "zero":
			clear(buf[:cap(buf)])
			mB, errB = decode(wb)
		}
	case "scanner":
		lines := [][]byte{append(append([]byte{}, a.wire...), '\n')}
		for _, l := range append(filler(), b.wire) {
			lines = append(lines, append(append([]byte{}, l...), '\n'))
		}
		sc := bufio.NewScanner(&c19OneLine{lines: lines})
		sc.Buffer(make([]byte, 0, 4096), 1<<22)
		for i := 0; sc.Scan(); i++ {
			m, err := jsonrpc.DecodeMessage(sc.Bytes())
			if i == 0 {
				mA, errA = m, err
			}
			mB, errB = m, err
		}
	case "ioconn":
		lines := [][]byte{append(append([]byte{}, a.wire...), '\n')}
		for _, l := range append(filler(), b.wire) {
			lines = append(lines, append(append([]byte{}, l...), '\n'))
		}
		conn := c19NewIOConn(io.NopCloser(&c19OneLine{lines: lines}), c19NopW{})
		ctx, cancel := context.WithTimeout(context.Background(), c19FrLimit)
		for i := range lines {
			m, err := conn.Read(ctx)
			if i == 0 {
				mA, errA = m, err
			}
			mB, errB = m, err
			if err != nil {
				break
			}
		}
		cancel()
		conn.Close()
	case "sse":
		rw := &c19RW{}
		for _, d := range append(append([][]byte{a.wire}, filler()...), b.wire) {
			c19WriteEvent(rw, Event{Name: "message", Data: d})
		}
		i := 0
		c19ScanEvents(&c19Chunk{r: bytes.NewReader(rw.buf.Bytes()), rnd: r, size: c19Pick(r, 0, 7, 512, 4096)}, func(e Event, err error) bool {
			if err != nil {
				mB, errB = nil, err
				return false
			}
			m, derr := jsonrpc.DecodeMessage(e.Data) // as the SDK's clients do: decoded at once, the event is not kept
			if i == 0 {
				mA, errA = m, derr
			}
			mB, errB = m, derr
			i++
			return true
		})
	default:
		panic("lt path " + c.Path)
	}
	// only now A is looked at
	o.Cls = c19Cls(mA, errA)
	if errA != nil {
		return o, in, "decode: " + errA.Error()
	}
	if errB == nil && mB != nil {
		vb := c19ViewOfMsg(mB)
		o.Later = vb.typ == b.view.typ && c19AllTrue(c19Compare(b.view, vb))
	}
	if va := c19ViewOfMsg(mA); va.typ == a.view.typ {
		o.F = c19Compare(a.view, va)
	}
	w2, eerr := jsonrpc.EncodeMessage(mA)
	if eerr != nil {
		return o, in, "re-encode: " + eerr.Error()
	}
	o.Enc = true
	o.G = c19Compare(a.view, c19ViewOfWire(w2))
	return o, in, c19Trunc(w2)
}

// ---------------------------------------------------------------------------------------------
// Table 10: a burst of calls through a custom Connection that reuses its read buffer (bufio.Scanner +
// jsonrpc.DecodeMessage) into a real ServerSession.

type c19LbCase struct {
	Size   string `json:"size"`
	ID     string `json:"id"`
	Flavor string `json:"flavor"`
	Hold   string `json:"hold"`
}

type c19LbOut struct {
	N        int `json:"n"`
	Answered int `json:"answered"`
	Intact   int `json:"intact"`
}

// c19Feed delivers one line for each call of Read, as the harness hands them over.
type c19Feed struct {
	ch  chan []byte
	cur []byte
}

func (f *c19Feed) Read(p []byte) (int, error) {
	if len(f.cur) == 0 {
		l, ok := <-f.ch
		if !ok {
			return 0, io.EOF
		}
		f.cur = l
	}
	n := copy(p, f.cur)
	f.cur = f.cur[n:]
	return n, nil
}

type c19ScanConn struct {
	sc       *bufio.Scanner
	allRead  chan struct{} // closed when the session asks for a message after the whole feed has been read
	closed   chan struct{}
	once     sync.Once
	conce    sync.Once
	mu       sync.Mutex
	out      [][]byte // what the session wrote
	want     int      // responses to wait for
	gotFirst chan struct{}
	gotAll   chan struct{}
}

func (c *c19ScanConn) Read(ctx context.Context) (jsonrpc.Message, error) {
	if c.sc.Scan() {
		return jsonrpc.DecodeMessage(c.sc.Bytes())
	}
	c.once.Do(func() { close(c.allRead) })
	select {
	case <-c.closed:
		return nil, io.EOF
	case <-ctx.Done():
		return nil, ctx.Err()
	}
}

func (c *c19ScanConn) Write(_ context.Context, m jsonrpc.Message) error {
	b, err := jsonrpc.EncodeMessage(m)
	if err != nil {
		return err
	}
	c.mu.Lock()
	defer c.mu.Unlock()
	c.out = append(c.out, b)
	if _, isResp := m.(*jsonrpc.Response); isResp {
		select { // the first response is the handshake's
		case <-c.gotFirst:
		default:
			close(c.gotFirst)
		}
		if c.want--; c.want == 0 {
			close(c.gotAll)
		}
	}
	return nil
}

func (c *c19ScanConn) Close() error      { c.conce.Do(func() { close(c.closed) }); return nil }
func (c *c19ScanConn) SessionID() string { return "" }

type c19ScanTransport struct{ conn *c19ScanConn }

func (t *c19ScanTransport) Connect(context.Context) (Connection, error) { return t.conn, nil }

func c19RunLb(r *rand.Rand, c c19LbCase) (o c19LbOut, note string) {
	n := 3 + r.IntN(4)
	if c.Size == "many" {
		n = 120 + r.IntN(80)
	}
	o.N = n
	hello := [][]byte{
		[]byte(`{"jsonrpc":"2.0","id":"init","method":"initialize","params":{"protocolVersion":"` + c19Proto2025 + `","capabilities":{},"clientInfo":{"name":"c","version":"1"}}}` + "\n"),
		[]byte(`{"jsonrpc":"2.0","method":"notifications/initialized"}` + "\n"),
	}
	var lines [][]byte
	args := map[string]string{} // id (JSON text) -> arguments sent under it
	for i := 0; i < n; i++ {
		id := strconv.Itoa(100 + i)
		if c.ID == "str" {
			id = `"c-` + strconv.Itoa(i) + `"`
		}
		a := `{"to":` + c19JS(r, fmt.Sprintf("account-%d-%s", i, c19Flav(r, c.Flavor))) + `,"amount":` + strconv.Itoa(1000+i) + `,"tags":[` + strconv.Itoa(r.IntN(1<<30)) + `,"t` + strconv.Itoa(i) + `"]}`
		args[id] = a
		lines = append(lines, []byte(`{"jsonrpc":"2.0","id":`+id+`,"method":"tools/call","params":{"name":"echo","arguments":`+a+`}}`+"\n"))
	}
	feed := &c19Feed{ch: make(chan []byte, n+2)}
	conn := &c19ScanConn{sc: bufio.NewScanner(feed), allRead: make(chan struct{}), closed: make(chan struct{}),
		want: n + 1, gotFirst: make(chan struct{}), gotAll: make(chan struct{})}
	server := NewServer(&Implementation{Name: "c19-lb", Version: "1"}, nil)
	server.AddTool(&Tool{Name: "echo", InputSchema: map[string]any{"type": "object"}}, func(ctx context.Context, req *CallToolRequest) (*CallToolResult, error) {
		if c.Hold == "held" { // the handlers are slower than the reader
			select {
			case <-conn.allRead:
			case <-ctx.Done():
				return nil, ctx.Err()
			}
		}
		return &CallToolResult{Content: []Content{&TextContent{Text: string(req.Params.Arguments)}}}, nil
	})
	ctx, cancel := context.WithCancel(context.Background())
	defer cancel()
	ss, err := server.Connect(ctx, &c19ScanTransport{conn: conn}, nil)
	if err != nil {
		return o, "connect: " + err.Error()
	}
	// the handshake first, then the whole burst at once
	for _, l := range hello {
		feed.ch <- l
	}
	select {
	case <-conn.gotFirst:
	case <-time.After(c19FrLimit):
		note = "the handshake was not answered; "
	}
	for _, l := range lines {
		feed.ch <- l
	}
	close(feed.ch)
	select {
	case <-conn.gotAll:
	case <-time.After(6 * c19FrLimit):
		note = "not every call was answered within the time limit; "
	}
	conn.mu.Lock()
	out := append([][]byte{}, conn.out...)
	conn.mu.Unlock()
	c19CloseWithin(func() { ss.Close() })
	seen := map[string]int{}
	for _, b := range out {
		var resp struct {
			ID     json.RawMessage `json:"id"`
			Method *string         `json:"method"`
			Result *struct {
				Content []struct {
					Text string `json:"text"`
				} `json:"content"`
				IsError bool `json:"isError"`
			} `json:"result"`
		}
		if json.Unmarshal(b, &resp) != nil || resp.Method != nil {
			continue
		}
		id := string(resp.ID)
		want, mine := args[id]
		if !mine {
			continue
		}
		seen[id]++
		if seen[id] == 1 && resp.Result != nil && !resp.Result.IsError && len(resp.Result.Content) == 1 && c19JSONEq([]byte(resp.Result.Content[0].Text), []byte(want)) {
			o.Intact++
		} else if len(note) < 600 {
			note += fmt.Sprintf("id %s sent with %s answered %s; ", id, want, c19Trunc(b))
		}
	}
	for _, k := range seen {
		if k == 1 {
			o.Answered++
		}
	}
	return
}

// ---------------------------------------------------------------------------------------------

func c19Load[T any](t *testing.T, dir, name string) []T {
	f, err := os.Open(filepath.Join(dir, name))
	if err != nil {
		if os.IsNotExist(err) {
			return nil
		}
		t.Fatal(err)
	}
	defer f.Close()
	var out []T
	sc := bufio.NewScanner(f)
	sc.Buffer(make([]byte, 1<<16), 1<<22)
	for sc.Scan() {
		if len(bytes.TrimSpace(sc.Bytes())) == 0 {
			continue
		}
		var c T
		if err := json.Unmarshal(sc.Bytes(), &c); err != nil {
			t.Fatalf("%s: bad case: %v", name, err)
		}
		out = append(out, c)
	}
	return out
}

// c19Par runs f over cases x reps on a few workers; every (case, rep) gets its own generator derived
// from the seed and its index, so results do not depend on scheduling.  Results come back in order.
type c19Res struct {
	line    any
	in, out string
	detail  bool
}

func c19Par[C any](cases []C, reps int, seed, stream uint64, f func(r *rand.Rand, c C, rep int) c19Res) []c19Res {
	out := make([]c19Res, len(cases)*reps)
	workers, _ := strconv.Atoi(os.Getenv("VERIF_WORKERS"))
	if workers < 1 {
		workers = 4
	}
	idx := make(chan int, 256)
	var wg sync.WaitGroup
	for w := 0; w < workers; w++ {
		wg.Add(1)
		go func() {
			defer wg.Done()
			for i := range idx {
				r := rand.New(rand.NewPCG(seed, stream<<32|uint64(i)))
				out[i] = f(r, cases[i/reps], i%reps)
			}
		}()
	}
	for i := range out {
		idx <- i
	}
	close(idx)
	wg.Wait()
	return out
}

// c19Within runs f (session set-up; its context must outlive the call) with a deadline.
func c19Within[T any](d time.Duration, f func() (T, error)) (T, error) {
	type res struct {
		v   T
		err error
	}
	ch := make(chan res, 1)
	go func() { v, err := f(); ch <- res{v, err} }()
	select {
	case r := <-ch:
		return r.v, r.err
	case <-time.After(d):
		var zero T
		return zero, fmt.Errorf("set-up did not finish within %v", d)
	}
}

func TestVerif_C19(t *testing.T) {
	in, outp := os.Getenv("VERIF_IN"), os.Getenv("VERIF_OUT")
	if in == "" || outp == "" {
		t.Skip("VERIF_IN/VERIF_OUT not set")
	}
	seed, _ := strconv.ParseUint(os.Getenv("VERIF_SEED"), 10, 64)
	reps, _ := strconv.Atoi(os.Getenv("VERIF_REPS"))
	if reps == 0 {
		reps = 1
	}
	nfuzz, _ := strconv.Atoi(os.Getenv("VERIF_FUZZ"))
	fout, err := os.Create(outp)
	if err != nil {
		t.Fatal(err)
	}
	defer fout.Close()
	w := bufio.NewWriterSize(fout, 1<<20)
	defer w.Flush()
	fdet, err := os.Create(outp + ".detail")
	if err != nil {
		t.Fatal(err)
	}
	defer fdet.Close()
	wd := bufio.NewWriterSize(fdet, 1<<20)
	defer wd.Flush()
	line := 0
	emit := func(v any) {
		b, err := json.Marshal(v)
		if err != nil {
			t.Fatal(err)
		}
		w.Write(b)
		w.WriteByte('\n')
		line++
	}
	detail := func(in, out string) {
		if !utf8.ValidString(in) {
			in = strconv.QuoteToASCII(in)
		}
		b, _ := json.Marshal(map[string]any{"line": line, "in": in, "out": out})
		wd.Write(b)
		wd.WriteByte('\n')
	}
	ctx, cancel := context.WithTimeout(context.Background(), 20*time.Minute)
	defer cancel()

	t0 := time.Now()
	// 11. concurrent writers over a non-atomic io.Writer, along the plans of CodecWrite.tla.  First: the scheduler
	// reads the goroutine states of the whole process, which is cheap while there are few goroutines.
	type wwLine struct {
		K string    `json:"k"`
		C c19WwCase `json:"c"`
		O c19WwOut  `json:"o"`
	}
	for i, c := range c19Load[c19WwCase](t, in, "cases_ww.ndjson") {
		if c.K < 2 || c.K > 3 || len(c.Chunks) != c.K {
			t.Fatalf("cases_ww.ndjson: bad case %+v", c)
		}
		o, din, note := c19RunWw(rand.New(rand.NewPCG(seed, 11<<32|uint64(i))), c)
		emit(wwLine{"ww", c, o})
		detail(din, note)
	}
	t.Logf("ww done %v lines=%d", time.Since(t0), line)
	// 9. lifetime of decoded messages
	type ltLine struct {
		K   string    `json:"k"`
		C   c19LtCase `json:"c"`
		O   c19LtOut  `json:"o"`
		Rep int       `json:"rep"`
	}
	for _, x := range c19Par(c19Load[c19LtCase](t, in, "cases_lt.ndjson"), reps, seed, 9, func(r *rand.Rand, c c19LtCase, rep int) (res c19Res) {
		var o c19LtOut
		var din, dout string
		func() {
			defer func() {
				if p := recover(); p != nil {
					o, dout = c19LtOut{Cls: "panic"}, fmt.Sprintf("panic: %v", p)
				}
			}()
			o, din, dout = c19RunLt(r, c)
		}()
		return c19Res{ltLine{"lt", c, o, rep}, din, dout, !(o.Later && o.Enc && c19AllTrue(o.F) && c19AllTrue(o.G))}
	}) {
		emit(x.line)
		if x.detail {
			detail(x.in, x.out)
		}
	}
	// 10. bursts through a buffer-reusing connection into a real session
	type lbLine struct {
		K   string    `json:"k"`
		C   c19LbCase `json:"c"`
		O   c19LbOut  `json:"o"`
		Rep int       `json:"rep"`
	}
	for i, c := range c19Load[c19LbCase](t, in, "cases_lb.ndjson") {
		for rep := 0; rep < reps; rep++ {
			o, note := c19RunLb(rand.New(rand.NewPCG(seed, 10<<32|uint64(i*reps+rep))), c)
			emit(lbLine{"lb", c, o, rep})
			detail(fmt.Sprintf("burst of %d", o.N), note)
		}
	}
	t.Logf("lt+lb done %v lines=%d", time.Since(t0), line)
	// 1. messages
	type msgLine struct {
		K   string     `json:"k"`
		C   c19MsgCase `json:"c"`
		O   c19MsgOut  `json:"o"`
		Rep int        `json:"rep"`
	}
	aborted := 0
	for _, x := range c19Par(c19Load[c19MsgCase](t, in, "cases_msg.ndjson"), reps, seed, 1, func(r *rand.Rand, c c19MsgCase, rep int) c19Res {
		if c.Framing == "ndjson" && c19Timeouts.Load() >= c19MaxTimeouts {
			return c19Res{} // the framing layer hangs: the hangs observed so far are reported, the rest is not run
		}
		o, din, dout := c19RunMsg(r, c)
		f := o.F
		bad := !(f.IDType && f.IDValue && f.Method && f.Params && f.Result && f.ErrCode && f.ErrMsg && f.ErrData) || o.Frame != "ok" || !o.Evmeta
		return c19Res{msgLine{"msg", c, o, rep}, din, dout, bad}
	}) {
		if x.line == nil {
			aborted++
			continue
		}
		emit(x.line)
		if x.detail {
			detail(x.in, x.out)
		}
	}
	if aborted > 0 {
		os.WriteFile(outp+".aborted", []byte(fmt.Sprintf("%d newline-delimited cases not run after %d framing exchanges timed out\n", aborted, c19Timeouts.Load())), 0o644)
	} else {
		os.Remove(outp + ".aborted")
	}
	t.Logf("msg done %v lines=%d", time.Since(t0), line)
	// 2. wire shapes
	type wireLine struct {
		K   string      `json:"k"`
		C   c19WireCase `json:"c"`
		O   c19WireOut  `json:"o"`
		Sib c19WireOut  `json:"sib"`
		Rep int         `json:"rep"`
	}
	for _, x := range c19Par(c19Load[c19WireCase](t, in, "cases_wire.ndjson"), reps, seed, 2, func(r *rand.Rand, c c19WireCase, rep int) c19Res {
		wire, sib, code, text := c19BuildWireShape(r, c)
		o := c19DecodeShape(wire, code, text)
		s := o
		if c.Casing != "exact" {
			s = c19DecodeShape(sib, code, text)
		}
		return c19Res{wireLine{"wire", c, o, s, rep}, string(wire), string(sib), rep == 0}
	}) {
		emit(x.line)
		if x.detail {
			detail(x.in, x.out)
		}
	}
	t.Logf("wire done %v lines=%d", time.Since(t0), line)
	// 3. values
	type valLine struct {
		K   string     `json:"k"`
		C   c19ValCase `json:"c"`
		O   c19ValOut  `json:"o"`
		Rep int        `json:"rep"`
	}
	for _, x := range c19Par(c19Load[c19ValCase](t, in, "cases_val.ndjson"), reps, seed, 3, func(r *rand.Rand, c c19ValCase, rep int) (res c19Res) {
		var o c19ValOut
		var enc string
		func() {
			defer func() {
				if p := recover(); p != nil {
					o = c19ValOut{Lost: []string{fmt.Sprintf("panic: %v", p)}, Missing: []string{}}
				}
			}()
			o, enc = c19RunVal(r, c)
		}()
		return c19Res{valLine{"val", c, o, rep}, enc, strings.Join(append(append([]string{}, o.Lost...), o.Missing...), ","), !o.OK || len(o.Lost) > 0 || len(o.Missing) > 0}
	}) {
		emit(x.line)
		if x.detail {
			detail(x.in, x.out)
		}
	}
	t.Logf("val done %v lines=%d", time.Since(t0), line)
	// 4. required members in what real sessions send
	type reqLine struct {
		K string     `json:"k"`
		C c19ReqCase `json:"c"`
		O c19ReqOut  `json:"o"`
	}
	if reqCases := c19Load[c19ReqCase](t, in, "cases_req.ndjson"); len(reqCases) > 0 {
		sess := map[string]*c19Sess{}
		for _, proto := range []string{c19Proto2025, "latest"} {
			for _, feat := range []string{"bare", "full"} {
				s, err := c19Within(30*time.Second, func() (*c19Sess, error) { return c19NewSess(ctx, proto, feat == "full") })
				if err != nil {
					t.Fatalf("session %s/%s: %v", proto, feat, err)
				}
				defer s.close()
				sess[proto+"/"+feat] = s
			}
		}
		for i, c := range reqCases {
			cctx, ccancel := context.WithTimeout(ctx, 15*time.Second)
			o, sent := c19RunReq(cctx, sess, c, i)
			ccancel()
			emit(reqLine{"req", c, o})
			detail(c.Type+"/"+c.Fill+"/"+c.Proto, sent)
		}
	}
	// 5. case sensitivity of value decoders
	type vcLine struct {
		K   string    `json:"k"`
		C   c19VcCase `json:"c"`
		O   c19VcOut  `json:"o"`
		Rep int       `json:"rep"`
	}
	if vcCases := c19Load[c19VcCase](t, in, "cases_vc.ndjson"); len(vcCases) > 0 {
		peer, err := c19Within(30*time.Second, func() (*c19Peer, error) { return c19NewPeer(ctx) })
		if err != nil {
			t.Fatalf("peer: %v", err)
		}
		defer peer.cs.Close()
		r := rand.New(rand.NewPCG(seed, 19191919))
		for _, c := range vcCases {
			for rep := 0; rep < 4*reps; rep++ {
				cctx, ccancel := context.WithTimeout(ctx, 15*time.Second)
				o, variant := c19RunVc(cctx, r, peer, c)
				ccancel()
				emit(vcLine{"vc", c, o, rep})
				detail(variant, "")
			}
		}
	}
	t.Logf("req+vc done %v lines=%d", time.Since(t0), line)
	// 8. arity of list- and map-valued members of the result types
	type arLine struct {
		K   string    `json:"k"`
		C   c19ArCase `json:"c"`
		O   c19ArOut  `json:"o"`
		Rep int       `json:"rep"`
	}
	for _, x := range c19Par(c19Load[c19ArCase](t, in, "cases_ar.ndjson"), 4*reps, seed, 8, func(r *rand.Rand, c c19ArCase, rep int) (res c19Res) {
		var o c19ArOut
		var enc string
		func() {
			defer func() {
				if p := recover(); p != nil {
					o, enc = c19ArOut{Wire: "other"}, fmt.Sprintf("panic: %v", p)
				}
			}()
			o, enc = c19RunAr(r, c)
		}()
		return c19Res{arLine{"ar", c, o, rep}, fmt.Sprintf("%s.%s/%s/%s/%s", c.Type, c.Member, c.Arity, c.Rt, c.Fill), enc, true}
	}) {
		emit(x.line)
		detail(x.in, x.out)
	}
	t.Logf("ar done %v lines=%d", time.Since(t0), line)
	// 6. arbitrary bytes
	if nfuzz > 0 {
		c19Fuzz(rand.New(rand.NewPCG(seed, 1900)), nfuzz, emit)
	}
	t.Logf("fuzz done %v lines=%d", time.Since(t0), line)
	// 7. frames through the read loops of the real transports, last: in the paths whose reader runs in a
	// goroutine of the SDK a panic ends the process; the case in flight is left in <out>.inflight for the runner
	type frLine struct {
		K   string    `json:"k"`
		C   c19FrCase `json:"c"`
		O   c19FrOut  `json:"o"`
		Rep int       `json:"rep"`
	}
	if frCases := c19Load[c19FrCase](t, in, "cases_fr.ndjson"); len(frCases) > 0 {
		sort.SliceStable(frCases, func(i, j int) bool { return c19FrRecoverable(frCases[i].Path) && !c19FrRecoverable(frCases[j].Path) })
		inflight := outp + ".inflight"
		for rep := 0; rep < reps; rep++ {
			for i, c := range frCases {
				w.Flush()
				wd.Flush()
				mark := func(frame []byte) {
					b, _ := json.Marshal(map[string]any{"k": "fr", "c": c, "o": c19FrOut{Out: "crash"}, "rep": rep, "frame": strconv.QuoteToASCII(c19Trunc(frame))})
					if err := os.WriteFile(inflight, b, 0o644); err != nil {
						t.Fatal(err)
					}
				}
				r := rand.New(rand.NewPCG(seed, 7<<32|uint64(rep*len(frCases)+i)))
				o, fin, note := c19RunFr(r, c, fmt.Sprintf("%d-%d", rep, i), mark)
				emit(frLine{"fr", c, o, rep})
				detail(fin, note)
			}
		}
		w.Flush()
		wd.Flush()
		os.Remove(inflight)
	}
	t.Logf("all done %v lines=%d", time.Since(t0), line)
}
