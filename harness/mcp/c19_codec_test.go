//go:build verif

// Conformance harness for property C19 (wire codec and framing).
//
// Reads the abstract case products enumerated by TLC from spec/Codec.tla (directory VERIF_IN:
// cases_msg.ndjson, cases_wire.ndjson, cases_val.ndjson, cases_req.ndjson, cases_vc.ndjson),
// concretises every case with seeded values, runs the REAL encode / decode / framing paths and
// records, per case, which members survived (VERIF_OUT, ndjson) for the TLA+ monitor CodecMon.
// Nothing is judged here: the harness only compares and reports.
package mcp

import (
	"bufio"
	"bytes"
	"context"
	"encoding/base64"
	"encoding/json"
	"errors"
	"fmt"
	"io"
	"math/big"
	"math/rand/v2"
	"net/http"
	"os"
	"path/filepath"
	"reflect"
	"sort"
	"strconv"
	"strings"
	"sync"
	"testing"
	"time"
	"unicode/utf8"

	"github.com/modelcontextprotocol/go-sdk/internal/jsonrpc2"
	"github.com/modelcontextprotocol/go-sdk/jsonrpc"
)

// ---------------------------------------------------------------------------------------------
// Unexported SDK identifiers used by this harness (all uses go through these shims).

func c19NewIOConn(r io.ReadCloser, w io.WriteCloser) *ioConn { return newIOConn(rwc{rc: r, wc: w}) }

func c19WriteEvent(w http.ResponseWriter, e Event) (int, error) { return writeEvent(w, e) }

func c19ScanEvents(r io.Reader, f func(Event, error) bool) {
	for e, err := range scanEvents(r) {
		if !f(e, err) {
			return
		}
	}
}

func c19UnmarshalContent(raw json.RawMessage) ([]Content, error) { return unmarshalContent(raw, nil) }

func c19ReadBatch(data []byte) ([]jsonrpc.Message, bool, error) { return readBatch(data) }

// c19ServerParams decodes request params exactly as a server session does.
func c19ServerParams(method string, raw json.RawMessage) (any, error) {
	mi, ok := serverMethodInfos[method]
	if !ok {
		return nil, fmt.Errorf("no such method %q", method)
	}
	return mi.unmarshalParams(raw)
}

func c19ClientParams(method string, raw json.RawMessage) (any, error) {
	mi, ok := clientMethodInfos[method]
	if !ok {
		return nil, fmt.Errorf("no such method %q", method)
	}
	return mi.unmarshalParams(raw)
}

const c19Proto2025 = protocolVersion20251125

// ---------------------------------------------------------------------------------------------
// Seeded concretisation of the abstract classes.

func c19Pick[T any](r *rand.Rand, xs ...T) T { return xs[r.IntN(len(xs))] }

var c19Tier = os.Getenv("VERIF_TIER")

// c19Flav returns a string of the given flavour.
func c19Flav(r *rand.Rand, flavor string) string {
	switch flavor {
	case "plain":
		return c19Pick(r, "alpha", "x-1", "Hello, World", "a b  c", `<&>"'\/`, "tab\there", "0", "null", "{}", "~!@#$%^&*()")
	case "unicode":
		return c19Pick(r, "h\u00e9llo w\u00f6rld", "\u65e5\u672c\u8a9e\u30c6\u30ad\u30b9\u30c8", "\U0001f600\U0001f389 emoji \U0001f469\u200d\U0001f469\u200d\U0001f467",
			"line\u2028sep\u2029para", "e\u0301 combining", "\u202eRTL override", "\u212a kelvin \u017f long-s", "nul\x00byte \x01\x1f ctl \x7f",
			"\ufffd replacement", "\U0010ffff max", "ZWJ\u200dZWNJ\u200c", "\u00a0nbsp\u3000ideographic\u0085nel", "\u01c4 titlecase \u01c5 \u01c6", "\ufeffbom")
	case "newline":
		return c19Pick(r, "a\nb", "a\r\nb", "a\rb", "\nleading", "trailing\n", "two\n\nblank", "\n", "\r\n\r\n", "x\n\n\ny\r", "\n\n")
	case "ssetext":
		return c19Pick(r, "data: {\"x\":1}", "\n\ndata: evil\n\n", "event: message\nid: 7\ndata: {}\n\n", ":comment", "retry: 10\n",
			"id: 999\n\n", "data:", "data: a\ndata: b", "\r\n\r\ndata: x\r\n\r\n", "event:close\n\n", ": keep-alive\n\ndata: {\"jsonrpc\":\"2.0\"}\n\n")
	case "large":
		n := 8<<10 + r.IntN(120<<10)
		if c19Tier == "thorough" && r.IntN(40) == 0 {
			n = 1<<20 + r.IntN(3<<20)
		}
		unit := c19Pick(r, "0123456789abcdef", "lorem ipsum \n", "data: x\n\n", "日本語😀", "\"quoted\" \\ back", "\x00\x01")
		var b strings.Builder
		for b.Len() < n {
			b.WriteString(unit)
		}
		return b.String()
	}
	panic("flavor " + flavor)
}

// c19JS encodes s as a JSON string literal in one of several equivalent spellings.
func c19JS(r *rand.Rand, s string) string {
	switch r.IntN(3) {
	case 0: // encoding/json default (HTML-escaping)
		b, _ := json.Marshal(s)
		return string(b)
	case 1: // no HTML escaping
		var buf bytes.Buffer
		enc := json.NewEncoder(&buf)
		enc.SetEscapeHTML(false)
		enc.Encode(s)
		return strings.TrimRight(buf.String(), "\n")
	default: // every non-ASCII rune as \uXXXX (surrogate pairs above the BMP)
		var b strings.Builder
		b.WriteByte('"')
		for _, c := range s {
			switch {
			case c == '"' || c == '\\':
				b.WriteByte('\\')
				b.WriteRune(c)
			case c < 0x20 || c == 0x7f:
				fmt.Fprintf(&b, `\u%04x`, c)
			case c < 0x7f:
				b.WriteRune(c)
			case c > 0xffff:
				c -= 0x10000
				fmt.Fprintf(&b, `\u%04x\u%04x`, 0xd800+(c>>10), 0xdc00+(c&0x3ff))
			default:
				fmt.Fprintf(&b, `\u%04x`, c)
			}
		}
		b.WriteByte('"')
		return b.String()
	}
}

// c19ID concretises an id class: kind 0 absent, 1 integer, 2 string.
func c19ID(r *rand.Rand, class, flavor string) (kind int, n int64, s string) {
	const p53 = int64(1) << 53
	bigOdd := func() int64 { // odd, in (2^53+1, 2^63-1): never a float64
		return (p53 + 2 + r.Int64N(1<<62-p53)) | 1
	}
	switch class {
	case "absent":
		return 0, 0, ""
	case "zero":
		return 1, 0, ""
	case "small":
		return 1, 1 + r.Int64N(1_000_000), ""
	case "neg":
		return 1, -1 - r.Int64N(1_000_000), ""
	case "2^53-1":
		return 1, p53 - 1, ""
	case "2^53":
		return 1, p53, ""
	case "-2^53":
		return 1, -p53, ""
	case "int>2^53rep": // at most 53 significant bits: exactly representable
		m := (int64(1) << 52) + r.Int64N(1<<52)
		v := m << (1 + r.IntN(9))
		if r.IntN(2) == 0 {
			v = -v
		}
		return 1, v, ""
	case "int64min":
		return 1, -1 << 63, ""
	case "2^53+1":
		return 1, p53 + 1, ""
	case "-2^53-1":
		return 1, -p53 - 1, ""
	case "int>2^53":
		return 1, bigOdd(), ""
	case "int<-2^53":
		return 1, -bigOdd(), ""
	case "int64max":
		return 1, 1<<63 - 1, ""
	case "str-empty":
		return 2, 0, ""
	case "str-ascii":
		return 2, 0, fmt.Sprintf("req-%d", r.IntN(100000))
	case "str-unicode":
		return 2, 0, c19Flav(r, c19Pick(r, "unicode", "newline", "ssetext"))
	case "str-numeric":
		return 2, 0, c19Pick(r, "42", "9007199254740993", "1e3", "-0", "0x10", " 1", "1.0", "9223372036854775807", "null", "true")
	}
	panic("id class " + class)
}

var c19StdMethods = []string{"tools/call", "tools/list", "initialize", "ping", "notifications/progress", "notifications/initialized",
	"resources/read", "prompts/get", "sampling/createMessage", "completion/complete", "notifications/cancelled"}

func c19Nest(r *rand.Rand, depth int, leaf string) string {
	var open, cls strings.Builder
	for i := 0; i < depth; i++ {
		if r.IntN(2) == 0 {
			open.WriteString(`{"k":`)
			cls.WriteString("}")
		} else {
			open.WriteString("[")
			cls.WriteString("]")
		}
	}
	c := []byte(cls.String())
	for i, j := 0, len(c)-1; i < j; i, j = i+1, j-1 {
		c[i], c[j] = c[j], c[i]
	}
	return open.String() + leaf + string(c)
}

// c19Payload returns JSON text for a payload class (nil for "absent").
func c19Payload(r *rand.Rand, class, flavor string) []byte {
	s := func() string { return c19JS(r, c19Flav(r, flavor)) }
	b64 := func() string {
		n := 1 + r.IntN(64)
		if flavor == "large" {
			n = 8<<10 + r.IntN(64<<10)
		}
		raw := make([]byte, n)
		for i := range raw {
			raw[i] = byte(r.IntN(256))
		}
		return `"` + base64.StdEncoding.EncodeToString(raw) + `"`
	}
	switch class {
	case "absent":
		return nil
	case "null":
		return []byte("null")
	case "emptyobj":
		return []byte("{}")
	case "obj":
		return []byte(`{"a":1,"b":` + s() + `,"c":true,"d":null,"e":1.5,"f":""}`)
	case "array":
		return []byte(`[1,` + s() + `,null,{"k":[]},[],-2.5e-3]`)
	case "scalar":
		return []byte(c19Pick(r, s(), "42", "true", "false", "0", "-1.5", `""`))
	case "nested":
		return []byte(`{"n":` + c19Nest(r, 3+r.IntN(40), s()) + `}`)
	case "meta":
		tok := c19Pick(r, "7", `"tok-1"`, s(), "9007199254740993")
		return []byte(`{"_meta":{"progressToken":` + tok + `,"io.modelcontextprotocol/x":{"k":` + s() + `},"":0},"name":"t","arguments":{"x":` + s() + `}}`)
	case "content-text":
		return []byte(`{"content":[{"type":"text","text":` + s() + `}]}`)
	case "content-image":
		return []byte(`{"content":[{"type":"image","data":` + b64() + `,"mimeType":"image/png"}],"isError":false}`)
	case "content-nested":
		return []byte(`{"content":[{"type":"tool_result","toolUseId":"u1","content":[{"type":"text","text":` + s() +
			`,"_meta":{"a":1}},{"type":"resource","resource":{"uri":"file:///x","text":` + s() + `}}],"structuredContent":{"v":` + s() + `}}]}`)
	case "list-empty":
		return []byte(`{"` + c19Pick(r, "tools", "prompts", "resources", "roots", "content") + `":[]}`)
	case "list-null":
		return []byte(`{"` + c19Pick(r, "tools", "prompts", "resources", "roots", "content") + `":null,"nextCursor":null}`)
	case "dupkeys":
		return []byte(`{"a":1,"a":` + s() + `,"A":2,"a":{"a":null}}`)
	case "bignum":
		return []byte(`{"n":9007199254740993,"f":0.1000000000000000055511151231257827,"e":1e400,"z":-0,"big":123456789012345678901234567890,"m":-9223372036854775809,"x":1E+2,"s":` + s() + `}`)
	}
	panic("payload class " + class)
}

var c19Codes = []int64{-32700, -32600, -32601, -32602, -32603, -32002, 0, 1, -1, 9007199254740993, -9007199254740993, 1<<63 - 1, -1 << 63}

// ---------------------------------------------------------------------------------------------
// Neutral view of a message: what the original says and what came back.

type c19View struct {
	typ       string // "request", "response", "reject"
	idKind    int    // 0 absent, 1 number, 2 string
	idNum     *big.Rat
	idStr     string
	hasMethod bool
	method    string
	params    []byte // nil: absent
	result    []byte
	hasErr    bool
	errCode   *big.Rat
	errMsg    string
	errData   []byte
}

type c19Fields struct {
	IDType  bool `json:"idType"`
	IDValue bool `json:"idValue"`
	Method  bool `json:"method"`
	Params  bool `json:"params"`
	Result  bool `json:"result"`
	ErrCode bool `json:"errCode"`
	ErrMsg  bool `json:"errMsg"`
	ErrData bool `json:"errData"`
}

func c19RatEq(a, b *big.Rat) bool {
	if a == nil || b == nil {
		return a == b
	}
	return a.Cmp(b) == 0
}

// c19JSONEq: semantic JSON equality with exact numbers; absent (empty) only equals absent.
func c19JSONEq(a, b []byte) bool {
	if len(a) == 0 || len(b) == 0 {
		return len(a) == 0 && len(b) == 0
	}
	var ca, cb bytes.Buffer
	if json.Compact(&ca, a) == nil && json.Compact(&cb, b) == nil && bytes.Equal(ca.Bytes(), cb.Bytes()) {
		return true
	}
	da, db := json.NewDecoder(bytes.NewReader(a)), json.NewDecoder(bytes.NewReader(b))
	da.UseNumber()
	db.UseNumber()
	var va, vb any
	if da.Decode(&va) != nil || db.Decode(&vb) != nil {
		return false
	}
	return c19DeepEq(va, vb)
}

func c19DeepEq(a, b any) bool {
	switch x := a.(type) {
	case json.Number:
		y, ok := b.(json.Number)
		if !ok {
			return false
		}
		rx, ok1 := new(big.Rat).SetString(string(x))
		ry, ok2 := new(big.Rat).SetString(string(y))
		return ok1 && ok2 && rx.Cmp(ry) == 0
	case map[string]any:
		y, ok := b.(map[string]any)
		if !ok || len(x) != len(y) {
			return false
		}
		for k, v := range x {
			w, ok := y[k]
			if !ok || !c19DeepEq(v, w) {
				return false
			}
		}
		return true
	case []any:
		y, ok := b.([]any)
		if !ok || len(x) != len(y) {
			return false
		}
		for i := range x {
			if !c19DeepEq(x[i], y[i]) {
				return false
			}
		}
		return true
	default:
		return reflect.DeepEqual(a, b)
	}
}

func c19Compare(a, b *c19View) c19Fields {
	var f c19Fields
	if b == nil || b.typ == "reject" {
		return f
	}
	f.IDType = a.idKind == b.idKind
	f.IDValue = f.IDType && (a.idKind == 0 || (a.idKind == 1 && c19RatEq(a.idNum, b.idNum)) || (a.idKind == 2 && a.idStr == b.idStr))
	f.Method = a.hasMethod == b.hasMethod && a.method == b.method
	f.Params = c19JSONEq(a.params, b.params)
	f.Result = c19JSONEq(a.result, b.result)
	f.ErrCode = a.hasErr == b.hasErr && (!a.hasErr || c19RatEq(a.errCode, b.errCode))
	f.ErrMsg = a.hasErr == b.hasErr && (!a.hasErr || a.errMsg == b.errMsg)
	f.ErrData = a.hasErr == b.hasErr && (!a.hasErr || c19JSONEq(a.errData, b.errData))
	return f
}

// c19ViewOfMsg projects a decoded Go message.
func c19ViewOfMsg(m jsonrpc.Message) *c19View {
	v := &c19View{}
	setID := func(id jsonrpc.ID) {
		switch x := id.Raw().(type) {
		case int64:
			v.idKind, v.idNum = 1, new(big.Rat).SetInt64(x)
		case string:
			v.idKind, v.idStr = 2, x
		}
	}
	switch m := m.(type) {
	case *jsonrpc.Request:
		v.typ, v.hasMethod, v.method = "request", true, m.Method
		setID(m.ID)
		if len(m.Params) > 0 {
			v.params = m.Params
		}
	case *jsonrpc.Response:
		v.typ = "response"
		setID(m.ID)
		if len(m.Result) > 0 {
			v.result = m.Result
		}
		if m.Error != nil {
			v.hasErr = true
			var we *jsonrpc.Error
			if errors.As(m.Error, &we) {
				v.errCode = new(big.Rat).SetInt64(we.Code)
				if len(we.Data) > 0 {
					v.errData = we.Data
				}
			} else {
				v.errCode = new(big.Rat)
			}
			v.errMsg = m.Error.Error()
		}
	default:
		v.typ = "reject"
	}
	return v
}

// c19ViewOfWire projects wire bytes (member names matched exactly).
func c19ViewOfWire(w []byte) *c19View {
	var top map[string]json.RawMessage
	if err := json.Unmarshal(w, &top); err != nil {
		return &c19View{typ: "reject"}
	}
	v := &c19View{typ: "response"}
	if raw, ok := top["id"]; ok && string(raw) != "null" {
		if raw[0] == '"' {
			v.idKind = 2
			json.Unmarshal(raw, &v.idStr)
		} else if n, ok := new(big.Rat).SetString(string(raw)); ok {
			v.idKind, v.idNum = 1, n
		} else {
			v.idKind = 3
		}
	}
	if raw, ok := top["method"]; ok {
		v.typ, v.hasMethod = "request", true
		json.Unmarshal(raw, &v.method)
	}
	if raw, ok := top["params"]; ok {
		v.params = raw
	}
	if raw, ok := top["result"]; ok {
		v.result = raw
	}
	if raw, ok := top["error"]; ok && string(raw) != "null" {
		v.hasErr = true
		var e map[string]json.RawMessage
		json.Unmarshal(raw, &e)
		if c, ok := e["code"]; ok {
			v.errCode, _ = new(big.Rat).SetString(string(c))
		}
		json.Unmarshal(e["message"], &v.errMsg)
		if d, ok := e["data"]; ok {
			v.errData = d
		}
	}
	return v
}

func c19Cls(m jsonrpc.Message, err error) string {
	if err != nil {
		return "reject"
	}
	switch m := m.(type) {
	case *jsonrpc.Request:
		if m.IsCall() {
			return "call"
		}
		return "notif"
	case *jsonrpc.Response:
		if m.Error != nil {
			return "error"
		}
		return "result"
	}
	return "reject"
}
