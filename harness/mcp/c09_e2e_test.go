//go:build verif

// END-TO-END harness for properties C08 and C09 together (spec/StreamE2E.tla, monitor
// spec/StreamE2EMon.tla): a REAL mcp.Client over a REAL StreamableClientTransport talks to a
// REAL StreamableHTTPHandler + mcp.Server with an event store (protocol versions before
// 2026-07-28, with and without priming events) through an in-process http.RoundTripper that
// the scenario controls.  No sockets: the RoundTripper runs handler.ServeHTTP in a goroutine
// with a pipe-backed ResponseWriter; every scenario runs in its own testing/synctest bubble
// (the client's reconnect delays cost nothing; a hang is an observation at quiescence).
//
// A scenario is a list of ENVIRONMENT steps (the actions of StreamE2E.tla):
//
//	call r                 the client calls the gated tool; its handler waits for commands
//	emit s                 s = r: the handler of r sends a notification on the request's stream
//	                       (progress / log message, alternating); s = sa: the server sends a
//	                       notification outside any request (progress / resource updated)
//	sreq r                 the handler makes a nested server->client request (ping) and waits
//	ret r                  the handler returns the call's result
//	arm s n mode how       cut the current (or, if none is open, the next) response body of
//	                       stream s after n complete events: mode bnd = at the event boundary,
//	                       at once; mode in = inside the next event (read error only); how =
//	                       eof | err (clean EOF / read error), suffix L = the server notices
//	                       the disconnect only when a write fails or the client is back
//	rfail s kind           the reconnect GET the client has pending for s fails: terr
//	                       (transport error) or an HTTP status (503, 500, 429, 404)
//	rok s                  the pending reconnect GET is let through to the server
//
// Every reconnect GET (a GET with Last-Event-ID, or a second GET without one) is HELD by the
// RoundTripper until the scenario decides; after every step the harness sleeps two virtual
// minutes (any back-off has expired) and waits until every goroutine is blocked.
//
// Logged (VERIF_OUT, ndjson): server-side emits (h.emit / h.emit.end, with tags), every SSE
// event that crossed the wire COMPLETELY (x.ev: exchange, id, tag), cuts, reconnect requests
// with their Last-Event-ID (rc.hold) and the answers (rc.dec), the messages the client
// connection's Read returned (c.rd, in order), what the session's handlers saw (c.h), call
// results (call.end), and a snapshot after every step (drift against the model).
//
// Unexported identifiers used (package mcp), kept together in "in-package seam":
// clientConnection, clientSessionState.
package mcp

import (
	"bufio"
	"bytes"
	"context"
	"encoding/json"
	"errors"
	"fmt"
	"io"
	"math/rand/v2"
	"net/http"
	"os"
	"regexp"
	"sort"
	"strconv"
	"strings"
	"sync"
	"testing"
	"testing/synctest"
	"time"

	"github.com/modelcontextprotocol/go-sdk/jsonrpc"
)

// ---------------------------------------------------------------- logging

type e2eLog struct {
	mu  sync.Mutex
	w   *bufio.Writer
	seq int
}

func (l *e2eLog) emit(ev string, kv ...any) {
	l.mu.Lock()
	defer l.mu.Unlock()
	l.seq++
	m := map[string]any{"ev": ev, "seq": l.seq}
	for i := 0; i+1 < len(kv); i += 2 {
		m[kv[i].(string)] = kv[i+1]
	}
	b, _ := json.Marshal(m)
	l.w.Write(b)
	l.w.WriteByte('\n')
}

// ---------------------------------------------------------------- scenario

type e2eScenario struct {
	ID      string  `json:"id"`
	Version string  `json:"version"` // 2025-11-25 (priming events) | 2025-06-18 | 2025-03-26
	Mr      int     `json:"mr"`      // StreamableClientTransport.MaxRetries
	Steps   [][]any `json:"steps"`
}

var e2eTagRe = regexp.MustCompile(`"(?:text|message|tag|data)":"((?:r[0-9]+|sa)\.(?:n|q|resp)[0-9]*)"`)

func e2eTagOf(data []byte) string {
	if m := e2eTagRe.FindSubmatch(data); m != nil {
		return string(m[1])
	}
	return ""
}

func e2eStreamOfTag(tag string) string {
	if i := strings.Index(tag, "."); i > 0 {
		return tag[:i]
	}
	return ""
}

type e2ePlan struct {
	n    int
	mode string // bnd | in
	how  string // eof | err | eofL | errL
}

type e2eHeld struct {
	dec  chan string
	leid string
}

type e2eStream struct {
	name    string
	plan    *e2ePlan
	cur     *e2eExch // the latest exchange of the stream
	held    *e2eHeld
	nget    int
	att     int // reconnect attempts since the last body ended
	started bool
	nemit   int
	nq      int
	nrd     int // messages of this stream returned by the client connection's Read
	sid     string
	sidSet  bool
}

type e2eHandler struct {
	cmd     chan string
	started bool
	ended   bool
	busy    bool
	retSent bool
	abort   context.CancelFunc
}

type e2eRun struct {
	t   *testing.T
	sc  *e2eScenario
	log *e2eLog
	rng *rand.Rand

	server  *Server
	handler *StreamableHTTPHandler
	ss      *ServerSession
	client  *Client
	cs      *ClientSession

	mu       sync.Mutex
	streams  map[string]*e2eStream
	bySid    map[string]string // server stream id -> logical stream
	handlers map[string]*e2eHandler
	callID   map[string]string // JSON-RPC id of the tools/call -> r
	res      map[string]string // r -> pending | ok | err
	exchs    []*e2eExch
	ready    bool // set-up finished: record what the client reads
	saBusy   bool
	broken   bool // the client session has ended by itself
	nx       int
}

const e2eURI = "verif://e2e"

// rand is the scenario's seeded generator (used from several goroutines).
func (r *e2eRun) rand(n int) int {
	r.mu.Lock()
	defer r.mu.Unlock()
	return r.rng.IntN(n)
}

func (r *e2eRun) stream(s string) *e2eStream {
	r.mu.Lock()
	defer r.mu.Unlock()
	st := r.streams[s]
	if st == nil {
		st = &e2eStream{name: s}
		r.streams[s] = st
	}
	return st
}

// ---------------------------------------------------------------- server side of an exchange: pipe-backed ResponseWriter

type e2eRW struct {
	x     *e2eExch
	hdr   http.Header
	pw    *io.PipeWriter
	once  sync.Once
	ready chan struct{}
	code  int
	snap  http.Header
}

func (w *e2eRW) Header() http.Header { return w.hdr }
func (w *e2eRW) WriteHeader(code int) {
	w.once.Do(func() {
		w.code = code
		w.snap = w.hdr.Clone()
		close(w.ready)
	})
}
func (w *e2eRW) Write(p []byte) (int, error) {
	w.WriteHeader(http.StatusOK)
	n, err := w.pw.Write(p)
	if err != nil && w.x != nil {
		// a write on a connection the client has left: the HTTP server cancels the request now at the latest
		w.x.cancel()
	}
	return n, err
}
func (w *e2eRW) Flush() {}

// ---------------------------------------------------------------- one HTTP exchange of a logical stream

type e2eExch struct {
	run    *e2eRun
	st     *e2eStream
	name   string
	kind   string // call | get0 | get
	from   int
	cancel context.CancelFunc // server-side request context
	pr     *io.PipeReader
	reqCtx context.Context
	cutc   chan struct{}

	w *e2eRW

	mu     sync.Mutex
	nev    int
	cut    bool
	ended  bool
	term   error
	status int
	lost   bool // the connection went away before any response header had been sent
}

func (x *e2eExch) alive() bool {
	x.mu.Lock()
	defer x.mu.Unlock()
	return !x.cut && !x.ended
}

func (x *e2eExch) end(how string) {
	x.mu.Lock()
	if x.ended || x.cut {
		x.mu.Unlock()
		return
	}
	x.ended = true
	n := x.nev
	x.mu.Unlock()
	x.run.mu.Lock()
	if x.st.cur == x {
		x.st.plan = nil // a cut armed for this body dies with it
		x.st.att = 0
	}
	x.run.mu.Unlock()
	x.run.log.emit("x.end", "x", x.name, "s", x.st.name, "how", how, "n", n)
}

// trigger ends the body of the exchange as the armed plan says.
func (x *e2eExch) trigger(p *e2ePlan) {
	x.mu.Lock()
	if x.cut || x.ended {
		x.mu.Unlock()
		return
	}
	x.cut = true
	x.term = io.EOF
	if strings.HasPrefix(p.how, "err") {
		x.term = io.ErrUnexpectedEOF
	}
	n := x.nev
	select {
	case <-x.w.ready:
	default:
		x.lost = true // whatever the handler writes from now on goes nowhere, headers included
	}
	lost := x.lost
	x.mu.Unlock()
	x.run.mu.Lock()
	if x.st.plan == p {
		x.st.plan = nil
	}
	x.st.att = 0
	x.run.mu.Unlock()
	x.run.log.emit("x.cut", "x", x.name, "s", x.st.name, "n", n, "mode", p.mode, "how", p.how, "lost", lost)
	close(x.cutc)
	x.pr.CloseWithError(errors.New("e2e: client gone")) // the server's writes fail from now on
	if !strings.HasSuffix(p.how, "L") {
		x.cancel()
	}
}

// planNow returns the armed plan if it says "cut at once".
func (x *e2eExch) planNow() *e2ePlan {
	x.run.mu.Lock()
	defer x.run.mu.Unlock()
	if p := x.st.plan; p != nil && p.n == 0 && p.mode == "bnd" {
		return p
	}
	return nil
}

type e2eBody struct {
	x      *e2eExch
	blocks chan []byte
	out    []byte
	pend   *e2eWireEv
	chunk  int
	closed sync.Once
}

type e2eWireEv struct {
	eid, sid, tag, kind string
	idx                 int
}

// pump splits what the server writes into blank-line terminated blocks.
func (b *e2eBody) pump() {
	defer close(b.blocks)
	var buf []byte
	tmp := make([]byte, 8192)
	for {
		n, err := b.x.pr.Read(tmp)
		buf = append(buf, tmp[:n]...)
		for {
			i := bytes.Index(buf, []byte("\n\n"))
			if i < 0 {
				break
			}
			blk := append([]byte(nil), buf[:i+2]...)
			buf = buf[i+2:]
			select {
			case b.blocks <- blk:
			case <-b.x.cutc:
				return
			case <-b.x.reqCtx.Done():
				return
			}
		}
		if err != nil {
			return
		}
	}
}

func e2eParseBlock(blk []byte) (ev *e2eWireEv) {
	var name, eid string
	var data []byte
	seen := false
	for _, ln := range bytes.Split(bytes.TrimSuffix(blk, []byte("\n\n")), []byte("\n")) {
		if len(ln) == 0 || ln[0] == ':' {
			continue
		}
		k, v, _ := bytes.Cut(ln, []byte(":"))
		v = bytes.TrimPrefix(v, []byte(" "))
		switch string(k) {
		case "event":
			name, seen = string(v), true
		case "id":
			eid, seen = string(v), true
		case "data":
			data, seen = append(data, v...), true
		}
	}
	if !seen || name == "close" {
		return nil // a comment, or the server's "close" event (retry hint only)
	}
	ev = &e2eWireEv{eid: eid, idx: -1, kind: "msg"}
	if eid != "" {
		if j := strings.LastIndex(eid, "_"); j >= 0 {
			ev.sid = eid[:j]
			if n, err := strconv.Atoi(eid[j+1:]); err == nil {
				ev.idx = n
			}
		}
	}
	if name == "prime" || len(bytes.TrimSpace(data)) == 0 {
		ev.kind, ev.tag = "prime", "prime"
	} else {
		ev.tag = e2eTagOf(data)
	}
	return ev
}

// crossed is called when the last byte of a complete event has been handed to the client.
func (x *e2eExch) crossed(ev *e2eWireEv) {
	x.mu.Lock()
	x.nev++
	x.mu.Unlock()
	r := x.run
	r.mu.Lock()
	if ev.eid != "" && x.st.name != "sa" && !x.st.sidSet {
		x.st.sid, x.st.sidSet = ev.sid, true
		r.bySid[ev.sid] = x.st.name
	}
	p := x.st.plan
	var fire *e2ePlan
	if p != nil {
		if p.n > 0 {
			p.n--
		}
		if p.n == 0 && p.mode == "bnd" {
			fire = p
		}
	}
	r.mu.Unlock()
	r.log.emit("x.ev", "x", x.name, "s", x.st.name, "eid", ev.eid, "sid", ev.sid, "idx", ev.idx, "tag", ev.tag, "kind", ev.kind, "ts", e2eStreamOfTag(ev.tag))
	if fire != nil {
		x.trigger(fire)
	}
}

func (b *e2eBody) accept(blk []byte) {
	x := b.x
	ev := e2eParseBlock(blk)
	if ev == nil {
		b.out = blk // a comment: not an event
		return
	}
	x.run.mu.Lock()
	p := x.st.plan
	inside := p != nil && p.n == 0 && p.mode == "in"
	x.run.mu.Unlock()
	if inside {
		k := 1 + x.run.rand(len(blk)-1) // 1 .. len-1 bytes of the event get across
		b.out = blk[:k]
		x.trigger(p)
		return
	}
	b.out, b.pend = blk, ev
}

func (b *e2eBody) Read(p []byte) (int, error) {
	x := b.x
	for {
		if len(b.out) > 0 {
			n := copy(p, b.out[:min(len(b.out), b.chunk)])
			b.out = b.out[n:]
			if len(b.out) == 0 && b.pend != nil {
				ev := b.pend
				b.pend = nil
				x.crossed(ev)
			}
			return n, nil
		}
		x.mu.Lock()
		term, cut := x.term, x.cut
		x.mu.Unlock()
		if cut {
			return 0, term
		}
		if term != nil {
			return 0, term
		}
		select {
		case <-x.cutc:
			continue
		default:
		}
		select {
		case blk, ok := <-b.blocks:
			if !ok {
				x.mu.Lock()
				if !x.cut {
					x.term = io.EOF
				}
				x.mu.Unlock()
				x.end("server")
				continue
			}
			b.accept(blk)
		case <-x.cutc:
		case <-x.reqCtx.Done():
			return 0, x.reqCtx.Err()
		}
	}
}

func (b *e2eBody) Close() error {
	b.closed.Do(func() {
		b.x.end("client")
		b.x.cancel()
		b.x.pr.Close()
	})
	return nil
}

// ---------------------------------------------------------------- the RoundTripper

type e2eRT struct{ run *e2eRun }

func e2eStatusResp(req *http.Request, code int) *http.Response {
	return &http.Response{Status: strconv.Itoa(code) + " " + http.StatusText(code), StatusCode: code,
		Proto: "HTTP/1.1", ProtoMajor: 1, ProtoMinor: 1, Header: http.Header{}, Request: req,
		Body: io.NopCloser(strings.NewReader("")), ContentLength: 0}
}

// serve runs the request on the real handler. x == nil: an exchange the scenario does not control.
func (rt *e2eRT) serve(req *http.Request, body []byte, x *e2eExch) (*http.Response, error) {
	pr, pw := io.Pipe()
	w := &e2eRW{x: x, hdr: http.Header{}, pw: pw, ready: make(chan struct{})}
	sctx, cancel := context.WithCancel(context.Background())
	stop := context.AfterFunc(req.Context(), cancel)
	sreq := req.Clone(sctx)
	sreq.Body = http.NoBody
	if body != nil {
		sreq.Body = io.NopCloser(bytes.NewReader(body))
	}
	sreq.RequestURI = req.URL.RequestURI()
	sreq.RemoteAddr = "192.0.2.1:1234"
	go func() {
		defer stop()
		rt.run.handler.ServeHTTP(w, sreq)
		w.WriteHeader(http.StatusOK)
		pw.Close()
	}()
	if x == nil {
		select {
		case <-w.ready:
		case <-req.Context().Done():
			cancel()
			pr.Close()
			return nil, req.Context().Err()
		}
		return &http.Response{Status: strconv.Itoa(w.code) + " " + http.StatusText(w.code), StatusCode: w.code,
			Proto: "HTTP/1.1", ProtoMajor: 1, ProtoMinor: 1, Header: w.snap, ContentLength: -1, Request: req,
			Body: &e2ePlainBody{pr: pr, cancel: cancel}}, nil
	}
	x.cancel, x.pr, x.reqCtx, x.cutc, x.w = cancel, pr, req.Context(), make(chan struct{}), w
	r := rt.run
	r.mu.Lock()
	x.st.cur, x.st.started = x, true
	r.exchs = append(r.exchs, x)
	r.mu.Unlock()
	b := &e2eBody{x: x, blocks: make(chan []byte), chunk: 1 << 16}
	if r.rand(3) == 0 {
		b.chunk = 1 + r.rand(40)
	}
	go b.pump()
	// a cut armed for "at once": give the server the time to take the request in, then end the body
	if p := x.planNow(); p != nil {
		select {
		case <-w.ready:
		case <-time.After(time.Second):
		case <-req.Context().Done():
		}
		x.trigger(p)
	}
	select {
	case <-w.ready:
	case <-x.cutc:
	case <-req.Context().Done():
		cancel()
		pr.Close()
		x.end("client")
		return nil, req.Context().Err()
	}
	x.mu.Lock()
	lost := x.lost
	x.mu.Unlock()
	if lost {
		// the connection went away before any response header: the request fails in transit
		r.log.emit("x.hdr", "x", x.name, "s", x.st.name, "status", 0)
		return nil, errors.New("e2e: connection lost before the response")
	}
	<-w.ready
	x.mu.Lock()
	x.status = w.code
	x.mu.Unlock()
	r.log.emit("x.hdr", "x", x.name, "s", x.st.name, "status", w.code)
	return &http.Response{Status: strconv.Itoa(w.code) + " " + http.StatusText(w.code), StatusCode: w.code,
		Proto: "HTTP/1.1", ProtoMajor: 1, ProtoMinor: 1, Header: w.snap, ContentLength: -1, Request: req, Body: b}, nil
}

type e2ePlainBody struct {
	pr     *io.PipeReader
	cancel context.CancelFunc
}

func (b *e2ePlainBody) Read(p []byte) (int, error) { return b.pr.Read(p) }
func (b *e2ePlainBody) Close() error {
	b.cancel()
	return b.pr.Close()
}

func (rt *e2eRT) RoundTrip(req *http.Request) (*http.Response, error) {
	r := rt.run
	switch req.Method {
	case http.MethodPost:
		var body []byte
		if req.Body != nil {
			body, _ = io.ReadAll(req.Body)
			req.Body.Close()
		}
		var m struct {
			ID     json.RawMessage `json:"id"`
			Method string          `json:"method"`
			Params struct {
				Name string `json:"name"`
				Args struct {
					R string `json:"r"`
				} `json:"arguments"`
			} `json:"params"`
		}
		_ = json.Unmarshal(body, &m)
		if m.Method == "tools/call" && m.Params.Name == "vt" && m.Params.Args.R != "" {
			st := r.stream(m.Params.Args.R)
			r.mu.Lock()
			r.callID[strings.Trim(string(m.ID), `"`)] = st.name
			r.mu.Unlock()
			x := &e2eExch{run: r, st: st, name: "p." + st.name, kind: "call", from: -1}
			r.log.emit("x.begin", "x", x.name, "s", st.name, "kind", "call", "from", -1, "leid", "")
			return rt.serve(req, body, x)
		}
		return rt.serve(req, body, nil)
	case http.MethodGet:
		vals, present := req.Header["Last-Event-Id"]
		leid, s, from, known := "", "sa", -1, true
		if present && len(vals) > 0 {
			leid = vals[0]
			known = false
			if j := strings.LastIndex(leid, "_"); j >= 0 {
				if n, err := strconv.Atoi(leid[j+1:]); err == nil && n >= 0 {
					from = n
					sid := leid[:j]
					r.mu.Lock()
					if sid == "" {
						s, known = "sa", true
					} else if name, ok := r.bySid[sid]; ok {
						s, known = name, true
					}
					r.mu.Unlock()
				}
			}
			if !known {
				s = "?"
			}
		}
		st := r.stream(s)
		r.mu.Lock()
		first := s == "sa" && !st.started && !present
		st.nget++
		name := fmt.Sprintf("g%d.%s", st.nget, s)
		r.mu.Unlock()
		if first {
			x := &e2eExch{run: r, st: st, name: name, kind: "get0", from: -1}
			r.log.emit("x.begin", "x", name, "s", s, "kind", "get0", "from", -1, "leid", "")
			return rt.serve(req, nil, x)
		}
		// a reconnect: held until the scenario decides
		h := &e2eHeld{dec: make(chan string, 1), leid: leid}
		r.mu.Lock()
		st.att++
		att := st.att
		st.held = h
		r.mu.Unlock()
		r.log.emit("rc.hold", "s", s, "leid", leid, "lidx", from, "known", known, "present", present, "att", att)
		var d string
		select {
		case d = <-h.dec:
		case <-req.Context().Done():
			r.mu.Lock()
			if st.held == h {
				st.held = nil
			}
			r.mu.Unlock()
			r.log.emit("rc.dec", "s", s, "d", "abandoned")
			return nil, req.Context().Err()
		}
		r.mu.Lock()
		st.held = nil
		r.mu.Unlock()
		r.log.emit("rc.dec", "s", s, "d", d)
		switch d {
		case "ok":
			x := &e2eExch{run: r, st: st, name: name, kind: "get", from: from}
			r.log.emit("x.begin", "x", name, "s", s, "kind", "get", "from", from, "leid", leid)
			r.mu.Lock()
			st.att = 0
			r.mu.Unlock()
			return rt.serve(req, nil, x)
		case "terr":
			return nil, errors.New("e2e: connection refused")
		default:
			code, err := strconv.Atoi(d)
			if err != nil || code < 400 || code > 599 {
				panic("e2e: bad scripted answer " + d)
			}
			return e2eStatusResp(req, code), nil
		}
	}
	return rt.serve(req, nil, nil)
}

// ---------------------------------------------------------------- in-package seam: the only uses of unexported identifiers

// e2eTransport wraps the real transport so that the messages its connection hands to the
// session can be recorded in order; session updates are forwarded to the real connection.
type e2eTransport struct {
	inner *StreamableClientTransport
	run   *e2eRun
}

func (t *e2eTransport) Connect(ctx context.Context) (Connection, error) {
	c, err := t.inner.Connect(ctx)
	if err != nil {
		return nil, err
	}
	return &e2eConn{Connection: c, run: t.run}, nil
}

type e2eConn struct {
	Connection
	run *e2eRun
}

func (c *e2eConn) sessionUpdated(s clientSessionState) {
	if cc, ok := c.Connection.(clientConnection); ok {
		cc.sessionUpdated(s)
	}
}

func (c *e2eConn) Read(ctx context.Context) (jsonrpc.Message, error) {
	msg, err := c.Connection.Read(ctx)
	if err == nil {
		c.run.readMsg(msg)
	}
	return msg, err
}

// ----------------------------------------------------------------

func (r *e2eRun) readMsg(msg jsonrpc.Message) {
	r.mu.Lock()
	ready := r.ready
	r.mu.Unlock()
	if !ready {
		return
	}
	switch m := msg.(type) {
	case *jsonrpc.Request:
		tag := e2eTagOf(m.Params)
		if tag == "" {
			r.log.emit("c.rd", "s", "", "tag", "", "kind", "other", "method", m.Method)
			return
		}
		kind := "n"
		if m.IsCall() {
			kind = "q"
		}
		s := e2eStreamOfTag(tag)
		r.mu.Lock()
		r.stream0(s).nrd++
		r.mu.Unlock()
		r.log.emit("c.rd", "s", s, "tag", tag, "kind", kind, "method", m.Method)
	case *jsonrpc.Response:
		idj, _ := json.Marshal(m.ID.Raw())
		r.mu.Lock()
		s, ok := r.callID[strings.Trim(string(idj), `"`)]
		r.mu.Unlock()
		if !ok {
			return // an answer to a call of the set-up or clean-up
		}
		if m.Error != nil {
			r.log.emit("c.rd", "s", s, "tag", "", "kind", "err", "method", "")
			return
		}
		r.mu.Lock()
		r.stream0(s).nrd++
		r.mu.Unlock()
		r.log.emit("c.rd", "s", s, "tag", e2eTagOf(m.Result), "kind", "resp", "method", "")
	}
}

// stream0 is stream() for callers that hold r.mu.
func (r *e2eRun) stream0(s string) *e2eStream {
	st := r.streams[s]
	if st == nil {
		st = &e2eStream{name: s}
		r.streams[s] = st
	}
	return st
}

func e2eErr(err error) string {
	if err == nil {
		return ""
	}
	s := err.Error()
	if len(s) > 200 {
		s = s[:200]
	}
	return s
}

// the gated tool
func (r *e2eRun) tool(ctx context.Context, req *CallToolRequest) (*CallToolResult, error) {
	var a struct {
		R string `json:"r"`
	}
	json.Unmarshal(req.Params.Arguments, &a)
	r.mu.Lock()
	h := r.handlers[a.R]
	if h == nil {
		h = &e2eHandler{cmd: make(chan string, 16)}
		r.handlers[a.R] = h
	}
	h.started = true
	r.mu.Unlock()
	st := r.stream(a.R)
	r.log.emit("h.start", "r", a.R)
	for {
		select {
		case cmd := <-h.cmd:
			switch cmd {
			case "emit":
				r.mu.Lock()
				st.nemit++
				n := st.nemit
				h.busy = true
				r.mu.Unlock()
				tag := fmt.Sprintf("%s.n%d", a.R, n)
				var err error
				if n%2 == 1 {
					r.log.emit("h.emit", "s", a.R, "tag", tag, "kind", "n", "via", "progress")
					err = req.Session.NotifyProgress(ctx, &ProgressNotificationParams{ProgressToken: "tok", Message: tag, Progress: float64(n)})
				} else {
					r.log.emit("h.emit", "s", a.R, "tag", tag, "kind", "n", "via", "log")
					err = req.Session.Log(ctx, &LoggingMessageParams{Level: "info", Logger: "e2e", Data: tag})
				}
				r.mu.Lock()
				h.busy = false
				r.mu.Unlock()
				r.log.emit("h.emit.end", "s", a.R, "tag", tag, "err", e2eErr(err))
			case "sreq":
				r.mu.Lock()
				st.nq++
				n := st.nq
				pctx, pcancel := context.WithCancel(ctx)
				h.busy, h.abort = true, pcancel
				r.mu.Unlock()
				tag := fmt.Sprintf("%s.q%d", a.R, n)
				r.log.emit("h.emit", "s", a.R, "tag", tag, "kind", "q", "via", "ping")
				err := req.Session.Ping(pctx, &PingParams{Meta: Meta{"tag": tag}})
				pcancel()
				r.mu.Lock()
				h.busy, h.abort = false, nil
				r.mu.Unlock()
				r.log.emit("h.emit.end", "s", a.R, "tag", tag, "err", e2eErr(err))
			case "sclose":
				r.log.emit("h.sclose", "r", a.R)
				if req.Extra != nil && req.Extra.CloseSSEStream != nil {
					req.Extra.CloseSSEStream(CloseSSEStreamArgs{RetryAfter: 100 * time.Millisecond})
				}
			case "ret":
				r.mu.Lock()
				h.ended = true
				r.mu.Unlock()
				r.log.emit("h.emit", "s", a.R, "tag", a.R+".resp", "kind", "resp", "via", "result")
				r.log.emit("h.end", "r", a.R, "how", "ret")
				return &CallToolResult{Content: []Content{&TextContent{Text: a.R + ".resp"}}}, nil
			}
		case <-ctx.Done():
			r.mu.Lock()
			h.ended = true
			r.mu.Unlock()
			r.log.emit("h.end", "r", a.R, "how", "ctx")
			return nil, errors.New("cancelled")
		}
	}
}

func (r *e2eRun) settle() {
	time.Sleep(2 * time.Minute) // any back-off (at most 30 s plus as much jitter) has expired
	synctest.Wait()
}

func (r *e2eRun) setup() error {
	r.server = NewServer(&Implementation{Name: "e2e-server", Version: "v1"}, &ServerOptions{
		SubscribeHandler:   func(context.Context, *SubscribeRequest) error { return nil },
		UnsubscribeHandler: func(context.Context, *UnsubscribeRequest) error { return nil },
	})
	r.server.AddTool(&Tool{Name: "vt", InputSchema: json.RawMessage(`{"type":"object"}`)}, r.tool)
	r.handler = NewStreamableHTTPHandler(func(*http.Request) *Server { return r.server },
		&StreamableHTTPOptions{EventStore: NewMemoryEventStore(nil)})
	seen := func(method string, params any) {
		b, _ := json.Marshal(params)
		if tag := e2eTagOf(b); tag != "" {
			kind := "n"
			if method == "ping" {
				kind = "q"
			}
			r.log.emit("c.h", "s", e2eStreamOfTag(tag), "tag", tag, "kind", kind, "method", method)
		}
	}
	r.client = NewClient(&Implementation{Name: "e2e-client", Version: "v1"}, &ClientOptions{
		ProgressNotificationHandler: func(context.Context, *ProgressNotificationClientRequest) {},
		LoggingMessageHandler:       func(context.Context, *LoggingMessageRequest) {},
		ResourceUpdatedHandler:      func(context.Context, *ResourceUpdatedNotificationRequest) {},
	})
	r.client.AddReceivingMiddleware(func(next MethodHandler) MethodHandler {
		return func(ctx context.Context, method string, req Request) (Result, error) {
			r.mu.Lock()
			ready := r.ready
			r.mu.Unlock()
			if ready {
				seen(method, req.GetParams())
			}
			return next(ctx, method, req)
		}
	})
	mr := r.sc.Mr
	if mr == 0 {
		mr = -1
	}
	tr := &StreamableClientTransport{Endpoint: "http://e2e.verif.test/mcp", HTTPClient: &http.Client{Transport: &e2eRT{run: r}}, MaxRetries: mr}
	ctx := context.Background()
	cs, err := r.client.Connect(ctx, &e2eTransport{inner: tr, run: r}, &ClientSessionOptions{ProtocolVersion: r.sc.Version})
	if err != nil {
		return fmt.Errorf("connect: %v", err)
	}
	r.cs = cs
	if ir := cs.InitializeResult(); ir == nil || ir.ProtocolVersion != r.sc.Version {
		return fmt.Errorf("negotiated %v, wanted %s", ir, r.sc.Version)
	}
	if err := cs.SetLoggingLevel(ctx, &SetLoggingLevelParams{Level: "debug"}); err != nil {
		return fmt.Errorf("setLevel: %v", err)
	}
	if err := cs.Subscribe(ctx, &SubscribeParams{URI: e2eURI}); err != nil {
		return fmt.Errorf("subscribe: %v", err)
	}
	for ss := range r.server.Sessions() {
		r.ss = ss
	}
	if r.ss == nil {
		return errors.New("no server session")
	}
	go func() {
		cs.Wait()
		r.mu.Lock()
		r.broken = true
		r.mu.Unlock()
	}()
	r.settle()
	if st := r.stream("sa"); st.cur == nil || !st.cur.alive() {
		return errors.New("the standalone stream was not opened")
	}
	r.mu.Lock()
	r.ready = true
	r.mu.Unlock()
	return nil
}

func (r *e2eRun) step(stp []any) {
	arg := func(i int) string {
		if i < len(stp) {
			if f, ok := stp[i].(float64); ok {
				return strconv.Itoa(int(f))
			}
			return fmt.Sprint(stp[i])
		}
		return ""
	}
	op := arg(0)
	applied := true
	r.mu.Lock()
	broken := r.broken
	r.mu.Unlock()
	switch op {
	case "call":
		rn := arg(1)
		r.mu.Lock()
		_, dup := r.res[rn]
		if !dup && !broken {
			r.res[rn] = "pending"
		}
		r.mu.Unlock()
		if dup || broken {
			applied = false
			break
		}
		r.log.emit("call.begin", "r", rn, "want", rn+".resp")
		go func() {
			res, err := r.cs.CallTool(context.Background(), &CallToolParams{Name: "vt", Arguments: map[string]any{"r": rn}})
			out, tag := "ok", ""
			if err != nil {
				out = "err"
			} else {
				if res.IsError {
					out = "toolerr"
				}
				if len(res.Content) == 1 {
					if tc, ok := res.Content[0].(*TextContent); ok {
						tag = tc.Text
					}
				}
			}
			r.mu.Lock()
			r.res[rn] = out
			r.mu.Unlock()
			r.log.emit("call.end", "r", rn, "outcome", out, "tag", tag, "want", rn+".resp", "err", e2eErr(err))
		}()
	case "emit", "sreq", "ret", "sclose":
		s := arg(1)
		if broken {
			applied = false
			break
		}
		if s == "sa" {
			st := r.stream("sa")
			r.mu.Lock()
			busy := r.saBusy
			if !busy && op == "emit" {
				r.saBusy = true
				st.nemit++
			}
			n := st.nemit
			r.mu.Unlock()
			if busy || op != "emit" {
				applied = false
				break
			}
			tag := fmt.Sprintf("sa.n%d", n)
			via := "progress"
			if n%2 == 0 {
				via = "updated"
			}
			r.log.emit("h.emit", "s", "sa", "tag", tag, "kind", "n", "via", via)
			go func() {
				var err error
				if via == "progress" {
					err = r.ss.NotifyProgress(context.Background(), &ProgressNotificationParams{ProgressToken: "tok", Message: tag, Progress: 1})
				} else {
					err = r.server.ResourceUpdated(context.Background(), &ResourceUpdatedNotificationParams{Meta: Meta{"tag": tag}, URI: e2eURI})
				}
				r.mu.Lock()
				r.saBusy = false
				r.mu.Unlock()
				r.log.emit("h.emit.end", "s", "sa", "tag", tag, "err", e2eErr(err))
			}()
			break
		}
		if op == "sclose" {
			// only while the request's response is being streamed
			st := r.stream(s)
			r.mu.Lock()
			x := st.cur
			r.mu.Unlock()
			if s == "sa" || x == nil || !x.alive() {
				applied = false
				break
			}
		}
		r.mu.Lock()
		h := r.handlers[s]
		ok := h != nil && h.started && !h.ended && !h.busy && !h.retSent
		if ok && op == "ret" {
			h.retSent = true
		}
		r.mu.Unlock()
		if !ok {
			applied = false
			break
		}
		h.cmd <- op
	case "arm":
		st := r.stream(arg(1))
		n, _ := strconv.Atoi(arg(2))
		p := &e2ePlan{n: n, mode: arg(3), how: arg(4)}
		r.mu.Lock()
		x := st.cur
		r.mu.Unlock()
		live := x != nil && x.alive()
		r.mu.Lock()
		// applicable while the stream has not begun, while a body is open, or while its reconnect is pending
		ok := st.plan == nil && !broken && (p.mode == "bnd" || strings.HasPrefix(p.how, "err")) &&
			((!st.started && st.name != "sa") || live || st.held != nil)
		if ok {
			st.plan = p
		}
		r.mu.Unlock()
		if !ok {
			applied = false
			break
		}
		r.log.emit("arm", "s", st.name, "n", n, "mode", p.mode, "how", p.how, "live", live)
		if live && p.n == 0 && p.mode == "bnd" {
			x.trigger(p)
		}
	case "rfail", "rok":
		st := r.stream(arg(1))
		r.mu.Lock()
		h, x := st.held, st.cur
		r.mu.Unlock()
		if h == nil || broken {
			applied = false
			break
		}
		d := "ok"
		if op == "rfail" {
			d = arg(2)
		} else if x != nil {
			// the client is back: the server has noticed the old connection's end by now
			x.cancel()
			synctest.Wait()
		}
		h.dec <- d
	default:
		applied = false
	}
	r.settle()
	an, _ := strconv.Atoi(arg(2))
	r.log.emit("step", "op", op, "a1", arg(1), "a2", arg(2), "a3", arg(3), "a4", arg(4), "an", an, "applied", applied, "snap", r.snapshot())
}

// snapshot: per logical stream what the model calls link / res / |del|
func (r *e2eRun) snapshot() map[string]any {
	r.mu.Lock()
	defer r.mu.Unlock()
	names := []string{}
	for n := range r.streams {
		if n != "?" {
			names = append(names, n)
		}
	}
	sort.Strings(names)
	link, nrd, res := map[string]string{}, map[string]int{}, map[string]string{}
	for _, n := range names {
		st := r.streams[n]
		l := "closed"
		switch {
		case st.held != nil:
			l = "cut"
		case st.cur != nil && st.cur.alive():
			l = "up"
		case !st.started:
			l = "idle"
		}
		link[n], nrd[n] = l, st.nrd
	}
	for k, v := range r.res {
		res[k] = v
	}
	return map[string]any{"link": link, "nrd": nrd, "res": res, "broken": r.broken}
}

func (r *e2eRun) run() {
	if err := r.setup(); err != nil {
		r.log.emit("setup.error", "err", err.Error())
	} else {
		r.log.emit("ready", "snap", r.snapshot())
		for _, st := range r.sc.Steps {
			r.step(st)
		}
	}
	r.log.emit("script.end")
	// drain stage 1: discharge what the environment owes: let every pending reconnect through, let every
	// handler return; no disconnect, no Close
	for i := 0; i < 12; i++ {
		progressed := false
		r.mu.Lock()
		var held []string
		for n, st := range r.streams {
			if st.held != nil {
				held = append(held, n)
			}
		}
		var run []string
		for n, h := range r.handlers {
			if h.started && !h.ended && !h.busy && !h.retSent {
				run = append(run, n)
			}
		}
		r.mu.Unlock()
		sort.Strings(held)
		sort.Strings(run)
		r.mu.Lock()
		broken := r.broken
		r.mu.Unlock()
		for _, n := range held {
			if broken {
				// the client connection has failed: what is left of its requests is refused, not a step of the scenario
				r.mu.Lock()
				h := r.streams[n].held
				r.mu.Unlock()
				if h != nil {
					h.dec <- "terr"
				}
			} else {
				r.step([]any{"rok", n})
			}
			progressed = true
		}
		for _, n := range run {
			if broken {
				// the client is gone: the handlers are told to return without this being a step of the scenario
				r.mu.Lock()
				h := r.handlers[n]
				h.retSent = true
				r.mu.Unlock()
				h.cmd <- "ret"
			} else {
				r.step([]any{"ret", n})
			}
			progressed = true
		}
		if broken {
			r.settle()
		}
		if !progressed {
			break
		}
	}
	time.Sleep(time.Hour)
	synctest.Wait()
	r.log.emit("quiesce", "snap", r.snapshot())
	// drain stage 2: clean-up so that the bubble can end
	r.log.emit("cleanup")
	if r.cs != nil {
		closed := make(chan struct{})
		go func() { r.cs.Close(); close(closed) }()
		select {
		case <-closed:
		case <-time.After(time.Hour):
			r.log.emit("close.stuck")
		}
	}
	r.mu.Lock()
	for _, h := range r.handlers {
		if h.abort != nil {
			h.abort()
		}
		if h.started && !h.ended && !h.retSent {
			h.retSent = true
			h.cmd <- "ret"
		}
	}
	xs := append([]*e2eExch{}, r.exchs...)
	var helds []*e2eHeld
	for _, st := range r.streams {
		if st.held != nil {
			helds = append(helds, st.held)
		}
	}
	r.mu.Unlock()
	for _, h := range helds {
		select {
		case h.dec <- "terr":
		default:
		}
	}
	for _, x := range xs {
		x.cancel()
	}
	time.Sleep(time.Second)
	if r.server != nil {
		for ss := range r.server.Sessions() {
			go ss.Close()
		}
	}
	time.Sleep(time.Hour)
	synctest.Wait()
	r.log.emit("final")
}

func e2eSeed(seed uint64, id string) *rand.Rand {
	var h uint64 = 1469598103934665603
	for i := 0; i < len(id); i++ {
		h = (h ^ uint64(id[i])) * 1099511628211
	}
	return rand.New(rand.NewPCG(seed, h))
}

func e2eRunScenario(t *testing.T, l *e2eLog, sc *e2eScenario, seed uint64) {
	l.emit("reset", "trace", sc.ID, "prime", sc.Version >= "2025-11-25" && sc.Version < "2026-07-28", "version", sc.Version, "mr", sc.Mr)
	t.Run(sc.ID, func(t *testing.T) {
		defer func() {
			if p := recover(); p != nil {
				l.emit("panic", "msg", fmt.Sprint(p))
			}
		}()
		synctest.Test(t, func(t *testing.T) {
			r := &e2eRun{t: t, sc: sc, log: l, rng: e2eSeed(seed, sc.ID), streams: map[string]*e2eStream{}, bySid: map[string]string{},
				handlers: map[string]*e2eHandler{}, callID: map[string]string{}, res: map[string]string{}}
			r.run()
		})
	})
}

func TestVerif_E2E(t *testing.T) {
	in, outp := os.Getenv("VERIF_IN"), os.Getenv("VERIF_OUT")
	if in == "" || outp == "" {
		t.Skip("VERIF_IN/VERIF_OUT not set")
	}
	seed, _ := strconv.ParseUint(os.Getenv("VERIF_SEED"), 10, 64)
	f, err := os.Create(outp)
	if err != nil {
		t.Fatal(err)
	}
	defer f.Close()
	w := bufio.NewWriterSize(f, 1<<20)
	defer w.Flush()
	l := &e2eLog{w: w}
	fin, err := os.Open(in)
	if err != nil {
		t.Fatal(err)
	}
	defer fin.Close()
	prog, _ := os.Create(outp + ".progress")
	if prog != nil {
		defer prog.Close()
	}
	sc := bufio.NewScanner(fin)
	sc.Buffer(make([]byte, 1<<20), 1<<26)
	for sc.Scan() {
		var s e2eScenario
		if err := json.Unmarshal(sc.Bytes(), &s); err != nil {
			t.Fatalf("bad scenario: %v", err)
		}
		if prog != nil {
			fmt.Fprintf(prog, "%s\n", sc.Bytes())
			w.Flush()
		}
		e2eRunScenario(t, l, &s, seed)
	}
}
