//go:build verif

// Conformance harness for property C13, the dimension "transport x how a ping fails"
// (spec/KeepAlive.tla Part 1b, cases from spec/KeepAliveTr.tla).
//
// A case names a transport and, for ping 1, 2, ..., the CLASS of what concretely happens to
// it. The scripted peer plays the class; the observation records, per ping, the class that
// was played - what the property makes of a class (answered / a miss / ping unsupported / the
// connection is dead) is the model's table, applied by the monitor, not by this file.
//
//	level "httpc"  a real ClientSession over the real StreamableClientTransport; the server is a
//	               scripted http.RoundTripper (no sockets: virtual time)
//	level "https"  a real Server behind the real StreamableHTTPHandler, driven through ServeHTTP
//	               by a scripted client that keeps (or does not keep) the standalone stream attached
//	level "sse"    a real ClientSession over the real (legacy) SSEClientTransport, scripted RoundTripper
//	transport "mem" runs at the levels "client" and "server" of c13_keepalive_test.go (c13Conn)
//
// Unexported identifiers used (package mcp): none beyond those of c13_keepalive_test.go.
package mcp

import (
	"bufio"
	"bytes"
	"context"
	"encoding/json"
	"errors"
	"fmt"
	"io"
	"net/http"
	"strconv"
	"strings"
	"sync"
	"testing/synctest"
	"time"
)

// c13MemPlay says how the scripted stream peer (c13Conn) plays a class of the transport "mem":
// the outcome symbol and variant c13Conn.Write understands.
func c13MemPlay(cls string) (o, v, k string) {
	switch cls {
	case "reply":
		return "a", "reply", "a"
	case "silent", "unscripted":
		return "t", "ignore", "t"
	case "late":
		return "t", "latereply", "t"
	case "rpcerr":
		return "c", "errreply", "c"
	case "rejected":
		return "c", "rejected", "c"
	case "mnf":
		return "m", "Method not found", "m"
	case "broken":
		return "d", "broken", "d"
	}
	panic("c13 harness: unknown class of transport mem: " + cls)
}

// nextCls records a ping of the transport dimension at the instant the peer sees it (or the
// transport fails to deliver it) and returns the class to play.
func (r *c13Rec) nextCls(force string) (string, int) {
	r.mu.Lock()
	defer r.mu.Unlock()
	n := len(r.obs.Pings)
	cls := "unscripted"
	if n < len(r.obs.Cls) {
		cls = r.obs.Cls[n]
	}
	if force != "" {
		// what really happened is not the script's to say (a ping that found no stream attached, a
		// ping that found one although the script has none)
		if force == "seen" {
			if cls == "nostream" {
				cls = "unscripted"
			}
		} else {
			cls = force
		}
	}
	p := c13Ping{At: r.us(), DL: -1, Ret: -1, Cls: cls, K: cls}
	if r.over {
		r.after()
	}
	r.obs.Pings = append(r.obs.Pings, p)
	return cls, n
}

// lateCensus: a session that ended on its own (not by keep-alive's Close, not by its owner's) leaves
// a keep-alive loop that can only notice by its own pings failing; by the property it has noticed
// after the threshold's intervals and one ping timeout. The census is repeated then (the monitor
// decides which census applies).
func (r *c13Rec) lateCensus(thr int) {
	r.mu.Lock()
	closed := r.obs.Closed
	r.mu.Unlock()
	if closed < 0 {
		return
	}
	n := max(thr, 1)
	at := time.Duration(closed)*time.Microsecond + time.Duration(n)*r.ivl + r.ivl/2 + r.ivl/16
	if d := at - time.Since(r.t0); d > 0 {
		time.Sleep(d)
	}
	synctest.Wait()
	ka := r.kaCount(r.g0)
	r.mu.Lock()
	r.obs.KALate = ka
	r.mu.Unlock()
}

// watchEnd records the instant at which the session terminates without its owner closing it.
func (r *c13Rec) watchEnd(wait func() error) {
	go func() {
		wait()
		r.mu.Lock()
		r.obs.Ended = r.us()
		first := !r.over
		if first {
			r.over = true
			r.obs.Closed = r.obs.Ended
		}
		r.mu.Unlock()
		if first {
			close(r.endedCh)
		}
	}()
}

// finish: the owner closes the session at the case's instant unless it is over, then the censuses.
func (r *c13Rec) finish(thr int, closeFn func() error) {
	o := r.obs
	r.awaitEnd()
	r.mu.Lock()
	over := r.over
	if !over {
		r.over = true
		o.UserClose = r.us()
	}
	r.mu.Unlock()
	if !over {
		closed := make(chan struct{})
		go func() { closeFn(); close(closed) }()
		synctest.Wait()
		o.KAEarly = r.kaCount(r.g0)
		select {
		case <-closed:
		case <-time.After(20 * r.ivl):
		}
	}
	r.census()
	if over {
		r.lateCensus(thr)
	}
}

func c13Resp(req *http.Request, status int, ctype, body string, hdr map[string]string) *http.Response {
	h := http.Header{}
	if ctype != "" {
		h.Set("Content-Type", ctype)
	}
	for k, v := range hdr {
		h.Set(k, v)
	}
	return &http.Response{Status: strconv.Itoa(status) + " " + http.StatusText(status), StatusCode: status,
		Proto: "HTTP/1.1", ProtoMajor: 1, ProtoMinor: 1, Header: h, Request: req,
		Body: io.NopCloser(strings.NewReader(body)), ContentLength: -1}
}

// c13Body is a response body: data, then the end of the stream, an error, or nothing until the
// request's context ends or the body is closed.
type c13Body struct {
	data []byte
	term string // eof | err | hold
	ctx  context.Context
	once sync.Once
	shut chan struct{}
}

func c13NewBody(ctx context.Context, data, term string) *c13Body {
	return &c13Body{data: []byte(data), term: term, ctx: ctx, shut: make(chan struct{})}
}

func (b *c13Body) Read(p []byte) (int, error) {
	if len(b.data) > 0 {
		n := copy(p, b.data)
		b.data = b.data[n:]
		return n, nil
	}
	switch b.term {
	case "hold":
		select {
		case <-b.ctx.Done():
			return 0, b.ctx.Err()
		case <-b.shut:
			return 0, errors.New("c13: body closed")
		}
	case "err":
		return 0, io.ErrUnexpectedEOF
	}
	return 0, io.EOF
}

func (b *c13Body) Close() error {
	b.once.Do(func() { close(b.shut) })
	return nil
}

// ---------------------------------------------------------------------------
// level "httpc": the scripted streamable HTTP server

type c13HTTPPeer struct {
	r    *c13Rec
	ver  string
	gone bool // the server has terminated the session (404 once, 404 ever after)
	gets int
}

var c13PlainBodies = []string{"", "", "upstream error\n", "<html><body>error</body></html>"}

func (p *c13HTTPPeer) RoundTrip(req *http.Request) (*http.Response, error) {
	r := p.r
	sid := map[string]string{"Mcp-Session-Id": "c13-session"}
	plain := func(status int) (*http.Response, error) {
		body := c13PlainBodies[r.rng.IntN(len(c13PlainBodies))]
		ct := ""
		if body != "" {
			ct = "text/plain; charset=utf-8"
		}
		return c13Resp(req, status, ct, body, nil), nil
	}
	switch req.Method {
	case http.MethodGet:
		p.gets++
		return c13Resp(req, http.StatusMethodNotAllowed, "text/plain", "no standalone stream\n", nil), nil
	case http.MethodDelete:
		r.mu.Lock()
		r.obs.Closes++
		r.mu.Unlock()
		return c13Resp(req, http.StatusNoContent, "", "", nil), nil
	case http.MethodPost:
	default:
		return c13Resp(req, http.StatusMethodNotAllowed, "", "", nil), nil
	}
	raw, _ := io.ReadAll(req.Body)
	req.Body.Close()
	var m struct {
		ID     json.RawMessage `json:"id"`
		Method string          `json:"method"`
	}
	if err := json.Unmarshal(raw, &m); err != nil {
		return plain(http.StatusBadRequest)
	}
	r.mu.Lock()
	gone := p.gone
	r.mu.Unlock()
	if gone {
		return c13Resp(req, http.StatusNotFound, "text/plain", "session not found\n", nil), nil
	}
	id := string(m.ID)
	result := func(res string) string { return `{"jsonrpc":"2.0","id":` + id + `,"result":` + res + `}` }
	rpcerr := func(code int, msg string) string {
		return `{"jsonrpc":"2.0","id":` + id + `,"error":{"code":` + strconv.Itoa(code) + `,"message":` + strconv.Quote(msg) + `}}`
	}
	switch {
	case m.Method == "initialize":
		r.mu.Lock()
		r.obs.HsAt = r.us()
		r.mu.Unlock()
		return c13Resp(req, 200, "application/json", result(`{"protocolVersion":`+strconv.Quote(p.ver)+
			`,"capabilities":{},"serverInfo":{"name":"peer","version":"1"}}`), sid), nil
	case m.Method == "notifications/cancelled":
		r.mu.Lock()
		r.obs.Cancels++
		r.mu.Unlock()
		return c13Resp(req, http.StatusAccepted, "", "", nil), nil
	case len(m.ID) == 0:
		return c13Resp(req, http.StatusAccepted, "", "", nil), nil
	case m.Method != "ping":
		return c13Resp(req, 200, "application/json", rpcerr(-32601, "Method not found"), nil), nil
	}
	cls, _ := r.nextCls("")
	switch cls {
	case "200json":
		return c13Resp(req, 200, "application/json", result(`{}`), nil), nil
	case "200sse":
		ev := "event: message\ndata: " + result(`{}`) + "\n\n"
		if r.rng.IntN(2) == 0 {
			ev = "id: 1_0\ndata: \n\n" + ev // a priming event first
		}
		return c13Resp(req, 200, "text/event-stream", ev, nil), nil
	case "hang", "unscripted":
		<-req.Context().Done()
		return nil, req.Context().Err()
	case "ssesilent":
		resp := c13Resp(req, 200, "text/event-stream", "", nil)
		resp.Body = c13NewBody(req.Context(), ": keep-alive\n\n", "hold")
		return resp, nil
	case "429", "500", "502", "503", "504", "400", "403", "405":
		code, _ := strconv.Atoi(cls)
		return plain(code)
	case "404":
		r.mu.Lock()
		p.gone = true
		r.mu.Unlock()
		return c13Resp(req, http.StatusNotFound, "text/plain", "session not found\n", nil), nil
	case "refused":
		return nil, errors.New("dial tcp 192.0.2.7:443: connect: connection refused")
	case "200rpcerr":
		return c13Resp(req, 200, "application/json", rpcerr(-32603, "boom"), nil), nil
	case "400rpcerr":
		return c13Resp(req, 400, "application/json", rpcerr(-32603, "boom"), nil), nil
	case "404rpcerr":
		return c13Resp(req, 404, "application/json", rpcerr(-32603, "boom"), nil), nil
	case "200mnf":
		return c13Resp(req, 200, "application/json", rpcerr(-32601, "Method not found"), nil), nil
	case "400mnf":
		return c13Resp(req, 400, "application/json", rpcerr(-32601, "Method not found"), nil), nil
	case "202":
		return c13Resp(req, http.StatusAccepted, "", "", nil), nil
	case "jsoncut":
		resp := c13Resp(req, 200, "application/json", "", nil)
		resp.Body = c13NewBody(req.Context(), `{"jsonrpc":"2.0","id":`, "err")
		return resp, nil
	case "jsonbad":
		return c13Resp(req, 200, "application/json", `<html><body>ok</body></html>`, nil), nil
	case "ssecut":
		return c13Resp(req, 200, "text/event-stream", "", nil), nil
	case "ctype":
		return c13Resp(req, 200, "text/plain", "pong\n", nil), nil
	}
	panic("c13 harness: unknown class of transport httpc: " + cls)
}

var c13Legacy = []string{"2025-11-25", "2025-06-18", "2025-03-26", "2024-11-05"}

func c13RunHTTPClient(r *c13Rec, thr int) error {
	o := r.obs
	ver := c13Legacy[r.rng.IntN(len(c13Legacy))]
	o.Hand = ver
	peer := &c13HTTPPeer{r: r, ver: ver}
	client := NewClient(&Implementation{Name: "verif", Version: "1"}, &ClientOptions{KeepAlive: r.ivl, KeepAliveFailureThreshold: thr})
	client.AddSendingMiddleware(r.pingWatch)
	tr := &StreamableClientTransport{Endpoint: "http://c13.invalid/mcp", HTTPClient: &http.Client{Transport: peer},
		DisableStandaloneSSE: r.rng.IntN(2) == 0}
	ctx, cancel := context.WithCancel(context.Background())
	r.cancel = cancel
	cs, err := client.Connect(ctx, tr, &ClientSessionOptions{ProtocolVersion: ver})
	if err != nil {
		return err
	}
	defer func() {
		if ir := cs.InitializeResult(); ir != nil {
			o.Neg = ir.ProtocolVersion
		}
		o.Pingable = o.Neg < protocolVersion20260728
	}()
	o.Start = r.us()
	r.watchEnd(cs.Wait)
	r.finish(thr, cs.Close)
	return nil
}

// ---------------------------------------------------------------------------
// level "https": the scripted streamable HTTP client of a real server

type c13RW struct {
	hdr   http.Header
	pw    *io.PipeWriter
	once  sync.Once
	ready chan struct{}
	code  int
}

func (w *c13RW) Header() http.Header { return w.hdr }
func (w *c13RW) WriteHeader(code int) {
	w.once.Do(func() {
		w.code = code
		close(w.ready)
	})
}
func (w *c13RW) Write(p []byte) (int, error) {
	w.WriteHeader(http.StatusOK)
	return w.pw.Write(p)
}
func (w *c13RW) Flush() { w.WriteHeader(http.StatusOK) }

type c13Exch struct {
	w      *c13RW
	pr     *io.PipeReader
	cancel context.CancelFunc
	done   chan struct{} // ServeHTTP has returned
}

// c13Do runs h.ServeHTTP in a goroutine of the bubble; the response body is read from e.pr.
func c13Do(h http.Handler, method string, hdr map[string]string, body string) *c13Exch {
	pr, pw := io.Pipe()
	w := &c13RW{hdr: http.Header{}, pw: pw, ready: make(chan struct{})}
	ctx, cancel := context.WithCancel(context.Background())
	var rd io.Reader = http.NoBody
	if body != "" {
		rd = strings.NewReader(body)
	}
	req, _ := http.NewRequestWithContext(ctx, method, "http://c13.invalid/mcp", rd)
	req.Header.Set("Accept", "application/json, text/event-stream")
	if body != "" {
		req.Header.Set("Content-Type", "application/json")
	}
	for k, v := range hdr {
		req.Header.Set(k, v)
	}
	req.RequestURI = "/mcp"
	req.RemoteAddr = "192.0.2.1:1234"
	e := &c13Exch{w: w, pr: pr, cancel: cancel, done: make(chan struct{})}
	go func() {
		defer close(e.done)
		defer func() {
			w.WriteHeader(http.StatusOK)
			pw.Close()
		}()
		h.ServeHTTP(w, req)
	}()
	return e
}

// whole waits for the exchange to finish and returns status and body.
func (e *c13Exch) whole() (int, string) {
	data, _ := io.ReadAll(e.pr)
	<-e.done
	return e.w.code, string(data)
}

type c13HTTPClientPeer struct {
	r        *c13Rec
	h        http.Handler
	hdr      map[string]string
	mu       sync.Mutex
	stream   *c13Exch // the standalone stream, nil while detached
	statuses []int    // statuses of the peer's POSTs / DELETE in reply to pings
}

func (p *c13HTTPClientPeer) attached() bool {
	p.mu.Lock()
	defer p.mu.Unlock()
	return p.stream != nil
}

func (p *c13HTTPClientPeer) detach() {
	p.mu.Lock()
	s := p.stream
	p.stream = nil
	p.mu.Unlock()
	if s != nil {
		s.cancel()
		go io.Copy(io.Discard, s.pr)
	}
}

func (p *c13HTTPClientPeer) attach() {
	if p.attached() {
		return
	}
	e := c13Do(p.h, http.MethodGet, p.hdr, "")
	p.mu.Lock()
	p.stream = e
	p.mu.Unlock()
	go p.read(e)
}

func (p *c13HTTPClientPeer) post(body string) {
	code, _ := c13Do(p.h, http.MethodPost, p.hdr, body).whole()
	p.mu.Lock()
	p.statuses = append(p.statuses, code)
	p.mu.Unlock()
}

// read plays the client on its standalone stream: every ping request that arrives is treated as
// the script says.
func (p *c13HTTPClientPeer) read(e *c13Exch) {
	sc := bufio.NewScanner(e.pr)
	sc.Buffer(make([]byte, 1<<16), 1<<20)
	var data bytes.Buffer
	for sc.Scan() {
		line := sc.Text()
		if v, ok := strings.CutPrefix(line, "data:"); ok {
			data.WriteString(strings.TrimPrefix(v, " "))
			continue
		}
		if line != "" {
			continue
		}
		var m struct {
			ID     json.RawMessage `json:"id"`
			Method string          `json:"method"`
		}
		err := json.Unmarshal(data.Bytes(), &m)
		data.Reset()
		if err != nil || m.Method != "ping" || len(m.ID) == 0 {
			continue
		}
		cls, _ := p.r.nextCls("seen")
		id := string(m.ID)
		switch cls {
		case "posted":
			go p.post(`{"jsonrpc":"2.0","id":` + id + `,"result":{}}`)
		case "rpcerr":
			go p.post(`{"jsonrpc":"2.0","id":` + id + `,"error":{"code":-32603,"message":"boom"}}`)
		case "mnf":
			go p.post(`{"jsonrpc":"2.0","id":` + id + `,"error":{"code":-32601,"message":"Method not found"}}`)
		case "deleted":
			go func() {
				code, _ := c13Do(p.h, http.MethodDelete, p.hdr, "").whole()
				p.mu.Lock()
				p.statuses = append(p.statuses, code)
				p.mu.Unlock()
			}()
		case "silent", "unscripted":
		default:
			panic("c13 harness: unknown class of transport https: " + cls)
		}
	}
}

func c13RunHTTPServer(r *c13Rec, thr int) error {
	o := r.obs
	ver := c13Legacy[r.rng.IntN(3)] // the streamable transport exists since 2025-03-26
	o.Hand = ver
	server := NewServer(&Implementation{Name: "verif", Version: "1"}, &ServerOptions{KeepAlive: r.ivl, KeepAliveFailureThreshold: thr})
	peer := &c13HTTPClientPeer{r: r}
	server.AddSendingMiddleware(func(next MethodHandler) MethodHandler {
		return func(ctx context.Context, method string, req Request) (Result, error) {
			if method == "ping" {
				r.attempt()
				if !peer.attached() {
					// handed to a transport that has no stream to deliver it on
					r.nextCls("nostream")
				}
			}
			return next(ctx, method, req)
		}
	})
	h := NewStreamableHTTPHandler(func(*http.Request) *Server { return server },
		&StreamableHTTPOptions{JSONResponse: r.rng.IntN(2) == 0, DisableLocalhostProtection: true})
	peer.h = h
	init := c13Do(h, http.MethodPost, nil, `{"jsonrpc":"2.0","id":"init","method":"initialize","params":{"protocolVersion":`+strconv.Quote(ver)+
		`,"capabilities":{},"clientInfo":{"name":"peer","version":"1"}}}`)
	code, body := init.whole()
	sid := init.w.hdr.Get("Mcp-Session-Id")
	if code != 200 || sid == "" {
		return fmt.Errorf("initialize over HTTP: status %d, session id %q, body %.200s", code, sid, body)
	}
	o.HsAt = r.us()
	peer.hdr = map[string]string{"Mcp-Session-Id": sid, "Mcp-Protocol-Version": ver}
	if code, body := c13Do(h, http.MethodPost, peer.hdr, `{"jsonrpc":"2.0","method":"notifications/initialized","params":{}}`).whole(); code != http.StatusAccepted {
		return fmt.Errorf("notifications/initialized over HTTP: status %d, body %.200s", code, body)
	}
	var ss *ServerSession
	for s := range server.Sessions() {
		ss = s
	}
	if ss == nil {
		return errors.New("the server has no session after initialize")
	}
	defer func() {
		if ip := ss.InitializeParams(); ip != nil {
			o.Neg = ip.ProtocolVersion
		}
		o.Pingable = o.Neg < protocolVersion20260728
	}()
	o.Start = r.us()
	// the client keeps its standalone stream attached, except around the ticks of the pings that
	// the script wants undeliverable: an eighth of an interval before tick k the stream is put
	// into the state ping k is to find
	want := func(k int) bool { return k > len(o.Cls) || o.Cls[k-1] != "nostream" }
	if want(1) {
		peer.attach()
		synctest.Wait()
	}
	for k := 1; k <= len(o.Cls)+1; k++ {
		k := k
		time.AfterFunc(r.slotTime(k, -1)-time.Since(r.t0), func() {
			r.mu.Lock()
			over := r.over
			r.mu.Unlock()
			if over {
				return
			}
			if want(k) {
				peer.attach()
			} else {
				peer.detach()
			}
		})
	}
	r.watchEnd(ss.Wait)
	r.finish(thr, ss.Close)
	peer.detach()
	return nil
}

// ---------------------------------------------------------------------------
// level "sse": the scripted legacy SSE server

type c13SSEPeer struct {
	r      *c13Rec
	ver    string
	events chan string // events for the client's stream
	end    chan struct{}
	once   sync.Once
}

type c13SSEStream struct {
	p    *c13SSEPeer
	ctx  context.Context
	buf  []byte
	once sync.Once
	shut chan struct{}
}

func (s *c13SSEStream) Read(b []byte) (int, error) {
	if len(s.buf) == 0 {
		select {
		case ev := <-s.p.events:
			s.buf = []byte(ev)
		case <-s.p.end:
			return 0, io.EOF
		case <-s.ctx.Done():
			return 0, s.ctx.Err()
		case <-s.shut:
			return 0, errors.New("c13: body closed")
		}
	}
	n := copy(b, s.buf)
	s.buf = s.buf[n:]
	return n, nil
}
func (s *c13SSEStream) Close() error {
	s.once.Do(func() { close(s.shut) })
	return nil
}

func (p *c13SSEPeer) send(msg string) {
	select {
	case p.events <- "event: message\ndata: " + msg + "\n\n":
	case <-p.end:
	}
}

func (p *c13SSEPeer) RoundTrip(req *http.Request) (*http.Response, error) {
	r := p.r
	if req.Method == http.MethodGet {
		resp := c13Resp(req, 200, "text/event-stream", "", nil)
		resp.Body = &c13SSEStream{p: p, ctx: req.Context(), shut: make(chan struct{}), buf: []byte("event: endpoint\ndata: /mcp/message?sessionid=c13\n\n")}
		return resp, nil
	}
	if req.Method != http.MethodPost {
		return c13Resp(req, http.StatusMethodNotAllowed, "", "", nil), nil
	}
	raw, _ := io.ReadAll(req.Body)
	req.Body.Close()
	var m struct {
		ID     json.RawMessage `json:"id"`
		Method string          `json:"method"`
	}
	if err := json.Unmarshal(raw, &m); err != nil {
		return c13Resp(req, http.StatusBadRequest, "text/plain", "failed to parse body\n", nil), nil
	}
	id := string(m.ID)
	accepted := func() (*http.Response, error) { return c13Resp(req, http.StatusAccepted, "", "", nil), nil }
	switch {
	case m.Method == "initialize":
		r.mu.Lock()
		r.obs.HsAt = r.us()
		r.mu.Unlock()
		go p.send(`{"jsonrpc":"2.0","id":` + id + `,"result":{"protocolVersion":` + strconv.Quote(p.ver) +
			`,"capabilities":{},"serverInfo":{"name":"peer","version":"1"}}}`)
		return accepted()
	case m.Method == "notifications/cancelled":
		r.mu.Lock()
		r.obs.Cancels++
		r.mu.Unlock()
		return accepted()
	case len(m.ID) == 0:
		return accepted()
	case m.Method != "ping":
		go p.send(`{"jsonrpc":"2.0","id":` + id + `,"error":{"code":-32601,"message":"Method not found"}}`)
		return accepted()
	}
	cls, _ := r.nextCls("")
	switch cls {
	case "event":
		go p.send(`{"jsonrpc":"2.0","id":` + id + `,"result":{}}`)
		return accepted()
	case "silent", "unscripted":
		return accepted()
	case "rpcerr":
		go p.send(`{"jsonrpc":"2.0","id":` + id + `,"error":{"code":-32603,"message":"boom"}}`)
		return accepted()
	case "mnf":
		go p.send(`{"jsonrpc":"2.0","id":` + id + `,"error":{"code":-32601,"message":"Method not found"}}`)
		return accepted()
	case "500", "503", "404":
		code, _ := strconv.Atoi(cls)
		return c13Resp(req, code, "text/plain", http.StatusText(code)+"\n", nil), nil
	case "refused":
		return nil, errors.New("dial tcp 192.0.2.7:443: connect: connection refused")
	case "streamend":
		p.once.Do(func() { close(p.end) })
		return accepted()
	}
	panic("c13 harness: unknown class of transport sse: " + cls)
}

func c13RunSSEClient(r *c13Rec, thr int) error {
	o := r.obs
	ver := c13Legacy[r.rng.IntN(len(c13Legacy))]
	o.Hand = ver
	peer := &c13SSEPeer{r: r, ver: ver, events: make(chan string), end: make(chan struct{})}
	client := NewClient(&Implementation{Name: "verif", Version: "1"}, &ClientOptions{KeepAlive: r.ivl, KeepAliveFailureThreshold: thr})
	client.AddSendingMiddleware(r.pingWatch)
	tr := &SSEClientTransport{Endpoint: "http://c13.invalid/mcp/sse", HTTPClient: &http.Client{Transport: peer}}
	ctx, cancel := context.WithCancel(context.Background())
	r.cancel = cancel
	cs, err := client.Connect(ctx, tr, &ClientSessionOptions{ProtocolVersion: ver})
	if err != nil {
		return err
	}
	defer func() {
		if ir := cs.InitializeResult(); ir != nil {
			o.Neg = ir.ProtocolVersion
		}
		o.Pingable = o.Neg < protocolVersion20260728
	}()
	o.Start = r.us()
	r.watchEnd(cs.Wait)
	r.finish(thr, cs.Close)
	return nil
}

// ---------------------------------------------------------------------------

func c13RunTransport(r *c13Rec, thr int, level string, c c13Case) error {
	switch level {
	case "httpc":
		return c13RunHTTPClient(r, thr)
	case "https":
		return c13RunHTTPServer(r, thr)
	case "sse":
		return c13RunSSEClient(r, thr)
	}
	return fmt.Errorf("harness: no transport level %q", level)
}
