//go:build verif

// Conformance harness of extension check X12: the LIFECYCLE of the streamable-HTTP client transport
// (mcp/streamable.go: StreamableClientTransport.Connect, streamableClientConn sessionUpdated / Write /
// Read / Close), spec/StreamCliLife.tla.
//
// A scenario (one JSON object per line of VERIF_IN) is a TLC-generated behaviour projected on its
// environment / application actions:
//
//	["Connect"]                 the application starts Client.Connect (legacy handshake, 2025-11-25)
//	["CancelConnect"]           the context given to Client.Connect is cancelled
//	["Ans", tag, cls, h]        the scripted server answers the open request `tag` (init, inited, get, c1..c3,
//	                            n1, r1, del) with answer class `cls`; h = the Mcp-Session-Id header it puts
//	                            on the response ("" none, "A", "B")
//	["Auth", tag, "ok"|"fail"]  the OAuth handler's Authorize call for request `tag` returns
//	["Ev", tag, "resp"|"eof"]   on the open SSE response stream of call `tag`: the response event then the end
//	                            of the body / the end of the body without any event
//	["SaEv", "note"|"ping"]     an event on the standalone stream: a notification / a ping request
//	["Call", k] ["Notify"] ["Close"]   application calls on the ClientSession
//	["Drain"]                   (appended) the server discharges what it owes, the application closes
//
// Every action runs on a REAL mcp.Client over a REAL StreamableClientTransport whose http.Client has a
// scripted RoundTripper: each request parks until the scenario answers it (or its context ends).
// The whole scenario runs in a testing/synctest bubble; after every action synctest.Wait() lets the SDK
// settle and one cumulative snapshot line is written to VERIF_OUT for the TLA+ monitor
// (StreamCliLifeMon) and the strict trace specification (StreamCliLifeTrace).
//
// Public API only (package mcp_test); internal/jsonrpc2 is imported for the ErrRejected sentinel.
package mcp_test

import (
	"bufio"
	"bytes"
	"context"
	"encoding/json"
	"errors"
	"fmt"
	"io"
	"math/rand/v2"
	"net/http"
	"os"
	"regexp"
	"runtime"
	"sort"
	"strconv"
	"strings"
	"sync"
	"testing"
	"testing/synctest"
	"time"

	"github.com/modelcontextprotocol/go-sdk/internal/jsonrpc2"
	"github.com/modelcontextprotocol/go-sdk/mcp"
	"golang.org/x/oauth2"
)

const x12Version = "2025-11-25"

type x12Cfg struct {
	SA    bool `json:"sa"`    // standalone stream enabled (DisableStandaloneSSE = false)
	OAuth bool `json:"oauth"` // an OAuthHandler is configured
	// Del is how the scripted server answers the session-terminating DELETE: ok | 405 | 404 | neterr are given at
	// once (streamableClientConn.Close runs under the jsonrpc2 state lock: a parked DELETE would leave the other
	// goroutines of the connection waiting for a sync.Mutex, which a synctest bubble cannot wait out); "timeout"
	// = never, the scenario lets closeDeleteTimeout pass with ["Ans","del","timeout"].
	Del string `json:"del"`
}

type x12Hist struct {
	ID  string  `json:"id"`
	Cfg x12Cfg  `json:"cfg"`
	Ops [][]any `json:"ops"`
}

// one HTTP request as the scripted server saw it
type x12ReqObs struct {
	N      int    `json:"n"`      // order of arrival
	Tag    string `json:"tag"`    // init | inited | get | reget | c<k> | n1 | r1 | cn | del | other
	Meth   string `json:"meth"`   // POST | GET | DELETE
	Att    int    `json:"att"`    // 1, or 2 for the retry after a successful authorization
	Sid    string `json:"sid"`    // "" | "A" | "B" | "?" (a value the server never issued) | "dup" (several values)
	Pv     string `json:"pv"`     // "" | "ok" (the negotiated version) | "bad"
	Accept string `json:"accept"` // "both" | "sse" | "other"
	Ctype  string `json:"ctype"`  // "json" | "" | "other"
	Lei    bool   `json:"lei"`    // a Last-Event-ID header is present
	Body   string `json:"body"`   // "msg" (exactly one JSON-RPC message of the tagged kind) | "" (no body) | "bad"
	St     string `json:"st"`     // open | auth | done | aborted | still (context already over when it arrived: not sent)
	Cls    string `json:"cls"`    // the answer it got ("" while open)
	H      string `json:"h"`      // the session id header of the answer
	Step   int    `json:"step"`   // step during which it arrived
	AStep  int    `json:"astep"`  // step at which it was answered (0: not yet)
	RBody  string `json:"rbody"`  // response body: "" none | open | closed
	Status int    `json:"status"` // HTTP status of the answer (0: none / transport error)
	Seq    int    `json:"seq"`    // event clock of the scripted server when the request arrived
	ASeq   int    `json:"aseq"`   // ... when its answer was given (0: not yet)
	EvSeq  int    `json:"evseq"`  // ... when its SSE response stream was ended by the server (0: not / not a stream)
	EvKind string `json:"evkind"` // "" | resp | eof
}

type x12CallObs struct {
	K    int    `json:"k"`
	St   string `json:"st"`  // pending | done
	Res  string `json:"res"` // "" | ok | wrong | closed | gone | rej | eos | ctx | fatal
	Gone bool   `json:"gonetext"`
	Step int    `json:"step"`  // step at which it was issued
	RStep int   `json:"rstep"` // step at which it returned (0: not yet)
	Err  string `json:"err"`
}

type x12Line struct {
	Ev      string       `json:"ev"`
	Trace   string       `json:"trace"`
	SA      bool         `json:"sa"`
	OAuth   bool         `json:"oauth"`
	Del     string       `json:"del"`
	N       int          `json:"n"`
	Op      string       `json:"op"`
	A1      string       `json:"a1"`
	A2      string       `json:"a2"`
	A3      string       `json:"a3"`
	Applied bool         `json:"applied"`
	Conn    string       `json:"conn"`    // none | running | ok | err
	ConnRes string       `json:"connres"` // class of Connect's error
	Cancel  int          `json:"cancel"`  // step at which Connect's context was cancelled (0: never)
	ConnRet int          `json:"connret"` // step at which Connect returned (0: not yet)
	Sid     string       `json:"sid"`     // ClientSession.ID() mapped to "" | A | B | ?
	Reqs    []x12ReqObs  `json:"reqs"`
	Calls   []x12CallObs `json:"calls"`
	Notifs  []x12CallObs `json:"notifs"`
	CloseIss int         `json:"closeiss"`
	CloseRet int         `json:"closeret"`
	CloseStep int        `json:"closestep"`    // step at which the first Close was issued (0: never)
	CloseRetStep int     `json:"closeretstep"` // step at which the first Close returned (0: not yet)
	CloseErr string      `json:"closeerr"`     // "" | err (class of the first Close's result)
	WaitRet bool         `json:"waitret"`      // ClientSession.Wait has returned
	SaNotes int          `json:"sanotes"`      // notifications of the standalone stream the client's handler saw
	SaSent  int          `json:"sasent"`       // notifications the server wrote on the standalone stream
	Streams []string     `json:"streams"`      // per call tag with an SSE response: "c1:open" | "c1:closed"
	Panic   string       `json:"panic"`
	Leak    string       `json:"leak"` // (last line) what was still running when everything was over
	Note    string       `json:"note"`
}

// ---------------------------------------------------------------------------
// scripted bodies

type x12Body struct {
	mu     sync.Mutex
	buf    bytes.Buffer
	ended  bool
	endErr error
	closed bool
	wake   chan struct{} // replaced on every change
	ctx    context.Context
}

func x12NewBody(ctx context.Context) *x12Body {
	return &x12Body{wake: make(chan struct{}), ctx: ctx}
}

func (b *x12Body) signal() {
	close(b.wake)
	b.wake = make(chan struct{})
}

func (b *x12Body) feed(p []byte) {
	b.mu.Lock()
	b.buf.Write(p)
	b.signal()
	b.mu.Unlock()
}

func (b *x12Body) end(err error) {
	b.mu.Lock()
	if !b.ended {
		b.ended, b.endErr = true, err
		b.signal()
	}
	b.mu.Unlock()
}

func (b *x12Body) Read(p []byte) (int, error) {
	for {
		b.mu.Lock()
		if b.closed {
			b.mu.Unlock()
			return 0, errors.New("x12: read on closed body")
		}
		if b.buf.Len() > 0 {
			n, _ := b.buf.Read(p)
			b.mu.Unlock()
			return n, nil
		}
		if b.ended {
			err := b.endErr
			b.mu.Unlock()
			if err == nil {
				err = io.EOF
			}
			return 0, err
		}
		w := b.wake
		b.mu.Unlock()
		select {
		case <-w:
		case <-b.ctx.Done():
			return 0, b.ctx.Err()
		}
	}
}

func (b *x12Body) Close() error {
	b.mu.Lock()
	if !b.closed {
		b.closed = true
		b.signal()
	}
	b.mu.Unlock()
	return nil
}

func (b *x12Body) state() string {
	if b == nil {
		return ""
	}
	b.mu.Lock()
	defer b.mu.Unlock()
	if b.closed {
		return "closed"
	}
	return "open"
}

// ---------------------------------------------------------------------------
// the scripted server

type x12Ans struct {
	cls string
	h   string
}

type x12Req struct {
	obs    x12ReqObs
	req    *http.Request
	rpcID  json.RawMessage
	method string
	name   string
	ans    chan x12Ans
	body   *x12Body
	auth   chan string // Authorize parks here
	authed bool
}

type x12Env struct {
	mu     sync.Mutex
	rng    *rand.Rand
	step   int
	reqs   []*x12Req
	sidA   string
	sidB   string
	del    string
	clk    int // event clock: request arrivals, answers, ends of streams
	saBody *x12Body
	saSent int
	saNotes int
	pingID int
}

func (e *x12Env) sidClass(vals []string) string {
	if len(vals) == 0 {
		return ""
	}
	if len(vals) > 1 {
		return "dup"
	}
	switch vals[0] {
	case e.sidA:
		return "A"
	case e.sidB:
		return "B"
	}
	return "?"
}

func (e *x12Env) sidValue(h string) string {
	switch h {
	case "A":
		return e.sidA
	case "B":
		return e.sidB
	}
	return ""
}

func x12HeaderList(h http.Header, key string) []string {
	return h[http.CanonicalHeaderKey(key)]
}

func x12AcceptClass(vals []string) string {
	var toks []string
	for _, v := range vals {
		for _, p := range strings.Split(v, ",") {
			p = strings.TrimSpace(strings.ToLower(strings.SplitN(p, ";", 2)[0]))
			if p != "" {
				toks = append(toks, p)
			}
		}
	}
	sort.Strings(toks)
	switch strings.Join(toks, "|") {
	case "application/json|text/event-stream":
		return "both"
	case "text/event-stream":
		return "sse"
	case "":
		return ""
	}
	return "other"
}

func (e *x12Env) RoundTrip(req *http.Request) (*http.Response, error) {
	var raw []byte
	if req.Body != nil {
		raw, _ = io.ReadAll(req.Body)
		req.Body.Close()
	}
	r := &x12Req{req: req, ans: make(chan x12Ans, 1), auth: make(chan string, 1)}
	o := &r.obs
	o.Meth = req.Method
	o.Att = 1
	o.Accept = x12AcceptClass(x12HeaderList(req.Header, "Accept"))
	switch ct := x12HeaderList(req.Header, "Content-Type"); {
	case len(ct) == 0:
		o.Ctype = ""
	case len(ct) == 1 && strings.ToLower(strings.TrimSpace(strings.SplitN(ct[0], ";", 2)[0])) == "application/json":
		o.Ctype = "json"
	default:
		o.Ctype = "other"
	}
	o.Lei = len(x12HeaderList(req.Header, "Last-Event-ID")) > 0
	switch pv := x12HeaderList(req.Header, "Mcp-Protocol-Version"); {
	case len(pv) == 0:
		o.Pv = ""
	case len(pv) == 1 && pv[0] == x12Version:
		o.Pv = "ok"
	default:
		o.Pv = "bad"
	}
	switch req.Method {
	case http.MethodPost:
		var m struct {
			V      string          `json:"jsonrpc"`
			ID     json.RawMessage `json:"id"`
			Method *string         `json:"method"`
			Params json.RawMessage `json:"params"`
			Result json.RawMessage `json:"result"`
			Error  json.RawMessage `json:"error"`
		}
		o.Tag, o.Body = "other", "bad"
		dec := json.NewDecoder(bytes.NewReader(raw))
		if err := dec.Decode(&m); err == nil && m.V == "2.0" && !dec.More() {
			o.Body = "msg"
			r.rpcID = m.ID
			switch {
			case m.Method == nil && len(m.ID) > 0 && (len(m.Result) > 0 || len(m.Error) > 0):
				o.Tag = "r1"
			case m.Method == nil:
				o.Body = "bad"
			default:
				r.method = *m.Method
				isCall := len(m.ID) > 0 && string(m.ID) != "null"
				switch {
				case r.method == "initialize" && isCall:
					o.Tag = "init"
				case r.method == "notifications/initialized" && !isCall:
					o.Tag = "inited"
				case r.method == "tools/call" && isCall:
					var p struct {
						Name string `json:"name"`
					}
					_ = json.Unmarshal(m.Params, &p)
					r.name = p.Name
					if len(p.Name) == 2 && p.Name[0] == 'k' {
						o.Tag = "c" + p.Name[1:]
					}
				case r.method == "notifications/progress" && !isCall:
					o.Tag = "n1"
				case r.method == "notifications/cancelled" && !isCall:
					o.Tag = "cn"
				}
			}
		}
	case http.MethodGet:
		o.Tag = "get"
		if o.Lei {
			o.Tag = "reget"
		}
		if len(raw) > 0 {
			o.Body = "bad"
		}
	case http.MethodDelete:
		o.Tag = "del"
		if len(raw) > 0 {
			o.Body = "bad"
		}
	default:
		o.Tag = "other"
	}
	e.mu.Lock()
	o.Sid = e.sidClass(x12HeaderList(req.Header, "Mcp-Session-Id"))
	o.N = len(e.reqs) + 1
	o.Step = e.step
	e.clk++
	o.Seq = e.clk
	for _, q := range e.reqs {
		if q.obs.Tag == o.Tag && q.obs.St != "still" {
			o.Att++
		}
	}
	if req.Context().Err() != nil {
		// as net/http's Transport: a request whose context is already over is not sent
		o.St = "still"
		e.reqs = append(e.reqs, r)
		e.mu.Unlock()
		return nil, req.Context().Err()
	}
	o.St = "open"
	e.reqs = append(e.reqs, r)
	e.mu.Unlock()
	if req.Method == http.MethodDelete && e.del != "timeout" {
		return e.respond(r, x12Ans{cls: e.del})
	}

	select {
	case a := <-r.ans:
		return e.respond(r, a)
	case <-req.Context().Done():
		e.mu.Lock()
		o.St, o.Cls, o.AStep = "aborted", "ctx", e.step
		e.clk++
		o.ASeq = e.clk
		e.mu.Unlock()
		return nil, req.Context().Err()
	}
}

func (e *x12Env) pick(vals ...int) int { return vals[e.rng.IntN(len(vals))] }

func x12Resp(req *http.Request, status int, ctype string, body io.ReadCloser, n int64) *http.Response {
	h := http.Header{}
	if ctype != "" {
		h.Set("Content-Type", ctype)
	}
	return &http.Response{Status: strconv.Itoa(status) + " " + http.StatusText(status), StatusCode: status,
		Proto: "HTTP/1.1", ProtoMajor: 1, ProtoMinor: 1, Header: h, Request: req, Body: body, ContentLength: n}
}

func (e *x12Env) resultFor(r *x12Req) string {
	id := string(r.rpcID)
	switch r.method {
	case "initialize":
		return `{"jsonrpc":"2.0","id":` + id + `,"result":{"protocolVersion":"` + x12Version +
			`","capabilities":{"tools":{},"logging":{}},"serverInfo":{"name":"x12","version":"1"}}}`
	case "tools/call":
		return `{"jsonrpc":"2.0","id":` + id + `,"result":{"content":[{"type":"text","text":"r-` + r.name + `"}]}}`
	}
	if len(r.rpcID) > 0 && r.method != "" {
		return `{"jsonrpc":"2.0","id":` + id + `,"result":{}}`
	}
	return `{}`
}

// respond builds the HTTP response of answer class a.cls (called on the goroutine of the request).
func (e *x12Env) respond(r *x12Req, a x12Ans) (*http.Response, error) {
	e.mu.Lock()
	defer e.mu.Unlock()
	o := &r.obs
	o.Cls, o.H, o.AStep, o.St = a.cls, a.h, e.step, "done"
	e.clk++
	o.ASeq = e.clk
	fixed := func(status int, ctype, body string) (*http.Response, error) {
		b := x12NewBody(r.req.Context())
		b.feed([]byte(body))
		b.end(nil)
		r.body = b
		o.Status = status
		resp := x12Resp(r.req, status, ctype, b, int64(len(body)))
		if v := e.sidValue(a.h); v != "" {
			resp.Header.Set("Mcp-Session-Id", v)
		}
		return resp, nil
	}
	plain := func(status int) (*http.Response, error) {
		switch e.rng.IntN(3) {
		case 0:
			return fixed(status, "text/plain; charset=utf-8", http.StatusText(status)+"\n")
		case 1:
			// a JSON-RPC error WITHOUT a usable id (as servers answer when they cannot attribute the failure)
			return fixed(status, "application/json", `{"jsonrpc":"2.0","id":null,"error":{"code":-32000,"message":"x12 `+strconv.Itoa(status)+`"}}`)
		}
		return fixed(status, "", "")
	}
	rpcerr := func(status int) (*http.Response, error) {
		id := string(r.rpcID)
		if id == "" {
			id = "1"
		}
		return fixed(status, "application/json", `{"jsonrpc":"2.0","id":`+id+`,"error":{"code":-32602,"message":"x12 refused"}}`)
	}
	switch r.obs.Meth {
	case http.MethodDelete:
		switch a.cls {
		case "ok":
			return fixed(e.pick(200, 204), "", "")
		case "405":
			return plain(405)
		case "404":
			return plain(404)
		case "neterr":
			o.Status = 0
			return nil, errors.New("x12: connection refused")
		}
	case http.MethodGet:
		switch a.cls {
		case "sse":
			b := x12NewBody(r.req.Context())
			r.body, e.saBody = b, b
			o.Status = 200
			return x12Resp(r.req, 200, "text/event-stream", b, -1), nil
		case "405":
			return plain(405)
		case "404":
			return plain(404)
		case "4xx":
			return plain(e.pick(400, 401, 403, 406))
		case "500":
			return plain(e.pick(500, 501, 503))
		case "200plain":
			return fixed(200, "text/plain", "hello\n")
		case "503sse":
			return fixed(e.pick(500, 503), "text/event-stream", "")
		case "neterr":
			return nil, errors.New("x12: connection refused")
		}
	case http.MethodPost:
		switch a.cls {
		case "json":
			return fixed(200, "application/json", e.resultFor(r))
		case "badjson":
			return fixed(200, "application/json", `{"jsonrpc":"2.0","id":`)
		case "sse":
			b := x12NewBody(r.req.Context())
			r.body = b
			o.Status = 200
			resp := x12Resp(r.req, 200, "text/event-stream", b, -1)
			if v := e.sidValue(a.h); v != "" {
				resp.Header.Set("Mcp-Session-Id", v)
			}
			return resp, nil
		case "202":
			return fixed(e.pick(202, 202, 204), "", "")
		case "badct":
			return fixed(200, "text/plain", "hello\n")
		case "rpcerr":
			return rpcerr(e.pick(400, 403, 409, 422))
		case "rpc404":
			return rpcerr(404)
		case "404":
			return plain(404)
		case "http":
			return plain(e.pick(400, 405, 410, 501, 505))
		case "401":
			return plain(e.pick(401, 403))
		case "5xx":
			return plain(e.pick(429, 500, 502, 503, 504))
		case "neterr":
			o.Status = 0
			return nil, errors.New("x12: connection refused")
		}
	}
	panic("x12: bad answer class " + r.obs.Meth + " " + a.cls)
}

// the OAuth handler of the scenario: no token source; Authorize parks until the scenario decides
type x12OAuth struct{ e *x12Env }

func (h *x12OAuth) TokenSource(context.Context) (oauth2.TokenSource, error) { return nil, nil }

func (h *x12OAuth) Authorize(ctx context.Context, req *http.Request, resp *http.Response) error {
	defer resp.Body.Close()
	e := h.e
	e.mu.Lock()
	// the latest request answered 401 whose authorization has not been asked for yet
	var r *x12Req
	for _, q := range e.reqs {
		if q.obs.St == "done" && q.obs.Cls == "401" && !q.authed {
			r = q
		}
	}
	if r == nil {
		e.mu.Unlock()
		return errors.New("x12: Authorize for an unknown request")
	}
	r.authed = true
	r.obs.St = "auth"
	e.mu.Unlock()
	select {
	case out := <-r.auth:
		e.mu.Lock()
		r.obs.St = "done"
		e.mu.Unlock()
		if out == "ok" {
			return nil
		}
		return errors.New("x12: authorization denied")
	case <-ctx.Done():
		e.mu.Lock()
		r.obs.St = "done"
		e.mu.Unlock()
		return ctx.Err()
	}
}

// ---------------------------------------------------------------------------
// the scenario driver

type x12Run struct {
	t     *testing.T
	h     x12Hist
	e     *x12Env
	out   func(x12Line)
	sess  *mcp.ClientSession
	conn  string
	connRes string
	connRet int
	cancelAt int
	cancelConnect context.CancelFunc
	calls  []*x12CallObs
	notifs []*x12CallObs
	closeIss, closeRet, closeStep, closeRetStep int
	closeErr string
	waitRet bool
	mu     sync.Mutex // guards the fields above that goroutines of the scenario write
	panicked string
}

func x12Class(err error, want string, res *mcp.CallToolResult) string {
	switch {
	case err == nil:
		if res != nil {
			if len(res.Content) == 1 {
				if tc, ok := res.Content[0].(*mcp.TextContent); ok && tc.Text == want && !res.IsError {
					return "ok"
				}
			}
			return "wrong"
		}
		return "ok"
	case errors.Is(err, mcp.ErrConnectionClosed), errors.Is(err, jsonrpc2.ErrClientClosing), errors.Is(err, jsonrpc2.ErrServerClosing):
		// (a refused notification carries the bare jsonrpc2 sentinel, a refused call mcp.ErrConnectionClosed)
		return "closed"
	case errors.Is(err, mcp.ErrSessionMissing):
		return "gone"
	case errors.Is(err, jsonrpc2.ErrRejected):
		return "rej"
	case strings.Contains(err.Error(), "request terminated without response"):
		return "eos"
	case errors.Is(err, context.Canceled) || errors.Is(err, context.DeadlineExceeded):
		return "ctx"
	}
	return "fatal"
}

func x12Trunc(s string) string {
	if len(s) > 160 {
		return s[:160]
	}
	return s
}

func (x *x12Run) find(tag string, st string) *x12Req {
	// the latest request with this tag in state st
	var r *x12Req
	for _, q := range x.e.reqs {
		if q.obs.Tag == tag && q.obs.St == st {
			r = q
		}
	}
	return r
}

func (x *x12Run) snapshot(n int, op []any, applied bool, note string) x12Line {
	e := x.e
	x.mu.Lock()
	defer x.mu.Unlock()
	e.mu.Lock()
	defer e.mu.Unlock()
	arg := func(i int) string {
		if i < len(op) {
			switch v := op[i].(type) {
			case string:
				return v
			case float64:
				return strconv.Itoa(int(v))
			}
		}
		return ""
	}
	ln := x12Line{Ev: "step", Trace: x.h.ID, SA: x.h.Cfg.SA, OAuth: x.h.Cfg.OAuth, Del: x.h.Cfg.Del, N: n, Op: arg(0), A1: arg(1), A2: arg(2), A3: arg(3),
		Applied: applied, Conn: x.conn, ConnRes: x.connRes, Cancel: x.cancelAt, ConnRet: x.connRet,
		Reqs: []x12ReqObs{}, Calls: []x12CallObs{}, Notifs: []x12CallObs{}, Streams: []string{},
		CloseIss: x.closeIss, CloseRet: x.closeRet, CloseStep: x.closeStep, CloseRetStep: x.closeRetStep, CloseErr: x.closeErr, WaitRet: x.waitRet,
		SaNotes: e.saNotes, SaSent: e.saSent, Panic: x.panicked, Note: note}
	if x.sess != nil {
		ln.Sid = e.sidClass(func() []string {
			if id := x.sess.ID(); id != "" {
				return []string{id}
			}
			return nil
		}())
	}
	for _, q := range e.reqs {
		o := q.obs
		o.RBody = q.body.state()
		ln.Reqs = append(ln.Reqs, o)
		if o.Cls == "sse" && o.Meth == http.MethodPost {
			ln.Streams = append(ln.Streams, o.Tag+":"+o.RBody)
		}
	}
	for _, c := range x.calls {
		ln.Calls = append(ln.Calls, *c)
	}
	for _, c := range x.notifs {
		ln.Notifs = append(ln.Notifs, *c)
	}
	return ln
}

func x12SSE(data string) []byte {
	return []byte("event: message\ndata: " + data + "\n\n")
}

// apply runs one action; it reports whether the action was applicable in the real run.
func (x *x12Run) apply(step int, op []any) (applied bool, note string) {
	e := x.e
	e.mu.Lock()
	e.step = step
	e.mu.Unlock()
	name, _ := op[0].(string)
	sarg := func(i int) string {
		if i < len(op) {
			if s, ok := op[i].(string); ok {
				return s
			}
			if f, ok := op[i].(float64); ok {
				return strconv.Itoa(int(f))
			}
		}
		return ""
	}
	// streamableClientConn.Close is called by jsonrpc2 under the connection's state lock: while the DELETE is
	// open every other operation on the session would wait for that lock (a sync.Mutex: not a durable block,
	// synctest.Wait would never return).  The only action applicable then is the answer to the DELETE.
	e.mu.Lock()
	delOpen := x.find("del", "open") != nil
	e.mu.Unlock()
	if delOpen && !(name == "Ans" && sarg(1) == "del") {
		return false, "delete-open"
	}
	switch name {
	case "Connect":
		if x.conn != "none" {
			return false, ""
		}
		x.conn = "running"
		tr := &mcp.StreamableClientTransport{Endpoint: "http://x12.invalid/mcp", HTTPClient: &http.Client{Transport: e},
			MaxRetries: -1, DisableStandaloneSSE: !x.h.Cfg.SA}
		if x.h.Cfg.OAuth {
			tr.OAuthHandler = &x12OAuth{e: e}
		}
		client := mcp.NewClient(&mcp.Implementation{Name: "x12-client", Version: "1"}, &mcp.ClientOptions{
			LoggingMessageHandler: func(_ context.Context, req *mcp.LoggingMessageRequest) {
				e.mu.Lock()
				e.saNotes++
				e.mu.Unlock()
			},
		})
		ctx, cancel := context.WithCancel(context.Background())
		x.cancelConnect = cancel
		go func() {
			sess, err := client.Connect(ctx, tr, &mcp.ClientSessionOptions{ProtocolVersion: x12Version})
			x.mu.Lock()
			e.mu.Lock()
			x.connRet = e.step
			e.mu.Unlock()
			if err != nil {
				x.conn, x.connRes = "err", x12Class(err, "", nil)
				x.mu.Unlock()
				return
			}
			x.sess, x.conn = sess, "ok"
			x.mu.Unlock()
			go func() {
				sess.Wait()
				x.mu.Lock()
				x.waitRet = true
				x.mu.Unlock()
			}()
		}()
		return true, ""
	case "CancelConnect":
		x.mu.Lock()
		running := x.conn == "running"
		x.mu.Unlock()
		if !running || x.cancelAt != 0 {
			return false, ""
		}
		x.cancelAt = step
		x.cancelConnect()
		return true, ""
	case "Ans":
		tag, cls, h := sarg(1), sarg(2), sarg(3)
		e.mu.Lock()
		r := x.find(tag, "open")
		e.mu.Unlock()
		if r == nil {
			return false, ""
		}
		if tag == "del" && cls == "timeout" {
			time.Sleep(5*time.Second + time.Millisecond) // closeDeleteTimeout
			return true, ""
		}
		r.ans <- x12Ans{cls: cls, h: h}
		return true, ""
	case "Auth":
		e.mu.Lock()
		r := x.find(sarg(1), "auth")
		e.mu.Unlock()
		if r == nil {
			return false, ""
		}
		r.auth <- sarg(2)
		return true, ""
	case "Ev":
		tag := sarg(1)
		e.mu.Lock()
		var r *x12Req
		for _, q := range e.reqs {
			if q.obs.Tag == tag && q.obs.Cls == "sse" && q.body != nil && q.body.state() == "open" && !q.body.ended {
				r = q
			}
		}
		e.mu.Unlock()
		if r == nil {
			return false, ""
		}
		e.mu.Lock()
		e.clk++
		r.obs.EvSeq, r.obs.EvKind = e.clk, sarg(2)
		e.mu.Unlock()
		if sarg(2) == "resp" {
			r.body.feed(x12SSE(e.resultFor(r)))
		}
		r.body.end(nil)
		return true, ""
	case "SaEv":
		e.mu.Lock()
		b := e.saBody
		if b == nil || b.state() != "open" {
			e.mu.Unlock()
			return false, ""
		}
		if sarg(1) == "note" {
			e.saSent++
			e.mu.Unlock()
			b.feed(x12SSE(`{"jsonrpc":"2.0","method":"notifications/message","params":{"level":"info","logger":"x12","data":"note"}}`))
		} else {
			e.pingID++
			id := 7000 + e.pingID
			e.mu.Unlock()
			b.feed(x12SSE(`{"jsonrpc":"2.0","id":` + strconv.Itoa(id) + `,"method":"ping"}`))
		}
		return true, ""
	case "Call":
		x.mu.Lock()
		sess := x.sess
		x.mu.Unlock()
		if sess == nil {
			return false, ""
		}
		k, _ := strconv.Atoi(sarg(1))
		c := &x12CallObs{K: k, St: "pending", Step: step}
		x.mu.Lock()
		x.calls = append(x.calls, c)
		x.mu.Unlock()
		go func() {
			name := "k" + strconv.Itoa(k)
			res, err := sess.CallTool(context.Background(), &mcp.CallToolParams{Name: name})
			x.mu.Lock()
			e.mu.Lock()
			c.RStep = e.step
			e.mu.Unlock()
			c.St, c.Res = "done", x12Class(err, "r-"+name, res)
			if err != nil {
				c.Err = x12Trunc(err.Error())
				c.Gone = strings.Contains(err.Error(), mcp.ErrSessionMissing.Error())
			}
			x.mu.Unlock()
		}()
		return true, ""
	case "Notify":
		x.mu.Lock()
		sess := x.sess
		x.mu.Unlock()
		if sess == nil {
			return false, ""
		}
		c := &x12CallObs{K: len(x.notifs) + 1, St: "pending", Step: step}
		x.mu.Lock()
		x.notifs = append(x.notifs, c)
		x.mu.Unlock()
		go func() {
			err := sess.NotifyProgress(context.Background(), &mcp.ProgressNotificationParams{ProgressToken: "x12", Progress: 1})
			x.mu.Lock()
			e.mu.Lock()
			c.RStep = e.step
			e.mu.Unlock()
			c.St, c.Res = "done", x12Class(err, "", nil)
			if err != nil {
				c.Err = x12Trunc(err.Error())
				c.Gone = strings.Contains(err.Error(), mcp.ErrSessionMissing.Error())
			}
			x.mu.Unlock()
		}()
		return true, ""
	case "Close":
		x.mu.Lock()
		sess := x.sess
		x.mu.Unlock()
		if sess == nil {
			return false, ""
		}
		x.mu.Lock()
		x.closeIss++
		first := x.closeIss == 1
		if first {
			x.closeStep = step
		}
		x.mu.Unlock()
		go func() {
			err := sess.Close()
			x.mu.Lock()
			x.closeRet++
			if first {
				e.mu.Lock()
				x.closeRetStep = e.step
				e.mu.Unlock()
				if err != nil {
					x.closeErr = "err"
				}
			}
			x.mu.Unlock()
		}()
		return true, ""
	}
	panic("x12: unknown action " + name)
}

// owed lists what the scripted server still owes: open requests, parked authorizations, response
// streams of calls that have not returned.
func (x *x12Run) drainOnce(step int) bool {
	e := x.e
	did := false
	e.mu.Lock()
	var open, auth []*x12Req
	for _, q := range e.reqs {
		switch q.obs.St {
		case "open":
			open = append(open, q)
		case "auth":
			auth = append(auth, q)
		}
	}
	e.mu.Unlock()
	for _, q := range auth {
		q.auth <- "ok"
		did = true
	}
	for _, q := range open {
		cls := "202"
		switch {
		case q.obs.Meth == http.MethodDelete:
			continue // a DELETE is open only in "timeout" scenarios: the virtual minute below lets the client give up
		case q.obs.Meth == http.MethodGet:
			cls = "405"
		case len(q.rpcID) > 0 && q.method != "":
			cls = "json"
		}
		q.ans <- x12Ans{cls: cls}
		did = true
	}
	// response streams whose call is still waiting: the server owes the response
	x.mu.Lock()
	pending := map[string]bool{}
	for _, c := range x.calls {
		if c.St == "pending" {
			pending["c"+strconv.Itoa(c.K)] = true
		}
	}
	connRunning := x.conn == "running"
	x.mu.Unlock()
	e.mu.Lock()
	var feedq []*x12Req
	for _, q := range e.reqs {
		if q.obs.Cls == "sse" && q.obs.Meth == http.MethodPost && q.body != nil && q.body.state() == "open" && !q.body.ended &&
			(pending[q.obs.Tag] || (q.obs.Tag == "init" && connRunning)) {
			feedq = append(feedq, q)
		}
	}
	e.mu.Unlock()
	for _, q := range feedq {
		e.mu.Lock()
		e.clk++
		q.obs.EvSeq, q.obs.EvKind = e.clk, "resp"
		e.mu.Unlock()
		q.body.feed(x12SSE(e.resultFor(q)))
		q.body.end(nil)
		did = true
	}
	return did
}

var x12Bubble = regexp.MustCompile(`(?s)goroutine \d+ \[[^\]]*synctest bubble[^\]]*\]:\n(.*?)\n\n`)

// left lists the goroutines of the bubble that are still alive, by the innermost function of this module
func x12Left() string {
	buf := make([]byte, 1<<20)
	buf = buf[:runtime.Stack(buf, true)]
	var out []string
	for _, m := range x12Bubble.FindAllSubmatch(append(buf, '\n', '\n'), -1) {
		st := string(m[1])
		if strings.Contains(st, "x12Scenario") && strings.Contains(st, "x12Left") {
			continue // the root
		}
		fn := "?"
		for _, ln := range strings.Split(st, "\n") {
			if strings.HasPrefix(ln, "github.com/modelcontextprotocol/go-sdk/") && !strings.Contains(ln, "/mcp_test.") {
				f := strings.TrimPrefix(ln, "github.com/modelcontextprotocol/go-sdk/")
				if i := strings.LastIndex(f, "("); i > 0 {
					f = f[:i]
				}
				fn = f
				break
			}
		}
		if fn == "?" {
			// a goroutine of the harness itself (an application call that has not returned is reported by the monitor)
			continue
		}
		out = append(out, fn)
	}
	sort.Strings(out)
	return strings.Join(out, ",")
}

func x12Scenario(t *testing.T, h x12Hist, seed uint64, emit func(x12Line)) {
	var hsh uint64 = 1469598103934665603
	for i := 0; i < len(h.ID); i++ {
		hsh = (hsh ^ uint64(h.ID[i])) * 1099511628211
	}
	rng := rand.New(rand.NewPCG(seed, hsh))
	mk := func(p string) string {
		const al = "abcdefghijklmnopqrstuvwxyz0123456789"
		b := make([]byte, 8+rng.IntN(8))
		for i := range b {
			b[i] = al[rng.IntN(len(al))]
		}
		return p + string(b)
	}
	if h.Cfg.Del == "" {
		h.Cfg.Del = "ok"
	}
	e := &x12Env{rng: rng, sidA: mk("sA-"), sidB: mk("sB-"), del: h.Cfg.Del}
	x := &x12Run{t: t, h: h, e: e, conn: "none"}
	var lines []x12Line
	leak := func() (leak string) {
		defer func() {
			if rec := recover(); rec != nil {
				leak = "bubble: " + x12Trunc(fmt.Sprint(rec))
			}
		}()
		synctest.Test(t, func(t *testing.T) {
			defer func() {
				if rec := recover(); rec != nil {
					x.panicked = x12Trunc(fmt.Sprint(rec))
					lines = append(lines, x.snapshot(len(lines)+1, []any{"Panic"}, true, ""))
				}
			}()
			n := 0
			for _, op := range h.Ops {
				n++
				applied, note := x.apply(n, op)
				synctest.Wait()
				lines = append(lines, x.snapshot(n, op, applied, note))
			}
			// Drain, stage 1: the server answers what it was asked (benignly), authorizations succeed, the
			// response streams of calls that are still waiting get their response; then the application closes.
			n++
			e.mu.Lock()
			e.step = n
			e.mu.Unlock()
			for i := 0; i < 20; i++ {
				if !x.drainOnce(n) {
					break
				}
				synctest.Wait()
			}
			x.mu.Lock()
			sess, closed := x.sess, x.closeIss > 0
			x.mu.Unlock()
			if sess != nil && !closed {
				x.apply(n, []any{"Close"})
				synctest.Wait()
			}
			for i := 0; i < 20; i++ {
				if !x.drainOnce(n) {
					break
				}
				synctest.Wait()
			}
			time.Sleep(time.Minute)
			synctest.Wait()
			ln := x.snapshot(n, []any{"Drain"}, true, "")
			ln.Leak = x12Left()
			lines = append(lines, ln)
			// stage 2 (clean-up, not judged): end what the server still holds so that the bubble can exit
			e.mu.Lock()
			for _, q := range e.reqs {
				if q.body != nil {
					q.body.end(nil)
				}
				if q.obs.St == "open" {
					q.ans <- x12Ans{cls: "neterr"}
				}
			}
			e.mu.Unlock()
			if x.cancelConnect != nil {
				x.cancelConnect()
			}
			time.Sleep(time.Hour)
		})
		return ""
	}()
	if leak != "" && len(lines) > 0 && lines[len(lines)-1].Leak == "" {
		lines[len(lines)-1].Leak = leak
	}
	emit(x12Line{Ev: "reset", Trace: h.ID, SA: h.Cfg.SA, OAuth: h.Cfg.OAuth, Del: h.Cfg.Del, Reqs: []x12ReqObs{}, Calls: []x12CallObs{}, Notifs: []x12CallObs{}, Streams: []string{}})
	for _, ln := range lines {
		emit(ln)
	}
}

func TestVerif_X12(t *testing.T) {
	in, outp := os.Getenv("VERIF_IN"), os.Getenv("VERIF_OUT")
	if in == "" || outp == "" {
		t.Skip("VERIF_IN/VERIF_OUT not set")
	}
	seed, _ := strconv.ParseUint(os.Getenv("VERIF_SEED"), 10, 64)
	fin, err := os.Open(in)
	if err != nil {
		t.Fatal(err)
	}
	defer fin.Close()
	fout, err := os.Create(outp)
	if err != nil {
		t.Fatal(err)
	}
	defer fout.Close()
	w := bufio.NewWriterSize(fout, 1<<20)
	defer w.Flush()
	enc := json.NewEncoder(w)
	sc := bufio.NewScanner(fin)
	sc.Buffer(make([]byte, 1<<20), 1<<26)
	n := 0
	for sc.Scan() {
		var h x12Hist
		if err := json.Unmarshal(sc.Bytes(), &h); err != nil {
			t.Fatalf("bad history line: %v", err)
		}
		x12Scenario(t, h, seed, func(ln x12Line) {
			if err := enc.Encode(ln); err != nil {
				t.Fatal(err)
			}
		})
		w.Flush()
		n++
	}
	t.Logf("x12: %d scenarios", n)
}
