//go:build verif

// STREAMABLE-HTTP SHUTDOWN harness for property C05 (spec/HttpClose.tla, monitor spec/HttpCloseMon.tla).
//
// A REAL mcp.Client over a REAL StreamableClientTransport talks to a REAL StreamableHTTPHandler + mcp.Server
// through an in-process http.RoundTripper that the scenario controls (no sockets: the RoundTripper runs
// handler.ServeHTTP in a goroutine with a pipe-backed ResponseWriter).  Every scenario runs in its own
// testing/synctest bubble: back-off delays, the 5 s DELETE timeout of Close and the session's idle timeout
// cost nothing, and "everything is blocked" is an observation.
//
// A scenario is a configuration (stateless | idle timeout | standalone SSE | event store | protocol version)
// and a list of ENVIRONMENT steps, the actions of HttpClose.tla:
//
//	call k / callh k     the client calls the gated tool (callh: the POST is held in the network); rel k lets it through
//	ret k                the tool handler of k returns            emit k   it sends a notification on its stream
//	sreq k / ans k       the handler calls back into the client (sampling/createMessage); the client's handler returns
//	ccancel k            the caller of k cancels its context
//	cutpost k / cutget   the client disconnects from the POST of k / from the standalone GET
//	cclose c / sclose s  ClientSession.Close / ServerSession.Close in a goroutine named c / s
//	delmode m            what the network does with the DELETE that the client's Close sends: fail | hang | hold; reldel
//	netdown / vanish     every exchange is cancelled and later ones fail / the same and the client takes no more steps
//	tick                 6 virtual minutes pass (back-offs, DELETE timeout)     idle   13 h pass (SessionTimeout is 12 h)
//	cnotif / snotif      a notification outside any request, client->server / server->client
//
// After every step the harness waits until every goroutine of the bubble is durably blocked (no time passes)
// and records a snapshot.  The scenario ends with the two drain stages of DESIGN.md section 4: stage 1
// discharges what the provisos of C05 grant (held exchanges are let through, every handler that is not
// waiting inside the SDK returns, an hour passes) and records `quiesce1`; stage 2 cleans up (callers give up,
// nested calls are abandoned, both ends are closed, exchanges cancelled), sleeps 25 h and records `final`
// with a census of the goroutines left in the bubble (P4).
//
// Unexported identifiers used (package mcp), all in the section "in-package seam": clientConnection,
// clientSessionState, StreamableHTTPHandler.{mu,sessions,onTransportDeletion}, sessionInfo.{timerMu,timer},
// ServerSession.{mu,closing,mcpConn}, streamableServerConn.{mu,isDone,done}, Client.{mu,sessions}.
package mcp

import (
	"bufio"
	"bytes"
	"context"
	"encoding/json"
	"errors"
	"fmt"
	"io"
	"net/http"
	"os"
	"regexp"
	"runtime"
	"sort"
	"strconv"
	"strings"
	"sync"
	"testing"
	"testing/synctest"
	"time"

	"github.com/modelcontextprotocol/go-sdk/jsonrpc"
)

// ---------------------------------------------------------------- logging

type hcLog struct {
	mu    sync.Mutex
	w     *bufio.Writer
	seq   int
	start time.Time
}

func (l *hcLog) emit(ev string, kv ...any) {
	l.mu.Lock()
	defer l.mu.Unlock()
	l.seq++
	m := map[string]any{"ev": ev, "seq": l.seq, "t": int64(time.Since(l.start) / time.Millisecond)}
	for i := 0; i+1 < len(kv); i += 2 {
		m[kv[i].(string)] = kv[i+1]
	}
	b, _ := json.Marshal(m)
	l.w.Write(b)
	l.w.WriteByte('\n')
}

// ---------------------------------------------------------------- scenario

type hcCfg struct {
	Stateless bool   `json:"stateless"`
	Timeout   bool   `json:"timeout"`
	NoSSE     bool   `json:"nosse"`
	Store     bool   `json:"store"`
	StoreFail bool   `json:"storefail"` // the event store's SessionClosed reports an error (a store that is down when the session ends)
	Version   string `json:"version"`
}

// hcFailingStore is an event store that is down at the moment a session ends: SessionClosed does its work and reports an
// error ("writes start failing midway" of C05: shutdown must still terminate).
type hcFailingStore struct{ EventStore }

func (s hcFailingStore) SessionClosed(ctx context.Context, sessionID string) error {
	s.EventStore.SessionClosed(ctx, sessionID)
	return errors.New("verif: event store is down")
}

type hcScenario struct {
	ID    string  `json:"id"`
	Cfg   hcCfg   `json:"cfg"`
	Steps [][]any `json:"steps"`
}

const (
	hcSessionTimeout = 12 * time.Hour
	hcTick           = 6 * time.Minute
	hcIdle           = 13 * time.Hour
)

type hcHandler struct {
	cmd     chan string
	started bool
	ended   bool
	busy    bool // inside an SDK call (emit / nested request)
	inSreq  bool
	retSent bool
	abort   context.CancelFunc
}

type hcCall struct {
	cancel context.CancelFunc
	ended  bool
	res    string
}

type hcExch struct {
	name, kind, k string
	cancel        context.CancelFunc
	pr            *io.PipeReader
	pw            *io.PipeWriter
	w             *hcRW
	cutc          chan struct{} // closed when the connection of the exchange is cut
	mu            sync.Mutex
	returned      bool // ServeHTTP has returned
	cut           bool
}

type hcHold struct {
	rel  chan struct{}
	kind string
	k    string
}

// hcPend is the DELETE that the client's Close has in flight.  streamableClientConn.Close runs inside a critical
// section of the client's jsonrpc2 connection, so until the DELETE has ended every other operation on that
// connection waits for a mutex - which a synctest bubble cannot tell from running: virtual time would stop and the
// DELETE's own 5 s timeout would never fire.  The harness therefore resets a pending DELETE (the network drops it)
// before any step that touches the client's connection.
type hcPend struct {
	abort chan struct{}
	once  sync.Once
}

type hcRun struct {
	sc  *hcScenario
	log *hcLog

	server  *Server
	handler *StreamableHTTPHandler
	client  *Client
	cs      *ClientSession
	ss      *ServerSession // stateful mode: the session
	info    *sessionInfo

	mu        sync.Mutex
	phase     string // setup | script | drain | cleanup
	netDown   bool
	gone      bool
	delmode   string
	holdPost  map[string]bool
	holds     []*hcHold
	exchs     []*hcExch
	nx        int
	handlers  map[string]*hcHandler // server tool handlers by k
	chandlers map[string]*hcHandler // client handlers of nested calls by k
	calls     map[string]*hcCall
	open      map[string]bool // harness operations (close / wait) that have not returned
	bubble    string
	delPend   *hcPend
	armed     time.Time // when the session's idle timer was last (re)armed: the last POST exchange returned
	openPosts int
}

func (r *hcRun) ph() string {
	r.mu.Lock()
	defer r.mu.Unlock()
	return r.phase
}

var errHcNet = errors.New("hc: network unreachable")

// ---------------------------------------------------------------- the server side of an exchange

type hcRW struct {
	hdr   http.Header
	pw    *io.PipeWriter
	once  sync.Once
	ready chan struct{}
	code  int
	snap  http.Header
	x     *hcExch
}

func (w *hcRW) Header() http.Header { return w.hdr }
func (w *hcRW) WriteHeader(code int) {
	w.once.Do(func() {
		w.code = code
		w.snap = w.hdr.Clone()
		close(w.ready)
	})
}
func (w *hcRW) Write(p []byte) (int, error) {
	w.WriteHeader(http.StatusOK)
	n, err := w.pw.Write(p)
	if err != nil {
		w.x.cancel() // a write on a connection the client has left: the HTTP server cancels the request
	}
	return n, err
}
func (w *hcRW) Flush() { w.WriteHeader(http.StatusOK) }

type hcBody struct{ x *hcExch }

func (b *hcBody) Read(p []byte) (int, error) { return b.x.pr.Read(p) }
func (b *hcBody) Close() error {
	b.x.cancel()
	return b.x.pr.Close()
}

func (x *hcExch) alive() bool {
	x.mu.Lock()
	defer x.mu.Unlock()
	return !x.returned && !x.cut
}

// cutNow: the connection of this exchange is gone, in both directions.
func (x *hcExch) cutNow() {
	x.mu.Lock()
	if x.cut {
		x.mu.Unlock()
		return
	}
	x.cut = true
	x.mu.Unlock()
	close(x.cutc)
	x.pw.CloseWithError(io.ErrUnexpectedEOF)
	x.pr.CloseWithError(errors.New("hc: client gone"))
	x.cancel()
}

// ---------------------------------------------------------------- the scripted network

type hcRT struct{ run *hcRun }

func hcClassify(method string, body []byte) (kind, k string) {
	switch method {
	case http.MethodGet:
		return "get", ""
	case http.MethodDelete:
		return "del", ""
	}
	var m struct {
		ID     json.RawMessage `json:"id"`
		Method string          `json:"method"`
		Params struct {
			Name string `json:"name"`
			Args struct {
				R string `json:"r"`
			} `json:"arguments"`
		} `json:"params"`
	}
	_ = json.Unmarshal(body, &m)
	switch {
	case m.Method == "tools/call" && m.Params.Name == "vt":
		return "call", m.Params.Args.R
	case m.Method == "":
		return "resp", ""
	case len(m.ID) == 0:
		return "notif", m.Method
	}
	return "other", m.Method
}

func (rt *hcRT) RoundTrip(req *http.Request) (*http.Response, error) {
	r := rt.run
	var body []byte
	if req.Body != nil {
		body, _ = io.ReadAll(req.Body)
		req.Body.Close()
	}
	kind, k := hcClassify(req.Method, body)
	r.mu.Lock()
	r.nx++
	name := fmt.Sprintf("x%d.%s", r.nx, kind)
	if kind == "call" {
		name += "." + k
	}
	down := r.netDown
	phase := r.phase
	var hold *hcHold
	dm := ""
	if !down {
		if kind == "call" && r.holdPost[k] {
			delete(r.holdPost, k)
			hold = &hcHold{rel: make(chan struct{}), kind: kind, k: k}
		}
		if kind == "del" {
			dm = r.delmode
			if dm == "hold" {
				hold = &hcHold{rel: make(chan struct{}), kind: kind}
			}
		}
		if hold != nil {
			r.holds = append(r.holds, hold)
		}
	}
	r.mu.Unlock()
	r.log.emit("x.begin", "x", name, "kind", kind, "k", k, "phase", phase)
	fail := func(why string, err error) (*http.Response, error) {
		r.log.emit("x.fail", "x", name, "kind", kind, "k", k, "why", why)
		return nil, err
	}
	if down {
		return fail("net", errHcNet)
	}
	if kind == "del" && dm == "fail" {
		return fail("del-fail", errHcNet)
	}
	var abort chan struct{}
	if kind == "del" {
		pend := &hcPend{abort: make(chan struct{})}
		abort = pend.abort
		r.mu.Lock()
		r.delPend = pend
		r.mu.Unlock()
		defer func() {
			r.mu.Lock()
			if r.delPend == pend {
				r.delPend = nil
			}
			r.mu.Unlock()
		}()
	}
	if kind == "del" && dm == "hang" {
		select {
		case <-req.Context().Done():
			return fail("del-hang", req.Context().Err())
		case <-abort:
			return fail("reset", errHcNet)
		}
	}
	if hold != nil {
		r.log.emit("x.hold", "x", name, "kind", kind, "k", k)
		select {
		case <-hold.rel:
		case <-req.Context().Done():
			r.dropHold(hold)
			return fail("ctx", req.Context().Err())
		case <-abort:
			r.dropHold(hold)
			return fail("reset", errHcNet)
		}
		r.mu.Lock()
		down = r.netDown
		r.mu.Unlock()
		if down {
			return fail("net", errHcNet)
		}
	}
	return rt.serve(req, body, &hcExch{name: name, kind: kind, k: k}, abort)
}

func (r *hcRun) dropHold(h *hcHold) {
	r.mu.Lock()
	defer r.mu.Unlock()
	for i, x := range r.holds {
		if x == h {
			r.holds = append(r.holds[:i], r.holds[i+1:]...)
			return
		}
	}
}

func (rt *hcRT) serve(req *http.Request, body []byte, x *hcExch, abort chan struct{}) (*http.Response, error) {
	r := rt.run
	pr, pw := io.Pipe()
	w := &hcRW{hdr: http.Header{}, pw: pw, ready: make(chan struct{}), x: x}
	sctx, cancel := context.WithCancel(context.Background())
	x.cancel, x.pr, x.pw, x.w, x.cutc = cancel, pr, pw, w, make(chan struct{})
	stop := context.AfterFunc(req.Context(), func() {
		cancel()
		pr.CloseWithError(errors.New("hc: client gone"))
	})
	sreq := req.Clone(sctx)
	sreq.Body = http.NoBody
	if body != nil {
		sreq.Body = io.NopCloser(bytes.NewReader(body))
	}
	sreq.RequestURI = req.URL.RequestURI()
	sreq.RemoteAddr = "192.0.2.1:1234"
	isPost := req.Method == http.MethodPost
	r.mu.Lock()
	r.exchs = append(r.exchs, x)
	if isPost {
		r.openPosts++
	}
	r.mu.Unlock()
	r.log.emit("x.srv", "x", x.name, "kind", x.kind, "k", x.k)
	go func() {
		defer stop()
		defer func() {
			if p := recover(); p != nil {
				// net/http recovers a panic of a handler and drops the connection
				r.log.emit("panic", "msg", fmt.Sprint(p), "where", "ServeHTTP "+x.name)
				x.cutNow()
			}
			x.mu.Lock()
			x.returned = true
			x.mu.Unlock()
			if isPost {
				r.mu.Lock()
				r.openPosts--
				r.armed = time.Now()
				r.mu.Unlock()
			}
			r.log.emit("x.ret", "x", x.name, "kind", x.kind, "k", x.k, "status", w.code)
		}()
		r.handler.ServeHTTP(w, sreq)
		w.WriteHeader(http.StatusOK)
		pw.Close()
	}()
	select {
	case <-w.ready:
	case <-req.Context().Done():
		cancel()
		pr.Close()
		return nil, req.Context().Err()
	case <-abort: // nil unless this is the DELETE of Close
		r.log.emit("x.fail", "x", x.name, "kind", x.kind, "k", x.k, "why", "reset")
		x.cutNow()
		return nil, errHcNet
	case <-x.cutc: // the connection was cut before any response header: the request fails in transit
		return nil, errHcNet
	}
	x.mu.Lock()
	cut := x.cut
	x.mu.Unlock()
	if cut {
		return nil, errHcNet
	}
	return &http.Response{Status: strconv.Itoa(w.code) + " " + http.StatusText(w.code), StatusCode: w.code,
		Proto: "HTTP/1.1", ProtoMajor: 1, ProtoMinor: 1, Header: w.snap, ContentLength: -1, Request: req, Body: &hcBody{x: x}}, nil
}

// ---------------------------------------------------------------- in-package seam: the only uses of unexported identifiers

// hcTransport wraps the real client transport: the connection's Close and failing Reads are recorded.
type hcTransport struct {
	inner *StreamableClientTransport
	run   *hcRun
}

func (t *hcTransport) Connect(ctx context.Context) (Connection, error) {
	c, err := t.inner.Connect(ctx)
	if err != nil {
		return nil, err
	}
	return &hcConn{Connection: c, run: t.run}, nil
}

type hcConn struct {
	Connection
	run  *hcRun
	once sync.Once
}

func (c *hcConn) sessionUpdated(s clientSessionState) {
	if cc, ok := c.Connection.(clientConnection); ok {
		cc.sessionUpdated(s)
	}
}

func (c *hcConn) SessionID() string {
	if h, ok := c.Connection.(hasSessionID); ok {
		return h.SessionID()
	}
	return ""
}

func (c *hcConn) Read(ctx context.Context) (jsonrpc.Message, error) {
	msg, err := c.Connection.Read(ctx)
	if err != nil {
		c.once.Do(func() { c.run.log.emit("c.rderr", "err", hcErr(err), "eof", errors.Is(err, io.EOF)) })
	}
	return msg, err
}

func (c *hcConn) Close() error {
	c.run.log.emit("ctr.close.begin")
	err := c.Connection.Close()
	c.run.log.emit("ctr.close.end", "err", hcErr(err))
	return err
}

// hcWatchConn reports when the streamable server connection of ss is closed (streamableServerConn.Close).
func hcWatchConn(r *hcRun, ss *ServerSession, who string) {
	c, ok := ss.mcpConn.(*streamableServerConn)
	if !ok {
		return
	}
	go func() {
		<-c.done
		r.log.emit("tr.close", "s", who)
	}()
}

type hcPeek struct {
	InTab, Listed, CListed       int
	SClosing, STrClosed, TimerOn bool
}

func (r *hcRun) peek() hcPeek {
	var p hcPeek
	r.handler.mu.Lock()
	p.InTab = len(r.handler.sessions)
	r.handler.mu.Unlock()
	for range r.server.Sessions() {
		p.Listed++
	}
	r.client.mu.Lock()
	p.CListed = len(r.client.sessions)
	r.client.mu.Unlock()
	if r.ss != nil {
		r.ss.mu.Lock()
		p.SClosing = r.ss.closing
		r.ss.mu.Unlock()
		if c, ok := r.ss.mcpConn.(*streamableServerConn); ok {
			c.mu.Lock()
			p.STrClosed = c.isDone
			c.mu.Unlock()
		}
	}
	if r.info != nil {
		r.info.timerMu.Lock()
		p.TimerOn = r.info.timer != nil
		r.info.timerMu.Unlock()
	}
	return p
}

func (r *hcRun) bindSession() error {
	for ss := range r.server.Sessions() {
		r.ss = ss
	}
	if r.ss == nil {
		return errors.New("no server session after Connect")
	}
	r.handler.mu.Lock()
	r.info = r.handler.sessions[r.ss.ID()]
	r.handler.mu.Unlock()
	if r.info == nil {
		return errors.New("the session is not in the handler's table after Connect")
	}
	hcWatchConn(r, r.ss, "S")
	return nil
}

func (r *hcRun) hookTable() {
	r.handler.onTransportDeletion = func(id string) { r.log.emit("tab.del") }
}

// ---------------------------------------------------------------- handlers

func hcErr(err error) string {
	if err == nil {
		return ""
	}
	s := err.Error()
	if len(s) > 160 {
		s = s[:160]
	}
	return s
}

func (r *hcRun) tool(ctx context.Context, req *CallToolRequest) (*CallToolResult, error) {
	var a struct {
		R string `json:"r"`
	}
	json.Unmarshal(req.Params.Arguments, &a)
	k := a.R
	r.mu.Lock()
	h := r.handlers[k]
	if h == nil {
		h = &hcHandler{cmd: make(chan string, 16)}
		r.handlers[k] = h
	}
	h.started = true
	stateless := r.sc.Cfg.Stateless
	phase := r.phase
	r.mu.Unlock()
	r.log.emit("h.start", "k", k, "phase", phase)
	if stateless {
		hcWatchConn(r, req.Session, k)
	}
	n := 0
	for {
		select {
		case cmd := <-h.cmd:
			switch cmd {
			case "emit":
				n++
				r.mu.Lock()
				h.busy = true
				r.mu.Unlock()
				err := req.Session.NotifyProgress(ctx, &ProgressNotificationParams{ProgressToken: "tok-" + k, Message: fmt.Sprintf("%s.n%d", k, n), Progress: float64(n)})
				r.mu.Lock()
				h.busy = false
				r.mu.Unlock()
				r.log.emit("h.emit.end", "k", k, "err", hcErr(err))
			case "sreq":
				pctx, pcancel := context.WithCancel(ctx)
				r.mu.Lock()
				h.busy, h.inSreq, h.abort = true, true, pcancel
				r.mu.Unlock()
				r.log.emit("h.sreq", "k", k)
				_, err := req.Session.CreateMessage(pctx, &CreateMessageParams{MaxTokens: 1,
					Messages: []*SamplingMessage{{Role: "user", Content: &TextContent{Text: k}}}})
				pcancel()
				r.mu.Lock()
				h.busy, h.inSreq, h.abort = false, false, nil
				r.mu.Unlock()
				r.log.emit("h.sreq.end", "k", k, "err", hcErr(err))
			case "ret":
				r.mu.Lock()
				h.ended = true
				r.mu.Unlock()
				r.log.emit("h.end", "k", k, "how", "ret")
				return &CallToolResult{Content: []Content{&TextContent{Text: k + ".resp"}}}, nil
			}
		case <-ctx.Done():
			r.mu.Lock()
			h.ended = true
			r.mu.Unlock()
			r.log.emit("h.ctxdone", "k", k, "cause", hcErr(context.Cause(ctx)))
			r.log.emit("h.end", "k", k, "how", "ctx")
			return nil, errors.New("cancelled")
		}
	}
}

// the client's handler of the nested call
func (r *hcRun) sampling(ctx context.Context, req *CreateMessageRequest) (*CreateMessageResult, error) {
	k := ""
	if len(req.Params.Messages) > 0 {
		if tc, ok := req.Params.Messages[0].Content.(*TextContent); ok {
			k = tc.Text
		}
	}
	r.mu.Lock()
	h := r.chandlers[k]
	if h == nil {
		h = &hcHandler{cmd: make(chan string, 4)}
		r.chandlers[k] = h
	}
	h.started = true
	r.mu.Unlock()
	r.log.emit("ch.start", "k", k)
	select {
	case <-h.cmd:
		r.mu.Lock()
		h.ended = true
		r.mu.Unlock()
		r.log.emit("ch.end", "k", k, "how", "ret")
		return &CreateMessageResult{Model: "m", Role: "assistant", Content: &TextContent{Text: k + ".ans"}}, nil
	case <-ctx.Done():
		r.mu.Lock()
		h.ended = true
		r.mu.Unlock()
		r.log.emit("ch.ctxdone", "k", k, "cause", hcErr(context.Cause(ctx)))
		r.log.emit("ch.end", "k", k, "how", "ctx")
		return nil, errors.New("cancelled")
	}
}

// ---------------------------------------------------------------- running a scenario

func (r *hcRun) settle() { synctest.Wait() }

func (r *hcRun) deletePending() bool {
	r.mu.Lock()
	defer r.mu.Unlock()
	return r.delPend != nil
}

// resetDelete: the network drops the DELETE that the client's Close has in flight (see hcPend).
func (r *hcRun) resetDelete(why string) {
	r.mu.Lock()
	p := r.delPend
	r.mu.Unlock()
	if p == nil {
		return
	}
	r.log.emit("x.reset", "why", why)
	p.once.Do(func() { close(p.abort) })
	r.settle()
}

// sleep lets virtual time pass.  With a DELETE pending the client's connection must not be woken before the
// DELETE has ended: that is certain only while its standalone stream is attached (nothing else can reach it);
// otherwise the network drops the DELETE first.  A DELETE that is still pending after 10 s or more - twice the
// time after which Close must have abandoned it - is recorded as stuck (and then dropped so that the scenario
// can go on).
func (r *hcRun) sleep(d time.Duration, why string) {
	if r.deletePending() && r.findExch("get", "") == nil {
		r.resetDelete(why)
	}
	r.mu.Lock()
	before := r.delPend
	r.mu.Unlock()
	time.Sleep(d)
	if before != nil && d >= 10*time.Second {
		r.settle()
		r.mu.Lock()
		same := r.delPend == before
		r.mu.Unlock()
		if same {
			r.log.emit("del.stuck", "after", int64(d/time.Second))
			r.resetDelete("stuck")
		}
	}
}

var hcTouchesClient = map[string]bool{"call": true, "callh": true, "cnotif": true, "ccancel": true, "cclose": true, "ans": true,
	"sreq": true, "emit": true, "snotif": true}

func (r *hcRun) spawn(name string, f func()) {
	r.mu.Lock()
	r.open[name] = true
	r.mu.Unlock()
	go func() {
		f()
		r.mu.Lock()
		delete(r.open, name)
		r.mu.Unlock()
	}()
}

func (r *hcRun) openOps() []string {
	r.mu.Lock()
	defer r.mu.Unlock()
	out := []string{}
	for k := range r.open {
		out = append(out, k)
	}
	sort.Strings(out)
	return out
}

func (r *hcRun) setup() error {
	cfg := r.sc.Cfg
	r.server = NewServer(&Implementation{Name: "hc-server", Version: "v1"}, &ServerOptions{
		ProgressNotificationHandler: func(context.Context, *ProgressNotificationServerRequest) {
			r.log.emit("n.srv", "phase", r.ph())
		},
	})
	r.server.AddTool(&Tool{Name: "vt", InputSchema: json.RawMessage(`{"type":"object"}`)}, r.tool)
	opts := &StreamableHTTPOptions{Stateless: cfg.Stateless}
	if cfg.Timeout {
		opts.SessionTimeout = hcSessionTimeout
	}
	if cfg.Store {
		opts.EventStore = NewMemoryEventStore(nil)
		if cfg.StoreFail {
			opts.EventStore = hcFailingStore{opts.EventStore}
		}
	}
	r.handler = NewStreamableHTTPHandler(func(*http.Request) *Server { return r.server }, opts)
	r.hookTable()
	r.client = NewClient(&Implementation{Name: "hc-client", Version: "v1"}, &ClientOptions{
		CreateMessageHandler: r.sampling,
		ProgressNotificationHandler: func(context.Context, *ProgressNotificationClientRequest) {
			r.log.emit("n.cli", "phase", r.ph())
		},
	})
	tr := &StreamableClientTransport{Endpoint: "http://hc.verif.test/mcp", HTTPClient: &http.Client{Transport: &hcRT{run: r}},
		DisableStandaloneSSE: cfg.NoSSE}
	cs, err := r.client.Connect(context.Background(), &hcTransport{inner: tr, run: r}, &ClientSessionOptions{ProtocolVersion: cfg.Version})
	if err != nil {
		return fmt.Errorf("connect: %v", err)
	}
	r.cs = cs
	r.settle()
	if !cfg.Stateless {
		if err := r.bindSession(); err != nil {
			return err
		}
		r.spawn("wait.server", func() {
			r.log.emit("wait.begin", "side", "server")
			err := r.ss.Wait()
			r.log.emit("wait.end", "side", "server", "err", hcErr(err))
		})
	}
	r.spawn("wait.client", func() {
		r.log.emit("wait.begin", "side", "client")
		err := r.cs.Wait()
		r.log.emit("wait.end", "side", "client", "err", hcErr(err))
	})
	r.settle()
	if !cfg.Stateless && !cfg.NoSSE {
		if x := r.findExch("get", ""); x == nil {
			return errors.New("the standalone stream was not opened")
		}
	}
	return nil
}

func (r *hcRun) findExch(kind, k string) *hcExch {
	r.mu.Lock()
	defer r.mu.Unlock()
	for i := len(r.exchs) - 1; i >= 0; i-- {
		x := r.exchs[i]
		if x.kind == kind && x.k == k && x.alive() {
			return x
		}
	}
	return nil
}

func (r *hcRun) liveExchs() []string {
	r.mu.Lock()
	defer r.mu.Unlock()
	out := []string{}
	for _, x := range r.exchs {
		x.mu.Lock()
		ret := x.returned
		x.mu.Unlock()
		if !ret {
			out = append(out, x.name)
		}
	}
	return out
}

func (r *hcRun) snapshot() map[string]any {
	p := r.peek()
	r.mu.Lock()
	calls := map[string]string{}
	for k, c := range r.calls {
		if c.ended {
			calls[k] = c.res
		} else {
			calls[k] = "pending"
		}
	}
	hs := map[string]string{}
	for k, h := range r.handlers {
		switch {
		case h.ended:
			hs[k] = "ended"
		case h.started && h.inSreq:
			hs[k] = "nested"
		case h.started:
			hs[k] = "running"
		}
	}
	chs := map[string]string{}
	for k, h := range r.chandlers {
		switch {
		case h.ended:
			chs[k] = "ended"
		case h.started:
			chs[k] = "running"
		}
	}
	nholds := len(r.holds)
	r.mu.Unlock()
	return map[string]any{"intab": p.InTab, "listed": p.Listed, "clisted": p.CListed, "sclosing": p.SClosing, "strclosed": p.STrClosed,
		"timerOn": p.TimerOn, "calls": calls, "handlers": hs, "chandlers": chs, "exchs": r.liveExchs(), "open": r.openOps(), "holds": nholds}
}

func (r *hcRun) step(stp []any) {
	arg := func(i int) string {
		if i < len(stp) {
			return fmt.Sprint(stp[i])
		}
		return ""
	}
	op, a1 := arg(0), arg(1)
	applied := true
	r.mu.Lock()
	gone := r.gone
	r.mu.Unlock()
	if hcTouchesClient[op] && r.deletePending() {
		r.resetDelete(op)
	}
	switch op {
	case "call", "callh":
		r.mu.Lock()
		_, dup := r.calls[a1]
		if dup || gone || a1 == "" {
			applied = false
		} else {
			if op == "callh" {
				r.holdPost[a1] = true
			}
			ctx, cancel := context.WithCancel(context.Background())
			c := &hcCall{cancel: cancel}
			r.calls[a1] = c
			k := a1
			go func() {
				r.log.emit("call.begin", "k", k)
				res, err := r.cs.CallTool(ctx, &CallToolParams{Name: "vt", Arguments: map[string]any{"r": k}})
				out := "ok"
				if err != nil {
					out = "err"
				} else if res.IsError {
					out = "toolerr"
				}
				r.mu.Lock()
				c.ended, c.res = true, out
				r.mu.Unlock()
				r.log.emit("call.end", "k", k, "res", out, "err", hcErr(err))
			}()
		}
		r.mu.Unlock()
	case "rel":
		applied = r.release("call", a1)
	case "reldel":
		applied = r.release("del", "")
	case "ret", "emit", "sreq":
		r.mu.Lock()
		h := r.handlers[a1]
		if h == nil || !h.started || h.ended || h.busy || h.retSent {
			applied = false
		} else {
			if op == "ret" {
				h.retSent = true
			}
			h.cmd <- op
		}
		r.mu.Unlock()
	case "ans":
		r.mu.Lock()
		h := r.chandlers[a1]
		if h == nil || !h.started || h.ended || h.retSent || gone {
			applied = false
		} else {
			h.retSent = true
			h.cmd <- "ans"
		}
		r.mu.Unlock()
	case "ccancel":
		r.mu.Lock()
		c := r.calls[a1]
		if c == nil || c.ended || gone {
			applied = false
		}
		r.mu.Unlock()
		if applied {
			r.log.emit("ctx.cancel", "k", a1)
			c.cancel()
		}
	case "cutpost":
		if x := r.findExch("call", a1); x != nil {
			r.log.emit("x.cut", "x", x.name, "kind", "call", "k", a1)
			x.cutNow()
		} else {
			applied = false
		}
	case "cutget":
		if x := r.findExch("get", ""); x != nil {
			r.log.emit("x.cut", "x", x.name, "kind", "get", "k", "")
			x.cutNow()
		} else {
			applied = false
		}
	case "cclose":
		if gone {
			applied = false
		} else {
			c := a1
			r.spawn("close.client."+c, func() {
				r.log.emit("close.begin", "side", "client", "c", c)
				err := r.cs.Close()
				r.log.emit("close.end", "side", "client", "c", c, "err", hcErr(err))
			})
		}
	case "sclose":
		if r.ss == nil {
			applied = false
		} else {
			c := a1
			r.spawn("close.server."+c, func() {
				r.log.emit("close.begin", "side", "server", "c", c)
				err := r.ss.Close()
				r.log.emit("close.end", "side", "server", "c", c, "err", hcErr(err))
			})
		}
	case "delmode":
		r.mu.Lock()
		r.delmode = a1
		r.mu.Unlock()
	case "netdown", "vanish":
		r.mu.Lock()
		if r.netDown {
			applied = false
		}
		r.netDown = true
		if op == "vanish" {
			r.gone = true
		}
		xs := append([]*hcExch{}, r.exchs...)
		hs := r.holds
		r.holds = nil
		r.mu.Unlock()
		if applied {
			r.log.emit("net.down", "gone", op == "vanish")
			for _, h := range hs {
				close(h.rel)
			}
			for _, x := range xs {
				if x.alive() {
					x.cutNow()
				}
			}
			r.resetDelete(op)
		}
	case "tick":
		r.sleep(hcTick, "tick")
	case "idle":
		// until the idle timer fires (it was armed when the last POST returned), and a millisecond more: whatever was
		// pending before has expired, nothing that starts with the timeout has
		r.mu.Lock()
		d := hcIdle
		if r.sc.Cfg.Timeout && r.openPosts == 0 && !r.armed.IsZero() {
			if u := time.Until(r.armed.Add(hcSessionTimeout + time.Millisecond)); u > 0 {
				d = u
			} else {
				d = time.Millisecond
			}
		}
		r.mu.Unlock()
		r.sleep(d, "idle")
	case "cnotif":
		if gone {
			applied = false
		} else {
			r.spawn("cnotif", func() {
				err := r.cs.NotifyProgress(context.Background(), &ProgressNotificationParams{ProgressToken: "c", Message: "cn", Progress: 1})
				r.log.emit("cnotif.end", "err", hcErr(err))
			})
		}
	case "snotif":
		if r.ss == nil {
			applied = false
		} else {
			r.spawn("snotif", func() {
				err := r.ss.NotifyProgress(context.Background(), &ProgressNotificationParams{ProgressToken: "s", Message: "sn", Progress: 1})
				r.log.emit("snotif.end", "err", hcErr(err))
			})
		}
	default:
		applied = false
	}
	r.settle()
	r.log.emit("step", "op", op, "a1", a1, "applied", applied, "snap", r.snapshot())
}

func (r *hcRun) release(kind, k string) bool {
	r.mu.Lock()
	var h *hcHold
	for i, x := range r.holds {
		if x.kind == kind && x.k == k {
			h = x
			r.holds = append(r.holds[:i], r.holds[i+1:]...)
			break
		}
	}
	if kind == "del" && h != nil {
		r.delmode = "ok"
	}
	r.mu.Unlock()
	if h == nil {
		return false
	}
	close(h.rel)
	return true
}

// ---------------------------------------------------------------- goroutine census (P4)

var hcHarnessFrame = regexp.MustCompile(`/mcp\.(\(\*?hc|hc|TestVerif_HttpClose)`)

type hcG struct {
	Fn      string `json:"fn"`      // innermost SDK function (or harness function if there is none)
	Side    string `json:"side"`    // client | server | other | harness
	Created string `json:"created"` // creator
	State   string `json:"state"`
}

func hcBubbleID() string {
	buf := make([]byte, 1<<12)
	buf = buf[:runtime.Stack(buf, false)]
	if i := bytes.Index(buf, []byte("synctest bubble ")); i >= 0 {
		return strings.TrimRight(strings.Fields(string(buf[i+len("synctest bubble "):]))[0], "]:,")
	}
	return ""
}

// hcCensus lists the goroutines of bubble id other than the caller and the bubble's root.
func hcCensus(id string, skipSelf bool) []hcG {
	buf := make([]byte, 4<<20)
	buf = buf[:runtime.Stack(buf, true)]
	blocks := strings.Split(string(buf), "\n\n")
	out := []hcG{}
	for i, b := range blocks {
		if i == 0 && skipSelf {
			continue
		}
		if id == "" || !strings.Contains(strings.SplitN(b, "\n", 2)[0], "synctest bubble "+id) {
			continue
		}
		if strings.Contains(b, "synctest.Run(") || strings.Contains(b, "testingSynctestTest") || strings.Contains(b, "synctest.Test(") {
			continue
		}
		lines := strings.Split(b, "\n")
		g := hcG{Fn: "?", Side: "harness"}
		if lb, rb := strings.Index(lines[0], "["), strings.Index(lines[0], "]"); lb >= 0 && rb > lb {
			g.State = strings.SplitN(lines[0][lb+1:rb], ",", 2)[0]
		}
		client, server, other := false, false, false
		for _, ln := range lines[1:] {
			if strings.HasPrefix(ln, "\t") {
				continue
			}
			if strings.HasPrefix(ln, "created by ") {
				c := strings.TrimPrefix(ln, "created by ")
				if j := strings.Index(c, " in goroutine"); j > 0 {
					c = c[:j]
				}
				g.Created = c[strings.LastIndex(c, "/")+1:]
				continue
			}
			if !strings.Contains(ln, "go-sdk/") || hcHarnessFrame.MatchString(ln) {
				if g.Fn == "?" && hcHarnessFrame.MatchString(ln) {
					// remember the harness function in case there is no SDK frame at all
				}
				continue
			}
			fn := ln
			if j := strings.LastIndex(fn, "("); j > 0 {
				fn = fn[:j]
			}
			fn = fn[strings.LastIndex(fn, "/")+1:]
			if g.Fn == "?" {
				g.Fn = fn
			}
			switch {
			case strings.Contains(fn, "streamableClientConn") || strings.Contains(fn, "(*ClientSession)") || strings.Contains(fn, "(*Client)") || strings.Contains(fn, "StreamableClientTransport"):
				client = true
			case strings.Contains(fn, "streamableServerConn") || strings.Contains(fn, "StreamableHTTPHandler") || strings.Contains(fn, "(*ServerSession)") || strings.Contains(fn, "(*Server)") || strings.Contains(fn, "StreamableServerTransport") || strings.Contains(fn, "sessionInfo"):
				server = true
			default:
				other = true
			}
		}
		// the wrappers of the harness tell the side of pure jsonrpc2 stacks (read loop of the client connection)
		if strings.Contains(b, "mcp.(*hcConn)") || strings.Contains(b, "mcp.(*hcRT)") || strings.Contains(b, "mcp.(*hcBody)") {
			client = true
		}
		switch {
		case client && !server:
			g.Side = "client"
		case server && !client:
			g.Side = "server"
		case client && server:
			g.Side = "both"
		case other:
			g.Side = "other"
		}
		if g.Fn == "?" {
			for _, ln := range lines[1:] {
				if !strings.HasPrefix(ln, "\t") && hcHarnessFrame.MatchString(ln) {
					fn := ln
					if j := strings.LastIndex(fn, "("); j > 0 {
						fn = fn[:j]
					}
					g.Fn = fn[strings.LastIndex(fn, "/")+1:]
					break
				}
			}
		}
		out = append(out, g)
	}
	return out
}

func hcNames(gs []hcG, side ...string) []string {
	out := []string{}
	for _, g := range gs {
		for _, s := range side {
			if g.Side == s {
				out = append(out, g.Fn+"<-"+g.Created)
			}
		}
	}
	sort.Strings(out)
	return out
}

// ---------------------------------------------------------------- the run

func (r *hcRun) releaseHandlers(stage2 bool) bool {
	progressed := false
	r.mu.Lock()
	gone := r.gone
	var ks, cks []string
	for k, h := range r.handlers {
		if h.started && !h.ended && !h.retSent && (!h.busy || stage2) {
			ks = append(ks, k)
		}
	}
	for k, h := range r.chandlers {
		if h.started && !h.ended && !h.retSent && (!gone || stage2) {
			cks = append(cks, k)
		}
	}
	r.mu.Unlock()
	sort.Strings(ks)
	sort.Strings(cks)
	for _, k := range cks {
		r.mu.Lock()
		h := r.chandlers[k]
		h.retSent = true
		r.mu.Unlock()
		r.log.emit("drain.ans", "k", k)
		h.cmd <- "ans"
		progressed = true
	}
	for _, k := range ks {
		r.mu.Lock()
		h := r.handlers[k]
		h.retSent = true
		r.mu.Unlock()
		r.log.emit("drain.ret", "k", k)
		h.cmd <- "ret"
		progressed = true
	}
	return progressed
}

func (r *hcRun) run() {
	r.bubble = hcBubbleID()
	r.mu.Lock()
	r.phase = "setup"
	r.mu.Unlock()
	cfg := r.sc.Cfg
	if err := r.setup(); err != nil {
		r.log.emit("setup.error", "err", err.Error())
	} else {
		r.mu.Lock()
		r.phase = "script"
		r.mu.Unlock()
		r.log.emit("ready", "snap", r.snapshot(), "negotiated", r.cs.InitializeResult().ProtocolVersion, "sid", r.cs.ID() != "")
		for _, st := range r.sc.Steps {
			r.step(st)
		}
	}
	r.log.emit("script.end")
	r.mu.Lock()
	r.phase = "drain"
	r.mu.Unlock()
	// ---- drain stage 1: what the provisos grant, nothing else: the network lets held exchanges through (they fail if it
	// is down), handlers return unless they wait inside the SDK, time passes (less than the idle timeout)
	for i := 0; i < 8; i++ {
		progressed := false
		for {
			// one held exchange at a time (POSTs before the DELETE), so that what arrives first is known
			r.mu.Lock()
			var h *hcHold
			idx := -1
			for j, x := range r.holds {
				if h == nil || (h.kind == "del" && x.kind != "del") {
					h, idx = x, j
				}
			}
			if h != nil {
				r.holds = append(r.holds[:idx], r.holds[idx+1:]...)
				if h.kind == "del" {
					r.delmode = "ok"
				}
			}
			r.mu.Unlock()
			if h == nil {
				break
			}
			r.log.emit("drain.rel", "kind", h.kind, "k", h.k)
			close(h.rel)
			progressed = true
			r.settle()
			r.log.emit("mark", "snap", r.snapshot())
		}
		if r.deletePending() {
			r.sleep(10*time.Second, "drain") // the DELETE's own timeout, if nothing else can reach the client meanwhile
			r.settle()
		}
		if r.releaseHandlers(false) {
			progressed = true
		}
		r.settle()
		r.log.emit("mark", "snap", r.snapshot())
		r.sleep(hcTick, "drain")
		r.settle()
		r.log.emit("mark", "snap", r.snapshot())
		if !progressed && i > 0 {
			break
		}
	}
	r.sleep(time.Hour, "drain")
	r.settle()
	gs := hcCensus(r.bubble, true)
	r.mu.Lock()
	blocked, stuck, crun := []string{}, []string{}, []string{}
	for k, c := range r.calls {
		if !c.ended {
			blocked = append(blocked, k)
		}
	}
	for k, h := range r.handlers {
		if h.started && !h.ended {
			if h.inSreq {
				stuck = append(stuck, k)
			} else {
				stuck = append(stuck, k+"?")
			}
		}
	}
	for k, h := range r.chandlers {
		if h.started && !h.ended {
			crun = append(crun, k)
		}
	}
	gone, down := r.gone, r.netDown
	r.mu.Unlock()
	sort.Strings(blocked)
	sort.Strings(stuck)
	sort.Strings(crun)
	if r.server != nil {
		r.log.emit("quiesce1", "snap", r.snapshot(), "blockedCalls", blocked, "running", stuck, "crunning", crun, "gone", gone, "down", down,
			"cleft", hcNames(gs, "client"), "sleft", hcNames(gs, "server"), "oleft", hcNames(gs, "other", "both"), "hleft", hcNames(gs, "harness"),
			"stateless", cfg.Stateless, "timeout", cfg.Timeout, "sse", !cfg.NoSSE && !cfg.Stateless)
	}
	// ---- drain stage 2: clean-up so that the bubble can end
	r.mu.Lock()
	r.phase = "cleanup"
	r.mu.Unlock()
	r.log.emit("cleanup")
	r.resetDelete("cleanup")
	r.mu.Lock()
	for _, c := range r.calls {
		c.cancel()
	}
	for _, h := range r.handlers {
		if h.abort != nil {
			h.abort()
		}
	}
	r.mu.Unlock()
	r.settle()
	r.releaseHandlers(true)
	r.settle()
	if r.cs != nil {
		r.spawn("cleanup.cclose", func() { r.cs.Close() })
	}
	r.settle()
	r.sleep(10*time.Second, "cleanup") // the DELETE of Close gives up after 5 s
	r.settle()
	r.resetDelete("cleanup")
	if r.server != nil {
		i := 0
		for ss := range r.server.Sessions() {
			i++
			s := ss
			r.spawn(fmt.Sprintf("cleanup.sclose%d", i), func() { s.Close() })
		}
	}
	r.settle()
	r.releaseHandlers(true)
	r.mu.Lock()
	xs := append([]*hcExch{}, r.exchs...)
	hs := r.holds
	r.holds = nil
	r.netDown = true
	r.mu.Unlock()
	for _, h := range hs {
		close(h.rel)
	}
	for _, x := range xs {
		if x.alive() {
			x.cutNow()
		}
	}
	r.settle()
	r.sleep(25*time.Hour, "final")
	r.settle()
	gs = hcCensus(r.bubble, true)
	leaks := hcNames(gs, "client", "server", "other", "both", "harness")
	if len(leaks) > 0 {
		if p := os.Getenv("VERIF_DEBUG_STACK"); p != "" {
			buf := make([]byte, 4<<20)
			buf = buf[:runtime.Stack(buf, true)]
			if f, err := os.OpenFile(p, os.O_APPEND|os.O_CREATE|os.O_WRONLY, 0o644); err == nil {
				fmt.Fprintf(f, "======== %s final\n%s\n", r.sc.ID, buf)
				f.Close()
			}
		}
	}
	r.log.emit("final", "leaks", leaks, "open", r.openOps(), "exchs", r.liveExchs())
}

func hcRunScenario(t *testing.T, l *hcLog, sc *hcScenario) {
	l.mu.Lock()
	l.start = time.Now()
	l.mu.Unlock()
	l.emit("reset", "trace", sc.ID, "stateless", sc.Cfg.Stateless, "timeout", sc.Cfg.Timeout, "sse", !sc.Cfg.NoSSE && !sc.Cfg.Stateless,
		"store", sc.Cfg.Store, "storefail", sc.Cfg.StoreFail, "version", sc.Cfg.Version)
	var run *hcRun
	func() {
		defer func() {
			if p := recover(); p != nil {
				l.emit("panic", "msg", fmt.Sprint(p), "where", "outer")
			}
		}()
		t.Run(sc.ID, func(t *testing.T) {
			defer func() {
				if p := recover(); p != nil {
					msg := fmt.Sprint(p)
					if strings.HasPrefix(msg, "deadlock: main bubble goroutine has exited") {
						// synctest's complaint about goroutines that outlive the bubble: a leak; name what is left
						left := []string{}
						if run != nil {
							left = hcNames(hcCensus(run.bubble, false), "client", "server", "other", "both", "harness")
						}
						l.emit("bubble.leak", "msg", msg, "left", left)
					} else {
						l.emit("panic", "msg", msg, "where", "bubble")
					}
				}
			}()
			synctest.Test(t, func(t *testing.T) {
				l.mu.Lock()
				l.start = time.Now()
				l.mu.Unlock()
				run = &hcRun{sc: sc, log: l, delmode: "ok", holdPost: map[string]bool{}, handlers: map[string]*hcHandler{},
					chandlers: map[string]*hcHandler{}, calls: map[string]*hcCall{}, open: map[string]bool{}}
				run.run()
			})
		})
	}()
}

func TestVerif_HttpClose(t *testing.T) {
	in, outp := os.Getenv("VERIF_IN"), os.Getenv("VERIF_OUT")
	if in == "" || outp == "" {
		t.Skip("VERIF_IN/VERIF_OUT not set")
	}
	f, err := os.Create(outp)
	if err != nil {
		t.Fatal(err)
	}
	defer f.Close()
	w := bufio.NewWriterSize(f, 1<<20)
	defer w.Flush()
	l := &hcLog{w: w, start: time.Now()}
	fin, err := os.Open(in)
	if err != nil {
		t.Fatal(err)
	}
	defer fin.Close()
	sc := bufio.NewScanner(fin)
	sc.Buffer(make([]byte, 1<<20), 1<<26)
	for sc.Scan() {
		if strings.TrimSpace(sc.Text()) == "" {
			continue
		}
		var s hcScenario
		if err := json.Unmarshal(sc.Bytes(), &s); err != nil {
			t.Fatalf("bad scenario: %v", err)
		}
		if s.Cfg.Version == "" {
			s.Cfg.Version = "2025-11-25"
		}
		hcRunScenario(t, l, &s)
		w.Flush()
	}
}
