//go:build verif

// Conformance harness for extension check X10 (elicitation in both directions).
//
// Part (a), TestVerif_X10Table: every abstract case TLC exported from spec/ElicitDefs.tla (VERIF_IN) is concretised
// (schema, params, handler answer) and run on a REAL client - against a real Server over the in-memory transport
// (ServerSession.Elicit called from a tool handler on a 2025-06-18 / 2025-11-25 / 2026-07-28 session; or the request
// travelling in InputRequests of a tools/call result), or against a scripted raw peer that writes
// elicitation/create / notifications/elicitation/complete itself.  One observation {c, o} per case (VERIF_OUT);
// spec/ElicitMon.tla judges it.  Cases in which the peer omits the params are run in a child process
// (TestVerif_X10Child, the re-executed test binary): a nil dereference in a jsonrpc2 handler goroutine kills the
// process, and that is the observation.
//
// Part (b), TestVerif_X10URL (VERIF_URL_IN / VERIF_URL_OUT): environment scripts produced by TLC from spec/ElicitURL.tla (transition covers,
// simulations, counterexamples of the lead configurations) are played against the real client with
// urlElicitationMiddleware installed and a scripted server, each in its own testing/synctest bubble.  Seams:
// the application call, the server's answers and completion notifications, a gate in the ElicitationHandler, a
// gate in a receiving middleware in front of callElicitationCompleteHandler, the callers' contexts.  After every
// step the bubble runs to quiescence (synctest.Wait) and the session's waiter table is snapshotted.
// spec/ElicitURLMon.tla judges the log, spec/ElicitURLTrace.tla must explain it.
//
// Uses of unexported identifiers (all here): urlElicitationMiddleware, ClientSession.pendingElicitations(+Mu).
package mcp

import (
	"bufio"
	"bytes"
	"context"
	"encoding/json"
	"errors"
	"fmt"
	"os"
	"os/exec"
	"sort"
	"strings"
	"sync"
	"testing"
	"testing/synctest"
	"time"

	"github.com/modelcontextprotocol/go-sdk/jsonrpc"
)

func x10URLMiddleware() Middleware { return urlElicitationMiddleware() }

func x10PendingKeys(cs *ClientSession) []string {
	cs.pendingElicitationsMu.Lock()
	defer cs.pendingElicitationsMu.Unlock()
	keys := []string{}
	for k := range cs.pendingElicitations {
		keys = append(keys, k)
	}
	sort.Strings(keys)
	return keys
}

var x10Impl = &Implementation{Name: "x10", Version: "v1"}

// ---------------------------------------------------------------------------
// a scripted peer on the server side of the in-memory transport

type x10Peer struct {
	conn  Connection
	onMsg func(jsonrpc.Message)
	done  chan struct{}
}

func x10NewPeer(t Transport, onMsg func(jsonrpc.Message)) (*x10Peer, error) {
	conn, err := t.Connect(context.Background())
	if err != nil {
		return nil, err
	}
	p := &x10Peer{conn: conn, onMsg: onMsg, done: make(chan struct{})}
	go func() {
		defer close(p.done)
		for {
			m, err := conn.Read(context.Background())
			if err != nil {
				return
			}
			if r, ok := m.(*jsonrpc.Request); ok && r.Method == "initialize" {
				res, _ := json.Marshal(map[string]any{"protocolVersion": "2025-11-25",
					"capabilities": map[string]any{"tools": map[string]any{}},
					"serverInfo":   map[string]any{"name": "x10-peer", "version": "v1"}})
				conn.Write(context.Background(), &jsonrpc.Response{ID: r.ID, Result: res})
				continue
			}
			p.onMsg(m)
		}
	}()
	return p, nil
}

func (p *x10Peer) writeRaw(raw string) error {
	m, err := jsonrpc.DecodeMessage([]byte(raw))
	if err != nil {
		return err
	}
	return p.conn.Write(context.Background(), m)
}

// ===========================================================================
// Part (a): the decision table

type x10P struct {
	Ty     string `json:"ty"`
	Nested bool   `json:"nested"`
	Fmt    string `json:"fmt"`
	Len    string `json:"len"`
	Def    string `json:"def"`
	En     string `json:"en"`
	Oneof  string `json:"oneof"`
	Rng    string `json:"rng"`
	Items  string `json:"items"`
}

type x10Sch struct {
	Root   string `json:"root"`
	P      x10P   `json:"p"`
	Second string `json:"second"`
}

type x10Res struct {
	Act string `json:"act"`
	Val string `json:"val"`
}

type x10Case struct {
	Kind    string `json:"kind"`
	Path    string `json:"path"`
	Handler bool   `json:"handler"`
	Decl    string `json:"decl"`
	Mode    string `json:"mode"`
	URL     bool   `json:"url"`
	Eid     bool   `json:"eid"`
	Params  string `json:"params"`
	Uh      bool   `json:"uh"`
	Sch     x10Sch `json:"sch"`
	Req     bool   `json:"req"`
	Res     x10Res `json:"res"`
}

type x10Out struct {
	Crash   bool   `json:"crash"`
	Sent    bool   `json:"sent"`
	Asked   int    `json:"asked"`
	Ret     string `json:"ret"`
	Code    string `json:"code"`
	Action  string `json:"action"`
	Cont    string `json:"cont"`
	Pv      string `json:"pv"`
	Zv      bool   `json:"zv"`
	Ucalled bool   `json:"ucalled"`
	Info    string `json:"info"`
}

type x10Line struct {
	C x10Case `json:"c"`
	O x10Out  `json:"o"`
}

var x10Formats = []string{"email", "uri", "date", "date-time"}
var x10FormatValues = map[string]string{"email": "a@b.example", "uri": "https://x10.example/p", "date": "2024-01-02", "date-time": "2024-01-02T03:04:05Z"}

func x10Titled(bad string) []any {
	second := map[string]any{"const": "cd", "title": "C D"}
	switch bad {
	case "noconst":
		second = map[string]any{"type": "string", "title": "Other"}
	case "numconst":
		second = map[string]any{"const": 5, "title": "Five"}
	case "emptyconst":
		second = map[string]any{"const": "", "title": "Empty"}
	case "notitle":
		second = map[string]any{"const": "cd"}
	}
	return []any{map[string]any{"const": "ab", "title": "A B"}, second}
}

// the JSON Schema of property p; idx makes the seeded choice among the allowed formats
func x10PropSchema(p x10P, idx int) map[string]any {
	s := map[string]any{}
	if p.Ty != "none" {
		s["type"] = p.Ty
	}
	if p.Nested {
		s["properties"] = map[string]any{"n": map[string]any{"type": "string"}}
	}
	switch p.Fmt {
	case "allowed":
		s["format"] = x10Formats[idx%len(x10Formats)]
	case "other":
		s["format"] = "phone"
	}
	switch p.Len {
	case "ok":
		s["minLength"], s["maxLength"] = 1, 30
	case "negmin":
		s["minLength"] = -1
	case "negmax":
		s["maxLength"] = -5
	case "inverted":
		s["minLength"], s["maxLength"] = 10, 5
	}
	switch p.En {
	case "plain":
		s["enum"] = []any{"ab", "cd"}
	case "names_ok":
		s["enum"], s["enumNames"] = []any{"ab", "cd"}, []any{"A B", "C D"}
	case "names_short":
		s["enum"], s["enumNames"] = []any{"ab", "cd"}, []any{"A B"}
	case "names_nonarray":
		s["enum"], s["enumNames"] = []any{"ab", "cd"}, "A B"
	}
	if p.Oneof != "none" {
		if p.Oneof == "ok" {
			s["oneOf"] = x10Titled("")
		} else {
			s["oneOf"] = x10Titled(p.Oneof)
		}
	}
	switch p.Rng {
	case "ok":
		s["minimum"], s["maximum"] = 0, 100
	case "inverted":
		s["minimum"], s["maximum"] = 100, 50
	}
	switch p.Items {
	case "str_enum":
		s["items"] = map[string]any{"type": "string", "enum": []any{"ab", "cd"}}
	case "str_plain":
		s["items"] = map[string]any{"type": "string"}
	case "anyof_ok":
		s["items"] = map[string]any{"anyOf": x10Titled("")}
	case "anyof_missing":
		s["items"] = map[string]any{"title": "nothing"}
	case "anyof_badentry":
		s["items"] = map[string]any{"anyOf": x10Titled("noconst")}
	case "int":
		s["items"] = map[string]any{"type": "integer"}
	}
	if d, ok := x10Default(p); ok {
		s["default"] = d
	}
	return s
}

func x10Default(p x10P) (any, bool) {
	switch p.Def {
	case "none":
		return nil, false
	case "ok":
		if p.En != "none" || p.Oneof != "none" {
			return "cd", true
		}
		return "okdef", true
	case "viol":
		if p.Ty == "string" {
			return strings.Repeat("d", 40), true
		}
		return 500, true
	case "nonmember":
		return "zz", true
	case "int":
		return 7, true
	case "float":
		return 2.5, true
	case "bool":
		return true, true
	case "arr":
		return []any{"cd"}, true
	case "badtype":
		switch p.Ty {
		case "string":
			return 5, true
		case "boolean":
			return "yes", true
		case "array":
			return "cd", true
		default:
			return "seven", true
		}
	}
	return nil, false
}

func x10Schema(c *x10Case, idx int) json.RawMessage {
	s := c.Sch
	if s.Root == "nil" {
		return nil
	}
	m := map[string]any{}
	switch s.Root {
	case "object", "objempty":
		m["type"] = "object"
	case "string":
		m["type"] = "string"
	}
	if s.Root != "objempty" {
		props := map[string]any{"p": x10PropSchema(s.P, idx)}
		switch s.Second {
		case "good":
			props["q"] = map[string]any{"type": "string"}
		case "bad":
			props["q"] = map[string]any{"type": "object"}
		}
		m["properties"] = props
	}
	if c.Req {
		m["required"] = []any{"p"}
	}
	b, err := json.Marshal(m)
	if err != nil {
		panic(err)
	}
	return b
}

func x10ValidValue(p x10P, idx int) any {
	switch p.Ty {
	case "string":
		if p.En != "none" || p.Oneof != "none" {
			return "ab"
		}
		if p.Fmt == "allowed" {
			return x10FormatValues[x10Formats[idx%len(x10Formats)]]
		}
		return "hello"
	case "number", "integer":
		return 42
	case "boolean":
		return false
	case "array":
		return []any{"ab"}
	}
	return "hello"
}

func x10Content(c *x10Case, idx int) map[string]any {
	p := c.Sch.P
	switch c.Res.Val {
	case "nil":
		return nil
	case "empty":
		return map[string]any{}
	case "valid":
		return map[string]any{"p": x10ValidValue(p, idx)}
	case "extra":
		return map[string]any{"p": x10ValidValue(p, idx), "z": "zz-extra"}
	case "wrongtype":
		switch p.Ty {
		case "number", "integer", "boolean":
			return map[string]any{"p": "x"}
		case "array":
			return map[string]any{"p": "ab"}
		}
		return map[string]any{"p": 7}
	case "viol":
		switch p.Ty {
		case "string":
			if p.En != "none" || p.Oneof != "none" {
				return map[string]any{"p": "zz"}
			}
			return map[string]any{"p": strings.Repeat("v", 40)}
		case "integer":
			return map[string]any{"p": 2.5}
		case "number":
			return map[string]any{"p": 500}
		case "array":
			return map[string]any{"p": []any{"zz"}}
		}
	}
	return map[string]any{"p": "hello"}
}

func x10Params(c *x10Case, idx int) *ElicitParams {
	p := &ElicitParams{Message: "x10"}
	switch c.Mode {
	case "form", "url", "bogus":
		p.Mode = c.Mode
	}
	if c.URL {
		p.URL = "https://x10.example/go"
	}
	if c.Eid {
		p.ElicitationID = "eid-1"
	}
	if s := x10Schema(c, idx); s != nil {
		p.RequestedSchema = s
	}
	return p
}

func x10ErrCode(err error) string {
	var je *jsonrpc.Error
	if errors.As(err, &je) {
		if je.Code == jsonrpc.CodeInvalidParams {
			return "ip"
		}
		return "other"
	}
	return "local"
}

func x10JSON(v any) string {
	b, _ := json.Marshal(v)
	return string(b)
}

// classify what the requester received
func x10Classify(c *x10Case, idx int, action string, content map[string]any, o *x10Out) {
	o.Ret, o.Code, o.Action = "result", "none", action
	o.Cont, o.Pv = "nil", "absent"
	if content == nil {
		return
	}
	o.Cont = "obj"
	_, o.Zv = content["z"]
	pv, ok := content["p"]
	if !ok {
		return
	}
	o.Pv = "other"
	if given, ok := x10Content(c, idx)["p"]; ok && x10JSON(given) == x10JSON(pv) {
		o.Pv = "same"
	} else if d, ok := x10Default(c.Sch.P); ok && x10JSON(d) == x10JSON(pv) {
		o.Pv = "default"
	}
}

type x10Env struct {
	mu      sync.Mutex
	cur     *x10Case
	idx     int
	asked   int
	sent    int
	ucalled bool
	// what the requester saw
	gotRes *ElicitResult
	gotErr error
	got    bool
}

func (e *x10Env) clientOptions(handler bool, decl string, uh bool) *ClientOptions {
	opts := &ClientOptions{}
	if handler {
		opts.ElicitationHandler = func(_ context.Context, req *ElicitRequest) (*ElicitResult, error) {
			e.mu.Lock()
			defer e.mu.Unlock()
			e.asked++
			c := e.cur
			if c.Res.Act == "herr" {
				return nil, errors.New("x10: the handler fails")
			}
			act := c.Res.Act
			if act == "bogus" {
				act = "maybe"
			}
			return &ElicitResult{Action: act, Content: x10Content(c, e.idx)}, nil
		}
	}
	if uh {
		opts.ElicitationCompleteHandler = func(context.Context, *ElicitationCompleteNotificationRequest) {
			e.mu.Lock()
			e.ucalled = true
			e.mu.Unlock()
		}
	}
	switch decl {
	case "empty":
		opts.Capabilities = &ClientCapabilities{Elicitation: &ElicitationCapabilities{}}
	case "form":
		opts.Capabilities = &ClientCapabilities{Elicitation: &ElicitationCapabilities{Form: &FormElicitationCapabilities{}}}
	case "url":
		opts.Capabilities = &ClientCapabilities{Elicitation: &ElicitationCapabilities{URL: &URLElicitationCapabilities{}}}
	case "both":
		opts.Capabilities = &ClientCapabilities{Elicitation: &ElicitationCapabilities{Form: &FormElicitationCapabilities{}, URL: &URLElicitationCapabilities{}}}
	}
	return opts
}

func (e *x10Env) newClient(handler bool, decl string, uh bool) *Client {
	client := NewClient(x10Impl, e.clientOptions(handler, decl, uh))
	client.AddReceivingMiddleware(func(next MethodHandler) MethodHandler {
		return func(ctx context.Context, method string, req Request) (Result, error) {
			if method == "elicitation/create" {
				e.mu.Lock()
				e.sent++
				e.mu.Unlock()
			}
			return next(ctx, method, req)
		}
	})
	return client
}

// the SDK paths: one client/server pair per (path, handler, decl)
func x10RunSDKGroup(t *testing.T, path string, handler bool, decl string, cases []*x10Case, idxs []int, emit func(*x10Case, x10Out)) {
	e := &x10Env{}
	client := e.newClient(handler, decl, false)
	server := NewServer(x10Impl, nil)
	objSchema := json.RawMessage(`{"type":"object"}`)
	server.AddTool(&Tool{Name: "direct", InputSchema: objSchema}, func(ctx context.Context, req *CallToolRequest) (*CallToolResult, error) {
		e.mu.Lock()
		c, idx := e.cur, e.idx
		e.mu.Unlock()
		res, err := req.Session.Elicit(ctx, x10Params(c, idx))
		e.mu.Lock()
		e.gotRes, e.gotErr, e.got = res, err, true
		e.mu.Unlock()
		return &CallToolResult{Content: []Content{&TextContent{Text: "done"}}}, nil
	})
	server.AddTool(&Tool{Name: "mrtr", InputSchema: objSchema}, func(ctx context.Context, req *CallToolRequest) (*CallToolResult, error) {
		e.mu.Lock()
		c, idx := e.cur, e.idx
		e.mu.Unlock()
		if len(req.Params.InputResponses) == 0 {
			return &CallToolResult{InputRequests: InputRequestMap{"e": x10Params(c, idx)}}, nil
		}
		r, _ := req.Params.InputResponses["e"].(*ElicitResult)
		e.mu.Lock()
		e.gotRes, e.got = r, true
		if r == nil {
			e.gotErr = fmt.Errorf("x10: input response of type %T", req.Params.InputResponses["e"])
		}
		e.mu.Unlock()
		return &CallToolResult{Content: []Content{&TextContent{Text: "done"}}}, nil
	})
	ctx, cancel := context.WithTimeout(context.Background(), 15*time.Minute)
	defer cancel()
	ct, st := NewInMemoryTransports()
	ss, err := server.Connect(ctx, st, nil)
	if err != nil {
		t.Fatalf("x10: server.Connect: %v", err)
	}
	defer ss.Close()
	var sopts *ClientSessionOptions
	want0728 := false
	switch path {
	case "d0618":
		sopts = &ClientSessionOptions{ProtocolVersion: "2025-06-18"}
	case "d1125", "m1125":
		sopts = &ClientSessionOptions{ProtocolVersion: "2025-11-25"}
	default:
		want0728 = true
	}
	cs, err := client.Connect(ctx, ct, sopts)
	if err != nil {
		t.Fatalf("x10: client.Connect(%s): %v", path, err)
	}
	defer cs.Close()
	if v := cs.InitializeResult().ProtocolVersion; want0728 != (v >= "2026-07-28") {
		t.Fatalf("x10: path %s negotiated %s", path, v)
	}
	tool := "direct"
	if path[0] == 'm' {
		tool = "mrtr"
	}
	for i, c := range cases {
		e.mu.Lock()
		e.cur, e.idx, e.asked, e.sent, e.got, e.gotRes, e.gotErr = c, idxs[i], 0, 0, false, nil, nil
		e.mu.Unlock()
		cctx, ccancel := context.WithTimeout(ctx, 90*time.Second)
		_, callErr := cs.CallTool(cctx, &CallToolParams{Name: tool})
		ccancel()
		e.mu.Lock()
		o := x10Out{Sent: e.sent > 0, Asked: e.asked}
		switch {
		case e.got && e.gotErr == nil && e.gotRes != nil:
			x10Classify(c, idxs[i], e.gotRes.Action, e.gotRes.Content, &o)
		case e.got:
			o.Ret, o.Code, o.Cont, o.Pv, o.Info = "error", x10ErrCode(e.gotErr), "nil", "absent", e.gotErr.Error()
		case callErr != nil:
			o.Ret, o.Code, o.Cont, o.Pv, o.Info = "error", x10ErrCode(callErr), "nil", "absent", callErr.Error()
		default:
			o.Ret, o.Code, o.Cont, o.Pv, o.Info = "error", "other", "nil", "absent", "x10: the tool handler never saw an answer and the call succeeded"
		}
		e.mu.Unlock()
		if len(o.Info) > 200 {
			o.Info = o.Info[:200]
		}
		emit(c, o)
	}
}

func x10RawParams(c *x10Case, idx int) string {
	m := map[string]any{"message": "x10"}
	switch c.Mode {
	case "form", "url", "bogus":
		m["mode"] = c.Mode
	}
	if c.URL {
		m["url"] = "https://x10.example/go"
	}
	if c.Eid {
		m["elicitationId"] = "eid-1"
	}
	if s := x10Schema(c, idx); s != nil {
		m["requestedSchema"] = s
	}
	return x10JSON(m)
}

// the raw peer: one client per (handler, decl, uh); returns false when the client stopped answering
func x10RunRawGroup(t *testing.T, handler bool, decl string, uh bool, cases []*x10Case, idxs []int, emit func(*x10Case, x10Out)) {
	e := &x10Env{}
	client := e.newClient(handler, decl, uh)
	ct, st := NewInMemoryTransports()
	resp := make(chan *jsonrpc.Response, 16)
	peer, err := x10NewPeer(st, func(m jsonrpc.Message) {
		if r, ok := m.(*jsonrpc.Response); ok {
			resp <- r
		}
	})
	if err != nil {
		t.Fatal(err)
	}
	ctx, cancel := context.WithTimeout(context.Background(), 15*time.Minute)
	defer cancel()
	cs, err := client.Connect(ctx, ct, &ClientSessionOptions{ProtocolVersion: "2025-11-25"})
	if err != nil {
		t.Fatalf("x10: client.Connect(raw): %v", err)
	}
	defer cs.Close()
	await := func(id int) *jsonrpc.Response {
		for {
			select {
			case r := <-resp:
				if fmt.Sprint(r.ID.Raw()) == fmt.Sprint(id) {
					return r
				}
			case <-time.After(90 * time.Second):
				return nil
			}
		}
	}
	for i, c := range cases {
		e.mu.Lock()
		e.cur, e.idx, e.asked, e.sent, e.ucalled = c, idxs[i], 0, 0, false
		e.mu.Unlock()
		id := 1000 + 2*i
		o := x10Out{Sent: true, Cont: "nil", Pv: "absent"}
		params := ""
		switch c.Params {
		case "normal":
			if c.Kind == "notif" {
				params = `,"params":{"elicitationId":"nobody-waits-for-this"}`
			} else {
				params = `,"params":` + x10RawParams(c, idxs[i])
			}
		case "null":
			params = `,"params":null`
		}
		if c.Kind == "notif" {
			if err := peer.writeRaw(`{"jsonrpc":"2.0","method":"notifications/elicitation/complete"` + params + `}`); err != nil {
				t.Fatalf("x10: raw write: %v", err)
			}
			// a round trip behind it: notifications are handled in order, before the ping is answered
			peer.writeRaw(fmt.Sprintf(`{"jsonrpc":"2.0","id":%d,"method":"ping"}`, id+1))
			if await(id+1) == nil {
				o.Ret, o.Code, o.Info = "error", "other", "x10: no answer to the ping behind the notification"
			} else {
				o.Ret, o.Code = "result", "none"
			}
			e.mu.Lock()
			o.Ucalled, o.Asked = e.ucalled, e.asked
			e.mu.Unlock()
			emit(c, o)
			continue
		}
		if err := peer.writeRaw(fmt.Sprintf(`{"jsonrpc":"2.0","id":%d,"method":"elicitation/create"%s}`, id, params)); err != nil {
			t.Fatalf("x10: raw write: %v", err)
		}
		r := await(id)
		e.mu.Lock()
		o.Asked = e.asked
		e.mu.Unlock()
		switch {
		case r == nil:
			o.Ret, o.Code, o.Info = "error", "other", "x10: no answer"
		case r.Error != nil:
			o.Ret, o.Code, o.Info = "error", x10ErrCode(r.Error), r.Error.Error()
		default:
			var er ElicitResult
			if err := json.Unmarshal(r.Result, &er); err != nil {
				o.Ret, o.Code, o.Info = "error", "other", "x10: undecodable result: "+err.Error()
			} else {
				x10Classify(c, idxs[i], er.Action, er.Content, &o)
				o.Sent = true
			}
		}
		if len(o.Info) > 200 {
			o.Info = o.Info[:200]
		}
		emit(c, o)
	}
}

// the other way round: a real Server whose client is a scripted peer.  The peer declares the capability `decl`
// says, calls the tool "direct" (whose handler calls ServerSession.Elicit) and answers elicitation/create with
// exactly what the case says.
func x10RunRawClientGroup(t *testing.T, handler bool, decl string, cases []*x10Case, idxs []int, emit func(*x10Case, x10Out)) {
	e := &x10Env{}
	server := NewServer(x10Impl, nil)
	server.AddTool(&Tool{Name: "direct", InputSchema: json.RawMessage(`{"type":"object"}`)}, func(ctx context.Context, req *CallToolRequest) (*CallToolResult, error) {
		e.mu.Lock()
		c, idx := e.cur, e.idx
		e.mu.Unlock()
		res, err := req.Session.Elicit(ctx, x10Params(c, idx))
		e.mu.Lock()
		e.gotRes, e.gotErr, e.got = res, err, true
		e.mu.Unlock()
		return &CallToolResult{Content: []Content{&TextContent{Text: "done"}}}, nil
	})
	ctx, cancel := context.WithTimeout(context.Background(), 15*time.Minute)
	defer cancel()
	ct, st := NewInMemoryTransports()
	ss, err := server.Connect(ctx, st, nil)
	if err != nil {
		t.Fatalf("x10: server.Connect: %v", err)
	}
	defer ss.Close()
	conn, err := ct.Connect(ctx)
	if err != nil {
		t.Fatal(err)
	}
	defer conn.Close()
	caps := map[string]any{}
	switch decl {
	case "infer":
		if handler {
			caps["elicitation"] = map[string]any{"form": map[string]any{}}
		}
	case "empty":
		caps["elicitation"] = map[string]any{}
	case "form":
		caps["elicitation"] = map[string]any{"form": map[string]any{}}
	case "url":
		caps["elicitation"] = map[string]any{"url": map[string]any{}}
	case "both":
		caps["elicitation"] = map[string]any{"form": map[string]any{}, "url": map[string]any{}}
	}
	write := func(raw string) {
		m, err := jsonrpc.DecodeMessage([]byte(raw))
		if err != nil {
			t.Fatalf("x10: %v: %s", err, raw)
		}
		if err := conn.Write(ctx, m); err != nil {
			t.Fatalf("x10: peer write: %v", err)
		}
	}
	write(`{"jsonrpc":"2.0","id":1,"method":"initialize","params":{"protocolVersion":"2025-11-25","capabilities":` + x10JSON(caps) + `,"clientInfo":{"name":"x10-peer","version":"v1"}}}`)
	if _, err := conn.Read(ctx); err != nil {
		t.Fatalf("x10: initialize: %v", err)
	}
	write(`{"jsonrpc":"2.0","method":"notifications/initialized","params":{}}`)
	for i, c := range cases {
		e.mu.Lock()
		e.cur, e.idx, e.got, e.gotRes, e.gotErr = c, idxs[i], false, nil, nil
		e.mu.Unlock()
		id := 100 + i
		write(fmt.Sprintf(`{"jsonrpc":"2.0","id":%d,"method":"tools/call","params":{"name":"direct","arguments":{}}}`, id))
		sent, asked := 0, 0
		for {
			m, err := conn.Read(ctx)
			if err != nil {
				t.Fatalf("x10: peer read: %v", err)
			}
			if r, ok := m.(*jsonrpc.Response); ok && fmt.Sprint(r.ID.Raw()) == fmt.Sprint(id) {
				break
			}
			r, ok := m.(*jsonrpc.Request)
			if !ok || r.Method != "elicitation/create" {
				continue
			}
			sent++
			resp := &jsonrpc.Response{ID: r.ID}
			switch {
			case !handler:
				resp.Error = &jsonrpc.Error{Code: -32601, Message: "x10 peer: method not found"}
			case c.Res.Act == "herr":
				asked++
				resp.Error = &jsonrpc.Error{Code: -32000, Message: "x10 peer: the user interface failed"}
			default:
				asked++
				act := c.Res.Act
				if act == "bogus" {
					act = "maybe"
				}
				res := map[string]any{"action": act}
				if content := x10Content(c, idxs[i]); content != nil {
					res["content"] = content
				}
				resp.Result = json.RawMessage(x10JSON(res))
			}
			if err := conn.Write(ctx, resp); err != nil {
				t.Fatalf("x10: peer write: %v", err)
			}
		}
		e.mu.Lock()
		o := x10Out{Sent: sent > 0, Asked: asked}
		switch {
		case e.got && e.gotErr == nil && e.gotRes != nil:
			x10Classify(c, idxs[i], e.gotRes.Action, e.gotRes.Content, &o)
		case e.got:
			o.Ret, o.Code, o.Cont, o.Pv, o.Info = "error", x10ErrCode(e.gotErr), "nil", "absent", e.gotErr.Error()
		default:
			o.Ret, o.Code, o.Cont, o.Pv, o.Info = "error", "other", "nil", "absent", "x10: the tool handler did not run"
		}
		e.mu.Unlock()
		if len(o.Info) > 200 {
			o.Info = o.Info[:200]
		}
		emit(c, o)
	}
}

const x10ChildMark = "X10CHILD:"

// TestVerif_X10Child runs ONE raw case (VERIF_X10_CASE) and prints its outcome; when the client dies, so does this process.
func TestVerif_X10Child(t *testing.T) {
	raw := os.Getenv("VERIF_X10_CASE")
	if raw == "" {
		t.Skip("child of TestVerif_X10Table")
	}
	var c x10Case
	if err := json.Unmarshal([]byte(raw), &c); err != nil {
		t.Fatal(err)
	}
	x10RunRawGroup(t, c.Handler, c.Decl, c.Uh, []*x10Case{&c}, []int{0}, func(_ *x10Case, o x10Out) {
		fmt.Println(x10ChildMark + x10JSON(o))
	})
}

func x10RunChild(t *testing.T, c *x10Case) x10Out {
	cmd := exec.Command(os.Args[0], "-test.run=^TestVerif_X10Child$", "-test.count=1", "-test.timeout=300s")
	cmd.Env = append(os.Environ(), "VERIF_X10_CASE="+x10JSON(c), "VERIF_IN=", "VERIF_OUT=", "VERIF_URL_IN=", "VERIF_URL_OUT=")
	var buf bytes.Buffer
	cmd.Stdout, cmd.Stderr = &buf, &buf
	err := cmd.Run()
	out := buf.String()
	for _, line := range strings.Split(out, "\n") {
		if i := strings.Index(line, x10ChildMark); i >= 0 {
			var o x10Out
			if json.Unmarshal([]byte(line[i+len(x10ChildMark):]), &o) == nil {
				return o
			}
		}
	}
	o := x10Out{Sent: true, Ret: "error", Code: "other", Cont: "nil", Pv: "absent"}
	if err != nil && (strings.Contains(out, "panic:") || strings.Contains(out, "SIGSEGV")) {
		o.Crash = true
		if i := strings.Index(out, "panic:"); i >= 0 {
			o.Info = strings.ReplaceAll(out[i:min(len(out), i+400)], "\n", " | ")
		}
		return o
	}
	t.Fatalf("x10: child run of %s failed without an outcome: %v\n%s", x10JSON(c), err, out)
	return o
}

func x10ReadLines(t *testing.T, path string, f func([]byte)) {
	fin, err := os.Open(path)
	if err != nil {
		t.Fatal(err)
	}
	defer fin.Close()
	sc := bufio.NewScanner(fin)
	sc.Buffer(make([]byte, 1<<20), 1<<26)
	for sc.Scan() {
		if len(bytes.TrimSpace(sc.Bytes())) > 0 {
			f(sc.Bytes())
		}
	}
	if err := sc.Err(); err != nil {
		t.Fatal(err)
	}
}

func TestVerif_X10Table(t *testing.T) {
	in, outp := os.Getenv("VERIF_IN"), os.Getenv("VERIF_OUT")
	if in == "" || outp == "" {
		t.Skip("VERIF_IN / VERIF_OUT not set")
	}
	seed := 1
	fmt.Sscan(os.Getenv("VERIF_SEED"), &seed)
	var cases []*x10Case
	x10ReadLines(t, in, func(b []byte) {
		c := &x10Case{}
		if err := json.Unmarshal(b, c); err != nil {
			t.Fatalf("x10: bad case %s: %v", b, err)
		}
		cases = append(cases, c)
	})
	fout, err := os.Create(outp)
	if err != nil {
		t.Fatal(err)
	}
	defer fout.Close()
	w := bufio.NewWriter(fout)
	defer w.Flush()
	var wmu sync.Mutex
	emit := func(c *x10Case, o x10Out) {
		wmu.Lock()
		defer wmu.Unlock()
		b, _ := json.Marshal(x10Line{C: *c, O: o})
		w.Write(b)
		w.WriteByte('\n')
	}
	type key struct {
		path    string
		handler bool
		decl    string
		uh      bool
	}
	groups := map[key][]int{}
	var order []key
	var children []int
	for i, c := range cases {
		if c.Path == "raw" && c.Params != "normal" {
			children = append(children, i)
			continue
		}
		k := key{c.Path, c.Handler, c.Decl, c.Uh}
		if _, ok := groups[k]; !ok {
			order = append(order, k)
		}
		groups[k] = append(groups[k], i)
	}
	for _, k := range order {
		var cs []*x10Case
		var idxs []int
		for _, i := range groups[k] {
			cs = append(cs, cases[i])
			idxs = append(idxs, i+seed)
		}
		if k.path == "raw" {
			x10RunRawGroup(t, k.handler, k.decl, k.uh, cs, idxs, emit)
		} else if k.path == "rawc" {
			x10RunRawClientGroup(t, k.handler, k.decl, cs, idxs, emit)
		} else {
			x10RunSDKGroup(t, k.path, k.handler, k.decl, cs, idxs, emit)
		}
	}
	for _, i := range children {
		emit(cases[i], x10RunChild(t, cases[i]))
	}
}

// ===========================================================================
// Part (b): the URL-elicitation retry loop

type x10Step struct {
	A   string   `json:"a"` // start resp notify cnotif hend cancel
	C   int      `json:"c"`
	K   string   `json:"k"`
	Ids []string `json:"ids"`
	I   string   `json:"i"`
	H   string   `json:"h"`
}

type x10Scenario struct {
	ID    string    `json:"id"`
	Cfgh  bool      `json:"cfgh"`
	Steps []x10Step `json:"steps"`
}

type x10Ev struct {
	Ev    string   `json:"ev"` // reset start recv resp notify cnotif ucall hbegin hend cancel ret snap hang skip end
	Trace string   `json:"trace"`
	Cfgh  bool     `json:"cfgh"`
	C     int      `json:"c"`
	Try   int      `json:"try"`
	Kind  string   `json:"kind"`
	Ids   []string `json:"ids"`
	ID    string   `json:"id"`
	H     string   `json:"h"`
	Out   string   `json:"out"`
	Keys  []string `json:"keys"`
	Msg   string   `json:"msg"`
}

type x10Log struct {
	mu    sync.Mutex
	w     *bufio.Writer
	trace string
	cfgh  bool
}

func (l *x10Log) emit(e x10Ev) {
	l.mu.Lock()
	defer l.mu.Unlock()
	e.Trace, e.Cfgh = l.trace, l.cfgh
	if e.Ids == nil {
		e.Ids = []string{}
	}
	if e.Keys == nil {
		e.Keys = []string{}
	}
	if len(e.Msg) > 160 {
		e.Msg = e.Msg[:160]
	}
	b, _ := json.Marshal(e)
	l.w.Write(b)
	l.w.WriteByte('\n')
}

type x10Gate struct {
	c   int
	id  string
	rel chan string
}

type x10Call struct {
	cancel   context.CancelFunc
	started  bool
	returned bool
	tries    int
	open     *jsonrpc.Request // the attempt the server has not answered
}

type x10URLEnv struct {
	log      *x10Log
	mu       sync.Mutex
	calls    map[int]*x10Call
	hgates   []*x10Gate // parked ElicitationHandler invocations
	ngates   []*x10Gate // parked completion notifications, in arrival order
	draining bool
}

func x10CallNo(s string) int {
	n := 0
	fmt.Sscanf(s, "c%d", &n)
	return n
}

func (e *x10URLEnv) call(c int) *x10Call {
	if e.calls[c] == nil {
		e.calls[c] = &x10Call{}
	}
	return e.calls[c]
}

func x10Outcome(err error) string {
	if err == nil {
		return "ok"
	}
	var je *jsonrpc.Error
	switch {
	case errors.Is(err, context.Canceled), errors.Is(err, context.DeadlineExceeded):
		return "ctxerr"
	case strings.Contains(err.Error(), "must only contain URL mode"):
		return "badmode"
	case strings.Contains(err.Error(), "URL elicitation failed"):
		return "elicitfail"
	case errors.As(err, &je) && je.Code == CodeURLElicitationRequired:
		return "urlreq"
	case errors.As(err, &je) && je.Code == -32000:
		return "err"
	}
	return "other:" + err.Error()
}

func x10RunURL(t *testing.T, sc *x10Scenario, log *x10Log) {
	log.mu.Lock()
	log.trace, log.cfgh = sc.ID, sc.Cfgh
	log.mu.Unlock()
	log.emit(x10Ev{Ev: "reset"})
	e := &x10URLEnv{log: log, calls: map[int]*x10Call{}}
	ct, st := NewInMemoryTransports()
	peer, err := x10NewPeer(st, func(m jsonrpc.Message) {
		r, ok := m.(*jsonrpc.Request)
		if !ok || r.Method != "tools/call" {
			return // notifications/initialized, notifications/cancelled
		}
		var p struct {
			Name string `json:"name"`
		}
		json.Unmarshal(r.Params, &p)
		c := x10CallNo(p.Name)
		e.mu.Lock()
		cl := e.call(c)
		cl.tries++
		cl.open = r
		try := cl.tries
		e.mu.Unlock()
		log.emit(x10Ev{Ev: "recv", C: c, Try: try})
	})
	if err != nil {
		t.Fatal(err)
	}
	opts := &ClientOptions{
		Capabilities: &ClientCapabilities{Elicitation: &ElicitationCapabilities{Form: &FormElicitationCapabilities{}, URL: &URLElicitationCapabilities{}}},
		ElicitationCompleteHandler: func(_ context.Context, req *ElicitationCompleteNotificationRequest) {
			log.emit(x10Ev{Ev: "ucall", ID: req.Params.ElicitationID})
		},
	}
	if sc.Cfgh {
		opts.ElicitationHandler = func(_ context.Context, req *ElicitRequest) (*ElicitResult, error) {
			g := &x10Gate{c: x10CallNo(req.Params.Message), id: req.Params.ElicitationID, rel: make(chan string, 1)}
			log.emit(x10Ev{Ev: "hbegin", C: g.c, ID: g.id, Msg: req.Params.URL})
			e.mu.Lock()
			if e.draining {
				g.rel <- "accept"
			} else {
				e.hgates = append(e.hgates, g)
			}
			e.mu.Unlock()
			h := <-g.rel
			log.emit(x10Ev{Ev: "hend", C: g.c, ID: g.id, H: h})
			if h == "herr" {
				return nil, errors.New("x10: the user interface failed")
			}
			return &ElicitResult{Action: h}, nil
		}
	}
	client := NewClient(x10Impl, opts)
	client.AddSendingMiddleware(x10URLMiddleware())
	client.AddReceivingMiddleware(func(next MethodHandler) MethodHandler {
		return func(ctx context.Context, method string, req Request) (Result, error) {
			if method == "notifications/elicitation/complete" {
				id := ""
				if r, ok := req.(*ElicitationCompleteNotificationRequest); ok && r.Params != nil {
					id = r.Params.ElicitationID
				}
				g := &x10Gate{id: id, rel: make(chan string, 1)}
				e.mu.Lock()
				if e.draining {
					g.rel <- "go"
				} else {
					e.ngates = append(e.ngates, g)
				}
				e.mu.Unlock()
				<-g.rel
				log.emit(x10Ev{Ev: "cnotif", ID: id})
			}
			return next(ctx, method, req)
		}
	})
	cs, err := client.Connect(context.Background(), ct, &ClientSessionOptions{ProtocolVersion: "2025-11-25"})
	if err != nil {
		t.Fatalf("x10: connect: %v", err)
	}
	snap := func() {
		synctest.Wait()
		log.emit(x10Ev{Ev: "snap", Keys: x10PendingKeys(cs)})
	}
	snap()
	elic := func(c int, kind string, ids []string) []any {
		out := []any{}
		for _, id := range ids {
			m := map[string]any{"mode": "url", "message": fmt.Sprintf("c%d", c), "url": "https://x10.example/" + id, "elicitationId": id}
			switch kind {
			case "urlbad":
				m["mode"] = "form"
				delete(m, "url")
			case "urlnourl":
				delete(m, "url")
			}
			out = append(out, m)
		}
		return out
	}
	respond := func(c int, kind string, ids []string) bool {
		e.mu.Lock()
		cl := e.call(c)
		r := cl.open
		if r == nil || cl.returned {
			e.mu.Unlock()
			return false
		}
		cl.open = nil
		e.mu.Unlock()
		log.emit(x10Ev{Ev: "resp", C: c, Kind: kind, Ids: ids})
		resp := &jsonrpc.Response{ID: r.ID}
		switch kind {
		case "ok":
			resp.Result = json.RawMessage(`{"content":[{"type":"text","text":"fine"}]}`)
		case "err":
			resp.Error = &jsonrpc.Error{Code: -32000, Message: "x10: the tool failed"}
		default:
			data, _ := json.Marshal(map[string]any{"elicitations": elic(c, kind, ids)})
			resp.Error = &jsonrpc.Error{Code: CodeURLElicitationRequired, Message: "URL elicitation required", Data: data}
		}
		if err := peer.conn.Write(context.Background(), resp); err != nil {
			t.Fatalf("x10: peer write: %v", err)
		}
		return true
	}
	releaseNotif := func() bool {
		e.mu.Lock()
		if len(e.ngates) == 0 {
			e.mu.Unlock()
			return false
		}
		g := e.ngates[0]
		e.ngates = e.ngates[1:]
		e.mu.Unlock()
		g.rel <- "go"
		return true
	}
	releaseHandler := func(c int, h string) bool {
		e.mu.Lock()
		for i, g := range e.hgates {
			if g.c == c {
				e.hgates = append(e.hgates[:i], e.hgates[i+1:]...)
				e.mu.Unlock()
				g.rel <- h
				return true
			}
		}
		e.mu.Unlock()
		return false
	}
	cancelCall := func(c int) bool {
		e.mu.Lock()
		cl := e.call(c)
		ok := cl.started && !cl.returned && cl.cancel != nil
		cf := cl.cancel
		cl.cancel = nil
		e.mu.Unlock()
		if !ok {
			return false
		}
		log.emit(x10Ev{Ev: "cancel", C: c})
		cf()
		return true
	}
	for _, s := range sc.Steps {
		applied := true
		switch s.A {
		case "start":
			e.mu.Lock()
			cl := e.call(s.C)
			if cl.started {
				applied = false
			} else {
				cl.started = true
			}
			var cctx context.Context
			if applied {
				cctx, cl.cancel = context.WithCancel(context.Background())
			}
			e.mu.Unlock()
			if applied {
				log.emit(x10Ev{Ev: "start", C: s.C})
				c := s.C
				go func() {
					_, err := cs.CallTool(cctx, &CallToolParams{Name: fmt.Sprintf("c%d", c)})
					e.mu.Lock()
					e.call(c).returned = true
					e.mu.Unlock()
					msg := ""
					if err != nil {
						msg = err.Error()
					}
					log.emit(x10Ev{Ev: "ret", C: c, Out: x10Outcome(err), Msg: msg})
				}()
			}
		case "resp":
			applied = respond(s.C, s.K, s.Ids)
		case "notify":
			log.emit(x10Ev{Ev: "notify", ID: s.I})
			if err := peer.writeRaw(`{"jsonrpc":"2.0","method":"notifications/elicitation/complete","params":{"elicitationId":` + x10JSON(s.I) + `}}`); err != nil {
				t.Fatalf("x10: peer write: %v", err)
			}
		case "cnotif":
			applied = releaseNotif()
		case "hend":
			applied = releaseHandler(s.C, s.H)
		case "cancel":
			applied = cancelCall(s.C)
		default:
			applied = false
		}
		if !applied {
			log.emit(x10Ev{Ev: "skip", C: s.C, Kind: s.A})
			continue
		}
		snap()
	}
	// Stage 1: the environment discharges what it owes - answers, handler returns, delivery of what was sent -
	// and nothing else (no further completion, no cancellation).
	for round := 0; round < 40; round++ {
		progress := false
		for releaseNotif() {
			progress = true
			synctest.Wait()
		}
		e.mu.Lock()
		var hs []*x10Gate
		hs, e.hgates = e.hgates, nil
		var open []int
		for c, cl := range e.calls {
			if cl.open != nil && !cl.returned {
				open = append(open, c)
			}
		}
		e.mu.Unlock()
		sort.Ints(open)
		for _, g := range hs {
			g.rel <- "accept"
			progress = true
			synctest.Wait()
		}
		for _, c := range open {
			if respond(c, "ok", nil) {
				progress = true
				synctest.Wait()
			}
		}
		if !progress {
			break
		}
	}
	snap()
	var left []int
	e.mu.Lock()
	for c, cl := range e.calls {
		if cl.started && !cl.returned {
			left = append(left, c)
		}
	}
	e.mu.Unlock()
	sort.Ints(left)
	for _, c := range left {
		log.emit(x10Ev{Ev: "hang", C: c})
	}
	// Stage 2: clean-up. The callers give up; everything must unwind.
	for _, c := range left {
		cancelCall(c)
		snap()
	}
	e.mu.Lock()
	e.draining = true
	e.mu.Unlock()
	synctest.Wait()
	time.Sleep(10 * time.Second) // the detached notifications/cancelled (5 s budget) are out
	synctest.Wait()
	log.emit(x10Ev{Ev: "end", Keys: x10PendingKeys(cs)})
	cs.Close()
	<-peer.done
	time.Sleep(24 * time.Hour) // P4: anything still alive in the bubble makes synctest panic
}

func TestVerif_X10URL(t *testing.T) {
	in, outp := os.Getenv("VERIF_URL_IN"), os.Getenv("VERIF_URL_OUT")
	if in == "" || outp == "" {
		t.Skip("VERIF_URL_IN / VERIF_URL_OUT not set")
	}
	var scs []*x10Scenario
	x10ReadLines(t, in, func(b []byte) {
		sc := &x10Scenario{}
		if err := json.Unmarshal(b, sc); err != nil {
			t.Fatalf("x10: bad scenario %s: %v", b, err)
		}
		scs = append(scs, sc)
	})
	fout, err := os.Create(outp)
	if err != nil {
		t.Fatal(err)
	}
	defer fout.Close()
	log := &x10Log{w: bufio.NewWriter(fout)}
	defer log.w.Flush()
	for _, sc := range scs {
		synctest.Test(t, func(t *testing.T) { x10RunURL(t, sc, log) })
		log.mu.Lock()
		log.w.Flush()
		log.mu.Unlock()
		if t.Failed() {
			return
		}
	}
}
