//go:build verif

// Conformance harness for extension check X15 (the method dispatch layer: middleware composition, custom methods,
// requests in flight, progress tokens).
//
// Part (a), TestVerif_X15 (VERIF_IN / VERIF_OUT): environment scripts produced by TLC from spec/Dispatch.tla
// (transition covers, simulations, the counterexample of the lead configuration) are played against a REAL
// Client / Server pair over the in-memory transport, each in its own testing/synctest bubble.  Every user
// middleware is a gate twice (before calling next, after next has returned), every method handler once; a Step of
// the script opens one gate, then the bubble runs to quiescence (synctest.Wait) and the harness records where every
// request is parked.  Two kinds of lines are written: event lines (add / reg / begin / mw / h / end), judged by
// spec/DispatchMon.tla (the properties, from observations only), and step lines (the action taken and the
// projection of the real state), which spec/DispatchTrace.tla must explain with the actions of Dispatch.tla.
//
// Part (b), TestVerif_X15Table (VERIF_TAB_IN / VERIF_TAB_OUT): the abstract cases TLC exported from
// spec/DispatchDefs.tla are concretised and run: raw JSON-RPC lines against a real Server (custom-method
// dispatch), CallCustomMethod / ListTools of a real Client against a scripted raw peer (result typing, what is
// written), progress tokens end to end, concurrent Add*Middleware from several goroutines.  One observation
// {c, o} per case; spec/DispatchTabMon.tla judges it.
//
// Only the exported API of package mcp is used.
package mcp

import (
	"bufio"
	"bytes"
	"context"
	"encoding/json"
	"errors"
	"fmt"
	"io"
	"math/big"
	"math/rand/v2"
	"os"
	"os/exec"
	"sort"
	"strconv"
	"strings"
	"sync"
	"testing"
	"testing/synctest"
	"time"

	"github.com/modelcontextprotocol/go-sdk/jsonrpc"
)

var x15Impl = &Implementation{Name: "x15", Version: "v1"}

func x15Seed() uint64 {
	s, _ := strconv.ParseUint(os.Getenv("VERIF_SEED"), 10, 64)
	if s == 0 {
		s = 1
	}
	return s
}

// ---------------------------------------------------------------------------
// custom method types

type x15PA struct {
	ParamsBase
	Query string `json:"query"`
}
type x15PB struct { // same JSON shape, another Go type (D-REREG)
	ParamsBase
	Query string `json:"query"`
}
type x15R struct {
	ResultBase
	Hits []string `json:"hits"`
}

const x15Method = "x/do"

// ===========================================================================
// Part (a): the state machine

type x15Step struct {
	Op string            `json:"op"`
	A  []json.RawMessage `json:"a"`
}

func (s x15Step) str(i int) string {
	var v string
	if json.Unmarshal(s.A[i], &v) == nil {
		return v
	}
	return strings.Trim(string(s.A[i]), `"`)
}
func (s x15Step) num(i int) int {
	n, _ := strconv.Atoi(s.str(i))
	return n
}
func (s x15Step) strs(i int) []string {
	var v []string
	json.Unmarshal(s.A[i], &v)
	return v
}

type x15Scenario struct {
	ID    string    `json:"id"`
	Era   string    `json:"era"`
	Steps []x15Step `json:"steps"`
}

// one line of the log; every field on every line
type x15Line struct {
	Ev    string   `json:"ev"` // reset add reg begin mw h end step fin
	Trace string   `json:"trace"`
	Era   string   `json:"era"`
	Seq   int      `json:"seq"`
	R     int      `json:"r"`
	K     string   `json:"k"`
	Par   int      `json:"par"`
	P     string   `json:"p"`
	D     string   `json:"d"`
	Ids   []int    `json:"ids"`
	Behs  []string `json:"behs"`
	Mw    int      `json:"mw"`
	Ph    string   `json:"ph"`
	Pt    []int    `json:"pt"`
	Ok    bool     `json:"ok"`
	Src   int      `json:"src"`
	Rt    []int    `json:"rt"`
	Code  int      `json:"code"`
	Tok   string   `json:"tok"`
	Own   string   `json:"own"`
	Panic bool     `json:"panic"`
	H     int      `json:"h"`
	Ty    string   `json:"ty"`
	Op    string   `json:"op"`
	A     []string `json:"a"`
	Appl  bool     `json:"applied"`
	Obs   []x15Pos `json:"obs"`
	Msg   string   `json:"msg"`
}

type x15Pos struct {
	Sa   string `json:"sa"`
	Ra   string `json:"ra"`
	Done bool   `json:"done"`
	Ok   bool   `json:"ok"`
	Src  int    `json:"src"`
	Tags []int  `json:"tags"`
	Code int    `json:"code"`
}

type x15Gate struct {
	at  string
	ch  chan struct{}
	cmd chan func()
}

type x15Req struct {
	k    string
	par  int
	seen any // the progress token the handler serving this request found in it
	done bool
	out  x15Out
}

type x15Out struct {
	ok    bool
	src   int
	tags  []int
	code  int
	panic bool
	msg   string
}

type x15World struct {
	mu     sync.Mutex
	trace  string
	era    string
	out    *[]x15Line
	seq    int
	nmw    int
	reqs   []*x15Req // index r-1
	parked map[[2]string]*x15Gate
	server *Server
	client *Client
	ss     *ServerSession
	cs     *ClientSession
	open   bool // drain: gates created from now on are open
}

func (w *x15World) log(l x15Line) {
	w.mu.Lock()
	defer w.mu.Unlock()
	w.logLocked(l)
}

func (w *x15World) logLocked(l x15Line) {
	w.seq++
	l.Seq, l.Trace, l.Era = w.seq, w.trace, w.era
	if l.Ids == nil {
		l.Ids = []int{}
	}
	if l.Behs == nil {
		l.Behs = []string{}
	}
	if l.Pt == nil {
		l.Pt = []int{}
	}
	if l.Rt == nil {
		l.Rt = []int{}
	}
	if l.A == nil {
		l.A = []string{}
	}
	if l.Obs == nil {
		l.Obs = []x15Pos{}
	}
	*w.out = append(*w.out, l)
}

func x15Key(r int, side string) [2]string { return [2]string{strconv.Itoa(r), side} }

// park blocks the calling goroutine at a gate until the script opens it.  A handler gate (cmds = true) also executes
// the nested requests the script makes the handler issue.
func (w *x15World) park(r int, side, at string, cmds bool) {
	w.mu.Lock()
	if w.open {
		w.mu.Unlock()
		return
	}
	g := &x15Gate{at: at, ch: make(chan struct{})}
	if cmds {
		g.cmd = make(chan func())
	}
	w.parked[x15Key(r, side)] = g
	w.mu.Unlock()
	for {
		select {
		case <-g.ch:
			return
		case f := <-g.cmd:
			f()
		}
	}
}

func (w *x15World) release(r int, side string) bool {
	w.mu.Lock()
	g := w.parked[x15Key(r, side)]
	if g != nil {
		delete(w.parked, x15Key(r, side))
	}
	w.mu.Unlock()
	if g == nil {
		return false
	}
	close(g.ch)
	return true
}

// ---- markers and tags travel in _meta

func x15Ints(v any) []int {
	s, _ := v.(string)
	out := []int{}
	for _, f := range strings.Split(s, ".") {
		if n, err := strconv.Atoi(f); err == nil {
			out = append(out, n)
		}
	}
	return out
}

func x15Join(a []int) string {
	s := make([]string, len(a))
	for i, n := range a {
		s[i] = strconv.Itoa(n)
	}
	return strings.Join(s, ".")
}

func x15Num(v any) (int, bool) {
	switch n := v.(type) {
	case int:
		return n, true
	case float64:
		return int(n), true
	case json.Number:
		i, err := n.Int64()
		return int(i), err == nil
	}
	return 0, false
}

// marker returns the scenario request a message belongs to (0: none, e.g. the handshake)
func x15Marker(p Params) (r int) {
	defer func() {
		if recover() != nil {
			r = 0
		}
	}()
	if p == nil {
		return 0
	}
	m := p.GetMeta()
	if m == nil {
		return 0
	}
	n, _ := x15Num(m["x15"])
	return n
}

func x15AddTag(get func() map[string]any, set func(map[string]any), key string, id int) {
	m := get()
	if m == nil {
		m = map[string]any{}
	}
	m[key] = x15Join(append(x15Ints(m[key]), id))
	set(m)
}

func x15TokStr(v any) string {
	switch t := v.(type) {
	case nil:
		return "none"
	case string:
		return "s:" + t
	default:
		if n, ok := x15Num(v); ok {
			return "n:" + strconv.Itoa(n)
		}
		return fmt.Sprintf("?:%v", v)
	}
}

const (
	x15CodeUnreg   = 1
	x15CodeRefused = 2
	x15CodePanic   = 4999
)

func x15Outcome(res Result, err error) x15Out {
	if err != nil {
		var je *jsonrpc.Error
		switch {
		case errors.As(err, &je):
			return x15Out{code: int(je.Code), msg: err.Error()}
		case strings.Contains(err.Error(), "is not registered"):
			return x15Out{code: x15CodeUnreg, msg: err.Error()}
		case strings.Contains(err.Error(), "cannot be sent while serving"):
			return x15Out{code: x15CodeRefused, msg: err.Error()}
		}
		return x15Out{code: -1, msg: err.Error()}
	}
	o := x15Out{ok: true, tags: []int{}}
	if res == nil {
		return o
	}
	func() {
		defer func() { recover() }()
		if m := res.GetMeta(); m != nil {
			o.src, _ = x15Num(m["x15s"])
			o.tags = x15Ints(m["x15r"])
		}
	}()
	return o
}

func x15IsCall(k string) bool { return k == "cc" || k == "sc" }

func (w *x15World) kindOf(r int) string {
	w.mu.Lock()
	defer w.mu.Unlock()
	if r >= 1 && r <= len(w.reqs) {
		return w.reqs[r-1].k
	}
	return "?"
}

func x15SamplingResult(src int) *CreateMessageWithToolsResult {
	return &CreateMessageWithToolsResult{Meta: Meta{"x15s": src}, Content: []Content{&TextContent{Text: "x15"}}, Model: "m", Role: "assistant"}
}

// the user middleware: id, behaviour, the peer and the direction it is installed on
func (w *x15World) middleware(id int, beh, p, d string) Middleware {
	side := "s"
	if d == "recv" {
		side = "r"
	}
	return func(next MethodHandler) MethodHandler {
		return func(ctx context.Context, method string, req Request) (res Result, err error) {
			r := x15Marker(req.GetParams())
			if r == 0 {
				return next(ctx, method, req)
			}
			k := w.kindOf(r)
			params := req.GetParams()
			w.log(x15Line{Ev: "mw", R: r, K: k, P: p, D: d, Mw: id, Ph: "pre", Pt: x15Ints(params.GetMeta()["x15p"])})
			w.park(r, side, "pre:"+strconv.Itoa(id), false)
			panicked := false
			if beh == "short" {
				switch k {
				case "cc":
					res = &x15R{ResultBase: ResultBase{Meta: Meta{"x15s": 10 + id}}}
				case "sc":
					res = x15SamplingResult(10 + id)
				}
			} else {
				if beh == "tagp" {
					x15AddTag(params.GetMeta, params.SetMeta, "x15p", id)
				}
				func() {
					defer func() {
						if rec := recover(); rec != nil {
							panicked = true
							res, err = nil, &jsonrpc.Error{Code: x15CodePanic, Message: fmt.Sprint("panic: ", rec)}
						}
					}()
					res, err = next(ctx, method, req)
				}()
			}
			o := x15Outcome(res, err)
			w.log(x15Line{Ev: "mw", R: r, K: k, P: p, D: d, Mw: id, Ph: "post", Ok: o.ok, Src: o.src, Rt: o.tags, Code: o.code, Panic: panicked, Msg: o.msg})
			w.park(r, side, "post:"+strconv.Itoa(id), false)
			switch beh {
			case "tagr":
				if err == nil && res != nil && x15IsCall(k) {
					x15AddTag(res.GetMeta, res.SetMeta, "x15r", id)
				}
			case "fail":
				res, err = nil, &jsonrpc.Error{Code: int64(4000 + id), Message: "x15 fail"}
			}
			return res, err
		}
	}
}

// the method handler of request r has been reached (on peer p)
func (w *x15World) handler(r int, p string, hid int, params Params, tok any) {
	w.mu.Lock()
	if r >= 1 && r <= len(w.reqs) {
		w.reqs[r-1].seen = tok
	}
	w.mu.Unlock()
	w.log(x15Line{Ev: "h", R: r, K: w.kindOf(r), P: p, D: "recv", H: hid, Pt: x15Ints(params.GetMeta()["x15p"]), Tok: x15TokStr(tok)})
	w.park(r, "r", "h", true)
}

func x15CustomHandler[P interface {
	*T
	Params
}, T any](w *x15World, hid int) func(context.Context, *ServerSession, P) (*x15R, error) {
	return func(ctx context.Context, ss *ServerSession, p P) (*x15R, error) {
		r := x15Marker(p)
		if r != 0 {
			w.handler(r, "s", hid, p, p.GetMeta()["progressToken"])
		}
		return &x15R{ResultBase: ResultBase{Meta: Meta{"x15s": hid}}, Hits: []string{"h" + strconv.Itoa(hid)}}, nil
	}
}

func (w *x15World) setup(era string) error {
	w.server = NewServer(x15Impl, &ServerOptions{
		ProgressNotificationHandler: func(ctx context.Context, req *ProgressNotificationServerRequest) {
			if r := x15Marker(req.Params); r != 0 {
				w.handler(r, "s", 1, req.Params, req.Params.ProgressToken)
			}
		},
	})
	w.client = NewClient(x15Impl, &ClientOptions{
		ProgressNotificationHandler: func(ctx context.Context, req *ProgressNotificationClientRequest) {
			if r := x15Marker(req.Params); r != 0 {
				w.handler(r, "c", 1, req.Params, req.Params.ProgressToken)
			}
		},
		CreateMessageWithToolsHandler: func(ctx context.Context, req *CreateMessageWithToolsRequest) (*CreateMessageWithToolsResult, error) {
			if r := x15Marker(req.Params); r != 0 {
				w.handler(r, "c", 1, req.Params, req.Params.GetProgressToken())
			}
			return x15SamplingResult(1), nil
		},
	})
	t1, t2 := NewInMemoryTransports()
	ss, err := w.server.Connect(context.Background(), t1, nil)
	if err != nil {
		return err
	}
	var opts *ClientSessionOptions
	if era == "legacy" {
		opts = &ClientSessionOptions{ProtocolVersion: "2025-11-25"}
	}
	cs, err := w.client.Connect(context.Background(), t2, opts)
	if err != nil {
		return err
	}
	w.ss, w.cs = ss, cs
	got := "legacy"
	if cs.InitializeResult().ProtocolVersion >= "2026-07-28" {
		got = "modern"
	}
	if got != era {
		return fmt.Errorf("era %s negotiated instead of %s", got, era)
	}
	return nil
}

// issue runs request r on the calling goroutine: begin, the API call, end
func (w *x15World) issue(r int) {
	w.mu.Lock()
	q := w.reqs[r-1]
	var ptok any
	if q.par != 0 {
		ptok = w.reqs[q.par-1].seen
	}
	w.mu.Unlock()
	// a progress notification issued by a handler carries the token that handler FOUND in the request it serves
	var tok any = "free"
	if q.par != 0 {
		tok = ptok
	}
	// a call carries its own progress token: odd requests an integer, even ones a string
	var own any = r
	if r%2 == 0 {
		own = "t" + strconv.Itoa(r)
	}
	ownStr := "none"
	if x15IsCall(q.k) {
		ownStr = x15TokStr(own)
	}
	w.log(x15Line{Ev: "begin", R: r, K: q.k, Par: q.par, Tok: x15TokStr(tok), Own: ownStr})
	ctx := context.Background()
	var o x15Out
	func() {
		defer func() {
			if rec := recover(); rec != nil {
				o = x15Out{code: x15CodePanic, panic: true, msg: fmt.Sprint(rec)}
			}
		}()
		switch q.k {
		case "cc":
			res, err := CallCustomMethod[*x15PA, *x15R](ctx, w.cs, x15Method, &x15PA{ParamsBase: ParamsBase{Meta: Meta{"x15": r, "progressToken": own}}, Query: "q"})
			if err != nil {
				o = x15Outcome(nil, err)
			} else {
				o = x15Outcome(res, nil)
			}
		case "cn":
			o = x15Outcome(nil, w.cs.NotifyProgress(ctx, &ProgressNotificationParams{Meta: Meta{"x15": r}, ProgressToken: tok, Progress: 1}))
		case "sc":
			res, err := w.ss.CreateMessageWithTools(ctx, &CreateMessageWithToolsParams{Meta: Meta{"x15": r, "progressToken": own}, MaxTokens: 8,
				Messages: []*SamplingMessageV2{{Role: "user", Content: []Content{&TextContent{Text: "hi"}}}}})
			if err != nil {
				o = x15Outcome(nil, err)
			} else {
				o = x15Outcome(res, nil)
			}
		case "sn":
			o = x15Outcome(nil, w.ss.NotifyProgress(ctx, &ProgressNotificationParams{Meta: Meta{"x15": r}, ProgressToken: tok, Progress: 1}))
		}
	}()
	w.mu.Lock()
	q.done, q.out = true, o
	w.logLocked(x15Line{Ev: "end", R: r, K: q.k, Ok: o.ok, Src: o.src, Rt: o.tags, Code: o.code, Panic: o.panic, Msg: o.msg})
	w.mu.Unlock()
}

func (w *x15World) positions() []x15Pos {
	w.mu.Lock()
	defer w.mu.Unlock()
	out := make([]x15Pos, len(w.reqs))
	for i, q := range w.reqs {
		p := x15Pos{Sa: "-", Ra: "-", Tags: []int{}}
		if g := w.parked[x15Key(i+1, "s")]; g != nil {
			p.Sa = g.at
		}
		if g := w.parked[x15Key(i+1, "r")]; g != nil {
			p.Ra = g.at
		}
		if q.done {
			p.Done, p.Ok, p.Src, p.Code = true, q.out.ok, q.out.src, q.out.code
			if q.out.tags != nil {
				p.Tags = q.out.tags
			}
		}
		out[i] = p
	}
	return out
}

func (w *x15World) openChild(par int) bool {
	for _, q := range w.reqs {
		if q.par == par && !q.done {
			return true
		}
	}
	return false
}

// apply executes one action of the script; false: not applicable in the real state
func (w *x15World) apply(st x15Step) bool {
	switch st.Op {
	case "Add":
		p, d, behs := st.str(0), st.str(1), st.strs(2)
		ids := make([]int, len(behs))
		mws := make([]Middleware, len(behs))
		w.mu.Lock()
		for i, b := range behs {
			w.nmw++
			ids[i] = w.nmw
			mws[i] = w.middleware(w.nmw, b, p, d)
		}
		w.mu.Unlock()
		switch p + "." + d {
		case "c.send":
			w.client.AddSendingMiddleware(mws...)
		case "c.recv":
			w.client.AddReceivingMiddleware(mws...)
		case "s.send":
			w.server.AddSendingMiddleware(mws...)
		case "s.recv":
			w.server.AddReceivingMiddleware(mws...)
		}
		w.log(x15Line{Ev: "add", P: p, D: d, Ids: ids, Behs: behs})
		return true
	case "RegSend":
		err := AddSendingCustomMethod[*x15PA, *x15R](w.client, x15Method)
		w.log(x15Line{Ev: "reg", P: "c", Ok: err == nil})
		return err == nil
	case "RegRecv":
		h, ty := st.num(0), st.str(1)
		var err error
		if ty == "B" {
			err = AddReceivingCustomMethod(w.server, x15Method, x15CustomHandler[*x15PB](w, h))
		} else {
			err = AddReceivingCustomMethod(w.server, x15Method, x15CustomHandler[*x15PA](w, h))
		}
		w.log(x15Line{Ev: "reg", P: "s", H: h, Ty: ty, Ok: err == nil})
		return err == nil
	case "Start":
		k, par := st.str(0), st.num(1)
		w.mu.Lock()
		r := len(w.reqs) + 1
		var pg *x15Gate
		if par != 0 {
			pg = w.parked[x15Key(par, "r")]
			if pg == nil || pg.at != "h" || pg.cmd == nil || w.openChild(par) {
				w.mu.Unlock()
				return false
			}
		}
		w.reqs = append(w.reqs, &x15Req{k: k, par: par})
		w.mu.Unlock()
		if pg != nil {
			pg.cmd <- func() { w.issue(r) }
		} else {
			go w.issue(r)
		}
		return true
	case "Step":
		r, sd := st.num(0), st.str(1)
		w.mu.Lock()
		g := w.parked[x15Key(r, sd)]
		blocked := g != nil && g.at == "h" && w.openChild(r)
		w.mu.Unlock()
		if g == nil || blocked {
			return false
		}
		return w.release(r, sd)
	case "Nop":
		return true
	}
	return false
}

func (w *x15World) stepLine(st x15Step, applied bool) {
	a := make([]string, len(st.A))
	for i := range st.A {
		a[i] = st.str(i)
	}
	if st.Op == "Add" {
		a = append([]string{st.str(0), st.str(1)}, st.strs(2)...)
	}
	w.log(x15Line{Ev: "step", Op: st.Op, A: a, Appl: applied, Obs: w.positions()})
}

func x15RawStep(op string, args ...string) x15Step {
	st := x15Step{Op: op}
	for _, a := range args {
		b, _ := json.Marshal(a)
		st.A = append(st.A, b)
	}
	return st
}

func x15RunScenario(t *testing.T, sc x15Scenario, out *[]x15Line) {
	w := &x15World{trace: sc.ID, era: sc.Era, out: out, parked: map[[2]string]*x15Gate{}}
	w.log(x15Line{Ev: "reset"})
	if err := w.setup(sc.Era); err != nil {
		w.log(x15Line{Ev: "setup-failed", Msg: err.Error()})
		return
	}
	synctest.Wait()
	for _, st := range sc.Steps {
		if st.Op == "Nop" {
			continue
		}
		ok := w.apply(st)
		synctest.Wait()
		w.stepLine(st, ok)
	}
	// drain, stage 1: open the gates one at a time, lowest request first, send side first; every release is a Step
	for n := 0; n < 400; n++ {
		w.mu.Lock()
		var pick *[2]string
		keys := make([][2]string, 0, len(w.parked))
		for k := range w.parked {
			keys = append(keys, k)
		}
		sort.Slice(keys, func(i, j int) bool {
			a, _ := strconv.Atoi(keys[i][0])
			b, _ := strconv.Atoi(keys[j][0])
			if a != b {
				return a < b
			}
			return keys[i][1] > keys[j][1]
		})
		for i := range keys {
			r, _ := strconv.Atoi(keys[i][0])
			if w.parked[keys[i]].at == "h" && w.openChild(r) {
				continue
			}
			pick = &keys[i]
			break
		}
		w.mu.Unlock()
		if pick == nil {
			break
		}
		st := x15RawStep("Step", pick[0], pick[1])
		ok := w.apply(st)
		synctest.Wait()
		w.stepLine(st, ok)
	}
	time.Sleep(time.Minute)
	synctest.Wait()
	w.mu.Lock()
	stuck := len(w.parked)
	for _, q := range w.reqs {
		if !q.done {
			stuck++
		}
	}
	w.open = true
	w.mu.Unlock()
	w.log(x15Line{Ev: "fin", Code: stuck})
	// stage 2: clean up
	for k := range w.parked {
		r, _ := strconv.Atoi(k[0])
		w.release(r, k[1])
	}
	w.cs.Close()
	w.ss.Wait()
	time.Sleep(time.Hour)
}

func TestVerif_X15(t *testing.T) {
	in, outp := os.Getenv("VERIF_IN"), os.Getenv("VERIF_OUT")
	if in == "" || outp == "" {
		t.Skip("VERIF_IN / VERIF_OUT not set")
	}
	f, err := os.Open(in)
	if err != nil {
		t.Fatal(err)
	}
	defer f.Close()
	of, err := os.Create(outp)
	if err != nil {
		t.Fatal(err)
	}
	defer of.Close()
	bw := bufio.NewWriterSize(of, 1<<20)
	defer bw.Flush()
	enc := json.NewEncoder(bw)
	scan := bufio.NewScanner(f)
	scan.Buffer(make([]byte, 1<<20), 1<<26)
	for scan.Scan() {
		if len(bytes.TrimSpace(scan.Bytes())) == 0 {
			continue
		}
		var sc x15Scenario
		if err := json.Unmarshal(scan.Bytes(), &sc); err != nil {
			t.Fatalf("bad scenario: %v", err)
		}
		var lines []x15Line
		func() {
			defer func() {
				if rec := recover(); rec != nil {
					lines = append(lines, x15Line{Ev: "panic", Trace: sc.ID, Era: sc.Era, Msg: fmt.Sprint(rec), Ids: []int{}, Behs: []string{}, Pt: []int{}, Rt: []int{}, A: []string{}, Obs: []x15Pos{}})
				}
			}()
			synctest.Test(t, func(t *testing.T) { x15RunScenario(t, sc, &lines) })
		}()
		for _, l := range lines {
			enc.Encode(l)
		}
	}
}


// ===========================================================================
// Part (b): the decision tables

type x15Case struct {
	T        string `json:"t"`
	Meth     string `json:"meth,omitempty"`
	ID       string `json:"id,omitempty"`
	Params   string `json:"params,omitempty"`
	Hret     string `json:"hret,omitempty"`
	Era      string `json:"era,omitempty"`
	Ans      string `json:"ans,omitempty"`
	Dir      string `json:"dir,omitempty"`
	Via      string `json:"via,omitempty"`
	Tok      string `json:"tok,omitempty"`
	Tgt      string `json:"tgt,omitempty"`
	G        int    `json:"g,omitempty"`
	Calls    int    `json:"calls,omitempty"`
	Len      int    `json:"len,omitempty"`
	Inflight bool   `json:"inflight,omitempty"`
	What     string `json:"what,omitempty"`
}

const x15Wait = 20 * time.Second // real time; only ever waited out when something is wrong

func x15Pick(rng *rand.Rand, xs ...string) string { return xs[rng.IntN(len(xs))] }

// ---- a raw JSON-RPC peer talking to a real Server over an IOTransport

type x15Raw struct {
	w     *io.PipeWriter
	lines chan map[string]json.RawMessage
}

func x15NewRaw(s *Server) (*x15Raw, *ServerSession, error) {
	sr, cw := io.Pipe()
	cr, sw := io.Pipe()
	ss, err := s.Connect(context.Background(), &IOTransport{Reader: sr, Writer: sw}, nil)
	if err != nil {
		return nil, nil, err
	}
	p := &x15Raw{w: cw, lines: make(chan map[string]json.RawMessage, 64)}
	go func() {
		defer close(p.lines)
		sc := bufio.NewScanner(cr)
		sc.Buffer(make([]byte, 1<<16), 1<<24)
		for sc.Scan() {
			var m map[string]json.RawMessage
			if json.Unmarshal(sc.Bytes(), &m) == nil {
				p.lines <- m
			}
		}
	}()
	return p, ss, nil
}

func (p *x15Raw) send(line string) error {
	_, err := p.w.Write([]byte(line + "\n"))
	return err
}

// until reads messages until the response with the given id has arrived (false: timeout / closed)
func (p *x15Raw) until(id string, each func(map[string]json.RawMessage)) bool {
	to := time.After(x15Wait)
	for {
		select {
		case m, ok := <-p.lines:
			if !ok {
				return false
			}
			if _, isReq := m["method"]; !isReq && string(m["id"]) == id {
				return true
			}
			each(m)
		case <-to:
			return false
		}
	}
}

func (p *x15Raw) handshake() bool {
	p.send(`{"jsonrpc":"2.0","id":1,"method":"initialize","params":{"protocolVersion":"2025-11-25","capabilities":{},"clientInfo":{"name":"raw","version":"1"}}}`)
	if !p.until("1", func(map[string]json.RawMessage) {}) {
		return false
	}
	p.send(`{"jsonrpc":"2.0","method":"notifications/initialized"}`)
	return true
}

// ---- table R

type x15RO struct {
	Reg     string `json:"reg"`
	Replies int    `json:"replies"`
	Kind    string `json:"kind"`
	Code    int    `json:"code"`
	Ran     int    `json:"ran"`
	Pseen   string `json:"pseen"`
	Src     string `json:"src"`
	Alive   bool   `json:"alive"`
	Panic   string `json:"panic"`
}

func x15RunR(c x15Case, rng *rand.Rand) (x15RO, string) {
	o := x15RO{Reg: "na", Kind: "none", Pseen: "-", Src: "none"}
	query := x15Pick(rng, "q", "hello world", "日本", "a\"b")
	qj, _ := json.Marshal(query)
	var mu sync.Mutex
	s := NewServer(x15Impl, nil)
	handler := func(ctx context.Context, ss *ServerSession, p *x15PA) (*x15R, error) {
		mu.Lock()
		o.Ran++
		switch {
		case p == nil:
			o.Pseen = "nil"
		case p.Query == "" && len(p.Meta) == 0:
			o.Pseen = "zero"
		case p.Query == query && p.Meta["k"] == "v":
			o.Pseen = "meta"
		case p.Query == query && len(p.Meta) == 0:
			o.Pseen = "valid"
		default:
			o.Pseen = "other"
		}
		mu.Unlock()
		switch c.Hret {
		case "res":
			return &x15R{Hits: []string{"custom"}}, nil
		case "rpcerr":
			return nil, &jsonrpc.Error{Code: 4242, Message: "handler says no"}
		}
		return nil, errors.New("boom")
	}
	name := ""
	switch c.Meth {
	case "custom":
		name = x15Pick(rng, "x/do", "acme/search", "x")
	case "unreg":
		name = x15Pick(rng, "x/none", "tools/lists", "acme")
	case "std":
		name = x15Pick(rng, "tools/list", "prompts/list", "resources/list", "resources/templates/list")
	case "peerstd":
		name = x15Pick(rng, "roots/list", "sampling/createMessage", "elicitation/create")
	case "notifname":
		name = x15Pick(rng, "notifications/x/ev", "notifications/acme")
	}
	if c.Meth != "unreg" {
		if err := AddReceivingCustomMethod(s, name, handler); err != nil {
			o.Reg = "refused"
		} else {
			o.Reg = "ok"
		}
	}
	p, ss, err := x15NewRaw(s)
	if err != nil {
		return o, "connect: " + err.Error()
	}
	defer func() { p.w.Close(); ss.Close() }()
	if !p.handshake() {
		return o, "handshake failed"
	}
	params := ""
	switch c.Params {
	case "null":
		params = `,"params":null`
	case "empty":
		params = `,"params":{}`
	case "valid":
		params = `,"params":{"query":` + string(qj) + `}`
	case "meta":
		params = `,"params":{"_meta":{"k":"v"},"query":` + string(qj) + `}`
	case "wrongtype":
		params = `,"params":{"query":5,"cursor":5}`
	case "array":
		params = `,"params":` + x15Pick(rng, `[1]`, `[]`, `["q"]`)
	case "scalar":
		params = `,"params":` + x15Pick(rng, `5`, `"s"`, `true`)
	}
	id := ""
	if c.ID == "call" {
		id = `"id":7,`
	}
	mj, _ := json.Marshal(name)
	p.send(`{"jsonrpc":"2.0",` + id + `"method":` + string(mj) + params + `}`)
	note := ""
	count := func(m map[string]json.RawMessage) {
		if _, isReq := m["method"]; isReq {
			return
		}
		o.Replies++
		if string(m["id"]) != "7" {
			note = "reply with id " + string(m["id"])
			o.Replies += 10
		}
		if e, ok := m["error"]; ok {
			var we struct{ Code int }
			json.Unmarshal(e, &we)
			o.Kind, o.Code = "error", we.Code
		} else {
			o.Kind = "result"
			var r struct{ Hits []string }
			json.Unmarshal(m["result"], &r)
			if len(r.Hits) == 1 && r.Hits[0] == "custom" {
				o.Src = "custom"
			} else {
				o.Src = "builtin"
			}
		}
	}
	// the answer (if any) and everything else the server writes arrives before the answers to two later pings
	alive := true
	for _, pid := range []string{"98", "99"} {
		if c.ID == "call" && o.Replies == 0 && pid == "98" {
			// give the (asynchronous) call time to be answered first
			to := time.After(x15Wait)
		wait:
			for o.Replies == 0 {
				select {
				case m, ok := <-p.lines:
					if !ok {
						break wait
					}
					count(m)
				case <-to:
					break wait
				}
			}
		}
		p.send(`{"jsonrpc":"2.0","id":` + pid + `,"method":"ping"}`)
		alive = p.until(pid, count) && alive
	}
	mu.Lock()
	defer mu.Unlock()
	o.Alive = alive
	return o, note
}

// ---- table S

type x15SO struct {
	Reg     string `json:"reg"`
	Ret     string `json:"ret"`
	Val     string `json:"val"`
	Code    int    `json:"code"`
	Wrote   int    `json:"wrote"`
	Wid     bool   `json:"wid"`
	Wparams string `json:"wparams"`
	Wmeta   bool   `json:"wmeta"`
	Wfield  bool   `json:"wfield"`
	Mw      string `json:"mw"`
}

type x15Buf struct {
	mu sync.Mutex
	b  bytes.Buffer
}

func (b *x15Buf) Write(p []byte) (int, error) {
	b.mu.Lock()
	defer b.mu.Unlock()
	return b.b.Write(p)
}
func (b *x15Buf) String() string {
	b.mu.Lock()
	defer b.mu.Unlock()
	return b.b.String()
}

func x15RunS(c x15Case, rng *rand.Rand) (x15SO, string) {
	o := x15SO{Reg: "na", Ret: "error", Val: "na", Code: 1, Wparams: "na", Mw: "na"}
	name := ""
	switch c.Meth {
	case "custom":
		name = x15Pick(rng, "x/do", "acme/search")
	case "unreg":
		name = x15Pick(rng, "x/none", "acme")
	case "std", "builtin":
		name = "tools/list"
	case "peerstd":
		name = x15Pick(rng, "roots/list", "sampling/createMessage")
	case "notifname":
		name = x15Pick(rng, "notifications/x/ev", "notifications/acme")
	}
	t1, t2 := NewInMemoryTransports()
	pc, err := t1.Connect(context.Background())
	if err != nil {
		return o, err.Error()
	}
	answer := map[string]string{
		"valid": `{"hits":["a"],"tools":[],"nextCursor":"n1"}`, "null": `null`, "empty": `{}`, "other": `{"other":1}`,
		"wrongtype": `{"hits":5,"tools":5}`, "array": `[1]`,
	}
	peerDone := make(chan struct{})
	go func() {
		defer close(peerDone)
		for {
			m, err := pc.Read(context.Background())
			if err != nil {
				return
			}
			r, ok := m.(*jsonrpc.Request)
			if !ok || !r.ID.IsValid() {
				continue
			}
			resp := &jsonrpc.Response{ID: r.ID}
			switch {
			case r.Method == "initialize":
				resp.Result = json.RawMessage(`{"protocolVersion":"2025-11-25","capabilities":{"tools":{}},"serverInfo":{"name":"peer","version":"1"}}`)
			case r.Method == "server/discover":
				resp.Result = json.RawMessage(`{"supportedVersions":["2026-07-28","2025-11-25"],"capabilities":{"tools":{}},"_meta":{"io.modelcontextprotocol/serverInfo":{"name":"peer","version":"1"}}}`)
			case c.Ans == "error":
				resp.Error = &jsonrpc.Error{Code: 4242, Message: "peer says no"}
			default:
				resp.Result = json.RawMessage(answer[c.Ans])
			}
			pc.Write(context.Background(), resp)
		}
	}()
	client := NewClient(x15Impl, nil)
	client.AddSendingMiddleware(func(next MethodHandler) MethodHandler {
		return func(ctx context.Context, method string, req Request) (Result, error) {
			if method == name {
				p := req.GetParams()
				if p == nil {
					o.Mw = "nil"
				} else {
					func() {
						defer func() {
							if recover() != nil {
								o.Mw = "typednil"
							}
						}()
						p.GetMeta()
						o.Mw = "ok"
					}()
				}
			}
			return next(ctx, method, req)
		}
	})
	if c.Meth != "unreg" && c.Meth != "builtin" {
		if err := AddSendingCustomMethod[*x15PA, *x15R](client, name); err != nil {
			o.Reg = "refused"
		} else {
			o.Reg = "ok"
		}
	}
	var wire x15Buf
	var opts *ClientSessionOptions
	if c.Era == "legacy" {
		opts = &ClientSessionOptions{ProtocolVersion: "2025-11-25"}
	}
	cs, err := client.Connect(context.Background(), &LoggingTransport{Transport: t2, Writer: &wire}, opts)
	if err != nil {
		pc.Close()
		return o, "connect: " + err.Error()
	}
	if got := cs.InitializeResult().ProtocolVersion >= "2026-07-28"; got != (c.Era == "modern") {
		cs.Close()
		pc.Close()
		return o, "wrong era"
	}
	ctx, cancel := context.WithTimeout(context.Background(), x15Wait)
	defer cancel()
	query := x15Pick(rng, "q", "two words", "ü")
	note := ""
	func() {
		defer func() {
			if rec := recover(); rec != nil {
				o.Ret, o.Val, o.Code = "panic", "na", 0
				note = fmt.Sprint(rec)
			}
		}()
		var err error
		isNil := false
		if c.Meth == "builtin" {
			var p *ListToolsParams
			switch c.Params {
			case "zero":
				p = &ListToolsParams{}
			case "valid":
				p = &ListToolsParams{Cursor: query}
			}
			var res *ListToolsResult
			res, err = cs.ListTools(ctx, p)
			isNil = res == nil
			if res != nil {
				o.Val = "zero"
				if res.NextCursor == "n1" {
					o.Val = "valid"
				} else if res.NextCursor != "" || len(res.Tools) != 0 {
					o.Val = "other"
				}
			}
		} else {
			var p *x15PA
			switch c.Params {
			case "zero":
				p = &x15PA{}
			case "valid":
				p = &x15PA{Query: query}
			}
			var res *x15R
			res, err = CallCustomMethod[*x15PA, *x15R](ctx, cs, name, p)
			isNil = res == nil
			if res != nil {
				o.Val = "zero"
				if len(res.Hits) == 1 && res.Hits[0] == "a" {
					o.Val = "valid"
				} else if len(res.Hits) != 0 {
					o.Val = "other"
				}
			}
		}
		switch {
		case err == nil && isNil:
			o.Ret, o.Code = "nilnil", 0
		case err == nil:
			o.Ret, o.Code = "result", 0
		default:
			o.Ret, o.Val, o.Code = "error", "na", 1
			var je *jsonrpc.Error
			if errors.As(err, &je) {
				o.Code = int(je.Code)
			}
			if ctx.Err() != nil {
				note = "timeout"
			}
		}
	}()
	cs.Close()
	pc.Close()
	<-peerDone
	// what was written for this method
	for _, line := range strings.Split(wire.String(), "\n") {
		rest, ok := strings.CutPrefix(line, "write: ")
		if !ok {
			continue
		}
		var m map[string]json.RawMessage
		if json.Unmarshal([]byte(rest), &m) != nil {
			continue
		}
		var meth string
		json.Unmarshal(m["method"], &meth)
		if meth != name {
			continue
		}
		o.Wrote++
		_, o.Wid = m["id"]
		raw, has := m["params"]
		switch {
		case !has:
			o.Wparams = "absent"
		case string(raw) == "null":
			o.Wparams = "null"
		case len(raw) > 0 && raw[0] == '{':
			o.Wparams = "object"
			var pp struct {
				Meta   map[string]json.RawMessage `json:"_meta"`
				Query  string                     `json:"query"`
				Cursor string                     `json:"cursor"`
			}
			json.Unmarshal(raw, &pp)
			_, o.Wmeta = pp.Meta["io.modelcontextprotocol/protocolVersion"]
			o.Wfield = pp.Query == query || pp.Cursor == query
		default:
			o.Wparams = "other"
		}
	}
	return o, note
}

// ---- table G

type x15GO struct {
	N    int    `json:"n"`
	Eq   bool   `json:"eq"`
	Kind string `json:"kind"`
}

func x15GoTok(class string, rng *rand.Rand) any {
	switch class {
	case "str":
		return x15Pick(rng, "tok-abc", "p/1", "a b")
	case "strempty":
		return ""
	case "strnum":
		return x15Pick(rng, "7", "9007199254740993", "1e2")
	case "struni":
		return x15Pick(rng, "токен-✓", "進捗", "a\"b\\c")
	case "int0":
		return 0
	case "intsmall":
		return 1 + rng.IntN(1000)
	case "intneg":
		return -1 - rng.IntN(1000)
	case "int32":
		return int32(100000 + rng.IntN(1000))
	case "pow53":
		return int64(1) << 53
	case "pow53p1":
		return int64(1)<<53 + 1 + 2*int64(rng.IntN(4))
	case "maxint64":
		return int64(1<<63 - 1)
	case "minint64":
		return int64(-1 << 63)
	}
	return nil
}

func x15RawTok(class string) string {
	switch class {
	case "rawstr":
		return `"tok"`
	case "raw1.0":
		return `1.0`
	case "raw1e2":
		return `1e2`
	case "rawneg0":
		return `-0`
	case "rawpow53":
		return `9007199254740992`
	case "rawpow53p1":
		return `9007199254740993`
	case "rawbig20":
		return `12345678901234567890`
	}
	return `null`
}

// x15SameTok compares a token as JSON text with the token sent (JSON text): same string, or exactly the same number
func x15SameTok(sent, got string) (eq bool, kind string) {
	kind = "other"
	if strings.HasPrefix(got, `"`) {
		kind = "string"
	} else if got != "" && (got[0] == '-' || (got[0] >= '0' && got[0] <= '9')) {
		kind = "number"
	}
	if strings.HasPrefix(sent, `"`) || kind == "string" {
		var a, b string
		if json.Unmarshal([]byte(sent), &a) != nil || json.Unmarshal([]byte(got), &b) != nil {
			return false, kind
		}
		return a == b && strings.HasPrefix(sent, `"`) && kind == "string", kind
	}
	a, ok1 := new(big.Rat).SetString(sent)
	b, ok2 := new(big.Rat).SetString(got)
	return ok1 && ok2 && a.Cmp(b) == 0, kind
}

// x15TokJSON renders a token a Go handler received (string / float64 / ...) exactly
func x15TokJSON(v any) string {
	switch t := v.(type) {
	case float64:
		return new(big.Float).SetFloat64(t).Text('f', -1)
	case nil:
		return "null"
	}
	b, err := json.Marshal(v)
	if err != nil {
		return "null"
	}
	return string(b)
}

func x15RunG(c x15Case, rng *rand.Rand) (x15GO, string) {
	var mu sync.Mutex
	var got []string
	record := func(v any) {
		mu.Lock()
		got = append(got, x15TokJSON(v))
		mu.Unlock()
	}
	waitOne := func() {
		dl := time.Now().Add(x15Wait)
		for time.Now().Before(dl) {
			mu.Lock()
			n := len(got)
			mu.Unlock()
			if n > 0 {
				break
			}
			time.Sleep(time.Millisecond)
		}
		time.Sleep(5 * time.Millisecond)
	}
	ctx := context.Background()
	s := NewServer(x15Impl, &ServerOptions{ProgressNotificationHandler: func(ctx context.Context, req *ProgressNotificationServerRequest) {
		record(req.Params.ProgressToken)
	}})
	s.AddTool(&Tool{Name: "t", InputSchema: json.RawMessage(`{"type":"object"}`)}, func(ctx context.Context, req *CallToolRequest) (*CallToolResult, error) {
		if tok := req.Params.GetProgressToken(); tok != nil {
			req.Session.NotifyProgress(ctx, &ProgressNotificationParams{ProgressToken: tok, Progress: 1, Message: "working"})
		}
		return &CallToolResult{Content: []Content{&TextContent{Text: "ok"}}}, nil
	})
	AddReceivingCustomMethod(s, x15Method, func(ctx context.Context, ss *ServerSession, p *x15PA) (*x15R, error) {
		if p != nil {
			if tok := p.GetMeta()["progressToken"]; tok != nil {
				ss.NotifyProgress(ctx, &ProgressNotificationParams{ProgressToken: tok, Progress: 1})
			}
		}
		return &x15R{Hits: []string{"custom"}}, nil
	})
	sent := ""
	note := ""
	if c.Dir == "raw" {
		p, ss, err := x15NewRaw(s)
		if err != nil {
			return x15GO{Kind: "other"}, err.Error()
		}
		defer func() { p.w.Close(); ss.Close() }()
		if !p.handshake() {
			return x15GO{Kind: "other"}, "handshake failed"
		}
		sent = x15RawTok(c.Tok)
		if c.Via == "tool" {
			p.send(`{"jsonrpc":"2.0","id":7,"method":"tools/call","params":{"name":"t","arguments":{},"_meta":{"progressToken":` + sent + `}}}`)
		} else {
			p.send(`{"jsonrpc":"2.0","id":7,"method":"x/do","params":{"query":"q","_meta":{"progressToken":` + sent + `}}}`)
		}
		grab := func(m map[string]json.RawMessage) {
			var meth string
			json.Unmarshal(m["method"], &meth)
			if meth == "notifications/progress" {
				var pp struct {
					ProgressToken json.RawMessage `json:"progressToken"`
				}
				json.Unmarshal(m["params"], &pp)
				mu.Lock()
				got = append(got, string(pp.ProgressToken))
				mu.Unlock()
			}
		}
		if !p.until("7", grab) {
			note = "no response"
		}
		p.send(`{"jsonrpc":"2.0","id":99,"method":"ping"}`)
		p.until("99", grab)
	} else {
		client := NewClient(x15Impl, &ClientOptions{
			ProgressNotificationHandler: func(ctx context.Context, req *ProgressNotificationClientRequest) { record(req.Params.ProgressToken) },
			CreateMessageWithToolsHandler: func(ctx context.Context, req *CreateMessageWithToolsRequest) (*CreateMessageWithToolsResult, error) {
				if tok := req.Params.GetProgressToken(); tok != nil {
					req.Session.NotifyProgress(ctx, &ProgressNotificationParams{ProgressToken: tok, Progress: 1})
				}
				return x15SamplingResult(1), nil
			},
		})
		AddSendingCustomMethod[*x15PA, *x15R](client, x15Method)
		t1, t2 := NewInMemoryTransports()
		ss, err := s.Connect(ctx, t1, nil)
		if err != nil {
			return x15GO{Kind: "other"}, err.Error()
		}
		var opts *ClientSessionOptions
		if c.Era == "legacy" {
			opts = &ClientSessionOptions{ProtocolVersion: "2025-11-25"}
		}
		cs, err := client.Connect(ctx, t2, opts)
		if err != nil {
			return x15GO{Kind: "other"}, err.Error()
		}
		defer func() { cs.Close(); ss.Wait() }()
		tok := x15GoTok(c.Tok, rng)
		b, _ := json.Marshal(tok)
		sent = string(b)
		cctx, cancel := context.WithTimeout(ctx, x15Wait)
		defer cancel()
		switch {
		case c.Dir == "s2c":
			p := &CreateMessageWithToolsParams{MaxTokens: 8, Messages: []*SamplingMessageV2{{Role: "user", Content: []Content{&TextContent{Text: "hi"}}}}}
			p.SetProgressToken(tok)
			_, err = ss.CreateMessageWithTools(cctx, p)
		case c.Via == "tool":
			p := &CallToolParams{Name: "t"}
			p.SetProgressToken(tok)
			_, err = cs.CallTool(cctx, p)
		default:
			_, err = CallCustomMethod[*x15PA, *x15R](cctx, cs, x15Method, &x15PA{ParamsBase: ParamsBase{Meta: Meta{"progressToken": tok}}, Query: "q"})
		}
		if err != nil {
			note = "call failed: " + err.Error()
		}
		waitOne()
	}
	mu.Lock()
	defer mu.Unlock()
	o := x15GO{N: len(got), Kind: "other"}
	if len(got) > 0 {
		o.Eq, o.Kind = x15SameTok(sent, got[0])
		if !o.Eq {
			note += " sent " + sent + " got " + got[0]
		}
	}
	return o, note
}

// ---- table A

type x15AO struct {
	Order [][]int `json:"order"`
	Stale int     `json:"stale"`
}

func x15RunA(c x15Case, rng *rand.Rand) (x15AO, string) {
	o := x15AO{Order: [][]int{}}
	ctx := context.Background()
	var mu sync.Mutex
	stale := 0
	marker := func(req Request) int { return x15Marker(req.GetParams()) }
	mk := func(g, n, k int) Middleware {
		return func(next MethodHandler) MethodHandler {
			return func(ctx context.Context, method string, req Request) (Result, error) {
				switch marker(req) {
				case 1:
					mu.Lock()
					o.Order = append(o.Order, []int{g, n, k})
					mu.Unlock()
				case 2:
					mu.Lock()
					stale++
					mu.Unlock()
				}
				return next(ctx, method, req)
			}
		}
	}
	parked, gate := make(chan struct{}), make(chan struct{})
	m0 := func(next MethodHandler) MethodHandler {
		return func(ctx context.Context, method string, req Request) (Result, error) {
			if marker(req) == 2 {
				close(parked)
				<-gate
			}
			return next(ctx, method, req)
		}
	}
	s := NewServer(x15Impl, nil)
	client := NewClient(x15Impl, nil)
	add := func(mws ...Middleware) {
		switch c.Tgt {
		case "c.send":
			client.AddSendingMiddleware(mws...)
		case "c.recv":
			client.AddReceivingMiddleware(mws...)
		case "s.send":
			s.AddSendingMiddleware(mws...)
		case "s.recv":
			s.AddReceivingMiddleware(mws...)
		}
	}
	if c.Inflight {
		add(m0)
	}
	t1, t2 := NewInMemoryTransports()
	ss, err := s.Connect(ctx, t1, nil)
	if err != nil {
		return o, err.Error()
	}
	cs, err := client.Connect(ctx, t2, &ClientSessionOptions{ProtocolVersion: "2025-11-25"})
	if err != nil {
		return o, err.Error()
	}
	defer func() { cs.Close(); ss.Wait() }()
	probe := func(mark int) error {
		cctx, cancel := context.WithTimeout(ctx, x15Wait)
		defer cancel()
		if c.Tgt == "c.send" || c.Tgt == "s.recv" {
			_, err := cs.ListTools(cctx, &ListToolsParams{Meta: Meta{"x15": mark}})
			return err
		}
		_, err := ss.ListRoots(cctx, &ListRootsParams{Meta: Meta{"x15": mark}})
		return err
	}
	flying := make(chan error, 1)
	if c.Inflight {
		go func() { flying <- probe(2) }()
		select {
		case <-parked:
		case <-time.After(x15Wait):
			return o, "the request in flight never reached the gate"
		}
	}
	start := make(chan struct{})
	var wg sync.WaitGroup
	for g := 1; g <= c.G; g++ {
		wg.Add(1)
		go func(g int) {
			defer wg.Done()
			<-start
			for n := 1; n <= c.Calls; n++ {
				mws := make([]Middleware, c.Len)
				for k := 1; k <= c.Len; k++ {
					mws[k-1] = mk(g, n, k)
				}
				add(mws...)
			}
		}(g)
	}
	close(start)
	wg.Wait()
	note := ""
	if c.Inflight {
		close(gate)
		if err := <-flying; err != nil {
			note = "in flight: " + err.Error()
		}
	}
	if err := probe(1); err != nil {
		note += " probe: " + err.Error()
	}
	mu.Lock()
	defer mu.Unlock()
	o.Stale = stale
	return o, note
}

type x15TabLine struct {
	C    json.RawMessage `json:"c"`
	O    any     `json:"o"`
	Note string  `json:"note"`
	Rep  int     `json:"rep"`
}

func TestVerif_X15Table(t *testing.T) {
	in, outp := os.Getenv("VERIF_TAB_IN"), os.Getenv("VERIF_TAB_OUT")
	if in == "" || outp == "" {
		t.Skip("VERIF_TAB_IN / VERIF_TAB_OUT not set")
	}
	reps, _ := strconv.Atoi(os.Getenv("VERIF_TAB_REPS"))
	if reps < 1 {
		reps = 1
	}
	data, err := os.ReadFile(in)
	if err != nil {
		t.Fatal(err)
	}
	of, err := os.Create(outp)
	if err != nil {
		t.Fatal(err)
	}
	defer of.Close()
	enc := json.NewEncoder(of)
	var cases []x15Case
	var raws []json.RawMessage
	for _, ln := range bytes.Split(data, []byte("\n")) {
		if len(bytes.TrimSpace(ln)) == 0 {
			continue
		}
		var c x15Case
		if err := json.Unmarshal(ln, &c); err != nil {
			t.Fatalf("bad case: %v", err)
		}
		cases = append(cases, c)
		raws = append(raws, append(json.RawMessage{}, bytes.TrimSpace(ln)...))
	}
	// cases are independent: run them on a few workers, write in order
	type job struct{ i, rep int }
	lines := make([]x15TabLine, len(cases)*reps)
	jobs := make(chan job)
	var wg sync.WaitGroup
	for wk := 0; wk < 4; wk++ {
		wg.Add(1)
		go func() {
			defer wg.Done()
			for j := range jobs {
				c := cases[j.i]
				rng := rand.New(rand.NewPCG(x15Seed(), uint64(j.i*131+j.rep)))
				l := x15TabLine{C: raws[j.i], Rep: j.rep}
				switch c.T {
				case "R":
					l.O, l.Note = x15RunR(c, rng)
				case "S":
					l.O, l.Note = x15RunS(c, rng)
				case "G":
					l.O, l.Note = x15RunG(c, rng)
				case "A":
					l.O, l.Note = x15RunA(c, rng)
				}
				lines[j.i*reps+j.rep] = l
			}
		}()
	}
	for i := range cases {
		for rep := 0; rep < reps; rep++ {
			jobs <- job{i, rep}
		}
	}
	close(jobs)
	wg.Wait()
	for _, l := range lines {
		if l.O != nil {
			enc.Encode(l)
		}
	}
}

// TestVerif_X15Race is run with -race by tools/checks/x15.py (table Z): one operation of the dispatch layer from one
// goroutine while another one keeps calling a custom method.  The race detector's report is the observation.
func TestVerif_X15Race(t *testing.T) {
	what := os.Getenv("VERIF_RACE")
	if what == "" {
		t.Skip("VERIF_RACE not set")
	}
	ctx := context.Background()
	s := NewServer(x15Impl, nil)
	h := func(ctx context.Context, ss *ServerSession, p *x15PA) (*x15R, error) { return &x15R{}, nil }
	AddReceivingCustomMethod(s, x15Method, h)
	client := NewClient(x15Impl, nil)
	AddSendingCustomMethod[*x15PA, *x15R](client, x15Method)
	t1, t2 := NewInMemoryTransports()
	ss, err := s.Connect(ctx, t1, nil)
	if err != nil {
		t.Fatal(err)
	}
	cs, err := client.Connect(ctx, t2, nil)
	if err != nil {
		t.Fatal(err)
	}
	pass := func(next MethodHandler) MethodHandler { return next }
	var wg sync.WaitGroup
	wg.Add(2)
	calls := make(chan struct{})
	go func() {
		defer wg.Done()
		// keep going for as long as the other goroutine is calling (at least 200 operations)
		for i := 0; ; i++ {
			select {
			case <-calls:
				if i >= 200 {
					return
				}
			default:
			}
			switch what {
			case "regrecv":
				AddReceivingCustomMethod(s, "x/m"+strconv.Itoa(i%500), h)
			case "regsend":
				AddSendingCustomMethod[*x15PA, *x15R](client, "x/m"+strconv.Itoa(i%500))
			case "addmw":
				if i < 50 {
					s.AddReceivingMiddleware(pass)
					s.AddSendingMiddleware(pass)
					client.AddSendingMiddleware(pass)
					client.AddReceivingMiddleware(pass)
				} else {
					time.Sleep(100 * time.Microsecond)
				}
			}
		}
	}()
	go func() {
		defer wg.Done()
		defer close(calls)
		for i := 0; i < 300; i++ {
			if _, err := CallCustomMethod[*x15PA, *x15R](ctx, cs, x15Method, &x15PA{Query: "q"}); err != nil {
				t.Errorf("call: %v", err)
				return
			}
		}
	}()
	wg.Wait()
	cs.Close()
	ss.Wait()
	fmt.Println("X15RACE-COMPLETED", what)
}

var _ = exec.Command
