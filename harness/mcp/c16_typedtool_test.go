//go:build verif

// Conformance harness for property C16 (typed tools: mcp.AddTool / ToolHandlerFor), public API only.
//
// Reads the cases enumerated by TLC from spec/TypedTool.tla (VERIF_IN): JSON-Schema objects for the
// explicit-schema tools, and (schema variant | Go type, argument value) / (output schema | Go output
// type, handler output) cases whose JSON values are tagged pairs ["int",3], ["obj",{...}], ...
// Registers REAL typed tools with mcp.AddTool on real Servers, connects real Clients over in-memory
// transports, performs one tools/call per case and records what the handler saw and what the client
// received (VERIF_OUT) for the TLA+ monitor spec/TypedToolMon.tla.
package mcp_test

import (
	"bufio"
	"context"
	"encoding/json"
	"errors"
	"fmt"
	"math"
	"math/rand/v2"
	"os"
	"sort"
	"strconv"
	"strings"
	"testing"
	"time"

	"github.com/modelcontextprotocol/go-sdk/jsonrpc"
	"github.com/modelcontextprotocol/go-sdk/mcp"
)

// ---------------------------------------------------------------------------
// tagged JSON  <->  Go values / JSON text

type c16Half int64 // the number k/2

// c16Untag decodes a tagged value into a plain Go JSON value (nil, int64, c16Half, string, bool,
// map[string]any, []any).
func c16Untag(raw json.RawMessage) any {
	var pair []json.RawMessage
	if err := json.Unmarshal(raw, &pair); err != nil || len(pair) != 2 {
		panic(fmt.Sprintf("c16: bad tagged value %s", raw))
	}
	var tag string
	if err := json.Unmarshal(pair[0], &tag); err != nil {
		panic(err)
	}
	must := func(v any) {
		if err := json.Unmarshal(pair[1], v); err != nil {
			panic(fmt.Sprintf("c16: bad payload %s: %v", raw, err))
		}
	}
	switch tag {
	case "null":
		return nil
	case "int":
		var i int64
		must(&i)
		return i
	case "half":
		var i int64
		must(&i)
		return c16Half(i)
	case "str":
		var s string
		must(&s)
		return s
	case "bool":
		var b bool
		must(&b)
		return b
	case "arr":
		var items []json.RawMessage
		must(&items)
		out := make([]any, 0, len(items))
		for _, it := range items {
			out = append(out, c16Untag(it))
		}
		return out
	case "obj":
		out := map[string]any{}
		if strings.HasPrefix(strings.TrimSpace(string(pair[1])), "[") {
			return out // TLC serialises the empty function as []
		}
		var members map[string]json.RawMessage
		must(&members)
		for k, m := range members {
			out[k] = c16Untag(m)
		}
		return out
	}
	panic("c16: unknown tag " + tag)
}

// c16Text renders a plain value as JSON text. With r != nil the spelling is varied (seeded):
// integers as 3 / 3.0 / 3e0 / 30e-1, member order shuffled, optional blanks.
func c16Text(r *rand.Rand, v any) string {
	switch x := v.(type) {
	case nil:
		return "null"
	case int64:
		if r != nil {
			switch r.IntN(5) {
			case 0:
				return strconv.FormatInt(x, 10) + ".0"
			case 1:
				return strconv.FormatInt(x, 10) + "e0"
			case 2:
				return strconv.FormatInt(x*10, 10) + "e-1"
			}
		}
		return strconv.FormatInt(x, 10)
	case c16Half:
		return strconv.FormatFloat(float64(x)/2, 'f', -1, 64)
	case string:
		b, _ := json.Marshal(x)
		return string(b)
	case bool:
		return strconv.FormatBool(x)
	case []any:
		parts := make([]string, len(x))
		for i, it := range x {
			parts[i] = c16Text(r, it)
		}
		return "[" + strings.Join(parts, ",") + "]"
	case map[string]any:
		keys := make([]string, 0, len(x))
		for k := range x {
			keys = append(keys, k)
		}
		sort.Strings(keys)
		sep := ","
		if r != nil {
			r.Shuffle(len(keys), func(i, j int) { keys[i], keys[j] = keys[j], keys[i] })
			if r.IntN(4) == 0 {
				sep = " , "
			}
		}
		parts := make([]string, len(keys))
		for i, k := range keys {
			kb, _ := json.Marshal(k)
			parts[i] = string(kb) + ":" + c16Text(r, x[k])
		}
		return "{" + strings.Join(parts, sep) + "}"
	}
	panic(fmt.Sprintf("c16Text: %T", v))
}

func c16TagNum(f float64) any {
	if f == math.Trunc(f) && math.Abs(f) < 1e15 {
		return []any{"int", int64(f)}
	}
	if g := 2 * f; g == math.Trunc(g) && math.Abs(g) < 1e15 {
		return []any{"half", int64(g)}
	}
	return []any{"other", 0}
}

// c16Tag turns a decoded JSON value (as the SDK hands it to a handler or a client) into tagged form.
func c16Tag(v any) any {
	switch x := v.(type) {
	case nil:
		return []any{"null", 0}
	case bool:
		return []any{"bool", x}
	case string:
		return []any{"str", x}
	case float64:
		return c16TagNum(x)
	case float32:
		return c16TagNum(float64(x))
	case int:
		return []any{"int", int64(x)}
	case int64:
		return []any{"int", x}
	case uint64:
		return []any{"int", int64(x)}
	case json.Number:
		f, err := x.Float64()
		if err != nil {
			return []any{"other", 0}
		}
		return c16TagNum(f)
	case json.RawMessage:
		var d any
		if err := json.Unmarshal(x, &d); err != nil {
			return []any{"bad", 0}
		}
		return c16Tag(d)
	case []any:
		out := make([]any, len(x))
		for i, it := range x {
			out[i] = c16Tag(it)
		}
		return []any{"arr", out}
	case map[string]any:
		out := make(map[string]any, len(x))
		for k, m := range x {
			out[k] = c16Tag(m)
		}
		return []any{"obj", out}
	}
	return []any{"other", 0}
}

var c16Null = []any{"null", 0}

// ---------------------------------------------------------------------------
// the fixed family of Go types for the reflected-schema path (mirrors TypedToolDefs.tla)

type c16Nest struct {
	Flag bool `json:"flag"`
}
type c16InA struct {
	N    int      `json:"n"`
	Mode string   `json:"mode"`
	Opt  *c16Nest `json:"opt,omitempty"`
	Tags []string `json:"tags,omitempty"`
}
type c16InB struct {
	Name  string  `json:"name"`
	Inner c16Nest `json:"inner"`
	Nums  []int   `json:"nums"`
	Lim   *int    `json:"lim,omitempty"`
}
type c16InC struct {
	Limit    int `json:"limit,omitempty"`
	MaxItems int `json:"maxItems,omitempty"`
}
type c16OutS struct {
	N    int      `json:"n"`
	Mode string   `json:"mode"`
	Tags []string `json:"tags"`
}

func c16StrArr(s []string) any {
	out := make([]any, len(s))
	for i, x := range s {
		out[i] = []any{"str", x}
	}
	return []any{"arr", out}
}

// What the struct holds, field by field (no re-marshalling through encoding/json): optional pointer /
// slice members are reported only when non-nil; a required slice that is nil is reported as null.
func c16ViewA(in c16InA) any {
	m := map[string]any{"n": []any{"int", int64(in.N)}, "mode": []any{"str", in.Mode}}
	if in.Opt != nil {
		m["opt"] = []any{"obj", map[string]any{"flag": []any{"bool", in.Opt.Flag}}}
	}
	if in.Tags != nil {
		m["tags"] = c16StrArr(in.Tags)
	}
	return []any{"obj", m}
}

func c16ViewB(in c16InB) any {
	m := map[string]any{"name": []any{"str", in.Name},
		"inner": []any{"obj", map[string]any{"flag": []any{"bool", in.Inner.Flag}}}}
	if in.Nums != nil {
		out := make([]any, len(in.Nums))
		for i, x := range in.Nums {
			out[i] = []any{"int", int64(x)}
		}
		m["nums"] = []any{"arr", out}
	} else {
		m["nums"] = c16Null
	}
	if in.Lim != nil {
		m["lim"] = []any{"int", int64(*in.Lim)}
	}
	return []any{"obj", m}
}

func c16ViewC(in c16InC) any {
	return []any{"obj", map[string]any{"limit": []any{"int", int64(in.Limit)}, "maxItems": []any{"int", int64(in.MaxItems)}}}
}

// ---------------------------------------------------------------------------
// cases and observations

type c16Line struct {
	Kind string `json:"kind"`
	// schema lines
	Dir    string          `json:"dir,omitempty"`
	ID     string          `json:"id,omitempty"`
	Schema json.RawMessage `json:"schema,omitempty"`
	// input cases
	Vid   string          `json:"vid,omitempty"`
	Vr    json.RawMessage `json:"vr,omitempty"`
	Ty    string          `json:"ty,omitempty"`
	Cache string          `json:"cache,omitempty"` // SchemaCache arrangement: none | warm | xfirst | pfirst (output side)
	Cls   []string        `json:"cls,omitempty"`
	Args  json.RawMessage `json:"args,omitempty"`
	// output cases
	Sid     string          `json:"sid,omitempty"`
	Okind   string          `json:"okind,omitempty"`
	Out     json.RawMessage `json:"out,omitempty"`
	Nilform bool            `json:"nilform"`
	Content bool            `json:"content"`
	// echoed for the report only
	Valid bool `json:"valid"`
	Lead  bool `json:"lead"`
}

type c16InObs struct {
	Ran     bool `json:"ran"`
	Calls   int  `json:"calls"`
	Seen    any  `json:"seen"`
	IsError bool `json:"isError"`
	Proto   bool `json:"proto"`
}

type c16OutObs struct {
	Ran     bool  `json:"ran"`
	IsError bool  `json:"isError"`
	Proto   bool  `json:"proto"`
	HasSc   bool  `json:"hasSc"`
	Sc      any   `json:"sc"`
	Texts   []any `json:"texts"`
}

// state shared between the driver and the handlers (calls are strictly sequential)
type c16State struct {
	calls int
	seen  any
	cur   *c16Line // current output case
	plain any      // its handler output as a plain value
}

func (st *c16State) typed(dst any) {
	if st.cur.Nilform {
		return // leave Go's zero value: nil map / nil pointer / nil slice
	}
	if err := json.Unmarshal([]byte(c16Text(nil, st.plain)), dst); err != nil {
		panic(fmt.Sprintf("c16: output %s does not fit %T: %v", st.cur.Out, dst, err))
	}
}

func c16AddOut[Out any](s *mcp.Server, st *c16State, name string, schema json.RawMessage, mk func() Out) {
	tool := &mcp.Tool{Name: name}
	if schema != nil {
		tool.OutputSchema = schema
	}
	mcp.AddTool(s, tool, func(ctx context.Context, req *mcp.CallToolRequest, in map[string]any) (*mcp.CallToolResult, Out, error) {
		st.calls++
		var res *mcp.CallToolResult
		if st.cur.Content {
			res = &mcp.CallToolResult{Content: []mcp.Content{&mcp.TextContent{Text: "mine"}}}
		}
		return res, mk(), nil
	})
}

// ptrFirst: the tools whose Out is a pointer type (*c16OutS, *int) are registered before the tools whose Out is
// their element type (c16OutS, int), so that with a SchemaCache the pointer registration is the one that fills the
// by-type entry; otherwise the element-type tool comes first and the pointer tool finds the entry.
func c16AddReflected(s *mcp.Server, st *c16State, ptrFirst bool) {
	mcp.AddTool(s, &mcp.Tool{Name: "rin.InA"}, func(ctx context.Context, req *mcp.CallToolRequest, in c16InA) (*mcp.CallToolResult, any, error) {
		st.calls++
		st.seen = c16ViewA(in)
		return nil, nil, nil
	})
	mcp.AddTool(s, &mcp.Tool{Name: "rin.InB"}, func(ctx context.Context, req *mcp.CallToolRequest, in c16InB) (*mcp.CallToolResult, any, error) {
		st.calls++
		st.seen = c16ViewB(in)
		return nil, nil, nil
	})
	mcp.AddTool(s, &mcp.Tool{Name: "rin.InC"}, func(ctx context.Context, req *mcp.CallToolRequest, in c16InC) (*mcp.CallToolResult, any, error) {
		st.calls++
		st.seen = c16ViewC(in)
		return nil, nil, nil
	})
	addPtr := func() {
		c16AddOut(s, st, "rout.ptr", nil, func() (v *c16OutS) { st.typed(&v); return })
		c16AddOut(s, st, "rout.pint", nil, func() (v *int) { st.typed(&v); return })
	}
	if ptrFirst {
		addPtr()
	}
	c16AddOut(s, st, "rout.struct", nil, func() (v c16OutS) { st.typed(&v); return })
	c16AddOut(s, st, "rout.strs", nil, func() (v []string) { st.typed(&v); return })
	c16AddOut(s, st, "rout.rint", nil, func() (v int) { st.typed(&v); return })
	if !ptrFirst {
		addPtr()
	}
	c16AddOut(s, st, "rout.rstr", nil, func() (v string) { st.typed(&v); return })
	c16AddOut(s, st, "rout.rbool", nil, func() (v bool) { st.typed(&v); return })
}

// Tools whose Go types (c16InC, c16OutS) also occur with an inferred schema, but which declare their own,
// different schema (sin: tolerant of additional members and bounded; outsx: n <= 10).
func c16AddExplicitStruct(s *mcp.Server, st *c16State, inC, outSX json.RawMessage) {
	mcp.AddTool(s, &mcp.Tool{Name: "sin.InC", InputSchema: inC}, func(ctx context.Context, req *mcp.CallToolRequest, in c16InC) (*mcp.CallToolResult, any, error) {
		st.calls++
		st.seen = c16ViewC(in)
		return nil, nil, nil
	})
	c16AddOut(s, st, "out.outsx.structx", outSX, func() (v c16OutS) { st.typed(&v); return })
}

func c16Connect(t *testing.T, ctx context.Context, s *mcp.Server) *mcp.ClientSession {
	ct, st := mcp.NewInMemoryTransports()
	ss, err := s.Connect(ctx, st, nil)
	if err != nil {
		t.Fatal(err)
	}
	t.Cleanup(func() { ss.Close() })
	c := mcp.NewClient(&mcp.Implementation{Name: "c16-client", Version: "1"}, nil)
	cs, err := c.Connect(ctx, ct, nil)
	if err != nil {
		t.Fatal(err)
	}
	t.Cleanup(func() { cs.Close() })
	return cs
}

func c16Session(t *testing.T, m map[string]*mcp.ClientSession, cache string) *mcp.ClientSession {
	cs := m[cache]
	if cs == nil {
		t.Fatalf("c16: unknown cache arrangement %q", cache)
	}
	return cs
}

func TestVerif_C16(t *testing.T) {
	in, outp := os.Getenv("VERIF_IN"), os.Getenv("VERIF_OUT")
	if in == "" || outp == "" {
		t.Skip("VERIF_IN/VERIF_OUT not set")
	}
	seed, _ := strconv.ParseUint(os.Getenv("VERIF_SEED"), 10, 64)
	r := rand.New(rand.NewPCG(seed, 16))
	fin, err := os.Open(in)
	if err != nil {
		t.Fatal(err)
	}
	defer fin.Close()
	var lines []*c16Line
	sc := bufio.NewScanner(fin)
	sc.Buffer(make([]byte, 1<<16), 1<<22)
	for sc.Scan() {
		l := new(c16Line)
		if err := json.Unmarshal(sc.Bytes(), l); err != nil {
			t.Fatalf("bad case line: %v", err)
		}
		lines = append(lines, l)
	}

	ctx := context.Background()
	st := new(c16State)
	impl := &mcp.Implementation{Name: "c16-server", Version: "1"}
	plainSrv := mcp.NewServer(impl, nil)
	var schemaInC, schemaOutSX json.RawMessage
	// explicit schemas: In = map[string]any, Out = any (input side); Out = any / typed (output side)
	for _, l := range lines {
		if l.Kind != "schema" {
			continue
		}
		if l.Dir == "sin" {
			schemaInC = l.Schema
			continue
		}
		if l.Dir == "out" && l.ID == "outsx" {
			schemaOutSX = l.Schema
			continue
		}
		if l.Dir == "in" || l.Dir == "xin" {
			mcp.AddTool(plainSrv, &mcp.Tool{Name: l.Dir + "." + l.ID, InputSchema: l.Schema},
				func(ctx context.Context, req *mcp.CallToolRequest, in map[string]any) (*mcp.CallToolResult, any, error) {
					st.calls++
					st.seen = c16Tag(in)
					return nil, nil, nil
				})
			continue
		}
		c16AddOut(plainSrv, st, "out."+l.ID+".any", l.Schema, func() any {
			if st.cur.Nilform {
				return nil
			}
			var v any
			st.typed(&v)
			return v
		})
		switch {
		case strings.HasPrefix(l.ID, "obj"):
			c16AddOut(plainSrv, st, "out."+l.ID+".map", l.Schema, func() (v map[string]any) { st.typed(&v); return })
		case l.ID == "arr":
			c16AddOut(plainSrv, st, "out.arr.ints", l.Schema, func() (v []int) { st.typed(&v); return })
		case l.ID == "int":
			c16AddOut(plainSrv, st, "out.int.int", l.Schema, func() (v int) { st.typed(&v); return })
		case l.ID == "enum":
			c16AddOut(plainSrv, st, "out.enum.str", l.Schema, func() (v string) { st.typed(&v); return })
		}
	}
	if schemaInC == nil || schemaOutSX == nil {
		t.Fatal("c16: schema lines for sin/InC and out/outsx missing")
	}
	// no SchemaCache
	c16AddReflected(plainSrv, st, false)
	c16AddExplicitStruct(plainSrv, st, schemaInC, schemaOutSX)
	// "warm": the cache has been filled with the inferred schemas by an earlier Server; inferred tools first,
	// then the explicit-schema tools of the same Go types
	warm := mcp.NewSchemaCache()
	c16AddReflected(mcp.NewServer(impl, &mcp.ServerOptions{SchemaCache: warm}), st, false)
	warmSrv := mcp.NewServer(impl, &mcp.ServerOptions{SchemaCache: warm})
	c16AddReflected(warmSrv, st, false)
	c16AddExplicitStruct(warmSrv, st, schemaInC, schemaOutSX)
	// "xfirst": fresh cache, explicit-schema tools first, then the inferred tools of the same Go types
	xfirstSrv := mcp.NewServer(impl, &mcp.ServerOptions{SchemaCache: mcp.NewSchemaCache()})
	c16AddExplicitStruct(xfirstSrv, st, schemaInC, schemaOutSX)
	c16AddReflected(xfirstSrv, st, false)
	// "pfirst": fresh cache, the pointer-typed Out tools first (they fill the by-type entries of their element
	// types), then the element-typed ones (cache hits), then the explicit-schema tools of the same Go types
	pfirstSrv := mcp.NewServer(impl, &mcp.ServerOptions{SchemaCache: mcp.NewSchemaCache()})
	c16AddReflected(pfirstSrv, st, true)
	c16AddExplicitStruct(pfirstSrv, st, schemaInC, schemaOutSX)

	sessions := map[string]*mcp.ClientSession{"none": c16Connect(t, ctx, plainSrv), "warm": c16Connect(t, ctx, warmSrv),
		"xfirst": c16Connect(t, ctx, xfirstSrv), "pfirst": c16Connect(t, ctx, pfirstSrv)}

	// advertised schemas (for the binding check of the reflected family)
	adv := map[string]any{}
	for cached, cs := range sessions {
		for tool, err := range cs.Tools(ctx, nil) {
			if err != nil {
				t.Fatalf("tools/list: %v", err)
			}
			adv[fmt.Sprintf("%s|cache=%s", tool.Name, cached)] = map[string]any{"in": tool.InputSchema, "out": tool.OutputSchema}
		}
	}
	advb, _ := json.Marshal(adv)
	if err := os.WriteFile(outp+".adv", advb, 0o644); err != nil {
		t.Fatal(err)
	}

	fout, err := os.Create(outp)
	if err != nil {
		t.Fatal(err)
	}
	defer fout.Close()
	w := bufio.NewWriterSize(fout, 1<<20)
	defer w.Flush()
	enc := json.NewEncoder(w)

	call := func(cs *mcp.ClientSession, name, args string) (*mcp.CallToolResult, bool) {
		cctx, cancel := context.WithTimeout(ctx, 20*time.Second)
		defer cancel()
		st.calls, st.seen = 0, nil
		res, err := cs.CallTool(cctx, &mcp.CallToolParams{Name: name, Arguments: json.RawMessage(args)})
		if err != nil {
			var werr *jsonrpc.Error
			if !errors.As(err, &werr) {
				w.Flush()
				t.Fatalf("c16: tools/call %s %s failed without a JSON-RPC error (dead driver?): %v", name, args, err)
			}
			return nil, true
		}
		return res, false
	}

	for _, l := range lines {
		switch l.Kind {
		case "in", "xin", "rin", "sin":
			name := l.Kind + "." + l.Vid
			res, proto := call(c16Session(t, sessions, l.Cache), name, c16Text(r, c16Untag(l.Args)))
			o := c16InObs{Ran: st.calls > 0, Calls: st.calls, Seen: c16Null, Proto: proto}
			if st.calls > 0 {
				o.Seen = st.seen
			}
			if res != nil {
				o.IsError = res.IsError
			}
			enc.Encode(map[string]any{"c": l, "o": o})
		case "out":
			name := "out." + l.Sid + "." + l.Okind
			if l.Sid == "reflect" {
				name = "rout." + l.Okind
			}
			st.cur, st.plain = l, c16Untag(l.Out)
			res, proto := call(c16Session(t, sessions, l.Cache), name, "{}")
			o := c16OutObs{Ran: st.calls > 0, Proto: proto, Sc: c16Null, Texts: []any{}}
			if res != nil {
				o.IsError = res.IsError
				if res.StructuredContent != nil {
					o.HasSc = true
					o.Sc = c16Tag(res.StructuredContent)
				}
				for _, ct := range res.Content {
					tc, ok := ct.(*mcp.TextContent)
					if !ok {
						o.Texts = append(o.Texts, []any{"bad", 0})
						continue
					}
					var v any
					if err := json.Unmarshal([]byte(tc.Text), &v); err != nil {
						o.Texts = append(o.Texts, []any{"bad", 0})
					} else {
						o.Texts = append(o.Texts, c16Tag(v))
					}
				}
			}
			enc.Encode(map[string]any{"c": l, "o": o})
		}
	}
}
