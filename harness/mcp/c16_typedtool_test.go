//go:build verif

// Conformance harness for property C16 (typed tools: mcp.AddTool / ToolHandlerFor), public API only.
//
// Reads the cases enumerated by TLC from spec/TypedTool.tla (VERIF_IN): JSON-Schema objects for the
// explicit-schema tools, and (schema variant | Go type, argument value) / (output schema | Go output
// type, handler output) cases whose JSON values are tagged pairs ["int",3], ["obj",{...}], ...
// Registers REAL typed tools with mcp.AddTool on real Servers, connects real Clients over in-memory
// transports, performs one tools/call per case and records what the handler saw and what the client
// received (VERIF_OUT) for the TLA+ monitor spec/TypedToolMon.tla.
//
// Interleaving dimension (spec/TypedToolConc.tla): lines of kind "conc" are scenarios of several calls in
// flight on one server. Their steps invoke / produce / respond are replayed in the TLC-generated order
// inside a testing/synctest bubble: a gate in the typed handler (produce = the handler returns, the
// wrapper marshals the output and builds the result) and a gate in a receiving middleware of the server
// after next() (respond = the result is encoded and written to the connection); after every step
// synctest.Wait() waits until the step has run to its end. No sleeps. Every call of a scenario is
// recorded as its own line, judged by the monitor against ITS OWN case.
package mcp_test

import (
	"bufio"
	"context"
	"encoding/json"
	"errors"
	"fmt"
	"math"
	"math/rand/v2"
	"os"
	"runtime"
	"sort"
	"strconv"
	"strings"
	"sync"
	"testing"
	"testing/synctest"
	"time"

	"github.com/modelcontextprotocol/go-sdk/jsonrpc"
	"github.com/modelcontextprotocol/go-sdk/mcp"
)

// ---------------------------------------------------------------------------
// tagged JSON  <->  Go values / JSON text

type c16Half int64 // the number k/2

// c16Untag decodes a tagged value into a plain Go JSON value (nil, int64, c16Half, string, bool,
// map[string]any, []any).
func c16Untag(raw json.RawMessage) any {
	var pair []json.RawMessage
	if err := json.Unmarshal(raw, &pair); err != nil || len(pair) != 2 {
		panic(fmt.Sprintf("c16: bad tagged value %s", raw))
	}
	var tag string
	if err := json.Unmarshal(pair[0], &tag); err != nil {
		panic(err)
	}
	must := func(v any) {
		if err := json.Unmarshal(pair[1], v); err != nil {
			panic(fmt.Sprintf("c16: bad payload %s: %v", raw, err))
		}
	}
	switch tag {
	case "null":
		return nil
	case "int":
		var i int64
		must(&i)
		return i
	case "half":
		var i int64
		must(&i)
		return c16Half(i)
	case "str":
		var s string
		must(&s)
		return s
	case "bool":
		var b bool
		must(&b)
		return b
	case "arr":
		var items []json.RawMessage
		must(&items)
		out := make([]any, 0, len(items))
		for _, it := range items {
			out = append(out, c16Untag(it))
		}
		return out
	case "obj":
		out := map[string]any{}
		if strings.HasPrefix(strings.TrimSpace(string(pair[1])), "[") {
			return out // TLC serialises the empty function as []
		}
		var members map[string]json.RawMessage
		must(&members)
		for k, m := range members {
			out[k] = c16Untag(m)
		}
		return out
	}
	panic("c16: unknown tag " + tag)
}

// c16Text renders a plain value as JSON text. With r != nil the spelling is varied (seeded):
// integers as 3 / 3.0 / 3e0 / 30e-1, member order shuffled, optional blanks.
func c16Text(r *rand.Rand, v any) string {
	switch x := v.(type) {
	case nil:
		return "null"
	case int64:
		if r != nil {
			switch r.IntN(5) {
			case 0:
				return strconv.FormatInt(x, 10) + ".0"
			case 1:
				return strconv.FormatInt(x, 10) + "e0"
			case 2:
				return strconv.FormatInt(x*10, 10) + "e-1"
			}
		}
		return strconv.FormatInt(x, 10)
	case c16Half:
		return strconv.FormatFloat(float64(x)/2, 'f', -1, 64)
	case string:
		b, _ := json.Marshal(x)
		return string(b)
	case bool:
		return strconv.FormatBool(x)
	case []any:
		parts := make([]string, len(x))
		for i, it := range x {
			parts[i] = c16Text(r, it)
		}
		return "[" + strings.Join(parts, ",") + "]"
	case map[string]any:
		keys := make([]string, 0, len(x))
		for k := range x {
			keys = append(keys, k)
		}
		sort.Strings(keys)
		sep := ","
		if r != nil {
			r.Shuffle(len(keys), func(i, j int) { keys[i], keys[j] = keys[j], keys[i] })
			if r.IntN(4) == 0 {
				sep = " , "
			}
		}
		parts := make([]string, len(keys))
		for i, k := range keys {
			kb, _ := json.Marshal(k)
			parts[i] = string(kb) + ":" + c16Text(r, x[k])
		}
		return "{" + strings.Join(parts, sep) + "}"
	}
	panic(fmt.Sprintf("c16Text: %T", v))
}

func c16TagNum(f float64) any {
	if f == math.Trunc(f) && math.Abs(f) < 1e15 {
		return []any{"int", int64(f)}
	}
	if g := 2 * f; g == math.Trunc(g) && math.Abs(g) < 1e15 {
		return []any{"half", int64(g)}
	}
	return []any{"other", 0}
}

// c16Tag turns a decoded JSON value (as the SDK hands it to a handler or a client) into tagged form.
func c16Tag(v any) any {
	switch x := v.(type) {
	case nil:
		return []any{"null", 0}
	case bool:
		return []any{"bool", x}
	case string:
		return []any{"str", x}
	case float64:
		return c16TagNum(x)
	case float32:
		return c16TagNum(float64(x))
	case int:
		return []any{"int", int64(x)}
	case int64:
		return []any{"int", x}
	case uint64:
		return []any{"int", int64(x)}
	case json.Number:
		f, err := x.Float64()
		if err != nil {
			return []any{"other", 0}
		}
		return c16TagNum(f)
	case json.RawMessage:
		var d any
		if err := json.Unmarshal(x, &d); err != nil {
			return []any{"bad", 0}
		}
		return c16Tag(d)
	case []any:
		out := make([]any, len(x))
		for i, it := range x {
			out[i] = c16Tag(it)
		}
		return []any{"arr", out}
	case map[string]any:
		out := make(map[string]any, len(x))
		for k, m := range x {
			out[k] = c16Tag(m)
		}
		return []any{"obj", out}
	}
	return []any{"other", 0}
}

var c16Null = []any{"null", 0}

// ---------------------------------------------------------------------------
// the fixed family of Go types for the reflected-schema path (mirrors TypedToolDefs.tla)

type c16Nest struct {
	Flag bool `json:"flag"`
}
type c16InA struct {
	N    int      `json:"n"`
	Mode string   `json:"mode"`
	Opt  *c16Nest `json:"opt,omitempty"`
	Tags []string `json:"tags,omitempty"`
}
type c16InB struct {
	Name  string  `json:"name"`
	Inner c16Nest `json:"inner"`
	Nums  []int   `json:"nums"`
	Lim   *int    `json:"lim,omitempty"`
}
type c16InC struct {
	Limit    int `json:"limit,omitempty"`
	MaxItems int `json:"maxItems,omitempty"`
}
type c16OutS struct {
	N    int      `json:"n"`
	Mode string   `json:"mode"`
	Tags []string `json:"tags"`
}

func c16StrArr(s []string) any {
	out := make([]any, len(s))
	for i, x := range s {
		out[i] = []any{"str", x}
	}
	return []any{"arr", out}
}

// What the struct holds, field by field (no re-marshalling through encoding/json): optional pointer /
// slice members are reported only when non-nil; a required slice that is nil is reported as null.
func c16ViewA(in c16InA) any {
	m := map[string]any{"n": []any{"int", int64(in.N)}, "mode": []any{"str", in.Mode}}
	if in.Opt != nil {
		m["opt"] = []any{"obj", map[string]any{"flag": []any{"bool", in.Opt.Flag}}}
	}
	if in.Tags != nil {
		m["tags"] = c16StrArr(in.Tags)
	}
	return []any{"obj", m}
}

func c16ViewB(in c16InB) any {
	m := map[string]any{"name": []any{"str", in.Name},
		"inner": []any{"obj", map[string]any{"flag": []any{"bool", in.Inner.Flag}}}}
	if in.Nums != nil {
		out := make([]any, len(in.Nums))
		for i, x := range in.Nums {
			out[i] = []any{"int", int64(x)}
		}
		m["nums"] = []any{"arr", out}
	} else {
		m["nums"] = c16Null
	}
	if in.Lim != nil {
		m["lim"] = []any{"int", int64(*in.Lim)}
	}
	return []any{"obj", m}
}

func c16ViewC(in c16InC) any {
	return []any{"obj", map[string]any{"limit": []any{"int", int64(in.Limit)}, "maxItems": []any{"int", int64(in.MaxItems)}}}
}

// ---------------------------------------------------------------------------
// cases and observations

type c16Line struct {
	Kind string `json:"kind"`
	// schema lines
	Dir    string          `json:"dir,omitempty"`
	ID     string          `json:"id,omitempty"`
	Schema json.RawMessage `json:"schema,omitempty"`
	// input cases
	Vid   string          `json:"vid,omitempty"`
	Vr    json.RawMessage `json:"vr,omitempty"`
	Ty    string          `json:"ty,omitempty"`
	Cache string          `json:"cache,omitempty"` // SchemaCache arrangement: none | warm | xfirst | pfirst (output side)
	Cls   []string        `json:"cls,omitempty"`
	Args  json.RawMessage `json:"args,omitempty"`
	// output cases
	Sid     string          `json:"sid,omitempty"`
	Okind   string          `json:"okind,omitempty"`
	Out     json.RawMessage `json:"out,omitempty"`
	Nilform bool            `json:"nilform"`
	Content bool            `json:"content"`
	// echoed for the report only
	Valid bool `json:"valid"`
	Lead  bool `json:"lead"`
	// concurrent scenarios (kind "conc"): the schedule [[step, call], ...] with step = invoke | produce |
	// respond, the case of every call, GOMAXPROCS for the replay (0 = leave it)
	Scn   int                 `json:"scn,omitempty"`
	Procs int                 `json:"procs,omitempty"`
	Sched [][2]string         `json:"sched,omitempty"`
	Calls map[string]*c16Line `json:"calls,omitempty"`
}

// the case of one call of a concurrent scenario, as it is echoed in the observation line
type c16ConcCase struct {
	*c16Line
	Scn int    `json:"scn"`
	Who string `json:"who"`
}

type c16InObs struct {
	Ran     bool `json:"ran"`
	Calls   int  `json:"calls"`
	Seen    any  `json:"seen"`
	IsError bool `json:"isError"`
	Proto   bool `json:"proto"`
	// concurrent scenarios only: the index of the schedule step during which the handler was entered, the
	// result reached the receiving middleware, the client got its answer; why a call got no answer
	At   map[string]int `json:"at,omitempty"`
	Fail string         `json:"fail,omitempty"`
}

type c16OutObs struct {
	Ran     bool           `json:"ran"`
	Calls   int            `json:"calls"`
	IsError bool           `json:"isError"`
	Proto   bool           `json:"proto"`
	HasSc   bool           `json:"hasSc"`
	Sc      any            `json:"sc"`
	Texts   []any          `json:"texts"`
	At      map[string]int `json:"at,omitempty"`
	Fail    string         `json:"fail,omitempty"`
}

type c16Res struct {
	res *mcp.CallToolResult
	err error
}

// one tools/call: its case, and what its handler did
type c16Call struct {
	line  *c16Line
	plain any    // output cases: the handler output as a plain value
	who   string // name of the call in a concurrent scenario ("" for a sequential call)
	// gates of a concurrent scenario (nil for a sequential call)
	hGate, sGate chan struct{}
	cancel       context.CancelFunc
	done         chan c16Res
	// guarded by c16State.mu
	calls int
	seen  any
	at    map[string]int
}

// state shared between the driver and the handlers
type c16State struct {
	mu   sync.Mutex
	cur  *c16Call            // the call of a sequential tools/call (no _meta tag)
	byID map[string]*c16Call // the calls of the running concurrent scenario, by their _meta tag
	step int                 // index of the schedule step being replayed
}

const c16MetaKey = "c16call"

// tagged returns the call of a concurrent scenario that req belongs to (nil: a sequential call).
func (st *c16State) tagged(req *mcp.CallToolRequest) *c16Call {
	id, ok := req.Params.Meta[c16MetaKey].(string)
	if !ok {
		return nil
	}
	st.mu.Lock()
	defer st.mu.Unlock()
	cl := st.byID[id]
	if cl == nil {
		panic("c16: request of unknown call " + id)
	}
	return cl
}

func (st *c16State) callOf(req *mcp.CallToolRequest) *c16Call {
	if cl := st.tagged(req); cl != nil {
		return cl
	}
	st.mu.Lock()
	defer st.mu.Unlock()
	return st.cur
}

func (st *c16State) mark(cl *c16Call, ev string) {
	st.mu.Lock()
	defer st.mu.Unlock()
	if cl.at != nil {
		cl.at[ev] = st.step
	}
}

// enter is the first thing a handler does: count the invocation, then (concurrent scenario) wait for the
// produce step. What the handler saw / returns is taken from its own arguments AFTER the gate.
func (st *c16State) enter(req *mcp.CallToolRequest) *c16Call {
	cl := st.callOf(req)
	st.mu.Lock()
	cl.calls++
	if cl.at != nil {
		cl.at["enter"] = st.step
	}
	st.mu.Unlock()
	if cl.hGate != nil {
		<-cl.hGate
	}
	return cl
}

func (st *c16State) saw(cl *c16Call, v any) {
	st.mu.Lock()
	defer st.mu.Unlock()
	cl.seen = v
}

func (st *c16State) snapshot(cl *c16Call) (calls int, seen any, at map[string]int) {
	st.mu.Lock()
	defer st.mu.Unlock()
	if cl.at != nil {
		at = map[string]int{}
		for k, v := range cl.at {
			at[k] = v
		}
	}
	return cl.calls, cl.seen, at
}

func (cl *c16Call) typed(dst any) {
	if cl.line.Nilform {
		return // leave Go's zero value: nil map / nil pointer / nil slice
	}
	if err := json.Unmarshal([]byte(c16Text(nil, cl.plain)), dst); err != nil {
		panic(fmt.Sprintf("c16: output %s does not fit %T: %v", cl.line.Out, dst, err))
	}
}

func c16AddOut[Out any](s *mcp.Server, st *c16State, name string, schema json.RawMessage, mk func(cl *c16Call) Out) {
	tool := &mcp.Tool{Name: name}
	if schema != nil {
		tool.OutputSchema = schema
	}
	mcp.AddTool(s, tool, func(ctx context.Context, req *mcp.CallToolRequest, in map[string]any) (*mcp.CallToolResult, Out, error) {
		cl := st.enter(req)
		var res *mcp.CallToolResult
		if cl.line.Content {
			res = &mcp.CallToolResult{Content: []mcp.Content{&mcp.TextContent{Text: "mine"}}}
		}
		return res, mk(cl), nil
	})
}

// c16Gate installs the respond gate: a receiving middleware that holds the result of a call of a concurrent
// scenario after the typed-tool wrapper has produced it and before the connection encodes and writes it.
func c16Gate(s *mcp.Server, st *c16State) {
	s.AddReceivingMiddleware(func(next mcp.MethodHandler) mcp.MethodHandler {
		return func(ctx context.Context, method string, req mcp.Request) (mcp.Result, error) {
			res, err := next(ctx, method, req)
			if ctr, ok := req.(*mcp.CallToolRequest); ok && ctr.Params != nil {
				if cl := st.tagged(ctr); cl != nil {
					st.mark(cl, "produced")
					<-cl.sGate
				}
			}
			return res, err
		}
	})
}

// ptrFirst: the tools whose Out is a pointer type (*c16OutS, *int) are registered before the tools whose Out is
// their element type (c16OutS, int), so that with a SchemaCache the pointer registration is the one that fills the
// by-type entry; otherwise the element-type tool comes first and the pointer tool finds the entry.
func c16AddReflected(s *mcp.Server, st *c16State, ptrFirst bool) {
	mcp.AddTool(s, &mcp.Tool{Name: "rin.InA"}, func(ctx context.Context, req *mcp.CallToolRequest, in c16InA) (*mcp.CallToolResult, any, error) {
		cl := st.enter(req)
		st.saw(cl, c16ViewA(in))
		return nil, nil, nil
	})
	mcp.AddTool(s, &mcp.Tool{Name: "rin.InB"}, func(ctx context.Context, req *mcp.CallToolRequest, in c16InB) (*mcp.CallToolResult, any, error) {
		cl := st.enter(req)
		st.saw(cl, c16ViewB(in))
		return nil, nil, nil
	})
	mcp.AddTool(s, &mcp.Tool{Name: "rin.InC"}, func(ctx context.Context, req *mcp.CallToolRequest, in c16InC) (*mcp.CallToolResult, any, error) {
		cl := st.enter(req)
		st.saw(cl, c16ViewC(in))
		return nil, nil, nil
	})
	addPtr := func() {
		c16AddOut(s, st, "rout.ptr", nil, func(cl *c16Call) (v *c16OutS) { cl.typed(&v); return })
		c16AddOut(s, st, "rout.pint", nil, func(cl *c16Call) (v *int) { cl.typed(&v); return })
	}
	if ptrFirst {
		addPtr()
	}
	c16AddOut(s, st, "rout.struct", nil, func(cl *c16Call) (v c16OutS) { cl.typed(&v); return })
	c16AddOut(s, st, "rout.strs", nil, func(cl *c16Call) (v []string) { cl.typed(&v); return })
	c16AddOut(s, st, "rout.rint", nil, func(cl *c16Call) (v int) { cl.typed(&v); return })
	if !ptrFirst {
		addPtr()
	}
	c16AddOut(s, st, "rout.rstr", nil, func(cl *c16Call) (v string) { cl.typed(&v); return })
	c16AddOut(s, st, "rout.rbool", nil, func(cl *c16Call) (v bool) { cl.typed(&v); return })
}

// Tools whose Go types (c16InC, c16OutS) also occur with an inferred schema, but which declare their own,
// different schema (sin: tolerant of additional members and bounded; outsx: n <= 10).
func c16AddExplicitStruct(s *mcp.Server, st *c16State, inC, outSX json.RawMessage) {
	mcp.AddTool(s, &mcp.Tool{Name: "sin.InC", InputSchema: inC}, func(ctx context.Context, req *mcp.CallToolRequest, in c16InC) (*mcp.CallToolResult, any, error) {
		cl := st.enter(req)
		st.saw(cl, c16ViewC(in))
		return nil, nil, nil
	})
	c16AddOut(s, st, "out.outsx.structx", outSX, func(cl *c16Call) (v c16OutS) { cl.typed(&v); return })
}

// c16BuildPlain builds the server without a SchemaCache: every explicit-schema tool of the schema lines
// (In = map[string]any, Out = any on the input side; Out = any / typed on the output side), the reflected family
// and the explicit-schema tools on struct types.
func c16BuildPlain(t *testing.T, st *c16State, lines []*c16Line) (srv *mcp.Server, schemaInC, schemaOutSX json.RawMessage) {
	srv = mcp.NewServer(&mcp.Implementation{Name: "c16-server", Version: "1"}, nil)
	for _, l := range lines {
		if l.Kind != "schema" {
			continue
		}
		if l.Dir == "sin" {
			schemaInC = l.Schema
			continue
		}
		if l.Dir == "out" && l.ID == "outsx" {
			schemaOutSX = l.Schema
			continue
		}
		if l.Dir == "in" || l.Dir == "xin" {
			mcp.AddTool(srv, &mcp.Tool{Name: l.Dir + "." + l.ID, InputSchema: l.Schema},
				func(ctx context.Context, req *mcp.CallToolRequest, in map[string]any) (*mcp.CallToolResult, any, error) {
					cl := st.enter(req)
					st.saw(cl, c16Tag(in))
					return nil, nil, nil
				})
			continue
		}
		c16AddOut(srv, st, "out."+l.ID+".any", l.Schema, func(cl *c16Call) any {
			if cl.line.Nilform {
				return nil
			}
			var v any
			cl.typed(&v)
			return v
		})
		switch {
		case strings.HasPrefix(l.ID, "obj"):
			c16AddOut(srv, st, "out."+l.ID+".map", l.Schema, func(cl *c16Call) (v map[string]any) { cl.typed(&v); return })
		case l.ID == "arr":
			c16AddOut(srv, st, "out.arr.ints", l.Schema, func(cl *c16Call) (v []int) { cl.typed(&v); return })
		case l.ID == "int":
			c16AddOut(srv, st, "out.int.int", l.Schema, func(cl *c16Call) (v int) { cl.typed(&v); return })
		case l.ID == "enum":
			c16AddOut(srv, st, "out.enum.str", l.Schema, func(cl *c16Call) (v string) { cl.typed(&v); return })
		}
	}
	if schemaInC == nil || schemaOutSX == nil {
		t.Fatal("c16: schema lines for sin/InC and out/outsx missing")
	}
	c16AddReflected(srv, st, false)
	c16AddExplicitStruct(srv, st, schemaInC, schemaOutSX)
	return srv, schemaInC, schemaOutSX
}

// c16NameArgs: the tool a case is served by and the JSON text of the arguments of its call.
func c16NameArgs(r *rand.Rand, l *c16Line) (name, args string) {
	if l.Kind == "out" {
		name = "out." + l.Sid + "." + l.Okind
		if l.Sid == "reflect" {
			name = "rout." + l.Okind
		}
		return name, "{}"
	}
	return l.Kind + "." + l.Vid, c16Text(r, c16Untag(l.Args))
}

func c16NewCall(l *c16Line) *c16Call {
	cl := &c16Call{line: l}
	if l.Kind == "out" {
		cl.plain = c16Untag(l.Out)
	}
	return cl
}

func c16InObsOf(st *c16State, cl *c16Call, res *mcp.CallToolResult, proto bool) c16InObs {
	calls, seen, at := st.snapshot(cl)
	o := c16InObs{Ran: calls > 0, Calls: calls, Seen: c16Null, Proto: proto, At: at}
	if calls > 0 {
		o.Seen = seen
	}
	if res != nil {
		o.IsError = res.IsError
	}
	return o
}

func c16OutObsOf(st *c16State, cl *c16Call, res *mcp.CallToolResult, proto bool) c16OutObs {
	calls, _, at := st.snapshot(cl)
	o := c16OutObs{Ran: calls > 0, Calls: calls, Proto: proto, Sc: c16Null, Texts: []any{}, At: at}
	if res != nil {
		o.IsError = res.IsError
		if res.StructuredContent != nil {
			o.HasSc = true
			o.Sc = c16Tag(res.StructuredContent)
		}
		for _, ct := range res.Content {
			tc, ok := ct.(*mcp.TextContent)
			if !ok {
				o.Texts = append(o.Texts, []any{"bad", 0})
				continue
			}
			var v any
			if err := json.Unmarshal([]byte(tc.Text), &v); err != nil {
				o.Texts = append(o.Texts, []any{"bad", 0})
			} else {
				o.Texts = append(o.Texts, c16Tag(v))
			}
		}
	}
	return o
}

// ---------------------------------------------------------------------------
// concurrent scenarios

type c16Pair struct {
	cs *mcp.ClientSession
	ss *mcp.ServerSession
}

func c16ConnectPair(t *testing.T, ctx context.Context, s *mcp.Server) c16Pair {
	ct, st := mcp.NewInMemoryTransports()
	ss, err := s.Connect(ctx, st, nil)
	if err != nil {
		t.Fatal(err)
	}
	cs, err := mcp.NewClient(&mcp.Implementation{Name: "c16-client", Version: "1"}, nil).Connect(ctx, ct, nil)
	if err != nil {
		t.Fatal(err)
	}
	return c16Pair{cs, ss}
}

func (p c16Pair) close() {
	p.cs.Close()
	p.ss.Close()
}

// c16RunConc replays the scenarios (all of one GOMAXPROCS setting) inside one synctest bubble on one server and
// returns one observation row per call, scenario by scenario, calls in name order.
func c16RunConc(t *testing.T, r *rand.Rand, schemas, scns []*c16Line, procs int) (rows []map[string]any) {
	if procs > 0 {
		defer runtime.GOMAXPROCS(runtime.GOMAXPROCS(procs))
	}
	synctest.Test(t, func(t *testing.T) {
		ctx := context.Background()
		st := &c16State{}
		srv, _, _ := c16BuildPlain(t, st, schemas)
		c16Gate(srv, st)
		pair := c16ConnectPair(t, ctx, srv)
		for _, sc := range scns {
			calls := map[string]*c16Call{}
			var names []string
			for who, l := range sc.Calls {
				cl := c16NewCall(l)
				cl.who, cl.hGate, cl.sGate, cl.at = who, make(chan struct{}), make(chan struct{}), map[string]int{}
				cl.done = make(chan c16Res, 1)
				calls[who] = cl
				names = append(names, who)
			}
			sort.Strings(names)
			st.mu.Lock()
			st.byID, st.step = calls, 0
			st.mu.Unlock()
			for k, step := range sc.Sched {
				cl := calls[step[1]]
				if cl == nil {
					t.Fatalf("c16: scenario %d: step of unknown call %v", sc.Scn, step)
				}
				st.mu.Lock()
				st.step = k
				st.mu.Unlock()
				switch step[0] {
				case "invoke":
					name, args := c16NameArgs(r, cl.line)
					cctx, cancel := context.WithCancel(ctx)
					cl.cancel = cancel
					go func() {
						res, err := pair.cs.CallTool(cctx, &mcp.CallToolParams{Meta: mcp.Meta{c16MetaKey: cl.who}, Name: name, Arguments: json.RawMessage(args)})
						st.mark(cl, "got")
						cl.done <- c16Res{res, err}
					}()
				case "produce":
					close(cl.hGate)
				case "respond":
					close(cl.sGate)
				default:
					t.Fatalf("c16: scenario %d: unknown step %v", sc.Scn, step)
				}
				synctest.Wait() // the step has run to its end: every goroutine is blocked at a gate or idle
			}
			broken := false
			for _, who := range names {
				cl := calls[who]
				var got c16Res
				fail := ""
				select {
				case got = <-cl.done:
				default:
					// every step has been replayed and the client still has no answer
					fail = "hung"
					cl.cancel()
					synctest.Wait()
					select {
					case got = <-cl.done:
					default:
						t.Fatalf("c16: scenario %d: call %s does not return after cancellation", sc.Scn, who)
					}
					got.res = nil
				}
				cl.cancel()
				proto := got.err != nil
				if proto && fail == "" {
					var werr *jsonrpc.Error
					if !errors.As(got.err, &werr) {
						fail = "failed: " + got.err.Error()
					}
				}
				if fail != "" {
					broken = true
				}
				cc := c16ConcCase{cl.line, sc.Scn, who}
				if cl.line.Kind == "out" {
					o := c16OutObsOf(st, cl, got.res, proto)
					o.Fail = fail
					rows = append(rows, map[string]any{"c": cc, "o": o})
				} else {
					o := c16InObsOf(st, cl, got.res, proto)
					o.Fail = fail
					rows = append(rows, map[string]any{"c": cc, "o": o})
				}
			}
			if broken { // do not let one lost answer decide the following scenarios: fresh sessions
				pair.close()
				synctest.Wait()
				pair = c16ConnectPair(t, ctx, srv)
			}
		}
		st.mu.Lock()
		st.byID = nil
		st.mu.Unlock()
		pair.close()
		synctest.Wait()
	})
	return rows
}

func c16Connect(t *testing.T, ctx context.Context, s *mcp.Server) *mcp.ClientSession {
	ct, st := mcp.NewInMemoryTransports()
	ss, err := s.Connect(ctx, st, nil)
	if err != nil {
		t.Fatal(err)
	}
	t.Cleanup(func() { ss.Close() })
	c := mcp.NewClient(&mcp.Implementation{Name: "c16-client", Version: "1"}, nil)
	cs, err := c.Connect(ctx, ct, nil)
	if err != nil {
		t.Fatal(err)
	}
	t.Cleanup(func() { cs.Close() })
	return cs
}

func c16Session(t *testing.T, m map[string]*mcp.ClientSession, cache string) *mcp.ClientSession {
	cs := m[cache]
	if cs == nil {
		t.Fatalf("c16: unknown cache arrangement %q", cache)
	}
	return cs
}

func TestVerif_C16(t *testing.T) {
	in, outp := os.Getenv("VERIF_IN"), os.Getenv("VERIF_OUT")
	if in == "" || outp == "" {
		t.Skip("VERIF_IN/VERIF_OUT not set")
	}
	seed, _ := strconv.ParseUint(os.Getenv("VERIF_SEED"), 10, 64)
	r := rand.New(rand.NewPCG(seed, 16))
	fin, err := os.Open(in)
	if err != nil {
		t.Fatal(err)
	}
	defer fin.Close()
	var lines []*c16Line
	sc := bufio.NewScanner(fin)
	sc.Buffer(make([]byte, 1<<16), 1<<22)
	for sc.Scan() {
		l := new(c16Line)
		if err := json.Unmarshal(sc.Bytes(), l); err != nil {
			t.Fatalf("bad case line: %v", err)
		}
		lines = append(lines, l)
	}

	ctx := context.Background()
	st := new(c16State)
	impl := &mcp.Implementation{Name: "c16-server", Version: "1"}
	// no SchemaCache
	plainSrv, schemaInC, schemaOutSX := c16BuildPlain(t, st, lines)
	// "warm": the cache has been filled with the inferred schemas by an earlier Server; inferred tools first,
	// then the explicit-schema tools of the same Go types
	warm := mcp.NewSchemaCache()
	c16AddReflected(mcp.NewServer(impl, &mcp.ServerOptions{SchemaCache: warm}), st, false)
	warmSrv := mcp.NewServer(impl, &mcp.ServerOptions{SchemaCache: warm})
	c16AddReflected(warmSrv, st, false)
	c16AddExplicitStruct(warmSrv, st, schemaInC, schemaOutSX)
	// "xfirst": fresh cache, explicit-schema tools first, then the inferred tools of the same Go types
	xfirstSrv := mcp.NewServer(impl, &mcp.ServerOptions{SchemaCache: mcp.NewSchemaCache()})
	c16AddExplicitStruct(xfirstSrv, st, schemaInC, schemaOutSX)
	c16AddReflected(xfirstSrv, st, false)
	// "pfirst": fresh cache, the pointer-typed Out tools first (they fill the by-type entries of their element
	// types), then the element-typed ones (cache hits), then the explicit-schema tools of the same Go types
	pfirstSrv := mcp.NewServer(impl, &mcp.ServerOptions{SchemaCache: mcp.NewSchemaCache()})
	c16AddReflected(pfirstSrv, st, true)
	c16AddExplicitStruct(pfirstSrv, st, schemaInC, schemaOutSX)

	sessions := map[string]*mcp.ClientSession{"none": c16Connect(t, ctx, plainSrv), "warm": c16Connect(t, ctx, warmSrv),
		"xfirst": c16Connect(t, ctx, xfirstSrv), "pfirst": c16Connect(t, ctx, pfirstSrv)}

	// advertised schemas (for the binding check of the reflected family)
	adv := map[string]any{}
	for cached, cs := range sessions {
		for tool, err := range cs.Tools(ctx, nil) {
			if err != nil {
				t.Fatalf("tools/list: %v", err)
			}
			adv[fmt.Sprintf("%s|cache=%s", tool.Name, cached)] = map[string]any{"in": tool.InputSchema, "out": tool.OutputSchema}
		}
	}
	advb, _ := json.Marshal(adv)
	if err := os.WriteFile(outp+".adv", advb, 0o644); err != nil {
		t.Fatal(err)
	}

	fout, err := os.Create(outp)
	if err != nil {
		t.Fatal(err)
	}
	defer fout.Close()
	w := bufio.NewWriterSize(fout, 1<<20)
	defer w.Flush()
	enc := json.NewEncoder(w)

	// sequential cases: one tools/call at a time, each answered before the next is sent
	call := func(cs *mcp.ClientSession, cl *c16Call, name, args string) (*mcp.CallToolResult, bool) {
		cctx, cancel := context.WithTimeout(ctx, 20*time.Second)
		defer cancel()
		st.mu.Lock()
		st.cur = cl
		st.mu.Unlock()
		res, err := cs.CallTool(cctx, &mcp.CallToolParams{Name: name, Arguments: json.RawMessage(args)})
		if err != nil {
			var werr *jsonrpc.Error
			if !errors.As(err, &werr) {
				w.Flush()
				t.Fatalf("c16: tools/call %s %s failed without a JSON-RPC error (dead driver?): %v", name, args, err)
			}
			return nil, true
		}
		return res, false
	}

	var schemas []*c16Line
	var conc [][]*c16Line // concurrent scenarios, in consecutive runs of one GOMAXPROCS setting
	for _, l := range lines {
		switch l.Kind {
		case "schema", "goschema":
			schemas = append(schemas, l)
		case "in", "xin", "rin", "sin":
			name, args := c16NameArgs(r, l)
			cl := c16NewCall(l)
			res, proto := call(c16Session(t, sessions, l.Cache), cl, name, args)
			enc.Encode(map[string]any{"c": l, "o": c16InObsOf(st, cl, res, proto)})
		case "out":
			name, args := c16NameArgs(r, l)
			cl := c16NewCall(l)
			res, proto := call(c16Session(t, sessions, l.Cache), cl, name, args)
			enc.Encode(map[string]any{"c": l, "o": c16OutObsOf(st, cl, res, proto)})
		case "conc":
			if n := len(conc); n == 0 || conc[n-1][0].Procs != l.Procs {
				conc = append(conc, nil)
			}
			conc[len(conc)-1] = append(conc[len(conc)-1], l)
		}
	}
	// concurrent scenarios: several calls in flight on one server, steps in the TLC-generated order
	for _, run := range conc {
		for _, row := range c16RunConc(t, r, schemas, run, run[0].Procs) {
			enc.Encode(row)
		}
	}
}
