//go:build verif

// Conformance harness for property C13 (keep-alive), patterns P2 + P4.
//
// Reads the cases exported by TLC from spec/KeepAlive.tla (VERIF_IN: outcome pattern,
// configured threshold, closing mode, code-shaped expectation), runs each on the real
// code in a testing/synctest bubble (virtual time) and records what a peer and the
// session's owner observe (VERIF_OUT) for the TLA+ monitor KeepAliveMon:
//
//	level "func"    startKeepalive with a scripted keepaliveSession
//	level "server"  a real ServerSession (ServerOptions.KeepAlive) over a scripted Connection
//	level "client"  a real ClientSession (ClientOptions.KeepAlive, legacy protocol version)
//	                over a scripted Connection
//
// The scripted peer answers / ignores / rejects each ping as the pattern says. All times
// are microseconds of virtual time since the start of the scenario.
//
// Two environment dimensions of the model are realised at the session levels: the peer of a
// ServerSession sends its initialize request before Connect (slot 0), 3/8 of an interval
// after the j-th tick, or never; the context given to Connect is kept alive or cancelled 7/8
// of an interval after the k-th tick (k = 0: right after Connect returned).
//
// Two more dimensions of the model:
//
//   - held pings (script symbols l0 / l1 / l2): the session's own transport holds the ping's
//     write for the model's duration (9/16 of an interval, one or two intervals and 1/16),
//     whatever the ping's context says, then lets it out; the peer answers at once, too late.
//     The ping is recorded at the instant the session handed it to the transport, with the
//     hold. A ping whose context has already ended when it is handed over is refused by the
//     transport (as the SDK's own transports do) and never reaches the peer: it appears
//     among the attempts only.
//   - how a ClientSession is established (est): "init" asks for a legacy protocol version,
//     "fallback" asks for the latest one (no options, or the version spelled out), has its
//     server/discover probe rejected in one of several ways and falls back to initialize,
//     "modern" has the probe accepted (a protocol version without ping).
//
// Nothing here waits for the implementation to do something: every wait ends at an instant
// fixed by the script (the owner's closing instant, the handler's release, the end of the
// quiet period), and what has not happened by then is recorded as such (session still open,
// keep-alive loop still alive, no ping attempted) for the monitor to judge. A real-time
// watchdog outside the bubbles cuts the quiet period short after c13Soft and, should a
// scenario still not return (virtual time cannot advance while a goroutine is blocked on
// something synctest does not know), reports it and exits after c13Hard.
//
// Unexported identifiers used (package mcp): startKeepalive, the keepaliveSession
// interface (implemented by c13Pinger), and internal/jsonrpc2.ErrRejected.
package mcp

import (
	"bufio"
	"context"
	"encoding/json"
	"errors"
	"fmt"
	"io"
	"log/slog"
	"math/rand/v2"
	"os"
	"regexp"
	"runtime"
	"strconv"
	"strings"
	"sync"
	"sync/atomic"
	"syscall"
	"testing"
	"testing/synctest"
	"time"

	"github.com/modelcontextprotocol/go-sdk/internal/jsonrpc2"
	"github.com/modelcontextprotocol/go-sdk/jsonrpc"
)

type c13Exp struct {
	NPing    int    `json:"nping"`
	CloseAt  int    `json:"closeAt"`
	UserAt   int    `json:"userAt"`
	Unit     int    `json:"unit"`
	Final    string `json:"final"`
	Ticks    []int  `json:"ticks"`
	HsAt     int    `json:"hsAt"`     // model units: when the peer completes the handshake (0 before Connect returns, -1 never)
	CcAt     int    `json:"ccAt"`     // model units: when the Connect context is cancelled (-1 never)
	Holds    []int  `json:"holds"`    // model units: for how long the transport held each ping of the expected run
	Durs     []int  `json:"durs"`     // model units: for how long the transport holds the ping of each script position
	UserPlan int    `json:"userPlan"` // model units: when the owner closes the session unless keep-alive has done so
	DLag     int    `json:"dlag"`     // model units (transport dimension): code-shaped lag of the session's end behind the model's instant
}

type c13Case struct {
	ID      int      `json:"id"`
	Pattern []string `json:"pattern"`
	T       int      `json:"T"`
	End     string   `json:"end"` // idle, inflight, drain, held (the owner closes while the transport holds the last ping and a tick is waiting)
	Drain   int      `json:"drain"`
	Hs      int      `json:"hs"`  // handshake slot: 0 before Connect returns, j after the j-th tick, -1 never
	Cc      int      `json:"cc"`  // Connect-context slot: -1 kept alive, k cancelled after the k-th tick
	Est     string   `json:"est"` // how the session was established: init, fallback, modern
	Tr      string   `json:"tr"`  // transport dimension (KeepAliveTr): mem, httpc, https, sse; "" otherwise
	Cls     []string `json:"cls"` // transport dimension: what concretely happens to ping 1, 2, ... (classes of KeepAlive.tla Part 1b)
	Levels  []string `json:"levels"`
	c13Exp
}

type c13Ping struct {
	At  int64  `json:"at"`  // when the session handed the ping to its transport (= when the peer saw it, unless held)
	O   string `json:"o"`   // what became of it: a t m c u, l = held by the transport past its deadline
	K   string `json:"k"`   // the script symbol (l0, l1, l2 for held pings)
	Cls string `json:"cls"` // transport dimension: the class the scripted peer played ("" otherwise, "unscripted" beyond the script)
	H   int64  `json:"h"`   // for how long the transport held it
	V   string `json:"v"`   // concrete variant
	D   int64  `json:"d"`   // answer delay (a) / late-reply delay (t)
	DL  int64  `json:"dl"`  // func level: the deadline the ping context carried, relative to At (-1 unknown)
	Ret int64  `json:"ret"` // func level: when Ping returned (-1 unknown)
}

type c13Obs struct {
	ID          int       `json:"id"`
	Level       string    `json:"level"`
	Pattern     []string  `json:"pattern"`
	T           int       `json:"T"`
	End         string    `json:"end"`
	Drain       int       `json:"drain"` // end "drain": intervals the owner's Close waits for a running request handler
	I           int64     `json:"I"`
	Start       int64     `json:"start"`
	Pings       []c13Ping `json:"pings"`
	Attempts    []int64   `json:"attempts"`    // when the session tried to send a ping (sending middleware / Ping double)
	Closed      int64     `json:"closed"`      // session terminated without its owner closing it (-1: no)
	UserClose   int64     `json:"userClose"`   // owner called Close (-1: no)
	Ended       int64     `json:"ended"`       // session termination observed (Wait returned / loop cancelled), -1 never
	Closes      int       `json:"closes"`      // Close calls on the session double (func) / transport (session levels)
	Cancels     int       `json:"cancels"`     // notifications/cancelled seen by the peer
	Left        int       `json:"left"`        // goroutines left at the end of the scenario
	LeftAt      string    `json:"leftAt"`      // where they were created
	KAEarly     int       `json:"kaEarly"`     // keep-alive goroutines alive right after the owner's Close began (settled)
	Released    int64     `json:"released"`    // end "drain": when the handler was released (-1 otherwise)
	KAAlive     int       `json:"kaAlive"`     // keep-alive goroutines still alive once the closing / the owner's Close had settled
	KALate      int       `json:"kaLate"`      // the same census, taken again once the threshold's intervals and a ping timeout have passed since a session ended on its own (transport dimension; = kaAlive otherwise)
	Tr          string    `json:"tr"`          // transport dimension: the case's transport ("" otherwise)
	Cls         []string  `json:"cls"`         // transport dimension: the case's script of classes
	Settle      int64     `json:"settle"`      // when that census was taken
	Exit        string    `json:"exit"`        // "clean" or what synctest reported at bubble exit
	Hand        string    `json:"hand"`        // handshake variant
	Hs          int       `json:"hs"`          // handshake slot of the case
	Cc          int       `json:"cc"`          // Connect-context slot of the case
	HsAt        int64     `json:"hsAt"`        // when the handshake completed (the initialize reply was written), -1 never
	CcAt        int64     `json:"ccAt"`        // when the context given to Connect was cancelled, -1 never
	Est         string    `json:"est"`         // how the session was established (the case's)
	Disc        string    `json:"disc"`        // what the peer did with server/discover
	Probes      int       `json:"probes"`      // server/discover requests the peer saw
	Neg         string    `json:"neg"`         // the protocol version the session ended up with ("" unknown)
	Pingable    bool      `json:"pingable"`    // that version has ping
	Uninspected int       `json:"uninspected"` // censuses for which the goroutine count was off and no dump could be taken any more
	Quiet       int64     `json:"quiet"`       // length of the quiet period observed after the session was over
	QuietCut    bool      `json:"quietCut"`    // the watchdog cut the quiet period short
	Exp         c13Exp    `json:"exp"`
}

// ---------------------------------------------------------------------------
// shared scenario state

type c13Rec struct {
	mu      sync.Mutex
	t0      time.Time
	ivl     time.Duration
	pattern []string
	rng     *rand.Rand
	obs     *c13Obs
	over    bool // the session has terminated or its owner closed it
	nAfter  int
	abort   chan struct{}
	abortMu sync.Once
	cancel  context.CancelFunc // of the context given to Connect
	endedCh chan struct{}      // closed when the session terminates on the SDK's initiative
	g0      int                // goroutines in the process when the scenario started
}

// awaitEnd blocks until the session has terminated on its own or the owner's closing
// instant has come, and lets everything runnable at that instant run.
func (r *c13Rec) awaitEnd() {
	select {
	case <-r.endedCh:
	case <-time.After(r.userTime() - time.Since(r.t0)):
	}
	synctest.Wait()
}

// census records how many keep-alive goroutines exist now (everything has settled).
func (r *c13Rec) census() {
	synctest.Wait()
	// only when the goroutine count is off is the goroutine dump consulted
	ka := r.kaCount(r.g0)
	r.mu.Lock()
	r.obs.KAAlive, r.obs.KALate, r.obs.Settle = ka, ka, r.us()
	// A ping beyond the script is ignored by the peer. If it stayed unanswered for a whole
	// ping timeout before the session ended it is, for the property, a timed-out ping (this
	// only happens when the implementation's schedule differs from the expected one).
	end := r.obs.Closed
	if end < 0 {
		end = r.obs.UserClose
	}
	for i := range r.obs.Pings {
		p := &r.obs.Pings[i]
		if p.O == "u" && end >= 0 && end-p.At >= r.obs.I/2 {
			p.O, p.V = "t", "unscripted"
		}
	}
	r.mu.Unlock()
}

func (r *c13Rec) us() int64 { return int64(time.Since(r.t0) / time.Microsecond) }

// next records a ping and returns the peer's treatment of it.
func (r *c13Rec) next(ctx context.Context) (c13Ping, int) {
	r.mu.Lock()
	defer r.mu.Unlock()
	n := len(r.obs.Pings)
	p := c13Ping{At: r.us(), DL: -1, Ret: -1}
	if ctx != nil {
		if dl, ok := ctx.Deadline(); ok {
			p.DL = int64(time.Until(dl) / time.Microsecond)
		}
	}
	if n < len(r.pattern) {
		p.O = r.pattern[n]
	} else {
		p.O = "u" // beyond the script: left unresolved (the owner closes meanwhile)
	}
	p.K = p.O
	if r.obs.Tr != "" {
		// transport dimension: the case says what concretely happens to this ping
		p.Cls = "unscripted"
		if n < len(r.obs.Cls) {
			p.Cls = r.obs.Cls[n]
		}
		p.O, p.V, p.K = c13MemPlay(p.Cls)
		if p.V == "latereply" {
			p.D = int64((r.ivl/2 + r.ivl/4) / time.Microsecond)
		}
		if r.over {
			r.after()
		}
		r.obs.Pings = append(r.obs.Pings, p)
		return p, len(r.obs.Pings) - 1
	}
	if strings.HasPrefix(p.O, "l") {
		p.O, p.V = "l", "held"
		p.H = int64(time.Duration(r.obs.Exp.Durs[n]) * r.ivl / time.Duration(r.obs.Exp.Unit) / time.Microsecond)
	}
	half := r.ivl / 2
	switch p.O {
	case "a":
		ds := []time.Duration{0, 0, r.ivl / 4, half - time.Microsecond}
		d := ds[r.rng.IntN(len(ds))]
		p.D, p.V = int64(d/time.Microsecond), "reply"
	case "t":
		if r.rng.IntN(3) == 0 {
			p.D, p.V = int64((half+r.ivl/4)/time.Microsecond), "latereply"
		} else {
			p.V = "ignore"
		}
	case "m":
		p.V = []string{"Method not found", "method not found", "ping: unknown method"}[r.rng.IntN(3)]
	case "c":
		p.V = []string{"rejected", "errreply", "rejected"}[r.rng.IntN(3)]
	case "u":
		p.V = "ignore"
	}
	if r.over {
		r.after()
	}
	r.obs.Pings = append(r.obs.Pings, p)
	return p, len(r.obs.Pings) - 1
}

// after counts keep-alive activity once the session is over (r.mu held); the third
// occurrence ends the quiet period: what is left behind has been seen.
func (r *c13Rec) after() {
	r.nAfter++
	if r.nAfter >= 3 {
		r.abortMu.Do(func() { close(r.abort) })
	}
}

// attempt records that the session tried to send a ping.
func (r *c13Rec) attempt() {
	r.mu.Lock()
	r.obs.Attempts = append(r.obs.Attempts, r.us())
	if r.over {
		r.after()
	}
	r.mu.Unlock()
}

// slotTime is the instant of an environment slot: eighths/8 of an interval after tick k.
func (r *c13Rec) slotTime(k int, eighths time.Duration) time.Duration {
	return time.Duration(k)*r.ivl + eighths*r.ivl/8
}

// pingWatch is a sending middleware that records every keep-alive ping attempt, including
// those the connection refuses locally.
func (r *c13Rec) pingWatch(next MethodHandler) MethodHandler {
	return func(ctx context.Context, method string, req Request) (Result, error) {
		if method == "ping" {
			r.attempt()
		}
		return next(ctx, method, req)
	}
}

// kaCount counts the keep-alive goroutines of this bubble; hint is the goroutine count at
// which there can be none (negative: always look).
//
// The goroutine count is the process's: goroutines outside the bubble (the runtime's, the test
// framework's, an earlier bubble's on their way out) make it differ from the hint now and
// then, so a count that is off is never taken for a keep-alive loop: only the goroutine dump
// decides. When no dump can be taken any more (c13DumpBudget) the census is marked as not
// inspected - the check script then refuses to give a verdict - instead of being guessed.
func (r *c13Rec) kaCount(hint int) int {
	if n := runtime.NumGoroutine(); n == hint {
		return 0
	}
	_, _, ka, ok := c13Bubble()
	if !ok {
		r.obs.Uninspected++
		return 0
	}
	return ka
}

// userTime is the instant at which the owner closes the session (the model's plan for the case).
func (r *c13Rec) userTime() time.Duration {
	return time.Duration(r.obs.Exp.UserPlan) * r.ivl / time.Duration(r.obs.Exp.Unit)
}

// ---------------------------------------------------------------------------
// level "func": scripted keepaliveSession

type c13Pinger struct {
	r      *c13Rec
	cancel *context.CancelFunc
	calls  atomic.Int64 // outstanding Ping calls
}

func (s *c13Pinger) Ping(ctx context.Context, _ *PingParams) error {
	s.calls.Add(1)
	defer s.calls.Add(-1)
	s.r.attempt()
	if err := ctx.Err(); err != nil {
		// a real session does not let out a ping whose context has already ended
		return fmt.Errorf("calling %q: %w", "ping", err)
	}
	p, idx := s.r.next(ctx)
	var err error
	switch p.O {
	case "l":
		// the transport holds the write, whatever the context says; the reply comes at once, after the deadline
		time.Sleep(time.Duration(p.H) * time.Microsecond)
		err = ctx.Err()
	case "a":
		if p.D > 0 {
			select {
			case <-time.After(time.Duration(p.D) * time.Microsecond):
			case <-ctx.Done():
				err = ctx.Err()
			}
		}
	case "t", "u":
		<-ctx.Done()
		err = ctx.Err()
	case "m":
		// what mcp.call returns for a -32601 reply
		err = fmt.Errorf("calling %q: %w", "ping", &jsonrpc.Error{Code: jsonrpc.CodeMethodNotFound, Message: p.V})
	case "c":
		if p.V == "errreply" {
			err = fmt.Errorf("calling %q: %w", "ping", &jsonrpc.Error{Code: jsonrpc.CodeInternalError, Message: "boom"})
		} else {
			err = fmt.Errorf("%w: calling %q: %v", ErrConnectionClosed, "ping", io.ErrClosedPipe)
		}
	}
	s.r.mu.Lock()
	s.r.obs.Pings[idx].Ret = s.r.us()
	s.r.mu.Unlock()
	return err
}

// Close is what keep-alive calls at the threshold; like the real sessions it cancels
// the keep-alive context.
func (s *c13Pinger) Close() error {
	r := s.r
	r.mu.Lock()
	r.obs.Closes++
	first := !r.over
	if first {
		r.over = true
		r.obs.Closed = r.us()
		r.obs.Ended = r.obs.Closed
	}
	r.mu.Unlock()
	(*s.cancel)()
	if first {
		close(r.endedCh)
	}
	return nil
}

func c13RunFunc(r *c13Rec, thr int) {
	o := r.obs
	sess := &c13Pinger{r: r}
	var cancel context.CancelFunc
	sess.cancel = &cancel
	logger := slog.New(slog.DiscardHandler)
	startKeepalive(sess, r.ivl, thr, &cancel, logger)
	o.Start = r.us()
	r.awaitEnd()
	r.mu.Lock()
	if !r.over {
		r.over = true
		o.UserClose = r.us()
		o.Ended = o.UserClose
		r.mu.Unlock()
		// what Close of a real session does: cancel keep-alive, then wait for outstanding calls
		cancel()
		if o.End != "inflight" && o.End != "held" {
			synctest.Wait()
			o.KAEarly = r.kaCount(r.g0)
		}
		// (every instant of a scenario is a multiple of a sixteenth of the interval; a ping that the loop
		// starts after the cancellation is waited for as well)
		for i := 0; i < 16*64 && sess.calls.Load() > 0; i++ {
			time.Sleep(r.ivl / 16)
			synctest.Wait()
		}
	} else {
		r.mu.Unlock()
	}
	r.census()
}

// ---------------------------------------------------------------------------
// levels "server" / "client": scripted Connection

type c13Conn struct {
	r    *c13Rec
	in   chan jsonrpc.Message
	done chan struct{}
	once sync.Once
	est  string // how the client session is to be established
	disc int    // fallback: how the peer rejects server/discover
}

func (c *c13Conn) Connect(context.Context) (Connection, error) { return c, nil }
func (c *c13Conn) SessionID() string                           { return "" }

func (c *c13Conn) Read(ctx context.Context) (jsonrpc.Message, error) {
	select {
	case m := <-c.in:
		return m, nil
	default:
	}
	select {
	case m := <-c.in:
		return m, nil
	case <-c.done:
		return nil, io.EOF
	case <-ctx.Done():
		return nil, ctx.Err()
	}
}

func (c *c13Conn) Close() error {
	c.r.mu.Lock()
	c.r.obs.Closes++
	c.r.mu.Unlock()
	c.once.Do(func() { close(c.done) })
	return nil
}

func (c *c13Conn) push(raw string) {
	m, err := jsonrpc.DecodeMessage([]byte(raw))
	if err != nil {
		panic("c13 harness: bad scripted message: " + err.Error())
	}
	select {
	case c.in <- m:
	case <-c.done:
	}
}

func (c *c13Conn) pushAfter(d time.Duration, raw string) {
	if d <= 0 {
		c.push(raw)
		return
	}
	time.AfterFunc(d, func() { c.push(raw) })
}

var c13Discs = []string{"method-not-found", "unsupported-nodata", "unsupported-legacy-list", "result-legacy-only", "internal-error", "unsupported-then-unknown"}

func (c *c13Conn) Write(ctx context.Context, msg jsonrpc.Message) error {
	select {
	case <-c.done:
		return io.ErrClosedPipe
	default:
	}
	// like the SDK's own transports: a write on an ended context is an error
	select {
	case <-ctx.Done():
		return ctx.Err()
	default:
	}
	data, err := jsonrpc.EncodeMessage(msg)
	if err != nil {
		return err
	}
	var w struct {
		ID     json.RawMessage `json:"id"`
		Method string          `json:"method"`
		Params struct {
			ProtocolVersion string `json:"protocolVersion"`
		} `json:"params"`
	}
	if err := json.Unmarshal(data, &w); err != nil {
		return err
	}
	switch {
	case w.Method == "ping" && len(w.ID) > 0:
		p, _ := c.r.next(nil)
		id := string(w.ID)
		switch p.O {
		case "l":
			// the write stalls (the peer is not draining its input) and cannot be interrupted; then the
			// ping goes out and is answered at once
			time.Sleep(time.Duration(p.H) * time.Microsecond)
			c.push(`{"jsonrpc":"2.0","id":` + id + `,"result":{}}`)
		case "a":
			c.pushAfter(time.Duration(p.D)*time.Microsecond, `{"jsonrpc":"2.0","id":`+id+`,"result":{}}`)
		case "t":
			if p.V == "latereply" {
				c.pushAfter(time.Duration(p.D)*time.Microsecond, `{"jsonrpc":"2.0","id":`+id+`,"result":{}}`)
			}
		case "m":
			c.push(`{"jsonrpc":"2.0","id":` + id + `,"error":{"code":-32601,"message":` + strconv.Quote(p.V) + `}}`)
		case "c":
			if p.V == "errreply" {
				c.push(`{"jsonrpc":"2.0","id":` + id + `,"error":{"code":-32603,"message":"boom"}}`)
			} else {
				// a delivery failure of this one message (what the streamable transports report)
				return fmt.Errorf("%w: scripted delivery failure", jsonrpc2.ErrRejected)
			}
		case "d":
			// the pipe is broken: a write error that is not a rejection of this one message
			return io.ErrClosedPipe
		case "u":
		}
	case w.Method == "" && string(w.ID) == `"init"`:
		// the server's reply to the peer's initialize: the handshake is complete
		c.r.mu.Lock()
		c.r.obs.HsAt = c.r.us()
		c.r.mu.Unlock()
	case w.Method == "server/discover" && len(w.ID) > 0:
		c.r.mu.Lock()
		c.r.obs.Probes++
		n := c.r.obs.Probes
		c.r.mu.Unlock()
		id := string(w.ID)
		reject := func(code int, msg, data string) {
			if data != "" {
				data = `,"data":` + data
			}
			c.push(`{"jsonrpc":"2.0","id":` + id + `,"error":{"code":` + strconv.Itoa(code) + `,"message":` + strconv.Quote(msg) + data + `}}`)
		}
		switch {
		case c.est == "modern":
			c.r.mu.Lock()
			c.r.obs.HsAt = c.r.us()
			c.r.mu.Unlock()
			c.push(`{"jsonrpc":"2.0","id":` + id + `,"result":{"supportedVersions":["2026-07-28","2025-11-25"],"capabilities":{}}}`)
		case c.est != "fallback" || c.disc == 0:
			reject(-32601, "Method not found", "")
		case c.disc == 1:
			reject(-32022, "unsupported protocol version", "")
		case c.disc == 2:
			reject(-32022, "unsupported protocol version", `{"supported":["2025-11-25","2025-06-18"],"requested":"2026-07-28"}`)
		case c.disc == 3:
			c.push(`{"jsonrpc":"2.0","id":` + id + `,"result":{"supportedVersions":["2025-11-25","2025-03-26"],"capabilities":{}}}`)
		case c.disc == 4:
			reject(-32603, "boom", "")
		default:
			if n == 1 {
				reject(-32022, "unsupported protocol version", `{"supported":["2026-07-28"],"requested":"2026-07-28"}`)
			} else {
				reject(-32601, "Method not found", "")
			}
		}
	case w.Method == "initialize" && len(w.ID) > 0:
		c.r.mu.Lock()
		c.r.obs.HsAt = c.r.us()
		c.r.mu.Unlock()
		v := w.Params.ProtocolVersion
		c.push(`{"jsonrpc":"2.0","id":` + string(w.ID) + `,"result":{"protocolVersion":` + strconv.Quote(v) +
			`,"capabilities":{},"serverInfo":{"name":"peer","version":"1"}}}`)
	case w.Method == "notifications/cancelled":
		c.r.mu.Lock()
		c.r.obs.Cancels++
		c.r.mu.Unlock()
	}
	return nil
}

type c13Session interface {
	Close() error
	Wait() error
}

func c13RunSession(r *c13Rec, thr int, level string, c c13Case) error {
	o := r.obs
	conn := &c13Conn{r: r, in: make(chan jsonrpc.Message, 64), done: make(chan struct{}), est: c.Est}
	legacy := []string{"2025-11-25", "2025-06-18", "2025-03-26", "2024-11-05"}
	ver := legacy[r.rng.IntN(len(legacy))]
	negotiated := func() string { return "" }
	// the context given to Connect; its cancel function is called at the slot's instant, or
	// when the scenario is over (c13Scenario)
	ctx, cancel := context.WithCancel(context.Background())
	r.cancel = cancel
	var sess c13Session
	impl := &Implementation{Name: "verif", Version: "1"}
	drain := o.End == "drain"
	started, release := make(chan struct{}), make(chan struct{})
	slow := `{"jsonrpc":"2.0","id":"slow","method":"tools/call","params":{"name":"slow","arguments":{}}}`
	if level == "server" {
		o.Hand = "none"
		handshake := func() {
			conn.push(`{"jsonrpc":"2.0","id":"init","method":"initialize","params":{"protocolVersion":` + strconv.Quote(ver) +
				`,"capabilities":{},"clientInfo":{"name":"peer","version":"1"}}}`)
			conn.push(`{"jsonrpc":"2.0","method":"notifications/initialized","params":{}}`)
		}
		switch {
		case c.Hs == 0: // the peer's initialize is waiting when Connect starts reading
			o.Hand = ver
			handshake()
		case c.Hs > 0: // the peer is connected and answers pings (as scripted) but initializes late
			o.Hand = ver
			time.AfterFunc(r.slotTime(c.Hs, 3)-time.Since(r.t0), handshake)
		}
		s := NewServer(impl, &ServerOptions{KeepAlive: r.ivl, KeepAliveFailureThreshold: thr})
		s.AddSendingMiddleware(r.pingWatch)
		// a request handler that takes a while and does not watch its context
		AddTool(s, &Tool{Name: "slow"}, func(context.Context, *CallToolRequest, struct{}) (*CallToolResult, struct{}, error) {
			close(started)
			<-release
			return &CallToolResult{}, struct{}{}, nil
		})
		ss, err := s.Connect(ctx, conn, nil)
		if err != nil {
			return err
		}
		sess = ss
		negotiated = func() string {
			if ip := ss.InitializeParams(); ip != nil {
				return ip.ProtocolVersion
			}
			return ""
		}
	} else {
		o.Hand = ver
		slow = `{"jsonrpc":"2.0","id":"slow","method":"sampling/createMessage","params":{"messages":[],"maxTokens":8}}`
		c := NewClient(impl, &ClientOptions{KeepAlive: r.ivl, KeepAliveFailureThreshold: thr,
			CreateMessageHandler: func(context.Context, *CreateMessageRequest) (*CreateMessageResult, error) {
				close(started)
				<-release
				return &CreateMessageResult{Model: "m", Role: "assistant", Content: &TextContent{Text: "x"}}, nil
			}})
		c.AddSendingMiddleware(r.pingWatch)
		// how the session is established: a legacy version asked for, or the latest one (by
		// default or spelled out) with the peer rejecting / accepting the server/discover probe
		copts := &ClientSessionOptions{ProtocolVersion: ver}
		if conn.est != "init" {
			o.Hand = "latest"
			if r.rng.IntN(2) == 0 {
				copts = nil
				o.Hand = "default"
			} else {
				copts = &ClientSessionOptions{ProtocolVersion: latestProtocolVersion}
			}
			if conn.est == "fallback" {
				conn.disc = r.rng.IntN(len(c13Discs))
				o.Disc = c13Discs[conn.disc]
			} else {
				o.Disc = "accepted"
			}
		}
		cs, err := c.Connect(ctx, conn, copts)
		if err != nil {
			return err
		}
		sess = cs
		negotiated = func() string {
			if ir := cs.InitializeResult(); ir != nil {
				return ir.ProtocolVersion
			}
			return ""
		}
	}
	defer func() {
		// what the session speaks: ping exists in every protocol version before 2026-07-28 (and
		// before any version has been agreed)
		o.Neg = negotiated()
		o.Pingable = o.Neg < protocolVersion20260728
	}()
	o.Start = r.us()
	if c.Cc >= 0 {
		time.AfterFunc(r.slotTime(c.Cc, 7)-time.Since(r.t0), func() {
			r.mu.Lock()
			o.CcAt = r.us()
			r.mu.Unlock()
			cancel()
		})
	}
	go func() {
		sess.Wait()
		r.mu.Lock()
		o.Ended = r.us()
		first := !r.over
		if first {
			r.over = true
			o.Closed = o.Ended
		}
		r.mu.Unlock()
		if first {
			close(r.endedCh)
		}
	}()
	running := false
	if drain {
		// an eighth of an interval before the owner closes, the peer makes a request whose handler blocks
		select {
		case <-r.endedCh:
		case <-time.After(r.userTime() - r.ivl/8 - time.Since(r.t0)):
			conn.push(slow)
			synctest.Wait()
			select {
			case <-started:
				running = true
			default:
				o.Exit = "harness: the gated request handler did not start"
			}
		}
	}
	r.awaitEnd()
	r.mu.Lock()
	over := r.over
	if !over {
		r.over = true
		o.UserClose = r.us()
	}
	r.mu.Unlock()
	if !over {
		n0 := runtime.NumGoroutine()
		closed := make(chan struct{})
		go func() { sess.Close(); close(closed) }()
		if o.End != "inflight" && o.End != "held" {
			// Close has begun and everything runnable has run (Close itself may be waiting for the
			// handler). With keep-alive gone there is one goroutine more (Close) and one less.
			synctest.Wait()
			hint := n0
			if c.Est == "modern" {
				hint = n0 + 1 // no loop was started: nothing leaves when Close begins
			}
			r.mu.Lock()
			for _, p := range o.Pings {
				if p.O == "m" {
					hint = n0 + 1 // the loop had already stopped: nothing leaves when Close begins
				}
			}
			r.mu.Unlock()
			if !running {
				hint = -1 // Close has already returned; the settle census below decides
				if o.End == "idle" {
					hint = r.g0
				}
			}
			o.KAEarly = r.kaCount(hint)
		}
		if running {
			select {
			case <-closed:
				o.Exit = "harness: Close returned while the handler was still running"
			case <-time.After(time.Duration(o.Drain) * r.ivl):
			}
			o.Released = r.us()
			close(release)
		}
		select {
		case <-closed:
		case <-time.After(20 * r.ivl):
		}
	} else if running {
		close(release)
	}
	r.census()
	if o.Tr != "" && over {
		r.lateCensus(thr)
	}
	return nil
}

// ---------------------------------------------------------------------------

// Goroutine dumps are only taken when the goroutine count is off; their total size is capped
// because with a leaking implementation every dump also lists the goroutines of earlier
// scenarios. With nothing leaking a dump is a few kilobytes: the cap is never reached then.
const c13DumpBudget = 1 << 30

var (
	c13Dumps     int
	c13DumpBytes int64
)

var (
	c13HdrRE    = regexp.MustCompile(`(?m)^goroutine \d+ \[[^\]]*synctest bubble (\d+)[^\]]*\]:$`)
	c13CreateRE = regexp.MustCompile(`created by (\S+)`)
)

// c13Bubble inspects the goroutines of the calling goroutine's synctest bubble other than
// the caller and the bubble's main goroutine: how many there are, where they were created,
// and how many of them are keep-alive loops (startKeepalive on their stack).
func c13Bubble() (others int, where string, keepalive int, ok bool) {
	if c13DumpBytes >= c13DumpBudget {
		return 0, "", 0, false
	}
	ok = true
	c13Dumps++
	defer func() {
		if f := os.Getenv("VERIF_C13_DUMPLOG"); f != "" {
			if fh, err := os.OpenFile(f, os.O_APPEND|os.O_CREATE|os.O_WRONLY, 0o644); err == nil {
				fmt.Fprintf(fh, "C13-DUMP %d %s others=%d ka=%d where=%s\n", c13Dumps, c13W.what, others, keepalive, where)
				fh.Close()
			}
		}
	}()
	buf := make([]byte, 1<<18)
	for {
		n := runtime.Stack(buf, true)
		if n < len(buf) {
			buf = buf[:n]
			c13DumpBytes += int64(n)
			break
		}
		buf = make([]byte, 2*len(buf))
	}
	blocks := strings.Split(string(buf), "\n\n")
	m := c13HdrRE.FindStringSubmatch(blocks[0])
	if m == nil {
		return 0, "", 0, true
	}
	tag := "synctest bubble " + m[1] + "]"
	var ws []string
	for _, b := range blocks[1:] {
		hdr, _, _ := strings.Cut(b, "\n")
		if !strings.Contains(hdr, tag) {
			continue
		}
		if strings.Contains(b, "synctest.Run(") || strings.Contains(b, "testingSynctestTest(") {
			continue // the bubble's root / main goroutine
		}
		others++
		if strings.Contains(b, "mcp.startKeepalive") {
			keepalive++
		}
		if c := c13CreateRE.FindStringSubmatch(b); c != nil {
			ws = append(ws, c[1])
		}
	}
	return others, strings.Join(ws, ";"), keepalive, true
}

// ---------------------------------------------------------------------------
// real-time watchdog (runs outside the bubbles)

var (
	c13Soft = 3 * time.Second  // a scenario running longer has its quiet period cut short
	c13Hard = 12 * time.Second // a scenario running longer is reported and the process exits
)

type c13Watchdog struct {
	mu      sync.Mutex
	active  bool
	what    string
	started time.Time // real time
	hurry   atomic.Bool
	flush   func() // writes out the observations of the scenarios that did finish
}

var c13W c13Watchdog

func (w *c13Watchdog) begin(what string) {
	w.mu.Lock()
	w.active, w.what, w.started = true, what, time.Now()
	w.hurry.Store(false)
	w.mu.Unlock()
}

func (w *c13Watchdog) end() {
	w.mu.Lock()
	w.active = false
	w.mu.Unlock()
}

// watch is started by the test function, outside any bubble: its clock is the real one.
func (w *c13Watchdog) watch() {
	for {
		time.Sleep(50 * time.Millisecond)
		w.mu.Lock()
		active, what, d := w.active, w.what, time.Since(w.started)
		w.mu.Unlock()
		if !active {
			continue
		}
		if d > c13Soft {
			w.hurry.Store(true)
		}
		if d > c13Hard {
			if w.flush != nil {
				w.flush()
			}
			fmt.Printf("\nC13-WATCHDOG scenario %s did not return within %v of real time\n", what, c13Hard)
			// Nothing that stops the world here (runtime.Stack would wait for ever for a goroutine
			// that spins inside the runtime): SIGQUIT makes the runtime print every goroutine from
			// the signal handler and exit.
			syscall.Kill(os.Getpid(), syscall.SIGQUIT)
			time.Sleep(5 * time.Second)
			os.Exit(3)
		}
	}
}

func c13Scenario(t *testing.T, c c13Case, level string, seed uint64) (o *c13Obs) {
	o = &c13Obs{ID: c.ID, Level: level, Pattern: c.Pattern, T: c.T, End: c.End, Drain: c.Drain, Pings: []c13Ping{}, Tr: c.Tr, Cls: c.Cls,
		Attempts: []int64{}, Released: -1, Hs: c.Hs, Cc: c.Cc, HsAt: -1, CcAt: -1, Est: c.Est, Pingable: true,
		Closed: -1, UserClose: -1, Ended: -1, Exit: "clean", Hand: "", Exp: c.c13Exp}
	c13W.begin(fmt.Sprintf("id=%d level=%s pattern=%s T=%d end=%s drain=%d hs=%d cc=%d seed=%d", c.ID, level,
		strings.Join(c.Pattern, "")+"-", c.T, c.End, c.Drain, c.Hs, c.Cc, seed))
	defer c13W.end()
	if o.Pattern == nil {
		o.Pattern = []string{}
	}
	if o.Exp.Ticks == nil {
		o.Exp.Ticks = []int{}
	}
	if o.Exp.Holds == nil {
		o.Exp.Holds = []int{}
	}
	if o.Exp.Durs == nil {
		o.Exp.Durs = []int{}
	}
	if o.Cls == nil {
		o.Cls = []string{}
	}
	lv := map[string]uint64{"func": 1, "server": 2, "client": 3, "httpc": 5, "https": 6, "sse": 7}[level]
	rng := rand.New(rand.NewPCG(seed, uint64(c.ID)*4+lv))
	ivls := []time.Duration{10 * time.Millisecond, time.Second, 20 * time.Second, 250 * time.Millisecond}
	ivl := ivls[rng.IntN(len(ivls))]
	o.I = int64(ivl / time.Microsecond)
	defer func() {
		// synctest.Test panics in this goroutine when the bubble cannot exit
		if p := recover(); p != nil {
			o.Exit = fmt.Sprint(p)
		}
	}()
	synctest.Test(t, func(t *testing.T) {
		r := &c13Rec{t0: time.Now(), ivl: ivl, pattern: c.Pattern, rng: rng, obs: o, abort: make(chan struct{}), endedCh: make(chan struct{})}
		g0 := runtime.NumGoroutine()
		r.g0 = g0
		var err error
		switch level {
		case "func":
			o.HsAt = 0
			c13RunFunc(r, c.T)
		case "httpc", "https", "sse":
			err = c13RunTransport(r, c.T, level, c)
		default:
			err = c13RunSession(r, c.T, level, c)
		}
		if err != nil {
			o.Exit = "connect: " + err.Error()
			return
		}
		// P4: a long quiet period; anything keep-alive left behind shows up as a ping attempt,
		// a goroutine, or a bubble that cannot exit. A keep-alive loop that the census has
		// already found alive is not given 24 hours of ticks, and the period ends early at
		// the third ping attempt or when the watchdog says that real time is running out.
		total, step := 24*time.Hour+100*ivl, 8*ivl
		if o.KAAlive > 0 {
			total = 100 * ivl
		}
		var waited time.Duration
	quiet:
		for waited < total {
			d := min(step, total-waited)
			select {
			case <-time.After(d):
				waited += d
			case <-r.abort:
				break quiet
			}
			step *= 8
			if c13W.hurry.Load() {
				o.QuietCut = true
				break
			}
		}
		o.Quiet = int64(waited / time.Microsecond)
		synctest.Wait()
		if d := runtime.NumGoroutine() - g0; d != 0 {
			// confirm on the goroutine dump: only goroutines of this bubble count
			if others, where, _, ok := c13Bubble(); ok {
				o.Left, o.LeftAt = others, where
			} else {
				o.Uninspected++
			}
		}
		if r.cancel != nil {
			r.cancel() // a Connect context that was kept alive ends with the scenario
		}
	})
	return o
}

func TestVerif_C13(t *testing.T) {
	in, outp := os.Getenv("VERIF_IN"), os.Getenv("VERIF_OUT")
	if in == "" || outp == "" {
		t.Skip("VERIF_IN/VERIF_OUT not set")
	}
	seed, _ := strconv.ParseUint(os.Getenv("VERIF_SEED"), 10, 64)
	fin, err := os.Open(in)
	if err != nil {
		t.Fatal(err)
	}
	defer fin.Close()
	fout, err := os.Create(outp)
	if err != nil {
		t.Fatal(err)
	}
	defer fout.Close()
	w := bufio.NewWriterSize(fout, 1<<20)
	var wmu sync.Mutex
	defer func() {
		wmu.Lock()
		w.Flush()
		wmu.Unlock()
	}()
	enc := json.NewEncoder(w)
	if ms, _ := strconv.Atoi(os.Getenv("VERIF_C13_HARD_MS")); ms > 0 {
		c13Hard = time.Duration(ms) * time.Millisecond
	}
	if ms, _ := strconv.Atoi(os.Getenv("VERIF_C13_SOFT_MS")); ms > 0 {
		c13Soft = time.Duration(ms) * time.Millisecond
	}
	c13W.flush = func() {
		if wmu.TryLock() {
			w.Flush()
			wmu.Unlock()
		}
	}
	go c13W.watch()
	sc := bufio.NewScanner(fin)
	sc.Buffer(make([]byte, 1<<16), 1<<22)
	n := 0
	for sc.Scan() {
		var c c13Case
		if err := json.Unmarshal(sc.Bytes(), &c); err != nil {
			t.Fatalf("bad case: %v", err)
		}
		for _, level := range c.Levels {
			if level != "func" && level != "server" && level != "client" && !(c.Tr == level && (level == "httpc" || level == "https" || level == "sse")) {
				t.Fatalf("bad level %q", level)
			}
			if c.Tr != "" && (c.Hs != 0 || c.Cc >= 0 || c.Est != "init" || c.End != "idle" || level == "func") {
				t.Fatalf("case %d: a case of the transport dimension is a plain one otherwise", c.ID)
			}
			if level == "func" && (c.Hs != 0 || c.Cc >= 0) || level == "client" && c.Hs != 0 || level != "client" && c.Est != "init" {
				t.Fatalf("case %d: level %s has no handshake slot %d / Connect context slot %d", c.ID, level, c.Hs, c.Cc)
			}
			o := c13Scenario(t, c, level, seed)
			wmu.Lock()
			err := enc.Encode(o)
			wmu.Unlock()
			if err != nil {
				t.Fatal(err)
			}
			n++
		}
	}
	if errors.Is(sc.Err(), bufio.ErrTooLong) || sc.Err() != nil {
		t.Fatal(sc.Err())
	}
	t.Logf("c13: %d scenarios", n)
}
