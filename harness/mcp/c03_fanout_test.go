//go:build verif

// Fan-out satellite of C03 (spec/Fanout.tla generates the scenarios, spec/FanoutMon.tla judges), public API only.
//
// A scenario is a PROGRAM executed by ONE goroutine over 1-3 sessions:
//
//	["F",0]  a notifying method that fans out over all sessions
//	         c2s: Client.AddRoots / Client.RemoveRoots     (a REAL mcp.Client connected to 2-3 REAL mcp.Servers)
//	         s2c: Server.ResourceUpdated                   (a REAL mcp.Server with 2-3 REAL subscribed clients, protocol
//	              2025-11-25 sessions and/or 2026-07-28 sessions with subscriptions/listen streams)
//	["N",i]  a per-session notifying method: ClientSession.NotifyProgress / ServerSession.NotifyProgress / ServerSession.Log
//	["C",i]  an ordinary call: ClientSession.CallTool / ServerSession.CreateMessage
//
// plus the environment's choices: the messages that are slow to leave (armS: held in a sending middleware of the
// sender), the notifications whose handler is slow (armH: held in the peer's handler) and the order in which the gates
// are released (rel).  Everything runs in a testing/synctest bubble over in-memory transports; a gate is released only
// when the whole bubble is durably blocked (the same discipline as LateRelease in Fanout.tla) and after delay_ms of
// virtual time, so a method that returns early - or gives up on a slow session - has every opportunity to be overtaken.
//
// The log (VERIF_OUT, ndjson) records for every op its issue and the return of its method, and for every message the
// start and the end of the peer's handler, identified by a per-message tag (resource URI / progress message / log
// data / tool argument / system prompt; the k-th roots/list_changed notification a server sees is attributed to the
// k-th fan-out op, which is the most lenient attribution there is).
package mcp_test

import (
	"bufio"
	"bytes"
	"context"
	"encoding/json"
	"fmt"
	"os"
	"strconv"
	"strings"
	"sync"
	"testing"
	"testing/synctest"
	"time"

	"github.com/modelcontextprotocol/go-sdk/mcp"
)

type foScenario struct {
	ID    string   `json:"id"`
	Dir   string   `json:"dir"`  // "c2s" | "s2c"
	Vers  []string `json:"vers"` // per session: "legacy" (2025-11-25) | "modern" (2026-07-28)
	Prog  [][]any  `json:"prog"` // [["F",0],["N",1],["C",2]]
	ArmS  [][]int  `json:"armS"` // [[op,session],...]
	ArmH  [][]int  `json:"armH"`
	Rel   [][]any  `json:"rel"`      // [["s",op,session],["h",op,session],...]
	NMeth string   `json:"nmeth"`    // s2c legacy: "progress" | "log"
	FMeth string   `json:"fmeth"`    // c2s: "add" | "remove" | "alt"
	Delay int      `json:"delay_ms"` // virtual time a held gate stays closed after the bubble has come to rest
}

type foLog struct {
	mu    sync.Mutex
	buf   bytes.Buffer // one scenario's log; appended to VERIF_OUT in one piece when the scenario is over
	seq   int
	start time.Time
}

func (l *foLog) emit(ev string, op, s int, kv ...any) {
	l.mu.Lock()
	defer l.mu.Unlock()
	l.seq++
	m := map[string]any{"ev": ev, "op": op, "s": s, "seq": l.seq, "t": int64(time.Since(l.start))}
	for i := 0; i+1 < len(kv); i += 2 {
		m[kv[i].(string)] = kv[i+1]
	}
	b, _ := json.Marshal(m)
	l.buf.Write(b)
	l.buf.WriteByte('\n')
}

type foKey struct {
	g     string // "s" send gate, "h" handler gate
	op, s int
}

type foRun struct {
	log  *foLog
	sc   *foScenario
	ns   int
	mu   sync.Mutex
	armS map[[2]int]bool
	armH map[[2]int]bool
	held map[foKey]chan struct{} // gates somebody is waiting at
	ord  []foKey                 // in the order they were reached
	on   bool                    // the program is running (set-up traffic is not gated)
	sidx map[any]int             // sender-side session -> index
	fops []int                   // the fan-out ops of the program, in order
	nsnd []int                   // c2s: roots/list_changed notifications that entered the sending path, per session
	nrcv []int                   // c2s: roots/list_changed notifications handled, per server
}

func foKind(op []any) string { return op[0].(string) }
func foSess(op []any) int    { return int(op[1].(float64)) }

// hold blocks at a gate until the environment releases it (or ctx ends).
func (r *foRun) hold(ctx context.Context, k foKey) {
	ch := make(chan struct{})
	r.mu.Lock()
	r.held[k] = ch
	r.ord = append(r.ord, k)
	r.mu.Unlock()
	r.log.emit(k.g+".held", k.op, k.s)
	select {
	case <-ch:
	case <-ctx.Done():
		r.log.emit(k.g+".ctxdone", k.op, k.s)
	}
}

func (r *foRun) release(k foKey, scripted bool) {
	r.mu.Lock()
	ch := r.held[k]
	delete(r.held, k)
	for i, o := range r.ord {
		if o == k {
			r.ord = append(r.ord[:i:i], r.ord[i+1:]...)
			break
		}
	}
	r.mu.Unlock()
	if ch != nil {
		r.log.emit("rel", k.op, k.s, "gate", k.g, "scripted", scripted)
		close(ch)
	}
}

// handler is the body of every peer-side handler: start, optional slowness, end.
func (r *foRun) handler(ctx context.Context, op, s int, kind, method string) {
	r.log.emit("h.start", op, s, "kind", kind, "method", method)
	r.mu.Lock()
	slow := kind != "C" && r.armH[[2]int{op, s}]
	r.mu.Unlock()
	if slow {
		r.hold(ctx, foKey{"h", op, s})
	}
	r.log.emit("h.end", op, s, "kind", kind, "method", method)
}

func foAtoi(s string) int {
	n, err := strconv.Atoi(strings.TrimPrefix(strings.TrimPrefix(s, "file:///u"), "op"))
	if err != nil {
		return 0
	}
	return n
}

// opOf maps a message in the SENDING path to its op (0: not a message of the program).
func (r *foRun) opOf(method string, req mcp.Request, s int) int {
	switch p := req.GetParams().(type) {
	case *mcp.ProgressNotificationParams:
		return foAtoi(p.Message)
	case *mcp.LoggingMessageParams:
		if d, ok := p.Data.(string); ok {
			return foAtoi(d)
		}
	case *mcp.ResourceUpdatedNotificationParams:
		return foAtoi(p.URI)
	case *mcp.CallToolParams:
		if a, ok := p.Arguments.(map[string]any); ok {
			if n, ok := a["op"].(int); ok {
				return n
			}
		}
	case *mcp.CreateMessageParams:
		return foAtoi(p.SystemPrompt)
	case *mcp.CreateMessageWithToolsParams:
		return foAtoi(p.SystemPrompt)
	case *mcp.RootsListChangedParams:
		r.mu.Lock()
		defer r.mu.Unlock()
		r.nsnd[s]++
		if n := r.nsnd[s]; n <= len(r.fops) {
			return r.fops[n-1]
		}
	}
	return 0
}

// sendGate is the sending middleware of the sender: the explicit "on its way to the transport" step.
func (r *foRun) sendGate(next mcp.MethodHandler) mcp.MethodHandler {
	return func(ctx context.Context, method string, req mcp.Request) (mcp.Result, error) {
		r.mu.Lock()
		on := r.on
		s := r.sidx[any(req.GetSession())]
		r.mu.Unlock()
		if !on || s == 0 {
			return next(ctx, method, req)
		}
		op := r.opOf(method, req, s)
		if op == 0 {
			return next(ctx, method, req)
		}
		r.log.emit("s.enter", op, s, "method", method)
		r.mu.Lock()
		slow := r.armS[[2]int{op, s}]
		r.mu.Unlock()
		if slow {
			r.hold(context.Background(), foKey{"s", op, s}) // a slow hook does not look at the context
		}
		r.log.emit("s.pass", op, s, "method", method)
		return next(ctx, method, req)
	}
}

const foLegacy = "2025-11-25"

func (r *foRun) run(t *testing.T) {
	ctx := context.Background()
	sc := r.sc
	r.ns = len(sc.Vers)
	r.nsnd, r.nrcv = make([]int, r.ns+1), make([]int, r.ns+1)
	for k, op := range sc.Prog {
		if foKind(op) == "F" {
			r.fops = append(r.fops, k+1)
		}
	}
	for _, a := range sc.ArmS {
		r.armS[[2]int{a[0], a[1]}] = true
	}
	for _, a := range sc.ArmH {
		r.armH[[2]int{a[0], a[1]}] = true
	}
	impl := func(n string) *mcp.Implementation { return &mcp.Implementation{Name: n, Version: "1"} }
	copt := func(v string) *mcp.ClientSessionOptions {
		if v == "legacy" {
			return &mcp.ClientSessionOptions{ProtocolVersion: foLegacy}
		}
		return nil
	}
	var cses []*mcp.ClientSession
	var sses []*mcp.ServerSession
	var exec func(k int, op []any) error
	setupErr := func(err error) { r.log.emit("setup.error", 0, 0, "err", err.Error()) }

	if sc.Dir == "c2s" {
		client := mcp.NewClient(impl("c"), nil)
		client.AddSendingMiddleware(r.sendGate)
		npre := len(sc.Prog)
		for k := 1; k <= npre; k++ {
			client.AddRoots(&mcp.Root{Name: fmt.Sprintf("pre%d", k), URI: fmt.Sprintf("file:///pre%d", k)})
		}
		for i := 1; i <= r.ns; i++ {
			i := i
			server := mcp.NewServer(impl(fmt.Sprintf("s%d", i)), &mcp.ServerOptions{
				RootsListChangedHandler: func(ctx context.Context, _ *mcp.RootsListChangedRequest) {
					r.mu.Lock()
					r.nrcv[i]++
					op := 0
					if n := r.nrcv[i]; n <= len(r.fops) {
						op = r.fops[n-1]
					}
					r.mu.Unlock()
					r.handler(ctx, op, i, "F", "notifications/roots/list_changed")
				},
				ProgressNotificationHandler: func(ctx context.Context, req *mcp.ProgressNotificationServerRequest) {
					r.handler(ctx, foAtoi(req.Params.Message), i, "N", "notifications/progress")
				},
			})
			server.AddTool(&mcp.Tool{Name: "t", InputSchema: json.RawMessage(`{"type":"object"}`)},
				func(ctx context.Context, req *mcp.CallToolRequest) (*mcp.CallToolResult, error) {
					var a struct {
						Op int `json:"op"`
					}
					json.Unmarshal(req.Params.Arguments, &a)
					r.handler(ctx, a.Op, i, "C", "tools/call")
					return &mcp.CallToolResult{Content: []mcp.Content{&mcp.TextContent{Text: "ok"}}}, nil
				})
			ct, st := mcp.NewInMemoryTransports()
			ss, err := server.Connect(ctx, st, nil)
			if err != nil {
				setupErr(err)
				return
			}
			cs, err := client.Connect(ctx, ct, copt(sc.Vers[i-1]))
			if err != nil {
				setupErr(err)
				return
			}
			r.mu.Lock()
			r.sidx[any(cs)] = i
			r.mu.Unlock()
			cses, sses = append(cses, cs), append(sses, ss)
		}
		exec = func(k int, op []any) error {
			switch foKind(op) {
			case "F":
				rm := sc.FMeth == "remove" || (sc.FMeth == "alt" && k%2 == 0)
				if rm {
					client.RemoveRoots(fmt.Sprintf("file:///pre%d", k))
				} else {
					client.AddRoots(&mcp.Root{Name: fmt.Sprintf("r%d", k), URI: fmt.Sprintf("file:///r%d", k)})
				}
				return nil
			case "N":
				return cses[foSess(op)-1].NotifyProgress(ctx, &mcp.ProgressNotificationParams{ProgressToken: "p", Message: fmt.Sprintf("op%d", k), Progress: float64(k)})
			default:
				res, err := cses[foSess(op)-1].CallTool(ctx, &mcp.CallToolParams{Name: "t", Arguments: map[string]any{"op": k}})
				if err == nil && res.IsError {
					err = fmt.Errorf("tool error")
				}
				return err
			}
		}
	} else {
		server := mcp.NewServer(impl("s"), &mcp.ServerOptions{
			SubscribeHandler:   func(context.Context, *mcp.SubscribeRequest) error { return nil },
			UnsubscribeHandler: func(context.Context, *mcp.UnsubscribeRequest) error { return nil },
		})
		server.AddSendingMiddleware(r.sendGate)
		for _, k := range r.fops { // the resources capability (with subscribe) is advertised only when there are resources
			uri := fmt.Sprintf("file:///u%d", k)
			server.AddResource(&mcp.Resource{URI: uri, Name: fmt.Sprintf("u%d", k)}, func(context.Context, *mcp.ReadResourceRequest) (*mcp.ReadResourceResult, error) {
				return &mcp.ReadResourceResult{Contents: []*mcp.ResourceContents{{URI: uri, Text: "x"}}}, nil
			})
		}
		for i := 1; i <= r.ns; i++ {
			i := i
			client := mcp.NewClient(impl(fmt.Sprintf("c%d", i)), &mcp.ClientOptions{
				ResourceUpdatedHandler: func(ctx context.Context, req *mcp.ResourceUpdatedNotificationRequest) {
					r.handler(ctx, foAtoi(req.Params.URI), i, "F", "notifications/resources/updated")
				},
				ProgressNotificationHandler: func(ctx context.Context, req *mcp.ProgressNotificationClientRequest) {
					r.handler(ctx, foAtoi(req.Params.Message), i, "N", "notifications/progress")
				},
				LoggingMessageHandler: func(ctx context.Context, req *mcp.LoggingMessageRequest) {
					d, _ := req.Params.Data.(string)
					r.handler(ctx, foAtoi(d), i, "N", "notifications/message")
				},
				CreateMessageHandler: func(ctx context.Context, req *mcp.CreateMessageRequest) (*mcp.CreateMessageResult, error) {
					r.handler(ctx, foAtoi(req.Params.SystemPrompt), i, "C", "sampling/createMessage")
					return &mcp.CreateMessageResult{Model: "m", Role: "assistant", Content: &mcp.TextContent{Text: "ok"}}, nil
				},
			})
			ct, st := mcp.NewInMemoryTransports()
			ss, err := server.Connect(ctx, st, nil)
			if err != nil {
				setupErr(err)
				return
			}
			cs, err := client.Connect(ctx, ct, copt(sc.Vers[i-1]))
			if err != nil {
				setupErr(err)
				return
			}
			for _, k := range r.fops {
				if err := cs.Subscribe(ctx, &mcp.SubscribeParams{URI: fmt.Sprintf("file:///u%d", k)}); err != nil {
					setupErr(err)
					return
				}
			}
			if sc.Vers[i-1] == "legacy" {
				if err := cs.SetLoggingLevel(ctx, &mcp.SetLoggingLevelParams{Level: "debug"}); err != nil {
					setupErr(err)
					return
				}
			}
			r.mu.Lock()
			r.sidx[any(ss)] = i
			r.mu.Unlock()
			cses, sses = append(cses, cs), append(sses, ss)
		}
		exec = func(k int, op []any) error {
			switch foKind(op) {
			case "F":
				return server.ResourceUpdated(ctx, &mcp.ResourceUpdatedNotificationParams{URI: fmt.Sprintf("file:///u%d", k)})
			case "N":
				ss := sses[foSess(op)-1]
				if sc.NMeth == "log" && sc.Vers[foSess(op)-1] == "legacy" {
					return ss.Log(ctx, &mcp.LoggingMessageParams{Level: "info", Data: fmt.Sprintf("op%d", k)})
				}
				return ss.NotifyProgress(ctx, &mcp.ProgressNotificationParams{ProgressToken: "p", Message: fmt.Sprintf("op%d", k), Progress: float64(k)})
			default:
				_, err := sses[foSess(op)-1].CreateMessage(ctx, &mcp.CreateMessageParams{MaxTokens: 10, SystemPrompt: fmt.Sprintf("op%d", k)})
				return err
			}
		}
	}
	synctest.Wait()
	time.Sleep(100 * time.Millisecond) // set-up traffic (initialized, listen acknowledgements, debounced list-changed) is out of the way
	synctest.Wait()
	for i, cs := range cses {
		want := "2026-07-28"
		if sc.Vers[i] == "legacy" {
			want = foLegacy
		}
		if got := cs.InitializeResult().ProtocolVersion; got != want {
			setupErr(fmt.Errorf("session %d negotiated %s, want %s", i+1, got, want))
			return
		}
	}
	r.log.emit("cfg", 0, 0, "dir", sc.Dir, "ns", r.ns, "vers", sc.Vers, "nmeth", sc.NMeth, "fmeth", sc.FMeth)
	r.mu.Lock()
	r.on = true
	r.mu.Unlock()

	// the ONE goroutine that executes the program
	done := make(chan struct{})
	go func() {
		defer close(done)
		for k0, op := range sc.Prog {
			k := k0 + 1
			targets := []int{}
			if foKind(op) == "F" {
				for i := 1; i <= r.ns; i++ {
					targets = append(targets, i)
				}
			} else {
				targets = append(targets, foSess(op))
			}
			r.log.emit("issue", k, 0, "kind", foKind(op), "targets", targets)
			err := exec(k, op)
			es := ""
			if err != nil {
				es = err.Error()
			}
			r.log.emit("ret", k, 0, "kind", foKind(op), "err", err != nil, "msg", es)
		}
	}()

	// the environment: release one gate whenever nothing else can move, in the order TLC chose
	rel := []foKey{}
	for _, x := range sc.Rel {
		rel = append(rel, foKey{x[0].(string), int(x[1].(float64)), int(x[2].(float64))})
	}
	finished := func() bool {
		select {
		case <-done:
			return true
		default:
			return false
		}
	}
	stuck := false
	for n := 0; n < 1000; n++ {
		synctest.Wait()
		r.mu.Lock()
		var pick *foKey
		for j, k := range rel {
			if _, ok := r.held[k]; ok {
				kk := k
				pick = &kk
				rel = append(rel[:j:j], rel[j+1:]...)
				break
			}
		}
		scripted := pick != nil
		if pick == nil && len(r.ord) > 0 {
			kk := r.ord[0]
			pick = &kk
		}
		r.mu.Unlock()
		if pick == nil {
			if !finished() {
				stuck = true
			}
			break
		}
		// "slow" is a duration: virtual time passes while the gate is closed (well below the 10 s that notifySessions
		// allows one fan-out; at most three gates are armed per scenario)
		time.Sleep(time.Duration(sc.Delay) * time.Millisecond)
		r.release(*pick, scripted)
	}
	synctest.Wait()
	r.log.emit("final", 0, 0, "senderDone", finished(), "stuck", stuck)
	// clean-up
	for _, cs := range cses {
		cs.Close()
	}
	for _, ss := range sses {
		ss.Wait()
	}
	synctest.Wait()
	<-done
}

func TestVerif_C03Fanout(t *testing.T) {
	in, outp := os.Getenv("VERIF_IN"), os.Getenv("VERIF_OUT")
	if in == "" || outp == "" {
		t.Skip("VERIF_IN/VERIF_OUT not set")
	}
	f, err := os.Create(outp)
	if err != nil {
		t.Fatal(err)
	}
	defer f.Close()
	w := bufio.NewWriterSize(f, 1<<20)
	defer w.Flush()
	var wmu sync.Mutex
	fin, err := os.Open(in)
	if err != nil {
		t.Fatal(err)
	}
	defer fin.Close()
	var scens []*foScenario
	scan := bufio.NewScanner(fin)
	scan.Buffer(make([]byte, 1<<20), 1<<26)
	for scan.Scan() {
		if strings.TrimSpace(scan.Text()) == "" {
			continue
		}
		s := new(foScenario)
		if err := json.Unmarshal(scan.Bytes(), s); err != nil {
			t.Fatalf("bad scenario: %v", err)
		}
		scens = append(scens, s)
	}
	par, _ := strconv.Atoi(os.Getenv("VERIF_PAR"))
	if par < 1 {
		par = 4
	}
	// the scenarios are independent bubbles: a few of them run side by side, each with its own log
	one := func(s *foScenario) {
		l := &foLog{start: time.Now()}
		l.emit("reset", 0, 0, "trace", s.ID)
		defer func() {
			if p := recover(); p != nil {
				l.emit("panic", 0, 0, "msg", fmt.Sprint(p))
			}
			wmu.Lock()
			w.Write(l.buf.Bytes())
			wmu.Unlock()
		}()
		t.Run(s.ID, func(t *testing.T) {
			defer func() {
				if p := recover(); p != nil {
					if msg := fmt.Sprint(p); strings.HasPrefix(msg, "deadlock: main bubble goroutine has exited") {
						l.emit("bubble.leak", 0, 0, "msg", msg) // goroutines outliving the scenario: C05's business, not judged here
					} else {
						l.emit("panic", 0, 0, "msg", msg)
					}
				}
			}()
			synctest.Test(t, func(t *testing.T) {
				l.mu.Lock()
				l.start = time.Now()
				l.mu.Unlock()
				r := &foRun{log: l, sc: s, armS: map[[2]int]bool{}, armH: map[[2]int]bool{}, held: map[foKey]chan struct{}{}, sidx: map[any]int{}}
				r.run(t)
			})
		})
	}
	ch := make(chan *foScenario)
	var wg sync.WaitGroup
	for i := 0; i < par; i++ {
		wg.Add(1)
		go func() {
			defer wg.Done()
			for s := range ch {
				one(s)
			}
		}()
	}
	for _, s := range scens {
		ch <- s
	}
	close(ch)
	wg.Wait()
}
