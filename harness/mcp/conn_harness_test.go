//go:build verif

// Scenario harness for the connection-layer properties C01–C05.
//
// A scenario is a script of ENVIRONMENT actions (start a call, cancel it, let a
// transport write return with some outcome, deliver a message or an error to
// the reader, let a handler return, Close, Wait, advance virtual time).  It is
// executed against a REAL ClientSession or ServerSession (public API) over a
// scripted mcp.Transport, inside a testing/synctest bubble: after every action
// the harness waits until every SDK goroutine is durably blocked, so each
// script is one deterministic schedule at the seam level.  Everything observable
// is logged as ndjson (VERIF_OUT) and judged by TLA+ monitors (spec/ConnMon.tla);
// with the `verif` hooks every critical section of jsonrpc2.Connection is
// logged as well and validated against spec/Conn.tla.
package mcp

import (
	"bufio"
	"context"
	"encoding/json"
	"errors"
	"fmt"
	"io"
	"math"
	"math/rand/v2"
	"os"
	"regexp"
	"runtime"
	"strconv"
	"strings"
	"sync"
	"sync/atomic"
	"testing"
	"testing/synctest"
	"time"

	"github.com/modelcontextprotocol/go-sdk/internal/jsonrpc2"
	"github.com/modelcontextprotocol/go-sdk/jsonrpc"
)

// ---------------------------------------------------------------- logging

type vLog struct {
	mu    sync.Mutex
	w     *bufio.Writer
	seq   int
	start time.Time
}

func (l *vLog) emit(ev string, kv ...any) {
	l.mu.Lock()
	defer l.mu.Unlock()
	l.seq++
	m := map[string]any{"ev": ev, "seq": l.seq, "t": int64(time.Since(l.start))}
	for i := 0; i+1 < len(kv); i += 2 {
		m[kv[i].(string)] = kv[i+1]
	}
	b, _ := json.Marshal(m)
	l.w.Write(b)
	l.w.WriteByte('\n')
	if ev == "reset" || ev == "step" || ev == "final" || ev == "quiesce1" {
		l.w.Flush() // a crash of the process must not lose the scenario in flight
	}
}

// ---------------------------------------------------------------- scripted transport

type vWrite struct {
	n      int
	kind   string // call | resp | notif
	id     string // JSON-RPC id as string ("" for notifications)
	method string
	cref   string // for notifications/cancelled: the id being cancelled
	msg    jsonrpc.Message
	decide chan string
}

type vRead struct {
	msg  jsonrpc.Message
	err  error
	desc []any // logged as "rd.read" when the reader actually consumes the message
}

type vConn struct {
	autoOK bool // drain stage: writes that begin from now on succeed at once
	log    *vLog
	mu     sync.Mutex
	rd     chan vRead
	closed chan struct{}
	once   sync.Once

	resolve func(kind, id, cref string) string // harness names for responses (request tag) and cancel notices (call name)
	gated   bool
	faults  map[int]string // auto mode: outcome of the n-th write (1-based) when not "ok"
	nwrites int
	pending []*vWrite
	written []*vWrite // writes that returned ok, in order
	// slowProgress: a progress notification spends this long (virtual time) inside Write (a slow peer / transport)
	slowProgress time.Duration
}

var errVerifBroken = errors.New("verif: broken pipe")
var errVerifCause = errors.New("verif: the caller gave up (cancellation cause)")

func newVConn(l *vLog) *vConn {
	return &vConn{log: l, rd: make(chan vRead, 256), closed: make(chan struct{}), faults: map[int]string{}}
}

func (c *vConn) Connect(context.Context) (Connection, error) { return c, nil }
func (c *vConn) SessionID() string                           { return "" }

func (c *vConn) Read(ctx context.Context) (jsonrpc.Message, error) {
	// a closed transport delivers nothing more, even if messages are still queued
	select {
	case <-c.closed:
		c.log.emit("rd.err", "kind", "closed")
		return nil, io.EOF
	default:
	}
	select {
	case r := <-c.rd:
		if r.err != nil {
			c.log.emit("rd.err", "kind", r.err.Error())
			return nil, r.err
		}
		if r.desc != nil {
			c.log.emit("rd.read", r.desc...)
		}
		return r.msg, nil
	case <-c.closed:
		c.log.emit("rd.err", "kind", "closed")
		return nil, io.EOF
	case <-ctx.Done():
		return nil, ctx.Err()
	}
}

var vRefRe = regexp.MustCompile(`"(?:k|message)":"([^"]*)"`)

func vClassify(msg jsonrpc.Message) (kind, id, method, cref, ref string) {
	switch m := msg.(type) {
	case *jsonrpc.Request:
		method = m.Method
		if mm := vRefRe.FindSubmatch(m.Params); mm != nil {
			ref = string(mm[1])
		}
		if m.ID.IsValid() {
			kind, id = "call", vIDText(m.ID)
		} else {
			kind = "notif"
			if m.Method == "notifications/cancelled" {
				var p struct {
					RequestID any `json:"requestId"`
				}
				json.Unmarshal(m.Params, &p)
				cref = fmt.Sprint(p.RequestID)
			}
		}
	case *jsonrpc.Response:
		kind, id = "resp", vIDText(m.ID)
	}
	return
}

// vIDText renders a JSON-RPC id the way it looks on the wire, so that the integer 7 and the string "7" stay apart.
func vIDText(id jsonrpc.ID) string {
	if s, ok := id.Raw().(string); ok {
		return strconv.Quote(s)
	}
	return fmt.Sprint(id.Raw())
}

func (c *vConn) Write(ctx context.Context, msg jsonrpc.Message) error {
	kind, id, method, cref, ref := vClassify(msg)
	if ref == "" && c.resolve != nil {
		ref = c.resolve(kind, id, cref)
	}
	c.mu.Lock()
	c.nwrites++
	w := &vWrite{n: c.nwrites, kind: kind, id: id, method: method, cref: cref, msg: msg, decide: make(chan string, 1)}
	outcome := ""
	select {
	case <-c.closed:
		outcome = "broken"
	default:
		if c.gated && !c.autoOK {
			c.pending = append(c.pending, w)
		} else if f, ok := c.faults[w.n]; ok && !c.autoOK {
			outcome = f
		} else {
			outcome = "ok"
		}
	}
	c.mu.Unlock()
	errClass := ""
	if r, ok := msg.(*jsonrpc.Response); ok && r.Error != nil {
		var we *jsonrpc.Error
		if errors.As(r.Error, &we) {
			errClass = strconv.FormatInt(we.Code, 10)
		} else {
			errClass = "err"
		}
	}
	c.log.emit("wr.begin", "w", w.n, "kind", kind, "id", id, "method", method, "cref", cref, "rerr", errClass, "ref", ref)
	if c.slowProgress > 0 && kind == "notif" && method == "notifications/progress" && outcome == "ok" {
		select {
		case <-time.After(c.slowProgress):
		case <-c.closed:
			outcome = "broken"
		case <-ctx.Done():
			outcome = "ctxdone"
		}
	}
	if outcome == "" {
		select {
		case outcome = <-w.decide:
		case <-c.closed:
			outcome = "broken"
		case <-ctx.Done():
			outcome = "ctxdone"
		}
		c.mu.Lock()
		for i, p := range c.pending {
			if p == w {
				c.pending = append(c.pending[:i], c.pending[i+1:]...)
				break
			}
		}
		c.mu.Unlock()
	}
	if outcome == "stall" {
		c.log.emit("wr.stall", "w", w.n, "kind", kind, "id", id)
		// the peer stopped draining: block until the transport is closed or the writer's context ends
		select {
		case <-c.closed:
			outcome = "broken"
		case <-ctx.Done():
			c.log.emit("wr.end", "w", w.n, "kind", kind, "id", id, "method", method, "cref", cref, "ref", ref, "outcome", "ctx")
			return ctx.Err()
		}
	}
	if outcome == "ctxdone" {
		c.log.emit("wr.end", "w", w.n, "kind", kind, "id", id, "method", method, "cref", cref, "ref", ref, "outcome", "ctx")
		return ctx.Err()
	}
	c.log.emit("wr.end", "w", w.n, "kind", kind, "id", id, "method", method, "cref", cref, "ref", ref, "outcome", outcome)
	switch outcome {
	case "ok":
		c.mu.Lock()
		c.written = append(c.written, w)
		c.mu.Unlock()
		return nil
	case "rejected":
		return fmt.Errorf("%w: verif", jsonrpc2.ErrRejected)
	default:
		return errVerifBroken
	}
}

func (c *vConn) Close() error {
	c.once.Do(func() {
		c.log.emit("tr.close")
		close(c.closed)
	})
	return nil
}

// harnessClose is the clean-up close issued by the harness itself (not by the SDK).
func (c *vConn) harnessClose() {
	c.once.Do(func() {
		c.log.emit("tr.close.harness")
		close(c.closed)
	})
}

func (c *vConn) findPending(sel string) *vWrite {
	c.mu.Lock()
	defer c.mu.Unlock()
	for _, p := range c.pending {
		if sel == "any" || sel == p.kind+":"+p.id || (p.kind == "notif" && sel == "notif:"+p.method+":"+p.cref) || (p.kind == "notif" && sel == "notif:"+p.method) {
			return p
		}
	}
	return nil
}

func (c *vConn) findWritten(kind, method string, nth int) *vWrite {
	c.mu.Lock()
	defer c.mu.Unlock()
	k := 0
	for _, w := range c.written {
		if w.kind == kind && (method == "" || w.method == method) {
			if k == nth {
				return w
			}
			k++
		}
	}
	return nil
}

// ---------------------------------------------------------------- scenario

type vScenario struct {
	ID     string          `json:"id"`
	Side   string          `json:"side"` // client | server
	Gated  bool            `json:"gated"`
	Faults map[string]string `json:"faults"` // auto mode: write number (after the handshake) -> outcome
	// Stubborn: handlers notice the cancellation of their request but keep running until the script lets them return
	Stubborn bool `json:"stubborn,omitempty"`
	// SlowProgressMs: every progress notification spends that long (virtual ms) inside the transport's Write
	SlowProgressMs int `json:"slowprogress,omitempty"`
	Steps  [][]any         `json:"steps"`
	// CS: critical-section level scheduling. Every call of jsonrpc2.Connection.updateInFlight waits at a gate
	// (verif hook VerifEnter); the harness decides, seeded, which waiting critical section runs next and when the
	// next environment action of the script is issued in between.
	CS     bool   `json:"cs"`
	CSSeed uint64 `json:"csseed"`
	// CSDir (with CS): the SCRIPT decides which waiting critical section runs next (step ["cs", <function>]); nothing
	// is released between steps.  Scripts of this kind are behaviours of Conn.tla generated by TLC (ConnGenCS).
	CSDir bool `json:"csdir"`
	// Logging: the session runs over a LoggingTransport wrapped around the scripted transport
	Logging bool `json:"logging"`
	// RawInit (server side only): no handshake is performed; the script delivers `initialize` itself
	// (step "init") and its handling is gated like any other handler (request tag "init").
	RawInit bool `json:"rawinit"`
}

type vCallState struct {
	ctx    context.Context
	cancel func()
	wireID string
	done   chan struct{}
}

type vCSWaiter struct {
	fn string
	ch chan struct{}
}

// csEnter is installed as jsonrpc2.VerifEnter: the goroutine parks until the scheduler releases it.
func (r *vRun) csEnter(_ *jsonrpc2.Connection, fn string) {
	r.csMu.Lock()
	// a scripted hold: the n-th critical section entered from the named function parks until "releasecs"
	if r.holdFn != "" && strings.HasSuffix(fn, r.holdFn) {
		r.holdSeen++
		if r.holdSeen == r.holdNth {
			ch := make(chan struct{})
			r.holdCh = ch
			r.csMu.Unlock()
			<-ch
			r.csMu.Lock()
		}
	}
	if !r.csOn {
		r.csMu.Unlock()
		return
	}
	w := &vCSWaiter{fn: fn, ch: make(chan struct{})}
	r.csWait = append(r.csWait, w)
	r.csMu.Unlock()
	<-w.ch
}

// settle runs the SDK until quiescence. In CS mode it releases one waiting critical section at a time, chosen by the
// seeded generator; with allowEnv it may instead decide to return early ("issue the next environment action now"),
// leaving the remaining goroutines parked at their gates. It reports whether the state is quiescent.
func (r *vRun) settle(allowEnv bool) bool {
	for {
		synctest.Wait()
		r.csMu.Lock()
		n := len(r.csWait)
		if n == 0 {
			r.csMu.Unlock()
			return true
		}
		if allowEnv && r.sc.CSDir {
			r.csMu.Unlock()
			return false
		}
		opts := n
		if allowEnv {
			opts++
		}
		i := r.csRnd.IntN(opts)
		if i == n {
			r.csMu.Unlock()
			return false
		}
		w := r.csWait[i]
		r.csWait = append(r.csWait[:i:i], r.csWait[i+1:]...)
		r.csMu.Unlock()
		close(w.ch)
	}
}

type vRun struct {
	t     *testing.T
	sc    *vScenario
	log   *vLog
	conn  *vConn
	cs    *ClientSession
	ss    *ServerSession
	cl    *Client
	srv   *Server
	mu    sync.Mutex
	calls map[string]*vCallState
	rel   map[string]chan struct{} // handler release gates by request tag
	relAll bool                    // drain stage: gates created from now on are open
	holdFn   string
	holdNth  int
	holdSeen int
	holdCh   chan struct{}
	csOn    bool
	csMu    sync.Mutex
	csWait  []*vCSWaiter
	csRnd   *rand.Rand
	reqID map[string]string        // request tag -> wire id as JSON text (7 or "7")
	answered map[string]bool
	nextReq int64
	hbase int // number of writes performed by the handshake
	stopLoops atomic.Bool // clean-up stage: persistent senders (notifyloop) stop
	cmd map[string]chan string // request tag -> nested-call commands for its handler (hcall)
}

func (r *vRun) gate(tag string) chan struct{} {
	r.mu.Lock()
	defer r.mu.Unlock()
	ch, ok := r.rel[tag]
	if !ok {
		ch = make(chan struct{})
		r.rel[tag] = ch
		if r.relAll {
			// the drain stage has begun: every handler is allowed to return, also one that starts only now
			// (e.g. after a stalled write has timed out)
			close(ch)
		}
	}
	return ch
}

// scripted handler body shared by all incoming requests
func (r *vRun) handle(ctx context.Context, tag, method string) error {
	r.log.emit("h.start", "r", tag, "method", method)
	done := ctx.Done()
	for {
		select {
		case <-r.gate(tag):
			r.log.emit("h.end", "r", tag, "outcome", "ok")
			return nil
		case <-done:
			cause := ""
			if c := context.Cause(ctx); c != nil {
				cause = c.Error()
			}
			r.log.emit("h.ctxdone", "r", tag, "cause", cause)
			if r.sc.Stubborn {
				// a handler that notices the cancellation but goes on until it is told to return
				// (it may still call the peer): handlers are not obliged to stop at once
				done = nil
				continue
			}
			r.log.emit("h.end", "r", tag, "outcome", "ctx")
			return ctx.Err()
		case k := <-r.cmdCh(tag):
			// `hcall`: the handler calls the peer itself, with its own context, and waits for the answer - unless
			// it is told to return (`hret`) or its request is cancelled first: then it abandons the nested call
			r.log.emit("h.call", "r", tag, "k", k)
			st := r.newCall(ctx, k)
			go r.doCall(st, k)
			abandon := func() {
				r.log.emit("ctx.cancel", "k", k)
				st.cancel()
				<-st.done
			}
			select {
			case <-st.done:
			case <-r.gate(tag):
				abandon()
				r.log.emit("h.end", "r", tag, "outcome", "ok")
				return nil
			case <-done:
				cause := ""
				if c := context.Cause(ctx); c != nil {
					cause = c.Error()
				}
				r.log.emit("h.ctxdone", "r", tag, "cause", cause)
				abandon()
				r.log.emit("h.end", "r", tag, "outcome", "ctx")
				return ctx.Err()
			}
		}
	}
}

// cmdCh is the channel on which the script tells the handler of request tag to make a nested call.
func (r *vRun) cmdCh(tag string) chan string {
	r.mu.Lock()
	defer r.mu.Unlock()
	if r.cmd == nil {
		r.cmd = map[string]chan string{}
	}
	ch, ok := r.cmd[tag]
	if !ok {
		ch = make(chan string)
		r.cmd[tag] = ch
	}
	return ch
}

func vText(tag string) *CallToolResult {
	return &CallToolResult{Content: []Content{&TextContent{Text: tag}}}
}

// transport is what the session is connected to: the scripted transport itself, or a LoggingTransport around it
func (r *vRun) transport() Transport {
	if r.sc.Logging {
		return &LoggingTransport{Transport: r.conn, Writer: io.Discard}
	}
	return r.conn
}

// pingMW logs the handling of a scripted `ping` request (tag in _meta) like the handling of any other call:
// the SDK answers pings itself, but it must do so in its turn, through the ordinary dispatch.
func (r *vRun) pingMW(next MethodHandler) MethodHandler {
	return func(ctx context.Context, method string, req Request) (Result, error) {
		if method == "ping" && req.GetParams() != nil {
			if tag, _ := req.GetParams().GetMeta()["vtag"].(string); tag != "" {
				r.log.emit("h.start", "r", tag, "method", method)
				res, err := next(ctx, method, req)
				r.log.emit("h.end", "r", tag, "outcome", "ok")
				return res, err
			}
		}
		return next(ctx, method, req)
	}
}

func (r *vRun) setup(ctx context.Context) error {
	r.conn = newVConn(r.log)
	r.conn.resolve = func(kind, id, cref string) string {
		switch {
		case kind == "resp":
			r.mu.Lock()
			defer r.mu.Unlock()
			best := ""
			for tag, wid := range r.reqID {
				if wid == id && (best == "" || !strings.HasPrefix(tag, "d")) {
					// a duplicate (d*) never gets a response of its own while the original is in flight
					if r.answered[tag] {
						continue
					}
					best = tag
				}
			}
			if best != "" {
				r.answered[best] = true
			}
			return best
		case kind == "notif" && cref != "":
			r.conn.mu.Lock()
			defer r.conn.mu.Unlock()
			all := append(append([]*vWrite{}, r.conn.written...), r.conn.pending...)
			for _, w := range all {
				if w.kind == "call" && w.id == cref {
					if mm := vRefRe.FindSubmatch(w.msg.(*jsonrpc.Request).Params); mm != nil {
						return string(mm[1])
					}
				}
			}
		}
		return ""
	}
	prog := func(tag string, ctx context.Context) { r.handle(ctx, tag, "notifications/progress") }
	switch r.sc.Side {
	case "client":
		r.cl = NewClient(&Implementation{Name: "vclient", Version: "1"}, &ClientOptions{
			CreateMessageHandler: func(ctx context.Context, req *CreateMessageRequest) (*CreateMessageResult, error) {
				tag := req.Params.SystemPrompt
				if err := r.handle(ctx, tag, "sampling/createMessage"); err != nil {
					return nil, err
				}
				return &CreateMessageResult{Model: "m", Role: "assistant", Content: &TextContent{Text: tag}}, nil
			},
			ProgressNotificationHandler: func(ctx context.Context, req *ProgressNotificationClientRequest) {
				prog(req.Params.Message, ctx)
			},
		})
		r.cl.AddReceivingMiddleware(r.pingMW)
		errc := make(chan error, 1)
		go func() {
			cs, err := r.cl.Connect(ctx, r.transport(), &ClientSessionOptions{ProtocolVersion: "2025-06-18"})
			r.cs = cs
			errc <- err
		}()
		synctest.Wait()
		w := r.conn.findWritten("call", "initialize", 0)
		if w == nil {
			return errors.New("handshake: no initialize written")
		}
		res := json.RawMessage(`{"protocolVersion":"2025-06-18","capabilities":{"tools":{}},"serverInfo":{"name":"vpeer","version":"1"}}`)
		r.conn.rd <- vRead{msg: &jsonrpc.Response{ID: w.msg.(*jsonrpc.Request).ID, Result: res}}
		synctest.Wait()
		select {
		case err := <-errc:
			if err != nil {
				return fmt.Errorf("handshake: %w", err)
			}
		default:
			return errors.New("handshake: Connect did not return")
		}
	case "server":
		r.srv = NewServer(&Implementation{Name: "vserver", Version: "1"}, &ServerOptions{
			ProgressNotificationHandler: func(ctx context.Context, req *ProgressNotificationServerRequest) {
				prog(req.Params.Message, ctx)
			},
		})
		r.srv.AddTool(&Tool{Name: "vtool", InputSchema: json.RawMessage(`{"type":"object"}`)},
			func(ctx context.Context, req *CallToolRequest) (*CallToolResult, error) {
				var a struct {
					R string `json:"r"`
				}
				json.Unmarshal(req.Params.Arguments, &a)
				if err := r.handle(ctx, a.R, "tools/call"); err != nil {
					return nil, err
				}
				return vText(a.R), nil
			})
		r.srv.AddReceivingMiddleware(func(next MethodHandler) MethodHandler {
			return func(ctx context.Context, method string, req Request) (Result, error) {
				if method == "initialize" && r.sc.RawInit {
					// a slow, stubborn handler: it does not look at its context
					r.log.emit("h.start", "r", "init", "method", method)
					<-r.gate("init")
					r.log.emit("h.end", "r", "init", "outcome", "ok")
				}
				return next(ctx, method, req)
			}
		})
		r.srv.AddReceivingMiddleware(r.pingMW)
		ss, err := r.srv.Connect(ctx, r.transport(), nil)
		if err != nil {
			return err
		}
		r.ss = ss
		if r.sc.RawInit {
			break
		}
		id, _ := jsonrpc2.MakeID(float64(900001))
		r.conn.rd <- vRead{msg: &jsonrpc.Request{ID: id, Method: "initialize", Params: json.RawMessage(
			`{"protocolVersion":"2025-06-18","capabilities":{"roots":{"listChanged":true},"sampling":{}},"clientInfo":{"name":"vpeer","version":"1"}}`)}}
		synctest.Wait()
		r.conn.rd <- vRead{msg: &jsonrpc.Request{Method: "notifications/initialized", Params: json.RawMessage(`{}`)}}
		synctest.Wait()
		if r.conn.findWritten("resp", "", 0) == nil {
			return errors.New("handshake: initialize not answered")
		}
	default:
		return errors.New("bad side")
	}
	r.conn.mu.Lock()
	r.hbase = r.conn.nwrites
	r.conn.gated = r.sc.Gated
	r.conn.slowProgress = time.Duration(r.sc.SlowProgressMs) * time.Millisecond
	for k, v := range r.sc.Faults {
		n, _ := strconv.Atoi(k)
		r.conn.faults[r.hbase+n] = v
	}
	r.conn.mu.Unlock()
	r.log.emit("ready", "side", r.sc.Side, "gated", r.sc.Gated, "hbase", r.hbase)
	return nil
}

func vErrKind(err error) (string, int64) {
	if err == nil {
		return "result", 0
	}
	var we *jsonrpc.Error
	switch {
	case errors.Is(err, ErrConnectionClosed):
		return "closed", 0
	case errors.Is(err, context.Canceled), errors.Is(err, context.DeadlineExceeded):
		return "ctx", 0
	case errors.As(err, &we):
		return "wireerror", we.Code
	}
	return "other", 0
}

// vDeadlineCtx is a caller's context that ends like a deadline context (Err = context.DeadlineExceeded) when told to.
type vDeadlineCtx struct {
	context.Context
	done chan struct{}
	once sync.Once
	dl   time.Time
}

func (c *vDeadlineCtx) Done() <-chan struct{}       { return c.done }
func (c *vDeadlineCtx) Deadline() (time.Time, bool) { return c.dl, true }
func (c *vDeadlineCtx) expire()                     { c.once.Do(func() { close(c.done) }) }
func (c *vDeadlineCtx) Err() error {
	select {
	case <-c.done:
		return context.DeadlineExceeded
	default:
		return nil
	}
}

func (r *vRun) startCall(k string) {
	st := r.newCall(context.Background(), k)
	go r.doCall(st, k)
}

// newCall registers call k; its context carries the values of parent (for a call made from inside a handler:
// whatever the SDK put into the handler's context) but is cancelled only by the script's `cancel` step.
func (r *vRun) newCall(parent context.Context, k string) *vCallState {
	// the caller's context carries a cancellation CAUSE of its own: the call must still end with the context's error
	// (ctx.Err(), i.e. context.Canceled), which is what callers test for
	ctx, cancelCause := context.WithCancelCause(context.WithoutCancel(parent))
	st := &vCallState{ctx: ctx, cancel: func() { cancelCause(errVerifCause) }, done: make(chan struct{})}
	if n := len(k); n > 0 && (k[n-1]-'0')%2 == 0 && k[n-1] >= '0' && k[n-1] <= '9' {
		// every second caller gives up by DEADLINE instead of by cancel(): its context ends with context.DeadlineExceeded
		// at the moment the script says `cancel` (the property speaks of "the caller's context ends", whatever ended it)
		dc := &vDeadlineCtx{Context: context.WithoutCancel(parent), done: make(chan struct{}), dl: time.Now().Add(time.Hour)}
		cancelCause(nil) // the unused cancel context must not leak
		st = &vCallState{ctx: dc, cancel: dc.expire, done: make(chan struct{})}
	}
	r.mu.Lock()
	r.calls[k] = st
	r.mu.Unlock()
	r.log.emit("call.begin", "k", k)
	return st
}

func (r *vRun) doCall(st *vCallState, k string) {
	ctx := st.ctx
	defer close(st.done)
	defer func() {
		if p := recover(); p != nil {
			r.log.emit("panic", "msg", fmt.Sprint(p), "where", "call "+k)
		}
	}()
	var tag string
	var err error
	if r.cs != nil {
		var res *CallToolResult
		res, err = r.cs.CallTool(ctx, &CallToolParams{Name: "peer", Arguments: map[string]any{"k": k}})
		if err == nil && len(res.Content) > 0 {
			if tc, ok := res.Content[0].(*TextContent); ok {
				tag = tc.Text
			}
		}
	} else {
		var res *ListRootsResult
		res, err = r.ss.ListRoots(ctx, &ListRootsParams{Meta: Meta{"k": k}})
		if err == nil && len(res.Roots) > 0 {
			tag = strings.TrimPrefix(res.Roots[0].URI, "file:///")
		}
	}
	kind, code := vErrKind(err)
	es := ""
	if err != nil {
		es = err.Error()
	}
	if kind == "wireerror" {
		var we *jsonrpc.Error
		errors.As(err, &we)
		tag = we.Message
	}
	r.log.emit("call.end", "k", k, "kind", kind, "code", code, "tag", tag, "err", es)
}

// wireIDOf finds the JSON-RPC id under which call k went (or tried to go) to the transport.
func (r *vRun) wireIDOf(k string) (jsonrpc.ID, bool) {
	r.conn.mu.Lock()
	defer r.conn.mu.Unlock()
	all := append(append([]*vWrite{}, r.conn.written...), r.conn.pending...)
	for _, w := range all {
		if w.kind != "call" {
			continue
		}
		req := w.msg.(*jsonrpc.Request)
		if strings.Contains(string(req.Params), `"k":"`+k+`"`) {
			return req.ID, true
		}
	}
	return jsonrpc.ID{}, false
}

func (r *vRun) step(st []any) {
	arg := func(i int) string {
		if i < len(st) {
			return fmt.Sprint(st[i])
		}
		return ""
	}
	op := arg(0)
	applied := true
	switch op {
	case "call":
		r.startCall(arg(1))
	case "callbad":
		// an outgoing CALL whose parameters cannot be encoded (NaN): it must fail at once and leave nothing registered
		k := arg(1)
		r.log.emit("callbad.begin", "k", k)
		go func() {
			defer func() {
				if p := recover(); p != nil {
					r.log.emit("panic", "msg", fmt.Sprint(p), "where", "callbad "+k)
				}
			}()
			var err error
			if r.cs != nil {
				_, err = r.cs.CallTool(context.Background(), &CallToolParams{Name: "peer", Arguments: map[string]any{"k": k, "x": math.NaN()}})
			} else {
				_, err = r.ss.ListRoots(context.Background(), &ListRootsParams{Meta: Meta{"k": k, "x": math.NaN()}})
			}
			kind, _ := vErrKind(err)
			r.log.emit("callbad.end", "k", k, "err", err != nil, "kind", kind)
		}()
	case "cancel":
		r.mu.Lock()
		cs := r.calls[arg(1)]
		r.mu.Unlock()
		if cs == nil {
			applied = false
			break
		}
		r.log.emit("ctx.cancel", "k", arg(1))
		cs.cancel()
	case "wret":
		sel := arg(1)
		if strings.HasPrefix(sel, "call:") { // call:k1 -> wire id
			if id, ok := r.wireIDOf(strings.TrimPrefix(sel, "call:")); ok {
				sel = "call:" + fmt.Sprint(id.Raw())
			}
		} else if strings.HasPrefix(sel, "resp:") {
			r.mu.Lock()
			if id, ok := r.reqID[strings.TrimPrefix(sel, "resp:")]; ok {
				sel = "resp:" + id
			}
			r.mu.Unlock()
		} else if strings.HasPrefix(sel, "notif:cancelled:") {
			if id, ok := r.wireIDOf(strings.TrimPrefix(sel, "notif:cancelled:")); ok {
				sel = "notif:notifications/cancelled:" + fmt.Sprint(id.Raw())
			}
		}
		w := r.conn.findPending(sel)
		if w == nil {
			applied = false
			break
		}
		w.decide <- arg(2)
	case "resp":
		id, ok := r.wireIDOf(arg(1))
		if !ok {
			applied = false
			break
		}
		tag := fmt.Sprintf("p%s.%d", arg(1), r.log.seq)
		var msg *jsonrpc.Response
		if arg(2) == "err" {
			msg = &jsonrpc.Response{ID: id, Error: &jsonrpc.Error{Code: -32050, Message: tag}}
		} else if r.cs != nil {
			b, _ := json.Marshal(vText(tag))
			msg = &jsonrpc.Response{ID: id, Result: b}
		} else {
			msg = &jsonrpc.Response{ID: id, Result: json.RawMessage(`{"roots":[{"uri":"file:///` + tag + `"}]}`)}
		}
		r.log.emit("rd.deliver", "kind", "resp", "id", fmt.Sprint(id.Raw()), "k", arg(1), "tag", tag, "variant", arg(2))
		r.conn.rd <- vRead{msg: msg, desc: []any{"kind", "resp", "k", arg(1), "r", ""}}
	case "respunknown":
		id, _ := jsonrpc2.MakeID(float64(777000 + r.log.seq))
		r.log.emit("rd.deliver", "kind", "resp", "id", fmt.Sprint(id.Raw()), "k", "", "tag", "unknown", "variant", "unknown")
		r.conn.rd <- vRead{msg: &jsonrpc.Response{ID: id, Result: json.RawMessage(`{"content":[{"type":"text","text":"unknown"}],"roots":[]}`)},
			desc: []any{"kind", "resp", "k", "", "r", ""}}
	case "req", "reqdup":
		tag, kind := arg(1), arg(2)
		r.mu.Lock()
		// wire ids are a function of the name: r<i> -> i; d<i> re-uses the id of r<i>. They deliberately
		// overlap with the ids of the endpoint's own outgoing calls (1, 2, 3, ...): the two id spaces are independent.
		var wid int64
		if op == "reqdup" {
			kind = "call"
		}
		if n, err := strconv.Atoi(strings.TrimLeft(tag, "rdnsp")); err == nil {
			wid = int64(n)
			if strings.HasPrefix(tag, "p") {
				wid += 7000 // p<i>: a ping request; its own id range
			}
		} else {
			r.nextReq++
			wid = 5100 + r.nextReq
		}
		// s<i>: the same number as r<i>, but sent as a JSON string ("1" and 1 are different ids)
		strID := strings.HasPrefix(tag, "s")
		idText := fmt.Sprint(wid)
		if strID {
			idText = strconv.Quote(idText)
		}
		if kind == "call" || kind == "ping" {
			r.reqID[tag] = idText
		}
		r.mu.Unlock()
		var msg *jsonrpc.Request
		if kind == "call" || kind == "ping" {
			id, _ := jsonrpc2.MakeID(float64(wid))
			if strID {
				id, _ = jsonrpc2.MakeID(fmt.Sprint(wid))
			}
			if kind == "ping" {
				// answered by the SDK itself (no scripted handler, never gated); logged as a call
				msg = &jsonrpc.Request{ID: id, Method: "ping", Params: json.RawMessage(`{"_meta":{"vtag":"` + tag + `"}}`)}
			} else if r.cs != nil {
				msg = &jsonrpc.Request{ID: id, Method: "sampling/createMessage", Params: json.RawMessage(
					`{"messages":[{"role":"user","content":{"type":"text","text":"hi"}}],"maxTokens":5,"systemPrompt":"` + tag + `"}`)}
			} else {
				msg = &jsonrpc.Request{ID: id, Method: "tools/call", Params: json.RawMessage(`{"name":"vtool","arguments":{"r":"` + tag + `"}}`)}
			}
			r.log.emit("rd.deliver", "kind", "call", "id", idText, "r", tag, "dup", op == "reqdup")
		} else {
			msg = &jsonrpc.Request{Method: "notifications/progress", Params: json.RawMessage(`{"progressToken":"tok","progress":1,"message":"` + tag + `"}`)}
			r.log.emit("rd.deliver", "kind", "notif", "id", "", "r", tag, "dup", false)
		}
		dkind := kind
		if dkind == "ping" {
			dkind = "call"
		}
		r.conn.rd <- vRead{msg: msg, desc: []any{"kind", dkind, "k", "", "r", tag}}
	case "listen":
		// server side: a subscriptions/listen call as a legacy peer may send it (no _meta). The SDK's own handler parks
		// until the request is cancelled; ServerSession.Close has to cancel it. Not a scripted handler: no h.* lines.
		if r.ss == nil {
			applied = false
			break
		}
		r.mu.Lock()
		r.nextReq++
		wid := 880000 + r.nextReq
		r.mu.Unlock()
		id, _ := jsonrpc2.MakeID(float64(wid))
		r.log.emit("rd.deliver", "kind", "listen", "id", fmt.Sprint(wid), "r", arg(1), "dup", false)
		r.conn.rd <- vRead{msg: &jsonrpc.Request{ID: id, Method: "subscriptions/listen", Params: json.RawMessage(
			`{"notifications":{"toolsListChanged":true}}`)}, desc: []any{"kind", "listen", "k", "", "r", arg(1)}}
	case "init":
		if r.ss == nil {
			applied = false
			break
		}
		id, _ := jsonrpc2.MakeID(float64(900001))
		r.mu.Lock()
		r.reqID["init"] = "900001"
		r.mu.Unlock()
		r.log.emit("rd.deliver", "kind", "init", "id", "900001", "r", "init", "dup", false)
		r.conn.rd <- vRead{msg: &jsonrpc.Request{ID: id, Method: "initialize", Params: json.RawMessage(
			`{"protocolVersion":"2025-06-18","capabilities":{"roots":{"listChanged":true}},"clientInfo":{"name":"vpeer","version":"1"}}`)},
			desc: []any{"kind", "init", "k", "", "r", "init"}}
	case "inited":
		r.log.emit("rd.deliver", "kind", "notif", "id", "", "r", "inited", "dup", false)
		r.conn.rd <- vRead{msg: &jsonrpc.Request{Method: "notifications/initialized", Params: json.RawMessage(`{}`)},
			desc: []any{"kind", "notif", "k", "", "r", "inited"}}
	case "pcancel":
		var wid int64 = 666000
		if n, err := strconv.Atoi(strings.TrimLeft(arg(1), "rds")); err == nil {
			wid = int64(n)
		}
		if arg(1) == "init" {
			wid = 900001
		}
		idText := fmt.Sprint(wid)
		if strings.HasPrefix(arg(1), "s") {
			idText = strconv.Quote(idText) // the notice names the string id
		}
		r.log.emit("rd.deliver", "kind", "cancel", "id", idText, "r", arg(1), "dup", false)
		r.conn.rd <- vRead{msg: &jsonrpc.Request{Method: "notifications/cancelled", Params: json.RawMessage(fmt.Sprintf(`{"requestId":%s,"reason":"verif"}`, idText))},
			desc: []any{"kind", "cancel", "k", "", "r", arg(1)}}
	case "hret":
		ch := r.gate(arg(1))
		select {
		case <-ch:
			applied = false
		default:
			r.log.emit("h.release", "r", arg(1))
			close(ch)
		}
	case "eof":
		r.log.emit("rd.inject", "kind", "eof")
		r.conn.rd <- vRead{err: io.EOF}
	case "rderr":
		r.log.emit("rd.inject", "kind", "err")
		r.conn.rd <- vRead{err: errors.New("verif: read failed")}
	case "close":
		c := arg(1)
		r.log.emit("close.begin", "c", c)
		go func() {
			var err error
			if r.cs != nil {
				err = r.cs.Close()
			} else {
				err = r.ss.Close()
			}
			r.log.emit("close.end", "c", c, "err", err != nil)
		}()
	case "wait":
		w := arg(1)
		r.log.emit("wait.begin", "w", w)
		go func() {
			var err error
			if r.cs != nil {
				err = r.cs.Wait()
			} else {
				err = r.ss.Wait()
			}
			es := ""
			if err != nil {
				es = err.Error()
			}
			r.log.emit("wait.end", "w", w, "err", es)
		}()
	case "notify":
		n := arg(1)
		r.log.emit("notify.begin", "n", n)
		go func() {
			var err error
			p := &ProgressNotificationParams{ProgressToken: "tok", Progress: 1, Message: n}
			if r.cs != nil {
				err = r.cs.NotifyProgress(context.Background(), p)
			} else {
				err = r.ss.NotifyProgress(context.Background(), p)
			}
			r.log.emit("notify.end", "n", n, "err", err != nil)
		}()
	case "hcall":
		// the running handler of request arg(1) makes call arg(2) to the peer with the handler's own context
		select {
		case r.cmdCh(arg(1)) <- arg(2):
		default:
			applied = false // no handler of that request is waiting for instructions
		}
	case "notifyloop":
		// a persistent sender: an application goroutine that keeps sending progress notifications, one after the
		// other, until one fails (that is how it learns that the session is gone) or the scenario is cleaned up
		n := arg(1)
		off, _ := strconv.Atoi(arg(2))
		r.log.emit("notifyloop.begin", "n", n)
		go func() {
			time.Sleep(time.Duration(off) * time.Millisecond)
			i := 0
			for ; i < 400 && !r.stopLoops.Load(); i++ {
				name := fmt.Sprintf("%s.%d", n, i)
				r.log.emit("notify.begin", "n", name)
				var err error
				p := &ProgressNotificationParams{ProgressToken: "tok", Progress: float64(i), Message: name}
				if r.cs != nil {
					err = r.cs.NotifyProgress(context.Background(), p)
				} else {
					err = r.ss.NotifyProgress(context.Background(), p)
				}
				r.log.emit("notify.end", "n", name, "err", err != nil)
				if err != nil {
					break
				}
			}
			r.log.emit("notifyloop.end", "n", n, "iters", i)
		}()
	case "cs":
		// directed mode: release the longest-waiting critical section entered from the named function
		want := "(*Connection)." + arg(1)
		var w *vCSWaiter
		r.csMu.Lock()
		for i, x := range r.csWait {
			if x.fn == want {
				w = x
				r.csWait = append(r.csWait[:i:i], r.csWait[i+1:]...)
				break
			}
		}
		r.csMu.Unlock()
		if w != nil {
			close(w.ch)
		} else {
			applied = false
		}
	case "holdcs":
		n, _ := strconv.Atoi(arg(2))
		r.csMu.Lock()
		r.holdFn, r.holdNth, r.holdSeen = arg(1), n, 0
		r.csMu.Unlock()
	case "releasecs":
		r.csMu.Lock()
		ch := r.holdCh
		r.holdFn, r.holdCh = "", nil
		r.csMu.Unlock()
		if ch != nil {
			close(ch)
		} else {
			applied = false
		}
	case "notifybad":
		// an outgoing notification whose parameters cannot be encoded (NaN): it must fail without leaving anything behind
		n := arg(1)
		r.log.emit("notifybad.begin", "n", n)
		go func() {
			var err error
			p := &ProgressNotificationParams{ProgressToken: "tok", Progress: math.NaN(), Message: n}
			if r.cs != nil {
				err = r.cs.NotifyProgress(context.Background(), p)
			} else {
				err = r.ss.NotifyProgress(context.Background(), p)
			}
			r.log.emit("notifybad.end", "n", n, "err", err != nil)
		}()
	case "sleep":
		r.settle(false) // virtual time must not pass while the scheduler itself is holding goroutines back
		d, _ := strconv.ParseFloat(arg(1), 64)
		time.Sleep(time.Duration(d * float64(time.Second)))
	default:
		applied = false
	}
	quiet := r.settle(r.csOn && op != "sleep")
	r.log.emit("step", "op", op, "a1", arg(1), "a2", arg(2), "applied", applied, "sessions", r.sessionListed(), "quiet", quiet)
}

func (r *vRun) sessionListed() bool {
	if r.srv != nil {
		for s := range r.srv.Sessions() {
			if s == r.ss {
				return true
			}
		}
		return false
	}
	r.cl.mu.Lock()
	defer r.cl.mu.Unlock()
	for _, s := range r.cl.sessions {
		if s == r.cs {
			return true
		}
	}
	return false
}

// vBubbleGoroutines lists the goroutines of the current synctest bubble (other than the caller).
func vBubbleGoroutines() []string {
	buf := make([]byte, 1<<20)
	buf = buf[:runtime.Stack(buf, true)]
	blocks := strings.Split(string(buf), "\n\n")
	self := ""
	if len(blocks) > 0 {
		if i := strings.Index(blocks[0], "synctest bubble "); i >= 0 {
			self = strings.TrimRight(strings.Fields(blocks[0][i+len("synctest bubble "):])[0], "]:,")
		}
	}
	var out []string
	for _, b := range blocks[1:] {
		if self == "" || !strings.Contains(b, "synctest bubble "+self) {
			continue
		}
		if strings.Contains(b, "synctest.Run(") || strings.Contains(b, "testingSynctestTest") {
			continue
		}
		lines := strings.Split(b, "\n")
		fn := "?"
		for _, ln := range lines[1:] {
			if !strings.HasPrefix(ln, "\t") && strings.Contains(ln, "go-sdk") {
				fn = ln
				if i := strings.LastIndex(fn, "("); i > 0 {
					fn = fn[:i]
				}
				break
			}
		}
		out = append(out, fn)
	}
	return out
}

func (r *vRun) run() {
	ctx := context.Background()
	if err := r.setup(ctx); err != nil {
		r.log.emit("setup.error", "err", err.Error())
		return
	}
	if r.sc.CS {
		r.csMu.Lock()
		r.csOn = true
		r.csMu.Unlock()
	}
	for _, st := range r.sc.Steps {
		r.step(st)
	}
	// from here on critical sections run freely again
	r.csMu.Lock()
	r.csOn = false
	if r.holdCh != nil {
		close(r.holdCh)
		r.holdCh = nil
	}
	r.holdFn = ""
	r.csMu.Unlock()
	r.settle(false)
	// drain stage 1: discharge what the environment owes, nothing else
	r.log.emit("drain1")
	r.mu.Lock()
	r.relAll = true
	r.mu.Unlock()
	r.conn.mu.Lock()
	r.conn.autoOK = true
	r.conn.mu.Unlock()
	for i := 0; i < 50; i++ {
		progressed := false
		for {
			w := r.conn.findPending("any")
			if w == nil {
				break
			}
			w.decide <- "ok"
			progressed = true
			synctest.Wait()
		}
		r.mu.Lock()
		for tag, ch := range r.rel {
			select {
			case <-ch:
			default:
				close(ch)
				r.log.emit("h.release", "r", tag)
				progressed = true
			}
		}
		r.mu.Unlock()
		synctest.Wait()
		if !progressed {
			break
		}
	}
	time.Sleep(30 * time.Second) // lets the 5 s cancel-notification timeout expire
	synctest.Wait()
	r.mu.Lock()
	blocked := []string{}
	for k, cs := range r.calls {
		select {
		case <-cs.done:
		default:
			blocked = append(blocked, k)
		}
	}
	r.mu.Unlock()
	r.log.emit("quiesce1", "blockedCalls", blocked, "sessions", r.sessionListed())
	// drain stage 2: clean-up so that the bubble can exit
	r.log.emit("cleanup")
	r.stopLoops.Store(true)
	r.mu.Lock()
	for _, cs := range r.calls {
		cs.cancel()
	}
	r.mu.Unlock()
	synctest.Wait()
	done := make(chan struct{})
	go func() {
		if r.cs != nil {
			r.cs.Close()
		} else {
			r.ss.Close()
		}
		close(done)
	}()
	synctest.Wait()
	r.conn.harnessClose() // a transport that is gone for good
	synctest.Wait()
	time.Sleep(time.Hour)
	synctest.Wait()
	closed := false
	select {
	case <-done:
		closed = true
	default:
	}
	leaks := vBubbleGoroutines()
	if leaks == nil {
		leaks = []string{}
	}
	if os.Getenv("VERIF_DEBUG_STACK") != "" {
		buf := make([]byte, 1<<20)
		buf = buf[:runtime.Stack(buf, true)]
		os.WriteFile(os.Getenv("VERIF_DEBUG_STACK"), buf, 0o644)
	}
	r.log.emit("final", "closeReturned", closed, "leaks", leaks, "sessions", r.sessionListed())
}

func vRunScenario(t *testing.T, l *vLog, sc *vScenario) {
	scj, _ := json.Marshal(sc) // the complete scenario (also for generated ones), so that a failing trace can be replayed exactly
	l.emit("reset", "trace", sc.ID, "side", sc.Side, "gated", sc.Gated, "cs", sc.CS, "csseed", sc.CSSeed, "scj", string(scj))
	defer func() {
		if p := recover(); p != nil {
			l.emit("panic", "msg", fmt.Sprint(p))
		}
	}()
	ok := t.Run(sc.ID, func(t *testing.T) {
		defer func() {
			if p := recover(); p != nil {
				l.emit("panic", "msg", fmt.Sprint(p))
			}
		}()
		synctest.Test(t, func(t *testing.T) {
			l.mu.Lock()
			l.start = time.Now()
			l.mu.Unlock()
			r := &vRun{t: t, sc: sc, log: l, calls: map[string]*vCallState{}, rel: map[string]chan struct{}{}, reqID: map[string]string{}, answered: map[string]bool{}}
			r.csRnd = rand.New(rand.NewPCG(sc.CSSeed, 77))
			jsonrpc2.VerifEnter = r.csEnter
			if os.Getenv("VERIF_CS") != "0" {
				jsonrpc2.VerifSnap = func(c *jsonrpc2.Connection, fn string, s jsonrpc2.VerifSnapshot) {
					l.emit("cs", "fn", fn, "s", s)
				}
			}
			r.run()
		})
	})
	_ = ok
}

// ---------------------------------------------------------------- random scenarios

func vRandomScenario(rnd *rand.Rand, i int) *vScenario {
	sc := &vScenario{ID: fmt.Sprintf("rand%d", i), Side: []string{"client", "server"}[rnd.IntN(2)], Gated: rnd.IntN(3) == 0, Faults: map[string]string{}}
	if !sc.Gated && rnd.IntN(3) == 0 {
		sc.Faults[strconv.Itoa(1+rnd.IntN(6))] = []string{"broken", "rejected", "stall"}[rnd.IntN(3)]
	}
	if os.Getenv("VERIF_CSMODE") != "0" && rnd.IntN(3) == 0 {
		sc.CS, sc.CSSeed = true, rnd.Uint64()
	}
	n := 3 + rnd.IntN(10)
	calls, creqs, notifs, dups, closes, waits := 0, 0, 0, 0, 0, 0
	var liveCalls, liveCallReqs, liveReqs []string
	cancelled := map[string]bool{}
	if rnd.IntN(8) == 0 {
		sc.Logging = true
	}
	listens, bads, sreqs, pings := 0, 0, 0, 0
	for len(sc.Steps) < n {
		if bads < 2 && rnd.IntN(24) == 0 {
			bads++
			sc.Steps = append(sc.Steps, []any{"callbad", fmt.Sprintf("b%d", bads)})
			continue
		}
		if sc.Side == "server" && listens < 2 && rnd.IntN(16) == 0 {
			listens++
			sc.Steps = append(sc.Steps, []any{"listen", fmt.Sprintf("L%d", listens)})
			continue
		}
		switch k := rnd.IntN(28); {
		case k == 27:
			// the peer pings: answered by the SDK itself, in its turn
			if pings < 2 {
				pings++
				sc.Steps = append(sc.Steps, []any{"req", fmt.Sprintf("p%d", pings), "ping"})
			}
		case k == 26:
			// a running handler calls the peer itself (nested call with the handler's context)
			if len(liveReqs) > 0 && calls < 3 {
				calls++
				c := fmt.Sprintf("k%d", calls)
				liveCalls = append(liveCalls, c)
				sc.Steps = append(sc.Steps, []any{"hcall", liveReqs[rnd.IntN(len(liveReqs))], c})
			}
		case k < 4 && calls < 3:
			calls++
			c := fmt.Sprintf("k%d", calls)
			liveCalls = append(liveCalls, c)
			sc.Steps = append(sc.Steps, []any{"call", c})
		case k < 7 && len(liveCalls) > 0:
			sc.Steps = append(sc.Steps, []any{"resp", liveCalls[rnd.IntN(len(liveCalls))], []string{"ok", "ok", "err"}[rnd.IntN(3)]})
		case k < 9 && len(liveCalls) > 0:
			sc.Steps = append(sc.Steps, []any{"cancel", liveCalls[rnd.IntN(len(liveCalls))]})
		case k < 12 && sreqs < 2 && rnd.IntN(4) == 0:
			// a call whose id is the JSON string "<n>": a different id from the integer <n> of r<n>
			sreqs++
			q := fmt.Sprintf("s%d", sreqs)
			liveCallReqs = append(liveCallReqs, q)
			liveReqs = append(liveReqs, q)
			sc.Steps = append(sc.Steps, []any{"req", q, "call"})
		case k < 12 && creqs < 3:
			creqs++
			q := fmt.Sprintf("r%d", creqs)
			liveCallReqs = append(liveCallReqs, q)
			liveReqs = append(liveReqs, q)
			sc.Steps = append(sc.Steps, []any{"req", q, "call"})
		case k < 14 && notifs < 3:
			notifs++
			q := fmt.Sprintf("n%d", notifs)
			liveReqs = append(liveReqs, q)
			sc.Steps = append(sc.Steps, []any{"req", q, "notif"})
		case k < 15 && dups < 2 && dups < creqs:
			dups++
			q := fmt.Sprintf("d%d", dups)
			liveReqs = append(liveReqs, q)
			sc.Steps = append(sc.Steps, []any{"reqdup", q, fmt.Sprintf("r%d", dups)})
		case k < 18 && len(liveReqs) > 0:
			sc.Steps = append(sc.Steps, []any{"hret", liveReqs[rnd.IntN(len(liveReqs))]})
		case k < 19 && len(liveCallReqs) > 0:
			q := liveCallReqs[rnd.IntN(len(liveCallReqs))]
			if !cancelled[q] {
				cancelled[q] = true
				sc.Steps = append(sc.Steps, []any{"pcancel", q})
			}
		case k < 20:
			sc.Steps = append(sc.Steps, []any{"respunknown"})
		case k < 21 && closes < 2:
			closes++
			sc.Steps = append(sc.Steps, []any{"close", fmt.Sprintf("c%d", closes)})
		case k < 22 && waits < 2:
			waits++
			sc.Steps = append(sc.Steps, []any{"wait", fmt.Sprintf("w%d", waits)})
		case k < 23:
			sc.Steps = append(sc.Steps, []any{[]string{"eof", "rderr"}[rnd.IntN(2)]})
		case k < 24 && sc.Gated:
			sc.Steps = append(sc.Steps, []any{"wret", "any", []string{"ok", "ok", "ok", "broken", "rejected", "stall"}[rnd.IntN(6)]})
		case k < 25:
			if rnd.IntN(3) == 0 {
				sc.Steps = append(sc.Steps, []any{"notifybad", fmt.Sprintf("b%d", len(sc.Steps))})
			} else {
				sc.Steps = append(sc.Steps, []any{"sleep", "6"})
			}
		default:
			if sc.Gated {
				sc.Steps = append(sc.Steps, []any{"wret", "any", "ok"})
			}
		}
	}
	// persistent senders: in one of twelve auto-mode scenarios two application goroutines keep sending progress
	// notifications through a slow transport, from some point of the script until they are refused
	if !sc.Gated && !sc.CS && rnd.IntN(12) == 0 {
		sc.SlowProgressMs = 2000
		at := rnd.IntN(len(sc.Steps) + 1)
		loops := [][]any{{"notifyloop", "pa", "0"}, {"notifyloop", "pb", "1000"}}
		sc.Steps = append(sc.Steps[:at:at], append(loops, sc.Steps[at:]...)...)
	}
	return sc
}

func TestVerif_Conn(t *testing.T) {
	outp := os.Getenv("VERIF_OUT")
	if outp == "" {
		t.Skip("VERIF_OUT not set")
	}
	f, err := os.Create(outp)
	if err != nil {
		t.Fatal(err)
	}
	defer f.Close()
	w := bufio.NewWriterSize(f, 1<<20)
	defer w.Flush()
	l := &vLog{w: w}
	if in := os.Getenv("VERIF_IN"); in != "" {
		fin, err := os.Open(in)
		if err != nil {
			t.Fatal(err)
		}
		sc := bufio.NewScanner(fin)
		sc.Buffer(make([]byte, 1<<20), 1<<26)
		for sc.Scan() {
			var s vScenario
			if err := json.Unmarshal(sc.Bytes(), &s); err != nil {
				t.Fatalf("bad scenario: %v", err)
			}
			vRunScenario(t, l, &s)
		}
		fin.Close()
	}
	seed, _ := strconv.ParseUint(os.Getenv("VERIF_SEED"), 10, 64)
	nr, _ := strconv.Atoi(os.Getenv("VERIF_RANDOM"))
	rnd := rand.New(rand.NewPCG(seed, 105))
	for i := 0; i < nr; i++ {
		vRunScenario(t, l, vRandomScenario(rnd, i))
	}
}
