//go:build verif

// Conformance harness for property C12 (HTTP preconditions hold before dispatch; the SDK client
// always satisfies them), public API only.
//
//	TestVerif_C12Gate    replays the abstract request classes enumerated by TLC (HttpGate!CaseSet) against
//	                     the real StreamableHTTPHandler (stateful, stateless) and SSEHandler by calling
//	                     ServeHTTP directly with httptest recorders (no sockets, inside a synctest bubble so
//	                     that "no handler ever saw the message" is decided by quiescence, not by a timeout).
//	TestVerif_C12Mirror  for every (schema shape, value class, client-side history) of HeaderMirror!CaseSet drives a
//	                     real Client over a real StreamableClientTransport whose http.RoundTripper serialises the
//	                     request to HTTP/1.1 wire bytes, parses them back (what a net/http server would see) and
//	                     calls the real stateless handler's ServeHTTP with a pipe-backed, flushable ResponseWriter.
//	                     The history (ListTools / time passing / the server replacing the tool or removing the
//	                     tools before it / list_changed notifications) is played on the real client and server
//	                     inside a synctest bubble before the call, so ttlMs expiry happens on the fake clock.
//	                     A listing may be split into its steps (send / answer / deliver per page): the RoundTripper
//	                     then holds the tools/list request before the server sees it, holds the complete answer,
//	                     and keeps list_changed notifications of the subscriptions/listen stream back until the
//	                     history's "notify" step (c12Gate), so that a change and its notification can fall between
//	                     a request, its answer and the answer's delivery.  Chunks (one history, one client/server
//	                     pair, one bubble each) run side by side as parallel subtests.
//
// Both read VERIF_IN (ndjson cases), write VERIF_OUT (ndjson observations for the TLA+ monitors) and take every
// random choice from VERIF_SEED.
package mcp_test

import (
	"bufio"
	"bytes"
	"context"
	"encoding/base64"
	"encoding/json"
	"errors"
	"fmt"
	"io"
	"math/rand/v2"
	"net"
	"net/http"
	"net/http/httptest"
	"os"
	"reflect"
	"strconv"
	"strings"
	"sync"
	"testing"
	"testing/synctest"
	"time"

	"github.com/modelcontextprotocol/go-sdk/jsonrpc"
	"github.com/modelcontextprotocol/go-sdk/mcp"
)

// ---------------------------------------------------------------------------
// shared plumbing

func c12IO(t *testing.T) (seed uint64, reps int, in *bufio.Scanner, enc *json.Encoder, done func()) {
	inp, outp := os.Getenv("VERIF_IN"), os.Getenv("VERIF_OUT")
	if inp == "" || outp == "" {
		t.Skip("VERIF_IN/VERIF_OUT not set")
	}
	seed, _ = strconv.ParseUint(os.Getenv("VERIF_SEED"), 10, 64)
	reps, _ = strconv.Atoi(os.Getenv("VERIF_REPS"))
	if reps <= 0 {
		reps = 1
	}
	fin, err := os.Open(inp)
	if err != nil {
		t.Fatal(err)
	}
	fout, err := os.Create(outp)
	if err != nil {
		t.Fatal(err)
	}
	w := bufio.NewWriterSize(fout, 1<<20)
	enc = json.NewEncoder(w)
	in = bufio.NewScanner(fin)
	in.Buffer(make([]byte, 1<<16), 1<<22)
	return seed, reps, in, enc, func() { w.Flush(); fout.Close(); fin.Close() }
}

func c12Pick[T any](r *rand.Rand, xs ...T) T { return xs[r.IntN(len(xs))] }

func c12B64(s string) string {
	return "=?base64?" + base64.StdEncoding.EncodeToString([]byte(s)) + "?="
}

// seen records which markers reached a receiving middleware / a tool handler of the MCP server.
type c12Seen struct {
	mu   sync.Mutex
	mw   map[string]bool
	tool map[string]bool
}

func newC12Seen() *c12Seen { return &c12Seen{mw: map[string]bool{}, tool: map[string]bool{}} }

func (s *c12Seen) note(m map[string]bool, blob []byte) {
	// markers look like "m<idx>x<rep>q"
	str := string(blob)
	for {
		i := strings.Index(str, "\"mk-")
		if i < 0 {
			return
		}
		str = str[i+1:]
		j := strings.IndexByte(str, '"')
		if j < 0 {
			return
		}
		s.mu.Lock()
		m[str[:j]] = true
		s.mu.Unlock()
		str = str[j:]
	}
}

func (s *c12Seen) get(marker string) (mw, tool bool) {
	s.mu.Lock()
	defer s.mu.Unlock()
	return s.mw[marker], s.tool[marker]
}

const (
	c12Limit      = 4096 // MaxRequestBodyBytes configured on the streamable handlers under test
	c12VerNew     = "2026-07-28"
	c12MetaVer    = "io.modelcontextprotocol/protocolVersion"
	c12MetaCaps   = "io.modelcontextprotocol/clientCapabilities"
	c12MetaClient = "io.modelcontextprotocol/clientInfo"
)

var c12Legacy = []string{"2025-11-25", "2025-06-18", "2025-03-26", "2024-11-05"}

// ---------------------------------------------------------------------------
// (a) HttpGate

type c12GateCase struct {
	Kind     string `json:"kind"`
	Listener string `json:"listener"`
	Host     string `json:"host"`
	Ctype    string `json:"ctype"`
	Accept   string `json:"accept"`
	Body     string `json:"body"`
	Vhdr     string `json:"vhdr"`
	Meta     string `json:"meta"`
	MM       string `json:"mm"`
	MN       string `json:"mn"`
	MP       string `json:"mp"`
	Msg      string `json:"msg"`
}

type c12GateOut struct {
	Status  int  `json:"status"`
	Code    int  `json:"code"`    // JSON-RPC error code found in the HTTP response (0 = none)
	Reached bool `json:"reached"` // a receiving middleware or the tool handler observed the message
	MW      bool `json:"mw"`
	Tool    bool `json:"tool"`
}

type c12GateLine struct {
	Case c12GateCase       `json:"c"`
	Out  c12GateOut        `json:"o"`
	Rep  int               `json:"rep"`
	Conc map[string]string `json:"conc"`
}

type c12GateEnv struct {
	seen      *c12Seen
	stateless [2]http.Handler // [JSONResponse false/true]
	stateful  [2]http.Handler
	sessionID [2]string
	sse       http.Handler
	sseEP     string // endpoint path with ?sessionid=
	sseStop   func()
	server    *mcp.Server
}

func c12GateServer(seen *c12Seen) *mcp.Server {
	s := mcp.NewServer(&mcp.Implementation{Name: "c12gate", Version: "1"}, &mcp.ServerOptions{
		ProgressNotificationHandler: func(ctx context.Context, req *mcp.ProgressNotificationServerRequest) {
			b, _ := json.Marshal(req.Params)
			seen.note(seen.tool, b)
		},
	})
	schema := json.RawMessage(`{"type":"object","properties":{"region":{"type":"string","x-mcp-header":"Region"},"marker":{"type":"string"}}}`)
	h := func(ctx context.Context, req *mcp.CallToolRequest) (*mcp.CallToolResult, error) {
		seen.note(seen.tool, req.Params.Arguments)
		return &mcp.CallToolResult{Content: []mcp.Content{&mcp.TextContent{Text: "ok"}}}, nil
	}
	s.AddTool(&mcp.Tool{Name: "gate", InputSchema: schema}, h)
	s.AddTool(&mcp.Tool{Name: "gate2", InputSchema: schema}, h)
	s.AddReceivingMiddleware(func(next mcp.MethodHandler) mcp.MethodHandler {
		return func(ctx context.Context, method string, req mcp.Request) (mcp.Result, error) {
			if b, err := json.Marshal(req.GetParams()); err == nil {
				seen.note(seen.mw, b)
			}
			return next(ctx, method, req)
		}
	})
	return s
}

// serve runs one request through h and waits for quiescence of everything it started.
func c12Serve(h http.Handler, req *http.Request) *httptest.ResponseRecorder {
	rec := httptest.NewRecorder()
	h.ServeHTTP(rec, req)
	synctest.Wait()
	return rec
}

func c12Post(target, body string, hdr map[string]string) *http.Request {
	req := httptest.NewRequest("POST", target, strings.NewReader(body))
	req.Host = "127.0.0.1:8080"
	req.Header.Set("Content-Type", "application/json")
	req.Header.Set("Accept", "application/json, text/event-stream")
	for k, v := range hdr {
		req.Header.Set(k, v)
	}
	return req
}

const c12InitBody = `{"jsonrpc":"2.0","id":"init","method":"initialize","params":{"protocolVersion":"2025-11-25","capabilities":{},"clientInfo":{"name":"c12","version":"1"}}}`
const c12InitedBody = `{"jsonrpc":"2.0","method":"notifications/initialized","params":{}}`

func newC12GateEnv(t *testing.T) *c12GateEnv {
	e := &c12GateEnv{seen: newC12Seen()}
	e.server = c12GateServer(e.seen)
	get := func(*http.Request) *mcp.Server { return e.server }
	for i, jr := range []bool{false, true} {
		e.stateless[i] = mcp.NewStreamableHTTPHandler(get, &mcp.StreamableHTTPOptions{Stateless: true, JSONResponse: jr, MaxRequestBodyBytes: c12Limit})
		e.stateful[i] = mcp.NewStreamableHTTPHandler(get, &mcp.StreamableHTTPOptions{JSONResponse: jr, MaxRequestBodyBytes: c12Limit})
		rec := c12Serve(e.stateful[i], c12Post("/mcp", c12InitBody, nil))
		e.sessionID[i] = rec.Header().Get("Mcp-Session-Id")
		if rec.Code != 200 || e.sessionID[i] == "" {
			t.Fatalf("stateful initialize failed: %d %s", rec.Code, rec.Body.String())
		}
		rec = c12Serve(e.stateful[i], c12Post("/mcp", c12InitedBody, map[string]string{"Mcp-Session-Id": e.sessionID[i], "Mcp-Protocol-Version": "2025-11-25"}))
		if rec.Code != 202 {
			t.Fatalf("stateful initialized failed: %d %s", rec.Code, rec.Body.String())
		}
	}
	// SSE: hanging GET served in a goroutine; the endpoint event carries the session id.
	e.sse = mcp.NewSSEHandler(get, nil)
	pr, pw := io.Pipe()
	ctx, cancel := context.WithCancel(context.Background())
	greq := httptest.NewRequest("GET", "/sse", nil).WithContext(ctx)
	greq.Host = "127.0.0.1:8080"
	gw := &c12PipeRW{hdr: http.Header{}, pw: pw, ready: make(chan struct{})}
	gdone := make(chan struct{})
	go func() { defer close(gdone); e.sse.ServeHTTP(gw, greq); gw.finish() }()
	br := bufio.NewReader(pr)
	for {
		line, err := br.ReadString('\n')
		if err != nil {
			t.Fatalf("sse endpoint event: %v", err)
		}
		if ep, ok := strings.CutPrefix(strings.TrimSpace(line), "data: "); ok {
			e.sseEP = ep
			break
		}
	}
	drained := make(chan struct{})
	go func() { defer close(drained); io.Copy(io.Discard, br) }()
	e.sseStop = func() { cancel(); <-gdone; pr.Close(); <-drained }
	if rec := c12Serve(e.sse, c12Post(e.sseEP, c12InitBody, nil)); rec.Code != 202 {
		t.Fatalf("sse initialize failed: %d %s", rec.Code, rec.Body.String())
	}
	if rec := c12Serve(e.sse, c12Post(e.sseEP, c12InitedBody, nil)); rec.Code != 202 {
		t.Fatalf("sse initialized failed: %d %s", rec.Code, rec.Body.String())
	}
	return e
}

func (e *c12GateEnv) close() {
	e.sseStop()
	for ss := range e.server.Sessions() {
		ss.Close()
	}
	synctest.Wait()
}

// hidden hides the concrete reader type so that net/http cannot derive a Content-Length.
type c12Hidden struct{ io.Reader }

func c12GateRun(e *c12GateEnv, r *rand.Rand, c c12GateCase, marker string) (c12GateOut, map[string]string) {
	conc := map[string]string{}
	// --- version strings
	legacy := c12Pick(r, c12Legacy...)
	future := c12Pick(r, "2027-01-01", "2026-07-29", "9999-12-31", "DRAFT-2026-v1")
	badold := c12Pick(r, "2023-01-01", "2025-06-17", "1.0", "2024-11-06", "0000-00-00", "2026-07-27")
	var hv string
	switch c.Vhdr {
	case "legacy":
		hv = legacy
	case "badold":
		hv = badold
	case "new":
		hv = c12VerNew
	case "future":
		hv = future
	}
	var mv string
	switch c.Meta {
	case "eq":
		mv = hv
	case "neNew":
		if c.Vhdr == "new" {
			mv = future
		} else {
			mv = c12VerNew
		}
	case "neLegacy":
		for mv = c12Pick(r, c12Legacy...); mv == hv; mv = c12Pick(r, c12Legacy...) {
		}
	}
	// --- body
	region := c12Pick(r, "us-west1", "eu central", "Zone-7", "a=b;c")
	meta := map[string]any{}
	if mv != "" {
		meta[c12MetaVer] = mv
		meta[c12MetaCaps] = map[string]any{}
		if r.IntN(2) == 0 {
			meta[c12MetaClient] = map[string]any{"name": "c12", "version": "1"}
		}
	} else if r.IntN(3) == 0 {
		meta["example.com/trace"] = "t1"
	}
	var method, toolName string
	msg := map[string]any{"jsonrpc": "2.0"}
	if c.Msg == "call" {
		method, toolName = "tools/call", "gate"
		params := map[string]any{"name": toolName, "arguments": map[string]any{"region": region, "marker": marker}}
		if len(meta) > 0 {
			params["_meta"] = meta
		}
		msg["id"], msg["method"], msg["params"] = "id-"+marker, method, params
	} else {
		method = "notifications/progress"
		params := map[string]any{"progressToken": marker, "progress": 1}
		if len(meta) > 0 {
			params["_meta"] = meta
		}
		msg["method"], msg["params"] = method, params
	}
	okBody, _ := json.Marshal(msg)
	pad := func(n int) []byte {
		b := append([]byte{}, okBody...)
		ws := c12Pick(r, " ", "\n", "\t", "\r\n")
		for len(b) < n {
			b = append(b, ws[len(b)%len(ws)])
		}
		return b[:n]
	}
	var body []byte
	switch c.Body {
	case "ok":
		body = okBody
	case "atlimit":
		body = pad(c12Limit)
	case "oversize":
		body = pad(c12Limit + c12Pick(r, 1, 2, 17, c12Limit, 9*c12Limit))
	case "empty":
		body = nil
	case "malformed":
		body = []byte(c12Pick(r, "{", "not json", string(okBody[:len(okBody)/2]), "\"str\"", "12", "{\"jsonrpc\":\"2.0\",\"id\":1,\"method\":7}", "\xff\xfe", "}"+string(okBody), "["+string(okBody)+" x]", "["+string(okBody)+",]", "["+string(okBody)+string(okBody)+"]"))
	case "trailing":
		// one well-formed message (or a legacy batch holding it) followed by more non-blank bytes - a second JSON value,
		// stray punctuation, a NUL: not a JSON text
		tail := c12Pick(r, "}", " x", "]", ",", "\n"+string(okBody), string(okBody), "\n{\"jsonrpc\":\"2.0\",\"method\":\"notifications/progress\",\"params\":{\"progressToken\":\"t\",\"progress\":2}}", "\x00", "[]", "null", " 1")
		if r.IntN(4) == 0 {
			okBody = []byte("[" + string(okBody) + "]") // batch form (accepted before 2025-06-18)
			conc["batch"] = "1"
		}
		body = []byte(string(okBody) + tail)
		conc["tail"] = strconv.Quote(string(body[len(okBody):min(len(body), len(okBody)+12)]))
	}
	conc["bodylen"] = strconv.Itoa(len(body))
	var rd io.Reader = bytes.NewReader(body)
	if c.Body != "empty" && r.IntN(3) == 0 {
		rd = c12Hidden{rd} // unknown length (chunked / HTTP/2 style)
	}
	var target string
	var h http.Handler
	jr := r.IntN(2)
	switch c.Kind {
	case "stateless":
		target, h = "/mcp", e.stateless[jr]
	case "stateful":
		target, h = "/mcp", e.stateful[jr]
	case "sse":
		target, h = e.sseEP, e.sse
	}
	var req *http.Request
	if c.Body == "empty" && r.IntN(2) == 0 {
		req = httptest.NewRequest("POST", target, nil)
	} else {
		req = httptest.NewRequest("POST", target, rd)
	}
	if c.Kind == "stateful" {
		req.Header.Set("Mcp-Session-Id", e.sessionID[jr])
	}
	// --- listener and Host
	port := 1024 + r.IntN(60000)
	var local net.Addr
	switch c.Listener {
	case "loop":
		local = &net.TCPAddr{IP: net.ParseIP(c12Pick(r, "127.0.0.1", "::1", "127.0.0.53", "127.255.255.254")), Port: port}
	case "other":
		local = &net.TCPAddr{IP: net.ParseIP(c12Pick(r, "192.0.2.10", "10.1.2.3", "2001:db8::1", "128.0.0.1", "126.255.255.255")), Port: port}
	}
	if local != nil {
		req = req.WithContext(context.WithValue(req.Context(), http.LocalAddrContextKey, local))
		conc["local"] = local.String()
	}
	ps := strconv.Itoa(port)
	switch c.Host {
	case "loop":
		req.Host = c12Pick(r, "127.0.0.1:"+ps, "127.0.0.1", "localhost", "localhost:"+ps, "[::1]:"+ps, "[::1]", "127.0.0.2:"+ps, "127.1.2.3")
	case "other":
		req.Host = c12Pick(r, "example.com", "evil.example:"+ps, "192.168.1.5:"+ps, "10.0.0.1", "[2001:db8::1]:"+ps, "128.0.0.1:"+ps, "0.0.0.0:"+ps, "[::]:"+ps)
	case "lookalike":
		req.Host = c12Pick(r, "localhost.evil.example", "127.0.0.1.evil.example:"+ps, "notlocalhost", "localhost.evil.example:"+ps, "evil-localhost:"+ps, "127.0.0.1.nip.io", "1270.0.0.1:"+ps, "xlocalhost")
	case "empty":
		req.Host = ""
	}
	conc["host"] = req.Host
	// --- Content-Type / Accept
	switch c.Ctype {
	case "json":
		req.Header.Set("Content-Type", "application/json")
	case "jsonparams":
		req.Header.Set("Content-Type", c12Pick(r, "application/json; charset=utf-8", "application/json;charset=UTF-8", "Application/JSON", "application/json ; q=1"))
	case "other":
		req.Header.Set("Content-Type", c12Pick(r, "text/plain", "application/x-www-form-urlencoded", "application/jsonx", "application/json-patch+json", "text/json", "application/xml; charset=utf-8", "multipart/form-data; boundary=x"))
	case "malformed":
		req.Header.Set("Content-Type", c12Pick(r, "application/json; charset", ";;;", "application/json; =x", "/", "application/json/extra", "application json"))
	}
	conc["ctype"] = req.Header.Get("Content-Type")
	switch c.Accept {
	case "both":
		v := c12Pick(r, "application/json, text/event-stream", "text/event-stream,application/json", "application/json;q=0.9, text/event-stream;q=0.8", "APPLICATION/JSON , Text/Event-Stream", "text/html, application/json, text/event-stream")
		if r.IntN(4) == 0 {
			req.Header["Accept"] = []string{"application/json", "text/event-stream"}
		} else {
			req.Header.Set("Accept", v)
		}
	case "wild":
		req.Header.Set("Accept", c12Pick(r, "*/*", "application/*, text/*", "application/json, text/*", "application/*, text/event-stream", "text/html, */*;q=0.1"))
	case "jsononly":
		req.Header.Set("Accept", c12Pick(r, "application/json", "application/json, text/html", "application/*", "application/json;q=1"))
	case "sseonly":
		req.Header.Set("Accept", c12Pick(r, "text/event-stream", "text/*", "text/event-stream, text/html"))
	case "other":
		req.Header.Set("Accept", c12Pick(r, "text/html", "image/*", "application/xml, text-event-stream", "application/jsonx, text/event-streams", "json, sse"))
	}
	conc["accept"] = strings.Join(req.Header.Values("Accept"), " | ")
	// --- version header and the Mcp-* mirrors
	if hv != "" {
		req.Header.Set("Mcp-Protocol-Version", hv)
	}
	conc["vhdr"], conc["meta"] = hv, mv
	mirror := func(cls, val string) (string, bool) {
		switch cls {
		case "equal":
			return val, true
		case "different":
			return c12Pick(r, val+"x", strings.ToUpper(val), "other", c12B64(val+"y"), strings.TrimSuffix(val, val[len(val)-1:])), true
		case "b64equal":
			return c12B64(val), true
		case "b64malformed":
			return c12Pick(r, "=?base64?%%%?=", "=?base64?"+base64.StdEncoding.EncodeToString([]byte(val))+"*?=", "=?base64?A?="), true
		}
		return "", false
	}
	if v, ok := mirror(c.MM, method); ok {
		req.Header.Set("Mcp-Method", v)
		conc["mm"] = v
	}
	nameVal := toolName
	if nameVal == "" {
		nameVal = "gate"
	}
	if v, ok := mirror(c.MN, nameVal); ok {
		if c.MN == "different" && r.IntN(2) == 0 {
			v = "gate2" // another registered tool
		}
		req.Header.Set("Mcp-Name", v)
		conc["mn"] = v
	}
	if v, ok := mirror(c.MP, region); ok {
		req.Header.Set("Mcp-Param-Region", v)
		conc["mp"] = v
	}
	rec := c12Serve(h, req)
	out := c12GateOut{Status: rec.Code, Code: c12ErrCode(rec)}
	out.MW, out.Tool = e.seen.get(marker)
	out.Reached = out.MW || out.Tool
	return out, conc
}

// c12ErrCode extracts a JSON-RPC error code from an application/json or text/event-stream response.
func c12ErrCode(rec *httptest.ResponseRecorder) int {
	type resp struct {
		Error *struct {
			Code int `json:"code"`
		} `json:"error"`
	}
	try := func(b []byte) int {
		var x resp
		if json.Unmarshal(b, &x) == nil && x.Error != nil {
			return x.Error.Code
		}
		return 0
	}
	body := rec.Body.Bytes()
	ct := rec.Header().Get("Content-Type")
	if strings.HasPrefix(ct, "text/event-stream") {
		for _, line := range bytes.Split(body, []byte("\n")) {
			if d, ok := bytes.CutPrefix(line, []byte("data: ")); ok {
				if c := try(d); c != 0 {
					return c
				}
			}
		}
		return 0
	}
	return try(bytes.TrimSpace(body))
}

func TestVerif_C12Gate(t *testing.T) {
	seed, reps, in, enc, done := c12IO(t)
	defer done()
	var cases []c12GateCase
	for in.Scan() {
		var c c12GateCase
		if err := json.Unmarshal(in.Bytes(), &c); err != nil {
			t.Fatalf("bad case: %v", err)
		}
		cases = append(cases, c)
	}
	r := rand.New(rand.NewPCG(seed, 12))
	synctest.Test(t, func(t *testing.T) {
		e := newC12GateEnv(t)
		for i, c := range cases {
			for rep := 0; rep < reps; rep++ {
				marker := fmt.Sprintf("mk-%d-%d", i, rep)
				out, conc := c12GateRun(e, r, c, marker)
				enc.Encode(c12GateLine{Case: c, Out: out, Rep: rep, Conc: conc})
			}
		}
		e.close()
	})
}

// ---------------------------------------------------------------------------
// in-process HTTP seam used by the mirror test: wire-faithful RoundTripper

type c12PipeRW struct {
	hdr    http.Header
	pw     *io.PipeWriter
	ready  chan struct{}
	once   sync.Once
	status int
	snap   http.Header
}

func (w *c12PipeRW) Header() http.Header { return w.hdr }
func (w *c12PipeRW) WriteHeader(code int) {
	w.once.Do(func() { w.status, w.snap = code, w.hdr.Clone(); close(w.ready) })
}
func (w *c12PipeRW) Write(p []byte) (int, error) { w.WriteHeader(200); return w.pw.Write(p) }
func (w *c12PipeRW) Flush()                      { w.WriteHeader(200) }
func (w *c12PipeRW) finish()                     { w.WriteHeader(200); w.pw.Close() }

type c12Body struct {
	*io.PipeReader
	cancel context.CancelFunc
}

func (b c12Body) Close() error { b.cancel(); return b.PipeReader.Close() }

type c12Sent struct {
	Header http.Header
	Body   []byte
}

type c12RT struct {
	h     http.Handler
	local net.Addr
	mu    sync.Mutex
	sent  []c12Sent // what the server-side handler received, after the wire
	gate  *c12Gate  // mirror histories: holds tools/list requests / answers and list_changed notifications on the wire
}

// c12Gate is the scripted part of the wire of the mirror histories.  While armed, a tools/list request for one of
// the two pages the model follows (no cursor: "p1"; the cursor that follows the last first-page filler: "pN") stops
// twice: before it reaches the server (ListSent, until "answer") and after the server has answered completely
// (ListAnswered, until "deliver").  notifications/tools/list_changed events on the subscriptions/listen stream are
// kept back until "notify" (NotifiedDelivered).
type c12Gate struct {
	mu         sync.Mutex
	armed      bool
	open       bool   // teardown: nothing is held any more
	lastFiller string // name of the last first-page filler ("" when there is none)
	phase      string // idle | sent | ans | gap (released, the client has not come back yet)
	key        string // p1 | pN
	answerGo   chan struct{}
	deliverGo  chan struct{}
	held       [][]byte // list_changed events kept back
	noteW      *io.PipeWriter
	seenNotes  int
}

func (g *c12Gate) state() (string, string) {
	g.mu.Lock()
	defer g.mu.Unlock()
	return g.phase, g.key
}

func (g *c12Gate) setPhase(p string) {
	g.mu.Lock()
	g.phase = p
	g.mu.Unlock()
}

// claim decides whether a tools/list request is held, and registers it as the request in flight.
func (g *c12Gate) claim(body []byte) (answerGo, deliverGo chan struct{}, ok bool) {
	var msg struct {
		Params struct {
			Cursor string `json:"cursor"`
		} `json:"params"`
	}
	if json.Unmarshal(body, &msg) != nil {
		return nil, nil, false
	}
	key := "p1"
	if msg.Params.Cursor != "" {
		raw, err := base64.URLEncoding.DecodeString(msg.Params.Cursor)
		if err != nil || g.lastFiller == "" || !bytes.Contains(raw, []byte(g.lastFiller)) {
			return nil, nil, false // a page after the tools' page: not followed by the model
		}
		key = "pN"
	}
	g.mu.Lock()
	defer g.mu.Unlock()
	if !g.armed || g.open || g.phase == "sent" || g.phase == "ans" {
		return nil, nil, false
	}
	g.phase, g.key = "sent", key
	g.answerGo, g.deliverGo = make(chan struct{}), make(chan struct{})
	return g.answerGo, g.deliverGo, true
}

// release lets the request in flight take its next step (what: "answer" | "deliver"); false if there is none there.
func (g *c12Gate) release(what string) bool {
	g.mu.Lock()
	defer g.mu.Unlock()
	switch {
	case what == "answer" && g.phase == "sent":
		close(g.answerGo)
	case what == "deliver" && g.phase == "ans":
		g.phase = "gap"
		close(g.deliverGo)
	default:
		return false
	}
	return true
}

// openAll ends the script: whatever is held goes through.
func (g *c12Gate) openAll() {
	g.mu.Lock()
	g.open, g.armed = true, false
	if g.phase == "sent" {
		close(g.answerGo)
		close(g.deliverGo)
	} else if g.phase == "ans" {
		close(g.deliverGo)
	}
	g.phase = "gap"
	g.mu.Unlock()
	g.flushNotes()
}

// filter forwards the events of a subscriptions/listen stream, keeping list_changed notifications back.
func (g *c12Gate) filter(src io.ReadCloser) io.ReadCloser {
	pr2, pw2 := io.Pipe()
	g.mu.Lock()
	g.noteW = pw2
	g.mu.Unlock()
	go func() {
		br := bufio.NewReader(src)
		var ev []byte
		for {
			line, err := br.ReadBytes('\n')
			ev = append(ev, line...)
			if err != nil {
				pw2.CloseWithError(err)
				return
			}
			if len(bytes.TrimRight(line, "\r\n")) != 0 {
				continue
			}
			g.mu.Lock()
			hold := !g.open && bytes.Contains(ev, []byte("notifications/tools/list_changed"))
			if hold {
				g.held = append(g.held, ev)
				g.seenNotes++
			}
			g.mu.Unlock()
			if !hold {
				pw2.Write(ev)
			}
			ev = nil
		}
	}()
	return c12FilterBody{pr2, src}
}

type c12FilterBody struct {
	*io.PipeReader
	src io.ReadCloser
}

func (b c12FilterBody) Close() error { b.src.Close(); return b.PipeReader.Close() }

// flushNotes delivers the notifications kept back so far.
func (g *c12Gate) flushNotes() int {
	g.mu.Lock()
	held, w := g.held, g.noteW
	g.held = nil
	g.mu.Unlock()
	for _, ev := range held {
		w.Write(ev)
	}
	return len(held)
}

func (g *c12Gate) pending() int {
	g.mu.Lock()
	defer g.mu.Unlock()
	return len(g.held)
}

func (rt *c12RT) sentSnapshot() []c12Sent {
	rt.mu.Lock()
	defer rt.mu.Unlock()
	return rt.sent[:len(rt.sent):len(rt.sent)]
}

// validFieldValue is httpguts.ValidHeaderFieldValue (what net/http.Transport enforces before sending).
func c12ValidFieldValue(v string) bool {
	for i := 0; i < len(v); i++ {
		b := v[i]
		if (b < ' ' || b == 0x7f) && b != '\t' {
			return false
		}
	}
	return true
}

func (rt *c12RT) RoundTrip(req *http.Request) (*http.Response, error) {
	for k, vv := range req.Header {
		for _, v := range vv {
			if !c12ValidFieldValue(v) {
				return nil, fmt.Errorf("net/http: invalid header field value for %q", k)
			}
		}
	}
	// client side of the wire: serialise exactly as net/http would ...
	var wire bytes.Buffer
	if err := req.Write(&wire); err != nil {
		return nil, err
	}
	// ... and the server side: parse what arrived.
	sreq, err := http.ReadRequest(bufio.NewReader(&wire))
	if err != nil {
		return nil, fmt.Errorf("c12 wire: %w", err)
	}
	body, _ := io.ReadAll(sreq.Body)
	sreq.Body = io.NopCloser(bytes.NewReader(body))
	sreq.RemoteAddr = "127.0.0.1:50000"
	rt.mu.Lock()
	rt.sent = append(rt.sent, c12Sent{Header: sreq.Header.Clone(), Body: body})
	rt.mu.Unlock()
	var answerGo, deliverGo chan struct{}
	gated := false
	if rt.gate != nil && sreq.Header.Get("Mcp-Method") == "tools/list" {
		if answerGo, deliverGo, gated = rt.gate.claim(body); gated {
			select { // ListSent: the request has left the client
			case <-answerGo:
			case <-req.Context().Done():
				return nil, req.Context().Err()
			}
		}
	}
	ctx, cancel := context.WithCancel(context.WithValue(context.Background(), http.LocalAddrContextKey, rt.local))
	stop := context.AfterFunc(req.Context(), cancel)
	pr, pw := io.Pipe()
	w := &c12PipeRW{hdr: http.Header{}, pw: pw, ready: make(chan struct{})}
	go func() {
		defer stop()
		rt.h.ServeHTTP(w, sreq.WithContext(ctx))
		w.finish()
	}()
	select {
	case <-w.ready:
	case <-req.Context().Done():
		cancel()
		pr.Close()
		return nil, req.Context().Err()
	}
	var rbody io.ReadCloser = c12Body{pr, cancel}
	if gated {
		// ListAnswered: the server has answered completely; the answer stays on the wire until "deliver"
		all, rerr := io.ReadAll(pr)
		cancel()
		if rerr != nil {
			return nil, rerr
		}
		rt.gate.mu.Lock()
		if rt.gate.phase == "sent" {
			rt.gate.phase = "ans"
		}
		rt.gate.mu.Unlock()
		select {
		case <-deliverGo:
		case <-req.Context().Done():
			return nil, req.Context().Err()
		}
		rbody = io.NopCloser(bytes.NewReader(all))
	} else if rt.gate != nil && sreq.Header.Get("Mcp-Method") == "subscriptions/listen" {
		rbody = rt.gate.filter(rbody)
	}
	return &http.Response{
		StatusCode: w.status, Status: fmt.Sprintf("%d %s", w.status, http.StatusText(w.status)),
		Proto: "HTTP/1.1", ProtoMajor: 1, ProtoMinor: 1,
		Header: w.snap, Body: rbody, ContentLength: -1, Request: req,
	}, nil
}

// ---------------------------------------------------------------------------
// (b) HeaderMirror

// c12Hist is HeaderMirrorDefs' client-side history: what happens between Connect and the call.
type c12Hist struct {
	TTL   string   `json:"ttl"`   // none: tools/list answers carry ttlMs 0; pos: a positive ttlMs
	Page  string   `json:"page"`  // first: the tool is on the first page; later: on a later page only
	Sub   bool     `json:"sub"`   // the client has a ToolListChangedHandler (keeps a subscriptions/listen stream)
	Steps []string `json:"steps"` // list | wait | change | shrink | notify | send | answer | deliver
}

func (h c12Hist) key() string {
	return fmt.Sprintf("%s/%s/%v/%s", h.TTL, h.Page, h.Sub, strings.Join(h.Steps, ">"))
}

type c12MirCase struct {
	Depth int     `json:"depth"`
	Ty    string  `json:"ty"`
	Val   string  `json:"val"`
	HName string  `json:"hname"`
	NSib  int     `json:"nsib"` // further annotated properties next to the annotated one (same parent object), all with different values
	Hist  c12Hist `json:"hist"`
}

type c12MirOut struct {
	Accepted bool   `json:"accepted"` // CallTool returned a result and the tool handler ran
	Handler  bool   `json:"handler"`  // the tool handler ran
	Same     bool   `json:"same"`     // the handler saw exactly the argument value that was sent
	Code     int    `json:"code"`     // JSON-RPC error code returned to the caller (0 = none)
	Hdr      string `json:"hdr"`      // what the client emitted for the annotated parameter: none|empty|raw|b64
	Sent     bool   `json:"sent"`     // a tools/call request for this tool reached the wire
	Own      bool   `json:"own"`      // the header the client sent for the parameter decodes to that parameter's own body value
	SibOK    bool   `json:"sibok"`    // every sibling's header decodes to that sibling's own value, and the handler saw each sibling unaltered
	Via      string `json:"via"`      // the definition the request shows: Mcp-Param-* under the tool's current header names (current), under names of an earlier revision (stale), none at all (none)
}

type c12MirLine struct {
	Case c12MirCase        `json:"c"`
	Out  c12MirOut         `json:"o"`
	Rep  int               `json:"rep"`
	Conc map[string]string `json:"conc"`
}

type c12MirJob struct {
	c      c12MirCase
	rep    int
	tool   string
	header string // x-mcp-header annotation
	path   []string
	val    any
	absent bool
	args   map[string]any
	schema map[string]any
	sibs   []c12Sib
}

type c12Sib struct {
	name, header string
	val          any
}

// c12HeaderText is the canonical text of a primitive argument value (what its header must decode to).
func c12HeaderText(v any) (string, bool) {
	switch x := v.(type) {
	case string:
		return x, true
	case bool:
		return strconv.FormatBool(x), true
	case int64:
		return strconv.FormatInt(x, 10), true
	}
	return "", false
}

// c12Decode undoes the =?base64?...?= wrapper of a received field value.
func c12Decode(h string) (string, bool) {
	if enc, ok := strings.CutPrefix(h, "=?base64?"); ok {
		if enc, ok = strings.CutSuffix(enc, "?="); ok {
			b, err := base64.StdEncoding.DecodeString(enc)
			return string(b), err == nil
		}
	}
	return h, true
}

func c12Value(r *rand.Rand, ty, cls string) (val any, absent bool) {
	ascii := func() string {
		n := 1 + r.IntN(16)
		b := make([]byte, n)
		for i := range b {
			b[i] = byte(0x21 + r.IntN(0x7e-0x21+1)) // visible ASCII, no space
		}
		if strings.HasPrefix(string(b), "=?") {
			b[0] = 'a'
		}
		return string(b)
	}
	switch cls {
	case "absent":
		return nil, true
	case "null":
		return nil, false
	}
	switch ty {
	case "string":
		switch cls {
		case "empty":
			return "", false
		case "ascii":
			return c12Pick(r, ascii(), "us-west1", "a", "~", "x=y;z", "\"quoted\"", "a,b"), false
		case "innerspace":
			return c12Pick(r, "a b", "eu central 1", "a  b", "x - y"), false
		case "leadsp":
			return c12Pick(r, " x", "  lead", " ", " a b"), false
		case "trailsp":
			return c12Pick(r, "x ", "trail  ", "a b "), false
		case "leadtab":
			return c12Pick(r, "\tx", "\t", "\t\tv"), false
		case "trailtab":
			return c12Pick(r, "x\t", "v \t"), false
		case "nonascii":
			return c12Pick(r, "héllo", "日本語", "naïve café", "😀", "a b", "é", "x y", "Ω"), false
		case "control":
			return c12Pick(r, "a\nb", "line1\r\nline2", "a\tb", "\x01", "nul\x00byte", "\x1f", "bell\a", "\n"), false
		case "del":
			return c12Pick(r, "a\x7fb", "\x7f"), false
		case "sentinel":
			return c12Pick(r, "=?base64?aGk=?=", "=?base64??=", "=?base64?not base64!?=", "=?base64?=", "=?base64?"+ascii()+"?="), false
		case "sentprefix":
			return c12Pick(r, "=?base64?abc", "abc?=", "=?base64", "?==?base64?", "x=?base64?aGk=?=", "=?BASE64?aGk=?="), false
		case "numlike":
			return c12Pick(r, "123", "-0", "1e3", "9007199254740993", "0x10", "1.0", "+5"), false
		case "boollike":
			return c12Pick(r, "true", "false", "TRUE", "null"), false
		}
	case "integer":
		switch cls {
		case "zero":
			return int64(0), false
		case "small":
			return int64(1 + r.IntN(100000)), false
		case "neg":
			return -int64(1 + r.IntN(100000)), false
		case "maxsafe":
			return int64(1<<53 - 1), false
		case "minsafe":
			return -int64(1<<53 - 1), false
		case "nearsafe":
			return c12Pick(r, int64(1<<53-2), -int64(1<<53-2), int64(1<<52+1), int64(4503599627370497)), false
		case "beyond":
			return c12Pick(r, int64(1<<53), int64(1<<53+1), int64(1<<62), int64(9223372036854775807)), false
		case "negbeyond":
			return c12Pick(r, -int64(1<<53), -int64(1<<53+1), -int64(1<<62)), false
		}
	case "boolean":
		switch cls {
		case "true":
			return true, false
		case "false":
			return false, false
		}
	}
	panic("c12: value class " + ty + "/" + cls)
}

func c12MirJobFor(r *rand.Rand, c c12MirCase, rep, idx int) *c12MirJob {
	j := &c12MirJob{c: c, rep: rep, tool: fmt.Sprintf("tool_%d_%d", idx, rep)}
	switch c.HName {
	case "plain":
		j.header = c12Pick(r, "Region", "Tenant", "X-Trace")
	case "lower":
		j.header = c12Pick(r, "region", "tenant-id", "x")
	case "special":
		j.header = c12Pick(r, "x_Y.z~1", "A!b#c$d%e&f'g*h+i", "UPPER-lower-09", "a^b`c|d", "9")
	}
	names := []string{"p", "outer", "mid", "in.ner", "Ünï", "x y", "l6", "Seven", "h_8", "n-9"}
	r.Shuffle(len(names), func(a, b int) { names[a], names[b] = names[b], names[a] })
	j.path = names[:c.Depth]
	j.val, j.absent = c12Value(r, c.Ty, c.Val)
	// siblings: annotated properties in the same object as the annotated one, each with a value of its own
	ownText, _ := c12HeaderText(j.val)
	used := map[string]bool{ownText: true}
	for i := 1; i <= c.NSib; i++ {
		sb := c12Sib{name: fmt.Sprintf("sib%d%s", i, c12Pick(r, "", "_x", "-Y")), header: fmt.Sprintf("%s%d-%d", c12Pick(r, "Sib", "sib", "Tenant"), i, r.IntN(10))}
		for {
			switch r.IntN(3) {
			case 0:
				sb.val = fmt.Sprintf("sv%d-%d", i, r.IntN(1000000))
			case 1:
				sb.val = int64(r.IntN(1000000)) - 500000
			default:
				sb.val = c12Pick(r, "acme", "eu-west1", "blue", "x y z") + strconv.Itoa(i)
			}
			if txt, _ := c12HeaderText(sb.val); !used[txt] {
				used[txt] = true
				break
			}
		}
		j.sibs = append(j.sibs, sb)
	}
	// schema: nested objects down to the annotated primitive (and its siblings)
	leaf := map[string]any{"type": c.Ty, "x-mcp-header": j.header}
	if r.IntN(2) == 0 {
		leaf["description"] = "mirrored into a header"
	}
	parentProps := map[string]any{j.path[c.Depth-1]: leaf}
	parentArgs := map[string]any{}
	if !j.absent {
		parentArgs[j.path[c.Depth-1]] = j.val
	}
	for _, sb := range j.sibs {
		ty := "string"
		if _, isInt := sb.val.(int64); isInt {
			ty = "integer"
		}
		parentProps[sb.name] = map[string]any{"type": ty, "x-mcp-header": sb.header}
		parentArgs[sb.name] = sb.val
	}
	props := parentProps
	for i := c.Depth - 2; i >= 0; i-- {
		up := map[string]any{j.path[i]: map[string]any{"type": "object", "properties": props}}
		if r.IntN(2) == 0 {
			up["unrelated"] = map[string]any{"type": "string"}
		}
		props = up
	}
	// arguments: by default every enclosing object is sent; an absent parameter without siblings may also lose
	// some of its enclosing objects (only the first cut of them are sent, the innermost one empty)
	args, wrapFrom := parentArgs, c.Depth-2
	if j.absent && c.NSib == 0 {
		if cut := r.IntN(c.Depth); cut < c.Depth-1 {
			args, wrapFrom = map[string]any{}, cut-1
		}
	}
	for i := wrapFrom; i >= 0; i-- {
		args = map[string]any{j.path[i]: args}
	}
	props["marker"] = map[string]any{"type": "string"}
	j.schema = map[string]any{"type": "object", "properties": props}
	j.args = args
	j.args["marker"] = "mk-" + j.tool
	return j
}

// c12Lookup navigates decoded JSON along path.
func c12Lookup(v any, path []string) (any, bool) {
	cur := v
	for _, p := range path {
		m, ok := cur.(map[string]any)
		if !ok {
			return nil, false
		}
		cur, ok = m[p]
		if !ok {
			return nil, false
		}
	}
	return cur, true
}

func c12Canon(v any) any {
	b, _ := json.Marshal(v)
	d := json.NewDecoder(bytes.NewReader(b))
	d.UseNumber()
	var out any
	d.Decode(&out)
	return out
}

// c12HdrName is the header name an annotation carries in revision ver of the tool ("change" renames every one).
func c12HdrName(base string, ver int) string {
	if ver == 0 {
		return base
	}
	return fmt.Sprintf("%s-r%d", base, ver)
}

// c12Revise copies a schema, giving every x-mcp-header annotation its name of revision ver.
func c12Revise(v any, ver int) any {
	m, ok := v.(map[string]any)
	if !ok {
		return v
	}
	out := make(map[string]any, len(m))
	for k, e := range m {
		if name, isName := e.(string); isName && k == "x-mcp-header" {
			out[k] = c12HdrName(name, ver)
		} else {
			out[k] = c12Revise(e, ver)
		}
	}
	return out
}

// c12MirChunk plays history h on a fresh real client / real stateless server pair that serves the tools of jobs,
// then makes every job's call.  Everything runs in one synctest bubble: time only passes in the "wait" steps (and
// the 50 ms given to the server's debounced list_changed notification).
func c12MirChunk(t *testing.T, r *rand.Rand, h c12Hist, jobs []*c12MirJob, enc c12LineSink) {
	synctest.Test(t, func(t *testing.T) { c12MirChunkIn(t, r, h, jobs, enc) })
}

// c12LineSink collects the observation lines of one chunk (chunks run side by side; lines are written in chunk order).
type c12LineSink interface{ Encode(v any) error }

type c12Lines struct{ lines []c12MirLine }

func (l *c12Lines) Encode(v any) error { l.lines = append(l.lines, v.(c12MirLine)); return nil }

func c12MirChunkIn(t *testing.T, r *rand.Rand, h c12Hist, jobs []*c12MirJob, enc c12LineSink) {
	type got struct {
		args json.RawMessage
	}
	var mu sync.Mutex
	ran := map[string]got{}
	toolHandler := func(ctx context.Context, req *mcp.CallToolRequest) (*mcp.CallToolResult, error) {
		mu.Lock()
		ran[req.Params.Name] = got{args: append(json.RawMessage{}, req.Params.Arguments...)}
		mu.Unlock()
		return &mcp.CallToolResult{Content: []mcp.Content{&mcp.TextContent{Text: "ok"}}}, nil
	}
	// layout: tools are listed in name order, "a_fill_*" < "tool_*" < "zz_fill_*"
	pageSize := len(jobs) + r.IntN(3)
	server := mcp.NewServer(&mcp.Implementation{Name: "c12mirror", Version: "1"}, &mcp.ServerOptions{PageSize: pageSize})
	ver := 0
	addTools := func() {
		for _, j := range jobs {
			server.AddTool(&mcp.Tool{Name: j.tool, InputSchema: c12Revise(j.schema, ver)}, toolHandler)
		}
	}
	addTools()
	plain := map[string]any{"type": "object"}
	var fillers []string
	if h.Page == "later" { // exactly one page of other tools before the first job tool
		for i := 0; i < pageSize; i++ {
			fillers = append(fillers, fmt.Sprintf("a_fill_%03d", i))
			server.AddTool(&mcp.Tool{Name: fillers[i], InputSchema: plain}, toolHandler)
		}
	}
	for i, n := 0, r.IntN(4); i < n; i++ { // other tools after the last job tool (possibly a page of their own)
		server.AddTool(&mcp.Tool{Name: fmt.Sprintf("zz_fill_%d", i), InputSchema: plain}, toolHandler)
	}
	ttl := time.Duration(0)
	if h.TTL == "pos" {
		ttl = c12Pick(r, time.Second, 2500*time.Millisecond, 30*time.Second)
	}
	server.AddReceivingMiddleware(func(next mcp.MethodHandler) mcp.MethodHandler {
		return func(ctx context.Context, method string, req mcp.Request) (mcp.Result, error) {
			res, err := next(ctx, method, req)
			if lr, ok := res.(*mcp.ListToolsResult); ok && err == nil {
				lr.TTLMs = int(ttl / time.Millisecond)
			}
			return res, err
		}
	})
	handler := mcp.NewStreamableHTTPHandler(func(*http.Request) *mcp.Server { return server }, &mcp.StreamableHTTPOptions{Stateless: true})
	gate := &c12Gate{phase: "idle"}
	if len(fillers) > 0 {
		gate.lastFiller = fillers[len(fillers)-1]
	}
	rt := &c12RT{h: handler, local: &net.TCPAddr{IP: net.ParseIP("127.0.0.1"), Port: 8080}, gate: gate}
	ctx, cancel := context.WithCancel(context.Background())
	defer cancel()
	var copts *mcp.ClientOptions
	notified := 0
	if h.Sub {
		copts = &mcp.ClientOptions{ToolListChangedHandler: func(context.Context, *mcp.ToolListChangedRequest) {
			mu.Lock()
			notified++
			mu.Unlock()
		}}
	}
	client := mcp.NewClient(&mcp.Implementation{Name: "c12client", Version: "1"}, copts)
	cs, err := client.Connect(ctx, &mcp.StreamableClientTransport{
		Endpoint: "http://127.0.0.1:8080/mcp", HTTPClient: &http.Client{Transport: rt}, DisableStandaloneSSE: true, MaxRetries: -1,
	}, nil)
	if err != nil {
		t.Fatalf("c12 mirror: connect: %v", err)
	}
	defer func() {
		gate.openAll() // whatever the script still holds goes through
		synctest.Wait()
		cs.Close()
		for ss := range server.Sessions() {
			ss.Close()
		}
		synctest.Wait()
	}()
	if pv := cs.InitializeResult().ProtocolVersion; pv != c12VerNew {
		t.Fatalf("c12 mirror: negotiated %q, want %s (the Mcp-* mirrors are only enforced there)", pv, c12VerNew)
	}

	// ---- the history
	settle := func() { // a debounced list_changed notification (10 ms) has gone out (and is kept back on the wire until "notify")
		time.Sleep(50 * time.Millisecond)
		synctest.Wait()
	}
	checkListed := func(listed map[string]bool) {
		for _, j := range jobs {
			if !listed[j.tool] {
				t.Fatalf("c12 mirror: tool %s with a valid annotation was not listed by the client (schema %v)", j.tool, j.schema)
			}
		}
	}
	shifted := false
	var trail []string
	var passErr error // (under mu) error of a listing that ran in the background
	passes := 0       // (under mu) listings that have returned every page
	where := func() string {
		ph, key := gate.state()
		if ph == "sent" || ph == "ans" {
			return ph + ":" + key
		}
		return ph
	}
	for _, step := range h.Steps {
		switch step {
		case "list":
			gate.mu.Lock()
			gate.armed = false
			gate.mu.Unlock()
			base := len(rt.sentSnapshot())
			listed := map[string]bool{}
			for tool, err := range cs.Tools(ctx, nil) {
				if err != nil {
					t.Fatalf("c12 mirror: tools/list: %v", err)
				}
				listed[tool.Name] = true
			}
			checkListed(listed)
			trail = append(trail, fmt.Sprintf("list(%d requests)", len(rt.sentSnapshot())-base))
		case "send": // ListSent: the application starts listing; the requests for the pages the model follows are held
			if ph, _ := gate.state(); ph != "idle" {
				trail = append(trail, "send(listing in progress: "+where()+")")
				break
			}
			gate.mu.Lock()
			gate.armed, gate.phase = true, "gap"
			gate.mu.Unlock()
			base := len(rt.sentSnapshot())
			go func() {
				listed := map[string]bool{}
				var lerr error
				for tool, err := range cs.Tools(ctx, nil) {
					if err != nil {
						lerr = err
						break
					}
					listed[tool.Name] = true
				}
				mu.Lock()
				if lerr != nil {
					passErr = lerr
				} else {
					passes++
					for _, j := range jobs {
						if !listed[j.tool] && passErr == nil {
							passErr = fmt.Errorf("tool %s with a valid annotation was not listed by the client", j.tool)
						}
					}
				}
				mu.Unlock()
				gate.mu.Lock()
				gate.armed, gate.phase = false, "idle"
				gate.mu.Unlock()
			}()
			synctest.Wait()
			trail = append(trail, fmt.Sprintf("send(%d requests)->%s", len(rt.sentSnapshot())-base, where()))
		case "answer", "deliver": // ListAnswered / ListDelivered
			ok := gate.release(step)
			synctest.Wait()
			if ok {
				trail = append(trail, step+"->"+where())
			} else {
				trail = append(trail, step+"(nothing there: "+where()+")")
			}
		case "notify": // NotifiedDelivered
			n := gate.flushNotes()
			synctest.Wait()
			trail = append(trail, fmt.Sprintf("notify(%d)", n))
		case "wait":
			d := c12Pick(r, time.Second, time.Hour)
			if ttl > 0 {
				d = c12Pick(r, ttl, ttl+time.Millisecond, 3*ttl)
			}
			time.Sleep(d)
			trail = append(trail, "wait("+d.String()+")")
		case "change":
			ver++
			addTools()
			settle()
			trail = append(trail, fmt.Sprintf("change(r%d)", ver))
		case "shrink":
			if !shifted && len(fillers) > 0 {
				server.RemoveTools(fillers...)
				shifted = true
			}
			settle()
			trail = append(trail, "shrink")
		default:
			t.Fatalf("c12 mirror: unknown step %q", step)
		}
		mu.Lock()
		perr := passErr
		mu.Unlock()
		if perr != nil {
			t.Fatalf("c12 mirror: tools/list (history %s, after %v): %v", h.key(), trail, perr)
		}
	}
	mu.Lock()
	trail = append(trail, fmt.Sprintf("listing=%s background-listings=%d held=%d", where(), passes, gate.pending()))
	mu.Unlock()
	mu.Lock()
	trail = append(trail, fmt.Sprintf("notified=%d", notified))
	mu.Unlock()

	// ---- the calls
	for _, j := range jobs {
		base := len(rt.sentSnapshot())
		cctx, ccancel := context.WithTimeout(ctx, 20*time.Second)
		res, err := cs.CallTool(cctx, &mcp.CallToolParams{Name: j.tool, Arguments: j.args})
		ccancel()
		var out c12MirOut
		header := c12HdrName(j.header, ver) // what the server enforces now
		conc := map[string]string{"header": "Mcp-Param-" + header, "path": strings.Join(j.path, "/"), "history": strings.Join(trail, " "),
			"ttl": ttl.String(), "pagesize": strconv.Itoa(pageSize)}
		ab, _ := json.Marshal(j.args)
		conc["args"] = string(ab)
		if err != nil {
			conc["err"] = err.Error()
			var je *jsonrpc.Error
			if errors.As(err, &je) {
				out.Code = int(je.Code)
			}
			if errors.Is(err, context.DeadlineExceeded) {
				t.Fatalf("c12 mirror: CallTool timed out for %+v", j.c)
			}
		}
		mu.Lock()
		g, handlerRan := ran[j.tool]
		mu.Unlock()
		out.Handler = handlerRan
		out.Accepted = handlerRan && err == nil && res != nil && !res.IsError
		if handlerRan {
			var gotArgs any
			d := json.NewDecoder(bytes.NewReader(g.args))
			d.UseNumber()
			d.Decode(&gotArgs)
			gv, gok := c12Lookup(gotArgs, j.path)
			sv, sok := c12Lookup(c12Canon(j.args), j.path)
			out.Same = gok == sok && reflect.DeepEqual(gv, sv)
		}
		out.Own, out.SibOK = true, true
		sibPath := func(sb c12Sib) []string { return append(append([]string{}, j.path[:len(j.path)-1]...), sb.name) }
		if handlerRan {
			var gotArgs any
			d := json.NewDecoder(bytes.NewReader(g.args))
			d.UseNumber()
			d.Decode(&gotArgs)
			for _, sb := range j.sibs {
				gv, gok := c12Lookup(gotArgs, sibPath(sb))
				sv, _ := c12Lookup(c12Canon(j.args), sibPath(sb))
				if !gok || !reflect.DeepEqual(gv, sv) {
					out.SibOK = false
					conc["sibling-altered"] = sb.name
				}
			}
		}
		// header names of the tool's revisions: the current one and the earlier ones
		names := map[string]int{}
		for v := 0; v <= ver; v++ {
			names[http.CanonicalHeaderKey("Mcp-Param-"+c12HdrName(j.header, v))] = v
			for _, sb := range j.sibs {
				names[http.CanonicalHeaderKey("Mcp-Param-"+c12HdrName(sb.header, v))] = v
			}
		}
		out.Via = "none"
		for _, s := range rt.sentSnapshot()[base:] {
			if s.Header.Get("Mcp-Method") != "tools/call" || s.Header.Get("Mcp-Name") != j.tool {
				continue
			}
			out.Sent = true
			for k := range s.Header {
				if !strings.HasPrefix(k, "Mcp-Param-") {
					continue
				}
				via := "unknown"
				if v, ok := names[k]; ok && v == ver {
					via = "current"
				} else if ok {
					via = "stale"
				}
				if out.Via != "none" && out.Via != via {
					via = "mixed"
				}
				out.Via = via
			}
			vals, present := s.Header[http.CanonicalHeaderKey("Mcp-Param-"+header)]
			switch {
			case !present:
				out.Hdr = "none"
			case len(vals) == 1 && vals[0] == "":
				out.Hdr = "empty"
			case len(vals) == 1 && strings.HasPrefix(vals[0], "=?base64?") && strings.HasSuffix(vals[0], "?="):
				out.Hdr = "b64"
			default:
				out.Hdr = "raw"
			}
			if present {
				conc["sent"] = strings.Join(vals, " | ")
				if want, prim := c12HeaderText(j.val); prim && !j.absent {
					if got, ok := c12Decode(vals[0]); len(vals) != 1 || !ok || got != want {
						out.Own = false
					}
				} else if strings.Join(vals, "") != "" {
					out.Own = false // a value for a parameter that has none
				}
			}
			for _, sb := range j.sibs {
				want, _ := c12HeaderText(sb.val)
				sname := "Mcp-Param-" + c12HdrName(sb.header, ver)
				sv := s.Header[http.CanonicalHeaderKey(sname)]
				if got, ok := c12Decode(strings.Join(sv, " | ")); len(sv) != 1 || !ok || got != want {
					out.SibOK = false
					conc["sibling-header"] = fmt.Sprintf("%s=%q for %s=%q", sname, strings.Join(sv, " | "), sb.name, want)
				}
			}
		}
		if out.Hdr == "" {
			out.Hdr = "none"
		}
		enc.Encode(c12MirLine{Case: j.c, Out: out, Rep: j.rep, Conc: conc})
	}
}

func TestVerif_C12Mirror(t *testing.T) {
	seed, reps, in, enc, done := c12IO(t)
	defer done()
	r := rand.New(rand.NewPCG(seed, 1212))
	// jobs grouped by history (order of first appearance): a chunk shares one client, one server and one history
	byHist := map[string][]*c12MirJob{}
	var order []string
	idx := 0
	for in.Scan() {
		var c c12MirCase
		if err := json.Unmarshal(in.Bytes(), &c); err != nil {
			t.Fatalf("bad case: %v", err)
		}
		if c.Hist.Steps == nil {
			c.Hist.Steps = []string{}
		}
		k := c.Hist.key()
		if _, ok := byHist[k]; !ok {
			order = append(order, k)
		}
		for rep := 0; rep < reps; rep++ {
			byHist[k] = append(byHist[k], c12MirJobFor(r, c, rep, idx))
		}
		idx++
	}
	// every chunk is a subtest with a synctest bubble and a random source of its own; chunks run side by side
	// (go test -parallel) and their lines are written in chunk order afterwards
	const chunk = 48
	type piece struct {
		h    c12Hist
		jobs []*c12MirJob
		out  c12Lines
	}
	var pieces []*piece
	for _, k := range order {
		jobs := byHist[k]
		for i := 0; i < len(jobs); i += chunk {
			pieces = append(pieces, &piece{h: jobs[0].c.Hist, jobs: jobs[i:min(i+chunk, len(jobs))]})
		}
	}
	t.Run("chunks", func(t *testing.T) {
		for i, pc := range pieces {
			cr := rand.New(rand.NewPCG(seed, 121200+uint64(i)))
			t.Run(strconv.Itoa(i), func(t *testing.T) {
				t.Parallel()
				c12MirChunk(t, cr, pc.h, pc.jobs, &pc.out)
			})
		}
	})
	for _, pc := range pieces {
		for _, line := range pc.out.lines {
			enc.Encode(line)
		}
	}
}
