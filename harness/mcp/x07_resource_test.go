//go:build verif

// Conformance harness for extension check X07 (ResourceAccess).
//
// Inputs are the files TLC exported from spec/ResourceAccessTab.tla (decision tables) and the
// histories produced from the state graph of spec/ResourceAccessMC.tla (VERIF_IN = directory):
//
//	x07_templates.ndjson x07_exacts.ndjson x07_lk_cfgs.ndjson x07_lk_uris.ndjson   lookup table
//	x07_hr_cases.ndjson                                                         handler results
//	x07_reg_cases.ndjson                                                        registration
//	x07_fs_nodes.ndjson x07_fs_roots.ndjson x07_fs_cases.ndjson                 file handler
//	histories.ndjson                                                            add / remove / read histories
//
// Everything runs on the REAL Server and Client over the in-memory transport; the file table runs
// the REAL fileResourceHandler (unexported: this is the only reason for `package mcp`) against a
// directory tree built inside t.TempDir() from the specification's file-system model, with a real
// ServerSession whose client declares the roots of the case. One observation line per case / event
// goes to VERIF_OUT/obs_<part>.ndjson; the TLA+ monitor ResourceAccessMon judges them.
package mcp

import (
	"bufio"
	"bytes"
	"context"
	"encoding/json"
	"errors"
	"fmt"
	"io"
	"log/slog"
	"math/rand/v2"
	"os"
	"path/filepath"
	"sort"
	"strconv"
	"strings"
	"sync"
	"testing"
	"time"

	"github.com/modelcontextprotocol/go-sdk/jsonrpc"
)

const (
	x07Deadline = 20 * time.Second
	x07Legacy   = "2025-11-25"
	x07MetaKey  = "verif/r"
)

var x07Logger = slog.New(slog.NewTextHandler(io.Discard, nil))

func x07Seed() uint64 {
	s, _ := strconv.ParseUint(os.Getenv("VERIF_SEED"), 10, 64)
	return s
}

func x07ReadLines(t *testing.T, name string, fn func([]byte)) {
	dir := os.Getenv("VERIF_IN")
	f, err := os.Open(filepath.Join(dir, name))
	if err != nil {
		if os.IsNotExist(err) {
			return
		}
		t.Fatal(err)
	}
	defer f.Close()
	sc := bufio.NewScanner(f)
	sc.Buffer(make([]byte, 1<<20), 1<<26)
	for sc.Scan() {
		if len(bytes.TrimSpace(sc.Bytes())) == 0 {
			continue
		}
		fn(append([]byte(nil), sc.Bytes()...))
	}
}

type x07Out struct {
	mu sync.Mutex
	f  *os.File
	w  *bufio.Writer
}

func x07Open(t *testing.T, part string) *x07Out {
	dir := os.Getenv("VERIF_OUT")
	if dir == "" || os.Getenv("VERIF_IN") == "" {
		t.Skip("VERIF_IN / VERIF_OUT not set")
	}
	if parts := os.Getenv("VERIF_PARTS"); parts != "" && !strings.Contains(","+parts+",", ","+part+",") {
		t.Skip("part not selected")
	}
	f, err := os.Create(filepath.Join(dir, "obs_"+part+".ndjson"))
	if err != nil {
		t.Fatal(err)
	}
	return &x07Out{f: f, w: bufio.NewWriterSize(f, 1<<20)}
}

func (o *x07Out) emit(v any) {
	b, err := json.Marshal(v)
	if err != nil {
		panic(err)
	}
	o.mu.Lock()
	o.w.Write(b)
	o.w.WriteByte('\n')
	o.mu.Unlock()
}

func (o *x07Out) close() {
	o.mu.Lock()
	o.w.Flush()
	o.f.Close()
	o.mu.Unlock()
}

// x07Pair connects a real client to the server over in-memory transports.
func x07Pair(s *Server, c *Client, era string) (*ClientSession, *ServerSession, error) {
	ctx, cancel := context.WithTimeout(context.Background(), x07Deadline)
	defer cancel()
	ct, st := NewInMemoryTransports()
	ss, err := s.Connect(ctx, st, nil)
	if err != nil {
		return nil, nil, err
	}
	var opts *ClientSessionOptions
	if era == "legacy" {
		opts = &ClientSessionOptions{ProtocolVersion: x07Legacy}
	}
	cs, err := c.Connect(ctx, ct, opts)
	if err != nil {
		return nil, nil, err
	}
	return cs, ss, nil
}

func x07Close(cs *ClientSession, ss *ServerSession) {
	done := make(chan struct{})
	go func() {
		defer close(done)
		cs.Close()
		ss.Wait()
	}()
	select {
	case <-done:
	case <-time.After(x07Deadline):
	}
}

func x07NewServer() *Server {
	return NewServer(&Implementation{Name: "x07-server", Version: "1"}, &ServerOptions{Logger: x07Logger})
}

func x07NewClient() *Client {
	return NewClient(&Implementation{Name: "x07-client", Version: "1"}, &ClientOptions{Logger: x07Logger})
}

// x07Classify maps the error of a read to (res, code): "ok" | "notfound" (exactly the wire form of
// ResourceNotFoundError(uri)) | "hang" | "other".
func x07Classify(err error, uri string) (string, int64) {
	if err == nil {
		return "ok", 0
	}
	if errors.Is(err, context.DeadlineExceeded) {
		return "hang", 0
	}
	var we *jsonrpc.Error
	if errors.As(err, &we) {
		want := ResourceNotFoundError(uri).(*jsonrpc.Error)
		if we.Code == want.Code && we.Message == want.Message && x07SameJSON(we.Data, want.Data) {
			return "notfound", we.Code
		}
		return "other", we.Code
	}
	return "other", -1
}

func x07SameJSON(a, b json.RawMessage) bool {
	var x, y any
	if json.Unmarshal(a, &x) != nil || json.Unmarshal(b, &y) != nil {
		return false
	}
	xb, _ := json.Marshal(x)
	yb, _ := json.Marshal(y)
	return bytes.Equal(xb, yb)
}

// ---------------------------------------------------------------------------
// lookup table

type x07Named struct {
	Name string   `json:"name"`
	Text string   `json:"text"`
	U    []string `json:"u"`
}

type x07LkLine struct {
	Ev   string   `json:"ev"`
	E    []string `json:"E"`
	T    []string `json:"T"`
	U    []string `json:"u"`
	Era  string   `json:"era"`
	Ran  []string `json:"ran"`
	Res  string   `json:"res"`
	By   string   `json:"by"`
	Code int64    `json:"code"`
	URI  string   `json:"uri"`
}

func x07Universe(t *testing.T) (templates, exacts []x07Named) {
	x07ReadLines(t, "x07_templates.ndjson", func(b []byte) {
		var n x07Named
		if err := json.Unmarshal(b, &n); err != nil {
			t.Fatal(err)
		}
		templates = append(templates, n)
	})
	x07ReadLines(t, "x07_exacts.ndjson", func(b []byte) {
		var n x07Named
		if err := json.Unmarshal(b, &n); err != nil {
			t.Fatal(err)
		}
		n.Text = strings.Join(n.U, "")
		exacts = append(exacts, n)
	})
	// the specification lists the templates in the iteration order of the feature set
	texts := []string{}
	for _, n := range templates {
		texts = append(texts, n.Text)
	}
	if !sort.StringsAreSorted(texts) {
		t.Fatalf("x07: TemplateSeq is not in bytewise order of the template texts: %q", texts)
	}
	return
}

func x07Find(ns []x07Named, name string) x07Named {
	for _, n := range ns {
		if n.Name == name {
			return n
		}
	}
	panic("x07: unknown name " + name)
}

func TestVerif_X07Lookup(t *testing.T) {
	o := x07Open(t, "lk")
	defer o.close()
	t.Parallel()
	templates, exacts := x07Universe(t)
	type cfg struct{ E, T []string }
	var cfgs []cfg
	x07ReadLines(t, "x07_lk_cfgs.ndjson", func(b []byte) {
		var c cfg
		if err := json.Unmarshal(b, &c); err != nil {
			t.Fatal(err)
		}
		cfgs = append(cfgs, c)
	})
	var uris [][]string
	x07ReadLines(t, "x07_lk_uris.ndjson", func(b []byte) {
		var u struct{ U []string }
		if err := json.Unmarshal(b, &u); err != nil {
			t.Fatal(err)
		}
		uris = append(uris, u.U)
	})
	seed := x07Seed()
	for ci, c := range cfgs {
		r := rand.New(rand.NewPCG(seed, uint64(7000+ci)))
		era := []string{"legacy", "modern"}[r.IntN(2)]
		var mu sync.Mutex
		var ran []string
		handler := func(tag string) ResourceHandler {
			return func(_ context.Context, req *ReadResourceRequest) (*ReadResourceResult, error) {
				mu.Lock()
				ran = append(ran, tag)
				mu.Unlock()
				return &ReadResourceResult{Contents: []*ResourceContents{{URI: req.Params.URI, Text: tag}}}, nil
			}
		}
		s := x07NewServer()
		// registration order is seeded: the outcome must not depend on it
		var regs []func()
		for _, e := range c.E {
			n := x07Find(exacts, e)
			regs = append(regs, func() { s.AddResource(&Resource{URI: n.Text, Name: n.Name}, handler(n.Name)) })
		}
		for _, tn := range c.T {
			n := x07Find(templates, tn)
			regs = append(regs, func() { s.AddResourceTemplate(&ResourceTemplate{URITemplate: n.Text, Name: n.Name}, handler(n.Name)) })
		}
		r.Shuffle(len(regs), func(i, j int) { regs[i], regs[j] = regs[j], regs[i] })
		pre := r.IntN(len(regs) + 1) // some before the session starts, the rest afterwards
		for _, f := range regs[:pre] {
			f()
		}
		cs, ss, err := x07Pair(s, x07NewClient(), era)
		if err != nil {
			t.Fatalf("x07: connect: %v", err)
		}
		for _, f := range regs[pre:] {
			f()
		}
		for _, u := range uris {
			uri := strings.Join(u, "")
			mu.Lock()
			ran = nil
			mu.Unlock()
			ctx, cancel := context.WithTimeout(context.Background(), x07Deadline)
			res, err := cs.ReadResource(ctx, &ReadResourceParams{URI: uri})
			cancel()
			l := x07LkLine{Ev: "lk", E: c.E, T: c.T, U: u, Era: era, URI: uri}
			if l.E == nil {
				l.E = []string{}
			}
			if l.T == nil {
				l.T = []string{}
			}
			if l.U == nil {
				l.U = []string{}
			}
			l.Res, l.Code = x07Classify(err, uri)
			if err == nil && res != nil && len(res.Contents) == 1 {
				l.By = res.Contents[0].Text
			}
			mu.Lock()
			l.Ran = append([]string{}, ran...)
			mu.Unlock()
			o.emit(l)
			if l.Res == "hang" {
				t.Fatalf("x07: read of %q hangs", uri)
			}
		}
		x07Close(cs, ss)
	}
}

// ---------------------------------------------------------------------------
// handler results

type x07Content struct {
	URI  string `json:"uri"`
	Mime string `json:"mime"`
	Tag  string `json:"tag"`
}

type x07Beh struct {
	Name string       `json:"name"`
	Kind string       `json:"kind"`
	Cs   []x07Content `json:"cs"`
	Code int64        `json:"code"`
}

type x07HrCase struct {
	Via  string `json:"via"`
	Beh  x07Beh `json:"beh"`
	Mime string `json:"mime"`
}

type x07HrOut struct {
	Res  string       `json:"res"`
	Code int64        `json:"code"`
	Cs   []x07Content `json:"cs"`
}

func TestVerif_X07Results(t *testing.T) {
	o := x07Open(t, "hr")
	defer o.close()
	t.Parallel()
	const (
		reqURI   = "res://h/a"
		otherURI = "res://h/other"
		regMime  = "text/x-reg"
		ownMime  = "text/x-own"
	)
	for _, era := range []string{"legacy", "modern"} {
		x07ReadLines(t, "x07_hr_cases.ndjson", func(b []byte) {
			var c x07HrCase
			if err := json.Unmarshal(b, &c); err != nil {
				t.Fatal(err)
			}
			h := func(_ context.Context, req *ReadResourceRequest) (*ReadResourceResult, error) {
				switch c.Beh.Kind {
				case "nil":
					return nil, nil
				case "nilcontents":
					return &ReadResourceResult{}, nil
				case "error":
					switch c.Beh.Code {
					case 0:
						return nil, errors.New("x07: plain failure")
					case -1:
						return nil, ResourceNotFoundError(req.Params.URI)
					default:
						return nil, &jsonrpc.Error{Code: c.Beh.Code, Message: "x07 failure"}
					}
				}
				res := &ReadResourceResult{Contents: []*ResourceContents{}}
				for _, x := range c.Beh.Cs {
					rc := &ResourceContents{Text: x.Tag}
					switch x.URI {
					case "req":
						rc.URI = req.Params.URI
					case "other":
						rc.URI = otherURI
					}
					if x.Mime == "own" {
						rc.MIMEType = ownMime
					}
					res.Contents = append(res.Contents, rc)
				}
				return res, nil
			}
			mime := ""
			if c.Mime == "reg" {
				mime = regMime
			}
			s := x07NewServer()
			if c.Via == "exact" {
				s.AddResource(&Resource{URI: reqURI, Name: "r", MIMEType: mime}, h)
			} else {
				s.AddResourceTemplate(&ResourceTemplate{URITemplate: "res://h/{a}", Name: "t", MIMEType: mime}, h)
			}
			cs, ss, err := x07Pair(s, x07NewClient(), era)
			if err != nil {
				t.Fatalf("x07: connect: %v", err)
			}
			ctx, cancel := context.WithTimeout(context.Background(), x07Deadline)
			res, err := cs.ReadResource(ctx, &ReadResourceParams{URI: reqURI})
			cancel()
			out := x07HrOut{Cs: []x07Content{}}
			cls, code := x07Classify(err, reqURI)
			switch cls {
			case "ok":
				out.Res = "ok"
				for _, rc := range res.Contents {
					x := x07Content{Tag: rc.Text}
					switch rc.URI {
					case reqURI:
						x.URI = "req"
					case otherURI:
						x.URI = "other"
					case "":
						x.URI = ""
					default:
						x.URI = "?" + rc.URI
					}
					switch rc.MIMEType {
					case regMime:
						x.Mime = "reg"
					case ownMime:
						x.Mime = "own"
					case "":
						x.Mime = ""
					default:
						x.Mime = "?" + rc.MIMEType
					}
					out.Cs = append(out.Cs, x)
				}
			case "notfound":
				out.Res, out.Code = "err", -1
			default:
				out.Res, out.Code = "err", code
			}
			if c.Beh.Cs == nil {
				c.Beh.Cs = []x07Content{}
			}
			o.emit(map[string]any{"ev": "hr", "era": era, "via": c.Via, "beh": c.Beh, "mime": c.Mime, "o": out})
			x07Close(cs, ss)
		})
	}
}

// ---------------------------------------------------------------------------
// registration

type x07RegCase struct {
	Kind   string `json:"kind"`
	Name   string `json:"name"`
	Text   string `json:"text"`
	Valid  bool   `json:"valid"`
	Scheme bool   `json:"scheme"`
}

func TestVerif_X07Reg(t *testing.T) {
	o := x07Open(t, "reg")
	defer o.close()
	t.Parallel()
	x07ReadLines(t, "x07_reg_cases.ndjson", func(b []byte) {
		var c x07RegCase
		if err := json.Unmarshal(b, &c); err != nil {
			t.Fatal(err)
		}
		s := x07NewServer()
		// something else is registered, so that the capability exists whatever happens
		s.AddResource(&Resource{URI: "res://h/always", Name: "always"}, func(context.Context, *ReadResourceRequest) (*ReadResourceResult, error) {
			return &ReadResourceResult{Contents: []*ResourceContents{}}, nil
		})
		h := func(_ context.Context, req *ReadResourceRequest) (*ReadResourceResult, error) {
			return &ReadResourceResult{Contents: []*ResourceContents{{URI: req.Params.URI, Text: "x"}}}, nil
		}
		panicked := func() (p bool) {
			defer func() {
				if recover() != nil {
					p = true
				}
			}()
			if c.Kind == "resource" {
				s.AddResource(&Resource{URI: c.Text, Name: "x"}, h)
			} else {
				s.AddResourceTemplate(&ResourceTemplate{URITemplate: c.Text, Name: "x"}, h)
			}
			return false
		}()
		cs, ss, err := x07Pair(s, x07NewClient(), "legacy")
		if err != nil {
			t.Fatalf("x07: connect: %v", err)
		}
		listed := false
		ctx, cancel := context.WithTimeout(context.Background(), x07Deadline)
		if c.Kind == "resource" {
			for r, err := range cs.Resources(ctx, nil) {
				if err != nil {
					t.Fatalf("x07: list: %v", err)
				}
				if r.Name == "x" && r.URI == c.Text {
					listed = true
				}
			}
		} else {
			for r, err := range cs.ResourceTemplates(ctx, nil) {
				if err != nil {
					t.Fatalf("x07: list: %v", err)
				}
				if r.Name == "x" && r.URITemplate == c.Text {
					listed = true
				}
			}
		}
		cancel()
		o.emit(map[string]any{"ev": "reg", "c": c, "o": map[string]any{"panicked": panicked, "listed": listed}})
		x07Close(cs, ss)
	})
}

// ---------------------------------------------------------------------------
// file handler

type x07Node struct {
	Pos []string `json:"pos"`
	K   string   `json:"k"`
	Tag string   `json:"tag"`
	Abs bool     `json:"abs"`
	To  []string `json:"to"`
}

type x07FsCase struct {
	Era   string   `json:"era"`
	Roots string   `json:"roots"`
	Form  string   `json:"form"`
	Segs  []string `json:"segs"`
	Raw   string   `json:"raw,omitempty"` // replay: the concrete URI
}

type x07FsLine struct {
	Ev    string         `json:"ev"`
	Mode  string         `json:"mode"`
	Era   string         `json:"era"`
	Roots string         `json:"roots"`
	Form  string         `json:"form"`
	Segs  []string       `json:"segs"`
	Raw   string         `json:"raw"`
	O     map[string]any `json:"o"`
	Truth map[string]any `json:"truth"`
}

// x07PosPath maps a position of the specification (<<"base", ...>>) to a path below tmp.
func x07PosPath(tmp string, pos []string) string {
	if len(pos) == 0 || pos[0] != "base" {
		panic(fmt.Sprintf("x07: position outside base: %q", pos))
	}
	return filepath.Join(append([]string{tmp}, pos[1:]...)...)
}

func x07BuildTree(t *testing.T, tmp string) {
	var nodes []x07Node
	x07ReadLines(t, "x07_fs_nodes.ndjson", func(b []byte) {
		var n x07Node
		if err := json.Unmarshal(b, &n); err != nil {
			t.Fatal(err)
		}
		nodes = append(nodes, n)
	})
	sort.Slice(nodes, func(i, j int) bool { return len(nodes[i].Pos) < len(nodes[j].Pos) })
	for _, n := range nodes {
		p := x07PosPath(tmp, n.Pos)
		var err error
		switch n.K {
		case "dir":
			err = os.MkdirAll(p, 0o755)
		case "file":
			err = os.WriteFile(p, []byte(n.Tag), 0o644)
		case "link":
			if n.Abs {
				err = os.Symlink(x07PosPath(tmp, n.To), p)
			} else {
				err = os.Symlink(strings.Join(n.To, "/"), p)
			}
		}
		if err != nil {
			t.Fatalf("x07: building the tree: %v", err)
		}
	}
}

func x07PctAll(s string) string {
	var sb strings.Builder
	for i := 0; i < len(s); i++ {
		fmt.Fprintf(&sb, "%%%02X", s[i])
	}
	return sb.String()
}

// x07Render concretises the decoded segments into the path part of a URI; the variant is seeded:
// plain, percent-encoded separators, percent-encoded dots, a percent-encoded character per segment.
func x07Render(r *rand.Rand, segs []string) string {
	sep := "/"
	variant := r.IntN(6)
	if variant == 1 {
		sep = []string{"%2F", "%2f"}[r.IntN(2)]
	}
	out := make([]string, len(segs))
	for i, s := range segs {
		switch {
		case s == "nul%00":
			out[i] = s
		case variant == 2 && (s == "." || s == ".."):
			out[i] = strings.ReplaceAll(s, ".", []string{"%2e", "%2E"}[r.IntN(2)])
		case variant == 3 && s == "..":
			out[i] = []string{".%2e", "%2e."}[r.IntN(2)]
		case variant == 4 && s != "":
			k := r.IntN(len(s))
			out[i] = s[:k] + x07PctAll(s[k:k+1]) + s[k+1:]
		case variant == 5:
			out[i] = x07PctAll(s)
		default:
			out[i] = s
		}
	}
	return strings.Join(out, sep)
}

func x07Wrap(form, p string) string {
	switch form {
	case "file3":
		return "file:///" + p
	case "file1":
		return "file:/" + p
	case "opaque":
		return "file:" + p
	case "host":
		return "file://host/" + p
	case "upper":
		return "FILE:///" + p
	case "http":
		return "http:///" + p
	case "noscheme":
		return "/" + p
	case "rel":
		return p
	case "query":
		return "file:///" + p + "?x=1"
	case "frag":
		return "file:///" + p + "#f"
	}
	panic("x07: unknown form " + form)
}

func TestVerif_X07File(t *testing.T) {
	o := x07Open(t, "fs")
	defer o.close()
	t.Parallel()
	tmp := t.TempDir()
	if rp, err := filepath.EvalSymlinks(tmp); err == nil {
		tmp = rp
	}
	x07BuildTree(t, tmp)
	dir := filepath.Join(tmp, "dir")
	rootURIs := map[string][]string{}
	x07ReadLines(t, "x07_fs_roots.ndjson", func(b []byte) {
		var rc struct {
			Rc  string     `json:"rc"`
			Pos [][]string `json:"pos"`
		}
		if err := json.Unmarshal(b, &rc); err != nil {
			t.Fatal(err)
		}
		var us []string
		for _, p := range rc.Pos {
			us = append(us, "file://"+x07PosPath(tmp, p))
		}
		switch rc.Rc {
		case "dotdot":
			us = []string{"file://" + filepath.Join(tmp, "dir", "sub") + "/../pub"}
		case "http":
			us = []string{"http://example.com/root"}
		}
		rootURIs[rc.Rc] = us
	})
	groups := map[string][]x07FsCase{}
	var order []string
	x07ReadLines(t, "x07_fs_cases.ndjson", func(b []byte) {
		var c x07FsCase
		if err := json.Unmarshal(b, &c); err != nil {
			t.Fatal(err)
		}
		k := c.Era + "|" + c.Roots
		if _, ok := groups[k]; !ok {
			order = append(order, k)
		}
		groups[k] = append(groups[k], c)
	})
	sort.Strings(order)
	e2eEvery, _ := strconv.Atoi(os.Getenv("VERIF_FS_E2E"))
	seed := x07Seed()
	h := fileResourceHandler(dir)
	for gi, k := range order {
		cases := groups[k]
		era, roots := cases[0].Era, cases[0].Roots
		us, ok := rootURIs[roots]
		if !ok {
			t.Fatalf("x07: unknown roots class %q", roots)
		}
		s := x07NewServer()
		for _, tmpl := range []string{"file:{+p}", "FILE:{+p}", "http:{+p}"} {
			s.AddResourceTemplate(&ResourceTemplate{URITemplate: tmpl, Name: tmpl}, h)
		}
		c := x07NewClient()
		for _, u := range us {
			c.AddRoots(&Root{URI: u, Name: "root"})
		}
		cs, ss, err := x07Pair(s, c, era)
		if err != nil {
			t.Fatalf("x07: connect: %v", err)
		}
		r := rand.New(rand.NewPCG(seed, uint64(7700+gi)))
		for i, fc := range cases {
			raw := fc.Raw
			conc := make([]string, len(fc.Segs)) // "ABS" stands for the absolute path of base
			for j, sg := range fc.Segs {
				conc[j] = sg
				if sg == "ABS" {
					conc[j] = strings.TrimPrefix(tmp, "/")
				}
			}
			if raw == "" {
				raw = x07Wrap(fc.Form, x07Render(r, conc))
			}
			// ground truth by the operating system: what dir + "/" + path denotes
			osPath := dir + "/" + strings.ReplaceAll(strings.Join(conc, "/"), "nul%00", "nul\x00")
			truth := map[string]any{"k": "other", "tag": ""}
			if data, err := os.ReadFile(osPath); err == nil {
				truth = map[string]any{"k": "file", "tag": string(data)}
			}
			modes := []string{"direct"}
			if e2eEvery > 0 && (i+int(seed))%e2eEvery == 0 && fc.Form != "noscheme" && fc.Form != "rel" {
				modes = append(modes, "e2e")
			}
			for _, mode := range modes {
				ctx, cancel := context.WithTimeout(context.Background(), x07Deadline)
				var res *ReadResourceResult
				var err error
				if mode == "direct" {
					res, err = h(ctx, &ReadResourceRequest{Session: ss, Params: &ReadResourceParams{URI: raw}})
				} else {
					res, err = cs.ReadResource(ctx, &ReadResourceParams{URI: raw})
				}
				cancel()
				out := map[string]any{"res": "err", "data": ""}
				cls, _ := x07Classify(err, raw)
				var we *jsonrpc.Error
				if cls == "other" && errors.As(err, &we) && we.Code == CodeResourceNotFound && strings.HasSuffix(we.Message, "Resource not found") {
					cls = "notfound" // through the server the handler's wrapped error arrives as "reading resource <uri>: Resource not found"
				}
				switch {
				case cls == "ok" && res != nil && len(res.Contents) == 1:
					d := string(res.Contents[0].Blob) + res.Contents[0].Text
					out = map[string]any{"res": "data", "data": d}
					if d == "" {
						out["res"] = "emptydata"
					}
				case cls == "ok":
					out["res"] = "oddresult"
				case cls == "notfound":
					out["res"] = "notfound"
				case cls == "hang":
					t.Fatalf("x07: file read of %q hangs", raw)
				}
				segs := fc.Segs
				if segs == nil {
					segs = []string{}
				}
				o.emit(x07FsLine{Ev: "fs", Mode: mode, Era: era, Roots: roots, Form: fc.Form, Segs: segs, Raw: raw, O: out, Truth: truth})
			}
		}
		x07Close(cs, ss)
	}
}

// ---------------------------------------------------------------------------
// histories: add / remove / read, reads concurrent with changes

type x07Tag struct {
	K   string `json:"k"`
	Key string `json:"key"`
	G   int    `json:"g"`
}

var x07NotFound = x07Tag{K: "N"}

func (tg x07Tag) String() string { return fmt.Sprintf("%s|%s|%d", tg.K, tg.Key, tg.G) }

func x07ParseTag(s string) (x07Tag, bool) {
	p := strings.Split(s, "|")
	if len(p) != 3 {
		return x07Tag{}, false
	}
	g, err := strconv.Atoi(p[2])
	if err != nil {
		return x07Tag{}, false
	}
	return x07Tag{K: p[0], Key: p[1], G: g}, true
}

type x07HistLine struct {
	Ev    string   `json:"ev"`
	Trace string   `json:"trace"`
	Mode  string   `json:"mode"`
	Era   string   `json:"era"`
	Op    string   `json:"op"`
	Key   string   `json:"key"`
	G     int      `json:"g"`
	R     string   `json:"r"`
	U     []string `json:"u"`
	To    string   `json:"to"`
	Out   x07Tag   `json:"out"`
	Res   string   `json:"res"`
	Inv   []x07Tag `json:"inv"`
	Note  string   `json:"note"`
}

type x07Gate struct {
	arrMW, relMW chan struct{}
	arrH         chan x07Tag
	relH         chan struct{}
	done         chan x07ReadDone
}

type x07ReadDone struct {
	out x07Tag
	res string
}

type x07HistEnv struct {
	o          *x07Out
	trace      string
	mode, era  string
	s          *Server
	cs         *ClientSession
	ss         *ServerSession
	templates  []x07Named
	exacts     []x07Named
	mu         sync.Mutex // serialises the log and the bookkeeping
	gen        int
	inv        map[string][]x07Tag
	gates      map[string]*x07Gate
	uOf        map[string][]string
	state      map[string]string // reader -> "sent" | "handler"
	openBegun  map[string]bool
	failedNote string
}

func (e *x07HistEnv) line(ev string) x07HistLine {
	return x07HistLine{Ev: ev, Trace: e.trace, Mode: e.mode, Era: e.era, U: []string{}, Inv: []x07Tag{}, Out: x07NotFound}
}

func x07ReaderOf(req *ReadResourceRequest) string {
	if req == nil || req.Params == nil {
		return ""
	}
	r, _ := req.Params.Meta[x07MetaKey].(string)
	return r
}

func (e *x07HistEnv) gateOf(r string) *x07Gate {
	e.mu.Lock()
	defer e.mu.Unlock()
	return e.gates[r]
}

func (e *x07HistEnv) handler(tag x07Tag) ResourceHandler {
	return func(ctx context.Context, req *ReadResourceRequest) (*ReadResourceResult, error) {
		r := x07ReaderOf(req)
		e.mu.Lock()
		e.inv[r] = append(e.inv[r], tag)
		g := e.gates[r]
		e.mu.Unlock()
		if g != nil {
			select {
			case g.arrH <- tag:
			case <-ctx.Done():
				return nil, ctx.Err()
			}
			select {
			case <-g.relH:
			case <-ctx.Done():
				return nil, ctx.Err()
			}
		}
		return &ReadResourceResult{Contents: []*ResourceContents{{URI: req.Params.URI, Text: tag.String()}}}, nil
	}
}

func x07NewHistEnv(t *testing.T, o *x07Out, trace, mode, era string, templates, exacts []x07Named) *x07HistEnv {
	e := &x07HistEnv{o: o, trace: trace, mode: mode, era: era, templates: templates, exacts: exacts,
		inv: map[string][]x07Tag{}, gates: map[string]*x07Gate{}, uOf: map[string][]string{}, state: map[string]string{}, openBegun: map[string]bool{}}
	e.s = NewServer(&Implementation{Name: "x07-server", Version: "1"}, &ServerOptions{Logger: x07Logger,
		Capabilities: &ServerCapabilities{Resources: &ResourceCapabilities{ListChanged: true}}})
	e.s.AddReceivingMiddleware(func(next MethodHandler) MethodHandler {
		return func(ctx context.Context, method string, req Request) (Result, error) {
			if method == "resources/read" {
				if rr, ok := req.(*ReadResourceRequest); ok {
					if g := e.gateOf(x07ReaderOf(rr)); g != nil {
						select {
						case g.arrMW <- struct{}{}:
						case <-ctx.Done():
							return nil, ctx.Err()
						}
						select {
						case <-g.relMW:
						case <-ctx.Done():
							return nil, ctx.Err()
						}
					}
				}
			}
			return next(ctx, method, req)
		}
	})
	cs, ss, err := x07Pair(e.s, x07NewClient(), era)
	if err != nil {
		t.Fatalf("x07: connect: %v", err)
	}
	e.cs, e.ss = cs, ss
	l := e.line("reset")
	o.emit(l)
	return e
}

// mutate performs one registry change through the public API, bracketed by mut.begin / mut.end.
func (e *x07HistEnv) mutate(op, key string) {
	e.mu.Lock()
	l := e.line("mut.begin")
	l.Op, l.Key = op, key
	if op == "addres" || op == "addtmpl" {
		e.gen++
		l.G = e.gen
	}
	g := l.G
	e.o.emit(l)
	e.mu.Unlock()
	switch op {
	case "addres":
		n := x07Find(e.exacts, key)
		e.s.AddResource(&Resource{URI: n.Text, Name: key}, e.handler(x07Tag{K: "E", Key: key, G: g}))
	case "rmres":
		e.s.RemoveResources(x07Find(e.exacts, key).Text)
	case "addtmpl":
		n := x07Find(e.templates, key)
		e.s.AddResourceTemplate(&ResourceTemplate{URITemplate: n.Text, Name: key}, e.handler(x07Tag{K: "T", Key: key, G: g}))
	case "rmtmpl":
		e.s.RemoveResourceTemplates(x07Find(e.templates, key).Text)
	}
	e.mu.Lock()
	e.o.emit(e.line("mut.end"))
	e.mu.Unlock()
}

// read performs one complete read (no gates) and logs read.begin / read.end.
func (e *x07HistEnv) read(r string, u []string) x07ReadDone {
	e.mu.Lock()
	l := e.line("read.begin")
	l.R, l.U = r, u
	e.inv[r] = nil
	e.o.emit(l)
	e.mu.Unlock()
	d := e.call(r, u)
	e.end(r, u, d)
	return d
}

func (e *x07HistEnv) call(r string, u []string) x07ReadDone {
	uri := strings.Join(u, "")
	ctx, cancel := context.WithTimeout(context.Background(), 3*x07Deadline)
	defer cancel()
	res, err := e.cs.ReadResource(ctx, &ReadResourceParams{URI: uri, Meta: Meta{x07MetaKey: r}})
	cls, _ := x07Classify(err, uri)
	d := x07ReadDone{out: x07NotFound, res: cls}
	if cls == "ok" {
		d.res = "other"
		if res != nil && len(res.Contents) == 1 {
			if tg, ok := x07ParseTag(res.Contents[0].Text); ok && res.Contents[0].URI == uri {
				d.out, d.res = tg, "ok"
			}
		}
	}
	return d
}

func (e *x07HistEnv) end(r string, u []string, d x07ReadDone) {
	e.mu.Lock()
	l := e.line("read.end")
	l.R, l.U, l.Out, l.Res = r, u, d.out, d.res
	l.Inv = append(l.Inv, e.inv[r]...)
	e.o.emit(l)
	e.mu.Unlock()
}

func (e *x07HistEnv) close() { x07Close(e.cs, e.ss) }

type x07Op struct {
	Name string
	Args []json.RawMessage
}

func (o *x07Op) UnmarshalJSON(b []byte) error {
	var raw []json.RawMessage
	if err := json.Unmarshal(b, &raw); err != nil {
		return err
	}
	if err := json.Unmarshal(raw[0], &o.Name); err != nil {
		return err
	}
	if len(raw) > 1 {
		return json.Unmarshal(raw[1], &o.Args)
	}
	return nil
}

type x07History struct {
	ID  string  `json:"id"`
	Era string  `json:"era"`
	Ops []x07Op `json:"ops"`
}

func x07Str(m json.RawMessage) string {
	var s string
	json.Unmarshal(m, &s)
	return s
}

const (
	x07EvTimeout = iota
	x07EvMW
	x07EvH
	x07EvDone
)

// x07RunGated replays one history step by step; the harness owns the interleaving: a read is held in a
// receiving middleware of the server before the lookup and in its handler after it.
func x07RunGated(t *testing.T, o *x07Out, h *x07History, templates, exacts []x07Named) {
	e := x07NewHistEnv(t, o, h.ID, "gated", h.Era, templates, exacts)
	defer e.close()
	wait := func(g *x07Gate, mw, hd bool) (int, x07Tag, x07ReadDone) {
		var amw chan struct{}
		var ah chan x07Tag
		if mw {
			amw = g.arrMW
		}
		if hd {
			ah = g.arrH
		}
		select {
		case <-amw:
			return x07EvMW, x07Tag{}, x07ReadDone{}
		case tg := <-ah:
			return x07EvH, tg, x07ReadDone{}
		case d := <-g.done:
			return x07EvDone, x07Tag{}, d
		case <-time.After(x07Deadline):
			return x07EvTimeout, x07Tag{}, x07ReadDone{}
		}
	}
	finish := func(r string, d x07ReadDone) {
		e.end(r, e.uOf[r], d)
		e.mu.Lock()
		delete(e.gates, r)
		e.mu.Unlock()
		delete(e.state, r)
	}
	hang := func(r, where string) {
		l := e.line("read.end")
		l.R, l.U, l.Res, l.Note = r, e.uOf[r], "hang", where
		o.emit(l)
		e.mu.Lock()
		delete(e.gates, r)
		e.mu.Unlock()
		delete(e.state, r)
	}
	lookup := func(r string) {
		g := e.gateOf(r)
		g.relMW <- struct{}{}
		ev, tg, d := wait(g, false, true)
		l := e.line("lkd")
		l.R, l.U = r, e.uOf[r]
		switch ev {
		case x07EvH:
			l.To, l.Out = "handler", tg
			o.emit(l)
			e.state[r] = "handler"
		case x07EvDone:
			l.To, l.Out, l.Res = "done", d.out, d.res
			o.emit(l)
			finish(r, d)
		default:
			hang(r, "lookup")
		}
	}
	ret := func(r string) {
		g := e.gateOf(r)
		g.relH <- struct{}{}
		ev, _, d := wait(g, false, true)
		if ev == x07EvDone {
			finish(r, d)
		} else {
			hang(r, "return")
		}
	}
	for _, op := range h.Ops {
		switch op.Name {
		case "AddRes":
			e.mutate("addres", x07Str(op.Args[0]))
		case "RemoveRes":
			e.mutate("rmres", x07Str(op.Args[0]))
		case "AddTmpl":
			e.mutate("addtmpl", x07Str(op.Args[0]))
		case "RemoveTmpl":
			e.mutate("rmtmpl", x07Str(op.Args[0]))
		case "ReadStart":
			r := x07Str(op.Args[0])
			var u []string
			json.Unmarshal(op.Args[1], &u)
			if _, busy := e.state[r]; busy {
				continue
			}
			g := &x07Gate{arrMW: make(chan struct{}), relMW: make(chan struct{}, 1), arrH: make(chan x07Tag), relH: make(chan struct{}, 1), done: make(chan x07ReadDone, 1)}
			e.mu.Lock()
			e.gates[r] = g
			e.inv[r] = nil
			l := e.line("read.begin")
			l.R, l.U = r, u
			o.emit(l)
			e.mu.Unlock()
			e.uOf[r] = u
			e.state[r] = "sent"
			go func() { g.done <- e.call(r, u) }()
			if ev, _, d := wait(g, true, false); ev == x07EvDone {
				finish(r, d) // the request never reached the server's method handler
			} else if ev != x07EvMW {
				hang(r, "start")
			}
		case "ReadLookup":
			r := x07Str(op.Args[0])
			if e.state[r] == "sent" {
				lookup(r)
			}
		case "ReadReturn":
			r := x07Str(op.Args[0])
			if e.state[r] == "handler" {
				ret(r)
			}
		default:
			t.Fatalf("x07: unknown step %q", op.Name)
		}
	}
	// drain: every read in flight is let through to its end
	var rs []string
	for r := range e.state {
		rs = append(rs, r)
	}
	sort.Strings(rs)
	for _, r := range rs {
		if e.state[r] == "sent" {
			lookup(r)
		}
		if e.state[r] == "handler" {
			ret(r)
		}
	}
}

// x07RunStress: readers and one mutator run freely; only the real-time order of begin / end is logged.
func x07RunStress(t *testing.T, o *x07Out, id string, r *rand.Rand, templates, exacts []x07Named, uris [][]string) {
	era := []string{"legacy", "modern"}[r.IntN(2)]
	e := x07NewHistEnv(t, o, id, "stress", era, templates, exacts)
	defer e.close()
	xe := []string{"E1", "E2"}
	xt := []string{"Tda", "Tp", "Tab"}
	nread, nmut := 30, 24
	var wg sync.WaitGroup
	seeds := make([]uint64, 5)
	for i := range seeds {
		seeds[i] = r.Uint64()
	}
	for i := 0; i < 4; i++ {
		wg.Add(1)
		go func(i int) {
			defer wg.Done()
			rr := rand.New(rand.NewPCG(seeds[i], 1))
			name := fmt.Sprintf("r%d", i+1)
			for k := 0; k < nread; k++ {
				e.read(name, uris[rr.IntN(len(uris))])
			}
		}(i)
	}
	wg.Add(1)
	go func() {
		defer wg.Done()
		rr := rand.New(rand.NewPCG(seeds[4], 2))
		for k := 0; k < nmut; k++ {
			switch rr.IntN(4) {
			case 0:
				e.mutate("addres", xe[rr.IntN(len(xe))])
			case 1:
				e.mutate("rmres", xe[rr.IntN(len(xe))])
			case 2:
				e.mutate("addtmpl", xt[rr.IntN(len(xt))])
			default:
				e.mutate("rmtmpl", xt[rr.IntN(len(xt))])
			}
			if rr.IntN(3) == 0 {
				time.Sleep(time.Duration(rr.IntN(200)) * time.Microsecond)
			}
		}
	}()
	wg.Wait()
}

func TestVerif_X07Hist(t *testing.T) {
	o := x07Open(t, "hist")
	defer o.close()
	t.Parallel()
	templates, exacts := x07Universe(t)
	seed := x07Seed()
	n := 0
	x07ReadLines(t, "histories.ndjson", func(b []byte) {
		if os.Getenv("VERIF_NO_GATED") != "" {
			return
		}
		var h x07History
		if err := json.Unmarshal(b, &h); err != nil {
			t.Fatalf("x07: bad history: %v", err)
		}
		if h.Era == "" {
			h.Era = []string{"legacy", "modern"}[(n+int(seed))%2]
		}
		n++
		x07RunGated(t, o, &h, templates, exacts)
	})
	nstress, _ := strconv.Atoi(os.Getenv("VERIF_STRESS"))
	uris := [][]string{
		{"res:", "//h/", "a"}, {"res:", "//h/", "d", "/", "a"}, {"res:", "//h/", "a", "/", "a"}, {"res:", "//g/", "a"},
		{"res:", "//h/", "d", "/", "d"}, {"res:", "//h/", "a", ",", "d"},
	}
	only := -1
	if so := os.Getenv("VERIF_STRESS_ONLY"); so != "" {
		only, _ = strconv.Atoi(so)
	}
	for i := 0; i < nstress; i++ {
		if only >= 0 && i != only {
			continue
		}
		x07RunStress(t, o, fmt.Sprintf("stress%d", i), rand.New(rand.NewPCG(seed, uint64(7900+i))), templates, exacts, uris)
	}
}
