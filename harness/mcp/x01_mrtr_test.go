//go:build verif

// Conformance harness for extension check X01 (multi round-trip requests, SEP-2322), public API only.
//
// Every scenario connects a real mcp.Server and a real mcp.Client over the in-memory transport inside
// its own testing/synctest bubble and plays an *environment script* produced by TLC from
// spec/MultiRoundTrip.tla (a path of the state graph projected onto the environment's choices):
//
//   - which client: "new" (2026-07-28, default middleware), "newoff" (MultiRoundTrip.Disabled),
//     "old" (2025-11-25, default middleware), "oldoff" (2025-11-25, Disabled); whether it has an
//     ElicitationHandler / CreateMessageHandler;
//   - which method: a typed tool (AddTool), a raw tool (Server.AddTool), a prompt, a resource;
//   - what the server handler returns at its 1st, 2nd, ... invocation of a call (complete / input
//     requests {id -> elicit|sample|roots} with or without requestState / empty map (load shedding) /
//     content AND input requests / an error); when the script is exhausted its last entry repeats;
//   - in which order the client's handlers of a round return, and whether each succeeds or fails: every
//     client handler parks at a gate; after synctest.Wait() (everything is durably blocked) the driver
//     releases the one the script names next.
//
// The harness logs every handler invocation (what it received, what it returned), every client handler
// begin/end (for which request: the request payload carries <call>.<round>/<id>, the response echoes it),
// every message on the client's transport (method, resultType, inputRequests / inputResponses) and what
// the application call returned.  spec/MultiRoundTripMon.tla judges the log; MultiRoundTripTrace.tla must
// explain it with the actions of MultiRoundTrip.tla (drift otherwise).
//
// Env: VERIF_IN (ndjson scenarios), VERIF_OUT (ndjson observations), VERIF_SEED (unused: nothing is random).
package mcp_test

import (
	"bufio"
	"context"
	"encoding/json"
	"errors"
	"fmt"
	"os"
	"sort"
	"strconv"
	"strings"
	"sync"
	"testing"
	"testing/synctest"
	"time"

	"github.com/modelcontextprotocol/go-sdk/jsonrpc"
	"github.com/modelcontextprotocol/go-sdk/mcp"
)

// ---------------------------------------------------------------------------
// scenario (input)

type x01Out struct {
	T    string            `json:"t"`    // complete | input | invalid | err
	Reqs map[string]string `json:"reqs"` // id -> elicit | sample | roots
	St   bool              `json:"st"`   // with a requestState
}

type x01Call struct {
	Other  bool                   `json:"other"`  // a method the middlewares pass through
	Reuse  bool                   `json:"reuse"`  // the application re-uses the params object of the previous call
	Manual int                    `json:"manual"` // middleware Disabled: how often the application itself fulfils and re-issues
	TTL    bool                   `json:"ttl"`    // resource: input-required results carry ttlMs > 0
	Script []x01Out               `json:"script"` // handler results by invocation
	Ends   map[string][][2]string `json:"ends"`   // round -> [[id, ok|fail], ...] in order of release
}

type x01Scenario struct {
	ID     string    `json:"id"`
	Mode   string    `json:"mode"`
	HasE   bool      `json:"hasE"`
	HasS   bool      `json:"hasS"`
	Method string    `json:"method"` // tool | rawtool | prompt | resource
	Calls  []x01Call `json:"calls"`
}

// ---------------------------------------------------------------------------
// observation log (every field on every line: TLC reads records)

type x01Line struct {
	Ev     string   `json:"ev"` // reset call inv cli wire ret hang end
	Trace  string   `json:"trace"`
	Mode   string   `json:"mode"`
	HasE   bool     `json:"hasE"`
	HasS   bool     `json:"hasS"`
	Meth   string   `json:"meth"`
	Call   int      `json:"call"`
	Other  bool     `json:"other"`
	Reuse  bool     `json:"reuse"`
	Manual bool     `json:"manual"` // call: the application re-issues the call in progress with the responses (Disabled)
	N      int      `json:"n"`      // inv: number of the invocation within the call; cli: round of the request
	Keys   []string `json:"keys"`   // inv: ids of the inputResponses received (sorted); wire c2s: same, from the wire
	Kinds  []string `json:"kinds"`  // inv: kind of each response (by its Go type)
	RCalls []int    `json:"rcalls"` // inv: call number echoed by each response (0: roots / none)
	RNs    []int    `json:"rns"`    // inv: round number echoed by each response
	RKeys  []string `json:"rkeys"`  // inv: id echoed by each response
	State  string   `json:"state"`  // inv: requestState received; ret: RequestState of the result; wire c2s: on the wire
	Out    string   `json:"out"`    // inv: complete | input | invalid | err
	OKeys  []string `json:"okeys"`  // inv: ids of the input requests returned (sorted); ret: ids of InputRequests
	OKinds []string `json:"okinds"` // inv / ret: their kinds
	OState string   `json:"ostate"` // inv: requestState returned
	StN    int      `json:"stn"`    // inv: number of the invocation that issued the requestState received (0: none)
	OStN   int      `json:"ostn"`   // inv: n if a requestState is returned, else 0
	Kind   string   `json:"kind"`   // cli: elicit | sample
	Key    string   `json:"key"`    // cli: id of the request (from its payload)
	Ph     string   `json:"ph"`     // cli: begin | end
	R      string   `json:"r"`      // cli end: ok | fail
	Dir    string   `json:"dir"`    // wire: c2s | s2c
	WType  string   `json:"wtype"`  // wire: req | resp
	Method string   `json:"method"` // wire: JSON-RPC method (of the request answered, for a response)
	RT     string   `json:"rt"`     // wire s2c resp: resultType member ("" when absent)
	HasIR  bool     `json:"hasir"`  // wire s2c resp / ret: inputRequests present
	NIR    int      `json:"nir"`    // wire s2c resp: number of input requests
	IsErr  bool     `json:"iserr"`  // wire resp: error response
	Err    string   `json:"err"`    // ret: "" | handler | internal | cfail | limit | shedlimit | busy | other
	Code   int      `json:"code"`   // ret: JSON-RPC error code (0: none / not a wire error)
	Needs  bool     `json:"needs"`  // ret: NeedsInput()
	DCall  int      `json:"dcall"`  // ret: the complete result was produced by invocation DN of call DCall
	DN     int      `json:"dn"`
	Msg    string   `json:"msg"` // free text (error message), never judged
}

func x01NewLine(ev string) x01Line {
	return x01Line{Ev: ev, Keys: []string{}, Kinds: []string{}, RCalls: []int{}, RNs: []int{}, RKeys: []string{},
		OKeys: []string{}, OKinds: []string{}}
}

type x01Log struct {
	mu    sync.Mutex
	w     *bufio.Writer
	trace string
	sc    *x01Scenario
	call  int
	on    bool // wire lines are recorded (after the handshake)
}

func (o *x01Log) emit(l x01Line) {
	o.mu.Lock()
	defer o.mu.Unlock()
	l.Trace, l.Mode, l.HasE, l.HasS, l.Meth = o.trace, o.sc.Mode, o.sc.HasE, o.sc.HasS, o.sc.Method
	if l.Ev != "cli" {
		l.Call = o.call
	}
	b, err := json.Marshal(l)
	if err != nil {
		panic(err)
	}
	o.w.Write(b)
	o.w.WriteByte('\n')
}

// ---------------------------------------------------------------------------
// tokens: "<call>.<round>/<id>"

func x01Tok(call, n int, key string) string { return fmt.Sprintf("%d.%d/%s", call, n, key) }

func x01ParseTok(s string) (call, n int, key string) {
	i := strings.IndexByte(s, '/')
	j := strings.IndexByte(s, '.')
	if i < 0 || j < 0 || j > i {
		return 0, 0, ""
	}
	call, _ = strconv.Atoi(s[:j])
	n, _ = strconv.Atoi(s[j+1 : i])
	return call, n, s[i+1:]
}

// ---------------------------------------------------------------------------
// recording transport (client side)

type x01Transport struct {
	inner mcp.Transport
	log   *x01Log
}

func (t *x01Transport) Connect(ctx context.Context) (mcp.Connection, error) {
	c, err := t.inner.Connect(ctx)
	if err != nil {
		return nil, err
	}
	return &x01Conn{Connection: c, log: t.log, methods: map[string]string{}}, nil
}

type x01Conn struct {
	mcp.Connection
	log     *x01Log
	mu      sync.Mutex
	methods map[string]string // id of a client request -> method
}

func (c *x01Conn) Read(ctx context.Context) (jsonrpc.Message, error) {
	m, err := c.Connection.Read(ctx)
	if err == nil {
		c.record("s2c", m)
	}
	return m, err
}

func (c *x01Conn) Write(ctx context.Context, m jsonrpc.Message) error {
	c.record("c2s", m)
	return c.Connection.Write(ctx, m)
}

func (c *x01Conn) record(dir string, m jsonrpc.Message) {
	c.log.mu.Lock()
	on := c.log.on
	c.log.mu.Unlock()
	switch m := m.(type) {
	case *jsonrpc.Request:
		if !m.ID.IsValid() {
			return // notification
		}
		if dir == "c2s" {
			c.mu.Lock()
			c.methods[fmt.Sprint(m.ID.Raw())] = m.Method
			c.mu.Unlock()
		}
		if !on {
			return
		}
		l := x01NewLine("wire")
		l.Dir, l.WType, l.Method = dir, "req", m.Method
		var p struct {
			InputResponses map[string]json.RawMessage `json:"inputResponses"`
			RequestState   string                     `json:"requestState"`
			Message        string                     `json:"message"`
		}
		json.Unmarshal(m.Params, &p)
		for k := range p.InputResponses {
			l.Keys = append(l.Keys, k)
		}
		sort.Strings(l.Keys)
		l.State = p.RequestState
		if m.Method == "elicitation/create" {
			_, l.N, l.Key = x01ParseTok(p.Message)
		}
		c.log.emit(l)
	case *jsonrpc.Response:
		if !on {
			return
		}
		l := x01NewLine("wire")
		l.Dir, l.WType = dir, "resp"
		if dir == "s2c" {
			c.mu.Lock()
			l.Method = c.methods[fmt.Sprint(m.ID.Raw())]
			c.mu.Unlock()
		}
		l.IsErr = m.Error != nil
		if m.Error == nil {
			var r struct {
				ResultType    string                     `json:"resultType"`
				InputRequests map[string]json.RawMessage `json:"inputRequests"`
			}
			json.Unmarshal(m.Result, &r)
			l.RT = r.ResultType
			l.HasIR = r.InputRequests != nil
			l.NIR = len(r.InputRequests)
		}
		c.log.emit(l)
	}
}

// ---------------------------------------------------------------------------
// client handlers parked at gates

type x01Parked struct {
	call, n int
	key     string
	release chan string // ok | fail
}

type x01Env struct {
	log    *x01Log
	mu     sync.Mutex
	parked []*x01Parked
	invs   int // handler invocations of the call in progress
	cur    *x01Call
}

func (e *x01Env) park(kind, tok string) string {
	call, n, key := x01ParseTok(tok)
	l := x01NewLine("cli")
	l.Kind, l.Call, l.N, l.Key, l.Ph = kind, call, n, key, "begin"
	e.log.emit(l)
	p := &x01Parked{call: call, n: n, key: key, release: make(chan string, 1)}
	e.mu.Lock()
	e.parked = append(e.parked, p)
	e.mu.Unlock()
	r := <-p.release
	l.Ph, l.R = "end", r
	e.log.emit(l)
	return r
}

// next picks the parked handler the script releases next (nil: nothing is parked).
func (e *x01Env) next(call int, ends map[string][][2]string, used map[string]int) (*x01Parked, string) {
	e.mu.Lock()
	defer e.mu.Unlock()
	if len(e.parked) == 0 {
		return nil, ""
	}
	take := func(i int) *x01Parked {
		p := e.parked[i]
		e.parked = append(e.parked[:i], e.parked[i+1:]...)
		return p
	}
	// rounds in ascending order; within a round the script's order
	sort.SliceStable(e.parked, func(i, j int) bool {
		if e.parked[i].n != e.parked[j].n {
			return e.parked[i].n < e.parked[j].n
		}
		return e.parked[i].key < e.parked[j].key
	})
	rn := strconv.Itoa(e.parked[0].n)
	list := ends[rn]
	for used[rn] < len(list) {
		item := list[used[rn]]
		used[rn]++
		for i, p := range e.parked {
			if p.call == call && strconv.Itoa(p.n) == rn && p.key == item[0] {
				return take(i), item[1]
			}
		}
	}
	return take(0), "ok"
}

func (e *x01Env) drain() {
	for {
		e.mu.Lock()
		if len(e.parked) == 0 {
			e.mu.Unlock()
			return
		}
		p := e.parked[0]
		e.parked = e.parked[1:]
		e.mu.Unlock()
		p.release <- "ok"
		synctest.Wait()
	}
}

// ---------------------------------------------------------------------------
// the scripted server handler

type x01Result struct {
	out     x01Out
	tok     string // "done@<call>.<n>"
	reqs    mcp.InputRequestMap
	state   string
	invalid bool
	ttl     bool
}

func (e *x01Env) invoke(received mcp.InputResponseMap, state string) (x01Result, error) {
	e.log.mu.Lock()
	call := e.log.call
	e.log.mu.Unlock()
	e.mu.Lock()
	e.invs++
	n := e.invs
	cs := e.cur
	e.mu.Unlock()
	l := x01NewLine("inv")
	l.N = n
	for k := range received {
		l.Keys = append(l.Keys, k)
	}
	sort.Strings(l.Keys)
	for _, k := range l.Keys {
		kind, tok := "?", ""
		switch r := received[k].(type) {
		case *mcp.ElicitResult:
			kind = "elicit"
			if r != nil {
				tok, _ = r.Content["tok"].(string)
			}
		case *mcp.CreateMessageWithToolsResult:
			kind = "sample"
			if r != nil && len(r.Content) > 0 {
				if tc, ok := r.Content[0].(*mcp.TextContent); ok {
					tok = tc.Text
				}
			}
		case *mcp.ListRootsResult:
			kind = "roots"
		}
		c, rn, rk := x01ParseTok(tok)
		l.Kinds, l.RCalls, l.RNs, l.RKeys = append(l.Kinds, kind), append(l.RCalls, c), append(l.RNs, rn), append(l.RKeys, rk)
	}
	l.State = state
	if strings.HasPrefix(state, "st@") {
		_, l.StN, _ = x01ParseTok(strings.TrimPrefix(state, "st@") + "/")
	}
	var o x01Out
	switch {
	case len(cs.Script) == 0:
		o = x01Out{T: "complete"}
	case n <= len(cs.Script):
		o = cs.Script[n-1]
	default:
		o = cs.Script[len(cs.Script)-1] // the last entry repeats
	}
	res := x01Result{out: o, tok: fmt.Sprintf("done@%d.%d", call, n), ttl: cs.TTL}
	l.Out = o.T
	if o.T == "input" || o.T == "invalid" {
		res.reqs = mcp.InputRequestMap{}
		for k, kind := range o.Reqs {
			if kind == "" || kind == "-" {
				continue
			}
			tok := x01Tok(call, n, k)
			switch kind {
			case "elicit":
				res.reqs[k] = &mcp.ElicitParams{Message: tok}
			case "sample":
				res.reqs[k] = &mcp.CreateMessageParams{MaxTokens: 8,
					Messages: []*mcp.SamplingMessage{{Role: "user", Content: &mcp.TextContent{Text: tok}}}}
			case "roots":
				res.reqs[k] = &mcp.ListRootsParams{}
			}
			l.OKeys = append(l.OKeys, k)
		}
		sort.Strings(l.OKeys)
		for _, k := range l.OKeys {
			l.OKinds = append(l.OKinds, o.Reqs[k])
		}
		if o.St {
			res.state = fmt.Sprintf("st@%d.%d", call, n)
		}
		l.OState = res.state
		if o.St {
			l.OStN = n
		}
		res.invalid = o.T == "invalid"
	}
	e.log.emit(l)
	if o.T == "err" {
		return res, &jsonrpc.Error{Code: -32050, Message: "x01-herr"}
	}
	return res, nil
}

func (e *x01Env) toolResult(r x01Result) *mcp.CallToolResult {
	out := &mcp.CallToolResult{}
	if r.out.T == "complete" || r.invalid {
		out.Content = []mcp.Content{&mcp.TextContent{Text: r.tok}}
	}
	if r.reqs != nil {
		out.InputRequests, out.RequestState = r.reqs, r.state
	}
	return out
}

func x01Register(s *mcp.Server, e *x01Env, method string) {
	switch method {
	case "tool":
		mcp.AddTool(s, &mcp.Tool{Name: "t"}, func(_ context.Context, req *mcp.CallToolRequest, _ struct{}) (*mcp.CallToolResult, any, error) {
			r, err := e.invoke(req.Params.InputResponses, req.Params.RequestState)
			if err != nil {
				return nil, nil, err
			}
			return e.toolResult(r), nil, nil
		})
	case "rawtool":
		s.AddTool(&mcp.Tool{Name: "t", InputSchema: json.RawMessage(`{"type":"object"}`)}, func(_ context.Context, req *mcp.CallToolRequest) (*mcp.CallToolResult, error) {
			r, err := e.invoke(req.Params.InputResponses, req.Params.RequestState)
			if err != nil {
				return nil, err
			}
			return e.toolResult(r), nil
		})
	case "prompt":
		s.AddPrompt(&mcp.Prompt{Name: "p"}, func(_ context.Context, req *mcp.GetPromptRequest) (*mcp.GetPromptResult, error) {
			r, err := e.invoke(req.Params.InputResponses, req.Params.RequestState)
			if err != nil {
				return nil, err
			}
			out := &mcp.GetPromptResult{}
			if r.out.T == "complete" || r.invalid {
				out.Messages = []*mcp.PromptMessage{{Role: "user", Content: &mcp.TextContent{Text: r.tok}}}
			}
			if r.reqs != nil {
				out.InputRequests, out.RequestState = r.reqs, r.state
			}
			return out, nil
		})
	case "resource":
		s.AddResource(&mcp.Resource{URI: "x01://r", Name: "r"}, func(_ context.Context, req *mcp.ReadResourceRequest) (*mcp.ReadResourceResult, error) {
			r, err := e.invoke(req.Params.InputResponses, req.Params.RequestState)
			if err != nil {
				return nil, err
			}
			out := &mcp.ReadResourceResult{}
			if r.out.T == "complete" || r.invalid {
				out.Contents = []*mcp.ResourceContents{{URI: "x01://r", Text: r.tok}}
			}
			if r.reqs != nil {
				out.InputRequests, out.RequestState = r.reqs, r.state
				if r.ttl {
					out.TTLMs = 60000
				}
			}
			return out, nil
		})
	}
	// something to list for the pass-through calls
	if method != "tool" && method != "rawtool" {
		s.AddTool(&mcp.Tool{Name: "aux", InputSchema: json.RawMessage(`{"type":"object"}`)}, func(context.Context, *mcp.CallToolRequest) (*mcp.CallToolResult, error) {
			return &mcp.CallToolResult{}, nil
		})
	}
}

// ---------------------------------------------------------------------------
// the application

func x01Classify(err error) (string, int) {
	if err == nil {
		return "", 0
	}
	code := 0
	var we *jsonrpc.Error
	if errors.As(err, &we) {
		code = int(we.Code)
	}
	m := err.Error()
	switch {
	case strings.Contains(m, "x01-herr"):
		return "handler", code
	case strings.Contains(m, "both content and inputRequests"):
		return "internal", code
	case strings.Contains(m, "exceeded maximum load-shedding"):
		return "shedlimit", code
	case strings.Contains(m, "exceeded maximum retries"):
		return "limit", code
	case strings.Contains(m, "fulfilling input request"):
		return "cfail", code
	case strings.Contains(m, "server is busy"):
		return "busy", code
	}
	return "other", code
}

func x01IRKeys(m mcp.InputRequestMap) (keys, kinds []string) {
	keys, kinds = []string{}, []string{}
	for k := range m {
		keys = append(keys, k)
	}
	sort.Strings(keys)
	for _, k := range keys {
		switch m[k].(type) {
		case *mcp.ElicitParams:
			kinds = append(kinds, "elicit")
		case *mcp.CreateMessageParams, *mcp.CreateMessageWithToolsParams:
			kinds = append(kinds, "sample")
		case *mcp.ListRootsParams:
			kinds = append(kinds, "roots")
		default:
			kinds = append(kinds, "?")
		}
	}
	return
}

func x01Done(text string) (int, int) {
	if !strings.HasPrefix(text, "done@") {
		return 0, 0
	}
	c, n, _ := x01ParseTok(strings.TrimPrefix(text, "done@") + "/")
	return c, n
}

type x01App struct {
	tool *mcp.CallToolParams
	prm  *mcp.GetPromptParams
	rsrc *mcp.ReadResourceParams
	// what the latest result asked for (middleware Disabled: the application answers itself)
	needs bool
	reqs  mcp.InputRequestMap
	state string
}

// answer fulfils the input requests of the latest result the way an application without the middleware
// would: one response per request, echoing the request's payload.
func (a *x01App) answer() mcp.InputResponseMap {
	out := mcp.InputResponseMap{}
	for k, r := range a.reqs {
		switch p := r.(type) {
		case *mcp.ElicitParams:
			out[k] = &mcp.ElicitResult{Action: "accept", Content: map[string]any{"tok": p.Message}}
		case *mcp.CreateMessageWithToolsParams:
			tok := ""
			if len(p.Messages) > 0 && len(p.Messages[0].Content) > 0 {
				if tc, ok := p.Messages[0].Content[0].(*mcp.TextContent); ok {
					tok = tc.Text
				}
			}
			out[k] = &mcp.CreateMessageResult{Role: "assistant", Model: "x01", Content: &mcp.TextContent{Text: tok}}
		case *mcp.CreateMessageParams:
			tok := ""
			if len(p.Messages) > 0 {
				if tc, ok := p.Messages[0].Content.(*mcp.TextContent); ok {
					tok = tc.Text
				}
			}
			out[k] = &mcp.CreateMessageResult{Role: "assistant", Model: "x01", Content: &mcp.TextContent{Text: tok}}
		case *mcp.ListRootsParams:
			out[k] = &mcp.ListRootsResult{Roots: []*mcp.Root{{URI: "file:///x01", Name: "x01"}}}
		}
	}
	return out
}

// issue performs one application call and returns its ret line.
func (a *x01App) issue(ctx context.Context, cs *mcp.ClientSession, sc *x01Scenario, c *x01Call, idx int, retry bool) x01Line {
	l := x01NewLine("ret")
	l.Other = c.Other
	var resp mcp.InputResponseMap
	var state string
	if retry {
		resp, state = a.answer(), a.state
	}
	a.needs, a.reqs, a.state = false, nil, ""
	if c.Other {
		var err error
		if idx%2 == 0 {
			_, err = cs.ListTools(ctx, nil)
		} else {
			_, err = cs.ListPrompts(ctx, nil)
		}
		l.Err, l.Code = x01Classify(err)
		if err != nil {
			l.Msg = err.Error()
		}
		return l
	}
	var err error
	switch sc.Method {
	case "tool", "rawtool":
		if !c.Reuse || a.tool == nil || retry {
			a.tool = &mcp.CallToolParams{Name: "t", InputResponses: resp, RequestState: state}
		}
		var r *mcp.CallToolResult
		r, err = cs.CallTool(ctx, a.tool)
		if err == nil && r != nil {
			l.Needs, l.HasIR, l.State = r.NeedsInput(), r.InputRequests != nil, r.RequestState
			a.needs, a.reqs, a.state = r.NeedsInput(), r.InputRequests, r.RequestState
			l.OKeys, l.OKinds = x01IRKeys(r.InputRequests)
			if len(r.Content) > 0 {
				if tc, ok := r.Content[0].(*mcp.TextContent); ok {
					l.DCall, l.DN = x01Done(tc.Text)
				}
			}
		}
	case "prompt":
		if !c.Reuse || a.prm == nil || retry {
			a.prm = &mcp.GetPromptParams{Name: "p", InputResponses: resp, RequestState: state}
		}
		var r *mcp.GetPromptResult
		r, err = cs.GetPrompt(ctx, a.prm)
		if err == nil && r != nil {
			l.Needs, l.HasIR, l.State = r.NeedsInput(), r.InputRequests != nil, r.RequestState
			a.needs, a.reqs, a.state = r.NeedsInput(), r.InputRequests, r.RequestState
			l.OKeys, l.OKinds = x01IRKeys(r.InputRequests)
			if len(r.Messages) > 0 {
				if tc, ok := r.Messages[0].Content.(*mcp.TextContent); ok {
					l.DCall, l.DN = x01Done(tc.Text)
				}
			}
		}
	case "resource":
		if !c.Reuse || a.rsrc == nil || retry {
			a.rsrc = &mcp.ReadResourceParams{URI: "x01://r", InputResponses: resp, RequestState: state}
		}
		var r *mcp.ReadResourceResult
		r, err = cs.ReadResource(ctx, a.rsrc)
		if err == nil && r != nil {
			l.Needs, l.HasIR, l.State = r.NeedsInput(), r.InputRequests != nil, r.RequestState
			a.needs, a.reqs, a.state = r.NeedsInput(), r.InputRequests, r.RequestState
			l.OKeys, l.OKinds = x01IRKeys(r.InputRequests)
			if len(r.Contents) > 0 {
				l.DCall, l.DN = x01Done(r.Contents[0].Text)
			}
		}
	}
	l.Err, l.Code = x01Classify(err)
	if err != nil {
		l.Msg = err.Error()
	}
	return l
}

func x01Run(t *testing.T, sc *x01Scenario, log *x01Log) {
	ctx, cancelAll := context.WithCancel(context.Background())
	defer cancelAll()
	log.mu.Lock()
	log.trace, log.sc, log.call, log.on = sc.ID, sc, 0, false
	log.mu.Unlock()
	env := &x01Env{log: log}
	log.emit(x01NewLine("reset"))

	srv := mcp.NewServer(&mcp.Implementation{Name: "x01-server", Version: "1"}, nil)
	x01Register(srv, env, sc.Method)
	srv.AddPrompt(&mcp.Prompt{Name: "aux"}, func(context.Context, *mcp.GetPromptRequest) (*mcp.GetPromptResult, error) {
		return &mcp.GetPromptResult{}, nil
	})

	opts := &mcp.ClientOptions{}
	if sc.Mode == "newoff" || sc.Mode == "oldoff" {
		opts.MultiRoundTrip = &mcp.MultiRoundTripOptions{Disabled: true}
	}
	if sc.HasE {
		opts.ElicitationHandler = func(_ context.Context, req *mcp.ElicitRequest) (*mcp.ElicitResult, error) {
			tok := req.Params.Message
			if env.park("elicit", tok) != "ok" {
				return nil, errors.New("x01-cfail")
			}
			return &mcp.ElicitResult{Action: "accept", Content: map[string]any{"tok": tok}}, nil
		}
	}
	if sc.HasS {
		opts.CreateMessageHandler = func(_ context.Context, req *mcp.CreateMessageRequest) (*mcp.CreateMessageResult, error) {
			tok := ""
			if len(req.Params.Messages) > 0 {
				if tc, ok := req.Params.Messages[0].Content.(*mcp.TextContent); ok {
					tok = tc.Text
				}
			}
			if env.park("sample", tok) != "ok" {
				return nil, errors.New("x01-cfail")
			}
			return &mcp.CreateMessageResult{Role: "assistant", Model: "x01", Content: &mcp.TextContent{Text: tok}}, nil
		}
	}
	client := mcp.NewClient(&mcp.Implementation{Name: "x01-client", Version: "1"}, opts)
	client.AddRoots(&mcp.Root{URI: "file:///x01", Name: "x01"})

	st, ct := mcp.NewInMemoryTransports()
	ss, err := srv.Connect(ctx, st, nil)
	if err != nil {
		t.Fatalf("%s: server connect: %v", sc.ID, err)
	}
	ver := "2026-07-28"
	if sc.Mode == "old" || sc.Mode == "oldoff" {
		ver = "2025-11-25"
	}
	cs, err := client.Connect(ctx, &x01Transport{inner: ct, log: log}, &mcp.ClientSessionOptions{ProtocolVersion: ver})
	if err != nil {
		t.Fatalf("%s: client connect: %v", sc.ID, err)
	}
	synctest.Wait()
	log.mu.Lock()
	log.on = true
	log.mu.Unlock()

	app := &x01App{}
	for i := range sc.Calls {
		c := &sc.Calls[i]
		env.mu.Lock()
		env.invs, env.cur = 0, c
		env.mu.Unlock()
		log.mu.Lock()
		log.call = i + 1
		log.mu.Unlock()
		l := x01NewLine("call")
		l.Other, l.Reuse = c.Other, c.Reuse
		log.emit(l)

		callCtx, cancel := context.WithCancel(ctx)
		used := map[string]int{}
		for attempt := 0; ; attempt++ {
			if attempt > 0 {
				l := x01NewLine("call")
				l.Other, l.Reuse, l.Manual = c.Other, c.Reuse, true
				log.emit(l)
			}
			done := make(chan struct{})
			go func() {
				defer close(done)
				log.emit(app.issue(callCtx, cs, sc, c, i, attempt > 0))
			}()
			returned := false
			for step := 0; step < 400 && !returned; step++ {
				synctest.Wait()
				select {
				case <-done:
					returned = true
					continue
				default:
				}
				p, r := env.next(i+1, c.Ends, used)
				if p == nil {
					break // nothing is parked and the call has not returned: it never will
				}
				p.release <- r
			}
			if !returned {
				log.emit(x01NewLine("hang"))
				cancel()
				env.drain()
				<-done
				break
			}
			if !(sc.Mode == "newoff" && !c.Other && app.needs && attempt < c.Manual) {
				break
			}
		}
		cancel()
		env.drain() // legacy orphans (D4)
		synctest.Wait()
	}
	log.mu.Lock()
	log.on = false
	log.mu.Unlock()
	cs.Close()
	ss.Close()
	env.drain()
	time.Sleep(time.Minute)
	synctest.Wait()
	log.emit(x01NewLine("end"))
}

func TestVerif_X01(t *testing.T) {
	in, out := os.Getenv("VERIF_IN"), os.Getenv("VERIF_OUT")
	if in == "" || out == "" {
		t.Skip("VERIF_IN / VERIF_OUT not set")
	}
	fin, err := os.Open(in)
	if err != nil {
		t.Fatal(err)
	}
	defer fin.Close()
	fout, err := os.Create(out)
	if err != nil {
		t.Fatal(err)
	}
	defer fout.Close()
	log := &x01Log{w: bufio.NewWriterSize(fout, 1<<20)}
	defer log.w.Flush()
	rd := bufio.NewScanner(fin)
	rd.Buffer(make([]byte, 1<<20), 1<<24)
	n := 0
	for rd.Scan() {
		if len(strings.TrimSpace(rd.Text())) == 0 {
			continue
		}
		var sc x01Scenario
		if err := json.Unmarshal(rd.Bytes(), &sc); err != nil {
			t.Fatalf("scenario %d: %v", n, err)
		}
		n++
		synctest.Test(t, func(t *testing.T) { x01Run(t, &sc, log) })
		log.w.Flush()
	}
	t.Logf("x01: %d scenarios", n)
}
