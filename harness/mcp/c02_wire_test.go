//go:build verif

// Byte-level harness for property C02 (request shapes, id echo, batches) on the
// newline-delimited JSON transport (IOTransport over io.Pipe = what stdio and the
// in-memory transport use).  Raw lines in, raw lines out, public API only.
//
//   VERIF_IN   ndjson cases enumerated by TLC (spec/Wire.tla):
//                {"t":"shape","era":..,"method":..,"hasId":..,"idc":..,"params":..}
//                {"t":"batch","members":["call","notif","unk"],"order":[2,1],"reuse":"returned"|"received"}
//                {"t":"framing","side":"client"|"server","ncalls":2,"frames":[{"arr":true,"items":["r2","n","r1"]}]}
//              "framing" (property C01): a real ClientSession / ServerSession with ncalls calls outstanding against a
//              raw scripted peer that answers them framed as the case says.
//   VERIF_OUT  one observation line per case
package mcp_test

import (
	"bufio"
	"bytes"
	"context"
	"encoding/json"
	"errors"
	"fmt"
	"io"
	"math/rand/v2"
	"net/http"
	"net/http/httptest"
	"os"
	"regexp"
	"strconv"
	"strings"
	"sync"
	"testing"
	"testing/synctest"
	"time"

	"github.com/modelcontextprotocol/go-sdk/jsonrpc"
	"github.com/modelcontextprotocol/go-sdk/mcp"
)

type c02Case struct {
	T       string   `json:"t"`
	Era     string   `json:"era"`
	Method  string   `json:"method"`
	HasID   bool     `json:"hasId"`
	Idc     string   `json:"idc"`
	Params  string   `json:"params"`
	Members []string `json:"members"`
	Order   []int    `json:"order"`
	JSON    bool     `json:"json"` // streamable HTTP: JSONResponse mode
	Reuse   string   `json:"reuse"` // batch: when the ids are re-used: "returned" (after the Write of the reply returned) / "received"
	// framing
	Side   string     `json:"side"`
	NCalls int        `json:"ncalls"`
	Frames []c02Frame `json:"frames"`
}

type c02Frame struct {
	Arr   bool     `json:"arr"`
	Items []string `json:"items"`
}

type c02Obs struct {
	Case      c02Case `json:"c"`
	Sent      string  `json:"sent"`
	IDTok     string  `json:"idTok"`
	Count     int     `json:"count"`     // responses whose id token equals the sent token (textually)
	OtherResp int     `json:"otherResp"` // responses with any other id
	Code      int     `json:"code"`      // error code of the (first) matching response, 0 = result
	IsErrRes  bool    `json:"isErrRes"`  // result with isError=true (tool-level error)
	Alive     bool    `json:"alive"`     // a follow-up ping was answered
	Lines     int     `json:"lines"`
	// batches
	Flushes   []c02Flush `json:"flushes"`
	Singles   int        `json:"singles"` // responses written outside any array
	Premature bool       `json:"premature"`
	Handled   []int      `json:"handled"` // batch: member positions (1-based) in the order their handlers started (notifications, gated calls)
	Panic     string     `json:"panic"`
	// streamable HTTP
	Status    int  `json:"status"`    // HTTP status of the POST carrying the case
	Answered  int  `json:"answered"`  // batch: members with an id that got exactly one response with that id
	ReuseOK   bool `json:"reuseOk"`   // batch: a later single call re-using the first member's id was answered
	ReuseStat int  `json:"reuseStatus"`
	Hung      bool `json:"hung"`      // the POST carrying the case had not completed at quiescence after a bounded virtual wait
	ReuseHeld bool `json:"reuseHeld"` // batch, reuse=received: the server was still inside the Write of the reply when the ids were re-used
	// framing
	Outcome   []string `json:"outcome"`   // per call: own / other / failed / blocked
	DoneAfter [][]int  `json:"doneAfter"` // per frame: the calls that had returned at quiescence after it
	Notifs    int      `json:"notifs"`    // notification handler invocations
	QAnswers  int      `json:"qAnswers"`  // responses carrying the id of the peer's call
	QOther    int      `json:"qOther"`    // responses carrying any other id
	Detail    string   `json:"detail"`
}

type c02Flush struct {
	After int      `json:"after"` // number of call members answered (released) when the array appeared
	IDs   []string `json:"ids"`
}

type c02Peer struct {
	w     *io.PipeWriter
	mu    sync.Mutex
	lines []string
}

var c02IDRe = regexp.MustCompile(`"id":("(?:[^"\\]|\\.)*"|-?[0-9.eE+]+)`)
var c02CodeRe = regexp.MustCompile(`"error":\{"code":(-?[0-9]+)`)

func (p *c02Peer) send(s string) { p.w.Write([]byte(s + "\n")) }
func (p *c02Peer) take() []string {
	p.mu.Lock()
	defer p.mu.Unlock()
	out := p.lines
	p.lines = nil
	return out
}

func c02IDToken(r *rand.Rand, idc string) string {
	switch idc {
	case "small":
		return strconv.Itoa(1 + r.IntN(1000))
	case "zero":
		return "0"
	case "neg":
		return strconv.Itoa(-1 - r.IntN(1000))
	case "safemax":
		return "9007199254740991"
	case "pow53":
		return "9007199254740992"
	case "pow53p1":
		return "9007199254740993"
	case "negpow53m1":
		return "-9007199254740993"
	case "big":
		return "1234567890123456789"
	case "maxint64":
		return "9223372036854775807"
	case "minint64":
		return "-9223372036854775808"
	case "strempty":
		return `""`
	case "strnum":
		return `"42"`
	case "strascii":
		return fmt.Sprintf(`"req-%d"`, r.IntN(1000))
	case "strunicode":
		return `"ид-✓-𝄞"`
	case "strescape":
		return `"a\"b\\c\n"`
	}
	panic("idc " + idc)
}

func c02Params(method, pc string) string {
	switch pc {
	case "absent":
		return ""
	case "null":
		return `,"params":null`
	case "empty":
		return `,"params":{}`
	case "wrongtype":
		if method == "tools/call" {
			return `,"params":{"name":5}`
		}
		return `,"params":{"cursor":7,"_meta":3}`
	case "valid":
		switch method {
		case "tools/call":
			return `,"params":{"name":"echo","arguments":{}}`
		case "notifications/progress":
			return `,"params":{"progressToken":"t","progress":1}`
		}
		return `,"params":{}`
	}
	panic("params " + pc)
}

// c02HoldWriter is the server's output stream.  It forwards every line to the pipe (the Write of an io.Pipe returns
// once the peer has consumed the bytes) and, when armed, does not let the Write of the next batch reply (a line that
// starts with '[') RETURN until release is called: the window in which the peer already holds the reply while the
// server is still inside its Write.
type c02HoldWriter struct {
	w       io.WriteCloser
	mu      sync.Mutex
	armed   bool
	holding bool
	gate    chan struct{}
}

func (h *c02HoldWriter) Write(p []byte) (int, error) {
	n, err := h.w.Write(p)
	h.mu.Lock()
	hold := h.armed && bytes.HasPrefix(bytes.TrimSpace(p), []byte("["))
	var gate chan struct{}
	if hold {
		h.armed, h.holding = false, true
		h.gate = make(chan struct{})
		gate = h.gate
	}
	h.mu.Unlock()
	if hold {
		<-gate
	}
	return n, err
}

func (h *c02HoldWriter) Close() error { h.release(); return h.w.Close() }
func (h *c02HoldWriter) arm()         { h.mu.Lock(); h.armed = true; h.mu.Unlock() }
func (h *c02HoldWriter) isHolding() bool {
	h.mu.Lock()
	defer h.mu.Unlock()
	return h.holding
}

// release lets a held Write return (and disarms).
func (h *c02HoldWriter) release() {
	h.mu.Lock()
	h.armed = false
	if h.holding {
		h.holding = false
		close(h.gate)
	}
	h.mu.Unlock()
}

type c02Env struct {
	hold    *c02HoldWriter
	handled []int          // member positions in the order their handlers started
	posOf   map[string]int // gate tag -> member position
	peer    *c02Peer
	srv     *mcp.Server
	gates   map[string]chan struct{}
	gmu     sync.Mutex
	started []string
	cleanup func()
}

func (e *c02Env) gate(tag string) chan struct{} {
	e.gmu.Lock()
	defer e.gmu.Unlock()
	ch, ok := e.gates[tag]
	if !ok {
		ch = make(chan struct{})
		e.gates[tag] = ch
	}
	return ch
}

func c02Setup(t *testing.T, era string) *c02Env {
	e := &c02Env{gates: map[string]chan struct{}{}}
	e.srv = mcp.NewServer(&mcp.Implementation{Name: "s", Version: "1"}, &mcp.ServerOptions{
		ProgressNotificationHandler: func(ctx context.Context, req *mcp.ProgressNotificationServerRequest) {
			e.gmu.Lock()
			e.handled = append(e.handled, int(req.Params.Progress))
			e.gmu.Unlock()
		},
	})
	e.srv.AddTool(&mcp.Tool{Name: "echo", InputSchema: json.RawMessage(`{"type":"object"}`)},
		func(ctx context.Context, req *mcp.CallToolRequest) (*mcp.CallToolResult, error) {
			return &mcp.CallToolResult{Content: []mcp.Content{&mcp.TextContent{Text: "ok"}}}, nil
		})
	e.srv.AddTool(&mcp.Tool{Name: "gate", InputSchema: json.RawMessage(`{"type":"object"}`)},
		func(ctx context.Context, req *mcp.CallToolRequest) (*mcp.CallToolResult, error) {
			var a struct {
				Tag string `json:"tag"`
			}
			json.Unmarshal(req.Params.Arguments, &a)
			e.gmu.Lock()
			e.started = append(e.started, a.Tag)
			if pos, ok := e.posOf[a.Tag]; ok {
				e.handled = append(e.handled, pos)
			}
			e.gmu.Unlock()
			select {
			case <-e.gate(a.Tag):
			case <-ctx.Done():
			}
			return &mcp.CallToolResult{Content: []mcp.Content{&mcp.TextContent{Text: a.Tag}}}, nil
		})
	inR, inW := io.Pipe()   // peer -> server
	outR, outW := io.Pipe() // server -> peer
	e.peer = &c02Peer{w: inW}
	go func() {
		sc := bufio.NewScanner(outR)
		sc.Buffer(make([]byte, 1<<16), 1<<24)
		for sc.Scan() {
			e.peer.mu.Lock()
			e.peer.lines = append(e.peer.lines, sc.Text())
			e.peer.mu.Unlock()
		}
	}()
	e.hold = &c02HoldWriter{w: outW}
	ss, err := e.srv.Connect(context.Background(), &mcp.IOTransport{Reader: inR, Writer: e.hold}, nil)
	if err != nil {
		t.Fatal(err)
	}
	e.cleanup = func() {
		e.hold.release()
		inW.Close()
		synctest.Wait()
		ss.Close()
		outW.Close()
		outR.Close()
		synctest.Wait()
	}
	e.peer.send(`{"jsonrpc":"2.0","id":"init","method":"initialize","params":{"protocolVersion":"` + era + `","capabilities":{},"clientInfo":{"name":"p","version":"1"}}}`)
	synctest.Wait()
	e.peer.send(`{"jsonrpc":"2.0","method":"notifications/initialized","params":{}}`)
	synctest.Wait()
	if got := e.peer.take(); len(got) != 1 || !strings.Contains(got[0], `"id":"init"`) {
		t.Fatalf("handshake failed: %v", got)
	}
	return e
}

func (e *c02Env) alive() bool {
	e.peer.send(`{"jsonrpc":"2.0","id":"alive-probe","method":"ping"}`)
	synctest.Wait()
	for _, l := range e.peer.take() {
		if strings.Contains(l, `"id":"alive-probe"`) && !strings.Contains(l, `"error"`) {
			return true
		}
	}
	return false
}

func c02Shape(t *testing.T, r *rand.Rand, c c02Case) (o c02Obs) {
	o.Case = c
	defer func() {
		if p := recover(); p != nil {
			o.Panic = fmt.Sprint(p)
		}
	}()
	synctest.Test(t, func(t *testing.T) {
		e := c02Setup(t, c.Era)
		defer e.cleanup()
		method := c.Method
		switch c.Method {
		case "unknown":
			method = []string{"foo/bar", "tools/lst", "Tools/List", "rpc.discover"}[r.IntN(4)]
		case "notifonly":
			method = []string{"notifications/progress", "notifications/roots/list_changed"}[r.IntN(2)]
		}
		idPart := ""
		if c.HasID {
			o.IDTok = c02IDToken(r, c.Idc)
			idPart = `"id":` + o.IDTok + `,`
		}
		o.Sent = `{"jsonrpc":"2.0",` + idPart + `"method":"` + method + `"` + c02Params(method, c.Params) + `}`
		e.peer.send(o.Sent)
		synctest.Wait()
		time.Sleep(time.Second)
		synctest.Wait()
		lines := e.peer.take()
		o.Lines = len(lines)
		first := true
		for _, l := range lines {
			m := c02IDRe.FindStringSubmatch(l)
			if m != nil && c.HasID && m[1] == o.IDTok {
				o.Count++
				if first {
					first = false
					if cm := c02CodeRe.FindStringSubmatch(l); cm != nil {
						o.Code, _ = strconv.Atoi(cm[1])
					}
					o.IsErrRes = strings.Contains(l, `"isError":true`)
				}
			} else {
				o.OtherResp++
			}
		}
		o.Alive = e.alive()
	})
	return o
}

func c02Batch(t *testing.T, r *rand.Rand, c c02Case) (o c02Obs) {
	o.Case = c
	o.Flushes = []c02Flush{}
	defer func() {
		if p := recover(); p != nil {
			o.Panic = fmt.Sprint(p)
		}
	}()
	synctest.Test(t, func(t *testing.T) {
		e := c02Setup(t, c.Era)
		defer e.cleanup()
		var parts []string
		callIdx := 0
		callIDs := map[int]string{} // call member number (1-based among calls) -> id token
		e.gmu.Lock()
		e.posOf = map[string]int{}
		e.gmu.Unlock()
		for i, m := range c.Members {
			switch m {
			case "call":
				callIdx++
				id := strconv.Itoa(100 + i)
				callIDs[callIdx] = id
				e.gmu.Lock()
				e.posOf[fmt.Sprintf("g%d", callIdx)] = i + 1
				e.gmu.Unlock()
				parts = append(parts, fmt.Sprintf(`{"jsonrpc":"2.0","id":%s,"method":"tools/call","params":{"name":"gate","arguments":{"tag":"g%d"}}}`, id, callIdx))
			case "unk":
				callIdx++
				id := strconv.Itoa(100 + i)
				callIDs[callIdx] = id
				parts = append(parts, fmt.Sprintf(`{"jsonrpc":"2.0","id":%s,"method":"no/such"}`, id))
			case "notif":
				parts = append(parts, fmt.Sprintf(`{"jsonrpc":"2.0","method":"notifications/progress","params":{"progressToken":"t","progress":%d}}`, i+1))
			}
		}
		o.Sent = "[" + strings.Join(parts, ",") + "]"
		if c.Reuse == "received" {
			e.hold.arm() // the Write of this batch's reply delivers the bytes and then does not return until released
		}
		e.peer.send(o.Sent)
		synctest.Wait()
		answered := 0
		// calls to unknown methods are answered by the server at once
		for _, m := range c.Members {
			if m == "unk" {
				answered++
			}
		}
		ncalls := callIdx
		collect := func() {
			for _, l := range e.peer.take() {
				l = strings.TrimSpace(l)
				if strings.HasPrefix(l, "[") {
					var arr []json.RawMessage
					json.Unmarshal([]byte(l), &arr)
					f := c02Flush{After: answered, IDs: []string{}}
					for _, a := range arr {
						if m := c02IDRe.FindStringSubmatch(string(a)); m != nil {
							f.IDs = append(f.IDs, m[1])
						}
					}
					o.Flushes = append(o.Flushes, f)
					if answered < ncalls {
						o.Premature = true
					}
				} else if l != "" {
					o.Singles++
				}
			}
		}
		collect()
		// release the gated calls in the requested order
		k := 0
		for ci := 1; ci <= callIdx; ci++ {
			_ = ci
		}
		gated := []int{}
		ci := 0
		for _, m := range c.Members {
			if m == "call" || m == "unk" {
				ci++
				if m == "call" {
					gated = append(gated, ci)
				}
			}
		}
		for _, pos := range c.Order {
			if pos-1 < len(gated) {
				if len(o.Flushes) > 0 {
					// a reply array although calls are still unanswered (judged by BatchReplyWhenAllAnswered): the
					// timing of the re-use is moot, and further writes must not queue up behind the held one
					e.hold.release()
				}
				close(e.gate(fmt.Sprintf("g%d", gated[pos-1])))
				answered++
				k++
				synctest.Wait()
				collect()
			}
		}
		if !e.hold.isHolding() {
			time.Sleep(time.Second)
			synctest.Wait()
		}
		collect()
		o.Count = ncalls
		e.gmu.Lock()
		o.Handled = append([]int{}, e.handled...)
		e.gmu.Unlock()
		// once the batch is complete its ids are free again: a second batch re-using the id that was answered LAST
		// (and a single call re-using the first one) must be answered like any other
		o.ReuseOK = true
		if len(o.Flushes) == 1 && len(o.Flushes[0].IDs) > 0 && !o.Premature {
			ids := o.Flushes[0].IDs
			last := ids[len(ids)-1]
			if len(c.Order) > 0 && c.Order[len(c.Order)-1]-1 < len(gated) {
				last = callIDs[gated[c.Order[len(c.Order)-1]-1]]
			}
			e.peer.take()
			if e.hold.isHolding() {
				// The peer holds the reply, so the ids are its to use again, while the server is still inside the
				// Write of that reply.  The next batch re-uses the id answered last, for a call whose handler waits
				// (nothing is written while the Write is held); then the Write returns and the handler is let go.
				o.ReuseHeld = true
				e.gmu.Lock()
				e.posOf = map[string]int{}
				e.gmu.Unlock()
				e.peer.send(fmt.Sprintf(`[{"jsonrpc":"2.0","id":%s,"method":"tools/call","params":{"name":"gate","arguments":{"tag":"reuse"}}}]`, last))
				synctest.Wait()
				e.hold.release()
				synctest.Wait()
				close(e.gate("reuse"))
				synctest.Wait()
			} else {
				e.hold.release()
				e.peer.send(fmt.Sprintf(`[{"jsonrpc":"2.0","id":%s,"method":"no/such"}]`, last))
				synctest.Wait()
			}
			if got := strings.Join(e.peer.take(), "\n"); !strings.Contains(got, `"id":`+last) {
				o.ReuseOK = false
			}
			first := ids[0]
			e.peer.send(fmt.Sprintf(`{"jsonrpc":"2.0","id":%s,"method":"no/such"}`, first))
			synctest.Wait()
			if got := strings.Join(e.peer.take(), "\n"); !strings.Contains(got, `"id":`+first) {
				o.ReuseOK = false
			}
		}
		e.hold.release()
		synctest.Wait()
		o.Alive = e.alive()
	})
	return o
}

// ---------------------------------------------------------------- reply framing (C01): the SDK's own calls

type c02Wire struct {
	ID     json.RawMessage `json:"id"`
	Method string          `json:"method"`
	Params json.RawMessage `json:"params"`
}

// c02Messages splits one output line of the SDK into its messages (a line is a single message or an array).
func c02Messages(line string) []c02Wire {
	line = strings.TrimSpace(line)
	if strings.HasPrefix(line, "[") {
		var arr []c02Wire
		json.Unmarshal([]byte(line), &arr)
		return arr
	}
	var m c02Wire
	if json.Unmarshal([]byte(line), &m) != nil {
		return nil
	}
	return []c02Wire{m}
}

type c02CallResult struct {
	done bool
	text string // payload of a result
	code int    // wire error: code and message
	msg  string
	err  string // any other error
}

// c02Framing: a real ClientSession (side "client") or ServerSession (side "server", 2025-03-26) has c.NCalls calls
// outstanding; the raw peer answers each of them, with the framing of the case.  Nothing is cancelled or closed, no
// deadline is set: a call that has not returned at quiescence after the last frame is reported as "blocked".
func c02Framing(t *testing.T, r *rand.Rand, c c02Case) (o c02Obs) {
	o.Case = c
	o.Outcome = make([]string, c.NCalls)
	o.DoneAfter = [][]int{}
	defer func() {
		if p := recover(); p != nil {
			o.Panic = fmt.Sprint(p)
		}
	}()
	nonce := r.IntN(1 << 20)
	isErr := make([]bool, c.NCalls+2) // the peer answers call k with an error object instead of a result
	for k := 1; k <= c.NCalls; k++ {
		isErr[k] = r.IntN(4) == 0
	}
	own := func(k int) string { return fmt.Sprintf("own-%d-%d", k, nonce) }
	synctest.Test(t, func(t *testing.T) {
		inR, inW := io.Pipe()   // peer -> SDK
		outR, outW := io.Pipe() // SDK -> peer
		peer := &c02Peer{w: inW}
		go func() {
			sc := bufio.NewScanner(outR)
			sc.Buffer(make([]byte, 1<<16), 1<<24)
			for sc.Scan() {
				peer.mu.Lock()
				peer.lines = append(peer.lines, sc.Text())
				peer.mu.Unlock()
			}
		}()
		// send: false when the SDK did not take the bytes (it has stopped reading)
		send := func(line string) bool {
			sent := make(chan struct{})
			go func() { inW.Write([]byte(line + "\n")); close(sent) }()
			synctest.Wait()
			select {
			case <-sent:
				return true
			default:
				return false
			}
		}
		var mu sync.Mutex
		notifs := 0
		results := make([]c02CallResult, c.NCalls+2) // [NCalls+1] = the probe after the frames
		var wg sync.WaitGroup
		var issue func(k int) // starts call k in its own goroutine
		var closeSession func()
		ctx := context.Background()
		record := func(k int, text string, err error) {
			res := c02CallResult{done: true, text: text}
			if err != nil {
				var we *jsonrpc.Error
				if errors.As(err, &we) {
					res.code, res.msg = int(we.Code), we.Message
				} else {
					res.err = err.Error()
				}
			}
			mu.Lock()
			results[k] = res
			mu.Unlock()
		}
		var callMethod string
		keyOf := func(m c02Wire) int { return 0 }
		if c.Side == "client" {
			callMethod = "tools/call"
			client := mcp.NewClient(&mcp.Implementation{Name: "c", Version: "1"}, &mcp.ClientOptions{
				ProgressNotificationHandler: func(context.Context, *mcp.ProgressNotificationClientRequest) {
					mu.Lock()
					notifs++
					mu.Unlock()
				},
			})
			type conn struct {
				cs  *mcp.ClientSession
				err error
			}
			connected := make(chan conn, 1)
			go func() {
				cs, err := client.Connect(ctx, &mcp.IOTransport{Reader: inR, Writer: outW}, &mcp.ClientSessionOptions{ProtocolVersion: "2025-03-26"})
				connected <- conn{cs, err}
			}()
			synctest.Wait()
			var initID string
			for _, l := range peer.take() {
				for _, m := range c02Messages(l) {
					if m.Method == "initialize" {
						initID = string(m.ID)
					}
				}
			}
			if initID == "" {
				t.Fatal("framing/client: no initialize request")
			}
			send(`{"jsonrpc":"2.0","id":` + initID + `,"result":{"protocolVersion":"2025-03-26","capabilities":{"tools":{}},"serverInfo":{"name":"p","version":"1"}}}`)
			synctest.Wait()
			var cn conn
			select {
			case cn = <-connected:
			default:
				t.Fatal("framing/client: Connect did not return")
			}
			if cn.err != nil {
				t.Fatalf("framing/client: Connect: %v", cn.err)
			}
			peer.take()
			cs := cn.cs
			issue = func(k int) {
				wg.Add(1)
				go func() {
					defer wg.Done()
					res, err := cs.CallTool(ctx, &mcp.CallToolParams{Name: fmt.Sprintf("t%d", k)})
					text := ""
					if err == nil && res != nil && len(res.Content) == 1 {
						if tc, ok := res.Content[0].(*mcp.TextContent); ok {
							text = tc.Text
						}
					}
					record(k, text, err)
				}()
			}
			keyOf = func(m c02Wire) int {
				var p struct {
					Name string `json:"name"`
				}
				json.Unmarshal(m.Params, &p)
				k, _ := strconv.Atoi(strings.TrimPrefix(p.Name, "t"))
				return k
			}
			closeSession = func() { cs.Close() }
		} else {
			callMethod = "roots/list"
			srv := mcp.NewServer(&mcp.Implementation{Name: "s", Version: "1"}, &mcp.ServerOptions{
				ProgressNotificationHandler: func(context.Context, *mcp.ProgressNotificationServerRequest) {
					mu.Lock()
					notifs++
					mu.Unlock()
				},
			})
			ss, err := srv.Connect(ctx, &mcp.IOTransport{Reader: inR, Writer: outW}, nil)
			if err != nil {
				t.Fatal(err)
			}
			send(`{"jsonrpc":"2.0","id":"init","method":"initialize","params":{"protocolVersion":"2025-03-26","capabilities":{"roots":{"listChanged":true},"sampling":{},"elicitation":{}},"clientInfo":{"name":"p","version":"1"}}}`)
			send(`{"jsonrpc":"2.0","method":"notifications/initialized","params":{}}`)
			if got := peer.take(); len(got) != 1 || !strings.Contains(got[0], `"id":"init"`) {
				t.Fatalf("framing/server: handshake failed: %v", got)
			}
			issue = func(k int) {
				wg.Add(1)
				go func() {
					defer wg.Done()
					res, err := ss.ListRoots(ctx, &mcp.ListRootsParams{Meta: mcp.Meta{"k": k}})
					text := ""
					if err == nil && res != nil && len(res.Roots) == 1 {
						text = res.Roots[0].Name
					}
					record(k, text, err)
				}()
			}
			keyOf = func(m c02Wire) int {
				var p struct {
					Meta struct {
						K int `json:"k"`
					} `json:"_meta"`
				}
				json.Unmarshal(m.Params, &p)
				return p.Meta.K
			}
			closeSession = func() { ss.Close() }
		}
		defer func() {
			inW.Close()
			synctest.Wait()
			closeSession()
			outW.Close()
			outR.Close()
			wg.Wait()
			synctest.Wait()
		}()

		// the calls go out; the peer learns which id belongs to which call
		ids := map[int]string{}
		learn := func() {
			for _, l := range peer.take() {
				for _, m := range c02Messages(l) {
					if m.Method == callMethod && len(m.ID) > 0 {
						ids[keyOf(m)] = string(m.ID)
					}
				}
			}
		}
		for k := 1; k <= c.NCalls; k++ {
			issue(k)
		}
		synctest.Wait()
		learn()
		for k := 1; k <= c.NCalls; k++ {
			if ids[k] == "" {
				t.Fatalf("framing/%s: call %d was not sent", c.Side, k)
			}
		}
		response := func(k int) string {
			if isErr[k] {
				return fmt.Sprintf(`{"jsonrpc":"2.0","id":%s,"error":{"code":%d,"message":%q}}`, ids[k], -32050-k, own(k))
			}
			if c.Side == "client" {
				return fmt.Sprintf(`{"jsonrpc":"2.0","id":%s,"result":{"content":[{"type":"text","text":%q}]}}`, ids[k], own(k))
			}
			return fmt.Sprintf(`{"jsonrpc":"2.0","id":%s,"result":{"roots":[{"uri":"file:///%s","name":%q}]}}`, ids[k], own(k), own(k))
		}
		const qID = `"peer-q"`
		doneSet := func() []int {
			out := []int{}
			mu.Lock()
			defer mu.Unlock()
			for k := 1; k <= c.NCalls; k++ {
				if results[k].done {
					out = append(out, k)
				}
			}
			return out
		}
		var sentLines []string
		for _, f := range c.Frames {
			var parts []string
			for _, it := range f.Items {
				switch it {
				case "n":
					parts = append(parts, `{"jsonrpc":"2.0","method":"notifications/progress","params":{"progressToken":"t","progress":1}}`)
				case "q":
					parts = append(parts, `{"jsonrpc":"2.0","id":`+qID+`,"method":"ping"}`)
				default:
					k, _ := strconv.Atoi(strings.TrimPrefix(it, "r"))
					parts = append(parts, response(k))
				}
			}
			line := parts[0]
			if f.Arr {
				line = "[" + strings.Join(parts, ",") + "]"
			}
			sentLines = append(sentLines, line)
			if !send(line) {
				o.Detail = "the SDK no longer reads; "
			}
			synctest.Wait()
			o.DoneAfter = append(o.DoneAfter, doneSet())
		}
		o.Sent = strings.Join(sentLines, "\n")
		time.Sleep(time.Second)
		synctest.Wait()
		// what the SDK wrote meanwhile: responses to the peer's call, and nothing else with an id
		for _, l := range peer.take() {
			for _, m := range c02Messages(l) {
				if m.Method == "" && len(m.ID) > 0 {
					if string(m.ID) == qID {
						o.QAnswers++
					} else {
						o.QOther++
					}
				}
			}
		}
		mu.Lock()
		o.Notifs = notifs
		for k := 1; k <= c.NCalls; k++ {
			res := results[k]
			switch {
			case !res.done:
				o.Outcome[k-1] = "blocked"
			case res.err != "":
				o.Outcome[k-1] = "failed"
				o.Detail += fmt.Sprintf("call %d: %s; ", k, res.err)
			case isErr[k] && res.code == -32050-k && res.msg == own(k), !isErr[k] && res.code == 0 && res.text == own(k):
				o.Outcome[k-1] = "own"
			default:
				o.Outcome[k-1] = "other"
				o.Detail += fmt.Sprintf("call %d (sent %s, error=%v) got text=%q code=%d msg=%q; ", k, own(k), isErr[k], res.text, res.code, res.msg)
			}
		}
		mu.Unlock()
		// the session is still usable: one more call, answered bare
		probe := c.NCalls + 1
		isErr[probe] = false
		issue(probe)
		synctest.Wait()
		learn()
		if ids[probe] != "" && send(response(probe)) {
			synctest.Wait()
			mu.Lock()
			o.Alive = results[probe].done && results[probe].err == "" && results[probe].text == own(probe)
			mu.Unlock()
		}
	})
	return o
}

// ---------------------------------------------------------------- streamable HTTP (stateful), in process

// c02RespWriter records an HTTP exchange while its handler may still be running.
type c02RespWriter struct {
	mu    sync.Mutex
	hdr   http.Header
	code  int
	wrote bool
	body  bytes.Buffer
}

func (w *c02RespWriter) Header() http.Header { return w.hdr }
func (w *c02RespWriter) WriteHeader(code int) {
	w.mu.Lock()
	defer w.mu.Unlock()
	if !w.wrote {
		w.wrote, w.code = true, code
	}
}
func (w *c02RespWriter) Write(p []byte) (int, error) {
	w.mu.Lock()
	defer w.mu.Unlock()
	if !w.wrote {
		w.wrote, w.code = true, 200
	}
	return w.body.Write(p)
}
func (w *c02RespWriter) Flush() {}

// c02Rec is what an exchange looked like when it completed - or, for an exchange whose handler had not returned at
// quiescence after a bounded (virtual) wait, what had arrived by then (Hung).
type c02Rec struct {
	Code int
	Body *bytes.Buffer
	hdr  http.Header
	Hung bool
}

func (r *c02Rec) Header() http.Header { return r.hdr }

// c02Post runs one POST against the handler, inside a synctest bubble.  A handler that does not return is an
// observation (Hung), not a failure of the harness: its request context is cancelled afterwards so that it can unwind.
func c02Post(h http.Handler, sid, ver, body string) *c02Rec {
	ctx, cancel := context.WithCancel(context.Background())
	defer cancel()
	req := httptest.NewRequest("POST", "http://127.0.0.1/mcp", strings.NewReader(body)).WithContext(ctx)
	req.Header.Set("Content-Type", "application/json")
	req.Header.Set("Accept", "application/json, text/event-stream")
	if sid != "" {
		req.Header.Set("Mcp-Session-Id", sid)
	}
	if ver != "" && ver >= "2025-06-18" {
		req.Header.Set("Mcp-Protocol-Version", ver)
	}
	w := &c02RespWriter{hdr: http.Header{}}
	done := make(chan struct{})
	var pnc any
	go func() {
		defer close(done)
		defer func() { pnc = recover() }()
		h.ServeHTTP(w, req)
	}()
	finished := func() bool {
		synctest.Wait()
		select {
		case <-done:
			return true
		default:
			return false
		}
	}
	rec := &c02Rec{}
	if !finished() {
		time.Sleep(30 * time.Second)
		rec.Hung = !finished()
	}
	w.mu.Lock()
	rec.Code, rec.Body, rec.hdr = w.code, bytes.NewBuffer(append([]byte(nil), w.body.Bytes()...)), w.hdr.Clone()
	if !w.wrote && !rec.Hung {
		rec.Code = 200 // a handler that returns without writing has answered 200
	}
	w.mu.Unlock()
	if rec.Hung {
		cancel()
		synctest.Wait()
	}
	if pnc != nil {
		panic(pnc)
	}
	return rec
}

// c02Responses extracts the JSON-RPC messages of an HTTP response (JSON body, JSON array, or SSE data lines).
func c02Responses(rec *c02Rec) []string {
	var out []string
	add := func(raw string) {
		raw = strings.TrimSpace(raw)
		if strings.HasPrefix(raw, "[") {
			var arr []json.RawMessage
			if json.Unmarshal([]byte(raw), &arr) == nil {
				for _, a := range arr {
					out = append(out, string(a))
				}
				return
			}
		}
		if raw != "" {
			out = append(out, raw)
		}
	}
	if strings.HasPrefix(rec.Header().Get("Content-Type"), "text/event-stream") {
		for _, ln := range strings.Split(rec.Body.String(), "\n") {
			if d, ok := strings.CutPrefix(ln, "data:"); ok {
				add(d)
			}
		}
	} else if strings.HasPrefix(rec.Header().Get("Content-Type"), "application/json") {
		add(rec.Body.String())
	}
	return out
}

func c02HTTP(t *testing.T, r *rand.Rand, c c02Case) (o c02Obs) {
	o.Case = c
	defer func() {
		if p := recover(); p != nil {
			o.Panic = fmt.Sprint(p)
		}
	}()
	synctest.Test(t, func(t *testing.T) { c02HTTPRun(r, c, &o) })
	return o
}

func c02HTTPRun(r *rand.Rand, c c02Case, o *c02Obs) {
	srv := mcp.NewServer(&mcp.Implementation{Name: "s", Version: "1"}, nil)
	defer func() {
		// let the bubble end: close whatever session the handler created
		for ss := range srv.Sessions() {
			ss.Close()
		}
		synctest.Wait()
		time.Sleep(time.Hour)
		synctest.Wait()
	}()
	srv.AddTool(&mcp.Tool{Name: "echo", InputSchema: json.RawMessage(`{"type":"object"}`)},
		func(ctx context.Context, req *mcp.CallToolRequest) (*mcp.CallToolResult, error) {
			return &mcp.CallToolResult{Content: []mcp.Content{&mcp.TextContent{Text: "ok"}}}, nil
		})
	h := mcp.NewStreamableHTTPHandler(func(*http.Request) *mcp.Server { return srv }, &mcp.StreamableHTTPOptions{JSONResponse: c.JSON})
	rec := c02Post(h, "", "", `{"jsonrpc":"2.0","id":"init","method":"initialize","params":{"protocolVersion":"`+c.Era+`","capabilities":{},"clientInfo":{"name":"p","version":"1"}}}`)
	sid := rec.Header().Get("Mcp-Session-Id")
	if rec.Code != 200 || sid == "" {
		o.Panic = fmt.Sprintf("setup: initialize status %d", rec.Code)
		return
	}
	c02Post(h, sid, c.Era, `{"jsonrpc":"2.0","method":"notifications/initialized","params":{}}`)
	count := func(msgs []string, tok string) (n, other, code int) {
		for _, m := range msgs {
			mm := c02IDRe.FindStringSubmatch(m)
			if mm != nil && mm[1] == tok {
				n++
				if cm := c02CodeRe.FindStringSubmatch(m); cm != nil && n == 1 {
					code, _ = strconv.Atoi(cm[1])
				}
			} else {
				other++
			}
		}
		return
	}
	if c.T == "httpshape" {
		method := c.Method
		switch c.Method {
		case "unknown":
			method = []string{"foo/bar", "tools/lst"}[r.IntN(2)]
		case "notifonly":
			method = "notifications/progress"
		}
		idPart := ""
		if c.HasID {
			o.IDTok = c02IDToken(r, c.Idc)
			idPart = `"id":` + o.IDTok + `,`
		}
		o.Sent = `{"jsonrpc":"2.0",` + idPart + `"method":"` + method + `"` + c02Params(method, c.Params) + `}`
		rec := c02Post(h, sid, c.Era, o.Sent)
		o.Status, o.Hung = rec.Code, rec.Hung
		msgs := c02Responses(rec)
		o.Lines = len(msgs)
		if c.HasID {
			o.Count, o.OtherResp, o.Code = count(msgs, o.IDTok)
		} else {
			o.OtherResp = len(msgs)
		}
	} else { // httpbatch
		var parts, ids []string
		for i, m := range c.Members {
			id := strconv.Itoa(100 + i)
			switch m {
			case "call":
				ids = append(ids, id)
				parts = append(parts, `{"jsonrpc":"2.0","id":`+id+`,"method":"tools/call","params":{"name":"echo","arguments":{}}}`)
			case "unk":
				ids = append(ids, id)
				parts = append(parts, `{"jsonrpc":"2.0","id":`+id+`,"method":"no/such"}`)
			case "notif":
				parts = append(parts, `{"jsonrpc":"2.0","method":"notifications/progress","params":{"progressToken":"t","progress":1}}`)
			}
		}
		o.Sent = "[" + strings.Join(parts, ",") + "]"
		rec := c02Post(h, sid, c.Era, o.Sent)
		o.Status, o.Hung = rec.Code, rec.Hung
		msgs := c02Responses(rec)
		o.Lines = len(msgs)
		o.Count = len(ids)
		for _, id := range ids {
			if n, _, _ := count(msgs, id); n == 1 {
				o.Answered++
			}
		}
		o.ReuseOK = true
		if len(ids) > 0 {
			// every id of the completed batch may be used again
			for _, id := range ids {
				rec2 := c02Post(h, sid, c.Era, `{"jsonrpc":"2.0","id":`+id+`,"method":"ping"}`)
				o.ReuseStat = rec2.Code
				n, _, code := count(c02Responses(rec2), id)
				if rec2.Code != 200 || n != 1 || code != 0 {
					o.ReuseOK = false
					break
				}
			}
		}
	}
	// the session survives
	rec3 := c02Post(h, sid, c.Era, `{"jsonrpc":"2.0","id":"alive-probe","method":"ping"}`)
	n, _, code := count(c02Responses(rec3), `"alive-probe"`)
	o.Alive = rec3.Code == 200 && n == 1 && code == 0
}

func TestVerif_C02Wire(t *testing.T) {
	in, outp := os.Getenv("VERIF_IN"), os.Getenv("VERIF_OUT")
	if in == "" || outp == "" {
		t.Skip("VERIF_IN/VERIF_OUT not set")
	}
	seed, _ := strconv.ParseUint(os.Getenv("VERIF_SEED"), 10, 64)
	r := rand.New(rand.NewPCG(seed, 2))
	fin, err := os.Open(in)
	if err != nil {
		t.Fatal(err)
	}
	defer fin.Close()
	fout, err := os.Create(outp)
	if err != nil {
		t.Fatal(err)
	}
	defer fout.Close()
	w := bufio.NewWriterSize(fout, 1<<20)
	defer w.Flush()
	enc := json.NewEncoder(w)
	sc := bufio.NewScanner(fin)
	sc.Buffer(make([]byte, 1<<16), 1<<22)
	// progress marker: tells the runner which case was in flight if the SDK crashes the process
	prog, _ := os.Create(outp + ".progress")
	if prog != nil {
		defer prog.Close()
	}
	for sc.Scan() {
		var c c02Case
		if err := json.Unmarshal(sc.Bytes(), &c); err != nil {
			t.Fatalf("bad case: %v", err)
		}
		if prog != nil {
			prog.WriteAt(append(append([]byte{}, sc.Bytes()...), []byte("\n"+strings.Repeat(" ", 4096))...)[:4096], 0)
		}
		var o c02Obs
		switch c.T {
		case "batch":
			o = c02Batch(t, r, c)
		case "framing":
			o = c02Framing(t, r, c)
		case "httpshape", "httpbatch":
			o = c02HTTP(t, r, c)
		default:
			o = c02Shape(t, r, c)
		}
		if o.Flushes == nil {
			o.Flushes = []c02Flush{}
		}
		if o.Handled == nil {
			o.Handled = []int{}
		}
		if o.Case.Members == nil {
			o.Case.Members = []string{}
		}
		if o.Case.Order == nil {
			o.Case.Order = []int{}
		}
		if o.Case.Frames == nil {
			o.Case.Frames = []c02Frame{}
		}
		if o.Outcome == nil {
			o.Outcome = []string{}
		}
		if o.DoneAfter == nil {
			o.DoneAfter = [][]int{}
		}
		enc.Encode(o)
	}
}
