//go:build verif

// Byte-level harness for property C02 (request shapes, id echo, batches) on the
// newline-delimited JSON transport (IOTransport over io.Pipe = what stdio and the
// in-memory transport use).  Raw lines in, raw lines out, public API only.
//
//   VERIF_IN   ndjson cases enumerated by TLC (spec/Wire.tla):
//                {"t":"shape","era":..,"method":..,"hasId":..,"idc":..,"params":..}
//                {"t":"batch","members":["call","notif","unk"],"order":[2,1]}
//   VERIF_OUT  one observation line per case
package mcp_test

import (
	"bufio"
	"context"
	"encoding/json"
	"fmt"
	"io"
	"math/rand/v2"
	"net/http"
	"net/http/httptest"
	"os"
	"regexp"
	"strconv"
	"strings"
	"sync"
	"testing"
	"testing/synctest"
	"time"

	"github.com/modelcontextprotocol/go-sdk/mcp"
)

type c02Case struct {
	T       string   `json:"t"`
	Era     string   `json:"era"`
	Method  string   `json:"method"`
	HasID   bool     `json:"hasId"`
	Idc     string   `json:"idc"`
	Params  string   `json:"params"`
	Members []string `json:"members"`
	Order   []int    `json:"order"`
	JSON    bool     `json:"json"` // streamable HTTP: JSONResponse mode
}

type c02Obs struct {
	Case      c02Case `json:"c"`
	Sent      string  `json:"sent"`
	IDTok     string  `json:"idTok"`
	Count     int     `json:"count"`     // responses whose id token equals the sent token (textually)
	OtherResp int     `json:"otherResp"` // responses with any other id
	Code      int     `json:"code"`      // error code of the (first) matching response, 0 = result
	IsErrRes  bool    `json:"isErrRes"`  // result with isError=true (tool-level error)
	Alive     bool    `json:"alive"`     // a follow-up ping was answered
	Lines     int     `json:"lines"`
	// batches
	Flushes   []c02Flush `json:"flushes"`
	Singles   int        `json:"singles"` // responses written outside any array
	Premature bool       `json:"premature"`
	Handled   []int      `json:"handled"` // batch: member positions (1-based) in the order their handlers started (notifications, gated calls)
	Panic     string     `json:"panic"`
	// streamable HTTP
	Status    int  `json:"status"`    // HTTP status of the POST carrying the case
	Answered  int  `json:"answered"`  // batch: members with an id that got exactly one response with that id
	ReuseOK   bool `json:"reuseOk"`   // batch: a later single call re-using the first member's id was answered
	ReuseStat int  `json:"reuseStatus"`
}

type c02Flush struct {
	After int      `json:"after"` // number of call members answered (released) when the array appeared
	IDs   []string `json:"ids"`
}

type c02Peer struct {
	w     *io.PipeWriter
	mu    sync.Mutex
	lines []string
}

var c02IDRe = regexp.MustCompile(`"id":("(?:[^"\\]|\\.)*"|-?[0-9.eE+]+)`)
var c02CodeRe = regexp.MustCompile(`"error":\{"code":(-?[0-9]+)`)

func (p *c02Peer) send(s string) { p.w.Write([]byte(s + "\n")) }
func (p *c02Peer) take() []string {
	p.mu.Lock()
	defer p.mu.Unlock()
	out := p.lines
	p.lines = nil
	return out
}

func c02IDToken(r *rand.Rand, idc string) string {
	switch idc {
	case "small":
		return strconv.Itoa(1 + r.IntN(1000))
	case "zero":
		return "0"
	case "neg":
		return strconv.Itoa(-1 - r.IntN(1000))
	case "safemax":
		return "9007199254740991"
	case "pow53":
		return "9007199254740992"
	case "pow53p1":
		return "9007199254740993"
	case "negpow53m1":
		return "-9007199254740993"
	case "big":
		return "1234567890123456789"
	case "maxint64":
		return "9223372036854775807"
	case "minint64":
		return "-9223372036854775808"
	case "strempty":
		return `""`
	case "strnum":
		return `"42"`
	case "strascii":
		return fmt.Sprintf(`"req-%d"`, r.IntN(1000))
	case "strunicode":
		return `"ид-✓-𝄞"`
	case "strescape":
		return `"a\"b\\c\n"`
	}
	panic("idc " + idc)
}

func c02Params(method, pc string) string {
	switch pc {
	case "absent":
		return ""
	case "null":
		return `,"params":null`
	case "empty":
		return `,"params":{}`
	case "wrongtype":
		if method == "tools/call" {
			return `,"params":{"name":5}`
		}
		return `,"params":{"cursor":7,"_meta":3}`
	case "valid":
		switch method {
		case "tools/call":
			return `,"params":{"name":"echo","arguments":{}}`
		case "notifications/progress":
			return `,"params":{"progressToken":"t","progress":1}`
		}
		return `,"params":{}`
	}
	panic("params " + pc)
}

type c02Env struct {
	handled []int          // member positions in the order their handlers started
	posOf   map[string]int // gate tag -> member position
	peer    *c02Peer
	srv     *mcp.Server
	gates   map[string]chan struct{}
	gmu     sync.Mutex
	started []string
	cleanup func()
}

func (e *c02Env) gate(tag string) chan struct{} {
	e.gmu.Lock()
	defer e.gmu.Unlock()
	ch, ok := e.gates[tag]
	if !ok {
		ch = make(chan struct{})
		e.gates[tag] = ch
	}
	return ch
}

func c02Setup(t *testing.T, era string) *c02Env {
	e := &c02Env{gates: map[string]chan struct{}{}}
	e.srv = mcp.NewServer(&mcp.Implementation{Name: "s", Version: "1"}, &mcp.ServerOptions{
		ProgressNotificationHandler: func(ctx context.Context, req *mcp.ProgressNotificationServerRequest) {
			e.gmu.Lock()
			e.handled = append(e.handled, int(req.Params.Progress))
			e.gmu.Unlock()
		},
	})
	e.srv.AddTool(&mcp.Tool{Name: "echo", InputSchema: json.RawMessage(`{"type":"object"}`)},
		func(ctx context.Context, req *mcp.CallToolRequest) (*mcp.CallToolResult, error) {
			return &mcp.CallToolResult{Content: []mcp.Content{&mcp.TextContent{Text: "ok"}}}, nil
		})
	e.srv.AddTool(&mcp.Tool{Name: "gate", InputSchema: json.RawMessage(`{"type":"object"}`)},
		func(ctx context.Context, req *mcp.CallToolRequest) (*mcp.CallToolResult, error) {
			var a struct {
				Tag string `json:"tag"`
			}
			json.Unmarshal(req.Params.Arguments, &a)
			e.gmu.Lock()
			e.started = append(e.started, a.Tag)
			if pos, ok := e.posOf[a.Tag]; ok {
				e.handled = append(e.handled, pos)
			}
			e.gmu.Unlock()
			select {
			case <-e.gate(a.Tag):
			case <-ctx.Done():
			}
			return &mcp.CallToolResult{Content: []mcp.Content{&mcp.TextContent{Text: a.Tag}}}, nil
		})
	inR, inW := io.Pipe()   // peer -> server
	outR, outW := io.Pipe() // server -> peer
	e.peer = &c02Peer{w: inW}
	go func() {
		sc := bufio.NewScanner(outR)
		sc.Buffer(make([]byte, 1<<16), 1<<24)
		for sc.Scan() {
			e.peer.mu.Lock()
			e.peer.lines = append(e.peer.lines, sc.Text())
			e.peer.mu.Unlock()
		}
	}()
	ss, err := e.srv.Connect(context.Background(), &mcp.IOTransport{Reader: inR, Writer: outW}, nil)
	if err != nil {
		t.Fatal(err)
	}
	e.cleanup = func() {
		inW.Close()
		synctest.Wait()
		ss.Close()
		outW.Close()
		outR.Close()
		synctest.Wait()
	}
	e.peer.send(`{"jsonrpc":"2.0","id":"init","method":"initialize","params":{"protocolVersion":"` + era + `","capabilities":{},"clientInfo":{"name":"p","version":"1"}}}`)
	synctest.Wait()
	e.peer.send(`{"jsonrpc":"2.0","method":"notifications/initialized","params":{}}`)
	synctest.Wait()
	if got := e.peer.take(); len(got) != 1 || !strings.Contains(got[0], `"id":"init"`) {
		t.Fatalf("handshake failed: %v", got)
	}
	return e
}

func (e *c02Env) alive() bool {
	e.peer.send(`{"jsonrpc":"2.0","id":"alive-probe","method":"ping"}`)
	synctest.Wait()
	for _, l := range e.peer.take() {
		if strings.Contains(l, `"id":"alive-probe"`) && !strings.Contains(l, `"error"`) {
			return true
		}
	}
	return false
}

func c02Shape(t *testing.T, r *rand.Rand, c c02Case) (o c02Obs) {
	o.Case = c
	defer func() {
		if p := recover(); p != nil {
			o.Panic = fmt.Sprint(p)
		}
	}()
	synctest.Test(t, func(t *testing.T) {
		e := c02Setup(t, c.Era)
		defer e.cleanup()
		method := c.Method
		switch c.Method {
		case "unknown":
			method = []string{"foo/bar", "tools/lst", "Tools/List", "rpc.discover"}[r.IntN(4)]
		case "notifonly":
			method = []string{"notifications/progress", "notifications/roots/list_changed"}[r.IntN(2)]
		}
		idPart := ""
		if c.HasID {
			o.IDTok = c02IDToken(r, c.Idc)
			idPart = `"id":` + o.IDTok + `,`
		}
		o.Sent = `{"jsonrpc":"2.0",` + idPart + `"method":"` + method + `"` + c02Params(method, c.Params) + `}`
		e.peer.send(o.Sent)
		synctest.Wait()
		time.Sleep(time.Second)
		synctest.Wait()
		lines := e.peer.take()
		o.Lines = len(lines)
		first := true
		for _, l := range lines {
			m := c02IDRe.FindStringSubmatch(l)
			if m != nil && c.HasID && m[1] == o.IDTok {
				o.Count++
				if first {
					first = false
					if cm := c02CodeRe.FindStringSubmatch(l); cm != nil {
						o.Code, _ = strconv.Atoi(cm[1])
					}
					o.IsErrRes = strings.Contains(l, `"isError":true`)
				}
			} else {
				o.OtherResp++
			}
		}
		o.Alive = e.alive()
	})
	return o
}

func c02Batch(t *testing.T, r *rand.Rand, c c02Case) (o c02Obs) {
	o.Case = c
	o.Flushes = []c02Flush{}
	defer func() {
		if p := recover(); p != nil {
			o.Panic = fmt.Sprint(p)
		}
	}()
	synctest.Test(t, func(t *testing.T) {
		e := c02Setup(t, c.Era)
		defer e.cleanup()
		var parts []string
		callIdx := 0
		callIDs := map[int]string{} // call member number (1-based among calls) -> id token
		e.gmu.Lock()
		e.posOf = map[string]int{}
		e.gmu.Unlock()
		for i, m := range c.Members {
			switch m {
			case "call":
				callIdx++
				id := strconv.Itoa(100 + i)
				callIDs[callIdx] = id
				e.gmu.Lock()
				e.posOf[fmt.Sprintf("g%d", callIdx)] = i + 1
				e.gmu.Unlock()
				parts = append(parts, fmt.Sprintf(`{"jsonrpc":"2.0","id":%s,"method":"tools/call","params":{"name":"gate","arguments":{"tag":"g%d"}}}`, id, callIdx))
			case "unk":
				callIdx++
				id := strconv.Itoa(100 + i)
				callIDs[callIdx] = id
				parts = append(parts, fmt.Sprintf(`{"jsonrpc":"2.0","id":%s,"method":"no/such"}`, id))
			case "notif":
				parts = append(parts, fmt.Sprintf(`{"jsonrpc":"2.0","method":"notifications/progress","params":{"progressToken":"t","progress":%d}}`, i+1))
			}
		}
		o.Sent = "[" + strings.Join(parts, ",") + "]"
		e.peer.send(o.Sent)
		synctest.Wait()
		answered := 0
		// calls to unknown methods are answered by the server at once
		for _, m := range c.Members {
			if m == "unk" {
				answered++
			}
		}
		ncalls := callIdx
		collect := func() {
			for _, l := range e.peer.take() {
				l = strings.TrimSpace(l)
				if strings.HasPrefix(l, "[") {
					var arr []json.RawMessage
					json.Unmarshal([]byte(l), &arr)
					f := c02Flush{After: answered, IDs: []string{}}
					for _, a := range arr {
						if m := c02IDRe.FindStringSubmatch(string(a)); m != nil {
							f.IDs = append(f.IDs, m[1])
						}
					}
					o.Flushes = append(o.Flushes, f)
					if answered < ncalls {
						o.Premature = true
					}
				} else if l != "" {
					o.Singles++
				}
			}
		}
		collect()
		// release the gated calls in the requested order
		k := 0
		for ci := 1; ci <= callIdx; ci++ {
			_ = ci
		}
		gated := []int{}
		ci := 0
		for _, m := range c.Members {
			if m == "call" || m == "unk" {
				ci++
				if m == "call" {
					gated = append(gated, ci)
				}
			}
		}
		for _, pos := range c.Order {
			if pos-1 < len(gated) {
				close(e.gate(fmt.Sprintf("g%d", gated[pos-1])))
				answered++
				k++
				synctest.Wait()
				collect()
			}
		}
		time.Sleep(time.Second)
		synctest.Wait()
		collect()
		o.Count = ncalls
		e.gmu.Lock()
		o.Handled = append([]int{}, e.handled...)
		e.gmu.Unlock()
		// once the batch is complete its ids are free again: a second batch re-using the id that was answered LAST
		// (and a single call re-using the first one) must be answered like any other
		o.ReuseOK = true
		if len(o.Flushes) == 1 && len(o.Flushes[0].IDs) > 0 && !o.Premature {
			ids := o.Flushes[0].IDs
			last := ids[len(ids)-1]
			if len(c.Order) > 0 && c.Order[len(c.Order)-1]-1 < len(gated) {
				last = callIDs[gated[c.Order[len(c.Order)-1]-1]]
			}
			e.peer.take()
			e.peer.send(fmt.Sprintf(`[{"jsonrpc":"2.0","id":%s,"method":"no/such"}]`, last))
			synctest.Wait()
			if got := strings.Join(e.peer.take(), "\n"); !strings.Contains(got, `"id":`+last) {
				o.ReuseOK = false
			}
			first := ids[0]
			e.peer.send(fmt.Sprintf(`{"jsonrpc":"2.0","id":%s,"method":"no/such"}`, first))
			synctest.Wait()
			if got := strings.Join(e.peer.take(), "\n"); !strings.Contains(got, `"id":`+first) {
				o.ReuseOK = false
			}
		}
		o.Alive = e.alive()
	})
	return o
}

// ---------------------------------------------------------------- streamable HTTP (stateful), in process

func c02Post(h http.Handler, sid, ver, body string) *httptest.ResponseRecorder {
	req := httptest.NewRequest("POST", "http://127.0.0.1/mcp", strings.NewReader(body))
	req.Header.Set("Content-Type", "application/json")
	req.Header.Set("Accept", "application/json, text/event-stream")
	if sid != "" {
		req.Header.Set("Mcp-Session-Id", sid)
	}
	if ver != "" && ver >= "2025-06-18" {
		req.Header.Set("Mcp-Protocol-Version", ver)
	}
	rec := httptest.NewRecorder()
	h.ServeHTTP(rec, req)
	return rec
}

// c02Responses extracts the JSON-RPC messages of an HTTP response (JSON body, JSON array, or SSE data lines).
func c02Responses(rec *httptest.ResponseRecorder) []string {
	var out []string
	add := func(raw string) {
		raw = strings.TrimSpace(raw)
		if strings.HasPrefix(raw, "[") {
			var arr []json.RawMessage
			if json.Unmarshal([]byte(raw), &arr) == nil {
				for _, a := range arr {
					out = append(out, string(a))
				}
				return
			}
		}
		if raw != "" {
			out = append(out, raw)
		}
	}
	if strings.HasPrefix(rec.Header().Get("Content-Type"), "text/event-stream") {
		for _, ln := range strings.Split(rec.Body.String(), "\n") {
			if d, ok := strings.CutPrefix(ln, "data:"); ok {
				add(d)
			}
		}
	} else if strings.HasPrefix(rec.Header().Get("Content-Type"), "application/json") {
		add(rec.Body.String())
	}
	return out
}

func c02HTTP(t *testing.T, r *rand.Rand, c c02Case) (o c02Obs) {
	o.Case = c
	defer func() {
		if p := recover(); p != nil {
			o.Panic = fmt.Sprint(p)
		}
	}()
	srv := mcp.NewServer(&mcp.Implementation{Name: "s", Version: "1"}, nil)
	srv.AddTool(&mcp.Tool{Name: "echo", InputSchema: json.RawMessage(`{"type":"object"}`)},
		func(ctx context.Context, req *mcp.CallToolRequest) (*mcp.CallToolResult, error) {
			return &mcp.CallToolResult{Content: []mcp.Content{&mcp.TextContent{Text: "ok"}}}, nil
		})
	h := mcp.NewStreamableHTTPHandler(func(*http.Request) *mcp.Server { return srv }, &mcp.StreamableHTTPOptions{JSONResponse: c.JSON})
	rec := c02Post(h, "", "", `{"jsonrpc":"2.0","id":"init","method":"initialize","params":{"protocolVersion":"`+c.Era+`","capabilities":{},"clientInfo":{"name":"p","version":"1"}}}`)
	sid := rec.Header().Get("Mcp-Session-Id")
	if rec.Code != 200 || sid == "" {
		o.Panic = fmt.Sprintf("setup: initialize status %d", rec.Code)
		return o
	}
	c02Post(h, sid, c.Era, `{"jsonrpc":"2.0","method":"notifications/initialized","params":{}}`)
	count := func(msgs []string, tok string) (n, other, code int) {
		for _, m := range msgs {
			mm := c02IDRe.FindStringSubmatch(m)
			if mm != nil && mm[1] == tok {
				n++
				if cm := c02CodeRe.FindStringSubmatch(m); cm != nil && n == 1 {
					code, _ = strconv.Atoi(cm[1])
				}
			} else {
				other++
			}
		}
		return
	}
	if c.T == "httpshape" {
		method := c.Method
		switch c.Method {
		case "unknown":
			method = []string{"foo/bar", "tools/lst"}[r.IntN(2)]
		case "notifonly":
			method = "notifications/progress"
		}
		idPart := ""
		if c.HasID {
			o.IDTok = c02IDToken(r, c.Idc)
			idPart = `"id":` + o.IDTok + `,`
		}
		o.Sent = `{"jsonrpc":"2.0",` + idPart + `"method":"` + method + `"` + c02Params(method, c.Params) + `}`
		rec := c02Post(h, sid, c.Era, o.Sent)
		o.Status = rec.Code
		msgs := c02Responses(rec)
		o.Lines = len(msgs)
		if c.HasID {
			o.Count, o.OtherResp, o.Code = count(msgs, o.IDTok)
		} else {
			o.OtherResp = len(msgs)
		}
	} else { // httpbatch
		var parts, ids []string
		for i, m := range c.Members {
			id := strconv.Itoa(100 + i)
			switch m {
			case "call":
				ids = append(ids, id)
				parts = append(parts, `{"jsonrpc":"2.0","id":`+id+`,"method":"tools/call","params":{"name":"echo","arguments":{}}}`)
			case "unk":
				ids = append(ids, id)
				parts = append(parts, `{"jsonrpc":"2.0","id":`+id+`,"method":"no/such"}`)
			case "notif":
				parts = append(parts, `{"jsonrpc":"2.0","method":"notifications/progress","params":{"progressToken":"t","progress":1}}`)
			}
		}
		o.Sent = "[" + strings.Join(parts, ",") + "]"
		rec := c02Post(h, sid, c.Era, o.Sent)
		o.Status = rec.Code
		msgs := c02Responses(rec)
		o.Lines = len(msgs)
		o.Count = len(ids)
		for _, id := range ids {
			if n, _, _ := count(msgs, id); n == 1 {
				o.Answered++
			}
		}
		o.ReuseOK = true
		if len(ids) > 0 {
			// every id of the completed batch may be used again
			for _, id := range ids {
				rec2 := c02Post(h, sid, c.Era, `{"jsonrpc":"2.0","id":`+id+`,"method":"ping"}`)
				o.ReuseStat = rec2.Code
				n, _, code := count(c02Responses(rec2), id)
				if rec2.Code != 200 || n != 1 || code != 0 {
					o.ReuseOK = false
					break
				}
			}
		}
	}
	// the session survives
	rec3 := c02Post(h, sid, c.Era, `{"jsonrpc":"2.0","id":"alive-probe","method":"ping"}`)
	n, _, code := count(c02Responses(rec3), `"alive-probe"`)
	o.Alive = rec3.Code == 200 && n == 1 && code == 0
	return o
}

func TestVerif_C02Wire(t *testing.T) {
	in, outp := os.Getenv("VERIF_IN"), os.Getenv("VERIF_OUT")
	if in == "" || outp == "" {
		t.Skip("VERIF_IN/VERIF_OUT not set")
	}
	seed, _ := strconv.ParseUint(os.Getenv("VERIF_SEED"), 10, 64)
	r := rand.New(rand.NewPCG(seed, 2))
	fin, err := os.Open(in)
	if err != nil {
		t.Fatal(err)
	}
	defer fin.Close()
	fout, err := os.Create(outp)
	if err != nil {
		t.Fatal(err)
	}
	defer fout.Close()
	w := bufio.NewWriterSize(fout, 1<<20)
	defer w.Flush()
	enc := json.NewEncoder(w)
	sc := bufio.NewScanner(fin)
	sc.Buffer(make([]byte, 1<<16), 1<<22)
	for sc.Scan() {
		var c c02Case
		if err := json.Unmarshal(sc.Bytes(), &c); err != nil {
			t.Fatalf("bad case: %v", err)
		}
		var o c02Obs
		switch c.T {
		case "batch":
			o = c02Batch(t, r, c)
		case "httpshape", "httpbatch":
			o = c02HTTP(t, r, c)
		default:
			o = c02Shape(t, r, c)
		}
		if o.Flushes == nil {
			o.Flushes = []c02Flush{}
		}
		if o.Handled == nil {
			o.Handled = []int{}
		}
		if o.Case.Members == nil {
			o.Case.Members = []string{}
		}
		if o.Case.Order == nil {
			o.Case.Order = []int{}
		}
		enc.Encode(o)
	}
}
