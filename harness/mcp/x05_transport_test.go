//go:build verif

// Extension check X05: the mcp.Connection / mcp.Transport contract (spec/TransportContract.tla).
//
// A scenario is a schedule of API-call BEGINS produced by TLC from TransportContract.tla (a path of the state
// graph projected onto WriteBegin / ReadBegin / CloseBegin / ProcessExit).  It is replayed on one duplex link made of
// two real Connections of one of the transports the SDK ships:
//
//	mem      NewInMemoryTransports                                   (class rdv)
//	iopipe   IOTransport over two io.Pipe pairs                       (class rdv)
//	logmem   LoggingTransport around both in-memory transports        (class rdv)
//	ospipe   IOTransport over two os.Pipe pairs                       (class buf)
//	stdio    StdioTransport, os.Stdin / os.Stdout swapped for pipes while Connect runs     (class stdio)
//	sse      SSEClientTransport <-> SSEServerTransport, HTTP served in process             (class sse)
//	stream   StreamableClientTransport <-> StreamableServerTransport with a session id     (class stream)
//	streamns the same, the server transport has no session id                              (class streamns)
//
// Every call runs in its own goroutine; its begin is logged (global sequence number) before the goroutine is
// started and its end right after the call has returned.  After a begin the harness waits until the SDK has settled
// (testing/synctest for the HTTP kinds; for the pipe kinds - where a second writer waits on a sync.Mutex, which a
// synctest bubble cannot see as blocked - real goroutines and a settle detector that reads the goroutine states from
// runtime.Stack), unless the step says `ns` (no settle: the next call races with this one).  The schedule ends with
// marker m1 (nothing added: whatever is still blocked is listed), then both ends are closed (and, for stdio, both
// processes "exit") and marker m2 lists what is still blocked and which goroutines of the transport are left.
//
// The log is judged by spec/TransportContractMon.tla (verdict) and must be explained, event by event, by
// spec/TransportContractTrace.tla (drift).
//
// HTTP is served in process: a RoundTripper runs the handler in a goroutine with a buffered, pipe-backed
// ResponseWriter; closing the response body cancels the request context.  The server side uses the bare
// SSEServerTransport / StreamableServerTransport (the Connection returned by Connect is what is tested) behind a few
// lines of glue that do what SSEHandler / StreamableHTTPHandler do around them: the hanging GET closes the connection
// when the request context ends; DELETE closes the connection; requests for a closed session get 404.
package mcp

import (
	"bufio"
	"bytes"
	"context"
	"encoding/json"
	"fmt"
	"io"
	"net/http"
	"os"
	"runtime"
	"sort"
	"strconv"
	"strings"
	"sync"
	"sync/atomic"
	"testing"
	"testing/synctest"
	"time"

	"github.com/modelcontextprotocol/go-sdk/internal/jsonrpc2"
	"github.com/modelcontextprotocol/go-sdk/jsonrpc"
)

// ---------------------------------------------------------------------------
// scenarios and the log

type x05Op struct {
	O  string `json:"o"`  // W | R | C | X
	E  string `json:"e"`  // A | B
	I  int    `json:"i"`  // writer / closer id
	K  string `json:"k"`  // message kind: n | orph
	NS bool   `json:"ns"` // do not wait for the SDK to settle after this begin
}

type x05Scenario struct {
	ID   string  `json:"id"`
	Kind string  `json:"kind"`
	Cls  string  `json:"cls"`
	Ops  []x05Op `json:"ops"`
}

type x05Ev struct {
	Ev    string   `json:"ev"` // reset | b | e | x | skip | mark
	Trace string   `json:"trace"`
	Kind  string   `json:"kind"`
	Cls   string   `json:"cls"`
	Op    string   `json:"op"`
	Ep    string   `json:"ep"`
	I     int      `json:"i"`
	K     string   `json:"k"`
	Res   string   `json:"res"` // ok | err | msg | panic
	Src   string   `json:"src"`
	W     int      `json:"w"`
	Seq   int      `json:"seq"`
	Name  string   `json:"name"`
	Pend  []x05Pend `json:"pend"`
	Leak  []string `json:"leak"`
	SidA  string   `json:"sida"`
	SidB  string   `json:"sidb"`
	Note  string   `json:"note"`
}

type x05Pend struct {
	Op string `json:"op"`
	Ep string `json:"ep"`
	I  int    `json:"i"`
}

type x05Log struct {
	mu  sync.Mutex
	seq int
	evs []x05Ev
	sc  *x05Scenario
}

func (l *x05Log) add(e x05Ev) {
	l.mu.Lock()
	l.seq++
	e.Seq, e.Trace, e.Kind, e.Cls = l.seq, l.sc.ID, l.sc.Kind, l.sc.Cls
	if e.Pend == nil {
		e.Pend = []x05Pend{}
	}
	if e.Leak == nil {
		e.Leak = []string{}
	}
	l.evs = append(l.evs, e)
	l.mu.Unlock()
}

// ---------------------------------------------------------------------------
// messages: a progress notification whose token names the message, or a response nobody asked for

func x05Msg(ep string, w int, kind string) jsonrpc.Message {
	tag := ep + strconv.Itoa(w)
	if kind == "orph" {
		return &jsonrpc.Response{ID: jsonrpc2.StringID("orph-" + tag), Result: json.RawMessage(`{}`)}
	}
	return &jsonrpc.Request{Method: "notifications/progress",
		Params: json.RawMessage(`{"progressToken":"` + tag + `","progress":1}`)}
}

func x05Tag(m jsonrpc.Message) (string, int) {
	tag := ""
	switch v := m.(type) {
	case *jsonrpc.Request:
		var p struct {
			T string `json:"progressToken"`
		}
		json.Unmarshal(v.Params, &p)
		tag = p.T
	case *jsonrpc.Response:
		s, _ := v.ID.Raw().(string)
		tag = strings.TrimPrefix(s, "orph-")
	}
	if len(tag) < 2 {
		return "?", 0
	}
	n, _ := strconv.Atoi(tag[1:])
	return tag[:1], n
}

// ---------------------------------------------------------------------------
// in-process HTTP

type x05Pipe struct {
	mu      sync.Mutex
	buf     []byte
	wclosed bool
	rclosed bool
	kick    chan struct{}
}

func newX05Pipe() *x05Pipe { return &x05Pipe{kick: make(chan struct{}, 1)} }
func (p *x05Pipe) poke() {
	select {
	case p.kick <- struct{}{}:
	default:
	}
}
func (p *x05Pipe) Write(b []byte) (int, error) {
	p.mu.Lock()
	if p.rclosed || p.wclosed {
		p.mu.Unlock()
		return 0, io.ErrClosedPipe
	}
	p.buf = append(p.buf, b...)
	p.mu.Unlock()
	p.poke()
	return len(b), nil
}
func (p *x05Pipe) Read(b []byte) (int, error) {
	for {
		p.mu.Lock()
		switch {
		case p.rclosed:
			p.mu.Unlock()
			return 0, io.ErrClosedPipe
		case len(p.buf) > 0:
			n := copy(b, p.buf)
			p.buf = p.buf[n:]
			p.mu.Unlock()
			return n, nil
		case p.wclosed:
			p.mu.Unlock()
			return 0, io.EOF
		}
		p.mu.Unlock()
		<-p.kick
	}
}
func (p *x05Pipe) closeWrite() { p.mu.Lock(); p.wclosed = true; p.mu.Unlock(); p.poke() }
func (p *x05Pipe) closeRead()  { p.mu.Lock(); p.rclosed = true; p.mu.Unlock(); p.poke() }

type x05RW struct {
	hdr   http.Header
	p     *x05Pipe
	once  sync.Once
	ready chan struct{}
	code  int
	snap  http.Header
	dead  atomic.Bool // ServeHTTP has returned
}

// net/http: "A ResponseWriter may not be used after Handler.ServeHTTP has returned" - the real server may crash; here it
// is a panic in the SDK call that does it (sse.go: "it is invalid to write to a ResponseWriter after ServeHTTP has exited")
func (w *x05RW) alive() {
	if w.dead.Load() {
		panic("x05: ResponseWriter used after ServeHTTP returned")
	}
}
func (w *x05RW) Header() http.Header { return w.hdr }
func (w *x05RW) WriteHeader(code int) {
	w.once.Do(func() { w.code, w.snap = code, w.hdr.Clone(); close(w.ready) })
}
func (w *x05RW) Write(b []byte) (int, error) { w.alive(); w.WriteHeader(http.StatusOK); return w.p.Write(b) }
func (w *x05RW) Flush()                      { w.alive(); w.WriteHeader(http.StatusOK) }

type x05Body struct {
	p      *x05Pipe
	cancel context.CancelFunc
}

func (b *x05Body) Read(p []byte) (int, error) { return b.p.Read(p) }
func (b *x05Body) Close() error               { b.cancel(); b.p.closeRead(); return nil }

type x05RT struct{ h http.Handler }

func (rt *x05RT) RoundTrip(req *http.Request) (*http.Response, error) {
	p := newX05Pipe()
	w := &x05RW{hdr: http.Header{}, p: p, ready: make(chan struct{})}
	sctx, cancel := context.WithCancel(context.Background())
	stop := context.AfterFunc(req.Context(), cancel)
	sreq := req.Clone(sctx)
	if sreq.Body == nil {
		sreq.Body = http.NoBody
	}
	sreq.RequestURI = req.URL.RequestURI()
	sreq.RemoteAddr = "192.0.2.1:1234"
	go func() {
		defer stop()
		rt.h.ServeHTTP(w, sreq)
		w.WriteHeader(http.StatusOK)
		w.dead.Store(true)
		p.closeWrite()
	}()
	select {
	case <-w.ready:
	case <-req.Context().Done():
		cancel()
		p.closeRead()
		return nil, req.Context().Err()
	}
	return &http.Response{Status: strconv.Itoa(w.code) + " " + http.StatusText(w.code), StatusCode: w.code,
		Proto: "HTTP/1.1", ProtoMajor: 1, ProtoMinor: 1, Header: w.snap,
		Body: &x05Body{p: p, cancel: cancel}, ContentLength: -1, Request: req}, nil
}

// what SSEHandler does around one SSEServerTransport
type x05SSEGlue struct {
	mu   sync.Mutex
	tr   *SSEServerTransport
	conn chan Connection
}

func (g *x05SSEGlue) ServeHTTP(w http.ResponseWriter, req *http.Request) {
	if req.Method == http.MethodPost {
		g.mu.Lock()
		tr := g.tr
		g.mu.Unlock()
		if tr == nil {
			http.Error(w, "session not found", http.StatusNotFound)
			return
		}
		tr.ServeHTTP(w, req)
		return
	}
	w.Header().Set("Content-Type", "text/event-stream")
	tr := &SSEServerTransport{Endpoint: "/sse?sessionid=x05", Response: w}
	conn, err := tr.Connect(req.Context())
	if err != nil {
		http.Error(w, "connection failed", http.StatusInternalServerError)
		return
	}
	g.mu.Lock()
	g.tr = tr
	g.mu.Unlock()
	defer func() { g.mu.Lock(); g.tr = nil; g.mu.Unlock() }()
	g.conn <- conn
	defer conn.Close() // SSEHandler: "close the transport when the GET exits"
	select {
	case <-req.Context().Done():
	case <-tr.done:
	}
}

// what StreamableHTTPHandler does around one StreamableServerTransport
type x05StreamGlue struct {
	mu   sync.Mutex
	gone bool
	tr   *StreamableServerTransport
	conn Connection
}

func (g *x05StreamGlue) ServeHTTP(w http.ResponseWriter, req *http.Request) {
	g.mu.Lock()
	gone := g.gone
	g.mu.Unlock()
	if gone {
		http.Error(w, "session not found", http.StatusNotFound)
		return
	}
	if req.Method == http.MethodDelete {
		g.conn.Close()
		g.setGone()
		w.WriteHeader(http.StatusNoContent)
		return
	}
	g.tr.ServeHTTP(w, req)
}
func (g *x05StreamGlue) setGone() { g.mu.Lock(); g.gone = true; g.mu.Unlock() }

// the server connection as the session table sees it: closing it removes the session
type x05GoneConn struct {
	Connection
	g *x05StreamGlue
}

func (c *x05GoneConn) Close() error { err := c.Connection.Close(); c.g.setGone(); return err }

// ---------------------------------------------------------------------------
// links

type x05Link struct {
	conn    map[string]Connection
	exit    map[string]func()
	cleanup func()
	settle  func()
	note    string
}

type x05SyncBuf struct {
	mu sync.Mutex
	b  bytes.Buffer
}

func (s *x05SyncBuf) Write(p []byte) (int, error) {
	s.mu.Lock()
	defer s.mu.Unlock()
	if s.b.Len() > 1<<16 {
		s.b.Reset()
	}
	return s.b.Write(p)
}

var x05StdMu sync.Mutex

func x05Build(kind string) (*x05Link, error) {
	ctx := context.Background()
	l := &x05Link{conn: map[string]Connection{}, exit: map[string]func(){}, cleanup: func() {}}
	connect := func(a, b Transport) error {
		ca, err := a.Connect(ctx)
		if err != nil {
			return err
		}
		cb, err := b.Connect(ctx)
		if err != nil {
			return err
		}
		l.conn["A"], l.conn["B"] = ca, cb
		return nil
	}
	switch kind {
	case "mem":
		t1, t2 := NewInMemoryTransports()
		return l, connect(t1, t2)
	case "logmem":
		t1, t2 := NewInMemoryTransports()
		return l, connect(&LoggingTransport{Transport: t1, Writer: &x05SyncBuf{}}, &LoggingTransport{Transport: t2, Writer: &x05SyncBuf{}})
	case "iopipe":
		r1, w1 := io.Pipe() // A -> B
		r2, w2 := io.Pipe() // B -> A
		return l, connect(&IOTransport{Reader: r2, Writer: w1}, &IOTransport{Reader: r1, Writer: w2})
	case "ospipe":
		r1, w1, err := os.Pipe()
		if err != nil {
			return nil, err
		}
		r2, w2, err := os.Pipe()
		if err != nil {
			return nil, err
		}
		l.cleanup = func() { r1.Close(); w1.Close(); r2.Close(); w2.Close() }
		return l, connect(&IOTransport{Reader: r2, Writer: w1}, &IOTransport{Reader: r1, Writer: w2})
	case "stdio":
		r1, w1, err := os.Pipe() // stdout of A -> stdin of B
		if err != nil {
			return nil, err
		}
		r2, w2, err := os.Pipe()
		if err != nil {
			return nil, err
		}
		x05StdMu.Lock()
		in, out := os.Stdin, os.Stdout
		os.Stdin, os.Stdout = r2, w1
		ca, _ := (&StdioTransport{}).Connect(ctx)
		os.Stdin, os.Stdout = r1, w2
		cb, _ := (&StdioTransport{}).Connect(ctx)
		os.Stdin, os.Stdout = in, out
		x05StdMu.Unlock()
		l.conn["A"], l.conn["B"] = ca, cb
		// the process exits: the operating system closes its descriptors
		l.exit["A"] = func() { w1.Close(); r2.Close() }
		l.exit["B"] = func() { w2.Close(); r1.Close() }
		l.cleanup = func() { r1.Close(); w1.Close(); r2.Close(); w2.Close() }
		return l, nil
	case "sse":
		g := &x05SSEGlue{conn: make(chan Connection, 1)}
		ct := &SSEClientTransport{Endpoint: "http://x05.test/sse", HTTPClient: &http.Client{Transport: &x05RT{h: g}}}
		ca, err := ct.Connect(ctx)
		if err != nil {
			return nil, err
		}
		l.conn["A"], l.conn["B"] = ca, <-g.conn
		return l, nil
	case "stream", "streamns":
		sid := "x05-session"
		if kind == "streamns" {
			sid = ""
		}
		g := &x05StreamGlue{tr: &StreamableServerTransport{SessionID: sid}}
		cb, err := g.tr.Connect(ctx)
		if err != nil {
			return nil, err
		}
		g.conn = cb
		ct := &StreamableClientTransport{Endpoint: "http://x05.test/mcp", HTTPClient: &http.Client{Transport: &x05RT{h: g}}}
		ca, err := ct.Connect(ctx)
		if err != nil {
			return nil, err
		}
		l.conn["A"], l.conn["B"] = ca, &x05GoneConn{Connection: cb, g: g}
		const pv = "2025-06-18"
		if kind == "stream" {
			// what a ClientSession does first: initialize, answered on the POST's stream with the session id
			init := &jsonrpc.Request{ID: jsonrpc2.Int64ID(1), Method: "initialize", Params: json.RawMessage(
				`{"protocolVersion":"` + pv + `","capabilities":{},"clientInfo":{"name":"x05","version":"1"}}`)}
			werr := make(chan error, 1)
			go func() { werr <- ca.Write(ctx, init) }()
			m, err := cb.Read(ctx)
			if err != nil {
				return nil, fmt.Errorf("preamble: server read: %v", err)
			}
			rq, ok := m.(*jsonrpc.Request)
			if !ok || rq.Method != "initialize" {
				return nil, fmt.Errorf("preamble: server read %T", m)
			}
			if err := cb.Write(ctx, &jsonrpc.Response{ID: rq.ID, Result: json.RawMessage(
				`{"protocolVersion":"` + pv + `","capabilities":{},"serverInfo":{"name":"x05","version":"1"}}`)}); err != nil {
				return nil, fmt.Errorf("preamble: server write: %v", err)
			}
			if err := <-werr; err != nil {
				return nil, fmt.Errorf("preamble: client write: %v", err)
			}
			if _, err := ca.Read(ctx); err != nil {
				return nil, fmt.Errorf("preamble: client read: %v", err)
			}
		}
		// ... then the session tells the connection, which opens the standalone GET stream
		ca.(*streamableClientConn).sessionUpdated(clientSessionState{InitializeResult: &InitializeResult{ProtocolVersion: pv}})
		return l, nil
	}
	return nil, fmt.Errorf("unknown kind %q", kind)
}

// ---------------------------------------------------------------------------
// settle detector for real goroutines: every goroutine that runs SDK / harness code (other than the caller) is
// blocked, twice in a row

var x05Blocked = []string{"chan receive", "chan send", "select", "sync.Mutex.Lock", "sync.RWMutex", "sync.Cond.Wait",
	"sync.WaitGroup.Wait", "semacquire", "IO wait", "sleep"}

type x05G struct {
	id      string
	state   string
	top     string
	created string
	blocked bool
}

func x05Goroutines() []x05G {
	buf := make([]byte, 1<<20)
	n := runtime.Stack(buf, true)
	var out []x05G
	for i, blk := range strings.Split(string(buf[:n]), "\n\n") {
		if i == 0 || !strings.Contains(blk, "go-sdk/") {
			continue
		}
		lines := strings.Split(blk, "\n")
		hdr := lines[0]
		lb, rb := strings.Index(hdr, "["), strings.LastIndex(hdr, "]")
		if !strings.HasPrefix(hdr, "goroutine ") || lb < 0 || rb < lb {
			continue
		}
		g := x05G{id: strings.TrimSpace(hdr[len("goroutine "):lb]), state: hdr[lb+1 : rb]}
		for _, s := range x05Blocked {
			if strings.HasPrefix(g.state, s) {
				g.blocked = true
			}
		}
		for _, ln := range lines[1:] {
			if g.top == "" && strings.Contains(ln, "go-sdk/") && !strings.HasPrefix(ln, "\t") {
				g.top = ln[strings.LastIndex(ln, "/")+1:]
				if k := strings.Index(g.top, "("); k > 0 {
					g.top = g.top[:k]
				}
			}
			if strings.HasPrefix(ln, "created by ") {
				g.created = strings.TrimPrefix(ln, "created by ")
				if k := strings.Index(g.created, " in goroutine"); k > 0 {
					g.created = g.created[:k]
				}
				g.created = g.created[strings.LastIndex(g.created, "/")+1:]
			}
		}
		out = append(out, g)
	}
	return out
}

func x05SettleReal() bool {
	deadline := time.Now().Add(3 * time.Second)
	stable := 0
	for spin := 0; ; spin++ {
		runtime.Gosched()
		busy := false
		for _, g := range x05Goroutines() {
			if !g.blocked {
				busy = true
				break
			}
		}
		if !busy {
			stable++
			if stable >= 2 {
				return true
			}
			continue
		}
		stable = 0
		if time.Now().After(deadline) {
			return false
		}
		if spin > 4 {
			time.Sleep(50 * time.Microsecond)
		}
	}
}

// ---------------------------------------------------------------------------
// running one scenario

type x05Run struct {
	sc      x05Scenario
	log     *x05Log
	link    *x05Link
	mu      sync.Mutex
	pending map[string]bool
	usedW   map[string]bool
	usedC   map[string]bool
	reading map[string]bool
	nread   map[string]int
	exited  map[string]bool
	closeOK map[string]bool // a Close call has returned at the endpoint
	wg      sync.WaitGroup
	calls   atomic.Int64
}

func (r *x05Run) key(op, ep string, i int) string { return ep + "." + op + strconv.Itoa(i) }

func (r *x05Run) begin(op x05Op) bool {
	conn := r.link.conn[op.E]
	if conn == nil {
		return false
	}
	ctx := context.Background()
	r.mu.Lock()
	if r.exited[op.E] { // an exited process makes no calls
		r.mu.Unlock()
		return false
	}
	switch op.O {
	case "W":
		k := r.key("W", op.E, op.I)
		if r.usedW[k] {
			r.mu.Unlock()
			return false
		}
		r.usedW[k] = true
	case "C":
		k := r.key("C", op.E, op.I)
		if r.usedC[k] {
			r.mu.Unlock()
			return false
		}
		r.usedC[k] = true
	case "R":
		if r.reading[op.E] {
			r.mu.Unlock()
			return false
		}
		r.reading[op.E] = true
		r.nread[op.E]++
		op.I = r.nread[op.E]
	case "X":
		busy := false // a process does not exit in the middle of a call
		for k := range r.pending {
			if strings.HasPrefix(k, op.E+".") {
				busy = true
			}
		}
		if r.link.exit[op.E] == nil || r.exited[op.E] || !r.closeOK[op.E] || busy {
			r.mu.Unlock()
			return false
		}
		r.exited[op.E] = true
		r.mu.Unlock()
		r.log.add(x05Ev{Ev: "x", Op: "X", Ep: op.E})
		r.link.exit[op.E]()
		return true
	default:
		r.mu.Unlock()
		return false
	}
	key := r.key(op.O, op.E, op.I)
	r.pending[key] = true
	r.mu.Unlock()
	k := op.K
	if op.O == "W" && k == "" {
		k = "n"
	}
	r.log.add(x05Ev{Ev: "b", Op: op.O, Ep: op.E, I: op.I, K: k})
	r.wg.Add(1)
	go func() {
		defer r.wg.Done()
		end := x05Ev{Ev: "e", Op: op.O, Ep: op.E, I: op.I, K: k}
		func() {
			defer func() {
				if rec := recover(); rec != nil {
					end.Res, end.Note = "panic", fmt.Sprint(rec)
				}
			}()
			switch op.O {
			case "W":
				if err := conn.Write(ctx, x05Msg(op.E, op.I, k)); err != nil {
					end.Res, end.Note = "err", x05Short(err)
				} else {
					end.Res = "ok"
				}
			case "R":
				m, err := conn.Read(ctx)
				if err != nil {
					end.Res, end.Note = "err", x05Short(err)
				} else {
					end.Res = "msg"
					end.Src, end.W = x05Tag(m)
				}
			case "C":
				if err := conn.Close(); err != nil {
					end.Res, end.Note = "err", x05Short(err)
				} else {
					end.Res = "ok"
				}
			}
		}()
		r.mu.Lock()
		delete(r.pending, key)
		if op.O == "R" {
			r.reading[op.E] = false
		}
		if op.O == "C" {
			r.closeOK[op.E] = true
		}
		r.log.add(end) // under r.mu: a later begin at this endpoint is logged after this end
		r.mu.Unlock()
	}()
	return true
}

func x05Short(err error) string {
	s := err.Error()
	if len(s) > 80 {
		s = s[:80]
	}
	return s
}

func (r *x05Run) pend() []x05Pend {
	r.mu.Lock()
	defer r.mu.Unlock()
	keys := []string{}
	for k := range r.pending {
		keys = append(keys, k)
	}
	sort.Strings(keys)
	out := []x05Pend{}
	for _, k := range keys { // "A.W2"
		n, _ := strconv.Atoi(k[3:])
		out = append(out, x05Pend{Op: k[2:3], Ep: k[:1], I: n})
	}
	return out
}

func (r *x05Run) sids(e x05Ev) x05Ev {
	if c := r.link.conn["A"]; c != nil {
		e.SidA = c.SessionID()
	}
	if c := r.link.conn["B"]; c != nil {
		e.SidB = c.SessionID()
	}
	return e
}

func x05RunScenario(sc x05Scenario, log *x05Log, settle func() bool, before map[string]bool) {
	log.sc = &sc
	log.add(x05Ev{Ev: "reset"})
	link, err := x05Build(sc.Kind)
	if err != nil {
		log.add(x05Ev{Ev: "mark", Name: "broken", Note: err.Error()})
		return
	}
	r := &x05Run{sc: sc, log: log, link: link, pending: map[string]bool{}, usedW: map[string]bool{}, usedC: map[string]bool{},
		reading: map[string]bool{}, nread: map[string]int{}, exited: map[string]bool{}, closeOK: map[string]bool{}}
	settled := true
	wait := func() {
		if !settle() {
			settled = false
		}
	}
	wait()
	log.add(r.sids(x05Ev{Ev: "mark", Name: "m0"}))
	for _, op := range sc.Ops {
		if !r.begin(op) {
			log.add(x05Ev{Ev: "skip", Op: op.O, Ep: op.E, I: op.I})
			continue
		}
		if !op.NS {
			wait()
		}
	}
	wait()
	note := ""
	if !settled {
		note = "unsettled"
	}
	log.add(r.sids(x05Ev{Ev: "mark", Name: "m1", Pend: r.pend(), Note: note}))
	// discharge: both ends are closed, both processes exit
	for _, ep := range []string{"A", "B"} {
		r.begin(x05Op{O: "C", E: ep, I: 3})
		wait()
	}
	for _, ep := range []string{"A", "B"} {
		if r.begin(x05Op{O: "X", E: ep}) {
			wait()
		}
	}
	wait()
	m2 := r.sids(x05Ev{Ev: "mark", Name: "m2"})
	link.cleanup()
	wait()
	leak := []string{}
	if before != nil {
		for _, g := range x05Goroutines() {
			if !before[g.id] && !strings.Contains(g.top, "x05") {
				leak = append(leak, g.top+"<-"+g.created)
			}
		}
		sort.Strings(leak)
	}
	note = ""
	if !settled {
		note = "unsettled"
	}
	m2.Pend, m2.Leak, m2.Note = r.pend(), leak, note
	log.add(m2)
}

func TestVerif_X05(t *testing.T) {
	in, outp := os.Getenv("VERIF_IN"), os.Getenv("VERIF_OUT")
	if in == "" || outp == "" {
		t.Skip("VERIF_IN/VERIF_OUT not set")
	}
	fin, err := os.Open(in)
	if err != nil {
		t.Fatal(err)
	}
	defer fin.Close()
	fout, err := os.Create(outp)
	if err != nil {
		t.Fatal(err)
	}
	defer fout.Close()
	w := bufio.NewWriterSize(fout, 1<<20)
	defer w.Flush()
	enc := json.NewEncoder(w)
	sc := bufio.NewScanner(fin)
	sc.Buffer(make([]byte, 1<<20), 1<<26)
	for sc.Scan() {
		var s x05Scenario
		if err := json.Unmarshal(sc.Bytes(), &s); err != nil {
			t.Fatalf("bad scenario line: %v", err)
		}
		log := &x05Log{}
		switch s.Cls {
		case "sse", "stream", "streamns":
			leak := func() (leak string) {
				defer func() {
					if rec := recover(); rec != nil {
						leak = fmt.Sprint(rec)
					}
				}()
				synctest.Test(t, func(t *testing.T) {
					settle := func() bool { synctest.Wait(); return true }
					if s.Cls != "sse" {
						// the streamable client notices a vanished stream by reconnecting (1 s + jitter, virtual)
						settle = func() bool { synctest.Wait(); time.Sleep(4 * time.Second); synctest.Wait(); return true }
					}
					x05RunScenario(s, log, settle, nil)
					time.Sleep(24 * time.Hour)
				})
				return ""
			}()
			if leak != "" && len(log.evs) > 0 {
				last := &log.evs[len(log.evs)-1]
				if len(leak) > 160 {
					leak = leak[:160]
				}
				last.Leak = append(last.Leak, "bubble: "+leak)
			}
		default:
			before := map[string]bool{}
			for _, g := range x05Goroutines() {
				before[g.id] = true
			}
			x05RunScenario(s, log, x05SettleReal, before)
		}
		for _, e := range log.evs {
			enc.Encode(e)
		}
		w.Flush()
	}
}
