//go:build verif

// Conformance harness for property C07, the interleaving dimension (spec/NegotiateConc.tla), public API only.
//
// A scenario = the cases of N connections (cells of the one-connection matrix: requested version x transport class)
// + one complete schedule of the steps connect / dispatch / answer / finish that TLC enumerated. Every scenario is
// replayed on ONE real mcp.Server that is published over all the transports the scenario names at once: in-memory /
// io pipes whose server end is (or is not) wrapped in a ProtocolVersionSupporter, one SSEHandler, one streamable
// HTTP handler per kind (stateful / stateful without session ids / stateless), all in process (c07RT), inside a
// testing/synctest bubble. Nothing but gates decides the order (no sleeps); after every step synctest.Wait()
// waits until every goroutine of the scenario is blocked at a gate or idle:
//
//	connect(i)   pipes: the harness calls Server.Connect on the server end; SSE: client i starts, its GET reaches
//	             SSEHandler (Server.Connect) and the endpoint event reaches the client. The client's first request
//	             is held at the client's end of the transport (pipe tap / RoundTripper) until told.
//	dispatch(i)  the first request of client i is let go and travels as far as a receiving middleware of the
//	             Server, which parks it (streamable endpoints: the POST also runs Server.Connect; the client is
//	             started in this step).
//	answer(i)    the middleware lets the request on: the SDK's handler (Server.discover / initialize) answers and the
//	             client receives the answer; whatever the client wants to send next is held until told.
//	finish(i)    client i completes Connect, then lists and calls tools at once.
//	             (schedules with fine = false: part of answer)
//
// One observation line per connection (same shape as the one-connection cells), judged by NegotiateMon with the
// clauses of NegotiateDefs!Holds on the connection's OWN case; the steps during which the connection's events
// really happened are recorded too (`at`), so that the runner can tell that the replay followed the schedule.
package mcp_test

import (
	"bufio"
	"bytes"
	"context"
	"encoding/json"
	"fmt"
	"io"
	"math/rand/v2"
	"net/http"
	"os"
	"slices"
	"sort"
	"strings"
	"sync"
	"testing"
	"testing/synctest"
	"time"

	"github.com/modelcontextprotocol/go-sdk/jsonrpc"
	"github.com/modelcontextprotocol/go-sdk/mcp"
)

type c07Scn struct {
	Scn   int        `json:"scn"`
	N     int        `json:"n"`
	Fine  bool       `json:"fine"`
	Sched [][]string `json:"sched"`
	Conns []c07Case  `json:"conns"`
}

// c07Conn is one connection of a scenario.
type c07Conn struct {
	name string
	c    c07Case
	run  *c07ConcRun

	first chan struct{} // closed by dispatch: the client's first request may leave
	ans   chan struct{} // closed by answer: the parked first request goes on to the SDK's handler
	fin   chan struct{} // closed by finish: everything after the first answer may leave
	done  chan struct{} // the client goroutine has recorded its outcome

	mu         sync.Mutex
	nOut       int  // requests / notifications the client has tried to send
	parked     bool // the first request that reached the Server's method handlers has been seen
	connecting bool
	at         map[string]int
	real       c07Real
	cs         *mcp.ClientSession
}

func (cn *c07Conn) mark(ev string) {
	step := cn.run.curStep()
	cn.mu.Lock()
	if _, ok := cn.at[ev]; !ok {
		cn.at[ev] = step
	}
	cn.mu.Unlock()
}

// hold is the client-side gate: the first outgoing request waits for dispatch, all later ones for finish.
func (cn *c07Conn) hold(ctx context.Context) {
	cn.mu.Lock()
	cn.nOut++
	n := cn.nOut
	cn.mu.Unlock()
	g := cn.fin
	if n == 1 {
		g = cn.first
	}
	select {
	case <-g:
	case <-ctx.Done():
	}
}

func (cn *c07Conn) noteWire(method string) {
	cn.mu.Lock()
	if cn.connecting {
		cn.real.Wire = append(cn.real.Wire, method)
	}
	cn.mu.Unlock()
}

// pipes: gate + wire tap on the client's end
type c07GateT struct {
	mcp.Transport
	cn *c07Conn
}

type c07GateConn struct {
	mcp.Connection
	cn *c07Conn
}

func (t *c07GateT) Connect(ctx context.Context) (mcp.Connection, error) {
	c, err := t.Transport.Connect(ctx)
	if err != nil {
		return nil, err
	}
	return &c07GateConn{Connection: c, cn: t.cn}, nil
}

func (c *c07GateConn) Write(ctx context.Context, m jsonrpc.Message) error {
	r, isReq := m.(*jsonrpc.Request)
	if isReq {
		c.cn.hold(ctx)
	}
	err := c.Connection.Write(ctx, m)
	if isReq && err == nil {
		c.cn.noteWire(r.Method)
	}
	return err
}

// HTTP: gate + wire tap in front of the in-process RoundTripper (POSTs that carry a request or notification)
type c07GateRT struct {
	next http.RoundTripper
	cn   *c07Conn
}

func (g *c07GateRT) RoundTrip(req *http.Request) (*http.Response, error) {
	if req.Method == http.MethodPost && req.Body != nil {
		b, err := io.ReadAll(req.Body)
		req.Body.Close()
		if err != nil {
			return nil, err
		}
		req.Body = io.NopCloser(bytes.NewReader(b))
		var m struct {
			Method string `json:"method"`
		}
		if json.Unmarshal(b, &m) == nil && m.Method != "" {
			g.cn.hold(req.Context())
			if err := req.Context().Err(); err != nil {
				return nil, err
			}
			g.cn.noteWire(m.Method)
		}
	}
	// tells the harness's getServer callback whose request this is (the handlers ask it for the Server right
	// before they call Server.Connect)
	req.Header.Set(c07ConcHeader, g.cn.name)
	return g.next.RoundTrip(req)
}

// c07ConcRun is one scenario being replayed.
type c07ConcRun struct {
	mu     sync.Mutex
	step   int
	byName map[string]*c07Conn // by client implementation name
}

func (d *c07ConcRun) curStep() int {
	d.mu.Lock()
	defer d.mu.Unlock()
	return d.step
}

func c07ConcClientName(who string) string { return "c07-conn-" + who }

const c07ConcHeader = "X-C07-Conn"

// c07ConcPark is the server-side gate: a receiving middleware that parks the first request of every connection
// that reaches the Server's method handlers (server/discover or initialize; the client says who it is in both)
// until the schedule says "answer".
func c07ConcPark(server *mcp.Server, d *c07ConcRun) {
	server.AddReceivingMiddleware(func(next mcp.MethodHandler) mcp.MethodHandler {
		return func(ctx context.Context, method string, req mcp.Request) (mcp.Result, error) {
			name := ""
			switch r := req.(type) {
			case *mcp.ServerRequest[*mcp.DiscoverParams]:
				if ci := r.ClientInfo(); ci != nil {
					name = ci.Name
				}
			case *mcp.ServerRequest[*mcp.InitializeParams]:
				if r.Params != nil && r.Params.ClientInfo != nil {
					name = r.Params.ClientInfo.Name
				}
			}
			d.mu.Lock()
			cn := d.byName[name]
			d.mu.Unlock()
			if cn != nil {
				cn.mu.Lock()
				firstHere := !cn.parked
				cn.parked = true
				cn.mu.Unlock()
				if firstHere {
					cn.mark("dispatched")
					select {
					case <-cn.ans:
					case <-ctx.Done():
					}
					cn.mark("released")
				}
			}
			return next(ctx, method, req)
		}
	})
}

func c07ConcReplay(t *testing.T, r *rand.Rand, sc c07Scn) []c07Line {
	names := []string{"A", "B", "C"}[:len(sc.Conns)]
	ntools := 1 + r.IntN(3)
	var tools []string
	for i := 0; i < ntools; i++ {
		tools = append(tools, fmt.Sprintf("tool_%c%d", 'a'+rune(r.IntN(26)), i))
	}
	sort.Strings(tools)

	// --- ONE server for all connections of the scenario
	var sopts *mcp.ServerOptions
	for _, c := range sc.Conns {
		if c.Tr == "statefulnosid" {
			sopts = &mcp.ServerOptions{GetSessionID: func() string { return "" }}
		}
	}
	server := mcp.NewServer(&mcp.Implementation{Name: "c07-server", Version: "v1"}, sopts)
	for _, name := range tools {
		name := name
		mcp.AddTool(server, &mcp.Tool{Name: name, Description: "echo"},
			func(ctx context.Context, req *mcp.CallToolRequest, a c07Args) (*mcp.CallToolResult, any, error) {
				return &mcp.CallToolResult{Content: []mcp.Content{&mcp.TextContent{Text: name + ":" + a.X}}}, nil, nil
			})
	}
	d := &c07ConcRun{byName: map[string]*c07Conn{}}
	c07ConcPark(server, d)
	conns := map[string]*c07Conn{}
	// SSEHandler (GET) and StreamableHTTPHandler (every POST that creates a session) ask for the Server right before
	// they call Server.Connect: the step in which the session that answers a connection's first request was bound
	getServer := func(req *http.Request) *mcp.Server {
		d.mu.Lock()
		cn := conns[req.Header.Get(c07ConcHeader)]
		d.mu.Unlock()
		if cn != nil {
			cn.mark("bound")
		}
		return server
	}
	// one handler per kind of endpoint, shared by the connections that use it
	handlers := map[string]http.Handler{}
	handler := func(tr string) http.Handler {
		if h, ok := handlers[tr]; ok {
			return h
		}
		var h http.Handler
		if tr == "sse" {
			h = mcp.NewSSEHandler(getServer, nil)
		} else {
			h = mcp.NewStreamableHTTPHandler(getServer, &mcp.StreamableHTTPOptions{Stateless: tr == "stateless"})
		}
		handlers[tr] = h
		return h
	}

	ctx, cancelAll := context.WithTimeout(context.Background(), 2*time.Minute)
	defer cancelAll()
	var cleanup []func()
	for i, who := range names {
		cn := &c07Conn{name: who, c: sc.Conns[i], run: d, first: make(chan struct{}), ans: make(chan struct{}),
			fin: make(chan struct{}), done: make(chan struct{}), connecting: true, at: map[string]int{}}
		cn.real.Kind = "error"
		cn.real.Methods = []string{}
		cn.real.Wire = []string{}
		d.mu.Lock()
		conns[who] = cn
		d.byName[c07ConcClientName(who)] = cn
		d.mu.Unlock()
	}
	calls := map[string][2]string{} // the tool and argument every connection will call
	for _, who := range names {
		calls[who] = [2]string{tools[r.IntN(len(tools))], fmt.Sprintf("arg%d", r.IntN(1000))}
	}

	// start: the client of connection cn (its own Client, its own end of the transport)
	start := func(cn *c07Conn, ct mcp.Transport) {
		reqStr := cn.c.Req
		if reqStr == "default" {
			reqStr = ""
		}
		client := mcp.NewClient(&mcp.Implementation{Name: c07ConcClientName(cn.name), Version: "v1"}, nil)
		client.AddSendingMiddleware(func(next mcp.MethodHandler) mcp.MethodHandler {
			return func(ctx context.Context, method string, req mcp.Request) (mcp.Result, error) {
				cn.mu.Lock()
				first := cn.connecting && len(cn.real.Methods) == 0
				if cn.connecting {
					cn.real.Methods = append(cn.real.Methods, method)
				}
				cn.mu.Unlock()
				res, err := next(ctx, method, req)
				if first {
					cn.mark("got") // the answer to the first request has reached the client
				}
				return res, err
			}
		})
		go func() {
			defer close(cn.done)
			out := &cn.real
			var errs []string
			cctx, ccancel := context.WithTimeout(ctx, 90*time.Second)
			defer ccancel()
			cs, err := client.Connect(cctx, ct, &mcp.ClientSessionOptions{ProtocolVersion: reqStr})
			cn.mu.Lock()
			cn.connecting = false
			for _, m := range out.Methods {
				if m == "server/discover" {
					out.NDisc++
				}
			}
			out.SentInit = slices.Contains(out.Wire, "initialize")
			cn.cs = cs
			cn.mu.Unlock()
			cn.mark("connected")
			select {
			case <-cn.fin:
			case <-ctx.Done():
			}
			if err != nil {
				errs = append(errs, "connect: "+err.Error())
			} else {
				out.Kind = "session"
				if ir := cs.InitializeResult(); ir != nil {
					out.Version = ir.ProtocolVersion
				}
				lctx, lcancel := context.WithTimeout(ctx, 30*time.Second)
				lres, lerr := cs.ListTools(lctx, nil)
				lcancel()
				if lerr != nil {
					errs = append(errs, "list: "+lerr.Error())
				} else {
					var got []string
					for _, tl := range lres.Tools {
						got = append(got, tl.Name)
					}
					sort.Strings(got)
					out.ListOK = slices.Equal(got, tools)
					if !out.ListOK {
						errs = append(errs, fmt.Sprintf("list: got %v", got))
					}
				}
				target, arg := calls[cn.name][0], calls[cn.name][1]
				kctx, kcancel := context.WithTimeout(ctx, 30*time.Second)
				cres, cerr := cs.CallTool(kctx, &mcp.CallToolParams{Name: target, Arguments: map[string]any{"x": arg}})
				kcancel()
				if cerr != nil {
					errs = append(errs, "call: "+cerr.Error())
				} else {
					if !cres.IsError && len(cres.Content) == 1 {
						if tc, ok := cres.Content[0].(*mcp.TextContent); ok && tc.Text == target+":"+arg {
							out.CallOK = true
						}
					}
					if !out.CallOK {
						errs = append(errs, "call: unexpected result")
					}
				}
			}
			out.Err = strings.Join(errs, " | ")
			if len(out.Err) > 300 {
				out.Err = out.Err[:300]
			}
			cn.mark("done")
		}()
	}
	httpClient := func(cn *c07Conn) *http.Client {
		return &http.Client{Transport: &c07GateRT{next: &c07RT{h: handler(cn.c.Tr)}, cn: cn}}
	}
	lazyT := func(cn *c07Conn) mcp.Transport {
		return &mcp.StreamableClientTransport{Endpoint: "http://c07.verif.test/" + cn.c.Tr, HTTPClient: httpClient(cn)}
	}
	wrapS := func(cn *c07Conn, st mcp.Transport) mcp.Transport {
		if cn.c.Wrap {
			// the first question Server.Connect asks the wrapper: the list is being computed
			return &c07PVS{Transport: st, adv: cn.c.Adv, early: func() { cn.mark("bound") }}
		}
		return st
	}

	// --- the schedule
	for k, stp := range sc.Sched {
		cn := conns[stp[1]]
		if cn == nil {
			t.Fatalf("c07conc: scenario %d: step of unknown connection %v", sc.Scn, stp)
		}
		d.mu.Lock()
		d.step = k
		d.mu.Unlock()
		switch stp[0] {
		case "connect":
			switch cn.c.Tr {
			case "mem":
				cti, sti := mcp.NewInMemoryTransports()
				ss, err := server.Connect(ctx, wrapS(cn, sti), nil)
				if err != nil {
					t.Fatalf("c07conc: server.Connect: %v", err)
				}
				cleanup = append(cleanup, func() { ss.Close() })
				if !cn.c.Wrap {
					cn.mark("bound")
				}
				start(cn, &c07GateT{Transport: cti, cn: cn})
			case "io":
				c2sR, c2sW := io.Pipe()
				s2cR, s2cW := io.Pipe()
				ss, err := server.Connect(ctx, wrapS(cn, &mcp.IOTransport{Reader: c2sR, Writer: s2cW}), nil)
				if err != nil {
					t.Fatalf("c07conc: server.Connect: %v", err)
				}
				cleanup = append(cleanup, func() { c2sW.Close(); s2cR.Close(); ss.Close() })
				if !cn.c.Wrap {
					cn.mark("bound") // no ProtocolVersionSupporter to ask: Server.Connect has just returned
				}
				start(cn, &c07GateT{Transport: &mcp.IOTransport{Reader: s2cR, Writer: c2sW}, cn: cn})
			case "sse":
				start(cn, &mcp.SSEClientTransport{Endpoint: "http://c07.verif.test/sse", HTTPClient: httpClient(cn)})
			default:
				t.Fatalf("c07conc: scenario %d: connect step for lazy transport %q", sc.Scn, cn.c.Tr)
			}
		case "dispatch":
			close(cn.first)
			switch cn.c.Tr {
			case "stateful", "statefulnosid", "stateless":
				start(cn, lazyT(cn))
			}
		case "answer":
			close(cn.ans)
			if !sc.Fine {
				close(cn.fin)
			}
		case "finish":
			close(cn.fin)
		default:
			t.Fatalf("c07conc: scenario %d: unknown step %v", sc.Scn, stp)
		}
		synctest.Wait() // the step has run to its end: every goroutine is blocked at a gate or idle
	}
	d.mu.Lock()
	d.step = len(sc.Sched)
	d.mu.Unlock()

	// --- every step has been replayed: every client must have its outcome
	var lines []c07Line
	for i, who := range names {
		cn := conns[who]
		select {
		case <-cn.done:
		default:
			cancelAll()
			t.Fatalf("c07conc: scenario %d (%v): connection %s has no outcome after the last step (at %v, methods %v)",
				sc.Scn, sc.Sched, who, cn.at, cn.real.Methods)
		}
		var ats []string
		for ev, st := range cn.at {
			ats = append(ats, fmt.Sprintf("%s=%d", ev, st))
		}
		sort.Strings(ats)
		reqStr := cn.c.Req
		if reqStr == "default" {
			reqStr = ""
		}
		lines = append(lines, c07Line{Case: sc.Conns[i], Real: cn.real, ReqStr: reqStr, Tools: tools, Scn: sc.Scn, Who: who,
			At: strings.Join(ats, ",")})
	}
	for _, who := range names {
		if cs := conns[who].cs; cs != nil {
			closed := make(chan struct{})
			go func() { cs.Close(); close(closed) }()
			select {
			case <-closed:
			case <-time.After(time.Minute):
				t.Fatalf("c07conc: scenario %d: closing the session of connection %s is still blocked after 1m", sc.Scn, who)
			}
		}
	}
	for _, f := range cleanup {
		f()
	}
	time.Sleep(time.Second)
	for ss := range server.Sessions() {
		go ss.Close()
	}
	cancelAll()
	return lines
}

func c07ConcAll(t *testing.T, r *rand.Rand, in string, prog *os.File, emit func(c07Line)) {
	fin, err := os.Open(in)
	if err != nil {
		t.Fatal(err)
	}
	defer fin.Close()
	sc := bufio.NewScanner(fin)
	sc.Buffer(make([]byte, 1<<16), 1<<22)
	for sc.Scan() {
		var scn c07Scn
		if err := json.Unmarshal(sc.Bytes(), &scn); err != nil {
			t.Fatalf("bad scenario: %v", err)
		}
		for i := range scn.Conns {
			c := &scn.Conns[i]
			if c.Adv == nil {
				c.Adv = []string{}
			}
		}
		if prog != nil {
			fmt.Fprintf(prog, "conc %d 0 %s\n", scn.Scn, sc.Bytes())
		}
		var lines []c07Line
		synctest.Test(t, func(t *testing.T) {
			lines = c07ConcReplay(t, r, scn)
			time.Sleep(2 * time.Minute) // let everything the scenario started wind down (virtual time)
		})
		if len(lines) != len(scn.Conns) {
			t.Fatalf("c07conc: scenario %d produced %d lines", scn.Scn, len(lines))
		}
		for _, l := range lines {
			emit(l)
		}
	}
}
