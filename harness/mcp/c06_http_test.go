//go:build verif

// Conformance harness for property C06, HTTP decision table (spec/LifecycleHttp.tla): ONE POST whose
// protocol version is named twice - by the Mcp-Protocol-Version header and by the per-request _meta of the
// body - in every combination of the two, on every endpoint / session phase:
//
//	nosid      stateful StreamableHTTPHandler (default options), no Mcp-Session-Id
//	sess       stateful handler, the POST carries the id of a session that has completed the legacy handshake
//	stateless  StreamableHTTPOptions.Stateless
//
// The cases are enumerated by TLC (VERIF_IN_HTTP, one per line); the harness concretises each one (helpers of
// c06_lifecycle_test.go), sends it in process (handler.ServeHTTP with a buffering ResponseWriter, inside a
// testing/synctest bubble: "no reply" is a fact) against a real mcp.Server whose every user-visible handler
// counts its invocations, and records what came back, which handlers ran and how many server sessions the
// exchange left registered.  The verdict is the TLA+ monitor's (spec/LifecycleHttpMon.tla).
package mcp_test

import (
	"bufio"
	"bytes"
	"context"
	"encoding/json"
	"fmt"
	"math/rand/v2"
	"net/http"
	"os"
	"slices"
	"strconv"
	"strings"
	"testing"
	"testing/synctest"
	"time"

	"github.com/modelcontextprotocol/go-sdk/mcp"
)

type c06HCase struct {
	Ep         string `json:"ep"`
	Hv         string `json:"hv"`
	Bv         string `json:"bv"`
	M          string `json:"m"`
	Consistent bool   `json:"consistent"`
}

type c06HObs struct {
	Reply string   `json:"reply"`
	Code  int      `json:"code"`
	NList int      `json:"nlist"`
	LMod  bool     `json:"lmod"` // error.data.supported contains 2026-07-28
	H     []string `json:"h"`
	NSess int      `json:"nsess"` // server sessions registered after the exchange that were not there before
}

type c06HLine struct {
	ID     string   `json:"id"`
	C      c06HCase `json:"c"`
	O      c06HObs  `json:"o"`
	NRep   int      `json:"nrep"`
	Status int      `json:"status"`
	HdrVer string   `json:"hdrver"` // the Mcp-Protocol-Version sent ("" = none)
	Raw    string   `json:"raw"`
	Out    string   `json:"out"`
}

// c06Exchange performs one POST in process and returns status, response headers and the JSON-RPC messages
// of the body (one JSON object, or the data lines of SSE events).
func c06Exchange(t *testing.T, h http.Handler, raw string, hdr map[string]string) (int, http.Header, [][]byte, []byte) {
	ctx, cancel := context.WithCancel(context.Background())
	defer cancel()
	req, err := http.NewRequestWithContext(ctx, "POST", "http://c06.verif.test/mcp", strings.NewReader(raw))
	if err != nil {
		t.Fatal(err)
	}
	req.Header.Set("Content-Type", "application/json")
	req.Header.Set("Accept", "application/json, text/event-stream")
	req.RemoteAddr = "192.0.2.1:1234"
	for k, v := range hdr {
		req.Header.Set(k, v)
	}
	w := &c06RW{hdr: http.Header{}}
	done := make(chan struct{})
	go func() { defer close(done); h.ServeHTTP(w, req) }()
	synctest.Wait()
	select {
	case <-done:
	default:
		cancel() // the exchange is still open: the client goes away
		<-done
	}
	cancel()
	synctest.Wait()
	w.mu.Lock()
	status := w.code
	body := append([]byte(nil), w.buf.Bytes()...)
	w.mu.Unlock()
	var msgs [][]byte
	if strings.HasPrefix(w.hdr.Get("Content-Type"), "text/event-stream") {
		for _, ln := range bytes.Split(body, []byte("\n")) {
			if d, ok := bytes.CutPrefix(ln, []byte("data:")); ok && len(bytes.TrimSpace(d)) > 0 {
				msgs = append(msgs, bytes.TrimSpace(d))
			}
		}
	} else if len(bytes.TrimSpace(body)) > 0 {
		msgs = append(msgs, bytes.TrimSpace(body))
	}
	return status, w.hdr, msgs, body
}

func c06RunHTTPCase(t *testing.T, r *rand.Rand, id string, c c06HCase) c06HLine {
	cnt := &c06Counters{hits: map[string]int{}}
	server := c06Server(cnt)
	var opts *mcp.StreamableHTTPOptions
	if c.Ep == "stateless" {
		opts = &mcp.StreamableHTTPOptions{Stateless: true}
	}
	h := mcp.NewStreamableHTTPHandler(func(*http.Request) *mcp.Server { return server }, opts)
	line := c06HLine{ID: id, C: c}
	hdr := map[string]string{}
	n := 2
	sessVer := ""
	if c.Ep == "sess" {
		// the legacy handshake: initialize, adopt the session id, initialized
		sessVer = c06Pick(r, c06Legacy)
		init := fmt.Sprintf(`{"jsonrpc":"2.0","id":1,"method":"initialize","params":{"protocolVersion":%q,"capabilities":{"experimental":{"verif":{"step":1}}},"clientInfo":{"name":"c1","version":"1"}}}`, sessVer)
		st, rh, msgs, _ := c06Exchange(t, h, init, nil)
		reply, _, _, _, _ := c06Reply(msgs, "1")
		sid := rh.Get("Mcp-Session-Id")
		if st != 200 || reply != "result" || sid == "" {
			t.Fatalf("case %s: legacy handshake failed: initialize -> HTTP %d %s sid=%q", id, st, reply, sid)
		}
		st, _, _, _ = c06Exchange(t, h, `{"jsonrpc":"2.0","method":"notifications/initialized","params":{}}`,
			map[string]string{"Mcp-Session-Id": sid, "Mcp-Protocol-Version": sessVer})
		if st != 202 {
			t.Fatalf("case %s: legacy handshake failed: initialized -> HTTP %d", id, st)
		}
		hdr["Mcp-Session-Id"] = sid
		n = 3
	}
	before := map[*mcp.ServerSession]bool{}
	for s := range server.Sessions() {
		before[s] = true
	}
	cnt.take()

	// the body
	raw, rid := c06Build(r, c06Letter{M: c.M, Mt: c.Bv, Ip: "legacy", Sp: "plain", Mk: "exact"}, n)
	setVersion := func(v string) {
		old := fmt.Sprintf(`%q:%s`, c06KeyPV, strconv.Quote(c06CarriedVersion(raw)))
		if !strings.Contains(raw, old) {
			t.Fatalf("case %s: cannot find %s in %s", id, old, raw)
		}
		raw = strings.Replace(raw, old, fmt.Sprintf(`%q:%q`, c06KeyPV, v), 1)
	}
	// the header
	hv := ""
	switch c.Hv {
	case "legacy":
		hv = c06Pick(r, c06Legacy)
		if sessVer != "" {
			hv = sessVer
		}
	case "modern":
		hv = c06Modern
	case "unk_old":
		hv = c06Pick(r, c06UnkOld)
	case "unk_new":
		hv = c06Pick(r, c06UnkNew)
		if c.Bv == "newer" || c.Bv == "newer_nocaps" {
			hv = c06CarriedVersion(raw) // the same unknown version in both places
		}
	}
	if c.Bv == "legacy" {
		// a non-empty, supported legacy version; the header's when the header names one
		v := c06Pick(r, c06Legacy)
		if c.Hv == "legacy" {
			v = hv
		}
		setVersion(v)
	}
	if hv != "" {
		hdr["Mcp-Protocol-Version"] = hv
	}
	if hv >= c06Modern {
		hdr["Mcp-Method"] = c.M
		switch c.M {
		case "tools/call":
			hdr["Mcp-Name"] = "echo"
		case "prompts/get":
			hdr["Mcp-Name"] = "p"
		}
	}
	line.HdrVer, line.Raw = hv, raw

	status, _, msgs, body := c06Exchange(t, h, raw, hdr)
	line.Status = status
	line.O.Reply, line.O.Code, line.O.NList, line.NRep, line.Out = c06Reply(msgs, rid)
	if line.O.Reply == "none" && rid != "" && status >= 400 {
		// refused by the transport with a plain HTTP error: an error answer without a JSON-RPC code
		line.O.Reply, line.Out = "error", strings.TrimSpace(string(body))
	}
	if line.O.Reply == "error" && line.O.NList > 0 {
		var m struct {
			Error struct {
				Data struct {
					Supported []string `json:"supported"`
				} `json:"data"`
			} `json:"error"`
		}
		if json.Unmarshal([]byte(line.Out), &m) == nil {
			line.O.LMod = slices.Contains(m.Error.Data.Supported, c06Modern)
		}
	}
	line.O.H = cnt.take()
	for s := range server.Sessions() {
		if !before[s] {
			line.O.NSess++
		}
	}
	for s := range server.Sessions() {
		go s.Close()
	}
	return line
}

func TestVerif_C06Http(t *testing.T) {
	in, outp := os.Getenv("VERIF_IN_HTTP"), os.Getenv("VERIF_OUT_HTTP")
	if in == "" || outp == "" {
		t.Skip("VERIF_IN_HTTP/VERIF_OUT_HTTP not set")
	}
	seed, _ := strconv.ParseUint(os.Getenv("VERIF_SEED"), 10, 64)
	reps, _ := strconv.Atoi(os.Getenv("VERIF_REPS"))
	if reps < 1 {
		reps = 1
	}
	fin, err := os.Open(in)
	if err != nil {
		t.Fatal(err)
	}
	defer fin.Close()
	fout, err := os.Create(outp)
	if err != nil {
		t.Fatal(err)
	}
	defer fout.Close()
	w := bufio.NewWriterSize(fout, 1<<20)
	defer w.Flush()
	enc := json.NewEncoder(w)
	enc.SetEscapeHTML(false)
	sc := bufio.NewScanner(fin)
	sc.Buffer(make([]byte, 1<<16), 1<<22)
	k := 0
	for sc.Scan() {
		if len(bytes.TrimSpace(sc.Bytes())) == 0 {
			continue
		}
		var c c06HCase
		if err := json.Unmarshal(sc.Bytes(), &c); err != nil {
			t.Fatalf("bad case: %v", err)
		}
		var hsh uint64 = 1469598103934665603
		for _, b := range sc.Bytes() {
			hsh = (hsh ^ uint64(b)) * 1099511628211
		}
		for rep := 0; rep < reps; rep++ {
			r := rand.New(rand.NewPCG(seed, hsh+uint64(rep)))
			id := fmt.Sprintf("h%d.%d", k, rep)
			var line c06HLine
			synctest.Test(t, func(t *testing.T) {
				line = c06RunHTTPCase(t, r, id, c)
				time.Sleep(time.Minute) // let everything wind down in virtual time
			})
			if err := enc.Encode(line); err != nil {
				t.Fatal(err)
			}
		}
		k++
	}
	if err := sc.Err(); err != nil {
		t.Fatal(err)
	}
}
